// TLC module override for BigNum.tla: exact integer arithmetic on decimal strings.
// Every operator takes/returns TLA+ strings holding a (possibly negative) decimal integer,
// except where an Int or BOOLEAN is stated in BigNum.tla.
import java.math.BigInteger;
import tlc2.value.impl.BoolValue;
import tlc2.value.impl.IntValue;
import tlc2.value.impl.StringValue;
import tlc2.value.impl.Value;
import util.UniqueString;

public class BigNum {
    private static BigInteger b(Value v) {
        if (v instanceof StringValue) {
            return new BigInteger(((StringValue) v).getVal().toString());
        }
        if (v instanceof IntValue) {
            return BigInteger.valueOf(((IntValue) v).val);
        }
        throw new RuntimeException("BigNum: expected string or int, got " + v);
    }
    private static Value s(BigInteger x) {
        return new StringValue(UniqueString.uniqueStringOf(x.toString()));
    }
    public static Value BigAdd(Value a, Value c) { return s(b(a).add(b(c))); }
    public static Value BigSub(Value a, Value c) { return s(b(a).subtract(b(c))); }
    public static Value BigMul(Value a, Value c) { return s(b(a).multiply(b(c))); }
    // truncated (toward zero) quotient, like Go's big.Int.Quo
    public static Value BigQuo(Value a, Value c) { return s(b(a).divide(b(c))); }
    // remainder with the sign of the dividend, like Go's big.Int.Rem
    public static Value BigRem(Value a, Value c) { return s(b(a).remainder(b(c))); }
    public static Value BigNeg(Value a) { return s(b(a).negate()); }
    public static Value BigAbs(Value a) { return s(b(a).abs()); }
    public static Value BigCmp(Value a, Value c) { return IntValue.gen(b(a).compareTo(b(c))); }
    public static Value BigLT(Value a, Value c) { return b(a).compareTo(b(c)) < 0 ? BoolValue.ValTrue : BoolValue.ValFalse; }
    public static Value BigLE(Value a, Value c) { return b(a).compareTo(b(c)) <= 0 ? BoolValue.ValTrue : BoolValue.ValFalse; }
    public static Value BigEq(Value a, Value c) { return b(a).compareTo(b(c)) == 0 ? BoolValue.ValTrue : BoolValue.ValFalse; }
    public static Value BigMin(Value a, Value c) { return s(b(a).min(b(c))); }
    public static Value BigMax(Value a, Value c) { return s(b(a).max(b(c))); }
    public static Value BigPow10(Value n) { return s(BigInteger.TEN.pow(((IntValue) n).val)); }
    public static Value BigOfInt(Value n) { return s(b(n)); }
    public static Value BigToInt(Value a) { return IntValue.gen(b(a).intValueExact()); }
    public static Value BigNorm(Value a) { return s(b(a)); }
    public static Value BigSign(Value a) { return IntValue.gen(b(a).signum()); }
}
