SPECIFICATION ManySpec
CONSTANTS
  InitAccts <- MC_AcctsM
  MinLiq = "1"
  Amts = {"2"}
  MaxT = 1
  TStep = 1
  MaxLen = 22
  NTok = 11
  SplitMaxP = 0
  SplitMaxAmt = 0
  Defects = {"aggregate_lock_pairs_grants"}
INVARIANT MInv_P
PROPERTY MStep_Compensated
VIEW View
CHECK_DEADLOCK FALSE
