SPECIFICATION Spec
CONSTANTS
  BaseMax = 0
  GMax = 0
  MaxGases = {}
  ElasticityMax = 0
  DenominatorMax = 0
  MinGasPrices = {}
  InitBases = {"7", "20"}
  InitMaxGases = {"24"}
  ParamSets <- MC_ParamSets_quick
  Gases = {"0", "6", "24"}
  Useds = {"0", "5", "24"}
  SetMaxGases = {"8"}
  SetBases = {"1"}
  MaxAnte = 2
  MaxBlocks = 3
  MaxSets = 0
  MaxBounds = 2
  MaxLen = 0
  Defects = {}
INVARIANT MInv_Shape
INVARIANT MInv_Ghost
PROPERTY MStep_P
PROPERTY MSeq_P
VIEW View
CHECK_DEADLOCK FALSE
