SPECIFICATION Spec
CONSTANTS
  MaxNodes = 5
  MaxSpine = 9
  MaxSkel = 8
  MaxExt = 2
  EmitFullExt = 0
  EmitShortExt = 0
  SampleFull = 0
  SampleSkel = 0
  SpineExts = "none"
  Defects = {}
INVARIANT Inv_MCoversP
INVARIANT Inv_Shape
CHECK_DEADLOCK FALSE
