---------------------------- MODULE Erc20PegTrace ----------------------------
(* Validates traces recorded from the real x/erc20 message server, the EVM post-tx hook   *)
(* (real Ethereum transactions through DeliverTx), the bank-send wrapper and the ICS-20    *)
(* middleware stack (harness/erc20peg.go) against the property layer P of Erc20Peg          *)
(* (verdict) and against the as-built machine M with the known defect enabled               *)
(* (diagnostic).  Deterministic and total: every line is consumed, the model                *)
(* re-synchronises on the logged state, violations are accumulated as signatures.           *)
EXTENDS Erc20Peg

VARIABLES l, viol, div, nscn, grant
tvars == <<st, hist, burnt, leak, l, viol, div, nscn, grant>>

Trace == ndJsonDeserialize("trace.ndjson")

Sig(kind, class, e) == [prop |-> "C10", kind |-> kind, class |-> class, scn |-> e.scn, line |-> l]

\* the class of a step: how it reached the conversion code and which token it met.  A drain
\* by the thief is attributed to the path on which the token granted him the allowance over
\* the module's escrow (grant).
ClassOf(e, s, g) ==
    "path=" \o (IF e.ev = "thief_drain" THEN g ELSE PathOf(e.ev)) \o ",behaviour=" \o BehName(s)

TraceInit ==
    /\ l = 1 /\ viol = {} /\ div = {} /\ nscn = 0 /\ grant = "-"
    /\ st = [kind |-> "-"] /\ hist = <<>> /\ burnt = "0" /\ leak = "0"

TraceNext ==
    /\ l <= Len(Trace)
    /\ LET e == Trace[l] IN
       /\ l' = l + 1
       /\ st' = e.post
       /\ UNCHANGED <<hist, leak>>
       /\ IF e.ev = "reset"
          THEN /\ nscn' = nscn + 1
               /\ burnt' = "0"
               /\ grant' = "-"
               /\ viol' = viol \cup {Sig("init:" \o n, "path=-,behaviour=" \o BehName(e.post), e) : n \in BrokenInvariants(e.post, "0")}
               /\ div' = div
          ELSE LET b2 == IF e.ev = "holder_burn" /\ e.ok /\ st.kind = "coin"
                         THEN BigAdd(burnt, BigSub(st.tokenSupply, e.post.tokenSupply)) ELSE burnt
                   g2 == IF BigIsZero(st.allowMT) /\ ~BigIsZero(e.post.allowMT) THEN PathOf(e.ev) ELSE grant
                   cl == ClassOf(e, st, g2) IN
               /\ nscn' = nscn
               /\ burnt' = b2
               /\ grant' = g2
               /\ viol' = viol
                    \cup (IF StepOK(e, st, e.post) THEN {}
                          ELSE {Sig((IF e.ok THEN "step:" ELSE "failed-step-changed-state:") \o e.ev \o ":" \o OriginOf(st), cl, e)})
                    \cup {Sig(n, cl, e) : n \in BrokenInvariants(e.post, b2) \ BrokenInvariants(st, burnt)}
               /\ div' = div \cup
                    (LET r == MResult(st, e.ev, e.args) IN
                     IF r.ok = e.ok /\ r.post = e.post THEN {}
                     ELSE {[ev |-> e.ev, class |-> cl, scn |-> e.scn, line |-> l,
                            what |-> IF r.ok # e.ok THEN "accept/reject" ELSE "post-state"]})

TraceSpec == TraceInit /\ [][TraceNext]_tvars

Report == l <= Len(Trace) \/
          PrintT(<<"RESULT", ToJson([consumed |-> l - 1, scenarios |-> nscn, viol |-> viol, div |-> div])>>)
=============================================================================
