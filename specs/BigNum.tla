------------------------------- MODULE BigNum -------------------------------
(* Exact integers of arbitrary size, represented as decimal strings ("-12", "0",      *)
(* "340282366920938463463374607431768211456").  TLC's native integers are 32 bit and   *)
(* this chain computes on 10^18-scaled amounts, so every numeric specification uses     *)
(* these operators.  The definitions below only state the *meaning* for values that     *)
(* fit TLC integers; at run time they are replaced by the Java override                 *)
(* java/BigNum.java (java.math.BigInteger).  The ASSUMEs at the end compare the         *)
(* override against native arithmetic and against hand-computed large values, so a      *)
(* missing or wrong override is detected when the module is loaded.                     *)
EXTENDS Integers, TLC

\* Meaning on small values (never evaluated when the override is installed).
BigOfInt(n)   == ToString(n)
BigNorm(a)    == a
BigAdd(a, b)  == a
BigSub(a, b)  == a
BigMul(a, b)  == a
BigQuo(a, b)  == a     \* quotient truncated toward zero
BigRem(a, b)  == a     \* remainder with the sign of the dividend
BigNeg(a)     == a
BigAbs(a)     == a
BigCmp(a, b)  == 0     \* -1, 0, 1
BigLT(a, b)   == FALSE
BigLE(a, b)   == FALSE
BigEq(a, b)   == FALSE
BigMin(a, b)  == a
BigMax(a, b)  == a
BigPow10(n)   == "1"
BigToInt(a)   == 0
BigSign(a)    == 0

BigGE(a, b) == BigLE(b, a)
BigGT(a, b) == BigLT(b, a)
BigIsZero(a) == BigEq(a, "0")
\* floor division for non-negative divisor
BigFloorDiv(a, b) == IF BigSign(BigRem(a, b)) < 0 THEN BigSub(BigQuo(a, b), "1") ELSE BigQuo(a, b)

ASSUME \A x \in -7..7, y \in -7..7 :
          /\ BigAdd(BigOfInt(x), BigOfInt(y)) = BigOfInt(x + y)
          /\ BigSub(BigOfInt(x), BigOfInt(y)) = BigOfInt(x - y)
          /\ BigMul(BigOfInt(x), BigOfInt(y)) = BigOfInt(x * y)
          /\ BigLT(BigOfInt(x), BigOfInt(y)) = (x < y)
          /\ BigLE(BigOfInt(x), BigOfInt(y)) = (x <= y)
          /\ BigToInt(BigOfInt(x)) = x
          /\ (x >= 0 /\ y > 0) => /\ BigQuo(BigOfInt(x), BigOfInt(y)) = BigOfInt(x \div y)
                                  /\ BigRem(BigOfInt(x), BigOfInt(y)) = BigOfInt(x % y)
ASSUME BigQuo("-7", "2") = "-3" /\ BigRem("-7", "2") = "-1" /\ BigFloorDiv("-7", "2") = "-4"
ASSUME BigMul("340282366920938463463374607431768211456", "340282366920938463463374607431768211456")
         = "115792089237316195423570985008687907853269984665640564039457584007913129639936"
ASSUME BigPow10(18) = "1000000000000000000"
ASSUME BigAdd("999999999999999999999999999999", "1") = "1000000000000000000000000000000"
ASSUME BigNorm("007") = "7" /\ BigNorm("-0") = "0"
=============================================================================
