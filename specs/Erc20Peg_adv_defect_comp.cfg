SPECIFICATION Spec
CONSTANTS
  Holders = {"a1","a2"}
  Amts = {"1","2"}
  InitBal = "3"
  MaxLen = 4
  Scenarios <- MC_AdvModel
  Defects = {"hook_no_checks", "unescrow_receiver_only"}
INVARIANT MInv_Compensated
PROPERTY MStep_Compensated
VIEW View
CHECK_DEADLOCK FALSE
