SPECIFICATION Spec
CONSTANTS
  Accts = {"a1","a2"}
  Denoms = {"aISLM"}
  BadDenoms = {"bad"}
  Amts = {"0","1","2"}
  Ratios <- MC_Ratios
  InitBank = "3"
  MaxLen = 2
  Defects = {"dao_not_blocked"}
  Foreign = {"bank_send","bank_multisend"}
  BankAmts = {"1","2"}
INVARIANT MInv_P
VIEW View
CHECK_DEADLOCK FALSE
