SPECIFICATION OpsSpec
CONSTANTS
  Tier = "full"
  EnvDefects = {}
  Pools <- MC_Pools
  MaxLen = 5
  MaxWire = 2
  MaxDec = 2
  MaxPack = 2
  MaxPool = 3
  Getters <- MC_Getters
  Defects = {"BuildKeepsFeeWhenZero"}
INVARIANT OpsInv_RecordedHash
INVARIANT OpsInv_Faithful
INVARIANT OpsInv_PoolInPlace
INVARIANT OpsInv_EnvelopeTotals
INVARIANT OpsInv_PoolCases
PROPERTY OpsStepP
VIEW OpsView
CHECK_DEADLOCK FALSE
