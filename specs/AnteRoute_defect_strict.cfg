SPECIFICATION Spec
CONSTANTS
  MaxNodes = 4
  MaxSpine = 9
  MaxSkel = 5
  MaxExt = 2
  EmitFullExt = 0
  EmitShortExt = 0
  SampleFull = 0
  SampleSkel = 0
  SpineExts = "none"
  Defects = {"inner_flag_not_propagated"}
INVARIANT Inv_MCoversP
INVARIANT Inv_Shape
CHECK_DEADLOCK FALSE
