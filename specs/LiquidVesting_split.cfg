SPECIFICATION SplitSpec
CONSTANTS
  InitAccts <- MC_AcctsA
  MinLiq = "1"
  Amts = {"1","2"}
  MaxT = 8
  TStep = 2
  MaxLen = 1
  SplitMaxP = 4
  SplitMaxAmt = 4
  Defects = {}
INVARIANT SplitInv
CHECK_DEADLOCK FALSE
