SPECIFICATION Spec
CONSTANTS
  Defects = {}
  Tier = "quick"
INVARIANT Strict
CHECK_DEADLOCK FALSE
