SPECIFICATION Spec
CONSTANTS
  Signers = {"s1"}
  Nonces <- MC_Nonces
  Routes = {"eth-dynamicfee","cosmos-direct"}
  Quals = {"good"}
  MaxSub = 3
  MaxBlocks = 1
  MaxEvents = 1
  MaxLen = 0
  Defects = {"rewrite_resets_sequence"}
INVARIANT MInv_Once
INVARIANT MInv_Executed
PROPERTY MStep_P
VIEW View
CHECK_DEADLOCK FALSE
