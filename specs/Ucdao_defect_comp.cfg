SPECIFICATION Spec
CONSTANTS
  Accts = {"a1","a2"}
  Denoms = {"aISLM"}
  BadDenoms = {"bad"}
  Amts = {"0","1","2"}
  Ratios <- MC_Ratios
  InitBank = "3"
  MaxLen = 4
  Defects = {"dao_self_transfer"}
INVARIANT MInv_Compensated
PROPERTY MStep_Compensated
VIEW View
CHECK_DEADLOCK FALSE
