--------------------------- MODULE CoinomicsTrace ---------------------------
(* Validates traces recorded from the real x/coinomics EndBlocker (harness/coinomics.go) *)
(* against the property layer P of Coinomics (verdict, `viol`) and against the as-built  *)
(* machine M and the Dec18 operators (diagnostic, `div`).  Deterministic and total:      *)
(* every line is consumed, the model re-synchronises on the logged state, violations are *)
(* accumulated as signatures.                                                            *)
(* Two kinds of scenario: the coinomics EndBlocker alone on a scripted context (events   *)
(* endblock / set_* / ext_supply), and whole blocks of a chain driven through ABCI       *)
(* (event block: BeginBlock with evidence and absent validators, signed transactions,    *)
(* EndBlock of every module in the order of app.go, Commit; harness/coinchain.go).  A    *)
(* block line carries `pre` (state read before the application's EndBlock), `gov` (the   *)
(* parameter changes of the proposals that this EndBlock moved from the voting period to  *)
(* PASSED, read from the gov store) and `post` (state after EndBlock).                   *)
EXTENDS Coinomics

VARIABLES l, viol, div, nscn
tvars == <<st, gh, hist, cfg, l, viol, div, nscn>>

Trace == ndJsonDeserialize("trace.ndjson")

Sig(kind, class, e) == [prop |-> "C13", kind |-> kind, class |-> class, scn |-> e.scn, line |-> l]
Div(what, e) == [ev |-> e.ev, what |-> what, scn |-> e.scn, line |-> l]

\* first field in which the as-built machine and the code disagree
FirstDiff(a, b) ==
    IF DOMAIN a # DOMAIN b THEN "shape"
    ELSE LET ds == {f \in DOMAIN a : a[f] # b[f]} IN
         IF ds = {} THEN "none" ELSE CHOOSE f \in ds : TRUE

DecDiv(e) ==
    LET a == e.args.a  b == e.args.b IN
    (IF DecMul(a, b) = e.post.mul THEN {} ELSE {Div("Dec18.DecMul", e)})
    \cup (IF DecQuo(a, b) = e.post.quo THEN {} ELSE {Div("Dec18.DecQuo", e)})
    \cup (IF DecRoundInt(a) = e.post.round THEN {} ELSE {Div("Dec18.DecRoundInt", e)})
    \cup (IF DecTruncateInt(a) = e.post.trunc THEN {} ELSE {Div("Dec18.DecTruncateInt", e)})

TraceInit ==
    /\ l = 1 /\ viol = {} /\ div = {} /\ nscn = 0
    /\ st = [enabled |-> TRUE] /\ gh = [mode |-> "fresh"] /\ hist = <<>> /\ cfg = <<>>

TraceNext ==
    /\ l <= Len(Trace)
    /\ LET e == Trace[l] IN
       /\ l' = l + 1
       /\ UNCHANGED <<hist, cfg>>
       /\ CASE e.ev = "reset" ->
                 /\ nscn' = nscn + 1
                 /\ st' = e.post
                 /\ gh' = GhostInit(e.post)
                 /\ viol' = viol
                 /\ div' = div \cup (IF e.post.prevTs = "0" THEN {} ELSE {Div("scenario starts with PrevBlockTS # 0", e)})
            [] e.ev = "dec" ->
                 /\ UNCHANGED <<nscn, st, gh, viol>>
                 /\ div' = div \cup DecDiv(e)
            [] e.ev = "endblock" ->
                 /\ nscn' = nscn
                 /\ st' = e.post
                 /\ gh' = GhostNext(e, st, e.post, gh)
                 /\ viol' = viol \cup {Sig(k, ClassOf(k, e, st, e.post, gh), e) : k \in StepBroken(e, st, e.post, gh)}
                              \cup (IF Inv_FeeEqMinted(e.post, GhostNext(e, st, e.post, gh)) \/ ~Inv_FeeEqMinted(st, gh) THEN {}
                                    ELSE {Sig("Inv_FeeEqMinted", ClassOf("", e, st, e.post, gh), e)})
                 /\ div' = div \cup
                      (LET r == MResult(st, e.ev, e.args) IN
                       IF r.post = e.post THEN {} ELSE {Div("post-state:" \o FirstDiff(r.post, e.post), e)})
            [] e.ev = "block" ->
                 LET inp == BlockInputs(e.pre, e.post, e.gov)
                     ts  == e.args.ts
                     gn  == GhostNext(e, inp, e.post, gh)
                     lbl(k) == IF k = "first-block-after-activation-minted" THEN ClassOf(k, e, inp, e.post, gh)
                               ELSE ClassOf(k, e, inp, e.post, gh) \o "," \o BlockClass(e.pre, e.post, e.gov)
                 IN
                 /\ nscn' = nscn
                 /\ st' = e.post
                 /\ gh' = gn
                 /\ viol' = viol \cup {Sig(k, lbl(k), e) : k \in BlockBroken(e.pre, e.post, gh, e.gov, ts)
                                                              \cup (IF e.ok THEN {} ELSE {"endblock-panicked"})}
                 /\ div' = div
                      \* BeginBlock and the transactions of the scenarios neither mint nor burn, and the
                      \* coinomics state is written by its end blocker only
                      \cup (IF e.pre.supply = st.supply /\ e.pre.prevTs = st.prevTs /\ e.pre.max = st.max
                               /\ e.pre.enabled = st.enabled /\ e.pre.coeff = st.coeff
                            THEN {} ELSE {Div("block-body", e)})
                      \* the parameter changes read from the gov store explain the parameters after the block
                      \cup (IF GovCoeff(e.pre.coeff, e.gov) = e.post.coeff THEN {} ELSE {Div("gov-observation", e)})
                      \cup (LET m == MBlockEnd(e.pre, e.gov, e.post.bonded, ts) IN
                            IF m = e.post THEN {} ELSE {Div("post-state:" \o FirstDiff(m, e.post), e)})
            [] OTHER ->
                 \* environment steps are performed by the harness itself: a mismatch is a
                 \* harness problem, never a verdict
                 /\ nscn' = nscn
                 /\ st' = e.post
                 /\ gh' = IF e.ev \in EnvEvents THEN GhostNext(e, st, e.post, gh) ELSE gh
                 /\ viol' = viol
                 /\ div' = div \cup (IF StepOK(e, st, e.post, gh) /\ e.ok THEN {} ELSE {Div("env-step", e)})

TraceSpec == TraceInit /\ [][TraceNext]_tvars

Report == l <= Len(Trace) \/
          PrintT(<<"RESULT", ToJson([consumed |-> l - 1, scenarios |-> nscn, viol |-> viol, div |-> div])>>)
=============================================================================
