SPECIFICATION Spec
CONSTANTS
  Defects = {"stale_overwrite", "no_cosmos_revert"}
  Family = "C04small"
INVARIANT Explained
CHECK_DEADLOCK FALSE
