---------------------------- MODULE LiquidVesting ----------------------------
(***************************************************************************)
(* Liquid vesting of haqq (x/liquidvesting on top of x/vesting).           *)
(*                                                                         *)
(* Property layer P (C11), written from the property statement only:       *)
(*   SplitOK        "for every period the amount left on the account plus  *)
(*                  the amount moved to the liquid token equals the        *)
(*                  original period amount, no part is negative, and the   *)
(*                  moved total equals the requested amount"               *)
(*   Inv_Backing    "every liquid token in circulation is backed one-for-  *)
(*                  one by native coins held by the module"                *)
(*   Inv_SchedSum   "its recorded schedule always sums to its supply"      *)
(*   LiquidateBroken / TransferBroken / RedeemBroken                       *)
(*                  the clauses a successful message must satisfy; in      *)
(*                  particular redeem "returns exactly the redeemed amount *)
(*                  under a schedule that releases nothing earlier than    *)
(*                  the original one did" (NoEarly below).                 *)
(*   A failed message must leave the state unchanged.  P never says that   *)
(*   a message must be accepted.                                           *)
(*                                                                         *)
(* Schedules are compared through their DENOTATION (module Schedule: bag   *)
(* of release events at absolute instants, step function Cum, reader       *)
(* Read), never through the shape of the period lists, so any              *)
(* representation the code chooses is accepted:                            *)
(*   liquidate  Events(lockup before) = Events(lockup after) (+) Events(   *)
(*              new liquid token), every part >= 0, total moved = x, and   *)
(*              only coins that are still locked (events after the block   *)
(*              time) are moved                                            *)
(*   redeem     at every instant u >= block time:                          *)
(*                 paidFree(u) + Cum(token after, u) <= Cum(token before, u) *)
(*              where paidFree(u) = x - (Locked'(u) - Locked(u)) is what   *)
(*              the recipient may spend of the x paid coins by u: the part *)
(*              of the token's schedule that left the record is the most   *)
(*              the recipient may have been released; the remaining record *)
(*              itself releases nothing earlier than before; and the part  *)
(*              that left is no earlier than the pro-rata share x/S of the *)
(*              token's schedule (every token carries 1/S of every release *)
(*              event; integral rounding may only delay).                  *)
(*                                                                         *)
(* As-built machine M: transcription of x/liquidvesting/types/schedule.go  *)
(* (SubtractAmountFromPeriods, ExtractUpcomingPeriods, ReplacePeriodsTail, *)
(* CurrentPeriodShift), keeper/msg_server.go (Liquidate, Redeem),          *)
(* x/vesting ReadSchedule / DisjunctPeriods / ApplyVestingSchedule /       *)
(* addGrant.  Deviation from P found in the pinned tree (F2, repaired in   *)
(* /repo by c3dec7b), kept as a named, switchable member of CONSTANT       *)
(* Defects so that its return is recognised:                               *)
(*   "merge_min_start"  ApplyVestingSchedule(merge) handed                 *)
(*        Min64(startTime, acc.StartTime) to addGrant: a grant that starts *)
(*        later than the recipient's account is re-based onto the          *)
(*        account's earlier start and unlocks early.                       *)
(* Deviation present in the tree (F17), same treatment:                    *)
(*   "aggregate_lock_pairs_grants"  Redeem attaches the redeemed coins as  *)
(*        a grant that is fully vested at once (vesting <<0, x>>).  A      *)
(*        clawback account locks  original vesting - min(unlocked, vested) *)
(*        on the account TOTALS, so the x vested-but-locked coins pair     *)
(*        with coins of the recipient that are unlocked but not yet        *)
(*        vested: min(U, V + x) - min(U, V) > 0 at once although nothing   *)
(*        of the redeemed schedule has been released.  The intended        *)
(*        machine lets redeemed coins vest as they unlock (vesting = the   *)
(*        redeemed lockup periods), which makes the clause hold for every  *)
(*        recipient.                                                       *)
(*                                                                         *)
(* Ledger state (a record; the same shape is projected by                  *)
(* harness/liquidvesting.go from the real stores):                         *)
(*   mod     native coins held by the liquidvesting module account         *)
(*   denoms  sequence (index = id + 1) of                                  *)
(*           [id, exists, start, end, periods, orig, supply, held, stray]  *)
(*           supply = bank supply of aLIQUID<id>; held[h] = coins + ERC20  *)
(*           tokens of holder h; exists = a Denom record is stored         *)
(*   acct    [name -> [kind, start, end, lockup, vesting, ov, bal]]        *)
(*           kind in {"vesting","plain","none"}; bal = native balance      *)
(*   minLiq, enabled   module parameters                                   *)
(* Histories with many tokens in circulation at once (identifiers of       *)
(* different lengths, drained in any order): module LiquidVestingMany.      *)
(* Block time is an argument of every message (args.t, seconds from the    *)
(* scripted genesis time).  Amounts are decimal strings (BigNum); a period *)
(* is [len |-> n, amt |-> [aISLM |-> "x"]] as in module Schedule.          *)
(***************************************************************************)
EXTENDS Schedule, Json

CONSTANTS
    InitAccts,   \* [name -> [kind, start, lockup, vesting, extra]]   initial accounts (vesting <<>>: at once)
    MinLiq,      \* minimum liquidation amount parameter
    Amts,        \* amounts the model draws
    MaxT,        \* block times 0..MaxT
    TStep,       \* a block is at most TStep seconds after the previous one
    MaxLen,      \* bound on the length of a behaviour
    SplitMaxP,   \* split input space: period lists with at most SplitMaxP periods ...
    SplitMaxAmt, \* ... and amounts 0..SplitMaxAmt
    Defects      \* subset of {"merge_min_start", "aggregate_lock_pairs_grants"}

ND == "aISLM"
D  == {ND}
C(x)      == [d \in D |-> x]
A(p)      == p.amt[ND]
P(len, x) == [len |-> len, amt |-> C(x)]
PTotal(ps)   == Total(D, Sched(0, ps))[ND]
SumOver(S, f(_)) == FoldSet(LAMBDA x, acc : BigAdd(acc, f(x)), "0", S)
Last(h) == h[Len(h)]

---------------------------------------------------------------------------
(* P: the split *)

SplitOK(ps, x, left, moved) ==
    /\ Len(left) = Len(ps) /\ Len(moved) = Len(ps)
    /\ \A i \in 1..Len(ps) :
          /\ left[i].len = ps[i].len /\ moved[i].len = ps[i].len
          /\ BigSign(A(left[i])) >= 0 /\ BigSign(A(moved[i])) >= 0
          /\ BigEq(BigAdd(A(left[i]), A(moved[i])), A(ps[i]))
    /\ BigEq(PTotal(moved), x)

---------------------------------------------------------------------------
(* P: invariants of a ledger state s *)

AcctsOf(s)  == DOMAIN s.acct
DenomIdx(s) == 1..Len(s.denoms)

Inv_Backing(s)  == BigEq(s.mod, SumOver(DenomIdx(s), LAMBDA i : s.denoms[i].supply))
Inv_SchedSum(s) == \A i \in DenomIdx(s) :
                      IF s.denoms[i].exists THEN BigEq(PTotal(s.denoms[i].periods), s.denoms[i].supply)
                                            ELSE BigIsZero(s.denoms[i].supply)
PeriodsNonNeg(ps) == \A j \in 1..Len(ps) : ps[j].len >= 0 /\ BigSign(A(ps[j])) >= 0
Inv_NonNeg(s) ==
    /\ BigSign(s.mod) >= 0
    /\ \A i \in DenomIdx(s) : /\ PeriodsNonNeg(s.denoms[i].periods)
                              /\ BigSign(s.denoms[i].supply) >= 0
                              /\ \A h \in DOMAIN s.denoms[i].held : BigSign(s.denoms[i].held[h]) >= 0
    /\ \A a \in AcctsOf(s) : /\ PeriodsNonNeg(s.acct[a].lockup)
                             /\ BigSign(s.acct[a].ov) >= 0 /\ BigSign(s.acct[a].bal) >= 0

InvNames == {"Inv_Backing", "Inv_SchedSum", "Inv_NonNeg"}
InvHolds(n, s) ==
    CASE n = "Inv_Backing"  -> Inv_Backing(s)
      [] n = "Inv_SchedSum" -> Inv_SchedSum(s)
      [] n = "Inv_NonNeg"   -> Inv_NonNeg(s)
BrokenInvariants(s) == {n \in InvNames : ~InvHolds(n, s)}

---------------------------------------------------------------------------
(* P: what is locked on an account at instant t (the spending rule of a     *)
(* clawback vesting account: locked = original vesting - min(unlocked,     *)
(* vested); nothing is locked on any other account)                         *)

ALock(a) == Sched(a.start, a.lockup)
AVest(a) == Sched(a.start, a.vesting)
\* what an account releases of a schedule at t: the reader of Schedule, and everything from the
\* account's recorded end time on (an account whose end time precedes the end of its periods releases
\* the rest THEN, whatever the periods say)
ReadAcct(a, sch, t) == IF t > a.start /\ t >= a.end THEN a.ov ELSE Read(D, sch, t)[ND]
AEnd(a) == Sched(a.end, <<>>)     \* makes the end time a critical instant
LockedAt(a, t) ==
    IF a.kind = "vesting"
    THEN BigSub(a.ov, BigMin(ReadAcct(a, ALock(a), t), ReadAcct(a, AVest(a), t)))
    ELSE "0"

\* what the rest of the world may see of an account ("none" and "plain" differ only in whether an
\* account object exists)
AView(a) == [vest |-> a.kind = "vesting", start |-> a.start, end |-> a.end, lockup |-> a.lockup,
             vesting |-> a.vesting, ov |-> a.ov, bal |-> a.bal]

FindDenom(s, id) == {i \in DenomIdx(s) : s.denoms[i].id = id}
DenomSched(d) == Sched(d.start, d.periods)
Params(s) == <<s.minLiq, s.enabled>>

---------------------------------------------------------------------------
(* P: effects.  Each operator returns the set of broken clauses (kinds). *)

LiquidateBroken(s, t, from, to, x, now) ==
    LET n == Len(s.denoms) IN
    IF ~(Len(t.denoms) = n + 1 /\ DOMAIN t.acct = DOMAIN s.acct /\ from \in AcctsOf(s)) THEN {"liquidate-ledger"}
    ELSE
    LET a == s.acct[from]  b == t.acct[from]  d == t.denoms[n + 1]
        Lb == ALock(a)  La == ALock(b)  Dn == DenomSched(d)
    IN
    (IF /\ SubSeq(t.denoms, 1, n) = s.denoms
        /\ d.exists /\ BigEq(d.supply, x)
        /\ \A h \in DOMAIN d.held : BigEq(d.held[h], IF h = to THEN x ELSE "0")
        /\ BigEq(t.mod, BigAdd(s.mod, x))
        /\ BigEq(b.ov, BigSub(a.ov, x)) /\ BigEq(b.bal, BigSub(a.bal, x))
        /\ Params(t) = Params(s)
     THEN {} ELSE {"liquidate-ledger"})
    \cup
    (IF /\ WellFormed(La) /\ WellFormed(Dn)
        /\ BagEq(Events(D, Lb), BagUnion(Events(D, La), Events(D, Dn)))
        /\ BigEq(PTotal(d.periods), x)
     THEN {} ELSE {"liquidate-split"})
    \cup
    (IF \A u \in DOMAIN Events(D, Dn) : u > now THEN {} ELSE {"liquidate-moved-released-coins"})
    \cup
    (IF \A h \in AcctsOf(s) \ {from} : AView(t.acct[h]) = AView(s.acct[h]) THEN {} ELSE {"liquidate-frame"})

TransferBroken(s, t, from, to, id, x) ==
    LET I == FindDenom(s, id) IN
    IF I = {} \/ Len(t.denoms) # Len(s.denoms) \/ DOMAIN t.acct # DOMAIN s.acct THEN {"transfer-ledger"}
    ELSE LET i == CHOOSE j \in I : TRUE  d == s.denoms[i]  e == t.denoms[i] IN
    (IF /\ [e EXCEPT !.held = d.held] = d
        /\ \A h \in DOMAIN d.held :
              BigEq(e.held[h], IF from = to THEN d.held[h]
                               ELSE IF h = from THEN BigSub(d.held[h], x)
                               ELSE IF h = to THEN BigAdd(d.held[h], x) ELSE d.held[h])
        /\ BigSign(e.held[from]) >= 0
     THEN {} ELSE {"transfer-ledger"})
    \cup
    (IF /\ \A j \in DenomIdx(s) \ {i} : t.denoms[j] = s.denoms[j]
        /\ \A h \in AcctsOf(s) : AView(t.acct[h]) = AView(s.acct[h])
        /\ t.mod = s.mod /\ Params(t) = Params(s)
     THEN {} ELSE {"transfer-frame"})

\* the instants at which the comparison of redeem is made: every critical instant of every schedule
\* involved, from the block time on
RedeemInstants(S, now) == {u \in Crit(S) \cup {now, now + 1} : u >= now}

RedeemBroken(s, t, from, to, id, x, now) ==
    LET I == FindDenom(s, id) IN
    IF I = {} \/ Len(t.denoms) # Len(s.denoms) \/ DOMAIN t.acct # DOMAIN s.acct \/ to \notin AcctsOf(s)
    THEN {"redeem-ledger"}
    ELSE LET i == CHOOSE j \in I : TRUE  d == s.denoms[i]  d2 == t.denoms[i]
             R == s.acct[to]  R2 == t.acct[to]
             before == DenomSched(d)
             after  == IF d2.exists THEN DenomSched(d2) ELSE Sched(d.start, <<>>)
             PaidFree(u) == BigSub(x, BigSub(LockedAt(R2, u), LockedAt(R, u)))
    IN
    (IF /\ d.exists /\ d2.id = d.id
        /\ BigEq(d2.supply, BigSub(d.supply, x))
        /\ \A h \in DOMAIN d.held : BigEq(d2.held[h], IF h = from THEN BigSub(d.held[h], x) ELSE d.held[h])
        /\ BigSign(d2.held[from]) >= 0
        /\ BigEq(t.mod, BigSub(s.mod, x))
        /\ BigEq(R2.bal, BigAdd(R.bal, x))
        /\ Params(t) = Params(s)
     THEN {} ELSE {"redeem-ledger"})
    \cup
    \* the part of the record that stays releases nothing earlier than it did
    (IF /\ WellFormed(after)
        /\ \A u \in Crit({before, after}) : BigLE(Cum(D, after, u)[ND], Cum(D, before, u)[ND])
     THEN {} ELSE {"redeem-remaining-schedule-earlier"})
    \cup
    \* the part that leaves the record is no earlier than the pro-rata share of the redeemed tokens: x of
    \* S tokens carry x/S of every release event, and integral rounding may only delay
    (IF \A u \in Crit({before, after}) :
           BigLE(BigMul(BigSub(Cum(D, before, u)[ND], Cum(D, after, u)[ND]), PTotal(d.periods)),
                 BigMul(x, Cum(D, before, u)[ND]))
     THEN {} ELSE {"redeem-part-earlier-than-pro-rata-share"})
    \cup
    \* the paid coins are released no earlier than the part of the record that left
    (IF \A u \in RedeemInstants({ALock(R), AVest(R), AEnd(R), ALock(R2), AVest(R2), AEnd(R2), before, after}, now) :
           BigLE(BigAdd(PaidFree(u), Cum(D, after, u)[ND]), Cum(D, before, u)[ND])
     THEN {} ELSE {"redeem-unlocks-early"})
    \cup
    (IF /\ \A j \in DenomIdx(s) \ {i} : t.denoms[j] = s.denoms[j]
        /\ \A h \in AcctsOf(s) \ {to} : AView(t.acct[h]) = AView(s.acct[h])
     THEN {} ELSE {"redeem-frame"})

\* the same clause on what the recipient's account object itself answered when it was asked what it
\* locks at the critical instants (paid: sequence of [t, pre, post], recorded by the harness)
RedeemObservedBroken(s, t, id, x, paid) ==
    LET I == FindDenom(s, id) IN
    IF I = {} \/ Len(t.denoms) # Len(s.denoms) THEN {}
    ELSE LET i == CHOOSE j \in I : TRUE  d == s.denoms[i]  d2 == t.denoms[i]
             before == DenomSched(d)
             after  == IF d2.exists THEN DenomSched(d2) ELSE Sched(d.start, <<>>)
         IN IF \A k \in 1..Len(paid) :
                  BigLE(BigAdd(BigSub(x, BigSub(paid[k].post, paid[k].pre)), Cum(D, after, paid[k].t)[ND]),
                        Cum(D, before, paid[k].t)[ND])
            THEN {} ELSE {"redeem-unlocks-early"}

\* e: [ev, args, ok];  s: state before;  t: state after
StepBroken(e, s, t) ==
    IF ~e.ok THEN (IF t = s THEN {} ELSE {"failed-step-changed-state:" \o e.ev})
    ELSE CASE e.ev = "liquidate" -> LiquidateBroken(s, t, e.args.from, e.args.to, e.args.amt, e.args.t)
           [] e.ev = "transfer"  -> TransferBroken(s, t, e.args.from, e.args.to, e.args.denom, e.args.amt)
           [] e.ev = "redeem"    -> RedeemBroken(s, t, e.args.from, e.args.to, e.args.denom, e.args.amt, e.args.t)
           \* a restart of the module from its exported genesis: the statement speaks of every state, so the
           \* invariants are evaluated on the imported state (BrokenInvariants); nothing else is asserted
           [] e.ev = "export_import" -> {}
           [] OTHER -> {"unknown-event"}
StepOK(e, s, t) == StepBroken(e, s, t) = {}

\* the class of a step: what identifies a violation
\* the recipient of a redeem is a vesting account whose vesting is not finished at the block time ...
VestingUnfinished(R, now) == R.kind = "vesting" /\ BigLT(Read(D, AVest(R), now)[ND], R.ov)
\* ... and from the block time on there is an instant at which more of it is unlocked than vested
\* (coins that are unlocked but not yet vested: the situation in which the account-total rule
\* locked = ov - min(unlocked, vested) can pair them with freshly vested, still locked coins)
LockupAhead(R, now) ==
    \E u \in {v \in Crit({ALock(R), AVest(R)}) \cup {now, now + 1} : v >= now} :
        BigLT(Read(D, AVest(R), u)[ND], Read(D, ALock(R), u)[ND])
RedeemIntoUnfinishedAhead(e, s) ==
    /\ e.ev = "redeem" /\ e.args.to \in AcctsOf(s)
    /\ VestingUnfinished(s.acct[e.args.to], e.args.t) /\ LockupAhead(s.acct[e.args.to], e.args.t)

StepClass(e, s) ==
    CASE e.ev = "redeem" ->
           LET I == FindDenom(s, e.args.denom) IN
           IF e.args.to \notin AcctsOf(s) THEN "recipient=unknown"
           ELSE LET R == s.acct[e.args.to] IN
                IF VestingUnfinished(R, e.args.t)
                THEN "recipient=vesting-unfinished," \o (IF LockupAhead(R, e.args.t) THEN "lockup-ahead" ELSE "lockup-not-ahead")
                ELSE IF R.kind = "vesting"
                THEN "recipient=existing-vesting," \o
                     (IF I = {} THEN "denom=unknown"
                      ELSE LET d == s.denoms[CHOOSE j \in I : TRUE] IN
                           IF R.start < d.start THEN "accStart<denomStart"
                           ELSE IF R.start = d.start THEN "accStart=denomStart" ELSE "accStart>denomStart")
                ELSE IF R.kind = "plain" THEN "recipient=plain" ELSE "recipient=fresh"
      [] e.ev = "liquidate" -> IF e.args.from = e.args.to THEN "to=self" ELSE "to=other"
      [] e.ev = "transfer"  -> IF e.args.from = e.args.to THEN "from=to" ELSE "from#to"
      [] e.ev = "export_import" -> "restart-from-exported-genesis"
      [] OTHER -> "-"

---------------------------------------------------------------------------
(* M: transcriptions of the pure helpers *)

\* x/vesting/types/schedule.go ReadSchedule (amount of one denomination)
RECURSIVE MReadLoop(_, _, _, _, _)
MReadLoop(ps, i, el, t, acc) ==
    IF i > Len(ps) \/ t < el + ps[i].len THEN acc
    ELSE MReadLoop(ps, i + 1, el + ps[i].len, t, BigAdd(acc, A(ps[i])))
MRead(start, end, ps, total, t) ==
    IF t <= start THEN "0" ELSE IF t >= end THEN total ELSE MReadLoop(ps, 1, start, t, "0")

\* ReadPastPeriodCount
RECURSIVE MPastLoop(_, _, _, _)
MPastLoop(ps, i, el, t) ==
    IF i > Len(ps) \/ t < el + ps[i].len THEN i - 1 ELSE MPastLoop(ps, i + 1, el + ps[i].len, t)
MPastCount(start, end, ps, t) ==
    IF t <= start THEN 0 ELSE IF t >= end THEN Len(ps) ELSE MPastLoop(ps, 1, start, t)

MUpcoming(start, end, ps, t) == SubSeq(ps, MPastCount(start, end, ps, t) + 1, Len(ps))
MPast(start, end, ps, t)     == SubSeq(ps, 1, MPastCount(start, end, ps, t))
MReplaceTail(ps, repl) == IF Len(repl) >= Len(ps) THEN repl ELSE SubSeq(ps, 1, Len(ps) - Len(repl)) \o repl

RECURSIVE MShiftLoop(_, _, _, _)
MShiftLoop(ps, i, el, t) ==
    IF i > Len(ps) THEN 0 ELSE IF el + ps[i].len > t THEN t - el ELSE MShiftLoop(ps, i + 1, el + ps[i].len, t)
MShift(start, t, ps) == IF start >= t THEN 0 ELSE MShiftLoop(ps, 1, start, t)

\* SubtractAmountFromPeriods: proportional part floor(a_i * x / total) per period, then the residue is
\* taken from the tail (a period that cannot cover it is emptied and the rest goes to its predecessor)
RECURSIVE MResidue(_, _, _, _)
MResidue(dec, diff, i, res) ==
    IF i = 0 THEN [dec |-> dec, diff |-> diff]
    ELSE LET have == A(dec[i]) IN
         IF BigLT(have, res)
         THEN MResidue([dec EXCEPT ![i] = P(@.len, "0")], [diff EXCEPT ![i] = P(@.len, BigAdd(A(@), have))],
                       i - 1, BigSub(res, have))
         ELSE [dec  |-> [dec EXCEPT ![i] = P(@.len, BigSub(have, res))],
               diff |-> [diff EXCEPT ![i] = P(@.len, BigAdd(A(@), res))]]

MSubtract(ps, x) ==
    LET total == PTotal(ps) IN
    IF BigLT(total, x) \/ BigIsZero(total) THEN [ok |-> FALSE, dec |-> <<>>, diff |-> <<>>]
    ELSE LET n     == Len(ps)
             sub   == [i \in 1..n |-> BigQuo(BigMul(A(ps[i]), x), total)]
             dec0  == [i \in 1..n |-> P(ps[i].len, BigSub(A(ps[i]), sub[i]))]
             diff0 == [i \in 1..n |-> P(ps[i].len, sub[i])]
             r     == MResidue(dec0, diff0, n, BigSub(x, SumOver(1..n, LAMBDA i : sub[i])))
         IN [ok |-> TRUE, dec |-> r.dec, diff |-> r.diff]

\* x/vesting/types/schedule.go DisjunctPeriods: union of the release events of two schedules
RECURSIVE MDisj(_, _, _, _, _, _, _, _)
MDisj(pa, pb, ia, ib, ta, tb, end, out) ==
    LET hasA == ia <= Len(pa)  hasB == ib <= Len(pb)
        na == IF hasA THEN ta + pa[ia].len ELSE 0
        nb == IF hasB THEN tb + pb[ib].len ELSE 0
    IN
    IF hasA /\ (~hasB \/ na < nb)
    THEN MDisj(pa, pb, ia + 1, ib, na, tb, na, Append(out, [len |-> na - end, amt |-> pa[ia].amt]))
    ELSE IF hasB /\ (~hasA \/ nb < na)
    THEN MDisj(pa, pb, ia, ib + 1, ta, nb, nb, Append(out, [len |-> nb - end, amt |-> pb[ib].amt]))
    ELSE IF hasA /\ hasB
    THEN MDisj(pa, pb, ia + 1, ib + 1, na, na, na, Append(out, [len |-> na - end, amt |-> CAdd(pa[ia].amt, pb[ib].amt)]))
    ELSE [end |-> end, periods |-> out]
MDisjunct(sa, sb, pa, pb) ==
    LET s0 == IMin(sa, sb)  r == MDisj(pa, pb, 1, 1, sa, sb, s0, <<>>)
    IN [start |-> s0, end |-> r.end, periods |-> r.periods]

\* ClawbackVestingAccount.LockedCoins without delegations
MLocked(a, t) ==
    IF a.kind # "vesting" THEN "0"
    ELSE BigSub(a.ov, BigMin(MRead(a.start, a.end, a.lockup, a.ov, t), MRead(a.start, a.end, a.vesting, a.ov, t)))

---------------------------------------------------------------------------
(* M: the messages.  MResult(s, ev, args) = [ok, post] *)

Touch(a) == IF a.kind = "none" THEN [a EXCEPT !.kind = "plain"] ELSE a   \* receiving coins creates the account
DeadDenom(d, supply, held) ==
    [id |-> d.id, exists |-> FALSE, start |-> 0, end |-> 0, periods |-> <<>>, orig |-> "", supply |-> supply,
     held |-> held, stray |-> "0"]

MLiquidate(s, args) ==
    LET from == args.from  to == args.to  x == args.amt  now == args.t
        a == s.acct[from]
        vested == MRead(a.start, a.end, a.vesting, a.ov, now)
        locked == BigSub(a.ov, MRead(a.start, a.end, a.lockup, a.ov, now))
        up == MUpcoming(a.start, a.end, a.lockup, now)
        sp == MSubtract(up, x)
        sv == MSubtract(a.vesting, x)
        ok1 == /\ s.enabled /\ BigLE(s.minLiq, x) /\ a.kind = "vesting"
               /\ BigIsZero(BigSub(a.ov, vested))
               /\ BigSign(locked) > 0 /\ BigLE(x, locked)
               /\ sp.ok /\ sv.ok
    IN IF ~ok1 THEN [ok |-> FALSE, post |-> s]
       ELSE
       LET lock2 == MReplaceTail(a.lockup, sp.dec)
           a2 == [a EXCEPT !.lockup = lock2, !.vesting = MReplaceTail(a.vesting, sv.dec), !.ov = BigSub(a.ov, x)]
           ok2 == BigLE(x, BigSub(a.bal, MLocked(a2, now)))   \* bank: only spendable coins can be escrowed
           shift == MShift(a.start, now, lock2)
           diff2 == [sp.diff EXCEPT ![1] = [@ EXCEPT !.len = @ - shift]]
           nd == [id |-> "aLIQUID" \o ToString(Len(s.denoms)), exists |-> TRUE, start |-> now,
                  end |-> now + TotalLength(diff2), periods |-> diff2, orig |-> ND, supply |-> x,
                  held |-> [h \in AcctsOf(s) |-> IF h = to THEN x ELSE "0"], stray |-> "0"]
           acct2 == [h \in AcctsOf(s) |->
                        IF h = from THEN [a2 EXCEPT !.bal = BigSub(a.bal, x)]
                        ELSE IF h = to THEN Touch(s.acct[h]) ELSE s.acct[h]]
       IN IF ~ok2 THEN [ok |-> FALSE, post |-> s]
          ELSE [ok |-> TRUE, post |-> [s EXCEPT !.mod = BigAdd(s.mod, x), !.denoms = Append(s.denoms, nd), !.acct = acct2]]

MTransfer(s, args) ==
    LET I == FindDenom(s, args.denom)  x == args.amt IN
    IF I = {} THEN [ok |-> FALSE, post |-> s]
    ELSE LET i == CHOOSE j \in I : TRUE  d == s.denoms[i] IN
         \* x/bank msg_server.go subUnlockedERC20Tokens: a send to oneself fails its own balance check
         IF ~(BigSign(x) > 0 /\ BigLE(x, d.held[args.from]) /\ args.from # args.to /\ d.exists) THEN [ok |-> FALSE, post |-> s]
         ELSE [ok |-> TRUE, post |->
                 [s EXCEPT !.denoms[i].held = [h \in DOMAIN d.held |->
                               IF args.from = args.to THEN d.held[h]
                               ELSE IF h = args.from THEN BigSub(d.held[h], x)
                               ELSE IF h = args.to THEN BigAdd(d.held[h], x) ELSE d.held[h]],
                           !.acct[args.to] = Touch(@)]]

\* ApplyVestingSchedule(funder, to, coins = x, startTime = denom start, lockup = diff, vesting = <<0, x>>, merge)
\* as built the redeemed coins are vested at once; the intended machine lets them vest as they unlock
VGrant(diff, x) == IF "aggregate_lock_pairs_grants" \in Defects THEN <<P(0, x)>> ELSE diff
MApply(R, dstart, diff, x) ==
    IF R.kind = "vesting"
    THEN LET gs == IF "merge_min_start" \in Defects THEN IMin(dstart, R.start) ELSE dstart
             L == MDisjunct(R.start, gs, R.lockup, diff)
             V == MDisjunct(R.start, gs, R.vesting, VGrant(diff, x))
         IN [R EXCEPT !.start = L.start, !.end = IMax(L.end, V.end), !.lockup = L.periods,
                      !.vesting = V.periods, !.ov = BigAdd(R.ov, x)]
    ELSE [R EXCEPT !.kind = "vesting", !.start = dstart,
                   !.end = dstart + IMax(TotalLength(diff), TotalLength(VGrant(diff, x))),
                   !.lockup = diff, !.vesting = VGrant(diff, x), !.ov = x]

MRedeem(s, args) ==
    LET from == args.from  to == args.to  x == args.amt  now == args.t
        I == FindDenom(s, args.denom) IN
    IF I = {} THEN [ok |-> FALSE, post |-> s]
    ELSE LET i == CHOOSE j \in I : TRUE  d == s.denoms[i]
             sp == MSubtract(d.periods, x)
             ok == /\ s.enabled /\ s.acct[from].kind # "none" /\ d.exists
                   /\ BigSign(x) > 0 /\ BigLE(x, d.held[from]) /\ sp.ok
         IN IF ~ok THEN [ok |-> FALSE, post |-> s]
            ELSE
            LET held2 == [d.held EXCEPT ![from] = BigSub(@, x)]
                d2 == IF BigIsZero(PTotal(sp.dec)) THEN DeadDenom(d, BigSub(d.supply, x), held2)
                      ELSE [d EXCEPT !.periods = sp.dec, !.supply = BigSub(d.supply, x), !.held = held2]
                R  == [Touch(s.acct[to]) EXCEPT !.bal = BigAdd(@, x)]
                up == MUpcoming(d.start, d.end, sp.diff, now)
                R2 == IF Len(up) > 0 THEN MApply(R, d.start, sp.diff, x) ELSE R
            IN [ok |-> TRUE, post |-> [s EXCEPT !.mod = BigSub(s.mod, x), !.denoms[i] = d2, !.acct[to] = R2]]

MResult(s, ev, args) ==
    CASE ev = "liquidate" -> IF args.from \in AcctsOf(s) /\ args.to \in AcctsOf(s) THEN MLiquidate(s, args) ELSE [ok |-> FALSE, post |-> s]
      [] ev = "transfer"  -> MTransfer(s, args)
      [] ev = "redeem"    -> MRedeem(s, args)
      [] ev = "export_import" -> [ok |-> TRUE, post |-> s]

---------------------------------------------------------------------------
(* M: the machine *)

VARIABLES st, hist, clk
vars == <<st, hist, clk>>

InitAcct(c) ==
    IF c.kind = "vesting"
    THEN LET tot == PTotal(c.lockup)
             vp  == IF c.vesting = <<>> THEN <<P(0, tot)>> ELSE c.vesting IN
         [kind |-> "vesting", start |-> c.start, end |-> c.start + IMax(TotalLength(c.lockup), TotalLength(vp)),
          lockup |-> c.lockup, vesting |-> vp, ov |-> tot, bal |-> BigAdd(tot, c.extra)]
    ELSE [kind |-> c.kind, start |-> 0, end |-> 0, lockup |-> <<>>, vesting |-> <<>>, ov |-> "0", bal |-> c.extra]

InitState == [mod |-> "0", denoms |-> <<>>, acct |-> [n \in DOMAIN InitAccts |-> InitAcct(InitAccts[n])],
              minLiq |-> MinLiq, enabled |-> TRUE]
Cfg == [minLiq |-> MinLiq, accts |-> InitAccts]

Init == st = InitState /\ hist = <<>> /\ clk = 0

Do(ev, args) ==
    LET r == MResult(st, ev, args) IN
    /\ st' = r.post
    /\ hist' = Append(hist, [ev |-> ev, args |-> args, ok |-> r.ok])
    /\ clk' = args.t
DoOk(ev, args) == MResult(st, ev, args).ok /\ Do(ev, args)

Names == DOMAIN InitAccts
HeldBy(s, i, h) == s.denoms[i].held[h]

\* exhaustive exploration: every accepted message at every block time (a rejected message leaves the
\* state unchanged by construction of MResult and only burns depth)
Next ==
    /\ Len(hist) < MaxLen
    /\ \E t \in clk..IMin(MaxT, clk + TStep) :
       \/ \E from \in Names, to \in Names, x \in Amts :
             DoOk("liquidate", [from |-> from, to |-> to, amt |-> x, t |-> t])
       \/ \E i \in DenomIdx(st), from \in Names, to \in Names, x \in Amts :
             DoOk("transfer", [from |-> from, to |-> to, denom |-> st.denoms[i].id, amt |-> x, t |-> t])
       \/ \E i \in DenomIdx(st), from \in Names, to \in Names : \E x \in Amts \cup {HeldBy(st, i, from)} :
             DoOk("redeem", [from |-> from, to |-> to, denom |-> st.denoms[i].id, amt |-> x, t |-> t])

Spec == Init /\ [][Next]_vars

MInv_P  == BrokenInvariants(st) = {}
MStep_P == [][hist' # hist => StepOK(Last(hist'), st, st')]_vars

\* as built: P can be broken only in the no-early-unlock clause of a redeem, and only
\*   merge_min_start              into a vesting account that starts before the liquid token
\*   aggregate_lock_pairs_grants  into a vesting account whose vesting is unfinished and whose lockup
\*                                is ahead of its vesting at some instant from the block time on
KnownStep(e, s) ==
    /\ e.ev = "redeem" /\ e.args.to \in AcctsOf(s) /\ FindDenom(s, e.args.denom) # {}
    /\ LET R == s.acct[e.args.to]  d == s.denoms[CHOOSE j \in FindDenom(s, e.args.denom) : TRUE] IN
       \/ "merge_min_start" \in Defects /\ R.kind = "vesting" /\ R.start < d.start
       \/ "aggregate_lock_pairs_grants" \in Defects /\ RedeemIntoUnfinishedAhead(e, s)
MStep_Compensated ==
    [][hist' # hist =>
          LET e == Last(hist') IN
          \/ StepOK(e, st, st')
          \/ StepBroken(e, st, st') = {"redeem-unlocks-early"} /\ KnownStep(e, st)]_vars
MStep_Strict == MStep_P

View == <<st, clk, Len(hist)>>

---------------------------------------------------------------------------
(* Depth-1 input machine of the split: every period list with at most      *)
(* SplitMaxP periods, amounts 0..SplitMaxAmt, every requested amount        *)
(* 0..total+1.  Proves SplitOK of the transcription, and that it never      *)
(* front-loads: the amount moved out of the first k periods never exceeds   *)
(* the pro-rata share x * (sum of the first k) / total.                     *)

SplitLists == UNION {[1..n -> 0..SplitMaxAmt] : n \in 0..SplitMaxP}
SplitPeriods(f) == [i \in 1..Len(f) |-> P(1 + (i % 3), BigOfInt(f[i]))]
RECURSIVE IntSum(_, _)
IntSum(f, n) == IF n = 0 THEN 0 ELSE IntSum(f, n - 1) + f[n]

SplitInit == st = "split" /\ hist = <<>> /\ clk = 0
SplitNext == /\ hist = <<>>
             /\ \E f \in SplitLists : \E x \in 0..(IntSum(f, Len(f)) + 1) :
                   hist' = <<[ps |-> SplitPeriods(f), x |-> BigOfInt(x), tot |-> IntSum(f, Len(f)), xi |-> x]>>
             /\ UNCHANGED <<st, clk>>
SplitSpec == SplitInit /\ [][SplitNext]_vars

ProRata(ps, x, moved) ==
    \A k \in 0..Len(ps) :
        BigLE(BigMul(PTotal(SubSeq(moved, 1, k)), PTotal(ps)), BigMul(x, PTotal(SubSeq(ps, 1, k))))

SplitCaseOK(c) ==
    LET r == MSubtract(c.ps, c.x) IN
    /\ r.ok <=> (c.xi <= c.tot /\ c.tot > 0)
    /\ r.ok => /\ SplitOK(c.ps, c.x, r.dec, r.diff)
               /\ ProRata(c.ps, c.x, r.diff)
SplitInv == hist = <<>> \/ SplitCaseOK(hist[1])

---------------------------------------------------------------------------
(* Simulation: behaviours as scripts for the harness.  One successor per    *)
(* action kind; parameters are drawn so that most messages are acceptable.  *)

Emit == Len(hist) = MaxLen /\ PrintT(<<"SCRIPT", ToJson([cfg |-> Cfg, steps |-> hist])>>) /\ UNCHANGED vars

RandT(h)    == IMin(MaxT, clk + (IF clk = 0 THEN 1 ELSE 0) + (RandomElement(0..5) % (TStep + 1)))
RandName(h) == RandomElement(Names)
LockedUp(n, t) == LET a == st.acct[n] IN
                  IF a.kind = "vesting" THEN BigSub(a.ov, MRead(a.start, a.end, a.lockup, a.ov, t)) ELSE "0"
CanLiquidate(t) == {n \in Names : BigSign(LockedUp(n, t)) > 0 /\ t > st.acct[n].start}
RandFrom(t) == IF CanLiquidate(t) # {} /\ RandomElement(1..8) # 1 THEN RandomElement(CanLiquidate(t)) ELSE RandName(t)
GoodAmts(max) == {x \in Amts : BigLE(x, max)}
RandAmt(max) == IF GoodAmts(max) # {} /\ RandomElement(1..8) # 1 THEN RandomElement(GoodAmts(max)) ELSE RandomElement(Amts)
Holders(i)  == {n \in Names : BigSign(st.denoms[i].held[n]) > 0}
LiveDenoms(h) == {i \in DenomIdx(st) : st.denoms[i].exists}
RandDenom(h) == IF LiveDenoms(h) # {} /\ RandomElement(1..10) # 1 THEN RandomElement(LiveDenoms(h))
                ELSE IF DenomIdx(st) # {} THEN RandomElement(DenomIdx(st)) ELSE 0
RandHolder(i) == IF i # 0 /\ Holders(i) # {} /\ RandomElement(1..10) # 1 THEN RandomElement(Holders(i)) ELSE RandomElement(Names)
DenomId(i) == IF i = 0 THEN "aLIQUID0" ELSE st.denoms[i].id
SelfOr(n, k) == IF RandomElement(1..k) = 1 THEN n ELSE RandomElement(Names)
HeldOr1(i, n) == IF i # 0 /\ BigSign(st.denoms[i].held[n]) > 0 THEN st.denoms[i].held[n] ELSE "1"
\* without a live liquid token only one walk in ten tries a transfer or a redeem
TryLiquid(h) == LiveDenoms(h) # {} \/ RandomElement(1..10) = 1

\* drawn values are bound with \E x \in {expr}: a LET or an operator argument containing
\* RandomElement would be re-evaluated at every use
SimLiquidate ==
    \E t \in {RandT(hist)} : \E from \in {RandFrom(t)} :
       \E args \in {[from |-> from, to |-> SelfOr(from, 2), amt |-> RandAmt(LockedUp(from, t)), t |-> t]} :
          Do("liquidate", args)
SimTransfer ==
    /\ TryLiquid(hist)
    /\ \E i \in {RandDenom(hist)} : \E from \in {RandHolder(i)} :
       \E args \in {[from |-> from, to |-> RandName(hist), denom |-> DenomId(i), amt |-> RandAmt(HeldOr1(i, from)), t |-> RandT(hist)]} :
          Do("transfer", args)
SimRedeemSome ==
    /\ TryLiquid(hist)
    /\ \E i \in {RandDenom(hist)} : \E from \in {RandHolder(i)} :
       \E args \in {[from |-> from, to |-> SelfOr(from, 3), denom |-> DenomId(i), amt |-> RandAmt(HeldOr1(i, from)), t |-> RandT(hist)]} :
          Do("redeem", args)
\* everything the holder has (a full redeem when it is the only holder)
SimRedeemAll ==
    /\ TryLiquid(hist)
    /\ \E i \in {RandDenom(hist)} : \E from \in {RandHolder(i)} :
       \E args \in {[from |-> from, to |-> RandName(hist), denom |-> DenomId(i), amt |-> HeldOr1(i, from), t |-> RandT(hist)]} :
          Do("redeem", args)
SimNext ==
    /\ Len(hist) < MaxLen
    /\ (SimLiquidate \/ SimTransfer \/ SimRedeemSome \/ SimRedeemAll)
\* a restart from the exported genesis: when a fully redeemed token has left a gap below a live one,
\* otherwise one walk in ten
GapBelowLive(h) == \E i \in DenomIdx(st), j \in DenomIdx(st) : i < j /\ ~st.denoms[i].exists /\ st.denoms[j].exists
SimRestart == /\ Len(hist) < MaxLen
              /\ (GapBelowLive(hist) /\ RandomElement(1..2) = 1) \/ RandomElement(1..10) = 1
              /\ \E args \in {[t |-> RandT(hist)]} : Do("export_import", args)
SimSpec == Init /\ [][SimNext \/ SimRestart \/ Emit]_vars

---------------------------------------------------------------------------
(* model values for the configurations (cfg files cannot write tuples) *)

VV(start, lockup, vesting, extra) == [kind |-> "vesting", start |-> start, lockup |-> lockup, vesting |-> vesting, extra |-> extra]
VA(start, lockup, extra) == VV(start, lockup, <<>>, extra)
PA(extra) == [kind |-> "plain", start |-> 0, lockup |-> <<>>, vesting |-> <<>>, extra |-> extra]
NA == [kind |-> "none", start |-> 0, lockup |-> <<>>, vesting |-> <<>>, extra |-> "0"]

\* a1 locked until 2 / 4, a2 starts later (3) and is locked until 6, a3 is a fresh address
MC_AcctsA == [a1 |-> VA(0, <<P(2, "2"), P(2, "2")>>, "0"), a2 |-> VA(3, <<P(3, "2")>>, "1"), a3 |-> NA]
\* three periods with a residue-producing split, a plain recipient
MC_AcctsB == [a1 |-> VA(0, <<P(2, "1"), P(2, "1"), P(3, "1")>>, "1"), a2 |-> PA("2"), a3 |-> VA(1, <<P(6, "1")>>, "0")]
\* simulation: longer schedules
MC_AcctsS == [a1 |-> VA(0, <<P(2, "3"), P(2, "2"), P(5, "4")>>, "0"), a2 |-> VA(2, <<P(3, "2"), P(1, "3")>>, "2"), a3 |-> NA]
\* recipients whose vesting is unfinished: a2 lockup ahead of vesting (unlocked at 1, vests at 4 and 7),
\* a3 lockup behind vesting, both running (vests at 2 and 4, unlocks at 3 and 6)
MC_AcctsC == [a1 |-> VA(0, <<P(2, "2"), P(3, "2")>>, "0"),
              a2 |-> VV(0, <<P(1, "2")>>, <<P(4, "1"), P(3, "1")>>, "0"),
              a3 |-> VV(1, <<P(2, "1"), P(3, "1")>>, <<P(1, "1"), P(2, "1")>>, "1")]
\* simulation: lockup ahead (a2), both running and interleaved (a3)
MC_AcctsU == [a1 |-> VA(0, <<P(2, "3"), P(3, "2"), P(4, "3")>>, "0"),
              a2 |-> VV(0, <<P(1, "2"), P(2, "2")>>, <<P(5, "2"), P(5, "2")>>, "1"),
              a3 |-> VV(1, <<P(3, "2"), P(4, "2")>>, <<P(1, "1"), P(4, "2"), P(5, "1")>>, "0")]
MC_AcctsT == [a1 |-> VA(0, <<P(1, "1"), P(2, "3"), P(2, "1"), P(3, "2")>>, "1"), a2 |-> PA("3"), a3 |-> VA(4, <<P(3, "3")>>, "0")]
=============================================================================
