SPECIFICATION PureSpec
CONSTANTS
  Denoms = {"aISLM"}
  Defects = {}
  POffsets = {0,1}
  PMaxPeriods = 3
  PMaxLen = 2
  PAmts = {"0","1","2"}
  Shapes <- MC_ShapesSmall
  Starts = {0}
  Dts = {1,2}
  MaxNow = 0
  MaxLen = 0
  InitBank = "9"
INVARIANT PureInv
CHECK_DEADLOCK FALSE
