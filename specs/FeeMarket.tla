------------------------------ MODULE FeeMarket ------------------------------
(***************************************************************************)
(* The EIP-1559 fee market of haqq (x/feemarket) - property C17.           *)
(*                                                                         *)
(* Property layer P: written from the property statement only.             *)
(*   PAllowed      the piecewise EIP-1559 definition (set of admissible    *)
(*                 next base fees: one value, or the two integer           *)
(*                 neighbours when the min gas price has a fraction)       *)
(*   PGasFigure    max(floor(wanted x multiplier), used)                   *)
(*   CalcOK        one evaluation of the base-fee function is admissible   *)
(*   StepOK        one step of a block sequence is admissible              *)
(*   SeqOK         history level: the base fee of a block is the function  *)
(*                 of the base fee and the gas figure RECORDED for the     *)
(*                 previous block (ghost gh), whatever node operation      *)
(*                 (commit, restart on the same database, export of the    *)
(*                 genesis and re-initialisation from it) happened between *)
(*                 the two blocks                                          *)
(*   Bound_*, MonotoneOn   bounds / monotonicity in g (theorems of the     *)
(*                 definition on the stated domain, also evaluated on      *)
(*                 real outputs)                                           *)
(* As-built machine M: structured like x/feemarket/keeper/{eip1559,abci}.go*)
(*   and app/ante/evm/fee_market.go: CodeCalc (nil / value / panic),       *)
(*   MResult for BeginBlock, AnteGasWanted, EndBlock, Commit, SetParams,   *)
(*   SetMaxGas and the node operations between blocks: Restart (new        *)
(*   application object on the same database), Reinit (x/feemarket         *)
(*   ExportGenesis -> InitGenesis), ExportImport (ExportAppStateAndVali-   *)
(*   dators -> InitChain on a fresh application), both either in the ABCI  *)
(*   order (InitChain, BeginBlock, no Commit in between: phase "imported") *)
(*   or with a Commit after InitChain; Upgrade (a software-upgrade plan     *)
(*   becomes due: the next block's x/upgrade BeginBlocker runs the module's *)
(*   in-place store migrations from an older consensus version BEFORE the   *)
(*   fee market's BeginBlock); transactions enter a block through one of    *)
(*   the application's ante chains (TxKinds); Init / Next for block         *)
(*   sequences;                                                             *)
(*   CalcInit / CalcNext for the pure input grid.                          *)
(*                                                                         *)
(* All quantities that can exceed 31 bits are decimal strings (BigNum).    *)
(* Decimals (min gas price, min gas multiplier) are 18-digit fixed point:  *)
(* the string holds value x 10^18.  Heights stay native.                   *)
(*                                                                         *)
(* State record of a block sequence:                                       *)
(*   baseFee  base fee parameter (persistent store)                        *)
(*   bgw      block gas wanted = gas figure of the last ended block        *)
(*   tgw      transient gas wanted of the running block                    *)
(*   height   height of the running / last block                           *)
(*   phase    "idle" | "imported" | "open" | "ended" (harness control      *)
(*            state; "imported": genesis initialised but not committed)    *)
(*   maxGas   consensus max gas in the parameter store ("-1" unlimited)    *)
(*   blkMaxGas consensus max gas in the context of the running block       *)
(*   params   [noBaseFee, enableHeight, elasticity, denominator,           *)
(*             minGasPrice, minGasMultiplier]                              *)
(***************************************************************************)
EXTENDS Integers, Sequences, FiniteSets, TLC, Json, BigNum

CONSTANTS
    \* pure input grid (CalcSpec)
    BaseMax, GMax, MaxGases, ElasticityMax, DenominatorMax, MinGasPrices,
    \* block sequences (Spec / SimSpec)
    InitBases, InitMaxGases, ParamSets, Gases, Useds, SetMaxGases, SetBases,
    MaxAnte, MaxBlocks, MaxSets, MaxBounds, MaxLen,
    \* named deviations of the as-built machine (none known; "import-drops-gas-figure" is the
    \* hypothetical one of the non-vacuity witness FeeMarket_import_witness.cfg)
    Defects

Uint64Max == "18446744073709551615"
TwoTo64   == "18446744073709551616"
Int64Max  == "9223372036854775807"
TwoTo256  == "115792089237316195423570985008687907853269984665640564039457584007913129639936"
One18     == BigPow10(18)

---------------------------------------------------------------------------
(* P: the base fee function, from the statement                            *)

\* block gas limit: "-1" means unlimited, represented by the largest gas value
PGasLimit(maxGas) == IF maxGas = "-1" THEN Uint64Max ELSE maxGas
\* target T = block gas limit / elasticity (integer division)
PTarget(maxGas, el) == BigQuo(PGasLimit(maxGas), el)

DecFloor(x) == BigQuo(x, One18)
DecCeil(x)  == BigQuo(BigAdd(x, BigSub(One18, "1")), One18)
DecIsInt(x) == BigIsZero(BigRem(x, One18))
\* integer b >= decimal x
GeDec(b, x) == BigLE(x, BigMul(b, One18))

\* base x delta / T / denominator, integer divisions from left to right
PDelta(base, delta, T, d) == BigQuo(BigQuo(BigMul(base, delta), T), d)
PRaised(base, g, T, d)    == BigAdd(base, BigMax("1", PDelta(base, BigSub(g, T), T, d)))
PLoweredRaw(base, g, T, d) == BigSub(base, PDelta(base, BigSub(T, g), T, d))

\* the statement is defined when the divisions are (g = T needs no division by T)
PDefined(g, maxGas, el, d) ==
    /\ ~BigIsZero(el) /\ ~BigIsZero(d) /\ BigLE("-1", maxGas)
    /\ (BigEq(g, PTarget(maxGas, el)) \/ ~BigIsZero(PTarget(maxGas, el)))

Region(g, T) == IF BigEq(g, T) THEN "g=T" ELSE IF BigLT(T, g) THEN "g>T" ELSE "g<T"

\* the value under one rounding of a fractional min gas price ("floor" / "ceil"; the same
\* value when the min gas price is an integer)
PVal(rnd, base, g, T, d, mgp) ==
    CASE BigEq(g, T) -> base
      [] BigLT(T, g) -> PRaised(base, g, T, d)
      [] OTHER       -> BigMax(PLoweredRaw(base, g, T, d), IF rnd = "floor" THEN DecFloor(mgp) ELSE DecCeil(mgp))
Roundings == {"floor", "ceil"}
PAllowed(base, g, T, d, mgp) == {PVal(r, base, g, T, d, mgp) : r \in Roundings}

\* does the statement speak about the base fee computed for height h?  (it is silent when the
\* base fee is disabled and for the first base-fee block, which has no previous base fee)
PApplies(p, h) == ~p.noBaseFee /\ h > p.enableHeight
\* is the fee market collecting gas at height h?
PEnabled(p, h) == ~p.noBaseFee /\ h >= p.enableHeight

\* P: the gas figure
PGasFigure(wanted, mult, used) == BigMax(BigQuo(BigMul(wanted, mult), One18), used)
\* gas quantities the statement ranges over (gas is a 63-bit quantity on this chain)
PGasDomain(x) == BigLE("0", x) /\ BigLE(x, Int64Max)

---------------------------------------------------------------------------
(* P: one evaluation.  a = [base, g, maxGas, elasticity, denominator, minGasPrice,          *)
(*    noBaseFee, enableHeight, height], r = [out ("value"|"nil"|"panic"), fee]             *)

AParams(a) == [noBaseFee |-> a.noBaseFee, enableHeight |-> a.enableHeight]
CalcSpeaks(a) == PApplies(AParams(a), a.height) /\ PDefined(a.g, a.maxGas, a.elasticity, a.denominator)
ATarget(a) == PTarget(a.maxGas, a.elasticity)

CalcOK(a, r) ==
    CalcSpeaks(a) =>
        /\ r.out = "value"
        /\ \E v \in PAllowed(a.base, a.g, ATarget(a), a.denominator, a.minGasPrice) : BigEq(v, r.fee)

\* bounds that follow from the definition (evaluated on models and on real outputs)
Bound_NonNeg(a, r)   == BigLE("0", r.fee)
Bound_Raise(a, r)    == BigLT(ATarget(a), a.g) => BigLT(a.base, r.fee)
Bound_Equal(a, r)    == BigEq(a.g, ATarget(a)) => BigEq(r.fee, a.base)
Bound_Lower(a, r)    == BigLT(a.g, ATarget(a)) =>
                           /\ BigLE(DecFloor(a.minGasPrice), r.fee)
                           /\ BigLE(r.fee, BigMax(a.base, DecCeil(a.minGasPrice)))
\* once at or above the min gas price, never below its integer part again
Bound_Floor(a, r)    == GeDec(a.base, a.minGasPrice) => BigLE(DecFloor(a.minGasPrice), r.fee)
BoundNames == {"NonNeg", "Raise", "Equal", "Lower", "Floor"}
BoundHolds(n, a, r) ==
    CASE n = "NonNeg" -> Bound_NonNeg(a, r)
      [] n = "Raise"  -> Bound_Raise(a, r)
      [] n = "Equal"  -> Bound_Equal(a, r)
      [] n = "Lower"  -> Bound_Lower(a, r)
      [] n = "Floor"  -> Bound_Floor(a, r)
BrokenBounds(a, r) == IF CalcSpeaks(a) /\ r.out = "value" THEN {n \in BoundNames : ~BoundHolds(n, a, r)} ELSE {}

\* monotonicity in g is asserted on the domain base >= minGasPrice, where it follows from the
\* three clauses; below the min gas price the clauses themselves are not monotone
\* (g < T gives max(.., minGasPrice) > base, g = T gives base)
MonotoneDomain(a) == GeDec(a.base, a.minGasPrice)
\* a, a2 differ only in g, a.g <= a2.g
MonotoneOn(a, r, a2, r2) ==
    (CalcSpeaks(a) /\ CalcSpeaks(a2) /\ r.out = "value" /\ r2.out = "value" /\ MonotoneDomain(a))
        => BigLE(r.fee, r2.fee)

CalcClass(a) ==
    IF ~PApplies(AParams(a), a.height) THEN "silent:disabled-or-first-block"
    ELSE IF ~PDefined(a.g, a.maxGas, a.elasticity, a.denominator) THEN "silent:undefined"
    ELSE LET T == ATarget(a) IN
         CASE BigEq(a.g, T) -> "g=T"
           [] BigLT(T, a.g) -> IF BigIsZero(PDelta(a.base, BigSub(a.g, T), T, a.denominator)) THEN "g>T,min-step" ELSE "g>T"
           [] OTHER         -> IF BigLT(PLoweredRaw(a.base, a.g, T, a.denominator), DecCeil(a.minGasPrice)) THEN "g<T,clamped" ELSE "g<T"

---------------------------------------------------------------------------
(* M: CalculateBaseFee as written (x/feemarket/keeper/eip1559.go)           *)

Val(x)  == [out |-> "value", fee |-> x]
NilRes  == [out |-> "nil",   fee |-> "0"]
PanicRes == [out |-> "panic", fee |-> "0"]

CodeCalc(a) ==
    IF a.noBaseFee \/ a.height < a.enableHeight THEN NilRes
    ELSE IF a.height = a.enableHeight THEN Val(a.base)
    ELSE LET gasLimit == IF BigLT("-1", a.maxGas) THEN a.maxGas ELSE Uint64Max IN
         IF BigIsZero(a.elasticity) THEN PanicRes                       \* big.Int.Div by zero
         ELSE LET T == BigQuo(gasLimit, a.elasticity) IN               \* always fits uint64
              IF BigEq(a.g, T) THEN Val(a.base)
              ELSE IF BigLT(T, a.g) THEN
                   IF BigIsZero(T) \/ BigIsZero(a.denominator) THEN PanicRes
                   ELSE LET y == BigQuo(BigMul(a.base, BigSub(a.g, T)), T) IN
                        Val(BigAdd(a.base, BigMax(BigQuo(y, a.denominator), "1")))
              ELSE IF BigIsZero(a.denominator) THEN PanicRes
                   ELSE LET y == BigQuo(BigMul(a.base, BigSub(T, a.g)), T) IN
                        \* MinGasPrice.TruncateInt()
                        Val(BigMax(BigSub(a.base, BigQuo(y, a.denominator)), DecFloor(a.minGasPrice)))

---------------------------------------------------------------------------
(* P: steps of a block sequence.  e = [ev, args, ok], s before, t after     *)

ArgsOfState(s, h) ==
    [base |-> s.baseFee, g |-> s.bgw, maxGas |-> s.maxGas, elasticity |-> s.params.elasticity,
     denominator |-> s.params.denominator, minGasPrice |-> s.params.minGasPrice,
     noBaseFee |-> s.params.noBaseFee, enableHeight |-> s.params.enableHeight, height |-> h]

\* the base fee is stored in a 256-bit integer: the statement is about fees that can be stored
Storable(a) == \E v \in PAllowed(a.base, a.g, ATarget(a), a.denominator, a.minGasPrice) : BigLT(v, TwoTo256)
BeginSpeaks(a) == CalcSpeaks(a) /\ Storable(a)

EndBlockInDomain(s, used) == PGasDomain(s.tgw) /\ PGasDomain(used)

\* node operations that may happen between two blocks of a sequence
\*   restart        a new application object is opened on the same database
\*   reinit         the module's exported genesis is fed to its InitGenesis
\*   export_import  the application's exported genesis initialises a fresh application
\* args.commit (reinit, export_import): FALSE = the ABCI order InitChain, BeginBlock (the first
\* Commit comes after the first block), TRUE = a Commit between InitChain and BeginBlock
Boundaries == {"restart", "reinit", "export_import"}
\* a software upgrade: the block that follows runs the in-place store migrations of the module
\* from consensus version args.from (x/upgrade BeginBlocker, ordered before the fee market's).
\* The statement knows no upgrade blocks: the base fee of that block is still the function of the
\* previous block's base fee and gas figure
Upgrades == {"upgrade"}
\* how a transaction enters the block: "decorator" = the GasWantedDecorator alone (keeper level);
\* the others through DeliverTx and the ante chain the application selects for that kind of
\* transaction (Cosmos, Cosmos with ExtensionOptionDynamicFeeTx, Cosmos with
\* ExtensionOptionsWeb3Tx = legacy EIP-712, Ethereum).  The statement's gasWanted is the gas
\* declared by the transactions of the block, whatever their kind
TxKinds == {"decorator", "cosmos", "cosmos-dynfee", "eip712-legacy", "eth"}

StepOK(e, s, t) ==
    CASE e.ev = "begin_block" ->
            \* the base fee of block h is the function of the previous base fee and the previous
            \* block's gas figure; where the statement is silent anything (even a panic) goes
            LET a == ArgsOfState(s, e.args.height) IN
            BeginSpeaks(a) => (e.ok /\ CalcOK(a, Val(t.baseFee)))
      [] e.ev = "ante" ->
            IF ~e.ok THEN t = s
            ELSE (PEnabled(s.params, s.height) /\ PGasDomain(BigAdd(s.tgw, e.args.gas))) =>
                    /\ BigEq(t.tgw, BigAdd(s.tgw, e.args.gas)) /\ t.baseFee = s.baseFee
      [] e.ev = "end_block" ->
            (PEnabled(s.params, s.height) /\ EndBlockInDomain(s, e.args.used)) =>
                    /\ e.ok /\ BigEq(t.bgw, PGasFigure(s.tgw, s.params.minGasMultiplier, e.args.used))
                    /\ t.baseFee = s.baseFee
      [] e.ev = "commit" ->
            \* the base fee and the gas figure are carried to the next block unchanged
            /\ t.baseFee = s.baseFee /\ t.bgw = s.bgw /\ t.params = s.params /\ t.maxGas = s.maxGas
      [] e.ev \in Boundaries \cup Upgrades ->
            \* node operations between two blocks: what the next base fee is computed from is
            \* carried unchanged (silent when the operation itself fails)
            e.ok => /\ t.baseFee = s.baseFee /\ t.bgw = s.bgw /\ t.params = s.params /\ t.maxGas = s.maxGas
      [] e.ev \in {"set_params", "set_max_gas", "init"} -> TRUE      \* governance: outside the statement
      [] OTHER -> FALSE

\* once at or above the min gas price the base fee stays at or above its integer part
\* (consequence of StepOK, evaluated separately)
FloorKept(e, s, t) ==
    (e.ev = "begin_block" /\ e.ok /\ BeginSpeaks(ArgsOfState(s, e.args.height))
       /\ GeDec(s.baseFee, s.params.minGasPrice)) => BigLE(DecFloor(s.params.minGasPrice), t.baseFee)

---------------------------------------------------------------------------
(* P over histories.  The ghost gh is computed from what was RECORDED (the base fee each     *)
(* block ran with, the gas its transactions declared, the gas it used), never from the        *)
(* stores the code reads at the next block:                                                  *)
(*   sum, clean   gas declared by the running block's accepted transactions; clean = the     *)
(*                parameters were not changed inside the block                               *)
(*   base         base fee of the last block (or set by governance since)                    *)
(*   fig, known   gas figure of the last ended block as the statement defines it             *)
(*   after        what happened since the last block ended (for the violation class)         *)

GhostInit(s) == [sum |-> "0", clean |-> FALSE, base |-> s.baseFee, fig |-> s.bgw, known |-> TRUE, after |-> "init"]

GhostFigureSpeaks(gh, e, s) ==
    gh.clean /\ PEnabled(s.params, s.height) /\ PGasDomain(gh.sum) /\ PGasDomain(e.args.used)

GhostNext(gh, e, s, t) ==
    CASE e.ev = "begin_block" -> [gh EXCEPT !.sum = "0", !.clean = e.ok, !.base = t.baseFee, !.known = FALSE, !.after = "-"]
      [] e.ev = "ante"        -> IF e.ok THEN [gh EXCEPT !.sum = BigAdd(@, e.args.gas)] ELSE gh
      [] e.ev = "set_params"  -> [gh EXCEPT !.clean = FALSE, !.base = t.baseFee]
      [] e.ev = "end_block"   ->
            \* where the statement is silent about the figure the history is re-synchronised on the store
            [gh EXCEPT !.known = e.ok,
                       !.fig = IF GhostFigureSpeaks(gh, e, s)
                               THEN PGasFigure(gh.sum, s.params.minGasMultiplier, e.args.used) ELSE t.bgw]
      [] e.ev \in Boundaries \cup Upgrades \cup {"commit"} ->
            \* (the commit of the block in which an upgrade became due keeps the label "upgrade")
            IF e.ok /\ ~(e.ev = "commit" /\ gh.after = "upgrade") THEN [gh EXCEPT !.after = e.ev] ELSE gh
      [] OTHER -> gh

\* the block-level statement: the gas figure is max(sum of the gas the block's transactions
\* declared x multiplier, gas used) - the sum is taken from the ante arguments, not from the
\* transient store
BlockFigureOK(gh, e, s, t) ==
    (e.ev = "end_block" /\ GhostFigureSpeaks(gh, e, s))
        => BigEq(t.bgw, PGasFigure(gh.sum, s.params.minGasMultiplier, e.args.used))

\* the sequence-level statement: the base fee of block h is the function of the previous
\* block's base fee and gas figure, as if nothing had happened between the two blocks
SeqArgs(gh, s, h) == [ArgsOfState(s, h) EXCEPT !.base = gh.base, !.g = gh.fig]
SeqOK(gh, e, s, t) ==
    (e.ev = "begin_block" /\ gh.known) =>
        LET a == SeqArgs(gh, s, e.args.height) IN
        BeginSpeaks(a) => (e.ok /\ CalcOK(a, Val(t.baseFee)))
SeqClass(gh, e, s) == CalcClass(SeqArgs(gh, s, e.args.height)) \o ",after=" \o gh.after

FigClass(s) == IF BigIsZero(s.bgw) THEN "fig=0" ELSE "fig>0"

StepClass(e, s) ==
    CASE e.ev = "begin_block" ->
            LET a == ArgsOfState(s, e.args.height) IN
            IF CalcSpeaks(a) /\ ~Storable(a) THEN "silent:base-fee>=2^256" ELSE CalcClass(a)
      [] e.ev = "end_block" ->
            IF ~PEnabled(s.params, s.height) THEN "silent:disabled"
            ELSE IF ~EndBlockInDomain(s, e.args.used) THEN "silent:gas>int64"
            ELSE IF BigLT(BigQuo(BigMul(s.tgw, s.params.minGasMultiplier), One18), e.args.used)
                 THEN "used>wanted*mult" ELSE "wanted*mult>=used"
      [] e.ev = "ante" -> (IF ~PEnabled(s.params, s.height) THEN "silent:disabled"
                           ELSE IF ~PGasDomain(BigAdd(s.tgw, e.args.gas)) THEN "silent:gas>int64" ELSE "enabled")
                          \o (IF e.args.kind = "decorator" THEN "" ELSE ",tx=" \o e.args.kind)
      [] e.ev = "upgrade" -> "from=" \o ToString(e.args.from) \o "," \o FigClass(s)
      [] e.ev = "restart" -> FigClass(s)
      [] e.ev \in {"reinit", "export_import"} ->
            (IF e.args.commit THEN "committed," ELSE "abci-order,") \o FigClass(s)
      [] OTHER -> "-"

---------------------------------------------------------------------------
(* M: the as-built machine for block sequences                              *)

VARIABLES st, hist, bnd, gh
vars == <<st, hist, bnd, gh>>

\* types.BlockGasLimit(ctx): the limit of the block gas meter; baseapp installs a finite meter
\* only when max gas > 0 and the infinite meter of this SDK fork reports MaxUint64
CodeBlockGasLimit(blkMaxGas) == IF BigLT("0", blkMaxGas) THEN blkMaxGas ELSE Uint64Max

ParamsValid(p, base) ==
    /\ ~BigIsZero(p.denominator) /\ BigLE("0", base) /\ p.enableHeight >= 0
    /\ BigLE("0", p.minGasMultiplier) /\ BigLE(p.minGasMultiplier, One18) /\ BigLE("0", p.minGasPrice)

\* x/feemarket ExportGenesis: the parameters (the base fee is one of them) and the block gas
MGenesis(s) == [params |-> s.params, baseFee |-> s.baseFee, blockGas |-> s.bgw]
\* x/feemarket InitGenesis on a store that knows nothing: SetParams, SetBlockGasWanted; the
\* transient store is not written.  Uncommitted (ABCI order) the state stays in the deliver
\* state of the first block: phase "imported"
MImport(s, gs, commit) ==
    [s EXCEPT !.params = gs.params, !.baseFee = gs.baseFee,
              !.bgw = IF "import-drops-gas-figure" \in Defects THEN "0" ELSE gs.blockGas,
              !.tgw = "0", !.phase = IF commit THEN "idle" ELSE "imported"]

MResult(s, ev, args) ==
    CASE ev = "begin_block" ->
            \* baseapp.BeginBlock puts the stored consensus params into the context, then
            \* feemarket BeginBlock: CalculateBaseFee, SetBaseFee unless nil
            LET r == CodeCalc(ArgsOfState(s, args.height))
                opened == [s EXCEPT !.height = args.height, !.phase = "open", !.blkMaxGas = s.maxGas]
            \* sdk.NewIntFromBigInt panics beyond 256 bits
            IN CASE r.out = "panic" \/ (r.out = "value" /\ BigLE(TwoTo256, r.fee)) -> [ok |-> FALSE, post |-> opened]
                 [] r.out = "nil"   -> [ok |-> TRUE,  post |-> opened]
                 [] OTHER           -> [ok |-> TRUE,  post |-> [opened EXCEPT !.baseFee = r.fee]]
      [] ev = "ante" ->
            \* GasWantedDecorator: reject above the block gas limit, accumulate when enabled; every
            \* ante chain of app/ante/handler_options.go ends in it, so the kind does not matter
            \* (what else a chain may reject - fees, signatures, gas for the ante itself - is not modelled)
            LET ok == BigLE(args.gas, CodeBlockGasLimit(s.blkMaxGas)) IN
            [ok |-> ok,
             post |-> IF ok /\ PEnabled(s.params, s.height)
                      THEN [s EXCEPT !.tgw = BigRem(BigAdd(s.tgw, args.gas), TwoTo64)] ELSE s]
      [] ev = "end_block" ->
            \* EndBlock does not look at NoBaseFee / EnableHeight; silently keeps the old figure
            \* when a gas value exceeds MaxInt64
            LET ended == [s EXCEPT !.phase = "ended"] IN
            [ok |-> TRUE,
             post |-> IF BigLT(Int64Max, s.tgw) \/ BigLT(Int64Max, args.used) THEN ended
                      ELSE [ended EXCEPT !.bgw = PGasFigure(s.tgw, s.params.minGasMultiplier, args.used)]]
      [] ev = "commit" ->
            [ok |-> TRUE, post |-> [s EXCEPT !.tgw = "0", !.phase = "idle"]]
      [] ev = "set_params" ->
            \* MsgUpdateParams: ValidateBasic (elasticity is not validated), SetParams
            LET ok == ParamsValid(args.params, args.baseFee) IN
            [ok |-> ok, post |-> IF ok THEN [s EXCEPT !.params = args.params, !.baseFee = args.baseFee] ELSE s]
      [] ev = "set_max_gas" ->
            [ok |-> TRUE, post |-> [s EXCEPT !.maxGas = args.maxGas]]
      [] ev = "restart" ->
            \* everything the fee market reads between blocks is in the committed stores
            [ok |-> TRUE, post |-> s]
      [] ev = "upgrade" ->
            \* the plan is stored; the migrations of x/feemarket (v3 -> v4: the parameters move from
            \* x/params into the module store) run in the next block before its BeginBlock and touch
            \* neither the parameters' values nor the gas figure
            [ok |-> TRUE, post |-> s]
      [] ev = "reinit" ->
            [ok |-> TRUE, post |-> MImport(s, MGenesis(s), args.commit)]
      [] ev = "export_import" ->
            \* the consensus parameters travel in the exported genesis document
            [ok |-> TRUE, post |-> MImport(s, MGenesis(s), args.commit)]

Do(ev, args) ==
    LET r == MResult(st, ev, args) IN
    /\ st' = r.post
    /\ hist' = Append(hist, [ev |-> ev, args |-> args, ok |-> r.ok])
    /\ gh' = GhostNext(gh, [ev |-> ev, args |-> args, ok |-> r.ok], st, r.post)

InitState(b, w, mg, p) ==
    [baseFee |-> b, bgw |-> w, tgw |-> "0", height |-> 0, phase |-> "idle",
     maxGas |-> mg, blkMaxGas |-> mg, params |-> p]

Init ==
    \E b \in InitBases, mg \in InitMaxGases, p \in ParamSets :
        /\ st = InitState(b, "0", mg, p)
        /\ hist = <<[ev |-> "init", args |-> [baseFee |-> b, bgw |-> "0", maxGas |-> mg, params |-> p], ok |-> TRUE]>>
        /\ bnd = [antes |-> 0, blocks |-> 0, sets |-> 0, bounds |-> 0]
        /\ gh = GhostInit(st)

\* a panicking BeginBlock halts the chain
Halted == hist[Len(hist)].ev = "begin_block" /\ ~hist[Len(hist)].ok

BeginBlock ==
    /\ st.phase \in {"idle", "imported"} /\ bnd.blocks < MaxBlocks
    /\ Do("begin_block", [height |-> st.height + 1])
    /\ bnd' = [bnd EXCEPT !.blocks = @ + 1, !.antes = 0]
AnteGasWanted(g, k) ==
    /\ st.phase = "open" /\ bnd.antes < MaxAnte
    /\ Do("ante", [gas |-> g, kind |-> k])
    /\ bnd' = [bnd EXCEPT !.antes = @ + 1]
\* the block gas meter never reports more than its limit
UsedOK(u) == BigLT("0", st.blkMaxGas) => BigLE(u, st.blkMaxGas)
EndBlock(u) ==
    /\ st.phase = "open" /\ UsedOK(u)
    /\ Do("end_block", [used |-> u]) /\ UNCHANGED bnd
Commit ==
    /\ st.phase = "ended"
    /\ Do("commit", [height |-> st.height]) /\ UNCHANGED bnd
SetParams(p, b) ==
    /\ st.phase = "open" /\ bnd.sets < MaxSets /\ (p # st.params \/ b # st.baseFee)
    /\ Do("set_params", [params |-> p, baseFee |-> b])
    /\ bnd' = [bnd EXCEPT !.sets = @ + 1]
SetMaxGas(m) ==
    /\ st.phase = "open" /\ bnd.sets < MaxSets /\ m # st.maxGas
    /\ Do("set_max_gas", [maxGas |-> m])
    /\ bnd' = [bnd EXCEPT !.sets = @ + 1]

\* node operations: between blocks, on committed state only
Restart ==
    /\ st.phase = "idle" /\ bnd.bounds < MaxBounds
    /\ Do("restart", [height |-> st.height])
    /\ bnd' = [bnd EXCEPT !.bounds = @ + 1]
Reinit(c) ==
    /\ st.phase = "idle" /\ bnd.bounds < MaxBounds
    /\ Do("reinit", [commit |-> c])
    /\ bnd' = [bnd EXCEPT !.bounds = @ + 1]
ExportImport(c) ==
    /\ st.phase = "idle" /\ bnd.bounds < MaxBounds
    /\ Do("export_import", [commit |-> c])
    /\ bnd' = [bnd EXCEPT !.bounds = @ + 1]

\* the upgrade plan becomes due at the end of a block (governance), the next block migrates
FromVersions == {3}
Upgrade(v) ==
    /\ st.phase = "ended" /\ bnd.bounds < MaxBounds
    /\ Do("upgrade", [from |-> v])
    /\ bnd' = [bnd EXCEPT !.bounds = @ + 1]

Next ==
    /\ ~Halted
    /\ \/ BeginBlock
       \/ Restart
       \/ \E v \in FromVersions : Upgrade(v)
       \/ \E c \in BOOLEAN : Reinit(c) \/ ExportImport(c)
       \/ \E g \in Gases, k \in TxKinds : AnteGasWanted(g, k)
       \/ \E u \in Useds : EndBlock(u)
       \/ Commit
       \/ \E p \in ParamSets, b \in SetBases \cup {st.baseFee} : SetParams(p, b)
       \/ \E m \in SetMaxGases : SetMaxGas(m)

Spec == Init /\ [][Next]_vars

\* every step of the as-built machine has exactly the effect P allows ...
MStep_P == [][hist' # hist => LET e == hist'[Len(hist')] IN StepOK(e, st, st') /\ FloorKept(e, st, st')]_vars
\* ... the gas figure is the one of the declared and used gas, and the base fee sequence is the one
\* the formula gives from the recorded figures, whatever happened between the blocks
MSeq_P == [][hist' # hist => LET e == hist'[Len(hist')] IN BlockFigureOK(gh, e, st, st') /\ SeqOK(gh, e, st, st')]_vars
\* ... and the transient counter is the sum of what the block's transactions declared
MInv_Shape == /\ st.phase \in {"idle", "imported", "open", "ended"}
              /\ BigLE("0", st.baseFee) /\ BigLE("0", st.bgw) /\ BigLE("0", st.tgw)
              /\ (st.phase \in {"idle", "imported"} => st.tgw = "0")
\* on the as-built machine the recorded history and the stores agree between blocks
MInv_Ghost == (st.phase \in {"idle", "imported"} /\ gh.known) => (gh.base = st.baseFee /\ gh.fig = st.bgw)

\* (gh.after only labels violation classes)
View == <<st, bnd, [gh EXCEPT !.after = "-"], Len(hist), hist[Len(hist)].ok>>

---------------------------------------------------------------------------
(* The pure input grid: a depth-1 machine whose Next picks one input tuple  *)

GridMaxGases == MaxGases
GridArgs(b, g, mg, el, d, m) ==
    [base |-> BigOfInt(b), g |-> BigOfInt(g), maxGas |-> mg, elasticity |-> BigOfInt(el),
     denominator |-> BigOfInt(d), minGasPrice |-> m, noBaseFee |-> FALSE, enableHeight |-> 0, height |-> 5]

CalcInit == st = [kind |-> "none"] /\ hist = <<>> /\ bnd = 0 /\ gh = 0
\* two levels (pick the parameter row, then g) so that TLC's workers share the product
CalcNext ==
    /\ \/ /\ st.kind = "none"
          /\ \E b \in 0..BaseMax, mg \in GridMaxGases, el \in 1..ElasticityMax,
                d \in 1..DenominatorMax, m \in MinGasPrices :
                st' = [kind |-> "row", a |-> GridArgs(b, 0, mg, el, d, m)]
       \/ /\ st.kind = "row"
          /\ \E g \in 0..GMax : st' = [kind |-> "case", a |-> [st.a EXCEPT !.g = BigOfInt(g)]]
    /\ UNCHANGED <<hist, bnd, gh>>
CalcSpec == CalcInit /\ [][CalcNext]_vars

NextG(a) == [a EXCEPT !.g = BigAdd(a.g, "1")]

\* the code-shaped function is admissible under P on the whole grid
Thm_CodeIsP == st.kind = "case" => CalcOK(st.a, CodeCalc(st.a))
\* every admissible value satisfies the bounds
Thm_Bounds == st.kind = "case" =>
    (CalcSpeaks(st.a) =>
        \A v \in PAllowed(st.a.base, st.a.g, ATarget(st.a), st.a.denominator, st.a.minGasPrice) :
            BrokenBounds(st.a, Val(v)) = {})
\* monotone in g on the stated domain, for either rounding of a fractional min gas price
Thm_Monotone == st.kind = "case" =>
    LET a == st.a  a2 == NextG(st.a) IN
    \A r \in Roundings :
        MonotoneOn(a,  Val(PVal(r, a.base,  a.g,  ATarget(a),  a.denominator,  a.minGasPrice)),
                   a2, Val(PVal(r, a2.base, a2.g, ATarget(a2), a2.denominator, a2.minGasPrice)))
\* NOT a theorem (FeeMarket_calc_nonmono.cfg must produce a counterexample): monotonicity
\* without the domain restriction fails, e.g. base 0, min gas price 3: g < T gives 3, g = T gives 0
NonThm_MonotoneEverywhere == st.kind = "case" =>
    LET a == st.a  a2 == NextG(st.a) IN
    (CalcSpeaks(a) /\ CalcSpeaks(a2)) =>
        BigLE(PVal("floor", a.base,  a.g,  ATarget(a),  a.denominator,  a.minGasPrice),
              PVal("floor", a2.base, a2.g, ATarget(a2), a2.denominator, a2.minGasPrice))
\* every region of the definition occurs on the grid (checked through -coverage / counted by the harness)

---------------------------------------------------------------------------
(* Behaviours as JSON scripts for the harness (-simulate)                   *)

Emit == Len(hist) = MaxLen /\ PrintT(<<"SCRIPT", ToJson(hist)>>) /\ UNCHANGED vars

RandParams(h) == RandomElement(ParamSets)
SimNext ==
    /\ Len(hist) < MaxLen /\ ~Halted
    /\ \/ BeginBlock
       \* (scripts are replayed at keeper level: the model's gases are too small to pay for a real ante chain)
       \/ AnteGasWanted(RandomElement(Gases), "decorator")
       \/ AnteGasWanted(RandomElement(Gases), "decorator")
       \/ RandomElement(1..4) = 1 /\ Upgrade(3)
       \/ (bnd.antes > 0 \/ RandomElement(1..3) = 1) /\ EndBlock(RandomElement({u \in Useds : UsedOK(u)}))
       \/ Commit
       \/ RandomElement(1..5) = 1 /\ Restart
       \/ RandomElement(1..5) = 1 /\ Reinit(RandomElement({TRUE, FALSE, FALSE}))
       \/ RandomElement(1..8) = 1 /\ ExportImport(RandomElement({TRUE, FALSE, FALSE}))
       \/ RandomElement(1..6) = 1 /\ SetParams(RandParams(hist), RandomElement(SetBases \cup {st.baseFee}))
       \/ RandomElement(1..8) = 1 /\ SetMaxGas(RandomElement(SetMaxGases))
SimSpec == Init /\ [][SimNext \/ Emit]_vars

---------------------------------------------------------------------------
(* model values for the configurations (cfg files cannot write records)     *)

Par(nb, eh, el, d, mgp, mult) ==
    [noBaseFee |-> nb, enableHeight |-> eh, elasticity |-> el, denominator |-> d,
     minGasPrice |-> mgp, minGasMultiplier |-> mult]
Half == "500000000000000000"
MC_ParamSets_quick ==
    { Par(FALSE, 0, "2", "2", "3000000000000000000", Half),
      Par(FALSE, 0, "3", "8", "0", One18),
      Par(FALSE, 2, "1", "1", "10000000000000000000", "0"),
      Par(TRUE,  0, "2", "8", "0", Half) }
MC_ParamSets ==
    MC_ParamSets_quick \cup
    { Par(FALSE, 0, "2", "8", "2500000000000000000", "333333333333333333"),
      Par(FALSE, 0, "0", "8", "0", Half),          \* passes validation, BeginBlock panics
      Par(FALSE, 1, "2", "0", "0", Half) }         \* rejected by validation
=============================================================================
