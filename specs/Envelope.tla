------------------------------ MODULE Envelope ------------------------------
(***************************************************************************)
(* The Cosmos envelope of Ethereum transactions (x/evm/types: msg.go,      *)
(* tx_data.go, legacy_tx.go, access_list_tx.go, dynamic_fee_tx.go,         *)
(* utils.go; encoding/config.go) - property C18.                           *)
(*                                                                         *)
(* C18 is encode/decode fidelity.  This module does NOT model RLP,         *)
(* protobuf, Any packing or signature recovery: those are observed through *)
(* the real calls by harness/envelope.go.  What the specification          *)
(* contributes is                                                          *)
(*                                                                         *)
(*  (i)  the CASE ANALYSIS: a depth-1 input machine whose Next picks one   *)
(*       case from the product of field classes (type x nonce x gas x      *)
(*       amount x price x tip/cap relation x data x access list x to x     *)
(*       signature form x chain id x base fee), restricted to the          *)
(*       combinations that exist (Feasible...), and crossed with the       *)
(*       ENVELOPE around the signed transaction (how the recorded hash is  *)
(*       spelled x what the From field says: the point the wrapping API    *)
(*       produces, or any other for an envelope built by hand and met on   *)
(*       the receiving side).  TLC enumerates the                          *)
(*       product and prints every case as JSON; the harness executes one   *)
(*       real transaction per case.                                        *)
(*  (ii) the DERIVED FIGURES and identities of the property statement      *)
(*       (property layer P), computed by TLC with exact integers: fee,     *)
(*       cost, effective gas price / fee / cost; the exhaustive            *)
(*       configuration also proves on the model that these definitions are *)
(*       mutually consistent (the Inv_ operators).  EnvelopeTrace evaluates P on *)
(*       every recorded case.                                              *)
(*  (iii) a transcription M of what the code accepts (FromEthereumTx,      *)
(*       ValidateBasic, BuildTx) over the same classes - diagnostic only,  *)
(*       the statement does not say which transactions validate.           *)
(*                                                                         *)
(* This module is ONE transaction through ONE fresh builder: a pure input  *)
(* space.  The same functions applied in SEQUENCES to SHARED objects (a    *)
(* re-used TxBuilder, decoded Cosmos transactions with several Ethereum    *)
(* messages, UnwrapEthereumMsg and the per-message getters in any order)   *)
(* are the state machine of module EnvelopeOps, which extends this one and *)
(* draws its transactions from the case product defined here.              *)
(*                                                                         *)
(* Numbers are decimal strings (module BigNum).  A case is a record of     *)
(* class names                                                             *)
(*   [type, nonce, gas, amount, price, rel, data, access, to, sig, chain,  *)
(*    base, rec, from]                                                     *)
(* and a valuation is a record of concrete numbers for the numeric fields. *)
(***************************************************************************)
EXTENDS Integers, Sequences, FiniteSets, TLC, Json, BigNum

CONSTANTS Tier,     \* "quick": factored product (see QuickSpaces), "full": the full product
          EnvDefects \* named mutation witnesses of the acceptance rules M ({} = as built)

Two63  == "9223372036854775808"
MaxI64 == "9223372036854775807"
Two64  == "18446744073709551616"
Max64  == "18446744073709551615"
Two70  == "1180591620717411303424"
Max256 == "115792089237316195423570985008687907853269984665640564039457584007913129639935"
Two256 == "115792089237316195423570985008687907853269984665640564039457584007913129639936"

ASSUME BigAdd(Max256, "1") = Two256 /\ BigMul(Two64, BigMul(Two64, BigMul(Two64, Two64))) = Two256
ASSUME BigAdd(Max64, "1") = Two64 /\ BigAdd(MaxI64, "1") = Two63 /\ BigMul(Two63, "2") = Two64

---------------------------------------------------------------------------
(* Field classes and their values *)

Types  == {"legacy", "accesslist", "dynamic"}
NonceC == {"0", "1", "max64"}
GasC   == {"0", "21000", "maxi64", "max64"}
AmtC   == {"nil", "0", "1", "2p64", "max256"}        \* also the classes of gasPrice / feeCap
RelC   == {"lt", "eq", "gt"}                          \* tipCap relative to feeCap (dynamic); "na" otherwise
DataC  == {"empty", "1", "64k"}
AccessC == {"nil", "empty", "3x3"}                    \* "na" for legacy
ToC    == {"create", "call", "zero"}
ChainC == {"1", "11235", "2p63"}                      \* "none" for unprotected legacy
BaseDyn == {"nil", "0", "below", "edge", "between", "above"}
BaseOther == {"nil", "0", "some"}

\* THE ENVELOPE ITSELF.  A MsgEthereumTx carries, next to the signed transaction, fields that no signature
\* covers: the recorded hash (a STRING) and the From address (a string).  The wrapping API (FromEthereumTx,
\* NewTx, UnmarshalBinary) produces exactly one point of that space - the canonical spelling of the hash
\* ("0x" + 64 lower-case hex digits, what Hash.Hex() prints) and an empty From.  But the receiving side
\* decodes whatever bytes a sender put on the wire: the envelope may be HAND-BUILT, and then these fields
\* are inputs like any other.  RecC: how the sender spelled the recorded hash; FromC: what it wrote into From.
RecC  == {"canon",       \* Hash.Hex() of the transaction
          "upper",       \* the same digits in upper case
          "mixed",       \* the same digits in mixed case
          "capsprefix",  \* "0X" prefix
          "noprefix",    \* the 64 digits without prefix
          "odd",         \* one more leading 0 digit (odd number of digits, numerically the same)
          "zeropad",     \* more leading 00 bytes (numerically the same, more than 32 bytes)
          "longer",      \* other bytes in front of the right 32
          "wrong",       \* canonical spelling of other 32 bytes
          "empty"}       \* nothing recorded
FromC == {"empty", "signer", "foreign", "garbage"}
\* spellings a lenient parser (go-ethereum's HexToHash: optional prefix, any case, odd length, crops from the
\* left) maps to the bytes of the Ethereum hash although the recorded STRING is not the Ethereum hash
RecDenotesSame == RecC \ {"wrong", "empty"}
ApiRec  == "canon"
ApiFrom == "empty"
HandBuilt(c) == c.rec # ApiRec \/ c.from # ApiFrom

\* the value go-ethereum reports for a point class (a nil amount is reported as 0)
PointVal(c) == CASE c = "nil" -> "0" [] c = "0" -> "0" [] c = "1" -> "1" [] c = "2p64" -> Two64
                 [] c = "max256" -> Max256 [] c = "over256" -> Two256
NonceVal(c) == CASE c = "0" -> "0" [] c = "1" -> "1" [] c = "max64" -> Max64
GasVal(c)   == CASE c = "0" -> "0" [] c = "21000" -> "21000" [] c = "maxi64" -> MaxI64 [] c = "max64" -> Max64
ChainVal(c) == CASE c = "1" -> "1" [] c = "11235" -> "11235" [] c = "2p63" -> Two63
                 [] c = "over256" -> Two256 [] c = "none" -> "0"

IsDyn(t) == t = "dynamic"

\* <<price class, relation>> pairs that exist
PriceRelOf(t) ==
    IF ~IsDyn(t) THEN {<<p, "na">> : p \in AmtC}
    ELSE {pr \in AmtC \X RelC :
            /\ pr[1] = "nil" => pr[2] = "eq"                      \* both caps absent
            /\ pr[2] = "lt" => BigLT("0", PointVal(pr[1]))         \* something below the cap exists
            /\ pr[2] = "gt" => BigLT(PointVal(pr[1]), Max256)}     \* something representable above it exists

AccessOf(t)   == IF t = "legacy" THEN {"na"} ELSE AccessC
SigChainOf(t) == IF t = "legacy" THEN {<<"eip155", ch>> : ch \in ChainC} \cup {<<"unprotected", "none">>}
                 ELSE {<<"typed", ch>> : ch \in ChainC}

\* the tip range of a relation, narrowed to where the base-fee class b exists; <<>> if empty
TipRange(cap, rel, b) ==
    CASE rel \in {"na", "eq"} -> <<cap, cap>>
      [] rel = "lt" ->
           IF b = "below"   THEN (IF BigLE("2", cap) THEN <<"0", BigSub(cap, "2")>> ELSE <<>>)
           ELSE IF b = "between" THEN (IF BigLE("2", cap) THEN <<"1", BigSub(cap, "1")>> ELSE <<>>)
           ELSE (IF BigLE("1", cap) THEN <<"0", BigSub(cap, "1")>> ELSE <<>>)
      [] rel = "gt" -> IF BigLT(cap, Max256) THEN <<BigAdd(cap, "1"), Max256>> ELSE <<Two256, Two256>>

\* the base-fee range of a class for given tip and cap; <<>> if empty.  The classes partition
\* the base fees by how min(tip + base, cap) is decided.
BaseRange(b, tip, cap) ==
    CASE b = "nil"  -> <<"nil", "nil">>
      [] b = "0"    -> <<"0", "0">>
      [] b = "some" -> <<"1", Two70>>
      [] b = "below" ->                                   \* tip + base < cap
           LET hi == BigSub(BigSub(cap, tip), "1") IN IF BigLE("1", hi) THEN <<"1", hi>> ELSE <<>>
      [] b = "edge" ->                                    \* tip + base = cap, base >= 1
           LET v == BigSub(cap, tip) IN IF BigLE("1", v) THEN <<v, v>> ELSE <<>>
      [] b = "between" ->                                 \* tip + base > cap, base <= cap
           LET lo == BigAdd(BigMax(BigSub(cap, tip), "0"), "1") IN IF BigLE(lo, cap) THEN <<lo, cap>> ELSE <<>>
      [] b = "above" ->                                   \* base > cap
           <<BigAdd(cap, "1"), BigAdd(BigAdd(cap, "1"), Two70)>>

BaseOf(t, pr) ==
    IF ~IsDyn(t) THEN BaseOther
    ELSE {b \in BaseDyn :
            LET cap == PointVal(pr[1])
                tr  == TipRange(cap, pr[2], b) IN
            /\ tr # <<>>
            /\ \E tip \in {tr[1], tr[2]} : BaseRange(b, tip, cap) # <<>>}

MkH(t, n, g, a, pr, d, ac, to, sc, b, rec, from) ==
    [type |-> t, nonce |-> n, gas |-> g, amount |-> a, price |-> pr[1], rel |-> pr[2], data |-> d,
     access |-> ac, to |-> to, sig |-> sc[1], chain |-> sc[2], base |-> b, rec |-> rec, from |-> from]
\* the envelope the wrapping API makes
Mk(t, n, g, a, pr, d, ac, to, sc, b) == MkH(t, n, g, a, pr, d, ac, to, sc, b, ApiRec, ApiFrom)

\* A space is a record of the class sets allowed per field; its cases are the feasible combinations.
FullSpace == [types |-> Types, nonce |-> NonceC, gas |-> GasC, amount |-> AmtC,
              pricerel |-> (AmtC \X (RelC \cup {"na"})), data |-> DataC, access |-> AccessC \cup {"na"},
              to |-> ToC, sigchain |-> ({"eip155", "typed"} \X ChainC) \cup {<<"unprotected", "none">>},
              base |-> BaseDyn \cup BaseOther, rec |-> RecC, from |-> FromC]

InSpace(c, sp) ==
    /\ c.type \in sp.types /\ c.nonce \in sp.nonce /\ c.gas \in sp.gas /\ c.amount \in sp.amount
    /\ <<c.price, c.rel>> \in (PriceRelOf(c.type) \cap sp.pricerel)
    /\ c.data \in sp.data /\ c.access \in (AccessOf(c.type) \cap sp.access) /\ c.to \in sp.to
    /\ <<c.sig, c.chain>> \in (SigChainOf(c.type) \cap sp.sigchain)
    /\ c.base \in (BaseOf(c.type, <<c.price, c.rel>>) \cap sp.base)
    /\ c.rec \in sp.rec /\ c.from \in sp.from

\* The quick tier factors the product.  The fields fall into two groups that the code treats
\* independently: NUMERIC (gas, amount, price, rel, base: fee/cost/effective figures, 256-bit bounds,
\* Validate) and STRUCTURAL (nonce, data, access list, to, signature form, chain id: RLP layout,
\* hashing, signature recovery).  Quick = (all numeric combinations x 3 structural backgrounds)
\* \cup (all structural combinations x 3 numeric backgrounds); both groups are crossed with the type.
StructBg == <<
    [nonce |-> {"1"}, data |-> {"1"}, access |-> {"nil", "na"}, to |-> {"call"},
     sigchain |-> {<<"eip155", "11235">>, <<"typed", "11235">>}],
    [nonce |-> {"max64"}, data |-> {"64k"}, access |-> {"3x3", "na"}, to |-> {"create"},
     sigchain |-> {<<"unprotected", "none">>, <<"typed", "2p63">>}],
    [nonce |-> {"0"}, data |-> {"empty"}, access |-> {"empty", "na"}, to |-> {"zero"},
     sigchain |-> {<<"eip155", "1">>, <<"typed", "1">>}] >>
NumBg == <<
    [gas |-> {"21000"}, amount |-> {"1"}, pricerel |-> {<<"2p64", "na">>, <<"2p64", "lt">>}, base |-> {"some", "below"}],
    [gas |-> {"maxi64"}, amount |-> {"max256"}, pricerel |-> {<<"1", "na">>, <<"1", "eq">>}, base |-> {"nil"}],
    [gas |-> {"21000"}, amount |-> {"nil"}, pricerel |-> {<<"0", "na">>, <<"0", "eq">>}, base |-> {"0"}] >>
\* A third group, the ENVELOPE (rec, from), is independent of both: ValidateBasic compares two strings and
\* checks an address, the codecs carry two strings.  Both tiers cross ALL envelope combinations with the type
\* on three (structural x numeric) backgrounds and keep the envelope at the API point everywhere else; the full tier adds all envelope
\* combinations x all signature forms / chain ids x to x data on the first background.
ApiSpace == [FullSpace EXCEPT !.rec = {ApiRec}, !.from = {ApiFrom}]
WithStructOf(sp, bg) == [sp EXCEPT !.nonce = bg.nonce, !.data = bg.data, !.access = bg.access, !.to = bg.to,
                                   !.sigchain = bg.sigchain]
WithNumOf(sp, bg)    == [sp EXCEPT !.gas = bg.gas, !.amount = bg.amount, !.pricerel = bg.pricerel, !.base = bg.base]
WithStruct(bg) == WithStructOf(ApiSpace, bg)
WithNum(bg)    == WithNumOf(ApiSpace, bg)
HandSpace(i)   == WithNumOf(WithStructOf(FullSpace, StructBg[i]), NumBg[i])
HandSpaces     == {HandSpace(i) : i \in 1..3}
HandSpaceWide  == [HandSpace(1) EXCEPT !.to = ToC, !.data = DataC, !.sigchain = FullSpace.sigchain]
QuickSpaces == {WithStruct(StructBg[i]) : i \in 1..3} \cup {WithNum(NumBg[i]) : i \in 1..3} \cup HandSpaces
Spaces == IF Tier = "full" THEN {ApiSpace, HandSpaceWide} \cup HandSpaces ELSE QuickSpaces

\* Cases outside the product: out-of-range values.  Whatever the code does with them (reject at
\* construction, panic, accept) is recorded; P applies to those it wraps.
ExtraBase(t) == [type |-> t, nonce |-> "1", gas |-> "21000", amount |-> "1", price |-> "2p64",
                 rel |-> IF IsDyn(t) THEN "eq" ELSE "na", data |-> "1",
                 access |-> IF t = "legacy" THEN "na" ELSE "nil", to |-> "call",
                 sig |-> IF t = "legacy" THEN "eip155" ELSE "typed", chain |-> "11235", base |-> "nil",
                 rec |-> ApiRec, from |-> ApiFrom]
ExtraCases ==
    UNION {{ [ExtraBase(t) EXCEPT !.amount = "over256"],
             [ExtraBase(t) EXCEPT !.price = "over256"],
             [ExtraBase(t) EXCEPT !.chain = "over256"],
             [ExtraBase(t) EXCEPT !.amount = "over256", !.to = "create", !.data = "64k"] } : t \in Types}
    \cup { [ExtraBase("dynamic") EXCEPT !.price = "over256", !.rel = "lt"],
           [ExtraBase("dynamic") EXCEPT !.price = "max256", !.rel = "gt"] }      \* tip = 2^256

---------------------------------------------------------------------------
(* P: the derived figures of the property statement.  f is a record with the fields       *)
(* type, gas, gasPrice, tipCap, feeCap, value as go-ethereum reports them for the         *)
(* ORIGINAL transaction (decimal strings); base is the base fee or "nil".                 *)

PriceOf(f) == IF IsDyn(f.type) THEN f.feeCap ELSE f.gasPrice
FeeOf(f)   == BigMul(PriceOf(f), f.gas)
CostOf(f)  == BigAdd(FeeOf(f), f.value)
\* effective gas price: min(tip + baseFee, cap) for dynamic-fee transactions, the gas price otherwise.
\* Without a base fee a dynamic-fee transaction has no effective price (the chain refuses it).
EffDefined(f, base) == ~IsDyn(f.type) \/ base # "nil"
EffPriceOf(f, base) == IF IsDyn(f.type) THEN BigMin(BigAdd(f.tipCap, base), f.feeCap) ELSE f.gasPrice
EffFeeOf(f, base)   == BigMul(EffPriceOf(f, base), f.gas)
EffCostOf(f, base)  == BigAdd(EffFeeOf(f, base), f.value)

FigNames == {"fee", "cost", "effPrice", "effFee", "effCost"}
Figures(f, base) ==
    LET d == EffDefined(f, base) IN
    [fee |-> FeeOf(f), cost |-> CostOf(f),
     effPrice |-> IF d THEN EffPriceOf(f, base) ELSE "undef",
     effFee   |-> IF d THEN EffFeeOf(f, base) ELSE "undef",
     effCost  |-> IF d THEN EffCostOf(f, base) ELSE "undef"]

---------------------------------------------------------------------------
(* Class membership of concrete values (shared by the model and by trace validation) *)

RelIn(rel, tip, cap) ==
    CASE rel \in {"na", "eq"} -> BigEq(tip, cap) [] rel = "lt" -> BigLT(tip, cap) [] rel = "gt" -> BigLT(cap, tip)

BaseIn(b, base, tip, cap) ==
    CASE b = "nil"  -> base = "nil"
      [] base = "nil" -> FALSE
      [] b = "0"    -> BigEq(base, "0")
      [] b = "some" -> BigLE("1", base)
      [] b = "below"   -> BigLE("1", base) /\ BigLT(BigAdd(tip, base), cap)
      [] b = "edge"    -> BigLE("1", base) /\ BigEq(BigAdd(tip, base), cap)
      [] b = "between" -> BigLE("1", base) /\ BigLT(cap, BigAdd(tip, base)) /\ BigLE(base, cap)
      [] b = "above"   -> BigLT(cap, base)

---------------------------------------------------------------------------
(* M: what the code accepts, transcribed (diagnostic).  f as above plus chainId.  *)

Fits256(v) == BigLE(v, Max256)

\* FromEthereumTx -> NewTxDataFromTx: SafeNewIntFromBigInt refuses amounts / prices above 256 bits with an
\* error; SetSignatureValues of the typed transactions converts the chain id with NewIntFromBigInt (panics)
MWrap(f) ==
    IF ~Fits256(f.value) \/ ~Fits256(f.gasPrice) \/ ~Fits256(f.feeCap) \/ ~Fits256(f.tipCap) THEN "error"
    ELSE IF f.type # "legacy" /\ ~Fits256(f.chainId) THEN "panic"
    ELSE "ok"

\* TxData.Validate, and MsgEthereumTx.ValidateBasic which runs it after its own gas checks (first failing
\* rule, in the order of the code; the amount / price bounds of Validate cannot fail after MWrap)
MTxValidate(f) ==
    IF IsDyn(f.type) /\ BigLT(f.feeCap, f.tipCap) THEN "tip-gt-cap"
    ELSE IF ~Fits256(FeeOf(f)) THEN "fee-oob"
    ELSE "ok"
MValidateBasic(f) ==
    IF BigEq(f.gas, "0") THEN "gas-zero"
    ELSE IF BigLT(MaxI64, f.gas) THEN "gas-overflow"
    ELSE MTxValidate(f)

\* ValidateBasic on the RECEIVING side, for an envelope with the given spelling of the recorded hash and From field
\* (the order of the code: From must be a hex address if present; gas; TxData.Validate; at the end the recorded
\* hash is compared AS A STRING with Hash().Hex() of the transaction).  The named defect is not a known
\* deviation of the code but a mutation witness (Envelope_witness_hashasbytes.cfg must FAIL): a machine that
\* parses the recorded hash and compares bytes.
MValidateEnvelope(f, c) ==
    IF c.from = "garbage" THEN "from-invalid"
    ELSE IF MValidateBasic(f) # "ok" THEN MValidateBasic(f)
    ELSE IF c.rec = "canon" THEN "ok"
    ELSE IF "HashComparedAsBytes" \in EnvDefects /\ c.rec \in RecDenotesSame THEN "ok"
    ELSE "hash-mismatch"

\* BuildTx converts Fee() with NewIntFromBigInt: panics above 256 bits
MBuild(f) == IF Fits256(FeeOf(f)) THEN "ok" ELSE "panic"

\* DeriveChainID(v) of utils.go / tx_data.go (both branches compute the same function)
MDeriveChainID(v) ==
    IF BigLE(v, "0") THEN "nil"
    ELSE IF v \in {"27", "28"} THEN "0"
    ELSE IF BigLT(v, "35") THEN "nil"
    ELSE BigQuo(BigSub(v, "35"), "2")

\* EIP-155: v = {0,1} + 2 * chainId + 35; unprotected: {0,1} + 27
VOf(sig, chain, parity) ==
    CASE sig = "eip155" -> BigAdd(BigAdd(BigMul(chain, "2"), "35"), parity)
      [] sig = "unprotected" -> BigAdd("27", parity)
      [] sig = "typed" -> parity

---------------------------------------------------------------------------
(* The depth-1 input machine *)

VARIABLES cs, x
vars == <<cs, x>>

\* concrete numbers of a case: the ends of every class range
Valuations(c) ==
    LET cap == PointVal(c.price) IN
    {[type |-> c.type, gas |-> GasVal(c.gas), value |-> PointVal(c.amount),
      gasPrice |-> cap, feeCap |-> cap, tipCap |-> tbp[1], base |-> tbp[2],
      chainId |-> ChainVal(c.chain), v |-> VOf(c.sig, ChainVal(c.chain), tbp[3])] :
        tbp \in
           UNION { UNION { {<<t, b, p>> : p \in {"0", "1"}} :
                           b \in LET br == BaseRange(c.base, t, cap) IN IF br = <<>> THEN {} ELSE {br[1], br[2]} } :
                   t \in LET tr == TipRange(cap, c.rel, c.base) IN IF tr = <<>> THEN {} ELSE {tr[1], tr[2]} } }

NoCase == [type |-> "none"]
Init == cs = NoCase /\ x = NoCase

Pick(sp, emit) ==
    \E t \in sp.types : \E pr \in (PriceRelOf(t) \cap sp.pricerel) :
    \E n \in sp.nonce, g \in sp.gas, a \in sp.amount, d \in sp.data, to \in sp.to :
    \E ac \in (AccessOf(t) \cap sp.access) : \E sc \in (SigChainOf(t) \cap sp.sigchain) :
    \E b \in (BaseOf(t, pr) \cap sp.base) : \E rec \in sp.rec, from \in sp.from :
       /\ cs' = MkH(t, n, g, a, pr, d, ac, to, sc, b, rec, from)
       /\ IF emit THEN x' = NoCase /\ PrintT(<<"CASE", ToJson(cs')>>)
                  ELSE \E v \in Valuations(cs') : x' = v

PickExtra(emit) ==
    \E c \in ExtraCases : /\ cs' = c
                          /\ IF emit THEN x' = NoCase /\ PrintT(<<"CASE", ToJson(cs')>>)
                                     ELSE \E v \in Valuations(cs') : x' = v

Next     == cs = NoCase /\ ((\E sp \in Spaces : Pick(sp, FALSE)) \/ PickExtra(FALSE))
EmitNext == cs = NoCase /\ ((\E sp \in Spaces : Pick(sp, TRUE)) \/ PickExtra(TRUE))

Spec     == Init /\ [][Next]_vars
EmitSpec == Init /\ [][EmitNext]_vars

---------------------------------------------------------------------------
(* What the exhaustive configuration proves on the model, for every case and every     *)
(* end-point valuation of its classes                                                  *)

Picked == cs.type # "none"
InProduct == Picked /\ cs \notin ExtraCases

\* the generator and the recognisers agree: every case is in the declared space and its valuations
\* are members of its classes
Inv_Membership ==
    InProduct => /\ \E sp \in Spaces : InSpace(cs, sp)
                 /\ InSpace(cs, FullSpace)
                 /\ RelIn(cs.rel, x.tipCap, x.feeCap)
                 /\ BaseIn(cs.base, x.base, x.tipCap, x.feeCap)

\* fee / cost arithmetic
Inv_CostMinusFee ==
    Picked => /\ BigEq(BigSub(CostOf(x), FeeOf(x)), x.value)
              /\ EffDefined(x, x.base) => BigEq(BigSub(EffCostOf(x, x.base), EffFeeOf(x, x.base)), x.value)

\* the effective figures never exceed the static ones
Inv_EffectiveBounded ==
    (Picked /\ EffDefined(x, x.base)) =>
        /\ BigLE(EffPriceOf(x, x.base), PriceOf(x))
        /\ BigLE(EffFeeOf(x, x.base), FeeOf(x))
        /\ BigLE(EffCostOf(x, x.base), CostOf(x))

\* for legacy / access-list transactions the base fee is irrelevant, and the 1559 formula applied with
\* tip = cap = gasPrice gives the same figure (go-ethereum computes it that way)
Inv_NonDynamic ==
    (Picked /\ ~IsDyn(x.type)) =>
        /\ EffPriceOf(x, x.base) = x.gasPrice /\ EffFeeOf(x, x.base) = FeeOf(x) /\ EffCostOf(x, x.base) = CostOf(x)
        /\ x.base # "nil" => BigEq(BigMin(BigAdd(x.tipCap, x.base), x.feeCap), x.gasPrice)

\* which side of the min decides, per base-fee class
Inv_EffectiveByClass ==
    (InProduct /\ IsDyn(x.type) /\ x.base # "nil") =>
        LET ep == EffPriceOf(x, x.base) IN
        CASE cs.base \in {"below", "0"} /\ cs.rel # "gt" -> BigEq(ep, BigAdd(x.tipCap, x.base))
          [] cs.base \in {"edge", "between", "above"} -> BigEq(ep, x.feeCap)
          [] OTHER -> BigEq(ep, x.feeCap)              \* base 0 with tip > cap

\* when the transaction can pay the base fee, it pays at least the base fee and the miner's part is
\* go-ethereum's effective tip min(tip, cap - base)
Inv_EffectiveTip ==
    (Picked /\ IsDyn(x.type) /\ x.base # "nil" /\ BigLE(x.base, x.feeCap)) =>
        /\ BigLE(x.base, EffPriceOf(x, x.base))
        /\ BigEq(BigSub(EffPriceOf(x, x.base), x.base), BigMin(x.tipCap, BigSub(x.feeCap, x.base)))

\* the transcribed acceptance rules are coherent with the figures
Inv_Validate ==
    Picked =>
        /\ (MWrap(x) = "ok" /\ MValidateBasic(x) = "ok") =>
              /\ BigLE("1", x.gas) /\ BigLE(x.gas, MaxI64) /\ BigLE(x.tipCap, x.feeCap)
              /\ Fits256(FeeOf(x)) /\ MBuild(x) = "ok"
              /\ EffDefined(x, x.base) => Fits256(EffFeeOf(x, x.base))
        /\ InProduct => MWrap(x) = "ok"
        /\ (MBuild(x) = "panic" /\ MWrap(x) = "ok") => MValidateBasic(x) # "ok"

\* P on the envelope dimension, on the model: "the hash recorded in the message always equals the Ethereum hash" -
\* whatever the receiving side ACCEPTS records the canonical string, whoever built the envelope; and the fields
\* outside the signature never decide more than that (an accepted hand-built envelope carries a transaction the
\* API-built envelope would have been accepted with)
Inv_RecordedHashOfAccepted ==
    Picked => (MValidateEnvelope(x, cs) = "ok" => cs.rec = "canon" /\ MValidateBasic(x) = "ok")

\* EIP-155: the chain id derived from v is the chain id signed for; 27/28 derive 0
Inv_ChainId ==
    Picked => MDeriveChainID(x.v) = (IF cs.sig = "typed" THEN "nil" ELSE x.chainId)

=============================================================================
