SPECIFICATION SimSpecAdv
CONSTANTS
  Holders = {"a1","a2"}
  Amts = {"1","2","3"}
  InitBal = "5"
  MaxLen = 10
  Scenarios <- MC_AdvReal
  Defects = {"hook_no_checks", "unescrow_receiver_only"}
CHECK_DEADLOCK FALSE
