SPECIFICATION TraceSpec
CONSTANTS
  Denoms = {}
  BondDenom = "aISLM"
  MaxLen = 0
  Amt = "0"
  ValStake = "0"
  PowerReduction = "1"
  FracDouble <- MC_FracDouble
  FracDowntime <- MC_FracDowntime
  BurnVeto = TRUE
  BurnPrevote = TRUE
  BurnQuorum = FALSE
  ParamKeys = {}
  MaxParamChanges = 0
  Seeded = FALSE
  Networks = {}
  Heights0 = {}
  Defects = {}
INVARIANT Report
CHECK_DEADLOCK FALSE
