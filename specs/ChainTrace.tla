----------------------------- MODULE ChainTrace -----------------------------
(* Validates traces recorded by harness/chain.go from real replicas (separate OS         *)
(* processes running the real application through ABCI) against the property layer of     *)
(* Chain: agreement of commit records between replicas (C01), transparency of replica-    *)
(* local actions (C01) and restarts (C20), the registered invariant routes after every    *)
(* EndBlock (C15) and the export -> import -> export fixed point (C19).                   *)
(* The file is the concatenation of the replicas' traces, scenario by scenario; a reset   *)
(* line of the generating replica starts a scenario.  Deterministic and total.            *)
EXTENDS Integers, Sequences, FiniteSets, TLC, Json

VARIABLES l, recs, restarted, restartedAt, tainted, impTaint, qsnaps, viol, nscn, ncommit
tvars == <<l, recs, restarted, restartedAt, tainted, impTaint, qsnaps, viol, nscn, ncommit>>

Trace == ndJsonDeserialize("trace.ndjson")

Sig(prop, kind, class, e) == [prop |-> prop, kind |-> kind, class |-> class, scn |-> e.scn, line |-> l]

\* fields of the exported document that are functions of the header at export time, not state:
\* the IBC localhost client records the current block height, and the second export
\* necessarily happens one height later (DESIGN.md section 2)
HeaderDerived(m, p) ==
    \/ m = "ibc" /\ p = ".client_genesis.clients[].client_state.latest_height.revision_height"
    \* BLOCKHASH of blocks before the import: the new chain has no such blocks
    \/ m = "queries" /\ p = "evm.ethcall-probe"

\* what differs between two commit records, most specific first
TxDiff(a, b) ==
    IF Len(a.txs) # Len(b.txs) THEN "tx-count"
    ELSE LET bad == {j \in 1..Len(a.txs) : a.txs[j] # b.txs[j]} IN
         IF bad = {} THEN ""
         ELSE LET j == CHOOSE x \in bad : \A y \in bad : x <= y
                  ta == a.txs[j]  tb == b.txs[j] IN
              \* a transaction rejected before the ante handler installed its gas meter reports the gas
              \* consumed so far on the *block* context (BeginBlock work included)
              IF ta.code # 0 /\ ta.code = tb.code /\ ta.gasWanted = "0" /\ tb.gasWanted = "0"
                 /\ [ta EXCEPT !.gasUsed = ""] = [tb EXCEPT !.gasUsed = ""]
              THEN "gasUsed-of-tx-rejected-before-ante-handler"
              ELSE
              "txresult:" \o ta.k \o ":" \o
                (IF ta.code # tb.code THEN "code" ELSE IF ta.gasUsed # tb.gasUsed THEN "gasUsed"
                 ELSE IF ta.gasWanted # tb.gasWanted THEN "gasWanted" ELSE IF ta.data # tb.data THEN "data"
                 ELSE IF ta.events # tb.events THEN "events" ELSE "other")
RecDiff(a, b) ==
    IF a = b THEN ""
    ELSE IF TxDiff(a, b) # "" THEN TxDiff(a, b)
    ELSE IF a.valUpdates # b.valUpdates THEN "validator-updates"
    ELSE IF a.cpUpdates # b.cpUpdates THEN "consensus-param-updates"
    ELSE "appHash"

GasKind == "gasUsed-of-tx-rejected-before-ante-handler"
\* query keys end in a per-account index: the class is the query kind
QNorm(k) == LET dots == {i \in 1..Len(k) : SubSeq(k, i, i) = "."} IN
            IF Cardinality(dots) < 2 THEN k
            ELSE LET second == CHOOSE i \in dots : Cardinality({j \in dots : j < i}) = 1 IN SubSeq(k, 1, second - 1)
UnbondKinds == {"undelegate", "redelegate", "pc_undelegate", "agent_undelegate"}
DivergenceProp(r1, r2) == IF restarted[r1] \/ restarted[r2] THEN "C20" ELSE "C01"

TraceInit == l = 1 /\ recs = <<>> /\ restarted = <<>> /\ restartedAt = <<>> /\ tainted = {} /\ impTaint = "" /\ qsnaps = <<>> /\ viol = {} /\ nscn = 0 /\ ncommit = 0

TraceNext ==
    /\ l <= Len(Trace)
    /\ LET e == Trace[l] IN
       /\ l' = l + 1
       /\ CASE e.ev = "reset" ->
                 /\ recs' = IF e.r = "gen" THEN (e.r :> <<>>) ELSE (e.r :> <<>>) @@ recs
                 /\ restarted' = IF e.r = "gen" THEN (e.r :> FALSE) ELSE (e.r :> FALSE) @@ restarted
                 /\ restartedAt' = IF e.r = "gen" THEN (e.r :> -1) ELSE (e.r :> -1) @@ restartedAt
                 /\ tainted' = IF e.r = "gen" THEN {} ELSE tainted
                 /\ impTaint' = IF e.r = "gen" THEN "" ELSE impTaint
                 /\ qsnaps' = IF e.r = "gen" THEN <<>> ELSE qsnaps
                 /\ nscn' = IF e.r = "gen" THEN nscn + 1 ELSE nscn
                 /\ UNCHANGED <<viol, ncommit>>
            [] e.ev = "commit" ->
                 /\ recs' = [recs EXCEPT ![e.r] = Append(@, e.rec)]
                 /\ ncommit' = ncommit + 1
                 /\ viol' = viol
                      \cup (IF e.h = Len(recs[e.r]) + 1 THEN {} ELSE {Sig("C01", "height-gap", "-", e)})
                      \cup {Sig(DivergenceProp(e.r, r2),
                                \* the gas a rejected-before-ante transaction reports also feeds the block gas meter and
                                \* hence the next base fee: once that divergence occurred, later ones follow from it
                                IF e.r \in tainted THEN "divergence-following-" \o GasKind ELSE RecDiff(recs[r2][e.h], e.rec),
                                IF e.r \in tainted THEN "after-restart"
                                ELSE IF restartedAt[e.r] = e.h - 1 \/ restartedAt[r2] = e.h - 1 THEN "first-block-after-restart"
                                ELSE IF restarted[e.r] \/ restarted[r2] THEN "after-restart" ELSE "-", e) :
                              r2 \in {x \in DOMAIN recs \ {e.r} : Len(recs[x]) >= e.h /\ recs[x][e.h] # e.rec}}
                      \cup {Sig("C15", e.broken[j].route, "-", e) : j \in 1..Len(e.broken)}
                 /\ tainted' = tainted \cup (IF \E r2 \in DOMAIN recs \ {e.r} : Len(recs[r2]) >= e.h /\ recs[r2][e.h] # e.rec
                                                            /\ RecDiff(recs[r2][e.h], e.rec) = GasKind THEN {e.r} ELSE {})
                 /\ UNCHANGED <<restarted, restartedAt, impTaint, qsnaps, nscn>>
            [] e.ev = "local" ->
                 /\ viol' = viol \cup (IF e.before = e.after THEN {}
                                       ELSE {Sig(IF restarted[e.r] THEN "C20" ELSE "C01", "local-action-changed-committed-state", e.kind, e)})
                 /\ UNCHANGED <<recs, restarted, restartedAt, tainted, impTaint, qsnaps, nscn, ncommit>>
            [] e.ev = "restart" ->
                 /\ restarted' = [restarted EXCEPT ![e.r] = TRUE]
                 /\ restartedAt' = [restartedAt EXCEPT ![e.r] = e.h]
                 /\ viol' = viol \cup (IF e.info = e.expect THEN {}
                                       ELSE {Sig("C20", IF e.info.height # e.expect.height THEN "info-height" ELSE "info-appHash", "-", e)})
                      \* "answers queries identically": against the snapshot the never-stopped node took at this height
                      \cup (IF e.h \in DOMAIN qsnaps
                           THEN {IF e.r \in tainted THEN Sig("C20", "divergence-following-" \o GasKind, "after-restart", e)
                                 ELSE Sig("C20", "query-answer-differs-after-restart", QNorm(k), e) :
                                   k \in {x \in DOMAIN e.queries : x \notin DOMAIN qsnaps[e.h] \/ qsnaps[e.h][x] # e.queries[x]}}
                           ELSE {})
                 /\ UNCHANGED <<recs, tainted, impTaint, qsnaps, nscn, ncommit>>
            \* a panic while a block was processed: the chain halts (whatever property is being checked, this breaks it)
            [] e.ev = "halt" ->
                 /\ viol' = viol \cup {Sig(p, "block-processing-panicked", "-", e) : p \in {"C01", "C15", "C19", "C20"}}
                 /\ UNCHANGED <<recs, restarted, restartedAt, tainted, impTaint, qsnaps, nscn, ncommit>>
            [] e.ev = "qsnap" ->
                 /\ qsnaps' = (e.h :> e.queries) @@ qsnaps
                 /\ UNCHANGED <<recs, restarted, restartedAt, tainted, impTaint, viol, nscn, ncommit>>
            [] e.ev = "imported_block" ->
                 \* the chain started from the exported genesis executes the following blocks like the original:
                 \* same code, result data and gas of every transaction (the gas of a transaction rejected before
                 \* the ante handler is F13's subject - a fresh process - and is not compared here)
                 LET differs(t) == \/ t.code # t.gen_code \/ t.codespace # t.gen_codespace \/ t.data # t.gen_data
                                   \/ (t.gas # t.gen_gas /\ ~(t.gen_code # 0 /\ t.gasWanted = 0))
                                   \/ t.egas # t.gen_egas      \* (the gas figure inside an Ethereum response)
                     bad == {x \in 1..Len(e.txs) : differs(e.txs[x])}
                     first == IF bad = {} THEN 0 ELSE CHOOSE x \in bad : \A y \in bad : x <= y
                     \* x/staking's unbonding-id counter is not part of the genesis document: the first unbonding
                     \* operation after an import reads no counter (8 bytes less: 24 gas) and re-issues ids from 1
                     counterLost(t) == /\ t.k \in UnbondKinds /\ t.code = t.gen_code /\ t.code = 0 /\ t.data = t.gen_data
                                       /\ \/ t.gen_gas - t.gas = 24 /\ t.gen_egas - t.egas \in {0, 24}
                                          \/ t.gen_gas = t.gas /\ t.gen_egas - t.egas = 24
                     what(t) == IF t.code # t.gen_code \/ t.codespace # t.gen_codespace THEN "code"
                                ELSE IF t.data # t.gen_data THEN "data" ELSE "gasUsed"
                     \* F13 on the imported chain (a fresh application object): a transaction rejected before the ante
                     \* handler reports the gas of the block context, first BeginBlock included; it feeds the block
                     \* gas and hence the next base fee
                     f13(t) == t.gen_code # 0 /\ t.gasWanted = 0 /\ t.gas # t.gen_gas /\ t.code = t.gen_code
                     anyF13 == \E x \in 1..Len(e.txs) : f13(e.txs[x])
                     cause == IF impTaint # "" THEN impTaint
                              ELSE IF first # 0 /\ counterLost(e.txs[first]) THEN "ubd"
                              ELSE IF anyF13 THEN "f13" ELSE ""
                     follow(c) == IF c = "ubd" THEN "divergence-following-loss-of-unbonding-id-counter"
                                  ELSE "divergence-following-" \o GasKind
                 IN /\ viol' = viol \cup
                         {IF impTaint # "" THEN Sig("C19", follow(impTaint), "after-import", e)
                          ELSE IF counterLost(e.txs[x]) /\ x = first
                          THEN Sig("C19", "unbonding-id-counter-not-in-genesis", "first-unbonding-operation-after-import:gasUsed-24", e)
                          ELSE IF first # 0 /\ counterLost(e.txs[first]) THEN Sig("C19", follow("ubd"), "after-import", e)
                          ELSE Sig("C19", "behaviour-after-import:" \o e.txs[x].k, what(e.txs[x]), e) : x \in bad}
                    /\ impTaint' = cause
                    /\ UNCHANGED <<recs, restarted, restartedAt, tainted, qsnaps, nscn, ncommit>>
            [] e.ev = "export_import" ->
                 /\ impTaint' = ""      \* a new chain is started from this export
                 /\ viol' = viol \cup
                      (IF e.zeroErr # "" THEN {Sig("C19", "zero-height-export-or-import-failed", "-", e)} ELSE {}) \cup
                      (IF ~e.ok THEN {Sig("C19", "export-import-failed", e.errClass, e)}
                       ELSE {Sig("C19", m, e.norm[m][p], e) :
                               <<m, p>> \in {mp \in UNION {{<<m2, p2>> : p2 \in DOMAIN e.before[m2]} : m2 \in DOMAIN e.before} :
                                                /\ e.before[mp[1]][mp[2]] # e.after[mp[1]][mp[2]]
                                                /\ ~HeaderDerived(mp[1], e.norm[mp[1]][mp[2]])}})
                 /\ UNCHANGED <<recs, restarted, restartedAt, tainted, qsnaps, nscn, ncommit>>

TraceSpec == TraceInit /\ [][TraceNext]_tvars

Report == l <= Len(Trace) \/
          PrintT(<<"RESULT", ToJson([consumed |-> l - 1, scenarios |-> nscn, commits |-> ncommit, viol |-> viol, div |-> {}])>>)
=============================================================================
