SPECIFICATION EmitSpec
CONSTANTS
  MaxNodes = 6
  MaxSpine = 9
  MaxSkel = 9
  MaxExt = 2
  EmitFullExt = 4
  EmitShortExt = 5
  SampleFull = 30000
  SampleSkel = 0
  SpineExts = "some"
  Defects = {}
CHECK_DEADLOCK FALSE
