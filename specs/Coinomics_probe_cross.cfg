SPECIFICATION Spec
CONSTANTS
  Starts = {"1735603200000"}
  Dts = {"15768000000"}
  Bondeds = {"3"}
  Coeffs = {"50000000000000000000", "100000000000000000000"}
  MaxDists = {"0", "1", "2"}
  MaxAbs = {}
  MaxDenoms = {"aISLM"}
  ExtDeltas = {}
  InitSupply = "20000000000000000000000000000"
  MaxLen = 3
  Defects = {}
INVARIANT Probe_NeverCrosses
VIEW View
CHECK_DEADLOCK FALSE
