SPECIFICATION EmitSpec
CONSTANTS
  Tier = "quick"
  EnvDefects = {}
CHECK_DEADLOCK FALSE
