SPECIFICATION EmitSpec
CONSTANTS
  Tier = "quick"
CHECK_DEADLOCK FALSE
