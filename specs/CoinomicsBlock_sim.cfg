SPECIFICATION BSimSpec
CONSTANTS
  Starts = {}
  Dts = {}
  Bondeds = {}
  Coeffs = {}
  MaxDists = {}
  MaxAbs = {}
  MaxDenoms = {"aISLM", "aislm", "uatom"}
  ExtDeltas = {}
  InitSupply = "20000000000000000000000000000"
  MaxLen = 0
  Defects = {"stale_prevts"}
  BStakeChoices <- MC_StakesSim
  BMaxVals = {2, 3, 4}
  BCoeffs = {"7800000000000000000", "50000000000000000000", "100000000000000000000", "33333333333333333333"}
  BDistMults = {0, 1, 3, 6}
  BDistOffs = {"0", "1", "1000000"}
  BStarts = {"1735689540000", "1703980800000", "1750000000000", "4102444740000"}
  BDts = {"6000", "5000", "1000", "20000", "60000", "86400000"}
  BVotingMs = {"1000", "6000", "13000"}
  BWindows = {2, 3}
  BJailMs = {"1", "10000"}
  BDelAmts = {"150000000000000000000", "777000000000000000000", "1234000000000000000001"}
  BMaxLen = 10
CHECK_DEADLOCK FALSE
