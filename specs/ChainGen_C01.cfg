SPECIFICATION SimSpec
CONSTANTS
  MaxLen = 10
  Restarts = FALSE
  Exports = FALSE
  Locals = TRUE
CHECK_DEADLOCK FALSE
