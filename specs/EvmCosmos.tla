----------------------------- MODULE EvmCosmos -----------------------------
(***************************************************************************)
(* One Ethereum transaction against the Cosmos state (C02, C04, C05).      *)
(*                                                                         *)
(* A transaction is a call tree.  An op is a record                         *)
(*   [op, id, mode, m, who, val, val2, amt, grantee, to, value, height, body]*)
(*   op = "call"  : CALL with `value` to contract C<id> executing `body`,    *)
(*                  or, when body = <<>> , a plain value transfer to `to`    *)
(*   op = "pc"    : CALL of precompile method m naming account `who`         *)
(*   op = "recall": CALL (non-empty calldata) re-entering contract `to` of the *)
(*                  tree, which then executes the `alt` body of its call node *)
(*   op = "create": (top level only) contract creation whose constructor is   *)
(*                  `body`; the created contract N<id> gets no runtime code    *)
(*                  unless rt (then: the fixed code an "ncall" enters)          *)
(*   op = "ncall":  call into N<to>, created earlier in this transaction: its  *)
(*                  code does a CREATE and stops, or reverts (rev)             *)
(*   op = "selfdestruct": SELFDESTRUCT with beneficiary `to`                  *)
(*   op = "sstore" | "revert" | "invalid" | "stop"                          *)
(*   mode = "catch" (ignore the callee's failure) | "bubble" (revert too)   *)
(*                                                                         *)
(* Abstract state s (what the harness projects from the real keepers):      *)
(*   bank[a], mods[m], supply, deleg[a][v], ubd[a][v], rewards[a][v],        *)
(*   wd[a], grants[granter][grantee][type], storage[c][slot], commission[v] *)
(*                                                                         *)
(* Property layer P: Ideal(tx, pre, obs) - the Cosmos-native meaning of the  *)
(* operations of the frames that did NOT revert (obs = which calls the      *)
(* contracts recorded as successful), routed to whom the property says.     *)
(* As-built machine M: the StateDB micro-semantics of this tree - balances  *)
(* loaded on first touch, journal dirties, Flush before a precompile, direct *)
(* Cosmos write, the hand-written mirrors, final commit of every dirty      *)
(* account with mint/burn of the difference, and no Cosmos-side revert.      *)
(***************************************************************************)
EXTENDS Integers, Sequences, FiniteSets, FiniteSetsExt, TLC, Json, BigNum

CONSTANTS Defects     \* subset of {"stale_overwrite", "no_cosmos_revert"}

---------------------------------------------------------------------------
(* helpers *)
Vals(s)  == DOMAIN s.commission
Accts(s) == DOMAIN s.bank
Add(f, k, x) == [f EXCEPT ![k] = BigAdd(@, x)]
Sub(f, k, x) == [f EXCEPT ![k] = BigSub(@, x)]
Add2(f, a, v, x) == [f EXCEPT ![a][v] = BigAdd(@, x)]
Sub2(f, a, v, x) == [f EXCEPT ![a][v] = BigSub(@, x)]
Pos(x) == BigSign(x) > 0
MaxUint256 == "115792089237316195423570985008687907853269984665640564039457584007913129639935"

\* name of the contract executing the body of call op o; of a named account in frame `self`
ContractOf(o) == (IF o.op = "create" THEN "N" ELSE "C") \o ToString(o.id)
HasBody(o) == o.op \in {"call", "create"} /\ o.body # <<>>

\* the alt body of the call node whose contract is `name`, searched in the whole tree
RECURSIVE AltIn(_, _)
AltInOp(o, name) == IF HasBody(o) THEN (IF ContractOf(o) = name THEN o.alt
                                        ELSE LET a == AltIn(o.body, name) IN IF a # <<>> THEN a ELSE AltIn(o.alt, name))
                    ELSE <<>>
AltIn(body, name) == IF body = <<>> THEN <<>> ELSE LET a == AltInOp(body[1], name) IN IF a # <<>> THEN a ELSE AltIn(Tail(body), name)
Named(name, self) == IF name = "self" THEN self ELSE name
ValName(i) == "V" \o ToString(i + 1)

\* rewards of (d, v) are paid to d's withdraw address whenever the delegation is touched
PayRewards(s, d, v) ==
    LET r == s.rewards[d][v] w == s.wd[d] IN
    IF w \in Accts(s)
    THEN [s EXCEPT !.bank = Add(@, w, r), !.mods = Sub(@, "distr", r), !.rewards = [@ EXCEPT ![d][v] = "0"]]
    ELSE [s EXCEPT !.mods = Sub(@, "distr", r), !.rewards = [@ EXCEPT ![d][v] = "0"]]
HasDel(s, d, v) == Pos(s.deleg[d][v])
PayIfDel(s, d, v) == IF HasDel(s, d, v) THEN PayRewards(s, d, v) ELSE s

AllValSeq(s) == [i \in 1..Cardinality(Vals(s)) |-> ValName(i - 1)]
\* grant types; ICS-20: "ibc" / "ibc1" = spend limit of the allocation for transfer/channel-0 / channel-1 of the signer's
\* transfer authorization, "ibcx" = the authorization itself ("yes" | "none" | "expired")
StakeTypes == {"delegate", "undelegate", "redelegate", "cancel", "ibc", "ibc1", "ibcx"}
IbcFamily == {"ibcApprove", "ibcRevoke", "ibcIncrease", "ibcDecrease"}
ChanType(o) == IF o.val = 0 THEN "ibc" ELSE "ibc1"
\* "empty": the allocation exists but holds no limit for the denomination (an allowance decreased to exactly zero)
Numeric(x) == x \notin {"none", "unl", "expired", "other", "yes", "empty"}
Lim(x) == IF x = MaxUint256 THEN "unl" ELSE x      \* the sentinel 2^256-1 means "unlimited"
TypeOf(m) == CASE m = "delegate" -> "delegate" [] m = "undelegate" -> "undelegate"
               [] m = "redelegate" -> "redelegate" [] m = "cancelUnbonding" -> "cancel" [] m = "ibcTransfer" -> "ibc" [] OTHER -> "-"
ApproveTypes == {"delegate", "undelegate"}    \* the types the harness passes to approve/revoke

\* the Cosmos-native effect of a *successful* precompile call (the native message's meaning)
\* o: the op, x: the named account, c: the immediate caller, g: the signer (tx.origin)
Effect(s, o, x, c, g, operOf) ==
    LET v == ValName(o.val) v2 == ValName(o.val2) a == o.amt IN
    CASE o.m = "delegate" ->
           LET s1 == PayIfDel(s, x, v) IN
           [s1 EXCEPT !.bank = Sub(@, x, a), !.mods = Add(@, "bonded", a), !.deleg = Add2(@, x, v, a)]
      [] o.m = "undelegate" ->
           LET s1 == PayIfDel(s, x, v) IN
           [s1 EXCEPT !.deleg = Sub2(@, x, v, a), !.ubd = Add2(@, x, v, a),
                      !.mods = Add(Sub(@, "bonded", a), "notbonded", a)]
      [] o.m = "redelegate" ->
           LET s1 == PayIfDel(PayIfDel(s, x, v), x, v2) IN
           [s1 EXCEPT !.deleg = Add2(Sub2(@, x, v, a), x, v2, a)]
      [] o.m = "cancelUnbonding" ->
           LET s1 == PayIfDel(s, x, v) IN
           [s1 EXCEPT !.ubd = Sub2(@, x, v, a), !.deleg = Add2(@, x, v, a),
                      !.mods = Add(Sub(@, "notbonded", a), "bonded", a)]
      \* ICS-20 transfer of the native coin out of channel-0: the coins are escrowed
      [] o.m = "ibcTransfer" -> [s EXCEPT !.bank = Sub(@, x, a), !.mods = Add(@, "escrow", a)]
      [] o.m = "withdrawRewards" -> PayRewards(s, x, v)
      [] o.m = "claimRewards" ->
           LET F[S \in SUBSET Vals(s)] == IF S = {} THEN s ELSE LET w == CHOOSE y \in S : TRUE IN PayIfDel(F[S \ {w}], x, w)
           IN F[Vals(s)]
      [] o.m = "setWithdrawAddress" -> [s EXCEPT !.wd[x] = Named(o.to, c)]
      [] o.m = "withdrawCommission" /\ x \in DOMAIN operOf ->
           LET vv == operOf[x] cm == s.commission[vv] w == s.wd[x] IN
           [s EXCEPT !.bank = IF w \in Accts(s) THEN Add(@, w, cm) ELSE @, !.mods = Sub(@, "distr", cm), !.commission[vv] = "0"]
      \* authorization methods: the granter is the signer, the grantee is named
      [] o.m = "approve" ->
           LET e == Named(o.grantee, c) IN
           [s EXCEPT !.grants[g][e] = [t \in DOMAIN @ |-> IF t \in ApproveTypes
                                          THEN (IF o.amt = MaxUint256 THEN "unl" ELSE IF BigIsZero(o.amt) THEN "none" ELSE o.amt) ELSE @[t]],
                     \* an approval through the precompile names no validator: it covers all of them
                     !.grantVals[g][e] = [t \in DOMAIN @ |-> IF t \in ApproveTypes THEN AllValSeq(s) ELSE @[t]]]
      [] o.m = "revoke" ->
           LET e == Named(o.grantee, c) IN
           [s EXCEPT !.grants[g][e] = [t \in DOMAIN @ |-> IF t \in ApproveTypes THEN "none" ELSE @[t]]]
      [] o.m = "increaseAllowance" ->
           LET e == Named(o.grantee, c) IN
           [s EXCEPT !.grants[g][e] = [t \in DOMAIN @ |-> IF t \in ApproveTypes /\ @[t] \notin {"none", "unl", "expired", "other"}
                                          THEN BigAdd(@[t], o.amt) ELSE @[t]]]
      [] o.m = "decreaseAllowance" ->
           LET e == Named(o.grantee, c) IN
           [s EXCEPT !.grants[g][e] = [t \in DOMAIN @ |-> IF t \in ApproveTypes /\ @[t] \notin {"none", "unl", "expired", "other"}
                                          THEN BigSub(@[t], o.amt) ELSE @[t]]]
      \* ICS-20 authorization methods (granter = the signer, grantee named): approve replaces the authorization by one
      \* allocation for channel-0; increase / decrease move the limit of one allocation; revoke deletes everything
      [] o.m = "ibcApprove" ->
           LET e == Named(o.grantee, c) IN
           [s EXCEPT !.grants[g][e] = [@ EXCEPT !["ibc"] = IF o.amt = MaxUint256 THEN "unl" ELSE o.amt, !["ibc1"] = "none", !["ibcx"] = "yes"],
                     !.grantVals[g][e] = [@ EXCEPT !["ibc"] = <<"channel-0">>]]
      [] o.m = "ibcRevoke" ->
           LET e == Named(o.grantee, c) IN
           [s EXCEPT !.grants[g][e] = [@ EXCEPT !["ibc"] = "none", !["ibc1"] = "none", !["ibcx"] = "none"]]
      [] o.m = "ibcIncrease" ->
           LET e == Named(o.grantee, c) t == ChanType(o) IN
           [s EXCEPT !.grants[g][e][t] = IF Numeric(@) THEN Lim(BigAdd(@, o.amt)) ELSE @]
      [] o.m = "ibcDecrease" ->
           LET e == Named(o.grantee, c) t == ChanType(o) IN
           [s EXCEPT !.grants[g][e][t] = IF @ = "unl" THEN BigSub(MaxUint256, o.amt)
                                         ELSE IF Numeric(@) THEN (IF BigEq(@, o.amt) THEN "empty" ELSE BigSub(@, o.amt)) ELSE @]
      [] OTHER -> s

StakeSpend   == {"delegate", "undelegate", "redelegate", "cancelUnbonding"}
SpendMethods == StakeSpend \cup {"ibcTransfer"}
OwnerMethods == SpendMethods \cup {"withdrawRewards", "claimRewards", "setWithdrawAddress", "withdrawCommission"}

\* C04: what must be true of a *successful* state-changing call; returns the broken clauses
AuthProblems(s, o, x, c, g) ==
    (IF o.m \in OwnerMethods /\ x \notin {g, c} THEN {"acted-for-third-party"} ELSE {})
    \cup
    (IF o.m \in SpendMethods /\ c # g /\ x \in Accts(s)
     THEN \* the grant from the signer to the immediate caller for this message type
          LET t  == TypeOf(o.m)
              gr == IF c \in DOMAIN s.grants[g] THEN s.grants[g][c][t] ELSE "none"
              vs == IF c \in DOMAIN s.grantVals[g] THEN s.grantVals[g][c][t] ELSE <<>>
              vdst == IF o.m = "ibcTransfer" THEN "channel-0" ELSE IF o.m = "redelegate" THEN ValName(o.val2) ELSE ValName(o.val) IN
          IF gr \in {"none", "expired", "other", "empty"} THEN {"spend-without-live-grant"}
          ELSE IF gr # "unl" /\ BigLT(gr, o.amt) THEN {"grant-overspent"}
          ELSE IF \A j \in 1..Len(vs) : vs[j] # vdst THEN {"grant-does-not-cover-validator"} ELSE {}
     ELSE {})

\* a limited grant is reduced by exactly the amount used (a grant used up completely is deleted)
SpendGrant(s, o, c, g) ==
    IF o.m \in SpendMethods /\ c # g /\ c \in DOMAIN s.grants[g]
    THEN LET t == TypeOf(o.m) gr == s.grants[g][c][t] IN
         IF gr \in {"none", "unl", "expired", "other", "empty"} THEN s
         ELSE LET s1 == [s EXCEPT !.grants[g][c][t] = IF BigEq(gr, o.amt) THEN "none" ELSE BigSub(gr, o.amt)] IN
              \* a transfer authorization whose last allocation is used up is deleted
              IF t = "ibc" /\ s1.grants[g][c]["ibc"] = "none" /\ s1.grants[g][c]["ibc1"] = "none"
              THEN [s1 EXCEPT !.grants[g][c]["ibcx"] = "none"] ELSE s1
    ELSE s

\* the Cosmos-side fields a method writes
FieldsOf(m) == CASE m \in {"delegate", "undelegate", "redelegate", "cancelUnbonding"} -> {"deleg", "ubd"}
                 [] m \in {"withdrawRewards", "claimRewards", "withdrawCommission"} -> {"rewards", "commission"}
                 [] m = "setWithdrawAddress" -> {"wd"}
                 [] m = "ibcTransfer" -> {"mods"}
                 [] OTHER -> {}

---------------------------------------------------------------------------
(* P: Ideal.  flags[c][slot]: 2 = that call succeeded, 1 = failed, 0 = not recorded *)
Flag(obs, frame, o) == LET k == "s" \o ToString(o.id) IN
                       IF frame \in DOMAIN obs /\ k \in DOMAIN obs[frame] THEN obs[frame][k] ELSE 0

RECURSIVE IdealBody(_, _, _, _, _, _, _, _)
\* r = [st, bad, dead]: state, set of C04 problems found so far, self-destructed contracts
\* SELFDESTRUCT: the balance goes to the beneficiary (to nobody when the beneficiary is the contract
\* itself - the one sanctioned burn); the contract disappears at the end of the transaction
IdealDestroy(r, self, ben) ==
    LET s == r.st bal == s.bank[self] IN
    [r EXCEPT !.st = IF ben = self THEN [s EXCEPT !.bank[self] = "0", !.supply = BigSub(@, bal)]
                     ELSE IF ben \in Accts(s) THEN [s EXCEPT !.bank = Add(Sub(@, self, bal), ben, bal)]
                     ELSE [s EXCEPT !.bank = Sub(@, self, bal)],
              !.dead = @ \cup {self}]
IdealOp(r, self, o, g, obs, operOf, topOk, root) ==
    LET s == r.st
        ok == IF self = g THEN topOk ELSE Flag(obs, self, o) = 2 IN
    CASE o.op = "pc" ->
           \* a call that reported failure has no effect in the ideal meaning; what it was NOT entitled to do is
           \* remembered (fbad): if its effect is nevertheless found in the recorded state, C04 is broken as well
           IF ~ok THEN [r EXCEPT !.fbad = @ \cup {[k |-> p, m |-> o.m, id |-> o.id] : p \in AuthProblems(s, o, Named(o.who, self), self, g)}]
           ELSE LET x == Named(o.who, self) IN
                [r EXCEPT !.st = SpendGrant(Effect(s, o, x, self, g, operOf), o, self, g),
                          !.bad = @ \cup {[k |-> p, m |-> o.m, id |-> o.id] : p \in AuthProblems(s, o, x, self, g)}]
      [] o.op \in {"call", "create", "recall"} ->
           \* a CREATE executed by a contract bumps that contract's nonce whether or not the constructor succeeds
           IF ~ok THEN (IF o.op = "create" /\ self # g THEN [r EXCEPT !.st.nonce[self] = BigAdd(@, "1")] ELSE r)
           ELSE LET tgt  == IF HasBody(o) THEN ContractOf(o) ELSE Named(o.to, self)
                    body == IF o.op = "recall" THEN AltInOp(root, tgt) ELSE o.body
                    s0 == IF o.op = "create" /\ self # g THEN [s EXCEPT !.nonce[self] = BigAdd(@, "1")] ELSE s
                    s1 == [s0 EXCEPT !.bank = IF tgt \in Accts(s) THEN Add(Sub(@, self, o.value), tgt, o.value) ELSE Sub(@, self, o.value)]
                    \* (o.rt: the constructor returns runtime code - see "ncall")
                    s2 == IF o.op = "create" THEN [s1 EXCEPT !.nonce[tgt] = "1", !.code[tgt] = IF o.rt THEN "yes" ELSE @] ELSE s1
                IN IF body # <<>> THEN IdealBody([r EXCEPT !.st = s2], tgt, body, g, obs, operOf, 1, root)
                   ELSE [r EXCEPT !.st = s2]
      \* a call into the contract N<id> that an earlier "create" (with rt) of this transaction deployed: its code
      \* creates a contract - the nonce of N<id> moves - and then stops, or reverts (o.rev): a reverted call leaves
      \* the nonce where it was.  An address at which no code was deployed accepts the call and does nothing.
      [] o.op = "ncall" ->
           IF ok /\ ~o.rev /\ s.code[o.to] = "yes" THEN [r EXCEPT !.st.nonce[o.to] = BigAdd(@, "1")] ELSE r
      [] o.op = "sstore" ->
           [r EXCEPT !.st.storage[self] = [@ EXCEPT !["s" \o ToString(o.id)] = 7]]
      \* LOG1 with the op id as topic: the logs of the transaction, in emission order
      [] o.op = "log" -> [r EXCEPT !.st.logs = Append(@, o.id)]
      [] o.op = "selfdestruct" -> IdealDestroy(r, self, Named(o.to, self))
      [] OTHER -> r

IdealBody(r, self, body, g, obs, operOf, i, root) ==
    IF i > Len(body) THEN r
    ELSE LET r1 == IdealOp(r, self, body[i], g, obs, operOf, TRUE, root) IN
         IF body[i].op = "selfdestruct" THEN r1      \* SELFDESTRUCT halts the frame
         ELSE IdealBody(r1, self, body, g, obs, operOf, i + 1, root)

\* storage a successful frame must show: (success + 1) for every call it made
RECURSIVE ExpectFlags(_, _, _, _, _, _)
ExpectFlags(st, self, body, obs, i, root) ==
    IF i > Len(body) THEN st
    ELSE LET o == body[i]
             st1 == IF o.op \in {"pc", "call", "recall", "create", "ncall"}
                    THEN [st EXCEPT ![self] = [@ EXCEPT !["s" \o ToString(o.id)] = Flag(obs, self, o)]] ELSE st
             st2 == IF o.op \in {"call", "create"} /\ o.body # <<>> /\ Flag(obs, self, o) = 2
                    THEN ExpectFlags(st1, ContractOf(o), o.body, obs, 1, root)
                    ELSE IF o.op = "recall" /\ Flag(obs, self, o) = 2
                    THEN ExpectFlags(st1, o.to, AltInOp(root, o.to), obs, 1, root) ELSE st1
         IN IF o.op = "selfdestruct" THEN st2 ELSE ExpectFlags(st2, self, body, obs, i + 1, root)

\* e: the recorded transaction [top, pre, post, res, operOf]; the signer is "S"
TxOk(e) == e.res.code = 0 /\ ~e.res.failed
Ideal(e) ==
    LET g == "S"
        base == [e.pre EXCEPT !.bank = Sub(@, g, e.res.fee), !.mods = Add(@, "feecollector", e.res.fee),
                              !.nonce[g] = IF e.res.code = 0 THEN BigAdd(@, "1") ELSE @]
        r0 == [st |-> base, bad |-> {}, fbad |-> {}, dead |-> {}]
    IN IF ~TxOk(e) THEN r0
       ELSE LET r1 == IdealOp(r0, g, e.top, g, e.post.storage, e.operOf, TRUE, e.top)
                r2 == IF HasBody(e.top)
                      THEN [r1 EXCEPT !.st.storage = ExpectFlags(@, ContractOf(e.top), e.top.body, e.post.storage, 1, e.top)]
                      ELSE r1
            \* self-destructed contracts are gone at the end of the transaction: no code, no nonce, no storage
            \* (what they recorded about their calls lives in the recorder contract and stays)
            IN [r2 EXCEPT !.st.code = [c \in DOMAIN @ |-> IF c \in r2.dead THEN "no" ELSE @[c]],
                          !.st.nonce = [c \in DOMAIN @ |-> IF c \in r2.dead THEN "0" ELSE @[c]],
                          !.st.storage = [c \in DOMAIN @ |-> IF c \in r2.dead THEN [k \in DOMAIN @[c] |-> IF @[c][k] = 7 THEN 0 ELSE @[c][k]] ELSE @[c]]]

---------------------------------------------------------------------------
(* classification of a scenario (the `class` of a violation signature) *)
RECURSIVE HasPc(_), RevertedWithPc(_, _, _, _), FirstPc(_)
HasPcOp(o) == o.op = "pc" \/ (HasBody(o) /\ (HasPc(o.body) \/ HasPc(o.alt)))
HasPc(body) == \E i \in 1..Len(body) : HasPcOp(body[i])
\* some frame that made a precompile call was reverted although the transaction succeeded
RevertedWithPc(self, body, obs, root) ==
    \E i \in 1..Len(body) : LET o == body[i] IN
        \/ (o.op \in {"call", "create"} /\ o.body # <<>> /\
             ((Flag(obs, self, o) = 1 /\ HasPc(o.body)) \/ (Flag(obs, self, o) = 2 /\ RevertedWithPc(ContractOf(o), o.body, obs, root))))
        \/ (o.op = "recall" /\
             ((Flag(obs, self, o) = 1 /\ HasPc(AltInOp(root, o.to))) \/ (Flag(obs, self, o) = 2 /\ RevertedWithPc(o.to, AltInOp(root, o.to), obs, root))))
FirstPcOp(o) == IF o.op = "pc" THEN <<o>> ELSE IF HasBody(o) THEN (LET f == FirstPc(o.body) IN IF f # <<>> THEN f ELSE FirstPc(o.alt)) ELSE <<>>
FirstPc(body) == IF body = <<>> THEN <<>> ELSE LET f == FirstPcOp(body[1]) IN IF f # <<>> THEN f ELSE FirstPc(Tail(body))

Shape(e) ==
    LET top == e.top
        pcs == FirstPcOp(top)
        m   == IF pcs = <<>> THEN "none" ELSE pcs[1].m
        who == IF pcs = <<>> THEN "-" ELSE pcs[1].who
    IN m \o "|caller=" \o (IF top.op = "pc" THEN "eoa" ELSE IF top.op = "create" THEN "constructor" ELSE "contract")
         \o ",named=" \o (IF who = "S" THEN "signer" ELSE IF who = "self" THEN "caller" ELSE IF who = "-" THEN "-" ELSE "third")
         \o ",wd=" \o (IF e.pre.wd["S"] = "S" THEN "self" ELSE "other")
         \o ",value=" \o (IF top.op \in {"call", "create"} /\ ~BigIsZero(top.value) THEN "yes" ELSE "no")

HasRevertedPc(e) == \/ (~TxOk(e) /\ HasPcOp(e.top))
                    \/ (TxOk(e) /\ HasBody(e.top) /\ RevertedWithPc(ContractOf(e.top), e.top.body, e.post.storage, e.top))
\* some frame of a successful transaction reverted at all (EVM-side state must be undone as well)
RECURSIVE RevertedAny(_, _, _, _)
RevertedAny(self, body, obs, root) ==
    \E i \in 1..Len(body) : LET o == body[i] IN
        \/ (o.op \in {"call", "create"} /\ o.body # <<>> /\ (Flag(obs, self, o) = 1 \/ (Flag(obs, self, o) = 2 /\ RevertedAny(ContractOf(o), o.body, obs, root))))
        \/ (o.op = "recall" /\ (Flag(obs, self, o) = 1 \/ (Flag(obs, self, o) = 2 /\ RevertedAny(o.to, AltInOp(root, o.to), obs, root))))
HasRevertedFrame(e) == ~TxOk(e) \/ (HasBody(e.top) /\ RevertedAny(ContractOf(e.top), e.top.body, e.post.storage, e.top))

\* some precompile call in a frame that was not reverted reported failure to its caller
RECURSIVE FailedPc(_, _, _, _)
FailedPc(self, body, obs, root) ==
    \E i \in 1..Len(body) : LET o == body[i] IN
        \/ (o.op = "pc" /\ Flag(obs, self, o) = 1)
        \/ (o.op \in {"call", "create"} /\ o.body # <<>> /\ Flag(obs, self, o) = 2 /\ FailedPc(ContractOf(o), o.body, obs, root))
        \/ (o.op = "recall" /\ Flag(obs, self, o) = 2 /\ FailedPc(o.to, AltInOp(root, o.to), obs, root))
HasFailedPc(e) == TxOk(e) /\ HasBody(e.top) /\ FailedPc(ContractOf(e.top), e.top.body, e.post.storage, e.top)

\* which fields of the projected state differ between the real post-state and Ideal
BalanceFields == {"bank", "mods", "supply"}
CosmosFields  == {"deleg", "ubd", "rewards", "wd", "commission"}
DiffFields(post, ideal) == {f \in DOMAIN post : post[f] # ideal[f]}

---------------------------------------------------------------------------
(* M: the as-built StateDB semantics.  ms = [s, cache, dirty]; cache[a] = "-" : not loaded *)
\* orig[a]: the balance the account had when it was loaded (what a journal roll-back restores for an account
\* that was loaded inside the rolled-back frame: the state object stays in the StateDB)
\* (the state object carries balance AND nonce: ncache / norig are the same for the nonce)
\* (an address without an account and without coins leaves no state object behind when it is only read)
NoObject(s, a) == "exists" \in DOMAIN s /\ a \in DOMAIN s.exists /\ ~s.exists[a] /\ BigIsZero(s.bank[a])
Load(ms, a)  == IF a \notin DOMAIN ms.cache \/ ms.cache[a] # "-" \/ NoObject(ms.s, a) THEN ms
                ELSE [ms EXCEPT !.cache[a] = ms.s.bank[a], !.orig[a] = ms.s.bank[a], !.ncache[a] = ms.s.nonce[a], !.norig[a] = ms.s.nonce[a]]
\* writing to an address creates its state object whether or not an account exists
ForceLoad(ms, a) == IF a \notin DOMAIN ms.cache \/ ms.cache[a] # "-" THEN ms
                    ELSE [ms EXCEPT !.cache[a] = ms.s.bank[a], !.orig[a] = ms.s.bank[a], !.ncache[a] = ms.s.nonce[a], !.norig[a] = ms.s.nonce[a]]
NTouch(ms, a, v) == LET m1 == ForceLoad(ms, a) IN
                    IF a \notin DOMAIN m1.cache THEN m1 ELSE [m1 EXCEPT !.ncache[a] = v, !.dirty = @ \cup {a}]
Touch(ms, a, x) == LET m1 == IF BigIsZero(x) THEN Load(ms, a) ELSE ForceLoad(ms, a) IN
                   \* (stateObject.AddBalance/SubBalance return at once for a zero amount: nothing is journaled)
                   IF a \notin DOMAIN m1.cache \/ BigIsZero(x) THEN m1
                   ELSE [m1 EXCEPT !.cache[a] = BigAdd(@, x), !.dirty = @ \cup {a}]
\* commit every dirty account: the bank balance becomes the cached one, supply absorbs the difference;
\* a self-destructed account is deleted by whichever commit comes first - also by the Flush before a
\* precompile call in the middle of the transaction (its bank balance, whatever it is by then, is burned;
\* storage, code and nonce go)
Flush(ms) ==
    LET dd == ms.dirty \ ms.dead
        d == {a \in dd : a \in DOMAIN ms.cache /\ ms.cache[a] # "-"}
        delta == FoldSet(LAMBDA a, acc : BigAdd(acc, BigSub(ms.cache[a], ms.s.bank[a])), "0", d)
        s1 == [ms.s EXCEPT !.bank = [a \in DOMAIN @ |-> IF a \in d THEN ms.cache[a] ELSE @[a]],
                           !.nonce = [a \in DOMAIN @ |-> IF a \in d THEN ms.ncache[a] ELSE @[a]],
                           !.supply = BigAdd(@, delta)]
        burnt == FoldSet(LAMBDA a, acc : BigAdd(acc, s1.bank[a]), "0", ms.dead)
        s2 == [s1 EXCEPT !.bank = [a \in DOMAIN @ |-> IF a \in ms.dead THEN "0" ELSE @[a]],
                         !.supply = BigSub(@, burnt),
                         !.code = [a \in DOMAIN @ |-> IF a \in ms.dead THEN "no" ELSE @[a]],
                         !.nonce = [a \in DOMAIN @ |-> IF a \in ms.dead THEN "0" ELSE @[a]],
                         !.storage = [c \in DOMAIN @ |-> IF c \in ms.dead THEN [k \in DOMAIN @[c] |-> IF @[c][k] = 7 THEN 0 ELSE @[c][k]] ELSE @[c]]]
    IN [ms EXCEPT !.s = s2,
                  !.fst = s2.storage,      \* storage as written to the store by this flush
                  !.nflush = @ + 1]

\* does the code accept this precompile call? (authorization as written in precompiles/*)
CodeAccepts(s, o, x, c, g, operOf) ==
    CASE o.m \in StakeSpend ->
           /\ (x = c \/ x = g)
           /\ (c = g \/ (c \in DOMAIN s.grants[g] /\
                 LET gr == s.grants[g][c][TypeOf(o.m)] IN gr = "unl" \/ (gr \notin {"none", "expired", "other"} /\ BigLE(o.amt, gr))))
           /\ (o.m = "delegate" => BigLE(o.amt, s.bank[x]))
           /\ (o.m \in {"undelegate", "redelegate"} => BigLE(o.amt, s.deleg[x][ValName(o.val)]))
           /\ (o.m = "cancelUnbonding" => BigLE(o.amt, s.ubd[x][ValName(o.val)]))
           /\ Pos(o.amt)
      [] o.m = "ibcTransfer" ->
           /\ (x = c \/ x = g) /\ Pos(o.amt) /\ BigLE(o.amt, s.bank[x])
           /\ (c = g \/ (c \in DOMAIN s.grants[g] /\
                 LET gr == s.grants[g][c]["ibc"] IN gr = "unl" \/ (gr \notin {"none", "expired", "other", "empty"} /\ BigLE(o.amt, gr))))
      [] o.m \in {"withdrawRewards"} -> (x = c \/ x = g) /\ HasDel(s, x, ValName(o.val))
      [] o.m \in {"claimRewards", "setWithdrawAddress"} -> (x = c \/ x = g)
      [] o.m = "withdrawCommission" -> (x = c \/ x = g) /\ x \in DOMAIN operOf /\ Pos(s.commission[operOf[x]])
      [] OTHER -> TRUE

\* precompiles/staking/approve.go: the methods are processed one by one (here: delegate, then
\* undelegate); an error on a later one fails the call after the earlier ones were written
ApproveOrder == <<"delegate", "undelegate">>
ApproveStep(s, o, g, e, t) ==
    LET cur == s.grants[g][e][t]
        lim == cur \notin {"none", "unl", "expired", "other"}
        set(v) == [s EXCEPT !.grants[g][e][t] = v, !.grantVals[g][e][t] = IF v = "none" THEN <<>> ELSE IF o.m = "approve" THEN AllValSeq(s) ELSE @]
    IN CASE o.m = "approve" /\ o.amt = MaxUint256 -> [s |-> set("unl"), ok |-> TRUE]
         [] o.m = "approve" /\ BigIsZero(o.amt)   -> IF cur \in {"none"} THEN [s |-> s, ok |-> FALSE] ELSE [s |-> set("none"), ok |-> TRUE]
         [] o.m = "approve"                        -> [s |-> set(o.amt), ok |-> TRUE]
         [] o.m = "revoke"                         -> IF cur \in {"none"} THEN [s |-> s, ok |-> FALSE] ELSE [s |-> set("none"), ok |-> TRUE]
         \* an unlimited grant is left alone (success); a grant decreased to exactly zero is kept with limit 0
         [] o.m = "increaseAllowance"              -> IF cur = "unl" THEN [s |-> s, ok |-> TRUE] ELSE IF ~lim THEN [s |-> s, ok |-> FALSE]
                                                      ELSE [s |-> set(BigAdd(cur, o.amt)), ok |-> TRUE]
         [] o.m = "decreaseAllowance"              -> IF cur = "unl" THEN [s |-> s, ok |-> TRUE] ELSE IF ~lim \/ BigLT(cur, o.amt) THEN [s |-> s, ok |-> FALSE]
                                                      ELSE [s |-> [s EXCEPT !.grants[g][e][t] = BigSub(cur, o.amt)], ok |-> TRUE]
ApproveFamily == {"approve", "revoke", "increaseAllowance", "decreaseAllowance"}
MApprove(s, o, c, g) ==
    LET e  == Named(o.grantee, c)
        r1 == ApproveStep(s, o, g, e, ApproveOrder[1])
        r2 == IF r1.ok THEN ApproveStep(r1.s, o, g, e, ApproveOrder[2]) ELSE r1
    IN IF e = g \/ e \notin DOMAIN s.grants[g] THEN [s |-> s, ok |-> FALSE] ELSE r2

\* precompiles/ics20/approve_common.go, one authorization object per (granter, grantee)
MIbc(s, o, c, g) ==
    LET e   == Named(o.grantee, c)
        t   == ChanType(o)
        cur == s.grants[g][e][t]
        live == s.grants[g][e]["ibcx"] = "yes"
        set(v) == [s EXCEPT !.grants[g][e][t] = v]
    IN IF e = g \/ e \notin DOMAIN s.grants[g] THEN [s |-> s, ok |-> FALSE]
       ELSE CASE o.m = "ibcApprove" -> [s |-> Effect(s, o, c, c, g, <<>>), ok |-> TRUE]
              [] o.m = "ibcRevoke"  -> IF live THEN [s |-> Effect(s, o, c, c, g, <<>>), ok |-> TRUE] ELSE [s |-> s, ok |-> FALSE]
              \* an unlimited allocation holds the sentinel 2^256-1: adding overflows (refused), subtracting turns it into a number
              [] o.m = "ibcIncrease" -> IF live /\ Numeric(cur) /\ BigLE(BigAdd(cur, o.amt), MaxUint256) THEN [s |-> set(Lim(BigAdd(cur, o.amt))), ok |-> TRUE] ELSE [s |-> s, ok |-> FALSE]
              [] o.m = "ibcDecrease" -> IF live /\ cur = "unl" THEN [s |-> set(BigSub(MaxUint256, o.amt)), ok |-> TRUE]
                                        ELSE IF live /\ Numeric(cur) /\ BigLE(o.amt, cur)
                                        THEN [s |-> set(IF BigEq(cur, o.amt) THEN "empty" ELSE BigSub(cur, o.amt)), ok |-> TRUE]
                                        ELSE [s |-> s, ok |-> FALSE]

LateAuthzFailure(s, o, c, g) ==
    /\ o.m \in StakeSpend /\ c # g /\ c \in DOMAIN s.grantVals[g]
    /\ LET vs == s.grantVals[g][c][TypeOf(o.m)]
           vdst == IF o.m = "redelegate" THEN ValName(o.val2) ELSE ValName(o.val) IN
       \A j \in 1..Len(vs) : vs[j] # vdst

Mirror(ms, o, x, c, pre) ==
    CASE o.m \in {"delegate", "ibcTransfer"} /\ x = c -> Touch(ms, c, BigNeg(o.amt))
      [] o.m = "withdrawRewards" /\ x = c -> Touch(ms, c, pre.rewards[x][ValName(o.val)])
      [] OTHER -> ms

\* the intended design: after a precompile wrote to the bank, every loaded balance is re-read
Refresh(ms) == [ms EXCEPT !.cache = [a \in DOMAIN @ |-> IF @[a] = "-" THEN "-" ELSE ms.s.bank[a]]]

RECURSIVE MBody(_, _, _, _, _, _, _)
\* the journal is rolled back; what was written to the Cosmos store is not: Cosmos state, and the
\* balances and storage that a Flush inside the frame already wrote for accounts that are no longer
\* dirty after the roll-back.  (The success flags live in the recorder contract, which is written again
\* by every later record, so they are always rolled back: values 1 and 2 are flags, 7 is an SSTORE.)
RolledBack(m0, r) ==
    LET asb == "stale_overwrite" \in Defects
        kept  == [a \in DOMAIN m0.cache |-> IF m0.cache[a] # "-" \/ ~asb THEN m0.cache[a] ELSE r.ms.orig[a]]
        nkept == [a \in DOMAIN m0.ncache |-> IF m0.ncache[a] # "-" \/ ~asb THEN m0.ncache[a] ELSE r.ms.norig[a]] IN
    IF "no_cosmos_revert" \in Defects /\ r.ms.nflush # m0.nflush
    THEN [m0 EXCEPT !.cache = kept, !.orig = r.ms.orig, !.ncache = nkept, !.norig = r.ms.norig,
                    !.s = [r.ms.s EXCEPT !.logs = m0.s.logs,
                                        !.storage =
                 [cc \in DOMAIN @ |-> IF cc \in m0.dirty THEN m0.s.storage[cc]
                                       ELSE [k \in DOMAIN @[cc] |-> IF r.ms.fst[cc][k] = 7 THEN 7 ELSE m0.s.storage[cc][k]]]],
                      !.fst = r.ms.fst, !.nflush = r.ms.nflush]
    ELSE [m0 EXCEPT !.cache = kept, !.orig = r.ms.orig, !.ncache = nkept, !.norig = r.ms.norig]

\* returns [ms, ok]: ok = FALSE when the frame reverted
MOp(ms, self, o, g, operOf, root) ==
    CASE o.op = "pc" ->
           LET x == Named(o.who, self)
               m0 == Load(Load(ms, self), "pc")
               m1 == Flush(m0)
           IN \* CALL with value to a precompile: the transfer is journaled; the Flush before the precompile
              \* then mints the amount for the precompile address, cannot deliver it there (blocked address) and
              \* fails: the coins stay in the evm module account, the call fails, the journal is rolled back
              IF ~BigIsZero(o.value)
              THEN (IF BigLT(m0.cache[self], o.value) THEN [ms |-> m0, ok |-> FALSE]
                    ELSE [ms |-> IF "no_cosmos_revert" \in Defects
                                 THEN [m0 EXCEPT !.s.mods["evm"] = BigAdd(@, o.value), !.s.supply = BigAdd(@, o.value), !.nflush = @ + 1]
                                 ELSE m0, ok |-> FALSE])
              ELSE IF o.m \in ApproveFamily \cup IbcFamily
              THEN LET ra == IF o.m \in IbcFamily THEN MIbc(m1.s, o, self, g) ELSE MApprove(m1.s, o, self, g) IN
                   IF ra.ok THEN [ms |-> [m1 EXCEPT !.s = ra.s], ok |-> TRUE]
                   ELSE [ms |-> IF "no_cosmos_revert" \in Defects THEN [m1 EXCEPT !.s = ra.s] ELSE m0, ok |-> FALSE]
              \* the StateDB is flushed before the precompile looks at its arguments: a refused call has
              \* already written the dirty balances and storage of the transaction so far
              ELSE IF ~CodeAccepts(m1.s, o, x, self, g, operOf) THEN [ms |-> IF "no_cosmos_revert" \in Defects THEN m1 ELSE m0, ok |-> FALSE]
              \* precompiles/staking: the grant is re-validated (validator allow-list) by
              \* UpdateStakingAuthorization only AFTER the message was executed; when that fails the call
              \* reports failure although the Cosmos-side effect is already written
              ELSE IF LateAuthzFailure(m1.s, o, self, g)
                   THEN [ms |-> IF "no_cosmos_revert" \in Defects THEN [m1 EXCEPT !.s = Effect(m1.s, o, x, self, g, operOf)] ELSE m0, ok |-> FALSE]
              ELSE LET s2 == SpendGrant(Effect(m1.s, o, x, self, g, operOf), o, self, g)
                       m2 == [m1 EXCEPT !.s = s2]
                   IN [ms |-> IF "stale_overwrite" \in Defects THEN Mirror(m2, o, x, self, m1.s) ELSE Refresh(m2), ok |-> TRUE]
      [] o.op \in {"call", "create", "recall"} ->
           LET tgt  == IF HasBody(o) THEN ContractOf(o) ELSE Named(o.to, self)
               body == IF o.op = "recall" THEN AltInOp(root, tgt) ELSE o.body
               m00 == Load(Load(ms, self), tgt)
               \* evm.Create bumps the creator's nonce through the StateDB: the creator is journal-dirty
               \* (the bump happens before the snapshot of the creation: it survives a failing constructor)
               m0 == IF o.op = "create"
                     THEN NTouch(m00, self, IF self = g THEN m00.ncache[self] ELSE BigAdd(m00.ncache[self], "1")) ELSE m00
           IN IF BigLT(m0.cache[self], o.value) THEN [ms |-> m0, ok |-> FALSE]
              ELSE LET m1a == IF BigIsZero(o.value) THEN m0 ELSE Touch(Touch(m0, self, BigNeg(o.value)), tgt, o.value)
                       \* the new account gets nonce 1 inside the snapshot of the creation (EIP-161)
                       m1 == IF o.op = "create" THEN NTouch(m1a, tgt, "1") ELSE m1a
                       \* runtime code returned by the constructor is set on the new object when the constructor ends
                       coded(m) == IF o.op = "create" /\ o.rt THEN [m EXCEPT !.s.code[tgt] = "yes"] ELSE m
                   IN IF body = <<>> THEN [ms |-> coded(m1), ok |-> TRUE]
                      ELSE LET r == MBody(m1, tgt, body, g, operOf, 1, root) IN
                           IF r.ok THEN [r EXCEPT !.ms = coded(@)] ELSE [ms |-> RolledBack(m0, r), ok |-> FALSE]
      [] o.op = "ncall" ->
           LET m0 == ForceLoad(Load(ms, self), o.to) IN
           IF m0.s.code[o.to] # "yes" THEN [ms |-> Load(Load(ms, self), o.to), ok |-> TRUE]
           ELSE IF o.rev THEN [ms |-> Load(Load(ms, self), o.to), ok |-> FALSE]     \* the journal takes the nonce back
           ELSE [ms |-> NTouch(m0, o.to, BigAdd(m0.ncache[o.to], "1")), ok |-> TRUE]
      [] o.op = "log" -> [ms |-> [ms EXCEPT !.s.logs = Append(@, o.id)], ok |-> TRUE]
      [] o.op = "sstore" -> [ms |-> [Load(ms, self) EXCEPT !.s.storage[self] = [@ EXCEPT !["s" \o ToString(o.id)] = 7], !.dirty = @ \cup {self}], ok |-> TRUE]
      [] o.op = "selfdestruct" ->
           \* statedb.Suicide: the balance is added to the beneficiary, the object is marked and zeroed
           LET ben == Named(o.to, self)
               m0  == Load(Load(ms, self), ben)
               bal == m0.cache[self]
               m1  == IF ben = self \/ ben \notin DOMAIN m0.cache THEN m0 ELSE Touch(m0, ben, bal)
           IN [ms |-> [m1 EXCEPT !.cache[self] = "0", !.dirty = @ \cup {self}, !.dead = @ \cup {self}], ok |-> TRUE]
      [] o.op \in {"revert", "invalid"} -> [ms |-> ms, ok |-> FALSE]
      [] OTHER -> [ms |-> ms, ok |-> TRUE]

MBody(ms, self, body, g, operOf, i, root) ==
    IF i > Len(body) THEN [ms |-> ms, ok |-> TRUE]
    ELSE LET o == body[i]
             r == MOp(ms, self, o, g, operOf, root)
             \* the executing contract records success + 1 for its calls (in the recorder contract)
             rec == IF o.op \in {"pc", "call", "recall", "create", "ncall"} /\ self # g
                    THEN [r.ms EXCEPT !.s.storage[self] = [@ EXCEPT !["s" \o ToString(o.id)] = IF r.ok THEN 2 ELSE 1]] ELSE r.ms
         IN IF o.op \in {"revert", "invalid"} THEN [ms |-> ms, ok |-> FALSE]
            ELSE IF o.op = "selfdestruct" THEN r
            ELSE IF ~r.ok /\ o.op \in {"pc", "call", "recall", "create", "ncall"} /\ o.mode = "bubble" /\ self # g THEN [ms |-> r.ms, ok |-> FALSE]
            ELSE MBody(rec, self, body, g, operOf, i + 1, root)

\* final commit
FlushFinal(ms) == Flush(ms).s

\* the whole transaction as the code executes it
MStart(pre, feeMax) ==
    LET g == "S"
        s0 == [pre EXCEPT !.bank = Sub(@, g, feeMax), !.mods = Add(@, "feecollector", feeMax), !.nonce[g] = BigAdd(@, "1")]
    IN [s |-> s0, cache |-> [a \in Accts(s0) |-> "-"], orig |-> [a \in Accts(s0) |-> "-"],
        ncache |-> [a \in Accts(s0) |-> "-"], norig |-> [a \in Accts(s0) |-> "-"], dirty |-> {}, dead |-> {}, fst |-> s0.storage, nflush |-> 0]
MTx(e) ==
    LET g == "S"
        ms0 == MStart(e.pre, e.res.feeMax)
        r == MOp(ms0, g, e.top, g, e.operOf, e.top)
        refund == BigSub(e.res.feeMax, e.res.fee)
        fin(s) == [s EXCEPT !.bank = Add(@, g, refund), !.mods = Sub(@, "feecollector", refund)]
    IN IF r.ok THEN fin(FlushFinal(r.ms)) ELSE fin(ms0.s)
=============================================================================
