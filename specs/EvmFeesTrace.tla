---------------------------- MODULE EvmFeesTrace ----------------------------
(* Validates transactions recorded from the real chain (harness/evmfees.go: real DeliverTx,  *)
(* balances read from the bank keeper) against the property layer P of EvmFees (verdict) and *)
(* against the as-built machine M (diagnostic).  One line = one scenario = one transaction.  *)
(* Deterministic and total: every line is consumed, violations accumulate as signatures.     *)
EXTENDS EvmFees

VARIABLES l, viol, div, nacc
tvars == <<l, viol, div, nacc>>

Trace == ndJsonDeserialize("trace.ndjson")

Sig(v, e) == [prop |-> "C07", kind |-> v.kind, class |-> v.class, scn |-> e.scn, line |-> l]

RECURSIVE JoinProgs(_)
JoinProgs(ms) == IF Len(ms) = 0 THEN "-" ELSE IF Len(ms) = 1 THEN ms[1].prog ELSE ms[1].prog \o "+" \o JoinProgs(Tail(ms))
Shape(e) == IF e.route = "cosmos" THEN "route=cosmos,ext=" \o e.cos.ext
            ELSE "route=eth,type=" \o TxType(e) \o ",progs=" \o JoinProgs(e.msgs)

\* is the real outcome the one the as-built machine (with the known defect) predicts?
Diverge(e) ==
    LET r  == MResult(e)
        D(what) == {[scn |-> e.scn, line |-> l, class |-> Shape(e), what |-> what]}
    IN  IF r.ok # Accepted(e)
        THEN \* a Cosmos transaction may fail for reasons outside the fee model (gas metering: code 11)
             IF e.route = "cosmos" /\ r.ok /\ e.res.code = 11 THEN {} ELSE D("accept/reject")
        ELSE (IF \A w \in DOMAIN e.post : BigEq(r.post[w], e.post[w]) THEN {} ELSE D("balances"))
             \cup (IF e.route = "eth" /\ r.ok /\ \E i \in Idx(e.msgs) : ~BigEq(r.used[i], e.msgs[i].resp.gasUsed) THEN D("gasUsed") ELSE {})
             \cup (IF e.route = "eth" /\ r.ok /\ \E i \in Idx(e.msgs) : r.failed[i] # e.msgs[i].resp.failed THEN D("vm outcome") ELSE {})
             \* the twin measurement (same message on a chain with multiplier 0) against the gas schedule
             \cup (IF e.route = "eth" /\ \E i \in Idx(e.msgs) : e.msgs[i].twinGas # "-1" /\ ~BigEq(e.msgs[i].twinGas, MEvm(e.msgs[i]).gas) THEN D("twin gas") ELSE {})

TraceInit == l = 1 /\ viol = {} /\ div = {} /\ nacc = 0

TraceNext ==
    /\ l <= Len(Trace)
    /\ LET e == Trace[l] IN
       /\ l' = l + 1
       /\ IF e.ev # "tx" THEN UNCHANGED <<viol, div, nacc>>
          ELSE /\ viol' = viol \cup {Sig(v, e) : v \in PViol(e)}
               /\ nacc' = nacc + (IF Accepted(e) THEN 1 ELSE 0)
               /\ div'  = div \cup Diverge(e)

TraceSpec == TraceInit /\ [][TraceNext]_tvars

Report == l <= Len(Trace) \/
          PrintT(<<"RESULT", ToJson([consumed |-> l - 1, scenarios |-> l - 1, accepted |-> nacc, viol |-> viol, div |-> div])>>)
=============================================================================
