SPECIFICATION TraceSpec
CONSTANTS
  Signers = {}
  Nonces = {}
  Routes = {}
  Quals = {}
  MaxSub = 0
  MaxBlocks = 0
  MaxEvents = 0
  MaxLen = 0
  Defects = {}
INVARIANT Report
CHECK_DEADLOCK FALSE
