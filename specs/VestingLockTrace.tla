--------------------------- MODULE VestingLockTrace ---------------------------
(* Validates traces recorded from the real chain (harness/vestinglock.go: full DeliverTx on a   *)
(* chainkit node) against the property layer P of VestingLock (the verdict) and against the      *)
(* as-built machine M (diagnostic).  Deterministic and total: every line is consumed, the model   *)
(* re-synchronises on the logged state, violations are accumulated as signatures.                 *)
EXTENDS VestingLock

VARIABLES l, viol, div, nscn
tvars == <<st, hist, ini, slashed, l, viol, div, nscn>>

Trace == ndJsonDeserialize("trace.ndjson")

Sig(kind, class, e) == [prop |-> "C08", kind |-> kind, class |-> class, scn |-> e.scn, line |-> l]
Div(what, e)        == [ev |-> e.ev, what |-> what, scn |-> e.scn, line |-> l]

TraceInit ==
    /\ l = 1 /\ viol = {} /\ div = {} /\ nscn = 0
    /\ st = [now |-> 0] /\ hist = <<>> /\ ini = <<>> /\ slashed = FALSE

\* M as a predictor of the recorded step (diagnostic): accept / reject, and on agreement the
\* bookkeeping the balance check depends on (original vesting, tracked delegation, the release
\* events of both schedules)
SameSchedules(v, w) ==
    LET D == DOf(v) IN
    /\ BagEq(Events(D, LockS(v)), Events(D, LockS(w)))
    /\ BagEq(Events(D, VestS(v)), Events(D, VestS(w)))
MDiv(e, s) ==
    IF e.ev \in NonTx \/ e.code = -1 THEN {}
    ELSE LET r == MResult(s, e.ev, e.args)
             a == e.args.acct
             t == Carry(s, e.post)
         IN IF r.ok # e.ok THEN {Div(IF e.ok THEN "accepted-where-M-refuses" ELSE "refused-where-M-accepts", e)}
            ELSE IF ~e.ok THEN {}
            ELSE (IF CEq(Carry(s, r.post).va[a].orig, t.va[a].orig) /\ CEq(Tracked(Carry(s, r.post).va[a]), Tracked(t.va[a]))
                  THEN {} ELSE {Div("bookkeeping", e)})
                 \cup (IF SameSchedules(Carry(s, r.post).va[a], t.va[a]) THEN {} ELSE {Div("schedule", e)})

\* the statement's invariant read literally on every recorded state (diagnostic: it can be false
\* without a debit, e.g. a merged grant after a slash re-bases the tracked delegation)
LitDiv(e, t) ==
    {Div("balance-below-lock", e) : a \in {x \in DOMAIN t.va : ~BalanceCoversLock(t.va[x], t.now)}}

TraceNext ==
    /\ l <= Len(Trace)
    /\ LET e == Trace[l]
           t == IF e.ev = "reset" THEN e.post ELSE Carry(st, e.post)   \* a converted account keeps its last schedule
       IN
       /\ l' = l + 1
       /\ st' = t
       /\ UNCHANGED <<hist, ini, slashed>>
       /\ IF e.ev = "reset"
          THEN /\ nscn' = nscn + 1
               /\ viol' = viol
               /\ div' = div \cup (IF e.setupOK THEN {} ELSE {Div("setup-incomplete", e)}) \cup LitDiv(e, t)
          ELSE /\ nscn' = nscn
               /\ viol' = viol \cup {Sig(k, StepClass(e, st, t), e) : k \in Broken(e, st, t)}
               /\ div' = div \cup MDiv(e, st) \cup LitDiv(e, t)

TraceSpec == TraceInit /\ [][TraceNext]_tvars

Report == l <= Len(Trace) \/
          PrintT(<<"RESULT", ToJson([consumed |-> l - 1, scenarios |-> nscn, viol |-> viol, div |-> div])>>)
=============================================================================
