SPECIFICATION Spec
CONSTANTS
  Accts = {"a1","a2","a3"}
  Denoms = {"aISLM","aLIQUID0"}
  BadDenoms = {"bad"}
  Amts = {"0","1","2"}
  Ratios <- MC_Ratios
  InitBank = "3"
  MaxLen = 5
  Defects = {}
  Foreign = {}
  BankAmts = {}
INVARIANT MInv_P
PROPERTY MStep_P
VIEW View
CHECK_DEADLOCK FALSE
