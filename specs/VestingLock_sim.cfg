SPECIFICATION SimSpec
CONSTANTS
  Denoms = {"aISLM", "aLIQUID0"}
  BondDenom = "aISLM"
  Lens = {0, 20, 40}
  Amts = {"1", "2"}
  MaxLockN = 2
  MaxVestN = 2
  Extras = {"0", "1"}
  Fees = {"0"}
  MaxNow = 100000
  Dts = {1, 5, 21, 61}
  UnbondTime = 60
  MinLiq = "1"
  MaxLen = 12
  Grants = {TRUE}
  Codes = {FALSE, TRUE}
  KindsX <- MC_AllKinds
  Defects = {}
CHECK_DEADLOCK FALSE
