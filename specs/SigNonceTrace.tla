--------------------------- MODULE SigNonceTrace ---------------------------
(* Validates traces recorded by harness/signonce.go (real CheckTx / DeliverTx through the  *)
(* full ante chain of the real application) against the property layer P of SigNonce      *)
(* (verdict) and against the as-built machine M (diagnostic).  Deterministic and total:    *)
(* every line is consumed, the model re-synchronises on the logged state, violations are   *)
(* accumulated as signatures.                                                              *)
(*                                                                                         *)
(* Lines:  reset  {scn, src, cfg, post}                                                    *)
(*         setup  {scn, what, ok, post}             funding / grants / sequence fillers    *)
(*         submit {scn, mode, role, tx, case, code, ok, err, pre, post}                    *)
(*                role "order": tx.q says how it was signed (SigNonce.QualSig)             *)
(*                role "mut"  : `case` names the single mutation applied to a valid signed *)
(*                              transaction whose signed content is `tx`                   *)
(*                role "orig" : the unmutated valid transaction of the same case           *)
(*         commit {scn, pre, post}                  EndBlock + Commit + next BeginBlock    *)
(* `pre`/`post` = [seq, cseq, bal, coll] read from the real stores.                        *)
EXTENDS SigNonce

VARIABLES l, viol, div, nscn, seen, acc
tvars == <<st, hist, executed, twice, nblocks, l, viol, div, nscn, seen, acc>>

Trace == ndJsonDeserialize("trace.ndjson")

Sig(kind, class, e) == [prop |-> "C03", kind |-> kind, class |-> class, scn |-> e.scn, line |-> l]

CaseKey(c) == c.route \o ":" \o c.field \o ":" \o c.mut
PlainCase(c) == [route |-> c.route, field |-> c.field, mut |-> c.mut]

SigOf(e) ==
    CASE e.role = "order" -> QualSig(e.tx.q)
      [] e.role = "orig"  -> "good"
      [] e.role = "replay" -> "good"
      [] e.role = "mut"   -> SigOfClass(ClassOf(PlainCase(e.case)))

\* the event in the shape P expects
Ev(e) == IF e.ev = "commit" THEN [ev |-> "commit", ok |-> TRUE]
         ELSE IF e.ev = "event" THEN [ev |-> "event", by |-> e.by, ok |-> e.ok]
         ELSE [ev |-> "submit", mode |-> e.mode, tx |-> e.tx, sig |-> SigOf(e), ok |-> e.ok]

\* what identifies a failing step
ClassName(e) ==
    IF e.ev = "commit" THEN "-"
    ELSE IF e.ev = "event" THEN e.kind
    \* contract creations inside a batch: one class per position, whatever the transaction type
    ELSE IF e.role \in {"mut", "replay"} /\ e.case.field = "batch" /\ e.case.mut \in CreateMuts
         THEN "eth:batch:" \o e.case.mut \o (IF e.role = "replay" THEN ":replay" ELSE "")
    ELSE IF e.role = "replay" THEN CaseKey(e.case) \o ":replay"
    ELSE IF e.role = "mut" THEN CaseKey(e.case)
    ELSE IF e.role = "orig" THEN e.tx.route \o ":original:" \o NonceClass(e.tx, e.pre, executed)
    ELSE e.tx.route \o ":" \o e.tx.q \o ":" \o NonceClass(e.tx, e.pre, executed)
         \o (IF e.tx.nm > 1 THEN ":multi" ELSE "")

\* acceptance counters (non-vacuity): route -> [mode/role -> count]
Bump(a, key) == IF key \in DOMAIN a THEN [a EXCEPT ![key] = @ + 1] ELSE a @@ (key :> 1)
AccKey(e) == e.tx.route \o "|" \o e.role \o "|" \o e.mode \o "|" \o (IF e.ok THEN "accepted" ELSE "rejected")

TraceInit ==
    /\ l = 1 /\ viol = {} /\ div = {} /\ nscn = 0 /\ seen = {} /\ acc = <<>>
    /\ st = [seq |-> <<>>] /\ hist = <<>> /\ executed = {} /\ twice = {} /\ nblocks = 0

MState(s) == [seq |-> s.seq, cseq |-> s.cseq]

TraceNext ==
    /\ l <= Len(Trace)
    /\ LET e == Trace[l] IN
       /\ l' = l + 1
       /\ st' = e.post
       /\ UNCHANGED <<hist, twice, nblocks>>
       /\ CASE e.ev = "reset" ->
                 /\ nscn' = nscn + 1 /\ executed' = {}
                 /\ UNCHANGED <<viol, div, seen, acc>>
            [] e.ev = "setup" ->
                 UNCHANGED <<viol, div, seen, acc, nscn, executed>>
            [] e.ev = "event" ->
                 /\ viol' = viol \cup {Sig(k, ClassName(e), e) : k \in Broken(Ev(e), e.pre, e.post, executed)}
                 /\ div' = div \cup (LET r == MResult(MState(e.pre), "event", [kind |-> e.kind, target |-> e.target, by |-> e.by]) IN
                                     IF r.post = MState(e.post) THEN {}
                                     ELSE {[ev |-> "event", class |-> e.kind, scn |-> e.scn, line |-> l, what |-> "post-state"]})
                 /\ UNCHANGED <<seen, acc, nscn, executed>>
            [] e.ev = "commit" ->
                 /\ viol' = viol \cup {Sig(k, "-", e) : k \in Broken(Ev(e), e.pre, e.post, executed)}
                 /\ div' = div \cup (IF e.post.cseq = e.post.seq THEN {}
                                     ELSE {[ev |-> "commit", class |-> "-", scn |-> e.scn, line |-> l, what |-> "check-state-not-reset"]})
                 /\ UNCHANGED <<seen, acc, nscn, executed>>
            [] e.ev = "submit" ->
                 /\ nscn' = nscn
                 /\ viol' = viol \cup {Sig(k, ClassName(e), e) : k \in Broken(Ev(e), e.pre, e.post, executed)}
                 /\ executed' = IF e.mode = "deliver" /\ e.ok THEN executed \cup ExecIds(e.tx) ELSE executed
                 /\ seen' = IF e.role = "mut" /\ e.mode = "deliver" THEN seen \cup {PlainCase(e.case)} ELSE seen
                 /\ acc' = Bump(acc, AccKey(e))
                 /\ div' = div
                      \cup (IF e.pre = st THEN {} ELSE
                            {[ev |-> "submit", class |-> ClassName(e), scn |-> e.scn, line |-> l, what |-> "pre-state-not-previous-post"]})
                      \cup (IF e.role = "mut" /\ PlainCase(e.case) \notin Cases
                            THEN {[ev |-> "submit", class |-> ClassName(e), scn |-> e.scn, line |-> l, what |-> "case-not-in-matrix"]} ELSE {})
                      \cup (IF e.role # "order" THEN {}
                            ELSE LET r == MResult(MState(e.pre), "submit", [mode |-> e.mode, tx |-> e.tx]) IN
                                 IF r.ok = e.ok /\ r.post = MState(e.post) THEN {}
                                 ELSE {[ev |-> "submit:" \o e.mode, class |-> ClassName(e), scn |-> e.scn, line |-> l,
                                        what |-> IF r.ok # e.ok THEN "accept/reject" ELSE "post-state"]})

TraceSpec == TraceInit /\ [][TraceNext]_tvars

Report == l <= Len(Trace) \/
          PrintT(<<"RESULT", ToJson([consumed |-> l - 1, scenarios |-> nscn, viol |-> viol, div |-> div,
                                     acc |-> acc, cases_seen |-> Cardinality(seen), cases_total |-> Cardinality(Cases),
                                     cases_missing |-> {CaseKey(c) : c \in Cases \ seen}])>>)
=============================================================================
