SPECIFICATION ManySpec
CONSTANTS
  InitAccts <- MC_AcctsM
  MinLiq = "1"
  Amts = {"2"}
  MaxT = 1
  TStep = 1
  MaxLen = 24
  NTok = 12
  SplitMaxP = 0
  SplitMaxAmt = 0
  Defects = {"aggregate_lock_pairs_grants"}
INVARIANT NotDrained
VIEW View
CHECK_DEADLOCK FALSE
