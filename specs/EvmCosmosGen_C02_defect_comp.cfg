SPECIFICATION Spec
CONSTANTS
  Defects = {"stale_overwrite", "no_cosmos_revert"}
  Family = "C02"
INVARIANT Explained
CHECK_DEADLOCK FALSE
