SPECIFICATION PureSpec
CONSTANTS
  Denoms = {"aISLM","aLIQUID1"}
  Defects = {}
  POffsets = {0,1,2}
  PMaxPeriods = 2
  PMaxLen = 2
  PAmts = {"0","1"}
  Shapes <- MC_ShapesSmall
  Starts = {0}
  Dts = {1,2}
  MaxNow = 0
  MaxLen = 0
  InitBank = "9"
INVARIANT PureInv
CHECK_DEADLOCK FALSE
