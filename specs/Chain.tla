------------------------------- MODULE Chain -------------------------------
(***************************************************************************)
(* Replicated state machine view of a haqq node (C01, C15, C19, C20).      *)
(*                                                                         *)
(* A replica is  <<db, mem>> : the committed multistore (abstracted to a    *)
(* hash chain) and process-local memory (chain-id cache, precompile         *)
(* registry, TPS counter, mempool/check state ...).  Consensus feeds every  *)
(* replica the same sequence of block inputs.                               *)
(*                                                                         *)
(* Property layer P                                                        *)
(*   Agreement        replicas that committed height h hold the same record *)
(*   LocalStutter     CheckTx / Query / Simulate / Export never change      *)
(*                    committed state                                       *)
(*   RestartTransparent  a restart changes neither height nor state, and    *)
(*                    Info() reports exactly the last commit                *)
(*   (C15, C19 are evaluated on recorded traces, see ChainTrace.tla: they   *)
(*    are statements about the concrete state, not about replication.)      *)
(* As-built machine M: Propose / Apply / Local / Restart.  What could make  *)
(* the implementation violate P is modelled as named Defects:               *)
(*   "mem_in_result"  block execution reads process-local memory            *)
(*   "checktx_leak"   CheckTx writes into the deliver/committed state       *)
(*   "unpersisted"    state needed for execution lives only in memory and   *)
(*                    is not rebuilt from the database on start             *)
(***************************************************************************)
EXTENDS Integers, Sequences, FiniteSets, TLC, Json

CONSTANTS Replicas, Inputs, MaxHeight, MaxLocal, Defects, MaxLen

VARIABLES chain, db, mem, committed, locals, hist
vars == <<chain, db, mem, committed, locals, hist>>

Mix(d, i) == (d * 31 + i + 7) % 1009

\* what executing input i on database d with memory m yields
Exec(d, i, m) ==
    IF "mem_in_result" \in Defects THEN Mix(d, i + m.noise)
    ELSE IF "unpersisted" \in Defects THEN Mix(d, i + m.derived)
    ELSE Mix(d, i)

\* memory as rebuilt from the database by the constructor
Rebuild(d) == [noise |-> 0, derived |-> 0]

Height(r) == Len(committed[r])

Init ==
    /\ chain = <<>>
    /\ db = [r \in Replicas |-> 0]
    /\ mem = [r \in Replicas |-> Rebuild(0)]
    /\ committed = [r \in Replicas |-> <<>>]
    /\ locals = 0
    /\ hist = <<>>

Propose(i) ==
    /\ Len(chain) < MaxHeight
    /\ chain' = Append(chain, i)
    /\ hist' = Append(hist, [ev |-> "propose", input |-> i])
    /\ UNCHANGED <<db, mem, committed, locals>>

Apply(r) ==
    /\ Height(r) < Len(chain)
    /\ LET i == chain[Height(r) + 1]
           d == Exec(db[r], i, mem[r]) IN
       /\ db' = [db EXCEPT ![r] = d]
       /\ committed' = [committed EXCEPT ![r] = Append(@, d)]
       \* executing a block may cache derived data in memory (e.g. a registry entry)
       /\ mem' = [mem EXCEPT ![r].derived = IF "unpersisted" \in Defects THEN (@ + i) % 3 ELSE @]
    /\ hist' = Append(hist, [ev |-> "apply", r |-> r])
    /\ UNCHANGED <<chain, locals>>

Local(r, kind) ==
    /\ locals < MaxLocal
    /\ locals' = locals + 1
    /\ mem' = [mem EXCEPT ![r].noise = (@ + 1) % 3]
    /\ db' = IF "checktx_leak" \in Defects /\ kind = "checktx" THEN [db EXCEPT ![r] = Mix(@, 1)] ELSE db
    /\ hist' = Append(hist, [ev |-> "local", r |-> r, kind |-> kind])
    /\ UNCHANGED <<chain, committed>>

Restart(r) ==
    /\ locals < MaxLocal
    /\ locals' = locals + 1
    /\ mem' = [mem EXCEPT ![r] = Rebuild(db[r])]
    /\ hist' = Append(hist, [ev |-> "restart", r |-> r])
    /\ UNCHANGED <<chain, db, committed>>

LocalKinds == {"checktx", "query", "simulate", "export"}

Next ==
    \/ \E i \in Inputs : Propose(i)
    \/ \E r \in Replicas : Apply(r)
    \/ \E r \in Replicas, k \in LocalKinds : Local(r, k)
    \/ \E r \in Replicas : Restart(r)

Spec == Init /\ [][Next]_vars

---------------------------------------------------------------------------
(* P *)
Min(a, b) == IF a < b THEN a ELSE b

Agreement ==
    \A r1, r2 \in Replicas : \A h \in 1..Min(Height(r1), Height(r2)) : committed[r1][h] = committed[r2][h]

LocalStutter ==
    [][\A r \in Replicas : (Height(r)' = Height(r)) => db'[r] = db[r]]_vars

\* a node that restarted continues exactly like one that never stopped: covered by Agreement
\* between a restarting and a continuous replica; Info() = last commit:
InfoIsLastCommit == \A r \in Replicas : Height(r) > 0 => committed[r][Height(r)] = db[r]

View == <<chain, db, mem, committed, locals>>
=============================================================================
