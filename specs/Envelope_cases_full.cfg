SPECIFICATION Spec
CONSTANTS
  Tier = "full"
INVARIANT Inv_Membership
INVARIANT Inv_CostMinusFee
INVARIANT Inv_EffectiveBounded
INVARIANT Inv_NonDynamic
INVARIANT Inv_EffectiveByClass
INVARIANT Inv_EffectiveTip
INVARIANT Inv_Validate
INVARIANT Inv_ChainId
CHECK_DEADLOCK FALSE
