--------------------------- MODULE AnteRouteTrace ---------------------------
(* Validates the outcomes recorded by harness/anteroute.go (one line per transaction that   *)
(* went through the real app.BaseApp.DeliverTx) against the property layer P of AnteRoute    *)
(* (verdict) and against the as-built machine M (diagnostic).  Deterministic and total:      *)
(* every line is consumed (Chunk lines per step), violations are accumulated as signatures.  *)
(*                                                                                           *)
(* line: [ev |-> "case", scn, src, reg, tx |-> [msgs, ext], built, how, rejected,            *)
(*        handler_ran, untouched, stage, by, code, codespace, err]  or  [ev |-> "reset", ..] *)
EXTENDS AnteRoute

VARIABLES l, viol, div, cnt
tvars == <<st, l, viol, div, cnt>>

Trace == ndJsonDeserialize("trace.ndjson")
Chunk == 500

Sig(kind, class, e, i) == [prop |-> "C06", kind |-> kind, class |-> class, scn |-> e.scn, line |-> i,
                           reg |-> e.reg,
                           outcome |-> IF ~e.rejected THEN "accepted and executed"
                                       ELSE IF e.handler_ran THEN "passed the ante handler, failed in a message handler"
                                       ELSE "rejected but state changed"]

IsCase(i) == Trace[i].ev = "case" /\ Trace[i].built

\* P on one observed transaction
ViolOf(i) ==
    LET e == Trace[i] IN
    IF ~IsCase(i) \/ ObservedOK(e.tx, e) THEN {}
    ELSE {Sig("must-reject:" \o FirstClause(e.tx), TxClass(e.tx), e, i)}

\* M on one observed transaction: did the ante handler let it through, as the transcription says?
DivOf(i) ==
    LET e == Trace[i] IN
    IF ~IsCase(i) THEN {}
    ELSE LET m == MResult(e.tx, e.reg, e.how) IN
         IF m.pass = e.handler_ran /\ m.why = e.by THEN {}
         ELSE {[scn |-> e.scn, line |-> i, sel |-> Sel(e.tx), reg |-> e.reg, src |-> e.src,
                what |-> IF m.pass # e.handler_ran THEN "let-through/refused" ELSE "refused-by",
                model |-> m.why, impl |-> e.by, stage |-> e.stage, err |-> e.err]}

Count(S, P(_)) == Cardinality({i \in S : P(i)})

\* viol keeps the first occurrence (lowest line) of every signature kind|class, div a bounded
\* sample; the totals are in cnt (a broken tree can make every line a violation)
SameSig(v, w) == v.kind = w.kind /\ v.class = w.class
FirstOfEach(V) == {v \in V : \A w \in V : SameSig(v, w) => v.line <= w.line}
MaxDivKept == 200

TraceInit ==
    /\ l = 1 /\ viol = {} /\ div = {}
    /\ cnt = [cases |-> 0, unbuilt |-> 0, must |-> 0, must_rejected |-> 0, free |-> 0,
              free_accepted |-> 0, free_ante_passed |-> 0, accepted |-> 0, violating |-> 0, diverging |-> 0]
    /\ st = [phase |-> "trace"]

TraceNext ==
    /\ l <= Len(Trace)
    /\ LET hi == IF l + Chunk - 1 <= Len(Trace) THEN l + Chunk - 1 ELSE Len(Trace)
           R  == l..hi
           C  == {i \in R : IsCase(i)}
           MR == {i \in C : MustReject(Trace[i].tx)}
           NV == UNION {ViolOf(i) : i \in R}
           ND == UNION {DivOf(i) : i \in R}
       IN /\ l' = hi + 1
          /\ viol' = viol \cup {v \in FirstOfEach(NV) : \A w \in viol : ~SameSig(v, w)}
          /\ div'  = IF Cardinality(div) >= MaxDivKept THEN div ELSE div \cup ND
          /\ cnt' = [cases            |-> cnt.cases + Cardinality(C),
                     unbuilt          |-> cnt.unbuilt + Count(R, LAMBDA i : Trace[i].ev = "case" /\ ~Trace[i].built),
                     must             |-> cnt.must + Cardinality(MR),
                     must_rejected    |-> cnt.must_rejected + Count(MR, LAMBDA i : Trace[i].rejected /\ ~Trace[i].handler_ran),
                     free             |-> cnt.free + Cardinality(C \ MR),
                     free_accepted    |-> cnt.free_accepted + Count(C \ MR, LAMBDA i : ~Trace[i].rejected),
                     free_ante_passed |-> cnt.free_ante_passed + Count(C \ MR, LAMBDA i : Trace[i].handler_ran),
                     accepted         |-> cnt.accepted + Count(C, LAMBDA i : ~Trace[i].rejected),
                     violating        |-> cnt.violating + Cardinality(NV),
                     diverging        |-> cnt.diverging + Cardinality(ND)]
          /\ UNCHANGED st

TraceSpec == TraceInit /\ [][TraceNext]_tvars

DivSample == LET q == SetToSeq(div) IN {q[i] : i \in 1..(IF Len(q) < 30 THEN Len(q) ELSE 30)}

Report == l <= Len(Trace) \/
          PrintT(<<"RESULT", ToJson([consumed |-> l - 1, scenarios |-> cnt.cases, viol |-> viol,
                                     div |-> DivSample, ndiv |-> cnt.diverging, cnt |-> cnt])>>)
=============================================================================
