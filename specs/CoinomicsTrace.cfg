SPECIFICATION TraceSpec
CONSTANTS
  Starts = {}
  Dts = {}
  Bondeds = {}
  Coeffs = {}
  MaxDists = {}
  MaxAbs = {}
  MaxDenoms = {}
  ExtDeltas = {}
  InitSupply = "0"
  MaxLen = 0
  Defects = {"stale_prevts"}
INVARIANT Report
CHECK_DEADLOCK FALSE
