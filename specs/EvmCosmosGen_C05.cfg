SPECIFICATION Spec
CONSTANTS
  Defects = {}
  Family = "C05"
INVARIANT Strict
CHECK_DEADLOCK FALSE
