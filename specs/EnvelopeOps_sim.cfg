SPECIFICATION SimSpec
CONSTANTS
  Tier = "full"
  EnvDefects = {}
  Pools = {}
  MaxLen = 12
  MaxWire = 3
  MaxDec = 3
  MaxPack = 3
  MaxPool = 4
  Getters <- MC_AllGetters
  Defects = {}
CHECK_DEADLOCK FALSE
