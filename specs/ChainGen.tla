------------------------------ MODULE ChainGen ------------------------------
(***************************************************************************)
(* Scenario space of block histories for the Chain properties (C01, C15,   *)
(* C19, C20): which transactions of which module alphabets are put into     *)
(* blocks, with which consensus inputs (time step, proposer, absent         *)
(* validators, double-sign evidence), interleaved with replica-local        *)
(* actions, restarts and export/import points.  It tracks just enough of    *)
(* the world (vesting accounts, contracts, liquid denoms, proposals) for    *)
(* the drawn transactions to be meaningful.  Used with -simulate; every      *)
(* behaviour is printed once as a JSON script for harness/chain.go.          *)
(***************************************************************************)
EXTENDS Integers, Sequences, FiniteSets, TLC, Json

CONSTANTS MaxLen,        \* steps per behaviour
          Restarts,      \* BOOLEAN: include restart steps (C20)
          Exports,       \* BOOLEAN: include export/import steps (C19)
          Locals         \* BOOLEAN: include replica-local steps (C01)

VARIABLES hist, nv, nc, nl, np, blocks, dels, liq, vfund, daoh, agr, fgr, appr
vars == <<hist, nv, nc, nl, np, blocks, dels, liq, vfund, daoh, agr, fgr, appr>>

Accts == {"a1", "a2", "a3", "a4", "a5", "a6"}
Amts  == {"1", "1000", "1000000000000000000", "250000000000000000000", "3000000000000000000000"}
AmtsZ == Amts \cup {"0"}      \* (a zero amount is an argument like any other for the paths that do not run ValidateBasic)
Pick(S, h) == RandomElement(S)      \* dummy argument defeats TLC's caching of constant operators

VestName(i) == "vx" \o ToString(i)
VestAccts == {VestName(i) : i \in 1..nv}
AnyAcct(h) == IF nv > 0 /\ Pick(1..4, h) = 1 THEN Pick(VestAccts, h)
              ELSE IF Pick(1..8, h) = 1 THEN "fresh" \o ToString(Pick(1..3, h)) ELSE Pick(Accts, h)

\* C19: a fixed prologue builds the rich state the property talks about before the random part:
\* two vesting accounts past their vesting but inside their lockup, three liquid denoms (with their
\* token pairs) of which one is fully redeemed again (its denom is deleted, the counter stays), a
\* governance proposal that disables conversion of one pair, a contract with storage, an account with
\* storage but empty code, DAO shares and a fresh delegation.
Blk(dt, txs) == [ev |-> "block", dt |-> dt, proposer |-> 0, absent |-> <<>>, evidence |-> <<>>, txs |-> txs]
VC(f, to) == <<[k |-> "vest_create", from |-> f, to |-> to, amt |-> "3000000000000000000000", lock |-> 3000, vest |-> 1, startOff |-> -20, merge |-> FALSE,
                 dust |-> (IF to = "vx1" THEN "1" ELSE "0")],
               [k |-> "send", from |-> f, to |-> to, amt |-> "1000000000000000000"]>>
Prologue == <<
    Blk(5000, VC("a1", "vx1") \o VC("a2", "vx2") \o
              <<[k |-> "deploy", from |-> "a3", slots |-> 3], [k |-> "deploy_empty", from |-> "a4"], [k |-> "deploy_probe", from |-> "a5"], [k |-> "deploy_agent", from |-> "a2"],
                [k |-> "dao_fund", from |-> "a5", amt |-> "250000000000000000000"],
                [k |-> "delegate", from |-> "a6", val |-> 0, amt |-> "250000000000000000000"],
                \* an operator that also delegates to the two other validators (it will run out of coins, see below)
                [k |-> "delegate", from |-> "v3", val |-> 0, amt |-> "500000000000000000000"],
                [k |-> "delegate", from |-> "v3", val |-> 1, amt |-> "500000000000000000000"]>>),
    Blk(5000, <<[k |-> "liquidate", from |-> "vx1", to |-> "a1", amt |-> "1000000000000000000000"],
                [k |-> "liquidate", from |-> "vx2", to |-> "a2", amt |-> "1000000000000000000000"],
                [k |-> "liquidate", from |-> "vx1", to |-> "a3", amt |-> "1500000000000000000000"],
                \* more DAO holders than a query page holds; a vesting account at the address of a4's next contract
                [k |-> "dao_scatter", from |-> "a5", n |-> 120, salt |-> 0, amt |-> "1000000000000000"],
                [k |-> "pc_approve_agent", from |-> "v2", amt |-> "900000000000000000000000"],
                [k |-> "convert_into_vesting", from |-> "a6", to |-> "next:a4", amt |-> "1000000000000000000", lock |-> 3000, vest |-> 3000,
                 merge |-> FALSE, stake |-> FALSE, val |-> 0, startOff |-> -20]>>),
    \* (the first unbonding of the history goes through the agent contract, after a zero-value call to the still empty
    \* not-bonded pool)
    Blk(5000, <<[k |-> "agent_undelegate", from |-> "v2", val |-> 1, amt |-> "1000000000000000000", ping |-> "notbonded"],
                [k |-> "redeem", from |-> "a2", to |-> "a6", amt |-> "1000000000000000000000", id |-> 1],
                [k |-> "deploy", from |-> "a4", slots |-> 2],
                [k |-> "gov_toggle", from |-> "a1", id |-> 0],
                [k |-> "gov_vote", from |-> "v1", id |-> 1, opt |-> "yes"], [k |-> "gov_vote", from |-> "v2", id |-> 1, opt |-> "yes"],
                [k |-> "gov_vote", from |-> "v3", id |-> 1, opt |-> "yes"]>>
              \* C19: coinomics is switched off by governance (minting has run for three blocks by then)
              \o (IF Exports THEN <<[k |-> "gov_coinomics", from |-> "a2", enable |-> FALSE],
                    [k |-> "gov_vote", from |-> "v1", id |-> 2, opt |-> "yes"], [k |-> "gov_vote", from |-> "v2", id |-> 2, opt |-> "yes"],
                    [k |-> "gov_vote", from |-> "v3", id |-> 2, opt |-> "yes"],
                    \* ... and a parameter is moved to a legal zero (the minimum-gas multiplier of the fee market)
                    [k |-> "gov_params", from |-> "a3", which |-> "fm_mult0", enable |-> FALSE],
                    [k |-> "gov_vote", from |-> "v1", id |-> 3, opt |-> "yes"], [k |-> "gov_vote", from |-> "v2", id |-> 3, opt |-> "yes"],
                    [k |-> "gov_vote", from |-> "v3", id |-> 3, opt |-> "yes"]>> ELSE <<>>)),
    \* ... and the validator it unbonds from then turns out to have double-signed: the slash reaches the fresh unbonding entry
    \* (25 s: the voting period of 20 s is over, the unbonding time of 60 s is not)
    \* v3 gives away all its coins but a remainder smaller than any fee: from now on its fees are paid out of the
    \* staking rewards of its three delegations (claimed just until the fee is covered)
    [Blk(25000, <<[k |-> "send", from |-> "a5", to |-> "a4", amt |-> "1000"], [k |-> "spray", from |-> "a3", salt |-> 0],
                  [k |-> "drain", from |-> "v3", to |-> "a5", keep |-> "1000"]>>) EXCEPT !.evidence = <<1>>] >>
    \o (IF Exports THEN <<[ev |-> "export_import"]>> ELSE <<>>)

Init == /\ hist = Prologue
        /\ nv = 2 /\ nc = 2 /\ nl = 3 /\ np = (IF Exports THEN 3 ELSE 1) /\ blocks = 4
        /\ dels = {<<"v1", 0>>, <<"v2", 1>>, <<"v3", 2>>, <<"v3", 0>>, <<"v3", 1>>} \cup {<<"a6", 0>>}  \* (delegator, validator index) pairs believed to exist
        /\ vfund = {<<"vx1", "a1">>, <<"vx2", "a2">>}     \* (vesting account, funder) pairs
        /\ daoh = {"a5"}                                  \* accounts believed to hold DAO shares
        /\ agr = {} /\ fgr = {} /\ appr = {"v2"}
        /\ liq = {<<0, "a1">>, <<2, "a3">>}                                            \* (liquid denom id, holder) pairs believed to exist

\* an existing delegation most of the time, an arbitrary pair otherwise
Del(h) == IF Pick(1..5, h) # 1 THEN Pick(dels, h) ELSE <<Pick(Accts, h), Pick(0..2, h)>>
Vf(h)  == IF vfund # {} /\ Pick(1..5, h) # 1 THEN Pick(vfund, h) ELSE <<VestName(1), Pick(Accts, h)>>
DaoH(h) == IF daoh # {} /\ Pick(1..5, h) # 1 THEN Pick(daoh, h) ELSE Pick(Accts, h)
\* (granter, grantee, message kind) of an authorization / (granter, grantee) of a fee allowance believed to exist
Ag(h) == IF agr # {} /\ Pick(1..5, h) # 1 THEN Pick(agr, h) ELSE <<Pick(Accts, h), Pick(Accts, h), Pick({"send", "delegate", "fund"}, h)>>
Fg(h) == IF fgr # {} /\ Pick(1..5, h) # 1 THEN Pick(fgr, h) ELSE <<Pick(Accts, h), Pick(Accts, h)>>
Appr(h) == IF appr # {} /\ Pick(1..5, h) # 1 THEN Pick(appr, h) ELSE Pick(Accts, h)     \* accounts believed to have approved the agent
Liq(h) == IF liq # {} /\ Pick(1..5, h) # 1 THEN Pick(liq, h) ELSE <<Pick(0..1, h), Pick(Accts, h)>>

ParamEdges == {"fm_mult0", "fm_mult1", "fm_nobasefee", "fm_elasticity1", "fm_minprice", "erc20_hook", "distr_zero", "slash_zero",
               "staking_edge", "evm_channels", "gov_flags", "lv_edge", "lv_off", "coin_coeff0"}

\* one transaction; `slot` distinguishes the draws inside one block
TxOfKind(h, k, f, d, q, vf) ==
    CASE k = 1  -> [k |-> "send", from |-> f, to |-> AnyAcct(h), amt |-> Pick(Amts, h)]
      [] k = 2  -> [k |-> "multisend", from |-> f, to |-> AnyAcct(h), to2 |-> Pick(Accts, h), amt |-> Pick(Amts \ {"1"}, h)]
      \* a transaction that fails ValidateBasic (a zero output): legal in a block of this chain (no-op ProcessProposal)
      [] k = 32 -> [k |-> "multisend", from |-> f, to |-> AnyAcct(h), to2 |-> Pick(Accts, h), amt |-> "1"]
      [] k = 3  -> [k |-> "dao_fund", from |-> f, amt |-> Pick(Amts, h)]
      [] k = 4  -> [k |-> "dao_xfer", from |-> DaoH(h), to |-> Pick(Accts, h)]
      [] k = 5  -> [k |-> "dao_xfer_ratio", from |-> DaoH(h), to |-> Pick(Accts, h), pct |-> Pick({1, 33, 50, 100}, h)]
      [] k = 6  -> [k |-> "two_msgs", from |-> f, to |-> Pick(Accts, h), amt |-> Pick(Amts, h)]
      [] k = 7  -> [k |-> "eth_send", from |-> f, to |-> AnyAcct(h), amt |-> Pick(Amts, h), extraGas |-> Pick({0, 0, 5000}, h)]
      [] k = 8  -> [k |-> "deploy", from |-> f, slots |-> Pick(1..6, h)]
      [] k = 9  -> [k |-> "call", from |-> f, idx |-> Pick(0..3, h)]
      [] k = 10 -> [k |-> "delegate", from |-> f, val |-> Pick(0..2, h), amt |-> Pick(Amts, h)]
      [] k = 11 -> [k |-> "undelegate", from |-> d[1], val |-> d[2], amt |-> Pick(Amts, h)]
      [] k = 12 -> [k |-> "redelegate", from |-> d[1], val |-> d[2], val2 |-> Pick(0..2, h), amt |-> Pick(Amts, h)]
      [] k = 13 -> [k |-> "withdraw", from |-> d[1], val |-> d[2]]
      [] k = 14 -> [k |-> "set_withdraw", from |-> f, to |-> Pick(Accts, h)]
      [] k = 15 -> [k |-> "vest_create", from |-> f, to |-> VestName(nv + 1), amt |-> "3000000000000000000000",
                    lock |-> Pick({5, 30, 300, 300}, h), vest |-> Pick({1, 1, 5, 40}, h), startOff |-> Pick({-20, 0, 10}, h), merge |-> FALSE,
                    dust |-> Pick({"0", "0", "1", "7"}, h)]
      [] k = 16 -> IF nv = 0 THEN [k |-> "dao_fund", from |-> f, amt |-> "5"]
                   ELSE [k |-> "vest_create", from |-> vf[2], to |-> vf[1], amt |-> "2000000000000000000000",
                         lock |-> Pick({5, 30}, h), vest |-> Pick({1, 5}, h), startOff |-> Pick({-20, 0, 10}, h), merge |-> TRUE, dust |-> "0"]
      [] k = 17 -> IF nv = 0 THEN [k |-> "send", from |-> f, to |-> "a1", amt |-> "1"]
                   ELSE [k |-> "clawback", from |-> vf[2], acct |-> vf[1]]
      [] k = 18 -> IF nv = 0 THEN [k |-> "send", from |-> f, to |-> "a2", amt |-> "1"]
                   ELSE [k |-> "liquidate", from |-> Pick(VestAccts, h), to |-> Pick(Accts, h), amt |-> Pick({"1000000000000000000000", "1500000000000000000000"}, h)]
      [] k = 19 -> [k |-> "redeem", from |-> q[2], to |-> AnyAcct(h), amt |-> Pick({"1000000000000000000000", "400000000000000000000"}, h), id |-> q[1]]
      [] k = 20 -> [k |-> "gov_submit", from |-> f, amt |-> Pick({"10", "1000", "2000", "5000"}, h)]
      [] k = 21 -> [k |-> "gov_vote", from |-> Pick({"v1", "v2", "v3", f}, h), id |-> Pick(1..(IF np > 0 THEN np ELSE 1), h), opt |-> Pick({"yes", "veto"}, h)]
      [] k = 22 -> [k |-> "bad_nonce", from |-> f, to |-> Pick(Accts, h)]
      [] k = 23 -> [k |-> "pc_delegate", from |-> f, val |-> Pick(0..2, h), amt |-> Pick(AmtsZ, h)]
      [] k = 24 -> [k |-> "pc_undelegate", from |-> d[1], val |-> d[2], amt |-> Pick(AmtsZ, h)]
      [] k = 25 -> [k |-> "pc_withdraw", from |-> d[1], val |-> d[2]]
      [] k = 26 -> [k |-> "pc_setwd", from |-> f, to |-> Pick(Accts, h)]
      [] k = 28 -> [k |-> "deploy_empty", from |-> f]
      [] k = 29 -> [k |-> "gov_toggle", from |-> f, id |-> q[1]]
      [] k = 30 -> [k |-> "spray", from |-> f, salt |-> 0]
      [] k = 31 -> [k |-> "gov_evm_params", from |-> f, fail |-> (Pick(1..2, h) = 1)]
      [] k = 33 -> [k |-> "gov_submit2", from |-> f, amt2 |-> Pick({1, 777}, h)]
      [] k = 34 -> [k |-> "eth_send_mod", from |-> f, mod |-> Pick(0..6, h), amt |-> Pick({"1", "1000000000000000000"}, h)]
      [] k = 35 -> [k |-> "convert_into_vesting", from |-> f, to |-> (IF Pick(1..2, h) = 1 THEN "fresh" \o ToString(Pick(1..3, h)) ELSE Pick(Accts, h)),
                    amt |-> Pick({"1000000000000000000", "250000000000000000000"}, h), lock |-> Pick({5, 300}, h), vest |-> Pick({1, 40}, h),
                    merge |-> FALSE, stake |-> (Pick(1..3, h) # 1), val |-> Pick(0..2, h), startOff |-> Pick({-100, -100, 0}, h)]
      [] k = 27 -> [k |-> "convert_coin", from |-> q[2], to |-> Pick(Accts, h), id |-> q[1], amt |-> Pick({"1000", "400000000000000000000"}, h)]
      \* authz, fee grants, re-bonding, deposits, conversion back, ICS-20 (message and precompile) over the loopback channel
      [] k = 36 -> [k |-> "convert_erc20", from |-> q[2], to |-> Pick(Accts, h), id |-> q[1], amt |-> Pick({"1000", "500", "400000000000000000000"}, h)]
      [] k = 37 -> [k |-> "authz_grant", from |-> f, to |-> Pick(Accts \ {f}, h), msg |-> Pick({"send", "delegate", "fund"}, h),
                    amt |-> Pick({"1000", "250000000000000000000"}, h), secs |-> Pick({3, 1000, 1000}, h)]
      [] k = 38 -> LET g == Ag(h) IN [k |-> "authz_exec", from |-> g[2], granter |-> g[1], msg |-> g[3], to |-> Pick(Accts, h), val |-> Pick(0..2, h),
                                      amt |-> Pick({"1", "600", "1000", "250000000000000000000"}, h)]
      [] k = 39 -> LET g == Ag(h) IN [k |-> "authz_revoke", from |-> g[1], to |-> g[2], msg |-> g[3]]
      [] k = 40 -> [k |-> "feegrant", from |-> f, to |-> Pick(Accts \ {f}, h), amt |-> Pick({"100000000000000", "900000000000000000"}, h)]
      [] k = 41 -> LET g == Fg(h) IN [k |-> "send_feegranted", from |-> g[2], granter |-> g[1], to |-> Pick(Accts, h), amt |-> Pick(Amts, h)]
      [] k = 42 -> [k |-> "cancel_unbond", from |-> d[1], val |-> d[2], amt |-> Pick({"1", "all", "250000000000000000000"}, h)]
      [] k = 43 -> [k |-> "gov_deposit", from |-> f, id |-> Pick(1..(IF np > 0 THEN np ELSE 1), h), amt |-> Pick({"10", "5000"}, h)]
      [] k = 44 -> [k |-> "ibc_transfer", from |-> f, amt |-> Pick(Amts, h)]
      [] k = 45 -> [k |-> "pc_ibc_transfer", from |-> f, amt |-> Pick(Amts, h)]
      \* (not in C19 histories: what BLOCKHASH answers for blocks before an import is header history, not state)
      [] k = 48 -> IF Exports THEN [k |-> "send", from |-> f, to |-> "a1", amt |-> "1"] ELSE [k |-> "call_probe", from |-> f]
      \* the staking precompile reached through a contract (with the sender's approval), after a zero-value call to a
      \* module account, a fresh address or nobody
      [] k = 49 -> [k |-> "pc_approve_agent", from |-> f, amt |-> Pick({"250000000000000000000", "900000000000000000000000"}, h)]
      [] k = 50 -> [k |-> "agent_delegate", from |-> Appr(h), val |-> Pick(0..2, h), amt |-> Pick(AmtsZ, h),
                    ping |-> Pick({"none", "notbonded", "bonded", "distr", "fresh", "self"}, h)]
      [] k = 51 -> LET dd == Del(h) IN [k |-> "agent_undelegate", from |-> dd[1], val |-> dd[2], amt |-> Pick(AmtsZ, h),
                    ping |-> Pick({"none", "notbonded", "notbonded", "bonded", "distr", "fresh"}, h)]
      [] k = 52 -> [k |-> "send_mod", from |-> f, mod |-> Pick(0..6, h), amt |-> Pick({"1", "1000000000000000000"}, h)]
      [] k = 53 -> [k |-> "gov_erc20_params", from |-> f, enable |-> (Pick(1..3, h) = 1)]
      \* governance moves the parameters of a module to legal edge values (zero, empty, the other flag)
      [] k = 54 -> [k |-> "gov_params", from |-> f, which |-> Pick(ParamEdges, h), enable |-> (Pick(1..2, h) = 1)]
      \* the ERC20 `transfer` of a registered pair, to an account or to the erc20 module address (conversion by the EVM hook)
      [] k = 55 -> [k |-> "erc20_xfer", from |-> q[2], to |-> (IF Pick(1..2, h) = 1 THEN "mod:erc20" ELSE Pick(Accts, h)), id |-> q[1],
                    amt |-> Pick({"1", "500", "400000000000000000000"}, h)]
      \* the account without coins sends: the fee comes out of its staking rewards
      [] k = 56 -> [k |-> Pick({"send", "send", "dao_fund"}, h), from |-> "v3", to |-> Pick(Accts, h), amt |-> "1"]
      [] k = 46 -> [k |-> "gov_coinomics", from |-> f, enable |-> (Pick(1..2, h) = 1)]
      [] k = 47 -> [k |-> "dao_scatter", from |-> DaoH(h), n |-> Pick({3, 40}, h), salt |-> Len(h), amt |-> "1000"]

KindOf(k0) == IF k0 <= 56 THEN k0
              ELSE IF k0 <= 57 THEN 38 ELSE IF k0 = 58 THEN 41 ELSE IF k0 = 59 THEN 42 ELSE IF k0 <= 61 THEN 51 ELSE IF k0 = 62 THEN 49
              ELSE IF k0 <= 64 THEN 56 ELSE 8
RandTx(h, slot) == TxOfKind(h, KindOf(Pick(1..65, h)), Pick(Accts, h), Del(h), Liq(h), Vf(h))

NewVest(txs)   == Cardinality({j \in DOMAIN txs : txs[j].k = "vest_create" /\ txs[j].merge = FALSE})
Count(txs, kk) == Cardinality({j \in DOMAIN txs : txs[j].k = kk})

\* a freshly created vesting account also receives spendable coins so it can pay fees
WithTopUps(txs) ==
    LET F[j \in 0..Len(txs)] ==
          IF j = 0 THEN <<>>
          ELSE IF txs[j].k = "vest_create" /\ txs[j].merge = FALSE
               THEN F[j-1] \o <<txs[j], [k |-> "send", from |-> txs[j].from, to |-> txs[j].to, amt |-> "1000000000000000000"]>>
               ELSE IF txs[j].k \in {"gov_toggle", "gov_evm_params", "gov_coinomics", "gov_erc20_params", "gov_params"}
               THEN F[j-1] \o <<txs[j]>> \o [v \in 1..3 |-> [k |-> "gov_vote", from |-> "v" \o ToString(v),
                                                             id |-> np + 1 + Cardinality({y \in 1..(j-1) : txs[y].k \in {"gov_submit", "gov_submit2", "gov_toggle", "gov_evm_params", "gov_coinomics", "gov_erc20_params", "gov_params"}}), opt |-> "yes"]]
               ELSE IF txs[j].k = "gov_submit2"
               THEN F[j-1] \o <<txs[j]>> \o [v \in 1..3 |-> [k |-> "gov_vote", from |-> "v" \o ToString(v),
                                                             id |-> np + 1 + Cardinality({y \in 1..(j-1) : txs[y].k \in {"gov_submit", "gov_submit2", "gov_toggle", "gov_evm_params", "gov_coinomics", "gov_erc20_params", "gov_params"}}), opt |-> "veto"]]
               ELSE Append(F[j-1], txs[j])
    IN F[Len(txs)]

\* LET definitions containing RandomElement may be re-evaluated at every use; binding the drawn
\* value with \E x \in {expr} evaluates it exactly once
Block ==
    \* (one block in six carries no transaction at all)
    \E raw \in {[j \in 1..Pick(0..5, hist) |-> RandTx(hist, j)]} :
    \E one \in {IF NewVest(raw) > 1 THEN SubSeq(raw, 1, 1) ELSE raw} :   \* at most one new vesting account per block
    \E blk \in {[ev |-> "block",
                  dt |-> Pick({1000, 5000, 5000, 12000, 61000}, hist),
                  proposer |-> Pick(0..2, hist),
                  absent |-> IF Pick(1..4, hist) = 1 THEN <<Pick(0..2, hist)>> ELSE <<>>,
                  evidence |-> IF blocks > 0 /\ Pick(1..12, hist) = 1 THEN <<Pick(1..2, hist)>> ELSE <<>>,
                  txs |-> WithTopUps(one)]} :
       /\ hist' = Append(hist, blk)
       /\ nv' = nv + NewVest(one)
       /\ nc' = nc + Count(one, "deploy")
       /\ nl' = nl + Count(one, "liquidate")
       /\ np' = np + Count(one, "gov_submit") + Count(one, "gov_submit2") + Count(one, "gov_toggle") + Count(one, "gov_evm_params") + Count(one, "gov_coinomics") + Count(one, "gov_erc20_params") + Count(one, "gov_params")
       /\ blocks' = blocks + 1
       /\ dels' = dels \cup {<<one[j].from, one[j].val>> : j \in {x \in DOMAIN one : one[x].k \in {"delegate", "pc_delegate", "agent_delegate"}}}
                        \cup {<<one[j].from, one[j].val2>> : j \in {x \in DOMAIN one : one[x].k = "redelegate"}}
       /\ vfund' = vfund \cup {<<one[j].to, one[j].from>> : j \in {x \in DOMAIN one : one[x].k = "vest_create" /\ one[x].merge = FALSE}}
       /\ daoh' = daoh \cup {one[j].from : j \in {x \in DOMAIN one : one[x].k \in {"dao_fund", "two_msgs"}}}
                        \cup {one[j].to : j \in {x \in DOMAIN one : one[x].k \in {"dao_xfer", "dao_xfer_ratio"}}}
       /\ agr' = agr \cup {<<one[j].from, one[j].to, one[j].msg>> : j \in {x \in DOMAIN one : one[x].k = "authz_grant"}}
       /\ appr' = appr \cup {one[j].from : j \in {x \in DOMAIN one : one[x].k = "pc_approve_agent"}}
       /\ fgr' = fgr \cup {<<one[j].from, one[j].to>> : j \in {x \in DOMAIN one : one[x].k = "feegrant"}}
       /\ liq' = liq \cup {<<nl + Cardinality({y \in 1..(j-1) : one[y].k = "liquidate"}), one[j].to>> :
                              j \in {x \in DOMAIN one : one[x].k = "liquidate"}}

Other(e) == hist' = Append(hist, e) /\ UNCHANGED <<nv, nc, nl, np, blocks, dels, liq, vfund, daoh, agr, fgr, appr>>

SimNext ==
    /\ Len(hist) < MaxLen
    /\ \/ Block
       \/ Block
       \/ Block
       \/ (Locals /\ blocks > 0 /\ Other([ev |-> "local", kind |-> Pick({"checktx", "query", "simulate", "export"}, hist)]))
       \/ (Restarts /\ blocks > 0 /\ Other([ev |-> "restart"]))
       \/ (Exports /\ blocks > 0 /\ Other([ev |-> "export_import"]))

Emit == Len(hist) = MaxLen /\ PrintT(<<"SCRIPT", ToJson(hist)>>) /\ UNCHANGED vars
SimSpec == Init /\ [][SimNext \/ Emit]_vars
=============================================================================
