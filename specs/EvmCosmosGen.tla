---------------------------- MODULE EvmCosmosGen ----------------------------
(***************************************************************************)
(* Scenario space of EvmCosmos (C02, C04, C05) and its exhaustive check on  *)
(* the model.  A scenario is [setup, top]: how the chain is prepared (who   *)
(* signs, withdraw address of the signer, grants from the signer to the      *)
(* contracts) and the call tree of the transaction.  The machine has depth   *)
(* one: Next picks a scenario of the configured family, runs the as-built    *)
(* machine M on an abstract pre-state, evaluates the property layer on M's    *)
(* outcome, and prints the scenario as a script for the harness.              *)
(*   Defects = {}                : every scenario satisfies P  (must pass)    *)
(*   Defects = the known ones    : Strict must FAIL; Explained must pass:     *)
(*                                 P fails only in scenarios that involve a    *)
(*                                 precompile call                             *)
(***************************************************************************)
EXTENDS EvmCosmos

CONSTANTS Family      \* "C02" | "C04" | "C05"

VARIABLES sc
vars == <<sc>>

Z == "0"
OpRec(op, id, mode, m, who, val, val2, amt, grantee, to, value, body) ==
    [op |-> op, id |-> id, mode |-> mode, m |-> m, who |-> who, val |-> val, val2 |-> val2, amt |-> amt,
     grantee |-> grantee, to |-> to, value |-> value, height |-> 1, body |-> body, alt |-> <<>>, rt |-> FALSE, rev |-> FALSE]
Pc(id, mode, m, who, amt)       == OpRec("pc", id, mode, m, who, 0, 1, amt, "C0", "W", Z, <<>>)
PcG(id, mode, m, grantee, amt)  == OpRec("pc", id, mode, m, "S", 0, 1, amt, grantee, "W", Z, <<>>)
CallC(id, mode, value, body)    == OpRec("call", id, mode, "-", "-", 0, 0, Z, "-", "-", value, body)
Send(id, to, value)             == OpRec("call", id, "catch", "-", "-", 0, 0, Z, "-", to, value, <<>>)
Store(id)                       == OpRec("sstore", id, "catch", "-", "-", 0, 0, Z, "-", "-", Z, <<>>)
Log(id)                         == OpRec("log", id, "catch", "-", "-", 0, 0, Z, "-", "-", Z, <<>>)
Rev(id)                         == OpRec("revert", id, "catch", "-", "-", 0, 0, Z, "-", "-", Z, <<>>)
Inval(id)                       == OpRec("invalid", id, "catch", "-", "-", 0, 0, Z, "-", "-", Z, <<>>)
CallCA(id, mode, value, body, alt) == [CallC(id, mode, value, body) EXCEPT !.alt = alt]
Recall(id, mode, to, value)     == OpRec("recall", id, mode, "-", "-", 0, 0, Z, "-", to, value, <<>>)
SelfD(id, to)                   == OpRec("selfdestruct", id, "catch", "-", "-", 0, 0, Z, "-", to, Z, <<>>)
Create(id, value, body)         == OpRec("create", id, "catch", "-", "-", 0, 0, Z, "-", "-", value, body)
Query(id)                       == Pc(id, "catch", "query", "S", Z)
PcV(id, mode, m, who, amt, v)   == [Pc(id, mode, m, who, amt) EXCEPT !.value = v]

Amt == "1000000"
Methods == {"delegate", "undelegate", "redelegate", "cancelUnbonding", "withdrawRewards", "claimRewards",
            "setWithdrawAddress", "withdrawCommission", "ibcTransfer"}
Whos == {"S", "self", "T"}
NoGrant == <<>>
Grant(ty, lim, exp, val) == [grantee |-> "C0", type |-> ty, limit |-> lim, expired |-> exp, val |-> val, alloc2 |-> ""]
\* an ICS-20 authorization with two allocations: channel-0 (lim) and channel-1 (lim2)
Grant2(lim, lim2) == [Grant("ibc", lim, FALSE, 0) EXCEPT !.alloc2 = lim2]
GrantKinds(m) == LET t == TypeOf(m) IN
    IF t = "-" THEN {NoGrant}
    ELSE IF t = "ibc" THEN {NoGrant, <<Grant(t, "", FALSE, 0)>>, <<Grant(t, Amt, FALSE, 0)>>, <<Grant(t, "999", FALSE, 0)>>,
                            <<Grant(t, "5000000", FALSE, 0)>>, <<Grant(t, "", TRUE, 0)>>, <<Grant(t, "", FALSE, 2)>>, <<Grant("delegate", "", FALSE, 0)>>}
    ELSE {NoGrant, <<Grant(t, "", FALSE, 0)>>, <<Grant(t, Amt, FALSE, 0)>>, <<Grant(t, "999", FALSE, 0)>>,
          <<Grant(t, "5000000", FALSE, 0)>>, <<Grant(t, "", TRUE, 0)>>, <<Grant(t, "", FALSE, 2)>>,
          <<Grant(IF t = "delegate" THEN "undelegate" ELSE "delegate", "", FALSE, 0)>>}

GrantsFor(m, c) == IF TypeOf(m) = "-" THEN NoGrant ELSE <<[Grant(TypeOf(m), "", FALSE, 0) EXCEPT !.grantee = c]>>

Setup(signer, wdS, grants, value) ==
    [signer |-> signer, wd |-> [S |-> wdS], grants |-> grants, delegS |-> "1000000000000000000000",
     delegT |-> "1000000000000000000000", ubdS |-> "5000000", fundC |-> "5000000000000000000", warm |-> 3,
     delegC |-> "0", denom2 |-> FALSE, acl |-> FALSE, priorLog |-> FALSE, fresh |-> FALSE, noNFund |-> FALSE]
SetupC(wdS, grants, d2) == [Setup("a1", wdS, grants, Z) EXCEPT !.delegC = "700000000000000000000", !.denom2 = d2]

\* the same as an EIP-2930 transaction whose access list makes every callee warm (no access-list entry is
\* journaled between the balance changes of a call)
Warm(S) == {[x EXCEPT !.setup.acl = TRUE] : x \in S}
\* ... preceded in its block by a transaction that emits logs (the log index of the block is not 0)
Later(S) == {[x EXCEPT !.setup.priorLog = TRUE] : x \in S}
\* the addresses at which the tree's CREATEs deploy hold nothing and have no account before the transaction
Bare(S) == {[x EXCEPT !.setup.noNFund = TRUE] : x \in S}

\* ----- C02: no frame reverts on purpose ------------------------------------------------
C02Direct == {[setup |-> Setup(IF m = "withdrawCommission" THEN "v1" ELSE "a1", w, NoGrant, Z), top |-> Pc(0, "catch", m, who, Amt)] :
                 m \in Methods, who \in {"S", "T"}, w \in {"self", "W"}}
C02ViaContract == UNION {
    {[setup |-> Setup(IF m = "withdrawCommission" THEN "v1" ELSE "a1", w, g, v),
      top |-> CallC(0, "catch", v, <<Pc(1, "catch", m, who, Amt)>>)] :
         who \in Whos, w \in {"self", "W"}, v \in {Z, "777"}, g \in {NoGrant, GrantsFor(m, "C0")}} : m \in Methods}
C02Dirty ==
    {[setup |-> Setup("a1", w, GrantsFor(m, "C0"), Z),
      top |-> CallC(0, "catch", "900", IF before THEN <<Send(1, tgt, "300"), Pc(2, "catch", m, who, Amt), Store(3)>>
                                       ELSE <<Pc(2, "catch", m, who, Amt), Send(1, tgt, "300"), Store(3)>>)] :
         m \in {"delegate", "undelegate", "withdrawRewards", "claimRewards"}, who \in {"S", "self"}, w \in {"self", "W"},
         tgt \in {"S", "T", "W"}, before \in BOOLEAN}
C02Nested ==
    {[setup |-> Setup("a1", w, GrantsFor(m, "C1"), Z),
      top |-> CallC(0, "catch", v0, <<CallC(1, "bubble", v1, <<Pc(2, "bubble", m, who, Amt), Store(3)>>), Store(4)>>)] :
         m \in {"delegate", "undelegate", "withdrawRewards", "setWithdrawAddress"}, who \in {"S", "self"}, w \in {"self", "W"},
         v0 \in {Z, "500"}, v1 \in {Z, "100"}}

\* a contract that receives value, calls a precompile and forwards exactly what it received
C02Forward ==
    UNION {{[setup |-> Setup("a1", w, GrantsFor(m, "C0"), Z),
             top |-> CallC(0, "catch", "900", <<Pc(1, "catch", m, "S", Amt), Send(2, tgt, "900")>>)] :
               w \in {"self", "W"}, tgt \in {"T", "S"}} : m \in {"delegate", "withdrawRewards", "claimRewards", "setWithdrawAddress", "query"}}
\* value-bearing nested calls that revert, with nothing else happening to the contracts afterwards
C02Plain ==
    {[setup |-> Setup("a1", "self", NoGrant, Z), top |-> t] : t \in {
        CallC(0, "catch", "1000", <<CallC(1, "catch", "400", <<Rev(2)>>)>>),
        CallC(0, "catch", "1000", <<CallC(1, "catch", "400", <<Send(3, "T", "100"), Rev(2)>>), Send(4, "T", "50")>>),
        CallC(0, "catch", "1000", <<CallC(1, "catch", "400", <<Store(2)>>), Send(4, "W", "50")>>),
        CallC(0, "catch", Z, <<CallC(1, "catch", "400", <<CallC(2, "catch", "300", <<Inval(3)>>)>>)>>),
        Create(0, "600", <<Store(1), Send(2, "T", "100")>>),
        Create(0, Z, <<CallC(1, "catch", "300", <<Store(2)>>)>>),
        \* SELFDESTRUCT: to a third party, and the sanctioned burn (to itself)
        CallC(0, "catch", "900", <<CallC(1, "catch", "500", <<Store(2), SelfD(3, "T")>>), Store(4)>>),
        CallC(0, "catch", "900", <<CallC(1, "catch", "500", <<Store(2), SelfD(3, "self")>>), Store(4)>>) }}
\* the calling contract owns a delegation itself (named = caller), rewards also in a second denomination
C02Own ==
    UNION {{[setup |-> SetupC(w, GrantsFor(m, "C0"), d2), top |-> CallC(0, "catch", v, <<Pc(1, "catch", m, "self", Amt), Store(2)>>)] :
              w \in {"self"}, v \in {Z, "777"}, d2 \in BOOLEAN} : m \in {"delegate", "undelegate", "redelegate", "withdrawRewards", "claimRewards"}}
\* value sent along with a precompile call (the precompiles are not payable: the call must fail and leave nothing)
C02PcValue ==
    {[setup |-> Setup("a1", "self", NoGrant, Z), top |-> CallC(0, "catch", v0, <<PcV(1, "catch", m, "S", Amt, "300"), Store(2)>>)] :
        v0 \in {Z, "900"}, m \in {"query", "delegate", "withdrawRewards", "ibcTransfer"}}
    \cup {[setup |-> Setup("a1", "self", NoGrant, Z),
           top |-> CallC(0, "catch", "900", <<CallC(1, "catch", "400", <<PcV(2, "catch", "query", "S", Z, "300"), Store(3)>>), Store(4)>>)]}
C02Create ==
    UNION {{[setup |-> Setup("a1", w, NoGrant, Z), top |-> Create(0, v, <<Pc(1, "catch", m, "S", Amt), Store(2)>>)] :
              w \in {"self", "W"}, v \in {Z, "600"}} : m \in {"delegate", "withdrawRewards", "setWithdrawAddress", "query"}}

\* rewards paid to an address that has no account yet, which the contract probes before and pays after
C02Fresh ==
    {[setup |-> [Setup("a1", "self", NoGrant, Z) EXCEPT !.wd = [S |-> "F"], !.fresh = TRUE], top |-> t] : t \in {
        CallC(0, "catch", "900", <<Send(1, "F", Z), Pc(2, "catch", "withdrawRewards", "S", Amt), Send(3, "F", "50"), Store(4)>>),
        CallC(0, "catch", "900", <<Pc(2, "catch", "withdrawRewards", "S", Amt), Send(3, "F", "50"), Store(4)>>),
        CallC(0, "catch", Z, <<Send(1, "F", Z), Pc(2, "catch", "claimRewards", "S", Amt), Send(3, "F", "50")>>),
        CallC(0, "catch", Z, <<Send(1, "F", "70"), Pc(2, "catch", "withdrawRewards", "S", Amt), Send(3, "F", "50")>>),
        CallC(0, "catch", Z, <<CallC(5, "catch", Z, <<Send(1, "F", Z), Rev(6)>>), Pc(2, "catch", "withdrawRewards", "S", Amt), Send(3, "F", "50")>>) }}
\* a third party whose rewards are paid to the calling contract: still a third party
C04WdContract ==
    {[setup |-> [Setup("a1", "self", g, Z) EXCEPT !.wd = [S |-> "self", T |-> "C0"]],
      top |-> CallC(0, "catch", Z, <<Pc(1, "catch", m, who, Amt), Store(2)>>)] :
        m \in {"withdrawRewards", "claimRewards", "setWithdrawAddress"}, who \in {"T", "S"}, g \in {NoGrant}}
\* ----- C05: exactly one frame reverts ---------------------------------------------------
RevMethods == {"delegate", "undelegate", "withdrawRewards", "claimRewards", "setWithdrawAddress", "approve", "redelegate", "ibcTransfer", "ibcApprove"}
PcM(id, mode, m) == IF m \in {"approve", "ibcApprove"} THEN PcG(id, mode, m, "C0", "4000000") ELSE Pc(id, mode, m, "S", Amt)
C05Trees(m) ==
    { \* (i) the frame that made the precompile call reverts afterwards, the parent catches
      [c |-> "C1", t |-> CallC(0, "catch", Z, <<CallC(1, "catch", Z, <<PcM(2, "catch", m), Rev(3)>>), Store(4)>>)],
      \* (i') same, by running out of gas
      [c |-> "C1", t |-> CallC(0, "catch", Z, <<CallC(1, "catch", Z, <<PcM(2, "catch", m), Inval(3)>>), Store(4)>>)],
      \* (ii) a sibling frame reverts: the precompile call's effect must stay
      [c |-> "C1", t |-> CallC(0, "catch", Z, <<CallC(1, "catch", Z, <<PcM(2, "catch", m)>>), CallC(5, "catch", Z, <<Store(6), Rev(7)>>), Store(4)>>)],
      \* (iii) a parent two levels up reverts
      [c |-> "C2", t |-> CallC(0, "catch", Z, <<CallC(1, "catch", Z, <<CallC(2, "catch", Z, <<PcM(3, "catch", m)>>), Rev(5)>>), Store(4)>>)],
      \* (iv) the top-level frame reverts: the transaction fails
      [c |-> "C0", t |-> CallC(0, "catch", Z, <<PcM(1, "catch", m), Rev(2)>>)],
      \* (v) value moved inside the reverted frame as well
      [c |-> "C1", t |-> CallC(0, "catch", "900", <<CallC(1, "catch", "400", <<Send(6, "T", "50"), PcM(2, "catch", m), Rev(3)>>), Store(4)>>)] }
\* (vi) the precompile call itself fails after it has written: a multi-method allowance change whose
\*      second method fails, and spends whose grant does not cover the validator (checked after the effect)
C05Failed ==
    {[setup |-> Setup("a1", "self", <<Grant("delegate", "2000000", FALSE, 0)>>, Z),
      top |-> CallC(0, "catch", Z, <<PcG(1, "catch", m, "C0", "1000000"), Store(2)>>)] : m \in {"increaseAllowance", "decreaseAllowance", "revoke"}}
    \cup {[setup |-> Setup("a1", w, <<Grant(TypeOf(m), "", FALSE, 2)>>, Z),
           top |-> CallC(0, "catch", v, <<Pc(1, "catch", m, "S", Amt), Store(2)>>)] :
             m \in {"delegate", "undelegate", "redelegate", "cancelUnbonding"}, w \in {"self", "W"}, v \in {Z, "777"}}
    \* spends the caller is not entitled to (no grant, expired, too small, a third party's funds): refused before any effect
    \cup UNION {{[setup |-> Setup("a1", "self", g, Z), top |-> CallC(0, "catch", v, <<Pc(1, "catch", m, who, Amt), Store(2)>>)] :
                   g \in {NoGrant, <<Grant(TypeOf(m), "999", FALSE, 0)>>, <<Grant(TypeOf(m), "", TRUE, 0)>>}, who \in {"S", "T"}, v \in {Z, "777"}} :
                 m \in {"delegate", "undelegate", "redelegate", "cancelUnbonding", "ibcTransfer"}}
\* (vii) re-entrancy: the reverted frame runs in a contract that is also dirty outside of it
C05Reentrant(m) ==
    { \* A writes, calls B; B re-enters A (alt), which calls the precompile; B then reverts
      [c |-> "C0", t |-> CallCA(0, "catch", Z, <<Store(1), CallC(2, "catch", Z, <<Recall(3, "bubble", "C0", Z), Rev(4)>>), Store(5)>>,
                                              <<Store(6), PcM(7, "catch", m)>>)],
      \* A writes, re-enters itself: the inner activation writes, calls the precompile and reverts
      [c |-> "C0", t |-> CallCA(0, "catch", Z, <<Store(1), Recall(2, "catch", "C0", Z), Store(5)>>,
                                              <<Store(6), PcM(7, "catch", m), Rev(8)>>)] }
C05Destroy ==
    {[setup |-> Setup("a1", "self", NoGrant, Z), top |-> t] : t \in {
        \* SELFDESTRUCT inside a frame that is reverted: the contract must survive with code, storage and balance
        CallCA(0, "catch", "900", <<Store(1), CallC(2, "catch", Z, <<Recall(3, "bubble", "C0", Z), Rev(4)>>), Store(5)>>, <<SelfD(6, "T")>>),
        CallC(0, "catch", "900", <<CallC(1, "catch", "500", <<Store(2), SelfD(3, "T")>>), Rev(4)>>),
        CallC(0, "catch", "900", <<CallC(1, "catch", "500", <<CallC(2, "catch", "100", <<SelfD(3, "self")>>), Rev(4)>>), Store(5)>>),
        \* ... also when a precompile call (which flushes the StateDB) comes between the SELFDESTRUCT and the revert
        CallC(0, "catch", "900", <<CallC(1, "catch", Z, <<CallC(2, "catch", Z, <<Store(3), SelfD(4, "self")>>), Query(5), Rev(6)>>), Store(7)>>),
        CallC(0, "catch", Z, <<CallC(1, "catch", "500", <<CallC(2, "catch", Z, <<Store(3), SelfD(4, "T")>>), Query(5), Rev(6)>>), Store(7)>>) }}
\* (viii) a contract creation whose constructor called a precompile fails
C05Create(m) == {[c |-> "N0", t |-> Create(0, Z, <<Store(1), PcM(2, "catch", m), Rev(3)>>)],
                 [c |-> "N0", t |-> Create(0, "600", <<PcM(2, "catch", m), Inval(3)>>)]}
\* logs: emitted in frames that complete, in frames that revert, before and after precompile calls
C05LogTrees(m) ==
    {CallC(0, "catch", Z, <<Log(7), CallC(1, "catch", Z, <<Log(8), PcM(2, "catch", m), Log(9), Rev(3)>>), Log(10), Store(4)>>),
     CallC(0, "catch", Z, <<Log(7), CallC(1, "catch", Z, <<Log(8), CallC(2, "catch", Z, <<Log(9), Store(5)>>), Inval(3)>>), Log(10)>>),
     CallC(0, "catch", Z, <<CallC(1, "catch", Z, <<Log(8), Store(5)>>), CallC(2, "bubble", Z, <<Log(9), Rev(3)>>), Log(10)>>)}
C05Logs == UNION {{[setup |-> Setup("a1", "self", GrantsFor(m, "C1"), Z), top |-> t] : t \in C05LogTrees(m)} : m \in {"query", "delegate"}}
\* CREATE inside the tree, onto an address that already holds coins: constructor reverts / runs out of gas / calls a
\* precompile first; the creating frame goes on (a later transfer to the address included) or is itself reverted
CreateN(id, mode, value, body) == [Create(id, value, body) EXCEPT !.mode = mode]
C05NestedCreate ==
    {[setup |-> Setup("a1", "self", GrantsFor("delegate", "N2"), Z), top |-> t] : t \in {
        CallC(0, "catch", "900", <<Store(1), CreateN(2, "catch", "300", <<Store(3), Rev(4)>>), Send(5, "T", "50"), Store(6)>>),
        CallC(0, "catch", "900", <<CreateN(2, "catch", "300", <<Store(3), Rev(4)>>), Send(5, "N2", "70"), Store(6)>>),
        CallC(0, "catch", Z, <<CreateN(2, "catch", "300", <<Store(3), Inval(4)>>), Send(5, "N2", "70")>>),
        CallC(0, "catch", Z, <<CreateN(2, "catch", "300", <<Store(3), Log(7)>>), Send(5, "N2", "70"), Store(6)>>),
        CallC(0, "catch", Z, <<CallC(1, "catch", "400", <<CreateN(2, "catch", "100", <<Store(3)>>), Rev(4)>>), Store(5)>>),
        CallC(0, "catch", Z, <<CallC(1, "catch", "400", <<CreateN(2, "catch", "100", <<Store(3)>>), Query(7), Rev(4)>>), Send(8, "N2", "70"), Store(5)>>),
        CallC(0, "catch", Z, <<CreateN(2, "catch", Z, <<Pc(3, "catch", "delegate", "S", Amt), Rev(4)>>), Store(5)>>),
        CallC(0, "catch", Z, <<CreateN(2, "bubble", "300", <<Rev(4)>>), Store(5)>>) }}
\* a contract deployed by the transaction is called later in the same transaction: its code creates a contract
\* (its own nonce moves) and reverts or stops; alone, inside a frame that is reverted afterwards, twice in a row
CreateRt(id, mode, value, body) == [CreateN(id, mode, value, body) EXCEPT !.rt = TRUE]
NCall(id, mode, to, rev) == [OpRec("ncall", id, mode, "-", "-", 0, 0, Z, "-", to, Z, <<>>) EXCEPT !.rev = rev]
C05NewCall ==
    {[setup |-> Setup("a1", "self", NoGrant, Z), top |-> t] : t \in {
        CallC(0, "catch", "900", <<CreateRt(2, "catch", "300", <<Store(3)>>), NCall(4, "catch", "N2", TRUE), Store(6)>>),
        CallC(0, "catch", "900", <<CreateRt(2, "catch", Z, <<Log(3)>>), NCall(4, "catch", "N2", FALSE), Store(6)>>),
        CallC(0, "catch", Z, <<CreateRt(2, "catch", Z, <<Store(3)>>), NCall(4, "catch", "N2", FALSE), NCall(5, "catch", "N2", TRUE), Store(6)>>),
        CallC(0, "catch", Z, <<CreateRt(2, "catch", Z, <<Store(3)>>), NCall(4, "catch", "N2", TRUE), NCall(5, "catch", "N2", FALSE), Log(7)>>),
        CallC(0, "catch", Z, <<CreateRt(2, "catch", "300", <<Store(3)>>), CallC(1, "catch", Z, <<NCall(4, "catch", "N2", FALSE), Rev(5)>>), Store(6)>>),
        CallC(0, "catch", Z, <<CreateRt(2, "catch", Z, <<Store(3)>>), CallC(1, "catch", Z, <<NCall(4, "bubble", "N2", TRUE), Store(5)>>), Store(6)>>),
        CallC(0, "catch", Z, <<CallC(1, "catch", "400", <<CreateRt(2, "catch", "100", <<Store(3)>>), NCall(4, "catch", "N2", FALSE), Rev(5)>>), NCall(7, "catch", "N2", FALSE), Store(6)>>),
        \* (a constructor that reverts deploys nothing: the later call meets an address without code)
        CallC(0, "catch", Z, <<CreateRt(2, "catch", "300", <<Store(3), Rev(8)>>), NCall(4, "catch", "N2", TRUE), NCall(5, "catch", "N2", FALSE), Store(6)>>) }}
C05All == C05NewCall \cup Warm(C05NewCall) \cup Bare(C05NewCall \cup C05NestedCreate) \cup Later(C05Logs) \cup C05NestedCreate \cup Warm(C05NestedCreate) \cup C05Logs \cup C05Failed \cup C05Destroy \cup C02Plain \cup C02PcValue \cup Warm(C02Plain \cup C05Destroy \cup C02PcValue)
          \cup UNION {{[setup |-> Setup("a1", w, GrantsFor(m, x.c), Z), top |-> x.t] : w \in {"self", "W"}, x \in C05Reentrant(m) \cup C05Create(m)} :
                       m \in {"delegate", "setWithdrawAddress", "withdrawRewards", "approve", "query"}}
          \cup UNION {{[setup |-> Setup("a1", w, GrantsFor(m, x.c), Z), top |-> x.t] : w \in {"self", "W"}, x \in C05Trees(m)} : m \in RevMethods}

\* ----- C04: identities, grant states, allowance arithmetic --------------------------------
C04Matrix == UNION {
    {[setup |-> Setup(IF m = "withdrawCommission" THEN "v1" ELSE "a1", "self", g, Z),
      top |-> CallC(0, "catch", Z, <<Pc(1, "catch", m, who, a), Store(2)>>)] :
         who \in Whos, g \in GrantKinds(m), a \in {Amt}} : m \in Methods}
    \cup {[setup |-> Setup(IF m = "withdrawCommission" THEN "v1" ELSE "a1", "self", NoGrant, Z), top |-> Pc(0, "catch", m, who, Amt)] :
            m \in Methods, who \in {"S", "T", "W"}}
AllowOps == {<<"ibcTransfer", Amt>>, <<"approve", "3000000">>, <<"approve", Z>>, <<"increaseAllowance", "1000000">>, <<"decreaseAllowance", "1000000">>,
             <<"decreaseAllowance", "9000000">>, <<"revoke", Z>>, <<"delegate", Amt>>, <<"delegate", "2500000">>, <<"undelegate", Amt>>}
AllowOp(id, x) == IF x[1] \in {"delegate", "undelegate", "ibcTransfer"} THEN Pc(id, "catch", x[1], "S", x[2]) ELSE PcG(id, "catch", x[1], "C0", x[2])
C04Sequences ==
    {[setup |-> Setup("a1", "self", g, Z),
      top |-> CallC(0, "catch", Z, <<AllowOp(1, a), AllowOp(2, b), AllowOp(3, c), Store(4)>>)] :
         a \in AllowOps, b \in AllowOps, c \in AllowOps,
         g \in {NoGrant, <<Grant("delegate", "2000000", FALSE, 0)>>, <<Grant("delegate", "2000000", FALSE, 0), Grant("ibc", "1500000", FALSE, 0)>>}}

\* allowance changes over both message types when the two grants differ in kind (unlimited / limited / absent)
MixOps == {<<"decreaseAllowance", "1000000">>, <<"increaseAllowance", "1000000">>, <<"revoke", Z>>, <<"approve", "3000000">>,
           <<"undelegate", "1500000">>, <<"undelegate", Amt>>, <<"delegate", "2500000">>}
C04Mixed ==
    {[setup |-> Setup("a1", "self", g, Z),
      top |-> CallC(0, "catch", Z, <<AllowOp(1, a), AllowOp(2, b), AllowOp(3, c), Store(4)>>)] :
         a \in MixOps, b \in MixOps, c \in MixOps,
         g \in {<<Grant("delegate", "", FALSE, 0), Grant("undelegate", "2000000", FALSE, 0)>>,
                <<Grant("delegate", "2000000", FALSE, 0), Grant("undelegate", "", FALSE, 0)>>,
                <<Grant("delegate", "2000000", FALSE, 0), Grant("undelegate", "2000000", FALSE, 0)>>}}

\* an allowance granted (or increased) inside a frame that is then reverted must not be spendable
C04Reverted ==
    {[setup |-> Setup("a1", "self", NoGrant, Z),
      top |-> CallC(0, "catch", Z, <<CallC(1, "catch", v, <<PcG(2, "catch", "approve", "C0", "1000000"), t>>), Pc(4, "catch", sp, "S", "400000"), Store(5)>>)] :
         sp \in {"delegate", "undelegate"}, t \in {Rev(3), Inval(3)}, v \in {Z, "400"}}
    \cup {[setup |-> Setup("a1", "self", <<Grant("delegate", "2000000", FALSE, 0), Grant("undelegate", "2000000", FALSE, 0)>>, Z),
           top |-> CallC(0, "catch", Z, <<CallC(1, "catch", Z, <<PcG(2, "catch", "increaseAllowance", "C0", "1000000"), Rev(3)>>),
                                          Pc(4, "catch", sp, "S", "2500000"), Store(5)>>)] : sp \in {"delegate", "undelegate"}}

\* ICS-20 allowance arithmetic over one or two allocations of the signer's transfer authorization
IbcOps == {<<"ibcTransfer", Amt, 0>>, <<"ibcTransfer", "2000000", 0>>, <<"ibcIncrease", "1000000", 0>>, <<"ibcIncrease", "1000000", 1>>,
           <<"ibcDecrease", "500000", 0>>, <<"ibcDecrease", "1000000", 1>>, <<"ibcApprove", "3000000", 0>>, <<"ibcRevoke", Z, 0>>}
IbcOp(id, x) == IF x[1] = "ibcTransfer" THEN Pc(id, "catch", x[1], "S", x[2]) ELSE [PcG(id, "catch", x[1], "C0", x[2]) EXCEPT !.val = x[3]]
C04Ibc ==
    {[setup |-> Setup("a1", "self", g, Z),
      top |-> CallC(0, "catch", Z, <<IbcOp(1, a), IbcOp(2, b), IbcOp(3, c), Store(4)>>)] :
         a \in IbcOps, b \in IbcOps, c \in IbcOps,
         g \in {NoGrant, <<Grant("ibc", "1500000", FALSE, 0)>>, <<Grant2("1500000", "1000000")>>, <<Grant2("", "1000000")>>}}

Scenarios == CASE Family = "C02" -> C02Direct \cup C02ViaContract \cup C02Dirty \cup C02Nested \cup C02Forward \cup C02Plain \cup C02Own \cup C02Create
                                    \cup C02PcValue \cup C05Destroy \cup Warm(C02Plain \cup C02PcValue \cup C02Forward)
                                    \cup {x \in C05NestedCreate \cup Warm(C05NestedCreate) : ~HasPcOp(x.top)} \cup C02Fresh \cup C05NewCall \cup Bare(C05NewCall)
               [] Family = "C05" -> C05All
               [] Family = "C04" -> C04Matrix \cup C04Sequences \cup C04Reverted \cup C04Ibc \cup C04WdContract \cup C04Mixed
               [] Family = "C04small" -> C04Matrix \cup C04Reverted

---------------------------------------------------------------------------
(* abstract pre-state of a scenario, for the model-level check *)
RECURSIVE Contracts(_)
ContractsOp(o) == IF HasBody(o) THEN {ContractOf(o)} \cup Contracts(o.body) \cup Contracts(o.alt) ELSE {}
Contracts(body) == IF body = <<>> THEN {} ELSE ContractsOp(body[1]) \cup Contracts(Tail(body))
RECURSIVE Slots(_, _)
SlotsOp(self, o) == (IF o.op \in {"pc", "call", "recall", "sstore", "create", "ncall"} THEN {<<self, "s" \o ToString(o.id)>>} ELSE {})
                    \cup (IF HasBody(o) THEN Slots(ContractOf(o), o.body) \cup Slots(ContractOf(o), o.alt) ELSE {})
Slots(self, body) == IF body = <<>> THEN {} ELSE SlotsOp(self, body[1]) \cup Slots(self, Tail(body))

AbstractPre(x) ==
    LET cs == ContractsOp(x.top)
        as == {"S", "T", "W"} \cup cs \cup (IF x.setup.fresh THEN {"F"} ELSE {})
        vs == {"V1", "V2", "V3"}
        sl == IF HasBody(x.top) THEN Slots("S", <<x.top>>) ELSE {}
        own(a, v) == a = "C0" /\ v = "V1" /\ x.setup.delegC # "0"
        \* the set-up grant that decides grant type t: the ICS-20 fields all come from the "ibc" grant
        hitOf(g, e, t) == {i \in 1..Len(x.setup.grants) : g = "S" /\ x.setup.grants[i].grantee = e
                                                            /\ x.setup.grants[i].type = (IF t \in {"ibc1", "ibcx"} THEN "ibc" ELSE t)}
        gr(g, e, t) == LET hit == hitOf(g, e, t) IN
                       IF hit = {} THEN "none" ELSE LET h == x.setup.grants[CHOOSE i \in hit : TRUE] IN
                       IF h.expired THEN "expired"
                       ELSE IF t = "ibcx" THEN "yes"
                       ELSE IF t = "ibc1" THEN (IF h.alloc2 = "" THEN "none" ELSE h.alloc2)
                       ELSE IF t = "ibc" /\ h.val # 0 THEN "none"
                       ELSE IF h.limit = "" THEN "unl" ELSE h.limit
        gv(g, e, t) == LET hit == hitOf(g, e, t) IN
                       IF hit = {} \/ t \in {"ibc1", "ibcx"} THEN <<>>
                       ELSE LET h == x.setup.grants[CHOOSE i \in hit : TRUE] IN
                            IF t = "ibc" THEN <<IF h.val = 0 THEN "channel-0" ELSE "channel-" \o ToString(5 + h.val)>>
                                              \o (IF h.alloc2 = "" THEN <<>> ELSE <<"channel-1">>)
                            ELSE <<ValName(h.val)>>
        bare(a) == a = "F" \/ (x.setup.noNFund /\ SubSeq(a, 1, 1) = "N")
    IN [ bank |-> [a \in as |-> IF bare(a) THEN "0" ELSE IF a \in cs THEN "5000000000" ELSE "900000000000"],
         mods |-> [m \in {"bonded", "notbonded", "distr", "feecollector", "evm", "escrow"} |-> "70000000000"],
         supply |-> "100000000000000",
         deleg |-> [a \in as |-> [v \in vs |-> IF (a \in {"S", "T"} /\ v = "V1") \/ own(a, v) THEN "50000000" ELSE Z]],
         ubd |-> [a \in as |-> [v \in vs |-> IF a = "S" /\ v = "V1" THEN "5000000" ELSE Z]],
         rewards |-> [a \in as |-> [v \in vs |-> IF (a \in {"S", "T"} /\ v = "V1") \/ own(a, v) THEN "7777" ELSE Z]],
         wd |-> [a \in as |-> IF a \in DOMAIN x.setup.wd /\ x.setup.wd[a] # "self" THEN x.setup.wd[a] ELSE a],
         exists |-> [a \in as |-> ~bare(a)],
         grants |-> [g \in as |-> [e \in as \ {g} |-> [t \in StakeTypes |-> gr(g, e, t)]]],
         grantVals |-> [g \in as |-> [e \in as \ {g} |-> [t \in StakeTypes |-> gv(g, e, t)]]],
         grantExp |-> [g \in as |-> [e \in as \ {g} |-> [t \in StakeTypes |-> "-"]]],
         storage |-> IF cs = {} THEN [c \in {"_"} |-> [k \in {"_"} |-> 0]]
                     ELSE [c \in cs |-> [k \in {p[2] : p \in {q \in sl : q[1] = c}} |-> 0]],
         nonce |-> [a \in as |-> IF a \in cs THEN "0" ELSE "3"],
         code |-> [a \in as |-> IF a \in cs /\ SubSeq(a, 1, 1) # "N" THEN "yes" ELSE "no"],
         logs |-> <<>>,
         commission |-> [v \in vs |-> "555"] ]

ModelRun(x) ==
    LET pre == AbstractPre(x)
        e0 == [top |-> x.top, pre |-> pre, operOf |-> IF x.setup.signer = "v1" THEN [S |-> "V1"] ELSE [none |-> "-"],
               res |-> [code |-> 0, failed |-> FALSE, fee |-> "10", feeMax |-> "20"], scn |-> 0]
        g == "S"
        r == MOp(MStart(pre, "20"), g, x.top, g, e0.operOf, x.top)
        post == MTx(e0)
        e == [e0 EXCEPT !.res.failed = ~r.ok] @@ [post |-> post]
    IN e

None == [tag |-> "none"]
Init == sc = None
Next == /\ sc = None
        /\ \E x \in Scenarios :
             /\ sc' = [tag |-> "scenario", x |-> x]
             /\ PrintT(<<"SCRIPT", ToJson(x)>>)
Spec == Init /\ [][Next]_vars

ModelDiff(x) == LET e == ModelRun(x) IN DiffFields([f \in DOMAIN e.post \ {"grantVals", "grantExp", "exists"} |-> e.post[f]],
                                                    [f \in DOMAIN e.post \ {"grantVals", "grantExp", "exists"} |-> Ideal(e).st[f]])
\* the model satisfies P in every scenario (holds for the intended design, Defects = {})
Strict == sc = None \/ ModelDiff(sc.x) = {}
\* with the known defects, P can fail only where a precompile call is involved
Explained == sc = None \/ ModelDiff(sc.x) = {} \/ HasPcOp(sc.x.top)
=============================================================================
