SPECIFICATION Spec
CONSTANTS
  Tier = "quick"
  EnvDefects = {}
INVARIANT Inv_Membership
INVARIANT Inv_CostMinusFee
INVARIANT Inv_EffectiveBounded
INVARIANT Inv_NonDynamic
INVARIANT Inv_EffectiveByClass
INVARIANT Inv_EffectiveTip
INVARIANT Inv_Validate
INVARIANT Inv_ChainId
INVARIANT Inv_RecordedHashOfAccepted
CHECK_DEADLOCK FALSE
