SPECIFICATION SimSpec
CONSTANTS
  BaseMax = 0
  GMax = 0
  MaxGases = {}
  ElasticityMax = 0
  DenominatorMax = 0
  MinGasPrices = {}
  InitBases = {"0", "1", "7", "20", "30"}
  InitMaxGases = {"-1", "8", "12", "24"}
  ParamSets <- MC_ParamSets_quick
  Gases = {"0", "1", "4", "6", "12", "24", "30"}
  Useds = {"0", "1", "3", "5", "12", "24"}
  SetMaxGases = {"-1", "8", "12", "24"}
  SetBases = {"0", "1", "30"}
  MaxAnte = 3
  MaxBlocks = 100
  MaxSets = 4
  MaxBounds = 0
  MaxLen = 32
  Defects = {}
CHECK_DEADLOCK FALSE
