SPECIFICATION SimManySpec
CONSTANTS
  InitAccts <- MC_AcctsM
  MinLiq = "1"
  Amts = {"1","2","3"}
  MaxT = 39
  TStep = 2
  MaxLen = 32
  NTok = 12
  SplitMaxP = 0
  SplitMaxAmt = 0
  Defects = {"aggregate_lock_pairs_grants"}
CHECK_DEADLOCK FALSE
