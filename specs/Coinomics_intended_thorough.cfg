SPECIFICATION Spec
CONSTANTS
  Starts = {"1703980800000", "1735603200000"}
  Dts = {"0", "1", "6000", "15768000000", "15811200000"}
  Bondeds = {"0", "3", "5", "10000001000000000000000000"}
  Coeffs = {"50000000000000000000", "100000000000000000000"}
  MaxDists = {"-1", "0", "1", "2", "3", "1000000000000000000000000000000000000000000"}
  MaxAbs = {"0", "1"}
  MaxDenoms = {"aISLM", "aislm"}
  ExtDeltas = {"1", "-1"}
  InitSupply = "20000000000000000000000000000"
  MaxLen = 6
  Defects = {}
INVARIANT MInv_P
PROPERTY MStep_P
VIEW View
CHECK_DEADLOCK FALSE
