SPECIFICATION TraceSpec
CONSTANTS
  Denoms = {}
  BondDenom = "aISLM"
  Lens = {}
  Amts = {}
  MaxLockN = 0
  MaxVestN = 0
  Extras = {}
  Fees = {}
  MaxNow = 0
  Dts = {}
  UnbondTime = 60
  MinLiq = "1000000000000000000000"
  MaxLen = 0
  Grants = {}
  Codes = {}
  KindsX <- MC_FewKinds
  Defects = {}
INVARIANT Report
CHECK_DEADLOCK FALSE
