-------------------------- MODULE BurnRedirectTrace --------------------------
(* Validates traces recorded by harness/burnredirect.go from the real application (full     *)
(* ABCI blocks: BeginBlock with absent votes and duplicate-vote evidence fed to the real     *)
(* slashing / evidence modules, real gov and staking transactions, gov EndBlock) against     *)
(* the property layer P of BurnRedirect (verdict) and against the as-built machine M         *)
(* (diagnostic).  Deterministic and total: every line is consumed, the model                 *)
(* re-synchronises on the logged state, violations are accumulated as signatures.            *)
EXTENDS BurnRedirect

VARIABLES l, viol, div, nscn, par, cnt
tvars == <<st, hist, ops, l, viol, div, nscn, par, cnt>>

Trace == ndJsonDeserialize("trace.ndjson")

Sig(kind, class, e) == [prop |-> "C14", kind |-> kind, class |-> class, scn |-> e.scn, line |-> l]

\* sdk.Dec values are logged as truncated integer and 18-digit fraction
Dec(c) == BigAdd(BigMul(c.t, E18), c.f)
Norm(p) == [p EXCEPT !.community   = [d \in DOMAIN @ |-> Dec(@[d])],
                     !.outstanding = [d \in DOMAIN @ |-> Dec(@[d])]]

ParOf(e) == [fd |-> <<e.par.fracDouble, E18>>, ft |-> <<e.par.fracDowntime, E18>>, pr |-> e.par.powerReduction,
             bond |-> e.par.bondDenom, burnVeto |-> e.par.burnVeto, burnPrevote |-> e.par.burnPrevote,
             burnQuorum |-> e.par.burnQuorum]

\* M, diagnostic: the slashes of a BeginBlock as staking's Slash would perform them on the
\* logged pre-state, compared with what the staking records lost
InfractionHeight(e, sl) ==
    IF sl.kind = "downtime" THEN e.args.h - 2
    ELSE LET evs == {i \in DOMAIN e.args.evidence : e.args.evidence[i].val = sl.val} IN
         IF evs = {} THEN e.args.h - 1 ELSE e.args.evidence[CHOOSE i \in evs : TRUE].h - 1
MSlashes(e, s) ==
    LET n == Len(e.rep.slashes)
        F[i \in 0..n] == IF i = 0 THEN s
                         ELSE MSlashOne(par, F[i-1], e.rep.slashes[i].kind, e.rep.slashes[i].val,
                                        e.rep.slashes[i].power, InfractionHeight(e, e.rep.slashes[i]))
    IN F[n]
MDiv(e, s, t) ==
    CASE e.ev = "begin" /\ Len(e.rep.slashes) > 0 ->
           LET xm  == BigSub(StakeRec(s), StakeRec(MSlashes(e, s)))
               x   == BigSub(StakeRec(s), StakeRec(t))
               tol == BigOfInt(2 * (Len(s.redE) + Len(s.ubdE)) + 2) IN
           IF BigLE(BigAbs(BigSub(x, xm)), tol) THEN {}
           ELSE {[ev |-> "begin", class |-> StepClass(e), scn |-> e.scn, line |-> l, what |-> "slash-amount"]}
      [] e.ev = "end" ->
           {[ev |-> "end", class |-> e.rep.ended[i].outcome, scn |-> e.scn, line |-> l, what |-> "burn-decision"] :
              i \in {j \in DOMAIN e.rep.ended :
                       e.rep.ended[j].burn # (CASE e.rep.ended[j].outcome = "veto"     -> par.burnVeto
                                                [] e.rep.ended[j].outcome = "expired"  -> par.burnPrevote
                                                [] e.rep.ended[j].outcome = "noquorum" -> par.burnQuorum
                                                [] OTHER -> FALSE)}}
      [] OTHER -> {}

TraceInit ==
    /\ l = 1 /\ viol = {} /\ div = {} /\ nscn = 0 /\ par = <<>>
    /\ cnt = [k \in {"slash", "deposit-burn", "control-burn", "begin-block", "end-block", "tx"} |-> 0]
    /\ st = <<>> /\ hist = <<>> /\ ops = <<>>

TraceNext ==
    /\ l <= Len(Trace)
    /\ LET e == Trace[l]
           post == Norm(e.post) IN
       /\ l' = l + 1
       /\ st' = post
       /\ UNCHANGED <<hist, ops>>
       /\ CASE e.ev = "reset" ->
                 /\ nscn' = nscn + 1
                 /\ par' = ParOf(e)
                 /\ viol' = viol \cup {Sig("init:" \o n, "-", e) : n \in BrokenInvariants(post)}
                 /\ UNCHANGED <<div, cnt>>
            [] e.ev = "skip" ->
                 UNCHANGED <<nscn, par, viol, div, cnt>>
            [] OTHER ->
                 /\ UNCHANGED <<nscn, par>>
                 /\ cnt' = [cnt EXCEPT ![StepKind(e)] = @ + 1]
                 /\ viol' = viol
                      \cup {Sig(StepKind(e) \o ":" \o c, StepClass(e), e) : c \in StepBroken(e, st, post)}
                      \cup {Sig(n, StepClass(e), e) : n \in BrokenInvariants(post) \ BrokenInvariants(st)}
                 /\ div' = div \cup MDiv(e, st, post)

TraceSpec == TraceInit /\ [][TraceNext]_tvars

Report == l <= Len(Trace) \/
          PrintT(<<"RESULT", ToJson([consumed |-> l - 1, scenarios |-> nscn, viol |-> viol, div |-> div, checked |-> cnt])>>)
=============================================================================
