-------------------------- MODULE BurnRedirectTrace --------------------------
(* Validates traces recorded by harness/burnredirect.go from the real application (full     *)
(* ABCI blocks: BeginBlock with absent votes and duplicate-vote evidence fed to the real     *)
(* slashing / evidence modules, real gov and staking transactions, gov EndBlock) against     *)
(* the property layer P of BurnRedirect (verdict) and against the as-built machine M         *)
(* (diagnostic).  Deterministic and total: every line is consumed, the model                 *)
(* re-synchronises on the logged state, violations are accumulated as signatures.            *)
(* The configuration of the chain (post.env, read from the parameter stores after every      *)
(* call) changes during the histories through passed proposals; P does not read it, M takes  *)
(* the slash fractions and the gov burn switches in force before the call from it, and the   *)
(* checked slashes / deposit burns are counted per configuration class (cnt, "kind/class"),   *)
(* which includes the network the chain runs as (env.net, from the chain id of the block      *)
(* context) and whether its history started above height 1 (env.h0).                          *)
EXTENDS BurnRedirect

VARIABLES l, viol, div, nscn, par, cnt
tvars == <<st, hist, ops, l, viol, div, nscn, par, cnt>>

Trace == ndJsonDeserialize("trace.ndjson")

\* under: the configuration classes in force before the failing call (diagnostic, not part of the signature)
Sig(kind, class, e, under) == [prop |-> "C14", kind |-> kind, class |-> class, scn |-> e.scn, line |-> l, under |-> under]

\* sdk.Dec values are logged as truncated integer and 18-digit fraction
Dec(c) == BigAdd(BigMul(c.t, E18), c.f)
Norm(p) == [p EXCEPT !.community   = [d \in DOMAIN @ |-> Dec(@[d])],
                     !.outstanding = [d \in DOMAIN @ |-> Dec(@[d])]]

\* the staking / slashing parameters in force after a line (= before the next call)
ParOf(env) == [fd |-> <<env.fracDouble, E18>>, ft |-> <<env.fracDowntime, E18>>, pr |-> env.powerReduction,
               bond |-> env.bondDenom]

EnvClassNames == {"sendOff", "tax0", "tax1", "erc20Off", "nonDepositDenom", "lateStart"} \cup {"net:" \o n : n \in NetNames}
NetTags(cs) == Tag(cs, "net:testedge1") \o Tag(cs, "net:testedge2") \o Tag(cs, "net:local") \o Tag(cs, "net:other") \o Tag(cs, "lateStart")
Under(e, s, t) ==
    LET cs == EnvClasses(s.env, LAMBDA d : IF IsControl(e) THEN e.args.burn[d] ELSE Destroyed(e, s, t, d), D(s)) IN
    IF cs = {"net:main"} THEN "default"
    ELSE Tag(cs, "sendOff") \o Tag(cs, "tax0") \o Tag(cs, "tax1") \o Tag(cs, "erc20Off") \o Tag(cs, "nonDepositDenom") \o NetTags(cs)
CovKeys(e, s, t) ==
    (IF StepKind(e) \in {"slash", "deposit-burn"}
     THEN {StepKind(e) \o "/" \o c : c \in EnvClasses(s.env, LAMBDA d : Destroyed(e, s, t, d), D(s))} ELSE {})
    \cup (IF s.env # t.env THEN {"paramchange"} ELSE {})

\* M, diagnostic: the slashes of a BeginBlock as staking's Slash would perform them on the
\* logged pre-state, compared with what the staking records lost
InfractionHeight(e, sl) ==
    IF sl.kind = "downtime" THEN e.args.h - 2
    ELSE LET evs == {i \in DOMAIN e.args.evidence : e.args.evidence[i].val = sl.val} IN
         IF evs = {} THEN e.args.h - 1 ELSE e.args.evidence[CHOOSE i \in evs : TRUE].h - 1
MSlashes(e, s) ==
    LET n == Len(e.rep.slashes)
        F[i \in 0..n] == IF i = 0 THEN s
                         ELSE MSlashOne(par, F[i-1], e.rep.slashes[i].kind, e.rep.slashes[i].val,
                                        e.rep.slashes[i].power, InfractionHeight(e, e.rep.slashes[i]))
    IN F[n]
MDiv(e, s, t) ==
    CASE e.ev = "begin" /\ Len(e.rep.slashes) > 0 ->
           LET xm  == BigSub(StakeRec(s), StakeRec(MSlashes(e, s)))
               x   == BigSub(StakeRec(s), StakeRec(t))
               tol == BigOfInt(2 * (Len(s.redE) + Len(s.ubdE)) + 2) IN
           IF BigLE(BigAbs(BigSub(x, xm)), tol) THEN {}
           ELSE {[ev |-> "begin", class |-> StepClass(e), scn |-> e.scn, line |-> l, what |-> "slash-amount"]}
      [] e.ev = "end" ->
           {[ev |-> "end", class |-> e.rep.ended[i].outcome, scn |-> e.scn, line |-> l, what |-> "burn-decision"] :
              i \in {j \in DOMAIN e.rep.ended :
                       e.rep.ended[j].burn # (CASE e.rep.ended[j].outcome = "veto"     -> s.env.burnVeto
                                                [] e.rep.ended[j].outcome = "expired"  -> s.env.burnPrevote
                                                [] e.rep.ended[j].outcome = "noquorum" -> s.env.burnQuorum
                                                [] OTHER -> FALSE)}}
      [] OTHER -> {}

TraceInit ==
    /\ l = 1 /\ viol = {} /\ div = {} /\ nscn = 0 /\ par = <<>>
    /\ cnt = [k \in {"slash", "deposit-burn", "control-burn", "begin-block", "end-block", "tx", "paramchange"}
                      \cup {k \o "/" \o c : k \in {"slash", "deposit-burn"}, c \in EnvClassNames} |-> 0]
    /\ st = <<>> /\ hist = <<>> /\ ops = <<>>

TraceNext ==
    /\ l <= Len(Trace)
    /\ LET e == Trace[l]
           post == Norm(e.post) IN
       /\ l' = l + 1
       /\ st' = post
       /\ UNCHANGED <<hist, ops>>
       /\ CASE e.ev = "reset" ->
                 /\ nscn' = nscn + 1
                 /\ par' = ParOf(post.env)
                 /\ viol' = viol \cup {Sig("init:" \o n, "-", e, "-") : n \in BrokenInvariants(post)}
                 /\ UNCHANGED <<div, cnt>>
            [] e.ev = "skip" ->
                 UNCHANGED <<nscn, par, viol, div, cnt>>
            [] OTHER ->
                 /\ UNCHANGED nscn
                 /\ par' = ParOf(post.env)
                 /\ cnt' = [k \in DOMAIN cnt |-> cnt[k] + (IF k = StepKind(e) THEN 1 ELSE 0)
                                                        + (IF k \in CovKeys(e, st, post) THEN 1 ELSE 0)]
                 /\ viol' = viol
                      \cup {Sig(StepKind(e) \o ":" \o c, StepClass(e), e, Under(e, st, post)) : c \in StepBroken(e, st, post)}
                      \cup {Sig(n, StepClass(e), e, Under(e, st, post)) : n \in BrokenInvariants(post) \ BrokenInvariants(st)}
                 /\ div' = div \cup MDiv(e, st, post)

TraceSpec == TraceInit /\ [][TraceNext]_tvars

Report == l <= Len(Trace) \/
          PrintT(<<"RESULT", ToJson([consumed |-> l - 1, scenarios |-> nscn, viol |-> viol, div |-> div, checked |-> cnt])>>)
=============================================================================
