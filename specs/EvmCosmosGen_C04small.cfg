SPECIFICATION Spec
CONSTANTS
  Defects = {}
  Family = "C04small"
INVARIANT Strict
CHECK_DEADLOCK FALSE
