SPECIFICATION SimSpec
CONSTANTS
  InitAccts <- MC_AcctsU
  MinLiq = "1"
  Amts = {"1","2","3","5"}
  MaxT = 12
  TStep = 3
  MaxLen = 8
  SplitMaxP = 0
  SplitMaxAmt = 0
  Defects = {"aggregate_lock_pairs_grants"}
CHECK_DEADLOCK FALSE
