------------------------------ MODULE Coinomics ------------------------------
(***************************************************************************)
(* Per-block inflation of haqq (x/coinomics): EndBlocker -> MintAndAllocate *)
(*                                                                         *)
(* Property layer P (C13), written from the property statement only:       *)
(*   EndBlockBroken(s, t, g, ts)  the set of clauses of the statement that *)
(*       the observed step  s --EndBlock(ts)--> t  breaks (empty = allowed)*)
(*   StepOK(e, s, t, g)                                                    *)
(*   BlockBroken(pre, t, g, gov, ts)  the same for a whole block of the    *)
(*       chain: which values the mint of a block is computed from when the *)
(*       rest of the block (transactions, the other modules' begin and end *)
(*       blockers) changes them - see "P: a block of the chain"            *)
(* As-built machine M: MResult / Init / Next, structured like              *)
(*   x/coinomics/keeper/{abci,inflation}.go, operation by operation in the *)
(*   SDK's 18-decimal arithmetic (module Dec18).  The known deviation of   *)
(*   the code from P is the named member "stale_prevts" of Defects.        *)
(*   MBlockEnd is the application's EndBlock as app.go wires it: the end   *)
(*   blockers of gov, staking and coinomics in that order.  The members    *)
(*   "mint_before_gov" / "mint_before_staking" of Defects are hypothetical *)
(*   wirings (coinomics earlier in SetOrderEndBlockers); they exist only   *)
(*   so that the witness configurations can show that P tells the orders   *)
(*   apart.  Module CoinomicsBlock builds whole blocks on top of this.     *)
(*                                                                         *)
(* State record s (everything the statement talks about, all read from the *)
(* real stores by harness/coinomics.go):                                   *)
(*   enabled : BOOLEAN   params.EnableCoinomics                            *)
(*   coeff   : decimal   params.RewardCoefficient, in percent (Dec18       *)
(*                       mantissa, "7800000000000000000" = 7.8 %)          *)
(*   max     : integer   MaxSupply, the amount                             *)
(*   maxDenom: string    MaxSupply, the denomination label it is stored    *)
(*                       with (MaxSupply is a coin; genesis validation and *)
(*                       the keeper accept any label).  The statement      *)
(*                       knows one coin - the native one, whose supply the *)
(*                       maximum bounds - so no clause of P reads the      *)
(*                       label: whatever it says, `max` bounds `supply`    *)
(*   prevTs  : integer   PrevBlockTS (ms); only M and the labels of        *)
(*                       violations use it, never a clause of P            *)
(*   supply  : integer   bank supply of the native coin (params.MintDenom, *)
(*                       aISLM in every scenario)                          *)
(*   bonded  : integer   staking TotalBondedTokens (bonded pool balance)   *)
(*   fee     : integer   balance of the fee collector                      *)
(* Integers are decimal strings (BigNum); timestamps are Unix milliseconds.*)
(*                                                                         *)
(* Ghost record g (history the statement refers to, maintained from the    *)
(* observed events, not from the code's variables):                        *)
(*   lastTs : timestamp of the previous block ("0": none yet)              *)
(*   mode   : "fresh"      the previous block ran with minting off (or     *)
(*                         there is none): the next enabled block is "the  *)
(*                         first block after activation"                   *)
(*            "live"       minting was on when the previous block ended    *)
(*                         and has stayed on: elapsed = ts - lastTs        *)
(*            "ambiguous"  minting was switched off after the previous     *)
(*                         block started minting (by that block at the cap *)
(*                         or by a parameter change) - if it is switched   *)
(*                         on again before the next block the statement    *)
(*                         allows both readings (mint nothing / mint for   *)
(*                         ts - lastTs)                                    *)
(*   minted, fee0 : coins minted by coinomics so far / fee collector at    *)
(*                  the start                                              *)
(***************************************************************************)
EXTENDS Integers, Sequences, FiniteSets, TLC, Json, BigNum, Dec18

CONSTANTS
    Starts,      \* timestamps (ms) the first block may have
    Dts,         \* block-time differences (ms)
    Bondeds,     \* bonded amounts
    Coeffs,      \* reward coefficients (percent, Dec18 mantissa)
    MaxDists,    \* distances max - supply the cap is placed at (may be <= 0)
    MaxAbs,      \* absolute values the cap is configured to, whatever the supply is (zero, one, ...)
    MaxDenoms,   \* denomination labels MaxSupply is stored with
    ExtDeltas,   \* supply changes by other modules between blocks
    InitSupply,  \* bank supply before the scenario's set-up
    MaxLen,      \* bound on the length of a behaviour
    Defects      \* subset of {"stale_prevts", "mint_before_gov", "mint_before_staking"}

---------------------------------------------------------------------------
(* Calendar: the year length follows the calendar year (UTC) of the block *)

DayMs       == "86400000"
Year365Ms   == "31536000000"
Year366Ms   == "31622400000"

DaysOf(ts)  == BigToInt(BigFloorDiv(ts, DayMs))            \* whole days since 1970-01-01
IsLeap(y)   == (y % 4 = 0 /\ y % 100 # 0) \/ y % 400 = 0
LeapsUpTo(n) == (n \div 4) - (n \div 100) + (n \div 400)   \* leap years among 1..n
DaysBeforeYear(y) == 365 * (y - 1970) + LeapsUpTo(y - 1) - LeapsUpTo(1969)
\* the year y with  DaysBeforeYear(y) <= d < DaysBeforeYear(y+1); every year has 365 or 366 days,
\* hence  d \div 366 <= y - 1970 <= d \div 365
YearOfDays(d) == CHOOSE y \in (1970 + d \div 366)..(1970 + d \div 365) :
                     DaysBeforeYear(y) <= d /\ d < DaysBeforeYear(y + 1)
YearOf(ts)  == YearOfDays(DaysOf(ts))
YearMs(ts)  == IF IsLeap(YearOf(ts)) THEN Year366Ms ELSE Year365Ms

ASSUME YearOf("0") = 1970 /\ YearOf("1703980800000") = 2023          \* 2023-12-31T00:00:00Z
ASSUME YearOf("1704067199999") = 2023 /\ YearOf("1704067200000") = 2024
ASSUME YearOf("1735689599999") = 2024 /\ YearOf("1735689600000") = 2025
ASSUME YearOf("951782400000") = 2000 /\ IsLeap(2000) /\ ~IsLeap(2100) /\ IsLeap(2024) /\ ~IsLeap(2023)
ASSUME YearOf("4107542400000") = 2100 /\ YearOf("4133980800000") = 2101 /\ YearOf("13574563200000") = 2400
ASSUME YearMs("1709294400000") = Year366Ms /\ YearMs("1703980800000") = Year365Ms

---------------------------------------------------------------------------
(* P: the amount.  "bonded x rewardCoefficient% x elapsed / year, evaluated in 18-decimal *)
(* fixed point and rounded to the nearest unit".  With B = bonded, c = coeff/100 (a ratio), *)
(* E = elapsed, Y = year:  X = B c E / Y.  The statement does not fix the association      *)
(* order; any 18-decimal evaluation rounds c, E/Y (and possibly c E/Y) to 10^-18 before     *)
(* they are multiplied by B, which moves the product by up to                              *)
(*        R = B (c + E/Y + 1) 10^-18,                                                       *)
(* intermediate roundings not scaled by B stay below 10^-3 for any elapsed < 10^15 ms, and  *)
(* the final rounding to the nearest unit adds at most 1/2.  So the minted integer m must   *)
(* satisfy  | m - X | <= R + 1/2 + 1/1000  - "m is the nearest integer to some value        *)
(* within the reach of an 18-decimal evaluation".  Everything is multiplied by              *)
(* K = 10^41 Y so that the comparison is exact in integers (C = mantissa of coeff in %,     *)
(* so c = C / 10^20):                                                                      *)
(*        X K = B C E 10^21                                                                 *)
(*        R K = B (C Y + 10^20 E + 10^20 Y) 10^3                                            *)
(*  (1/2 + 1/1000) K = 501 x 10^38 Y                                                        *)

BandK(Y)            == BigMul(BigPow10(41), Y)
BandExactK(B, C, E) == BigMul(BigMul(BigMul(B, C), E), BigPow10(21))
BandTolK(B, C, E, Y) ==
    BigAdd(BigMul(BigMul(B, BigAdd(BigAdd(BigMul(C, Y), BigMul(BigPow10(20), E)), BigMul(BigPow10(20), Y))), "1000"),
           BigMul(BigMul("501", BigPow10(38)), Y))
CeilDiv(a, b) == BigNeg(BigFloorDiv(BigNeg(a), b))
\* least and greatest admissible mint (a mint is never negative)
BandLo(B, C, E, Y) == BigMax("0", CeilDiv(BigSub(BandExactK(B, C, E), BandTolK(B, C, E, Y)), BandK(Y)))
BandHi(B, C, E, Y) == BigFloorDiv(BigAdd(BandExactK(B, C, E), BandTolK(B, C, E, Y)), BandK(Y))

\* 3 x 50% x 1/2 year = 0.75: only 1 is admissible (0 would be truncation); 3 x 100% x 1/2 = 1.5: 1 or 2
ASSUME BandLo("3", "50000000000000000000", "15768000000", Year365Ms) = "1"
ASSUME BandHi("3", "50000000000000000000", "15768000000", Year365Ms) = "1"
ASSUME BandLo("3", "100000000000000000000", "15768000000", Year365Ms) = "1"
ASSUME BandHi("3", "100000000000000000000", "15768000000", Year365Ms) = "2"
ASSUME BandLo("0", "7800000000000000000", "6000", Year365Ms) = "0" /\ BandHi("0", "7800000000000000000", "6000", Year365Ms) = "0"

---------------------------------------------------------------------------
(* P: one block.  Returns the set of broken clauses. *)

Minted(s, t) == BigSub(t.supply, s.supply)
Room(s)      == BigSub(s.max, s.supply)        \* what may still be minted (negative above the cap)

\* clauses for a block that has to mint for `elapsed` ms
LiveBroken(s, t, ts, elapsed) ==
    LET minted == Minted(s, t)
        room   == Room(s)
        Y      == YearMs(ts)
        lo     == BandLo(s.bonded, s.coeff, elapsed, Y)
        hi     == BandHi(s.bonded, s.coeff, elapsed, Y)
    IN IF BigSign(room) < 0
       THEN (IF BigIsZero(minted) THEN {} ELSE {"minted-above-cap"})           \* nothing at or above the cap
       ELSE IF BigGT(minted, room) THEN {"supply-above-cap"}                   \* never lifts supply above max
       ELSE IF BigEq(minted, room)
            THEN \* the remainder was minted: fine if the remainder itself is an admissible amount;
                 \* if every admissible amount crosses the cap, minting must have been switched off
                 (IF BigGT(room, hi) THEN {"mint-outside-band"}
                  ELSE IF BigLT(room, lo) /\ t.enabled THEN {"cap-not-switched-off"}
                  ELSE {})
            ELSE \* below the cap: the formula amount, and minting stays on
                 (IF BigLE(lo, minted) /\ BigLE(minted, hi) THEN {} ELSE {"mint-outside-band"})
                 \cup (IF t.enabled THEN {} ELSE {"switched-off-without-crossing"})

EndBlockBroken(s, t, g, ts) ==
    LET minted == Minted(s, t)
        live   == LiveBroken(s, t, ts, BigSub(ts, g.lastTs))
    IN  (IF t.coeff = s.coeff /\ t.max = s.max /\ t.bonded = s.bonded THEN {} ELSE {"frame"})
        \cup (IF BigEq(BigSub(t.fee, s.fee), minted) THEN {} ELSE {"fee-collector"})    \* all of it goes to the fee collector
        \cup (IF BigSign(minted) < 0 THEN {"supply-decreased"} ELSE {})
        \cup
        (IF ~s.enabled
         THEN (IF BigIsZero(minted) THEN {} ELSE {"minted-while-disabled"})
              \cup (IF t.enabled THEN {"enabled-by-endblock"} ELSE {})
         ELSE CASE g.mode = "live"  -> live
                [] g.mode = "fresh" ->
                     IF ~BigIsZero(minted) THEN {"first-block-after-activation-minted"}
                     ELSE IF BigSign(Room(s)) > 0 /\ ~t.enabled THEN {"switched-off-without-crossing"}
                     ELSE {}
                [] g.mode = "ambiguous" ->
                     IF BigIsZero(minted) THEN {}
                     ELSE {IF k = "mint-outside-band" THEN "first-block-after-activation-minted" ELSE k : k \in live})

\* the ghost after an event (from the observed pre/post states)
GhostInit(s) == [lastTs |-> "0", mode |-> "fresh", minted |-> "0", fee0 |-> s.fee]
\* (for a "block" event s is BlockInputs(..): the state the block's mint is judged on)
GhostNext(e, s, t, g) ==
    CASE e.ev \in {"endblock", "block"} ->
           [g EXCEPT !.lastTs = e.args.ts,
                     !.mode   = IF ~s.enabled THEN "fresh" ELSE IF t.enabled THEN "live" ELSE "ambiguous",
                     !.minted = BigAdd(@, Minted(s, t))]
      [] e.ev = "set_enabled" ->
           [g EXCEPT !.mode = IF @ = "live" /\ ~e.args.enabled THEN "ambiguous" ELSE @]
      [] OTHER -> g

\* environment steps (parameter changes, staking, other modules' mints and burns): P only fixes
\* what they mean, so that scripts are executable; they are not part of the verdict
EnvPost(s, ev, args) ==
    CASE ev = "set_enabled" -> [s EXCEPT !.enabled = args.enabled]
      [] ev = "set_coeff"   -> [s EXCEPT !.coeff = args.coeff]
      [] ev = "set_bonded"  -> \* raising the bonded pool mints the difference, lowering it moves coins out
                               [s EXCEPT !.bonded = args.bonded,
                                         !.supply = BigAdd(@, BigMax("0", BigSub(args.bonded, s.bonded)))]
      [] ev = "set_max"     -> [s EXCEPT !.max = BigAdd(s.supply, args.dist), !.maxDenom = args.denom]
      [] ev = "set_max_abs" -> [s EXCEPT !.max = args.max, !.maxDenom = args.denom]
      [] ev = "ext_supply"  -> [s EXCEPT !.supply = BigAdd(@, args.delta)]

EnvEvents == {"set_enabled", "set_coeff", "set_bonded", "set_max", "set_max_abs", "ext_supply"}

StepBroken(e, s, t, g) ==
    IF e.ev = "endblock"
    THEN EndBlockBroken(s, t, g, e.args.ts) \cup (IF e.ok THEN {} ELSE {"endblock-panicked"})
    ELSE IF e.ev \in EnvEvents THEN (IF t = EnvPost(s, e.ev, e.args) THEN {} ELSE {"env-step"})
    ELSE {"unknown-event"}
StepOK(e, s, t, g) == StepBroken(e, s, t, g) = {}

\* state invariant: the fee collector received exactly what coinomics minted
Inv_FeeEqMinted(s, g) == BigEq(s.fee, BigAdd(g.fee0, g.minted))

---------------------------------------------------------------------------
(* P: a block of the chain.                                                               *)
(* The statement speaks of "each block with coinomics enabled", "bonded" and               *)
(* "rewardCoefficient" without saying at which instant of the block they are read.  A block *)
(* is BeginBlock, the transactions, EndBlock, and all three move these values: delegations  *)
(* move coins into and out of the bonded pool at once; the staking end blocker moves the    *)
(* whole stake of a validator when it joins or leaves the bonded set (created, out-ranked,  *)
(* jailed for a double signature or downtime in BeginBlock, unjailed); the gov end blocker  *)
(* executes parameter proposals whose voting period ended.  app.go runs the coinomics end   *)
(* blocker after gov's and staking's (SetOrderEndBlockers: crisis, gov, staking, ...,       *)
(* coinomics, ...), and nothing that runs after it touches these values.  P therefore reads *)
(* the statement as:                                                                        *)
(*     the mint of block h is computed from the values block h leaves behind - the bonded   *)
(*     tokens, RewardCoefficient and EnableCoinomics as they are once the transactions and  *)
(*     every other module's end blocker of block h have been applied (the only later write  *)
(*     is coinomics' own switch-off at the cap) -, for the time between the timestamps of   *)
(*     block h-1 and block h.                                                               *)
(* So a validator that leaves the bonded set in block h earns no inflation for block h, one *)
(* that joins does, and a parameter change applies to the block that executes it.           *)
(*                                                                                          *)
(* Observed around the application's EndBlock:                                              *)
(*   pre  state after BeginBlock and the transactions of the block                          *)
(*   t    state after EndBlock (what the block commits)                                     *)
(*   gov  the parameter changes <<[key, val], ...>> the gov end blocker executed in this    *)
(*        block (proposals whose voting period ended now and whose status became PASSED)    *)
(* bonded and coeff are not written by coinomics, so "the values the block leaves behind"   *)
(* are t.bonded and t.coeff; EnableCoinomics is written by coinomics itself at the cap, so  *)
(* its value "as the rest of the block leaves it" is pre.enabled with gov applied.          *)

GovEnabled(b, gov) ==
    LET F[i \in 0..Len(gov)] ==
          IF i = 0 THEN b
          ELSE IF gov[i].key = "enabled" THEN gov[i].val = "true" ELSE F[i - 1]
    IN F[Len(gov)]
GovCoeff(c, gov) ==
    LET F[i \in 0..Len(gov)] ==
          IF i = 0 THEN c
          ELSE IF gov[i].key = "coeff" THEN gov[i].val ELSE F[i - 1]
    IN F[Len(gov)]

\* the state the coinomics clauses of block h are judged on
BlockInputs(pre, t, gov) ==
    [pre EXCEPT !.enabled = GovEnabled(pre.enabled, gov), !.coeff = t.coeff, !.bonded = t.bonded]

BlockBroken(pre, t, g, gov, ts) == EndBlockBroken(BlockInputs(pre, t, gov), t, g, ts)
BlockOK(pre, t, g, gov, ts)     == BlockBroken(pre, t, g, gov, ts) = {}

\* what the rest of the block did to the inputs of the formula (labels of violations only)
BlockClass(pre, t, gov) ==
    "eb-bonded=" \o (IF BigGT(t.bonded, pre.bonded) THEN "up" ELSE IF BigLT(t.bonded, pre.bonded) THEN "down" ELSE "same")
    \o ",gov=" \o (IF \E i \in 1..Len(gov) : gov[i].key = "enabled" THEN
                       (IF GovEnabled(pre.enabled, gov) THEN "enable" ELSE "disable")
                   ELSE IF \E i \in 1..Len(gov) : gov[i].key = "coeff" THEN "coeff"
                   ELSE IF gov # <<>> THEN "other" ELSE "none")

\* labels identifying a violation --------------------------------------------------------
NativeDenom == "aISLM"
CapClass(s, ts, g) ==
    LET room == Room(s) IN
    (IF ~s.enabled THEN "disabled"
     ELSE IF BigSign(room) < 0 THEN "above-cap"
     ELSE IF BigIsZero(room) THEN "at-cap"
     ELSE IF g.lastTs # "0" /\ BigGT(BandHi(s.bonded, s.coeff, BigSub(ts, g.lastTs), YearMs(ts)), room) THEN "crossing"
     ELSE "below-cap")
    \* how the maximum is configured, where that is unusual
    \o (IF BigIsZero(s.max) THEN ",cap=zero" ELSE "")
    \o (IF s.maxDenom # NativeDenom THEN ",cap-label=other" ELSE "")
\* which elapsed time explains the amount a first block after activation minted
Explains(s, t, ts, elapsed) ==
    LiveBroken(s, t, ts, elapsed) \subseteq {"cap-not-switched-off", "switched-off-without-crossing"}
\* (the stored PrevBlockTS is consulted first: a clamped amount can fit both readings)
ReactClass(s, t, ts, g) ==
    IF s.prevTs # "0" /\ Explains(s, t, ts, BigSub(ts, s.prevTs))
    THEN (IF s.prevTs = g.lastTs THEN "as-if-elapsed-since-previous-block" ELSE "as-if-elapsed-since-stale-prevTs")
    ELSE IF g.lastTs # "0" /\ Explains(s, t, ts, BigSub(ts, g.lastTs)) THEN "as-if-elapsed-since-previous-block"
    ELSE "other"
ClassOf(kind, e, s, t, g) ==
    IF e.ev \notin {"endblock", "block"} THEN "-"
    ELSE IF kind = "first-block-after-activation-minted" THEN ReactClass(s, t, e.args.ts, g)
    ELSE g.mode \o "," \o CapClass(s, e.args.ts, g)

---------------------------------------------------------------------------
(* M: the as-built machine *)

\* inflation.go: totalBonded.Mul(rewardCoefficient).Mul((currentBlockTS.Sub(prevBlockTS)).Quo(yearInMillis))
\* with rewardCoefficient = params.RewardCoefficient.Quo(sdk.NewDec(100)); result is a decimal mantissa
MintAsBuilt(bonded, coeff, elapsed, yearMs) ==
    DecMul(DecMul(DecOfInt(bonded), DecQuo(coeff, DecOfInt("100"))),
           DecQuo(DecOfInt(elapsed), DecOfInt(yearMs)))

\* the repository's own integration test: 10000001 ISLM bonded, 7.8 %, 6 s blocks
ASSUME DecRoundInt(MintAsBuilt("10000001000000000000000000", "7800000000000000000", "6000", Year365Ms)) = "148401841324522648"
ASSUME DecRoundInt(MintAsBuilt("10000001000000000000000000", "7800000000000000000", "6000", Year366Ms)) = "147996371812295701"
ASSUME DecRoundInt(MintAsBuilt("3", "100000000000000000000", "15768000000", Year365Ms)) = "2"   \* 1.5 -> 2
ASSUME DecRoundInt(MintAsBuilt("5", "100000000000000000000", "15768000000", Year365Ms)) = "2"   \* 2.5 -> 2

\* keeper.EndBlocker + MintAndAllocate at block time ts
MEndBlock(s, ts) ==
    IF ~s.enabled
    THEN \* abci.go returns at once.  As built PrevBlockTS keeps its old value; a design that meets
         \* the statement forgets it, so that the block after re-activation only records its time
         (IF "stale_prevts" \in Defects THEN s ELSE [s EXCEPT !.prevTs = "0"])
    ELSE IF BigIsZero(s.prevTs)
    THEN [s EXCEPT !.prevTs = ts]                       \* first block after activation
    ELSE LET bm0  == MintAsBuilt(s.bonded, s.coeff, BigSub(ts, s.prevTs), YearMs(ts))
             over == DecGT(DecAdd(DecOfInt(s.supply), bm0), DecOfInt(s.max))
             bm   == IF over THEN DecSub(DecOfInt(s.max), DecOfInt(s.supply)) ELSE bm0
             s1   == [s EXCEPT !.enabled = ~over]       \* SetParams happens before the sign check
         IN IF DecIsNegative(bm)
            THEN \* "state is corrupted": logged, nothing minted, PrevBlockTS not touched
                 (IF "stale_prevts" \in Defects THEN s1 ELSE [s1 EXCEPT !.prevTs = "0"])
            ELSE LET m == DecRoundInt(bm) IN
                 [s1 EXCEPT !.supply = BigAdd(@, m), !.fee = BigAdd(@, m), !.prevTs = ts]

\* The application's EndBlock at block time ts (module manager, order of app.go): the gov end
\* blocker executes the parameter changes `gov`, the staking end blocker applies the validator
\* set changes of the block (bonded pool becomes ebBonded), then coinomics mints.
MGov(s, gov) == [s EXCEPT !.enabled = GovEnabled(s.enabled, gov), !.coeff = GovCoeff(s.coeff, gov)]
MStaking(s, ebBonded) == [s EXCEPT !.bonded = ebBonded]
MBlockEnd(pre, gov, ebBonded, ts) ==
    CASE "mint_before_gov" \in Defects     -> MStaking(MGov(MEndBlock(pre, ts), gov), ebBonded)
      [] "mint_before_staking" \in Defects -> MStaking(MEndBlock(MGov(pre, gov), ts), ebBonded)
      [] OTHER                             -> MEndBlock(MStaking(MGov(pre, gov), ebBonded), ts)

MResult(s, ev, args) ==
    [ok |-> TRUE, post |-> IF ev = "endblock" THEN MEndBlock(s, args.ts) ELSE EnvPost(s, ev, args)]

VARIABLES st, gh, hist, cfg
vars == <<st, gh, hist, cfg>>

FarCap == "1000000000000000000000000000000000000000000"    \* 10^42: never reached

\* the scenario's set-up (what the harness applies before the first step): the cap is placed
\* either relative to the supply (cfg.dist, cfg.abs = NoAbs) or at an absolute value (cfg.abs)
NoAbs == "-"
SetUp(c) ==
    LET s0 == [enabled |-> TRUE, coeff |-> c.coeff, max |-> "0", maxDenom |-> c.denom, prevTs |-> "0",
               supply |-> InitSupply, bonded |-> "0", fee |-> "0"]
        s1 == EnvPost(s0, "set_bonded", [bonded |-> c.bonded])
        s2 == IF c.abs = NoAbs THEN EnvPost(s1, "set_max", [dist |-> c.dist, denom |-> c.denom])
              ELSE EnvPost(s1, "set_max_abs", [max |-> c.abs, denom |-> c.denom])
    IN [s2 EXCEPT !.enabled = c.enabled]

Init ==
    /\ cfg \in [bonded : Bondeds, coeff : Coeffs, dist : MaxDists, abs : {NoAbs}, denom : MaxDenoms, enabled : BOOLEAN]
               \cup [bonded : Bondeds, coeff : Coeffs, dist : {"0"}, abs : MaxAbs, denom : MaxDenoms, enabled : BOOLEAN]
    /\ st = SetUp(cfg)
    /\ gh = GhostInit(st)
    /\ hist = <<>>

Do(ev, args) ==
    LET r == MResult(st, ev, args)
        e == [ev |-> ev, args |-> args, ok |-> r.ok] IN
    /\ st' = r.post
    /\ hist' = Append(hist, e)
    /\ gh' = GhostNext(e, st, r.post, gh)
    /\ UNCHANGED cfg

NextTimes == IF gh.lastTs = "0" THEN Starts ELSE {BigAdd(gh.lastTs, d) : d \in Dts}

EndBlock(ts)  == Do("endblock", [ts |-> ts])
SetEnabled(b) == Do("set_enabled", [enabled |-> b])
SetCoeff(c)   == Do("set_coeff", [coeff |-> c])
SetBonded(b)  == Do("set_bonded", [bonded |-> b])
SetMax(d, dn) == Do("set_max", [dist |-> d, denom |-> dn])
SetMaxAbs(a, dn) == Do("set_max_abs", [max |-> a, denom |-> dn])
ExtSupply(d)  == Do("ext_supply", [delta |-> d])

\* Environment steps between two blocks commute up to the values they leave behind, so the
\* exhaustive search takes them in one canonical order (each kind at most once per gap, the
\* cap placed last, relative to the final supply); the simulation and the random driver do not
\* have this restriction.
EnvRank(ev) == CASE ev = "set_enabled" -> 1 [] ev = "set_coeff" -> 2 [] ev = "set_bonded" -> 3
                 [] ev = "ext_supply" -> 4 [] ev \in {"set_max", "set_max_abs"} -> 5 [] OTHER -> 0
LastRank == IF hist = <<>> THEN 0 ELSE EnvRank(hist[Len(hist)].ev)

Next ==
    /\ Len(hist) < MaxLen
    /\ \/ \E ts \in NextTimes : EndBlock(ts)
       \/ LastRank < 1 /\ SetEnabled(~st.enabled)
       \/ LastRank < 2 /\ \E c \in Coeffs : c # st.coeff /\ SetCoeff(c)
       \/ LastRank < 3 /\ \E b \in Bondeds : b # st.bonded /\ SetBonded(b)
       \/ LastRank < 4 /\ \E d \in ExtDeltas : ExtSupply(d)
       \/ LastRank < 5 /\ \E d \in MaxDists : SetMax(d, st.maxDenom)     \* (the label changes with SetMaxAbs and the set-up only)
       \/ LastRank < 5 /\ \E a \in MaxAbs, dn \in MaxDenoms : SetMaxAbs(a, dn)

Spec == Init /\ [][Next]_vars

---------------------------------------------------------------------------
(* What the exhaustive configurations check *)

MInv_P  == Inv_FeeEqMinted(st, gh)
MStep_P == [][hist' # hist => StepOK(hist'[Len(hist')], st, st', gh)]_vars

\* as built: P can fail only in the way the named defect fails it - a first block after
\* (re-)activation mints for the time since the stored, stale PrevBlockTS
MStep_Compensated ==
    [][hist' # hist =>
         LET e == hist'[Len(hist')]
             b == StepBroken(e, st, st', gh) IN
         \/ b = {}
         \/ /\ "stale_prevts" \in Defects
            /\ b = {"first-block-after-activation-minted"}
            \* (when every block since the last minting one carried the same timestamp the stale
            \*  PrevBlockTS coincides with the previous block's time and so do the two labels)
            /\ ReactClass(st, st', e.args.ts, gh) \in
                 {"as-if-elapsed-since-stale-prevTs"} \cup
                 (IF st.prevTs = gh.lastTs THEN {"as-if-elapsed-since-previous-block"} ELSE {})]_vars
MStep_Strict == MStep_P

\* non-vacuity probes (each must be VIOLATED by the intended machine: the situation is reachable)
LastIsBlock == hist # <<>> /\ hist[Len(hist)].ev = "endblock"
Probe_NeverCrosses   == ~(LastIsBlock /\ ~st.enabled /\ gh.mode = "ambiguous" /\ BigEq(st.supply, st.max) /\ ~BigIsZero(gh.minted))
Probe_NeverRoundsUp  == ~(LastIsBlock /\ gh.minted = "1" /\ st.bonded = "3" /\ st.coeff = "50000000000000000000")

View == <<st, gh, Len(hist), LastRank>>

---------------------------------------------------------------------------
(* Behaviours as scripts for the harness (-simulate) *)

Emit == Len(hist) = MaxLen /\ PrintT(<<"SCRIPT", ToJson([cfg |-> cfg, steps |-> hist])>>) /\ UNCHANGED vars

\* Random parameters (dummy argument: TLC caches parameterless operators).
\* Equal timestamps only while minting is on: a disabled block carrying the timestamp of the
\* last minting block would make a stale PrevBlockTS indistinguishable from a fresh one.
RandDt(h)   == IF st.enabled THEN RandomElement(Dts) ELSE RandomElement(Dts \ {"0"})
RandNextTs(h) == IF gh.lastTs = "0" THEN RandomElement(Starts) ELSE BigAdd(gh.lastTs, RandDt(h))
\* place the cap relative to what the next block would mint
RandNearCap(h) ==
    LET ts == RandNextTs(h)
        m  == IF gh.lastTs = "0" THEN "0"
              ELSE DecRoundInt(MintAsBuilt(st.bonded, st.coeff, BigSub(ts, gh.lastTs), YearMs(ts)))
    IN BigAdd(m, RandomElement({"-1", "0", "1"}))
\* the label: the native one half of the time
RandDenom(h) == IF RandomElement({0, 1}) = 0 THEN NativeDenom ELSE RandomElement(MaxDenoms)
SimNext ==
    /\ Len(hist) < MaxLen
    /\ \/ EndBlock(RandNextTs(hist))
       \/ EndBlock(RandNextTs(hist))
       \/ EndBlock(RandNextTs(hist))
       \/ EndBlock(RandNextTs(hist))
       \/ EndBlock(RandNextTs(hist))
       \/ EndBlock(RandNextTs(hist))
       \/ SetEnabled(~st.enabled)
       \/ SetCoeff(RandomElement(Coeffs))
       \/ SetBonded(RandomElement(Bondeds))
       \/ SetMax(RandomElement(MaxDists), RandDenom(hist))
       \/ SetMax(RandNearCap(hist), RandDenom(hist))
       \/ SetMaxAbs(RandomElement(MaxAbs), RandDenom(hist))
       \/ ExtSupply(RandomElement(ExtDeltas))
SimSpec == Init /\ [][SimNext \/ Emit]_vars
=============================================================================
