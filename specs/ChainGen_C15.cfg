SPECIFICATION SimSpec
CONSTANTS
  MaxLen = 10
  Restarts = FALSE
  Exports = FALSE
  Locals = FALSE
CHECK_DEADLOCK FALSE
