SPECIFICATION Spec
CONSTANTS
  Defects = {}
  Tier = "thorough"
INVARIANT Strict
CHECK_DEADLOCK FALSE
