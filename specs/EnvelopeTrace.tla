--------------------------- MODULE EnvelopeTrace ---------------------------
(* Validates the cases recorded by harness/envelope.go from the real code path               *)
(*   FromEthereumTx -> ValidateBasic -> BuildTx -> TxEncoder -> TxDecoder -> GetMsgs ->       *)
(*   AsTransaction                                                                            *)
(* against the property layer P of Envelope (verdict: the identities and the derived          *)
(* figures of C18) and against the transcription M of the acceptance rules (diagnostic).      *)
(* Deterministic and total: one line = one case, every line is consumed, violations are       *)
(* accumulated as signatures.  Codec internals are observed (before/after), not modelled.     *)
(*                                                                                            *)
(* A line e carries: cfg.cls (the case TLC chose, or the description of a random case),       *)
(* o (every field of the original signed transaction as go-ethereum reports it), exp (the     *)
(* address of the signing key), base (base fee or "nil"), the outcome of every stage          *)
(* (sign, wrap, vb, build, enc, dec, unwrap: [ok, err]), m / fig (message after wrapping),    *)
(* a (the transaction obtained after the round trip), m2 / fig2 / env (decoded message and    *)
(* envelope), geth (go-ethereum's own figures), and the side paths pb (protobuf Any),         *)
(* rlp (UnmarshalBinary) and json (TxJSONEncoder / TxJSONDecoder); and h, the HAND-BUILT       *)
(* envelope of the case (cfg.cls.rec / from: the spelling of the recorded hash and the From   *)
(* field a sender wrote next to the same signed transaction; h.run = FALSE at the API point): *)
(* what was sent (sent, sentFrom, denotes = the 32 bytes a lenient parser reads from sent),   *)
(* and what the receiving side sees after TxEncoder / TxDecoder / GetMsgs (rec, from, vb,     *)
(* txHash, sender, getSender).                                                                *)
EXTENDS Envelope

VARIABLES l, viol, div, bad, cnt
tvars == <<cs, x, l, viol, div, bad, cnt>>

Trace == ndJsonDeserialize("trace.ndjson")

Sig(kind, class, e) == [prop |-> "C18", kind |-> kind, class |-> class, scn |-> e.scn, line |-> l]

---------------------------------------------------------------------------
(* classes of a failing case, per broken clause *)

KV(c, k) == k \o "=" \o c[k]
ClsOf(c, ks) == "type=" \o c.type \o
                (IF Len(ks) >= 1 THEN "," \o KV(c, ks[1]) ELSE "") \o
                (IF Len(ks) >= 2 THEN "," \o KV(c, ks[2]) ELSE "")

HashCls(c)   == ClsOf(c, <<"access">>)
SenderCls(c) == ClsOf(c, <<"sig", "chain">>)
EnvCls(c)    == ClsOf(c, <<"rec", "from">>)
FigCls(k, c) == CASE k = "fee"  -> ClsOf(c, <<"gas", "price">>)
                  [] k = "cost" -> ClsOf(c, <<"amount", "price">>)
                  [] OTHER      -> ClsOf(c, <<"rel", "base">>)
FigKind(k)   == CASE k = "fee" -> "fee" [] k = "cost" -> "cost" [] k = "effPrice" -> "effective-price"
                  [] k = "effFee" -> "effective-fee" [] k = "effCost" -> "effective-cost"

FieldNames == {"type", "nonce", "gas", "gasPrice", "tipCap", "feeCap", "value", "to", "dataHash", "dataLen",
               "access", "chainId", "v", "r", "s", "protected"}
FieldCls(f, c) ==
    CASE f = "type" -> ClsOf(c, <<>>)
      [] f = "nonce" -> ClsOf(c, <<"nonce">>)
      [] f = "gas" -> ClsOf(c, <<"gas">>)
      [] f \in {"gasPrice", "tipCap", "feeCap"} -> ClsOf(c, <<"price", "rel">>)
      [] f = "value" -> ClsOf(c, <<"amount">>)
      [] f = "to" -> ClsOf(c, <<"to">>)
      [] f \in {"dataHash", "dataLen"} -> ClsOf(c, <<"data">>)
      [] f = "access" -> ClsOf(c, <<"access">>)
      [] OTHER -> ClsOf(c, <<"sig", "chain">>)

---------------------------------------------------------------------------
(* does the logged transaction belong to the case it claims (binding of the instance to TLC's case) *)

Rand(c) == c = "rand"
NotInClass(e) ==
    LET c == e.cfg.cls  o == e.o
        ch == IF Rand(c.chain) THEN o.chainId ELSE ChainVal(c.chain)
        cap == IF IsDyn(c.type) THEN o.feeCap ELSE o.gasPrice IN
    {f \in {"type", "nonce", "gas", "amount", "price", "rel", "data", "access", "to", "sig", "base", "space", "rec", "from"} :
       ~ CASE f = "type"   -> o.type = c.type
           [] f = "nonce"  -> Rand(c.nonce) \/ o.nonce = NonceVal(c.nonce)
           [] f = "gas"    -> Rand(c.gas) \/ o.gas = GasVal(c.gas)
           [] f = "amount" -> Rand(c.amount) \/ o.value = PointVal(c.amount)
           [] f = "price"  -> Rand(c.price) \/ cap = PointVal(c.price)
           [] f = "rel"    -> RelIn(c.rel, o.tipCap, o.feeCap) /\ (c.rel = "na") = ~IsDyn(c.type)
           [] f = "data"   -> (CASE c.data = "empty" -> o.dataLen = 0 [] c.data = "1" -> o.dataLen = 1
                                [] c.data = "64k" -> o.dataLen = 65536 [] OTHER -> Rand(c.data))
           [] f = "access" -> (CASE c.access \in {"na", "nil", "empty"} -> o.alAddrs = 0 /\ o.alKeys = 0
                                [] c.access = "3x3" -> o.alAddrs = 3 /\ o.alKeys = 9 [] OTHER -> Rand(c.access))
           [] f = "to"     -> (CASE c.to = "create" -> o.to = "nil"
                                [] c.to = "zero" -> o.to = "0x0000000000000000000000000000000000000000"
                                [] c.to = "call" -> o.to \notin {"nil", "0x0000000000000000000000000000000000000000"})
           [] f = "sig"    -> /\ o.chainId = ch
                              /\ o.v \in {VOf(c.sig, ch, "0"), VOf(c.sig, ch, "1")}
                              /\ o.protected = (c.sig # "unprotected")
                              /\ (c.sig = "typed") = (c.type # "legacy")
           [] f = "base"   -> BaseIn(c.base, e.base, o.tipCap, o.feeCap)
           [] f = "space"  -> e.src = "random" \/ InSpace(c, FullSpace) \/ c \in ExtraCases
           \* the spelling the sender recorded (judged where the hand-built envelope exists: the code wrapped the
           \* transaction): the class, the string and the bytes it denotes to a lenient parser agree
           [] f = "rec"    -> ~e.wrap.ok \/
                              IF ~e.h.run THEN c.rec = ApiRec /\ c.from = ApiFrom
                              ELSE LET snt == e.h.sent  n == Len(e.h.sent)  same == (e.h.denotes = o.hash) IN
                                   CASE c.rec = "canon"      -> snt = o.hash
                                     [] c.rec = "empty"      -> snt = ""
                                     [] c.rec = "wrong"      -> snt # o.hash /\ n = 66 /\ ~same
                                     [] c.rec \in {"upper", "mixed", "capsprefix"} -> snt # o.hash /\ n = 66 /\ same
                                     [] c.rec = "noprefix"   -> n = 64 /\ same
                                     [] c.rec = "odd"        -> n = 67 /\ same
                                     [] c.rec \in {"zeropad", "longer"} -> n > 67 /\ same
                                     [] OTHER -> FALSE
           [] f = "from"   -> ~e.wrap.ok \/ ~e.h.run \/
                              CASE c.from = "empty"   -> e.h.sentFrom = ""
                                [] c.from = "signer"  -> e.h.sentFrom = e.exp
                                [] c.from = "foreign" -> Len(e.h.sentFrom) = 42 /\ e.h.sentFrom # e.exp
                                [] c.from = "garbage" -> Len(e.h.sentFrom) \notin {0, 42}
                                [] OTHER -> FALSE }

---------------------------------------------------------------------------
(* P on one recorded case *)

Violations(e) ==
    LET c == e.cfg.cls  o == e.o  a == e.a
        F == Figures(o, e.base)
        FigViol(fig) == {Sig(FigKind(k), FigCls(k, c), e) : k \in {k \in FigNames : F[k] # "undef" /\ fig[k] # F[k]}}
    IN
    IF ~e.wrap.ok THEN {}                \* refused at construction: the statement is silent
    ELSE
      \* the message right after wrapping
      (IF e.m.hash = o.hash THEN {} ELSE {Sig("msg-hash", HashCls(c), e)})
      \cup (IF e.m.type = o.type THEN {} ELSE {Sig("field:type", FieldCls("type", c), e)})
      \cup (IF e.m.chainId = o.chainId THEN {} ELSE {Sig("field:chainId", FieldCls("chainId", c), e)})
      \cup FigViol(e.fig)
      \* the protobuf Any packing of the transaction data, and the raw RLP entry point
      \cup (IF e.pb.ok /\ e.pbHash = o.hash THEN {} ELSE {Sig("any-packing", HashCls(c), e)})
      \cup (IF e.rlp.ok /\ e.rlpHash = o.hash /\ e.rlpMsgHash = o.hash THEN {} ELSE {Sig("rlp-path", HashCls(c), e)})
      \cup
      (IF e.unwrap.ok
       THEN \* the full round trip returned a transaction: every identity of the statement
            (IF a.hash = o.hash THEN {} ELSE {Sig("hash-changed", HashCls(c), e)})
            \cup (IF e.m2.hash = o.hash THEN {} ELSE {Sig("msg-hash-after", HashCls(c), e)})
            \cup (IF a.sender = o.sender /\ a.sender = e.exp THEN {} ELSE {Sig("sender-changed", SenderCls(c), e)})
            \cup (IF e.m2.getSender = e.exp /\ e.m2.fromSet = e.exp /\ e.m2.signers = e.exp
                  THEN {} ELSE {Sig("sender-of-message", SenderCls(c), e)})
            \* the From field is not part of the signed content: whatever it says, the recovered sender is the key holder
            \cup (IF e.m2.getSenderForeignFrom \in {e.exp, "skip"} THEN {} ELSE {Sig("sender-echoes-From-field", SenderCls(c), e)})
            \cup {Sig("field:" \o f, FieldCls(f, c), e) : f \in {g \in FieldNames : o[g] # a[g]}}
            \cup (IF e.m2.type = o.type THEN {} ELSE {Sig("field:type", FieldCls("type", c), e)})
            \cup (IF e.m2.chainId = o.chainId THEN {} ELSE {Sig("field:chainId", FieldCls("chainId", c), e)})
            \cup FigViol(e.fig2)
            \cup (IF e.env.fee = F.fee /\ e.env.gas = o.gas /\ e.env.nmsgs = 1 THEN {}
                  ELSE {Sig("envelope-fee", FigCls("fee", c), e)})
            \cup (IF e.json.ok => e.jsonHash = o.hash THEN {} ELSE {Sig("hash-changed-json", HashCls(c), e)})
       ELSE \* no transaction came back: a violation unless the code itself had refused the message
            IF e.vb.ok
            THEN {Sig("roundtrip-failed",
                      "type=" \o c.type \o ",stage=" \o
                         (CASE ~e.build.ok -> "build" [] ~e.enc.ok -> "encode" [] ~e.dec.ok -> "decode" [] OTHER -> "unwrap"), e)}
            ELSE {})

\* P on the HAND-BUILT envelope of the case: the same signed transaction, the fields outside the signature as the
\* sender chose them, through TxEncoder / TxDecoder / GetMsgs.
\*  - "the hash recorded in the message ALWAYS equals the Ethereum hash": a message the receiving side accepts
\*    (ValidateBasic, the only guard between the TxDecoder and the state machine) records exactly the Ethereum
\*    hash - the string Hash().Hex() that every wrapping function writes and that the event, RPC and indexer code
\*    downstream uses verbatim.  Which envelopes are refused is not judged.
\*  - the transaction it carries is the signed original (hash, recoverable sender), whatever the envelope says;
\*    the message's own GetSender answers the key holder, not the From field.
HandViolations(e) ==
    LET c == e.cfg.cls  o == e.o  h == e.h IN
    IF ~e.wrap.ok \/ ~h.run \/ ~h.stage.ok THEN {}
    ELSE (IF h.vb.ok => h.rec = o.hash THEN {} ELSE {Sig("recorded-hash-of-accepted", EnvCls(c), e)})
         \cup (IF h.txHash = o.hash /\ h.sender = e.exp THEN {} ELSE {Sig("hand-built-carries-other-tx", EnvCls(c), e)})
         \cup (IF h.getSender \in {e.exp, "skip"} THEN {} ELSE {Sig("sender-echoes-From-field", SenderCls(c), e)})

\* problems of the harness or of this specification, never verdicts (the run is stopped as INFRA)
Problems(e) ==
    LET o == e.o  F == Figures(o, e.base) IN
    IF ~e.sign.ok THEN {[what |-> "sign-failed", scn |-> e.scn]}
    ELSE {[what |-> "not-in-class:" \o f, scn |-> e.scn] : f \in NotInClass(e)}
         \cup (IF o.sender = e.exp THEN {} ELSE {[what |-> "original-sender", scn |-> e.scn]})
         \cup {[what |-> "go-ethereum-figure:" \o k, scn |-> e.scn] : k \in {k \in FigNames : e.geth[k] # F[k]}}

\* M, diagnostic: does the code accept what the transcription says
Divergences(e) ==
    LET o == e.o
        wrapObs == e.wrapCls
        D(what, model, code) == [what |-> what, model |-> model, code |-> code, class |-> ClsOf(e.cfg.cls, <<"gas", "price">>),
                                 scn |-> e.scn] IN
    IF ~e.sign.ok THEN {}
    ELSE (IF MWrap(o) = wrapObs THEN {} ELSE {D("wrap", MWrap(o), wrapObs)})
         \cup (IF ~e.wrap.ok THEN {}
               ELSE (IF MValidateBasic(o) = e.vbCls THEN {} ELSE {D("validate-basic", MValidateBasic(o), e.vbCls)})
                    \cup (IF e.tv.ok = (MTxValidate(o) = "ok") THEN {}
                          ELSE {D("txdata-validate", MTxValidate(o), IF e.tv.ok THEN "ok" ELSE "error")})
                    \cup (IF (MBuild(o) = "ok") = e.build.ok THEN {} ELSE {D("build", MBuild(o), e.build.err)})
                    \cup (IF e.unwrap.ok /\ e.vb2Cls # e.vbCls THEN {D("validate-after", e.vbCls, e.vb2Cls)} ELSE {})
                    \cup (IF e.unwrap.ok /\ (e.m2.from # "" \/ e.m.from # "") THEN {D("from-not-empty", "", e.m2.from)} ELSE {})
                    \cup (IF e.unwrap.ok /\ ~e.json.ok THEN {D("json-path", "ok", e.json.err)} ELSE {})
                    \cup (IF e.unwrap.ok /\ e.env.ext # 1 THEN {D("extension-options", "1", "other")} ELSE {})
                    \cup (IF e.h.run /\ e.h.stage.ok /\ MValidateEnvelope(o, e.cfg.cls) # e.h.vbCls
                          THEN {D("validate-hand-built:" \o e.cfg.cls.rec \o ":" \o e.cfg.cls.from, MValidateEnvelope(o, e.cfg.cls), e.h.vbCls)}
                          ELSE {})
                    \cup (IF e.h.run /\ e.h.stage.ok /\ (e.h.rec # e.h.sent \/ e.h.from # e.h.sentFrom)
                          THEN {D("hand-built-fields-changed-on-the-wire", e.h.sent, e.h.rec)} ELSE {})
                    \cup (IF o.type = "legacy" /\ MDeriveChainID(o.v) # e.m.chainId
                          THEN {D("derive-chain-id", MDeriveChainID(o.v), e.m.chainId)} ELSE {}))

---------------------------------------------------------------------------

TraceInit ==
    /\ l = 1 /\ viol = {} /\ div = {} /\ bad = {}
    /\ cnt = [wrapped |-> 0, roundtrips |-> 0, refused |-> 0, incomplete |-> 0,
              handBuilt |-> 0, handAccepted |-> 0, handRefusedForHash |-> 0, handRefusedDenotingSame |-> 0]
    /\ cs = NoCase /\ x = NoCase

TraceNext ==
    /\ l <= Len(Trace)
    /\ LET e == Trace[l] IN
       /\ l' = l + 1
       /\ UNCHANGED <<cs, x>>
       /\ viol' = viol \cup Violations(e) \cup HandViolations(e)
       /\ bad'  = bad \cup Problems(e)
       /\ div'  = div \cup Divergences(e)
       /\ cnt'  = [wrapped    |-> cnt.wrapped + (IF e.wrap.ok THEN 1 ELSE 0),
                   roundtrips |-> cnt.roundtrips + (IF e.wrap.ok /\ e.unwrap.ok THEN 1 ELSE 0),
                   refused    |-> cnt.refused + (IF e.wrap.ok THEN 0 ELSE 1),
                   incomplete |-> cnt.incomplete + (IF e.wrap.ok /\ ~e.unwrap.ok THEN 1 ELSE 0),
                   \* non-vacuity of the envelope dimension: hand-built envelopes that reached the receiving side,
                   \* accepted ones (P's premise), ones refused for the recorded hash, and among those the ones a
                   \* lenient parser would have read as the right bytes
                   handBuilt |-> cnt.handBuilt + (IF e.wrap.ok /\ e.h.run /\ e.h.stage.ok THEN 1 ELSE 0),
                   handAccepted |-> cnt.handAccepted + (IF e.wrap.ok /\ e.h.run /\ e.h.stage.ok /\ e.h.vb.ok THEN 1 ELSE 0),
                   handRefusedForHash |-> cnt.handRefusedForHash +
                       (IF e.wrap.ok /\ e.h.run /\ e.h.stage.ok /\ e.h.vbCls = "hash-mismatch" THEN 1 ELSE 0),
                   handRefusedDenotingSame |-> cnt.handRefusedDenotingSame +
                       (IF e.wrap.ok /\ e.h.run /\ e.h.stage.ok /\ e.h.vbCls = "hash-mismatch" /\ e.h.denotes = e.o.hash
                        THEN 1 ELSE 0)]

TraceSpec == TraceInit /\ [][TraceNext]_tvars

Report == l <= Len(Trace) \/
          PrintT(<<"RESULT", ToJson([consumed |-> l - 1, scenarios |-> l - 1, viol |-> viol, div |-> div,
                                     bad |-> bad, cnt |-> cnt])>>)
=============================================================================
