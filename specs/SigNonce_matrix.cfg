SPECIFICATION MatrixSpec
CONSTANTS
  Signers = {"s1"}
  Nonces <- MC_Nonces
  Routes = {}
  Quals = {}
  MaxSub = 0
  MaxBlocks = 0
  MaxEvents = 0
  MaxLen = 0
  Defects = {}
CHECK_DEADLOCK FALSE
