SPECIFICATION Spec
CONSTANTS
  Replicas = {"A","B"}
  Inputs = {1,2}
  MaxHeight = 3
  MaxLocal = 3
  MaxLen = 0
  Defects = {"checktx_leak"}
INVARIANT Agreement
INVARIANT InfoIsLastCommit
PROPERTY LocalStutter
VIEW View
CHECK_DEADLOCK FALSE
