SPECIFICATION RSpec
CONSTANTS
  Defects = {"stale_overwrite", "no_cosmos_revert"}
  Family = "C02"
  MaxOps = 9
INVARIANT ExplainedR
CHECK_DEADLOCK FALSE
