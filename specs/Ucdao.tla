------------------------------- MODULE Ucdao -------------------------------
(***************************************************************************)
(* The United-Contributors DAO ledger of haqq (x/ucdao).                   *)
(*                                                                         *)
(* Property layer P (C12): written from the property statement only.       *)
(*   Inv_*        state invariants of the ledger                           *)
(*   FundPost, TransferPost   the exact effect a successful message must   *)
(*                have; a failed message must leave the state unchanged    *)
(* As-built machine M: Init / Next, one action per message-server entry    *)
(*   point, structured like x/ucdao/keeper/keeper.go (credit the recipient *)
(*   first, then overwrite the owner with pre-computed leftovers).  Known  *)
(*   deviations from P are named members of the CONSTANT Defects.          *)
(*                                                                         *)
(* All amounts are exact integers in decimal-string form (module BigNum),  *)
(* the same text is used by the exhaustive configurations (amounts "0".."3")*)
(* and by trace validation of real executions (10^18-scaled amounts).      *)
(*                                                                         *)
(* A ledger state is a record                                              *)
(*   share   : [acct -> [denom -> amount]]   DAO balance of every account  *)
(*   total   : [denom -> amount]             recorded DAO total            *)
(*   holders : [acct -> BOOLEAN]             holder index                  *)
(*   bankMod : [denom -> amount]             coins held by the module acct *)
(*   bank    : [acct -> [denom -> amount]]   liquid bank balance of accts  *)
(*   enabled : BOOLEAN                       module parameter              *)
(*                                                                         *)
(* Environment: the DAO module account is an ordinary bank account as far  *)
(* as the rest of the chain is concerned, and "the coins held by the DAO   *)
(* module account" of the property are read from x/bank.  Messages of      *)
(* other modules that move coins (bank MsgSend, MsgMultiSend) are therefore*)
(* part of the scenario space: they are interleaved with the DAO messages, *)
(* their recipients range over the accounts and the DAO module account     *)
(* itself (DaoAcct), and P demands that none of them changes the ledger.   *)
(***************************************************************************)
EXTENDS Integers, Sequences, FiniteSets, FiniteSetsExt, TLC, Json, BigNum

CONSTANTS
    Accts,       \* accounts of the exhaustive model, e.g. {"a1","a2","a3"}
    Denoms,      \* denominations the DAO accepts, e.g. {"aISLM","aLIQUID0"}
    BadDenoms,   \* denominations the DAO must refuse, e.g. {"bad"}
    Amts,        \* amounts used by the model, e.g. {"0","1","2","3"}
    Ratios,      \* ratios <<num, den>> with 0 < num <= den
    InitBank,    \* initial bank balance of every account per denom
    MaxLen,      \* bound on the length of a behaviour
    Defects,     \* subset of {"dao_self_transfer", "dao_not_blocked"}
    Foreign,     \* messages of other modules interleaved by Next: subset of {"bank_send", "bank_multisend"}
    BankAmts     \* amounts (of one denomination at a time) the interleaved bank messages carry

AllDenoms == Denoms \cup BadDenoms

\* the name under which the DAO module account appears as the recipient of a foreign message
DaoAcct == "dao"
ForeignEvs == {"bank_send", "bank_multisend"}

---------------------------------------------------------------------------
(* Generic helpers over a ledger state s (domains are taken from s itself, *)
(* so the same operators serve traces with any number of accounts).        *)

AcctsOf(s)  == DOMAIN s.share
DenomsOf(s) == DOMAIN s.total

SumOver(S, f(_)) == FoldSet(LAMBDA x, acc : BigAdd(acc, f(x)), "0", S)

SumShares(s, d) == SumOver(AcctsOf(s), LAMBDA a : s.share[a][d])

NonZero(x) == ~BigIsZero(x)

\* the two indexes as functions of the shares
HoldersOf(share) == [a \in DOMAIN share |-> \E d \in DOMAIN share[a] : NonZero(share[a][d])]

Reindex(s) == [s EXCEPT !.holders = HoldersOf(s.share)]

---------------------------------------------------------------------------
(* P: invariants *)

Inv_SumEqTotal(s)  == \A d \in DenomsOf(s) : BigEq(SumShares(s, d), s.total[d])
Inv_TotalEqBank(s) == \A d \in DenomsOf(s) : BigEq(s.total[d], s.bankMod[d])
Inv_NonNeg(s)      == /\ \A a \in AcctsOf(s), d \in DenomsOf(s) : BigSign(s.share[a][d]) >= 0
                      /\ \A d \in DenomsOf(s) : BigSign(s.total[d]) >= 0
Inv_Holders(s)     == s.holders = HoldersOf(s.share)

InvNames == {"Inv_SumEqTotal", "Inv_TotalEqBank", "Inv_NonNeg", "Inv_Holders"}
InvHolds(n, s) ==
    CASE n = "Inv_SumEqTotal"  -> Inv_SumEqTotal(s)
      [] n = "Inv_TotalEqBank" -> Inv_TotalEqBank(s)
      [] n = "Inv_NonNeg"      -> Inv_NonNeg(s)
      [] n = "Inv_Holders"     -> Inv_Holders(s)
BrokenInvariants(s) == {n \in InvNames : ~InvHolds(n, s)}

---------------------------------------------------------------------------
(* P: effects.  c and amt are functions denom -> amount ("0" = not present) *)

FundPost(s, a, c) ==
    Reindex([s EXCEPT
        !.share[a] = [d \in DOMAIN @ |-> BigAdd(@[d], c[d])],
        !.total    = [d \in DOMAIN @ |-> BigAdd(@[d], c[d])],
        !.bankMod  = [d \in DOMAIN @ |-> BigAdd(@[d], c[d])],
        !.bank[a]  = [d \in DOMAIN @ |-> BigSub(@[d], c[d])]])

\* moves exactly amt from o's own share to n; o = n moves nothing; nobody else is touched
TransferPost(s, o, n, amt) ==
    IF o = n THEN s
    ELSE Reindex([s EXCEPT
        !.share[o] = [d \in DOMAIN @ |-> BigSub(@[d], amt[d])],
        !.share[n] = [d \in DOMAIN @ |-> BigAdd(@[d], amt[d])]])

Covered(s, o, amt) == \A d \in DenomsOf(s) : BigLE(amt[d], s.share[o][d])

\* ratio r = <<num, den>>: the stated amount is r x balance.  Balances are whole base units, so
\* "exactly the stated amount" is read as: the signer never parts with MORE than r x balance
\* (amt * den <= balance * num - what the signature covers is an upper bound), and with less than
\* one base unit short of it (amt >= floor).  Together: the whole part of r x balance.
RatioFloor(b, r) == BigQuo(BigMul(b, r[1]), r[2])
RatioCeil(b, r)  == BigQuo(BigAdd(BigMul(b, r[1]), BigSub(r[2], "1")), r[2])
RatioNotMore(s, o, r, amt) ==
    \A d \in DenomsOf(s) : BigLE(BigMul(amt[d], r[2]), BigMul(s.share[o][d], r[1]))
RatioNotShort(s, o, r, amt) ==
    \A d \in DenomsOf(s) : BigLE(RatioFloor(s.share[o][d], r), amt[d])
RatioStated(s, o, r, amt) == RatioNotMore(s, o, r, amt) /\ RatioNotShort(s, o, r, amt)
\* (classification only) within one unit of the stated amount on either side
RatioBand(s, o, r, amt) ==
    \A d \in DenomsOf(s) : /\ BigLE(RatioFloor(s.share[o][d], r), amt[d])
                           /\ BigLE(amt[d], RatioCeil(s.share[o][d], r))

\* what a successful message of each kind must have done (P)
\* e: [ev, args, ok];  s: state before;  t: state after
MovedFromOwner(s, t, o) == [d \in DenomsOf(s) |-> BigSub(s.share[o][d], t.share[o][d])]

\* the DAO's books: everything in the state except the accounts' liquid balances
Ledger(s) == [share |-> s.share, total |-> s.total, holders |-> s.holders, bankMod |-> s.bankMod, enabled |-> s.enabled]

StepOK(e, s, t) ==
    IF ~e.ok THEN t = s
    ELSE CASE e.ev = "fund" ->
                 t = FundPost(s, e.args.acct, e.args.coins)
           [] e.ev = "transfer_all" ->
                 t = TransferPost(s, e.args.owner, e.args.newOwner, s.share[e.args.owner])
           [] e.ev = "transfer_amount" ->
                 /\ Covered(s, e.args.owner, e.args.coins)
                 /\ t = TransferPost(s, e.args.owner, e.args.newOwner, e.args.coins)
           [] e.ev = "transfer_ratio" ->
                 IF e.args.owner = e.args.newOwner THEN t = s
                 ELSE LET amt == MovedFromOwner(s, t, e.args.owner) IN
                      /\ RatioStated(s, e.args.owner, e.args.ratio, amt)
                      /\ t = TransferPost(s, e.args.owner, e.args.newOwner, amt)
           [] e.ev = "set_enabled" ->
                 t = [s EXCEPT !.enabled = e.args.enabled]
           \* the module's genesis is exported and imported into an emptied store, with or without the (optional)
           \* declared total: the ledger is the same afterwards
           [] e.ev = "reimport" -> t = s
           \* a hand-crafted transfer whose amount names one denomination several times: if it is accepted at
           \* all, it moves the sum
           [] e.ev = "transfer_dup" ->
                 LET amt == [d \in DenomsOf(s) |-> IF d = e.args.denom THEN BigMul(e.args.amt, BigOfInt(e.args.times)) ELSE "0"] IN
                 /\ Covered(s, e.args.owner, amt)
                 /\ t = TransferPost(s, e.args.owner, e.args.newOwner, amt)
           \* a message of another module, whoever its recipients are and whether or not the chain accepts it,
           \* is not a DAO message: the books stay as they are (MsgFund is the only way in, there is no way
           \* out).  The accounts' liquid balances are the other module's business, P does not constrain them.
           [] e.ev \in ForeignEvs -> Ledger(t) = Ledger(s)
           [] OTHER -> FALSE

\* a finer name for some ways of failing StepOK (appended to the violation kind)
StepFault(e, s, t) ==
    IF e.ok /\ e.ev = "transfer_ratio" /\ e.args.owner # e.args.newOwner
    THEN LET amt == MovedFromOwner(s, t, e.args.owner) IN
         IF t = TransferPost(s, e.args.owner, e.args.newOwner, amt) /\ RatioBand(s, e.args.owner, e.args.ratio, amt)
            /\ ~RatioNotMore(s, e.args.owner, e.args.ratio, amt)
         THEN ":moved-more-than-stated" ELSE ""
    ELSE ""

\* the class of a step, used to identify a violation
StepClass(e) ==
    IF e.ev \in {"transfer_all", "transfer_amount", "transfer_ratio", "transfer_dup"}
    THEN (IF e.args.owner = e.args.newOwner THEN "owner=newOwner" ELSE "owner#newOwner")
    ELSE IF e.ev = "bank_send" THEN (IF e.args.to = DaoAcct THEN "to=dao" ELSE "to=acct")
    ELSE IF e.ev = "bank_multisend"
    THEN (IF \E i \in DOMAIN e.args.outs : e.args.outs[i].to = DaoAcct THEN "to=dao" ELSE "to=acct")
    ELSE "-"

---------------------------------------------------------------------------
(* M: the as-built machine *)

VARIABLES st, hist, leaked
vars == <<st, hist, leaked>>

ZeroCoins == [d \in AllDenoms |-> "0"]

Init ==
    /\ st = [ share   |-> [a \in Accts |-> ZeroCoins],
              total   |-> ZeroCoins,
              holders |-> [a \in Accts |-> FALSE],
              bankMod |-> ZeroCoins,
              bank    |-> [a \in Accts |-> [d \in AllDenoms |-> InitBank]],
              enabled |-> TRUE ]
    /\ hist = <<>>
    /\ leaked = ZeroCoins

AnyNonZero(c) == \E d \in DOMAIN c : NonZero(c[d])

\* keeper.go TransferOwnership as written: leftovers are computed first, the recipient is
\* credited, then the owner's balance is *overwritten* with the leftovers.
CodeTransfer(s, o, n, amt) ==
    LET credited == [s.share EXCEPT ![n] = [d \in DOMAIN @ |-> BigAdd(@[d], amt[d])]]
        final    == [credited EXCEPT ![o] = [d \in DOMAIN @ |->
                        IF NonZero(amt[d]) THEN BigSub(s.share[o][d], amt[d]) ELSE @[d]]]
    IN Reindex([s EXCEPT !.share = final])

MTransfer(s, o, n, amt) ==
    IF "dao_self_transfer" \in Defects THEN CodeTransfer(s, o, n, amt) ELSE TransferPost(s, o, n, amt)

\* M as a function: the outcome [ok, post, moved] the code produces for message (ev, args) in
\* state s.  `moved` is what a transfer moved (used for the ghost variable only).
NoCoins(s) == [d \in DenomsOf(s) |-> "0"]
\* bank transfer from one account to a list of recipients: refused if a recipient is blocked (the DAO
\* module account), if an output is empty, or if the sender cannot pay the sum; otherwise only liquid
\* balances move
OutSum(outs, d, S) == SumOver({i \in DOMAIN outs : outs[i].to \in S}, LAMBDA i : outs[i].coins[d])
MBank(s, from, outs) ==
    LET all == {outs[i].to : i \in DOMAIN outs}
        ok == /\ \A i \in DOMAIN outs : AnyNonZero(outs[i].coins)
              /\ "dao_not_blocked" \in Defects \/ \A i \in DOMAIN outs : outs[i].to # DaoAcct
              /\ \A d \in DenomsOf(s) : BigLE(OutSum(outs, d, all), s.bank[from][d])
        paid == [s.bank EXCEPT ![from] = [d \in DOMAIN @ |-> BigSub(@[d], OutSum(outs, d, all))]]
        \* (reached with a recipient DaoAcct only under the hypothetical "dao_not_blocked": what the chain would do
        \* if the DAO module account were missing from the blocked list - the coins land in the module account)
        post == [s EXCEPT !.bank = [a \in DOMAIN paid |-> [d \in DOMAIN paid[a] |-> BigAdd(paid[a][d], OutSum(outs, d, {a}))]],
                          !.bankMod = [d \in DOMAIN @ |-> BigAdd(@[d], OutSum(outs, d, {DaoAcct}))]]
    IN [ok |-> ok, post |-> IF ok THEN post ELSE s, moved |-> NoCoins(s)]
MResult(s, ev, args) ==
    CASE ev = "fund" ->
           LET a == args.acct  c == args.coins
               ok == /\ s.enabled
                     /\ \A d \in DenomsOf(s) : BigLE(c[d], s.bank[a][d])
                     /\ \A d \in DenomsOf(s) \cap BadDenoms : BigIsZero(c[d])
           IN [ok |-> ok, post |-> IF ok THEN FundPost(s, a, c) ELSE s, moved |-> NoCoins(s)]
      [] ev = "transfer_all" ->
           LET o == args.owner  n == args.newOwner  amt == s.share[o]
               ok == s.enabled /\ AnyNonZero(s.share[o])
           IN [ok |-> ok, post |-> IF ok THEN MTransfer(s, o, n, amt) ELSE s, moved |-> amt]
      [] ev = "transfer_amount" ->
           LET o == args.owner  n == args.newOwner  amt == args.coins
               ok == s.enabled /\ AnyNonZero(s.share[o]) /\ Covered(s, o, amt)
           IN [ok |-> ok, post |-> IF ok THEN MTransfer(s, o, n, amt) ELSE s, moved |-> amt]
      [] ev = "transfer_ratio" ->
           \* msg_server.go: every held denom contributes Truncate(balance x ratio); a zero
           \* product makes the coin set invalid and the whole message fails
           LET o == args.owner  n == args.newOwner  r == args.ratio
               amt == [d \in DenomsOf(s) |-> RatioFloor(s.share[o][d], r)]
               ok == /\ s.enabled /\ AnyNonZero(s.share[o])
                     /\ \A d \in DenomsOf(s) : NonZero(s.share[o][d]) => NonZero(amt[d])
           IN [ok |-> ok, post |-> IF ok THEN MTransfer(s, o, n, amt) ELSE s, moved |-> amt]
      [] ev = "set_enabled" ->
           [ok |-> TRUE, post |-> [s EXCEPT !.enabled = args.enabled], moved |-> NoCoins(s)]
      [] ev = "reimport" -> [ok |-> TRUE, post |-> s, moved |-> NoCoins(s)]
      \* duplicate denominations make the coin set invalid: ValidateBasic refuses
      [] ev = "transfer_dup" -> [ok |-> FALSE, post |-> s, moved |-> NoCoins(s)]
      \* x/bank (haqq's wrapper of the message server): every module account is on the blocked list
      [] ev = "bank_send" ->
           MBank(s, args.from, <<[to |-> args.to, coins |-> args.coins]>>)
      \* one input (the sum of the outputs, built by the driver), any number of outputs
      [] ev = "bank_multisend" -> MBank(s, args.from, args.outs)

IsSelfTransfer(ev, args) ==
    ev \in {"transfer_all", "transfer_amount", "transfer_ratio", "transfer_dup"} /\ args.owner = args.newOwner

Do(ev, args) ==
    LET r == MResult(st, ev, args) IN
    /\ st' = r.post
    /\ hist' = Append(hist, [ev |-> ev, args |-> args, ok |-> r.ok])
    /\ leaked' = IF r.ok /\ IsSelfTransfer(ev, args) /\ "dao_self_transfer" \in Defects
                  THEN [d \in AllDenoms |-> BigAdd(leaked[d], r.moved[d])] ELSE leaked

CoinChoices == [AllDenoms -> Amts]
\* foreign messages: recipients include the DAO module account; one denomination per output
Recipients == Accts \cup {DaoAcct}
BankCoinChoices == {[d \in AllDenoms |-> IF d = x THEN v ELSE "0"] : x \in AllDenoms, v \in BankAmts}

Fund(a, c)                == Do("fund", [acct |-> a, coins |-> c])
TransferAll(o, n)         == Do("transfer_all", [owner |-> o, newOwner |-> n])
TransferAmount(o, n, amt) == AnyNonZero(amt) /\ Do("transfer_amount", [owner |-> o, newOwner |-> n, coins |-> amt])
TransferRatio(o, n, r)    == Do("transfer_ratio", [owner |-> o, newOwner |-> n, ratio |-> r])
SetEnabled(b)             == Do("set_enabled", [enabled |-> b])
Reimport(b)               == Do("reimport", [declared |-> b])
BankSend(f, t, c)         == Do("bank_send", [from |-> f, to |-> t, coins |-> c])
BankMultiSend(f, outs)    == Do("bank_multisend", [from |-> f, outs |-> outs])
TransferDup(o, n, d, x)   == Do("transfer_dup", [owner |-> o, newOwner |-> n, denom |-> d, amt |-> x, times |-> 2])

Next ==
    /\ Len(hist) < MaxLen
    /\ \/ \E a \in Accts, c \in CoinChoices : Fund(a, c)
       \/ \E o \in Accts, n \in Accts : TransferAll(o, n)
       \/ \E o \in Accts, n \in Accts, c \in CoinChoices : TransferAmount(o, n, c)
       \/ \E o \in Accts, n \in Accts, r \in Ratios : TransferRatio(o, n, r)
       \/ \E b \in BOOLEAN : b # st.enabled /\ SetEnabled(b)
       \/ \E b \in BOOLEAN : Reimport(b)
       \/ \E o \in Accts, n \in Accts, d \in Denoms, x \in Amts \ {"0"} : TransferDup(o, n, d, x)
       \/ /\ "bank_send" \in Foreign
          /\ \E f \in Accts, t \in Recipients, c \in BankCoinChoices : BankSend(f, t, c)
       \/ /\ "bank_multisend" \in Foreign
          /\ \E f \in Accts, t1 \in Recipients, t2 \in Recipients, c1 \in BankCoinChoices, c2 \in BankCoinChoices :
                BankMultiSend(f, <<[to |-> t1, coins |-> c1], [to |-> t2, coins |-> c2]>>)

Spec == Init /\ [][Next]_vars

---------------------------------------------------------------------------
(* What the exhaustive configurations check *)

\* intended design (Defects = {}): every P invariant in every state ...
MInv_P == BrokenInvariants(st) = {}
\* ... and every step has exactly the effect P allows
MStep_P == [][hist' # hist => StepOK(hist'[Len(hist')], st, st')]_vars

\* as-built (Defects = known findings): the ledger is off by exactly what the named
\* defects destroyed, i.e. the property can fail only through them
MInv_Compensated ==
    /\ \A d \in AllDenoms : BigEq(BigAdd(SumShares(st, d), leaked[d]), st.total[d])
    /\ Inv_TotalEqBank(st) /\ Inv_NonNeg(st) /\ Inv_Holders(st)
\* uncompensated: must FAIL when Defects is non-empty (non-vacuity witness and reproduction recipe)
MInv_Strict == MInv_P
MStep_Compensated ==
    [][hist' # hist =>
          LET e == hist'[Len(hist')] IN
          StepOK(e, st, st') \/ (StepClass(e) = "owner=newOwner" /\ "dao_self_transfer" \in Defects)]_vars

\* behaviours as JSON scripts for the harness: under -simulate only the state TLC actually
\* chose at depth MaxLen gets its (single) Emit successor evaluated, so each behaviour is
\* printed once
Emit == Len(hist) = MaxLen /\ PrintT(<<"SCRIPT", ToJson(hist)>>) /\ UNCHANGED vars
\* -simulate picks uniformly among *successor states*; drawing the parameters with
\* RandomElement gives one successor per action kind, i.e. a uniform choice of the kind and
\* mostly-acceptable parameters instead of a walk dominated by rejected transfers
\* (operators without parameters are evaluated once and cached by TLC, hence the dummy argument)
RandCoins(h) == [d \in AllDenoms |-> IF d \in BadDenoms /\ RandomElement(1..4) # 1 THEN "0" ELSE RandomElement(Amts)]
RandOther(o) == IF RandomElement(1..4) = 1 THEN o ELSE RandomElement(Accts)
RandOwner(h) == LET hs == {a \in Accts : st.holders[a]} IN
                IF hs # {} /\ RandomElement(1..5) # 1 THEN RandomElement(hs) ELSE RandomElement(Accts)
RandRecipient(h) == IF RandomElement(1..3) = 1 THEN DaoAcct ELSE RandomElement(Accts)
RandBankCoins(h) == [d \in AllDenoms |-> IF RandomElement(1..3) = 1 THEN RandomElement({"1", "2"}) ELSE "0"]
SimNext ==
    /\ Len(hist) < MaxLen
    /\ \/ Fund(RandomElement(Accts), RandCoins(hist))
       \/ Fund(RandomElement(Accts), RandCoins(hist))
       \/ LET o == RandOwner(hist) IN TransferAll(o, RandOther(o))
       \/ LET o == RandOwner(hist) IN TransferAmount(o, RandOther(o), RandCoins(hist))
       \/ LET o == RandOwner(hist) IN TransferAmount(o, RandOther(o), [d \in AllDenoms |-> IF RandomElement(1..2) = 1 THEN st.share[o][d] ELSE "0"])
       \/ LET o == RandOwner(hist) IN TransferRatio(o, RandOther(o), RandomElement(Ratios))
       \/ ((IF st.enabled THEN RandomElement(1..6) = 1 ELSE TRUE) /\ SetEnabled(~st.enabled))
       \/ (RandomElement(1..3) = 1 /\ Reimport(RandomElement(BOOLEAN)))
       \/ (RandomElement(1..3) = 1 /\ LET o == RandOwner(hist) IN TransferDup(o, RandOther(o), RandomElement(Denoms), RandomElement(Amts \ {"0"})))
       \/ (RandomElement(1..2) = 1 /\ BankSend(RandomElement(Accts), RandRecipient(hist), RandCoins(hist)))
       \/ BankMultiSend(RandomElement(Accts),
              [i \in 1..RandomElement(1..3) |-> [to |-> RandRecipient(i), coins |-> RandBankCoins(i)]])
SimSpec == Init /\ [][SimNext \/ Emit]_vars

View == <<st, leaked, Len(hist)>>

\* model values for the configurations (cfg files cannot write tuples)
MC_Ratios == {<<"1","3">>, <<"1","2">>, <<"1","1">>}
=============================================================================
