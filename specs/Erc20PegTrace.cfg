SPECIFICATION TraceSpec
CONSTANTS
  Holders = {}
  Amts = {}
  InitBal = "0"
  MaxLen = 0
  Scenarios = {}
  Defects = {"hook_no_checks", "unescrow_receiver_only"}
INVARIANT Report
CHECK_DEADLOCK FALSE
