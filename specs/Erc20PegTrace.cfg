SPECIFICATION TraceSpec
CONSTANTS
  Holders = {}
  Amts = {}
  InitBal = "0"
  MaxLen = 0
  Scenarios = {}
  Defects = {"hook_no_checks", "unescrow_receiver_only", "wrapper_false_is_success"}
INVARIANT Report
CHECK_DEADLOCK FALSE
