----------------------------- MODULE VestingTrace -----------------------------
(* Validates message-server HISTORIES recorded by `hv vsched` from the real x/vesting     *)
(* keeper (CreateClawbackVestingAccount fresh / merge, ConvertIntoVestingAccount, the      *)
(* keeper-level ApplyVestingSchedule(merge), Clawback, UpdateVestingFunder, block-time     *)
(* ticks) against the property layer P of Vesting (verdict) and the as-built machine M     *)
(* (diagnostic).  After every step the real getters of the stored account are evaluated    *)
(* at every critical instant (`views`) and checked against the denotation of the logged    *)
(* schedule.  Deterministic and total; re-synchronises on the logged state.                *)
EXTENDS Vesting

VARIABLES l, viol, div, nscn, nbad
tvars == <<st, hist, inp, l, viol, div, nscn, nbad>>

Trace == ndJsonDeserialize("trace.ndjson")

Sig(kind, class, e) == [prop |-> "C09", kind |-> kind, class |-> class, scn |-> e.scn, line |-> l]

\* the class of one broken clause of a step
KindClass(k, e, s, t) ==
    IF e.ev = "clawback" /\ e.ok /\ s.acct.exists /\ t.acct.exists
    THEN (IF e.args.by = s.acct.funder THEN "" ELSE "by#funder,") \o ClawbackKindClass(k, DenomsOf(s), s.acct, s.now, t.acct)
    ELSE StepClass(e, s)

ViewViol(e) ==
    LET a == e.post.acct
        D == DenomsOf(e.post) IN
    IF ~a.exists THEN {}
    ELSE IF "panic" \in DOMAIN e.views THEN {Sig("panic", e.views.where, e)}
    ELSE IF AcctSound(D, a) THEN {Sig(k, GetterKindClass(k, D, a, e.views), e) : k \in AllGetterKinds(D, a, e.views)}
    ELSE {}

NewSigs(vs) == {v \in vs : ~\E w \in viol : w.kind = v.kind /\ w.class = v.class}
NewDivs(ds) == {d \in ds : ~\E w \in div : w.ev = d.ev /\ w.class = d.class /\ w.what = d.what}

TraceInit ==
    /\ l = 1 /\ viol = {} /\ div = {} /\ nscn = 0 /\ nbad = 0
    /\ st = <<>> /\ hist = <<>> /\ inp = <<>>

TraceNext ==
    /\ l <= Len(Trace)
    /\ LET e == Trace[l] IN
       /\ l' = l + 1
       /\ st' = e.post
       /\ UNCHANGED <<hist, inp>>
       /\ IF e.ev = "reset"
          THEN /\ nscn' = nscn + 1
               /\ viol' = viol \cup NewSigs({Sig("init:" \o k, "-", e) : k \in InvKinds(e.post)})
               /\ UNCHANGED <<div, nbad>>
          ELSE LET vs == {Sig(k, KindClass(k, e, st, e.post), e) : k \in StepKinds(e, st, e.post)}
                         \cup {Sig(k, StepClass(e, st), e) : k \in InvKinds(e.post) \ InvKinds(st)}
                         \cup ViewViol(e)
               IN
               /\ nscn' = nscn
               /\ viol' = viol \cup NewSigs(vs)
               /\ nbad' = nbad + (IF vs = {} THEN 0 ELSE 1)
               /\ div' = div \cup NewDivs(
                    LET r == MResult(st, e.ev, e.args) IN
                    IF r.ok = e.ok /\ r.post = e.post THEN {}
                    ELSE {[ev |-> e.ev, class |-> StepClass(e, st), scn |-> e.scn, line |-> l,
                           what |-> IF r.ok # e.ok THEN "accept/reject" ELSE "post-state"]})

TraceSpec == TraceInit /\ [][TraceNext]_tvars

Report == l <= Len(Trace) \/
          PrintT(<<"RESULT", ToJson([consumed |-> l - 1, scenarios |-> nscn, viol |-> viol, div |-> div, violating_lines |-> nbad])>>)
=============================================================================
