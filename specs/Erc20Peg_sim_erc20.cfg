SPECIFICATION SimSpec
CONSTANTS
  Holders = {"a1","a2"}
  Amts = {"1","2","3"}
  InitBal = "5"
  MaxLen = 8
  Scenarios <- MC_Erc20
  Defects = {"hook_no_checks", "unescrow_receiver_only"}
CHECK_DEADLOCK FALSE
