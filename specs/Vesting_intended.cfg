SPECIFICATION Spec
CONSTANTS
  Denoms = {"aISLM"}
  Defects = {}
  POffsets = {0}
  PMaxPeriods = 0
  PMaxLen = 0
  PAmts = {"0"}
  Shapes <- MC_Shapes
  Starts = {0,1,2}
  Dts = {1,2}
  MaxNow = 5
  MaxLen = 4
  InitBank = "9"
INVARIANT MInv_P
PROPERTY MStep_P
VIEW View
CHECK_DEADLOCK FALSE
