SPECIFICATION Spec
CONSTANTS
  Denoms = {"aISLM"}
  BondDenom = "aISLM"
  Lens = {0, 1, 2}
  Amts = {"1", "2"}
  MaxLockN = 1
  MaxVestN = 1
  Extras = {"1"}
  Fees = {"0"}
  MaxNow = 6
  Dts = {1, 2}
  UnbondTime = 2
  MinLiq = "1"
  MaxLen = 3
  Grants = {TRUE}
  Codes = {FALSE}
  KindsX <- MC_FewKinds
  Defects = {"convert_ignores_delegated_locked"}
INVARIANT MInv_P
INVARIANT MInv_Unvested
INVARIANT MInv_NonNeg
PROPERTY MStep_P
VIEW View
CHECK_DEADLOCK FALSE
