SPECIFICATION SimSpec
CONSTANTS
  Denoms = {"aISLM", "utest"}
  BondDenom = "aISLM"
  MaxLen = 9
  Amt = "25000000000000000007"
  ValStake = "1000000000000000000000"
  PowerReduction = "1000000000000000000"
  FracDouble <- MC_FracDouble
  FracDowntime <- MC_FracDowntime
  BurnVeto = TRUE
  BurnPrevote = TRUE
  BurnQuorum = FALSE
  ParamKeys = {"sendDefault", "send", "tax", "burnVeto", "burnPrevote", "burnQuorum", "minDep", "erc20"}
  MaxParamChanges = 3
  Seeded = FALSE
  Networks = {"main", "testedge1", "testedge2", "local", "other"}
  Heights0 = {1, 2, 1000000, 5000000}
  Defects = {}
CHECK_DEADLOCK FALSE
