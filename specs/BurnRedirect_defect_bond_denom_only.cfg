SPECIFICATION Spec
CONSTANTS
  Denoms = {"aISLM", "utest"}
  BondDenom = "aISLM"
  MaxLen = 4
  Amt = "215"
  ValStake = "1000"
  PowerReduction = "1"
  FracDouble <- MC_FracDouble
  FracDowntime <- MC_FracDowntime
  BurnVeto = TRUE
  BurnPrevote = TRUE
  BurnQuorum = FALSE
  ParamKeys = {}
  MaxParamChanges = 0
  Seeded = FALSE
  Networks = {"main"}
  Heights0 = {1}
  Defects = {"bond_denom_only"}
INVARIANT MInv_P
INVARIANT MInv_Model
PROPERTY MStep_P
VIEW View
CHECK_DEADLOCK FALSE
