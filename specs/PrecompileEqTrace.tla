-------------------------- MODULE PrecompileEqTrace --------------------------
EXTENDS PrecompileEq

VARIABLES l, viol, nboth, nq
tvars == <<picked, l, viol, nboth, nq>>
Trace == ndJsonDeserialize("trace.ndjson")
Sig(kind, class, e) == [prop |-> "C16", kind |-> kind, class |-> class, scn |-> e.scn, line |-> l]

TraceInit == picked = None /\ l = 1 /\ viol = {} /\ nboth = 0 /\ nq = 0
TraceNext ==
    /\ l <= Len(Trace)
    /\ UNCHANGED picked
    /\ LET e == Trace[l] IN
       /\ l' = l + 1
       /\ IF e.ev = "case"
          THEN /\ nq' = nq
               /\ nboth' = nboth + (IF e.native.ok /\ e.precompile.ok THEN 1 ELSE 0)
               /\ viol' = viol \cup
                    (IF e.native.ok # e.precompile.ok
                     THEN {Sig(IF e.native.ok THEN "precompile-fails-where-native-succeeds" ELSE "precompile-succeeds-where-native-fails", CaseClass(e.case), e)}
                     ELSE IF e.native.ok
                          THEN LET d == DiffFields(e.native.post, e.precompile.post) IN
                               IF d = {} THEN {} ELSE {Sig("effect-differs:" \o FirstField(d), CaseClass(e.case), e)}
                          ELSE {})
          ELSE /\ nboth' = nboth
               /\ nq' = nq + Cardinality(DOMAIN e.q)
               /\ viol' = viol \cup {Sig("query-differs:" \o k, "state=" \o e.state, e) : k \in {x \in DOMAIN e.q : e.q[x].native # e.q[x].precompile}}
TraceSpec == TraceInit /\ [][TraceNext]_tvars
Report == l <= Len(Trace) \/
          PrintT(<<"RESULT", ToJson([consumed |-> l - 1, scenarios |-> l - 1, both_ok |-> nboth, queries |-> nq, viol |-> viol, div |-> {}])>>)
=============================================================================
