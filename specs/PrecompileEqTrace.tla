-------------------------- MODULE PrecompileEqTrace --------------------------
EXTENDS PrecompileEq

VARIABLES l, viol, nboth, nq, nwalk, nmulti
tvars == <<picked, l, viol, nboth, nq, nwalk, nmulti>>
Trace == ndJsonDeserialize("trace.ndjson")
Sig(kind, class, e) == [prop |-> "C16", kind |-> kind, class |-> class, scn |-> e.scn, line |-> l]

TraceInit == picked = None /\ l = 1 /\ viol = {} /\ nboth = 0 /\ nq = 0 /\ nwalk = 0 /\ nmulti = 0
TraceNext ==
    /\ l <= Len(Trace)
    /\ UNCHANGED picked
    /\ LET e == Trace[l] IN
       /\ l' = l + 1
       /\ IF e.ev = "case"
          THEN /\ UNCHANGED <<nq, nwalk, nmulti>>
               /\ nboth' = nboth + (IF e.native.ok /\ e.precompile.ok THEN 1 ELSE 0)
               /\ viol' = viol \cup
                    (IF e.native.ok # e.precompile.ok
                     THEN {Sig(IF e.native.ok THEN "precompile-fails-where-native-succeeds" ELSE "precompile-succeeds-where-native-fails", CaseClass(e.case), e)}
                     ELSE IF e.native.ok
                          THEN LET d == DiffFields(e.native.post, e.precompile.post) IN
                               IF d = {} THEN {} ELSE {Sig("effect-differs:" \o FirstField(d), CaseClass(e.case), e)}
                          ELSE {})
          ELSE IF e.ev = "walk"
          THEN \* P for a paginated read-only method: the walk that follows the precompile's own continuation
               \* is, page by page (items, continuation key, total, failure), the walk of the native querier
               /\ UNCHANGED <<nboth, nq>>
               /\ nwalk' = nwalk + 1
               /\ nmulti' = nmulti + (IF Len(e.native) > 1 THEN 1 ELSE 0)
               /\ viol' = viol \cup
                    (IF e.native = e.precompile THEN {}
                     ELSE LET d == WalkDiff(e.native, e.precompile) IN
                          {Sig("walk-differs:" \o e.walk.q \o ":" \o d.kind, WalkClass(e.walk, d), e)})
          ELSE /\ UNCHANGED <<nboth, nwalk, nmulti>>
               /\ nq' = nq + Cardinality(DOMAIN e.q)
               /\ viol' = viol \cup {Sig("query-differs:" \o k, "state=" \o e.state, e) : k \in {x \in DOMAIN e.q : e.q[x].native # e.q[x].precompile}}
TraceSpec == TraceInit /\ [][TraceNext]_tvars
Report == l <= Len(Trace) \/
          PrintT(<<"RESULT", ToJson([consumed |-> l - 1, scenarios |-> l - 1, both_ok |-> nboth, queries |-> nq, walks |-> nwalk, walks_multi |-> nmulti, viol |-> viol, div |-> {}])>>)
=============================================================================
