SPECIFICATION CalcSpec
CONSTANTS
  BaseMax = 12
  GMax = 12
  MaxGases = {"8"}
  ElasticityMax = 2
  DenominatorMax = 2
  MinGasPrices = {"0", "3000000000000000000"}
  InitBases = {}
  InitMaxGases = {}
  ParamSets = {}
  Gases = {}
  Useds = {}
  SetMaxGases = {}
  SetBases = {}
  MaxAnte = 0
  MaxBlocks = 0
  MaxSets = 0
  MaxBounds = 0
  MaxLen = 0
  Defects = {}
INVARIANT NonThm_MonotoneEverywhere
CHECK_DEADLOCK FALSE
