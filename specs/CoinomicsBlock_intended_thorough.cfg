SPECIFICATION BSpec
CONSTANTS
  Starts = {}
  Dts = {}
  Bondeds = {}
  Coeffs = {}
  MaxDists = {}
  MaxAbs = {}
  MaxDenoms = {"aISLM"}
  ExtDeltas = {}
  InitSupply = "20000000000000000000000000000"
  MaxLen = 0
  Defects = {}
  BStakeChoices <- MC_StakesSmall
  BMaxVals = {2, 3}
  BCoeffs = {"7800000000000000000", "50000000000000000000"}
  BDistMults = {0, 2}
  BDistOffs = {"1"}
  BStarts = {"1735689540000"}
  BDts = {"1000", "6000"}
  BVotingMs = {"6000"}
  BWindows = {2}
  BJailMs = {"6000"}
  BDelAmts = {"150000000000000000000"}
  BMaxLen = 4
PROPERTY BStep_P
VIEW BView
CHECK_DEADLOCK FALSE
