SPECIFICATION Spec
CONSTANTS
  Signers = {"s1"}
  Nonces <- MC_Nonces
  Routes = {"eth-dynamicfee","cosmos-direct"}
  Quals = {"good","badsig","foreign"}
  MaxSub = 3
  MaxBlocks = 1
  MaxEvents = 0
  MaxLen = 0
  Defects = {"check_leaks"}
INVARIANT MInv_Once
INVARIANT MInv_Executed
PROPERTY MStep_P
VIEW View
CHECK_DEADLOCK FALSE
