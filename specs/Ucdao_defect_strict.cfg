SPECIFICATION Spec
CONSTANTS
  Accts = {"a1","a2"}
  Denoms = {"aISLM"}
  BadDenoms = {"bad"}
  Amts = {"0","1","2"}
  Ratios <- MC_Ratios
  InitBank = "3"
  MaxLen = 3
  Defects = {"dao_self_transfer"}
  Foreign = {}
  BankAmts = {}
INVARIANT MInv_Strict
VIEW View
CHECK_DEADLOCK FALSE
