--------------------------- MODULE FeeMarketTrace ---------------------------
(* Validates traces recorded from the real x/feemarket keeper, ante decorator and ABCI    *)
(* hooks (harness/feemarket.go) against the property layer P of FeeMarket (verdict) and    *)
(* against the as-built machine M (diagnostic).  Deterministic and total: every line is    *)
(* consumed, the model re-synchronises on the logged state, violations are accumulated as  *)
(* signatures.                                                                             *)
(*   viol   P broken on a real output                      -> verdict                      *)
(*   div    the code is not the machine M                  -> diagnostic                   *)
(*   notes  recorded corners on which the statement is silent (panics, fractional min gas  *)
(*          price, non-monotone region below the min gas price, gas beyond MaxInt64)       *)
(*   cover  classes of the definition that were exercised  -> non-vacuity                  *)
EXTENDS FeeMarket

\* gh (declared in FeeMarket) is the recorded history: see GhostNext / SeqOK there
VARIABLES l, viol, div, nscn, notes, cover, nspoke
tvars == <<st, hist, bnd, gh, l, viol, div, nscn, notes, cover, nspoke>>

Trace == ndJsonDeserialize("trace.ndjson")

Sig(kind, class, e) == [prop |-> "C17", kind |-> kind, class |-> class, scn |-> e.scn, line |-> l]
\* a note is kept once per (kind, class), with the first place it was seen
AddNotes(ns, new) == ns \cup {n \in new : ~\E m \in ns : m.kind = n.kind /\ m.class = n.class}
Note(kind, class, e) == [kind |-> kind, class |-> class, scn |-> e.scn, line |-> l]

TraceInit ==
    /\ l = 1 /\ viol = {} /\ div = {} /\ nscn = 0 /\ notes = {} /\ cover = {} /\ nspoke = 0
    /\ gh = [sum |-> "0", clean |-> FALSE, base |-> "0", fig |-> "0", known |-> FALSE, after |-> "init"]
    /\ st = [phase |-> "none"] /\ hist = <<>> /\ bnd = 0

---------------------------------------------------------------------------
(* pure-function lines *)

RowArgs(e, i) ==
    [base |-> e.args.base, g |-> e.args.gs[i], maxGas |-> e.args.maxGas, elasticity |-> e.args.elasticity,
     denominator |-> e.args.denominator, minGasPrice |-> e.args.minGasPrice, noBaseFee |-> e.args.noBaseFee,
     enableHeight |-> e.args.enableHeight, height |-> e.args.height]

PanicClass(a) ==
    IF BigIsZero(a.elasticity) THEN "elasticity=0"
    ELSE IF BigIsZero(PTarget(a.maxGas, a.elasticity)) THEN "T=0,g>0"
    ELSE IF BigIsZero(a.denominator) THEN "denominator=0" ELSE "other"

\* value below a fractional min gas price on the lowering branch (the code truncates it)
BelowFractionalFloor(a, r) ==
    /\ CalcSpeaks(a) /\ r.out = "value" /\ BigLT(a.g, ATarget(a)) /\ ~GeDec(r.fee, a.minGasPrice)

CalcViol(e) ==
    LET n == Len(e.args.gs) IN
    UNION { LET a == RowArgs(e, i)  r == e.res[i] IN
            (IF CalcOK(a, r) THEN {} ELSE {Sig("calc:" \o r.out, CalcClass(a), e)})
            \cup {Sig("calc:bound:" \o b, CalcClass(a), e) : b \in BrokenBounds(a, r)}
            \cup (IF i < n /\ BigLE(a.g, e.args.gs[i + 1]) /\ ~MonotoneOn(a, r, RowArgs(e, i + 1), e.res[i + 1])
                  THEN {Sig("calc:monotone", CalcClass(a) \o "->" \o CalcClass(RowArgs(e, i + 1)), e)} ELSE {})
          : i \in 1..n }

CalcNotes(e) ==
    LET n == Len(e.args.gs) IN
    UNION { LET a == RowArgs(e, i)  r == e.res[i] IN
            (IF r.out = "panic" /\ ~CalcSpeaks(a) THEN {Note("panic", PanicClass(a), e)} ELSE {})
            \cup (IF BelowFractionalFloor(a, r) THEN {Note("fee-below-fractional-min-gas-price", "g<T,clamped", e)} ELSE {})
            \cup (IF i < n
                  THEN LET a2 == RowArgs(e, i + 1)  r2 == e.res[i + 1] IN
                       IF /\ CalcSpeaks(a) /\ CalcSpeaks(a2) /\ r.out = "value" /\ r2.out = "value"
                          /\ ~MonotoneDomain(a) /\ BigLT(r2.fee, r.fee)
                       THEN {Note("non-monotone-below-min-gas-price", CalcClass(a) \o "->" \o CalcClass(a2), e)} ELSE {}
                  ELSE {})
          : i \in 1..n }

CalcDiv(e) ==
    { [ev |-> "calc", class |-> CalcClass(RowArgs(e, i)), scn |-> e.scn, line |-> l, what |-> "result"]
      : i \in {j \in 1..Len(e.args.gs) : CodeCalc(RowArgs(e, j)) # e.res[j]} }

CalcCover(e) == {"calc:" \o CalcClass(RowArgs(e, i)) : i \in 1..Len(e.args.gs)}
CalcSpoke(e) == Cardinality({i \in 1..Len(e.args.gs) : CalcSpeaks(RowArgs(e, i))})

---------------------------------------------------------------------------
(* block-sequence lines *)

StepViol(e, s, t) ==
    (IF StepOK(e, s, t) THEN {}
     ELSE {Sig((IF e.ok THEN "step:" ELSE "failed-step:") \o e.ev, StepClass(e, s), e)})
    \cup (IF FloorKept(e, s, t) THEN {} ELSE {Sig("begin_block:floor", StepClass(e, s), e)})
    \cup (IF BlockFigureOK(gh, e, s, t) THEN {} ELSE {Sig("block:gas-figure", StepClass(e, s), e)})
    \cup (IF SeqOK(gh, e, s, t) THEN {} ELSE {Sig("sequence:base-fee", SeqClass(gh, e, s), e)})

StepNotes(e, s, t) ==
    (IF e.ev = "begin_block" /\ ~e.ok /\ ~BeginSpeaks(ArgsOfState(s, e.args.height))
     THEN {Note("panic:begin_block", IF CalcSpeaks(ArgsOfState(s, e.args.height)) THEN "base-fee>=2^256"
                                     ELSE PanicClass(ArgsOfState(s, e.args.height)), e)} ELSE {})
    \cup (IF e.ev = "begin_block" /\ e.ok
             /\ BelowFractionalFloor(ArgsOfState(s, e.args.height), Val(t.baseFee))
          THEN {Note("fee-below-fractional-min-gas-price", "g<T,clamped", e)} ELSE {})
    \cup (IF e.ev = "end_block" /\ PEnabled(s.params, s.height) /\ ~EndBlockInDomain(s, e.args.used)
             /\ ~BigEq(t.bgw, PGasFigure(s.tgw, s.params.minGasMultiplier, e.args.used))
          THEN {Note("end_block-keeps-stale-figure", "gas>int64", e)} ELSE {})
    \cup (IF e.ev \in Boundaries \cup Upgrades /\ ~e.ok THEN {Note("failed:" \o e.ev, StepClass(e, s), e)} ELSE {})
    \cup (IF e.ev = "ante" /\ e.ok /\ PEnabled(s.params, s.height) /\ ~BigEq(t.tgw, BigAdd(s.tgw, e.args.gas))
          THEN {Note("transient-gas-wanted-wraps-uint64", "gas>int64", e)} ELSE {})

---------------------------------------------------------------------------

TraceNext ==
    /\ l <= Len(Trace)
    /\ LET e == Trace[l] IN
       /\ l' = l + 1
       /\ UNCHANGED <<hist, bnd>>
       /\ CASE e.ev = "calc" ->
                 /\ st' = st /\ gh' = gh /\ nscn' = nscn + 1
                 /\ viol' = viol \cup CalcViol(e)
                 /\ div' = div \cup CalcDiv(e)
                 /\ notes' = AddNotes(notes, CalcNotes(e))
                 /\ cover' = cover \cup CalcCover(e)
                 /\ nspoke' = nspoke + CalcSpoke(e)
            [] e.ev = "reset" ->
                 /\ st' = e.post /\ nscn' = nscn + 1
                 /\ gh' = GhostInit(e.post)
                 /\ UNCHANGED <<viol, div, notes, cover, nspoke>>
            [] OTHER ->
                 /\ st' = e.post /\ nscn' = nscn
                 /\ gh' = GhostNext(gh, e, st, e.post)
                 /\ viol' = viol \cup StepViol(e, st, e.post)
                 /\ div' = div \cup
                      (LET r == MResult(st, e.ev, e.args) IN
                       IF r.ok = e.ok /\ r.post = e.post THEN {}
                       ELSE {[ev |-> e.ev, class |-> StepClass(e, st), scn |-> e.scn, line |-> l,
                              what |-> IF r.ok # e.ok THEN "ok/err" ELSE "post-state"]})
                 /\ notes' = AddNotes(notes, StepNotes(e, st, e.post))
                 /\ cover' = cover \cup {e.ev \o ":" \o StepClass(e, st) \o (IF e.ok THEN "" ELSE ":failed")}
                                   \cup (IF e.ev = "begin_block" /\ gh.known /\ BeginSpeaks(SeqArgs(gh, st, e.args.height))
                                         THEN {"sequence:" \o SeqClass(gh, e, st)} ELSE {})
                 /\ nspoke' = nspoke + (IF e.ev = "begin_block" /\ BeginSpeaks(ArgsOfState(st, e.args.height)) THEN 1 ELSE 0)

TraceSpec == TraceInit /\ [][TraceNext]_tvars

Report == l <= Len(Trace) \/
          PrintT(<<"RESULT", ToJson([consumed |-> l - 1, scenarios |-> nscn, viol |-> viol, div |-> div,
                                     notes |-> notes, cover |-> cover, spoke |-> nspoke])>>)
=============================================================================
