SPECIFICATION TraceSpec
CONSTANTS
  Tier = "full"
INVARIANT Report
CHECK_DEADLOCK FALSE
