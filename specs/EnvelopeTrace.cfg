SPECIFICATION TraceSpec
CONSTANTS
  Tier = "full"
  EnvDefects = {}
INVARIANT Report
CHECK_DEADLOCK FALSE
