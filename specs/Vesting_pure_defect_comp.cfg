SPECIFICATION PureSpec
CONSTANTS
  Denoms = {"aISLM"}
  Defects = {"merge_min_start","clawback_collapsed_span"}
  POffsets = {0,1}
  PMaxPeriods = 2
  PMaxLen = 2
  PAmts = {"0","1"}
  Shapes <- MC_ShapesSmall
  Starts = {0}
  Dts = {1,2}
  MaxNow = 0
  MaxLen = 0
  InitBank = "9"
INVARIANT PureInv_Comp
CHECK_DEADLOCK FALSE
