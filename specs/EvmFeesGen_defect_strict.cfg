SPECIFICATION Spec
CONSTANTS
  Defects = {"cosmos_dynfee_below_floor"}
  Tier = "quick"
INVARIANT Strict
CHECK_DEADLOCK FALSE
