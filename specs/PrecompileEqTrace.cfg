SPECIFICATION TraceSpec
INVARIANT Report
CHECK_DEADLOCK FALSE
