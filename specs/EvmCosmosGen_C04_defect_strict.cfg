SPECIFICATION Spec
CONSTANTS
  Defects = {"stale_overwrite", "no_cosmos_revert"}
  Family = "C04"
INVARIANT Strict
CHECK_DEADLOCK FALSE
