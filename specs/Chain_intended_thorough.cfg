SPECIFICATION Spec
CONSTANTS
  Replicas = {"A","B","C"}
  Inputs = {1,2}
  MaxHeight = 4
  MaxLocal = 4
  MaxLen = 0
  Defects = {}
INVARIANT Agreement
INVARIANT InfoIsLastCommit
PROPERTY LocalStutter
VIEW View
CHECK_DEADLOCK FALSE
