SPECIFICATION SimSpec
CONSTANTS
  Signers = {"s1","s2"}
  Nonces <- MC_Nonces
  Routes = {}
  Quals = {}
  MaxSub = 0
  MaxBlocks = 0
  MaxEvents = 0
  MaxLen = 12
  Defects = {}
CHECK_DEADLOCK FALSE
