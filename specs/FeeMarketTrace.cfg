SPECIFICATION TraceSpec
CONSTANTS
  BaseMax = 0
  GMax = 0
  MaxGases = {}
  ElasticityMax = 0
  DenominatorMax = 0
  MinGasPrices = {}
  InitBases = {}
  InitMaxGases = {}
  ParamSets = {}
  Gases = {}
  Useds = {}
  SetMaxGases = {}
  SetBases = {}
  MaxAnte = 0
  MaxBlocks = 0
  MaxSets = 0
  MaxBounds = 0
  MaxLen = 0
  Defects = {}
INVARIANT Report
CHECK_DEADLOCK FALSE
