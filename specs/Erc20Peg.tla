------------------------------ MODULE Erc20Peg ------------------------------
(***************************************************************************)
(* The ERC20 <-> coin peg of haqq (x/erc20, the bank-send wrapper of       *)
(* x/bank, the ICS-20 middleware of x/erc20).  One scenario = one token    *)
(* pair.                                                                   *)
(*                                                                         *)
(* Property layer P (C10), written from the property statement only:       *)
(*   Inv_*     the backing (in)equalities of the pair                      *)
(*   StepOK    every conversion - by message, by an ERC20 transfer to the  *)
(*             module address, by the bank-send wrapper, by an IBC         *)
(*             callback - debits one representation and credits the other  *)
(*             by exactly the same amount, or changes NEITHER.  P never    *)
(*             asserts that a call is accepted.  What a token contract     *)
(*             does to its own books (a thieving transfer, an allowance)   *)
(*             is the token's business; what the chain mints, burns,       *)
(*             escrows and releases against it is P's business.            *)
(* As-built machine M: one function per entry point, structured like the   *)
(*   code (msg_server.go, evm_hooks.go, x/bank/keeper/msg_server.go,       *)
(*   ibc_callbacks.go), parameterised by the behaviour of the token        *)
(*   contract.  The known deviation of the code from P is the named        *)
(*   member "hook_no_checks" of the CONSTANT Defects: the EVM post-tx hook *)
(*   converts on a Transfer(_, module, n) LOG without the before/after     *)
(*   balance check and without the Approval monitor of the message path.   *)
(*   A second named deviation, "unescrow_receiver_only": when the module   *)
(*   releases escrowed tokens (ConvertCoin on an ERC20-origin pair) the    *)
(*   code verifies the RECEIVER's balance and never its own escrow.        *)
(*   A third, "wrapper_false_is_success": the bank-send wrapper returned   *)
(*   success, without any further check, when transfer() answers false     *)
(*   (repaired in the code, /repo d35d11b; the member stays as a witness   *)
(*   configuration and is no longer part of the as-built machine).         *)
(*                                                                         *)
(* Token contracts.  An ERC20-origin pair is backed by a contract the      *)
(* chain does not control: everything the chain learns about the token it  *)
(* learns from the ANSWERS of balanceOf() / transfer() and from logs.  The *)
(* state below holds the token's TRUE books (what its transfer() really    *)
(* moved); P is stated over the true books ("even against token contracts  *)
(* that misreport balances"), M computes what the keeper SEES (BalRead,    *)
(* the return word of transfer) from the behaviour of the token:           *)
(*   behaviour  honest | delayedMalicious | directManipulation |           *)
(*              selfDestructed | fakeTransferLog   (fixed contracts)       *)
(*            | adv   a switchable adversarial token: it behaves honestly  *)
(*              until its owner arms it (step "arm"); while armed          *)
(*       bal    how balanceOf()/totalSupply() answer:                      *)
(*              true | empty (no return data) | revert | short (16 bytes)  *)
(*              | zero (always 0) | high (true + LIE)                      *)
(*       xfer   what transfer(to, n) does:                                 *)
(*              honest | noop (true, moves nothing) | less (moves n/2)     *)
(*              | more (moves 2n) | elsewhere (n to the thief instead)     *)
(*              | extra (n to `to` AND n more from the caller to the       *)
(*              thief) | retFalse | retEmpty | retShort (moves n, answers  *)
(*              false / nothing / 16 bytes) | refuse (moves nothing and    *)
(*              answers false: the non-reverting way of failing)           *)
(*       shot   always | once (the first transfer while armed disarms the  *)
(*              token: the read BEFORE the transfer is answered in the     *)
(*              armed way, the read AFTER it honestly - "changes between    *)
(*              reads")                                                    *)
(*   The adversarial token logs truthfully what it moved (lying logs are   *)
(*   the fakeTransferLog / delayedMalicious behaviours).                   *)
(*   Scope note (ForgedDelta): a token whose two ANSWERS within one        *)
(*   conversion differ by exactly the converted amount while its transfer  *)
(*   moved something else (value lies with shot = once: "zero"/"high")     *)
(*   forges the only evidence any implementation can have; the scenario    *)
(*   space of the real runs leaves these combinations out and the          *)
(*   configuration Erc20Peg_forged_delta.cfg records that M (and so the    *)
(*   code) mints against nothing for them; one fixed witness scenario      *)
(*   (lib/props/c10.py FORGED_WITNESS) shows it on the real chain.         *)
(*                                                                         *)
(* A state is a record                                                     *)
(*   kind        "coin" (owner = module) | "erc20" (owner = external)      *)
(*   behaviour, bal, xfer, shot   see above ("-" where not applicable)     *)
(*   armed       the adversarial token is switched on                      *)
(*   registered, enabled   the pair in the registry                        *)
(*   alive       the contract still has code                               *)
(*   escrowCoins coins of the pair's denom held by the erc20 module account*)
(*   coinSupply  bank supply of the denom                                  *)
(*   coinBal     [acct -> amount]   (holders and the thief "t")            *)
(*   ibcEscrow   coins of the denom in the ICS-20 channel escrow account   *)
(*               (ERC20 origin: coins in flight over IBC; "0" for vouchers)*)
(*   coinOther   coinSupply - escrowCoins - ibcEscrow - Sum(coinBal)       *)
(*   tokenSupply the token's true total supply                             *)
(*   tokenBal    [acct -> amount]   (the same accounts and the module "m"),*)
(*               true books                                                *)
(*   tokenOther  tokenSupply - Sum(tokenBal)                               *)
(*   allowMT     allowance(module -> thief)   (not constrained by P)       *)
(* Amounts are decimal strings (module BigNum).                            *)
(***************************************************************************)
EXTENDS Integers, Sequences, FiniteSets, FiniteSetsExt, TLC, Json, BigNum

CONSTANTS
    Holders,     \* ordinary accounts, e.g. {"a1","a2"}
    Amts,        \* amounts used by the model, e.g. {"1","2","3"}
    InitBal,     \* initial balance of every holder (coins for "coin", tokens for "erc20")
    MaxLen,      \* bound on the length of a behaviour
    Scenarios,   \* set of <<kind, behaviour, bal, xfer, shot>> the model starts from (MC_* operators)
    Defects      \* subset of {"hook_no_checks", "unescrow_receiver_only", "wrapper_false_is_success"}

Thief  == "t"
Module == "m"
Accts  == Holders \cup {Thief}
BIG    == "1000000000000000000"   \* the allowance ERC20MaliciousDelayed grants
LIE    == "2"                     \* by how much a "high" balanceOf overstates

---------------------------------------------------------------------------
(* helpers *)

Plus(f, a, x)  == [f EXCEPT ![a] = BigAdd(@, x)]
Minus(f, a, x) == [f EXCEPT ![a] = BigSub(@, x)]
Move(f, a, b, x) == Plus(Minus(f, a, x), b, x)
Pos(x) == BigSign(x) > 0

AcctsOf(s) == DOMAIN s.coinBal

\* the two representations (everything P compares when it says "unchanged")
Coins(s)  == <<s.escrowCoins, s.coinSupply, s.coinBal, s.ibcEscrow, s.coinOther>>
Tokens(s) == <<s.tokenSupply, s.tokenBal, s.tokenOther>>
SameBal(s, t) == Coins(s) = Coins(t) /\ Tokens(s) = Tokens(t)

---------------------------------------------------------------------------
(* P: invariants.  burnt = tokens holders destroyed themselves (ghost).    *)
(* A pair whose contract no longer exists has no token side to compare     *)
(* with: the invariants are about living contracts, the step rule (no      *)
(* conversion has an effect) still applies to dead ones.                   *)

Inv_CoinBacked(s)      == (s.kind = "coin" /\ s.alive) => BigLE(s.tokenSupply, s.escrowCoins)
Inv_CoinPeg(s, burnt)  == (s.kind = "coin" /\ s.alive) => BigEq(BigAdd(s.tokenSupply, burnt), s.escrowCoins)
Inv_Erc20Backed(s)     == (s.kind = "erc20" /\ s.alive) => BigLE(s.coinSupply, s.tokenBal[Module])

InvNames == {"coin-origin-underbacked", "coin-origin-peg-broken", "erc20-origin-underbacked"}
InvHolds(n, s, burnt) ==
    CASE n = "coin-origin-underbacked"  -> Inv_CoinBacked(s)
      [] n = "coin-origin-peg-broken"   -> Inv_CoinPeg(s, burnt)
      [] n = "erc20-origin-underbacked" -> Inv_Erc20Backed(s)
BrokenInvariants(s, burnt) == {n \in InvNames : ~InvHolds(n, s, burnt)}

---------------------------------------------------------------------------
(* P: the exact effect of a conversion of x *)

\* coins of `from` become tokens of `to`
C2T(s, from, to, x) ==
    IF s.kind = "coin"
    THEN [s EXCEPT !.coinBal = Minus(@, from, x), !.escrowCoins = BigAdd(@, x),
                   !.tokenSupply = BigAdd(@, x), !.tokenBal = Plus(@, to, x)]
    ELSE [s EXCEPT !.coinBal = Minus(@, from, x), !.coinSupply = BigSub(@, x),
                   !.tokenBal = Plus(Minus(@, Module, x), to, x)]

\* tokens of `from` become coins of `to`
T2C(s, from, to, x) ==
    IF s.kind = "coin"
    THEN [s EXCEPT !.tokenBal = Minus(@, from, x), !.tokenSupply = BigSub(@, x),
                   !.escrowCoins = BigSub(@, x), !.coinBal = Plus(@, to, x)]
    ELSE [s EXCEPT !.tokenBal = Plus(Minus(@, from, x), Module, x),
                   !.coinSupply = BigAdd(@, x), !.coinBal = Plus(@, to, x)]

\* An ERC20-origin pair: the token side is kept by a contract the chain does not control.  What
\* P demands of a conversion of x is what the CHAIN is answerable for: the coin side moves exactly
\* as for C2T / T2C, the module's escrow (true books) moves by exactly x, the party the chain
\* pays in tokens receives exactly x, the party that pays in tokens loses at least x (a token that
\* takes more from its own holder robs the holder, not the peg), and nobody else is touched -
\* except that a thieving token may have credited its thief (the token's business; whether the
\* ESCROW paid for it is what the backing invariant and the exact escrow clause decide).
ThirdOK(s, t, involved) ==
    \A a \in (DOMAIN s.tokenBal) \ involved :
        t.tokenBal[a] = s.tokenBal[a] \/ (s.kind = "erc20" /\ a = Thief /\ BigLE(s.tokenBal[a], t.tokenBal[a]))

C2TOK(s, t, from, to, x) ==
    IF s.kind = "coin" THEN SameBal(t, C2T(s, from, to, x))
    ELSE /\ Coins(t) = Coins(C2T(s, from, to, x))
         /\ IF BigIsZero(x) THEN Tokens(t) = Tokens(s)
            ELSE /\ BigEq(t.tokenBal[Module], BigSub(s.tokenBal[Module], x))
                 /\ BigEq(t.tokenBal[to], BigAdd(s.tokenBal[to], x))
                 /\ ThirdOK(s, t, {Module, to})

T2COK(s, t, from, to, x) ==
    IF s.kind = "coin" THEN SameBal(t, T2C(s, from, to, x))
    ELSE /\ Coins(t) = Coins(T2C(s, from, to, x))
         /\ BigEq(t.tokenBal[Module], BigAdd(s.tokenBal[Module], x))
         /\ BigLE(t.tokenBal[from], BigSub(s.tokenBal[from], x))
         /\ ThirdOK(s, t, {Module, from})

\* an Ethereum transaction transfer(to, n) sent by `from`: what the token does with its own
\* balances is its business; if the chain converted c > 0 then the sender got exactly c coins,
\* against exactly c tokens burned (coin origin) / escrowed (ERC20 origin), taken from the sender
EvmTransferOK(s, t, from) ==
    LET c == IF s.kind = "coin" THEN BigSub(s.escrowCoins, t.escrowCoins)
                                ELSE BigSub(t.coinSupply, s.coinSupply) IN
    /\ BigSign(c) >= 0
    /\ t.coinBal = Plus(s.coinBal, from, c)
    /\ t.coinOther = s.coinOther
    /\ IF s.kind = "coin"
       THEN /\ t.coinSupply = s.coinSupply
            /\ BigEq(t.tokenSupply, BigSub(s.tokenSupply, c))
            /\ t.tokenOther = s.tokenOther
       ELSE /\ t.escrowCoins = s.escrowCoins
            /\ Pos(c) => BigEq(t.tokenBal[Module], BigAdd(s.tokenBal[Module], c))
    /\ Pos(c) => BigLE(t.tokenBal[from], BigSub(s.tokenBal[from], c))

Converted(s, t) == IF s.kind = "coin" THEN BigSub(s.escrowCoins, t.escrowCoins) ELSE BigSub(t.coinSupply, s.coinSupply)
ConvertsExactly(s, t, to, amt) ==
    (to = Module /\ s.registered /\ s.enabled /\ s.alive /\ Pos(amt)
        /\ (s.behaviour \in {"honest", "delayedMalicious"} \/ (s.behaviour = "adv" /\ ~s.armed)))
       => BigEq(Converted(s, t), amt)

\* bank MsgSend of the pair's denom: value amt moves from `from` to `to` in whichever
\* representation; whatever was converted on the way moved both sides of the backing equally
Wealth(s, a) == BigAdd(s.coinBal[a], s.tokenBal[a])
\* (ERC20 origin: the sender loses AT LEAST amt - see ThirdOK for what a thieving token may do)
BankSendOK(s, t, from, to, amt) ==
    /\ IF from = to
       THEN IF s.kind = "coin" THEN BigEq(Wealth(t, from), Wealth(s, from)) ELSE BigLE(Wealth(t, from), Wealth(s, from))
       ELSE /\ IF s.kind = "coin" THEN BigEq(Wealth(t, from), BigSub(Wealth(s, from), amt))
                                  ELSE BigLE(Wealth(t, from), BigSub(Wealth(s, from), amt))
            /\ BigEq(Wealth(t, to), BigAdd(Wealth(s, to), amt))
    /\ \A a \in AcctsOf(s) \ {from, to} : t.coinBal[a] = s.coinBal[a]
    /\ ThirdOK(s, t, {from, to, Module})
    /\ \A a \in {from, to} : BigSign(t.coinBal[a]) >= 0 /\ BigSign(t.tokenBal[a]) >= 0
    /\ t.coinOther = s.coinOther /\ t.tokenOther = s.tokenOther
    /\ IF s.kind = "coin"
       THEN /\ t.coinSupply = s.coinSupply /\ t.tokenBal[Module] = s.tokenBal[Module]
            /\ BigEq(BigSub(t.escrowCoins, s.escrowCoins), BigSub(t.tokenSupply, s.tokenSupply))
       ELSE /\ t.tokenSupply = s.tokenSupply /\ t.escrowCoins = s.escrowCoins
            /\ BigEq(BigSub(t.coinSupply, s.coinSupply), BigSub(t.tokenBal[Module], s.tokenBal[Module]))

\* an IBC callback that credits `inflow` coins to account a - a voucher minted on receive /
\* refund (coin origin), or the pair's own coins released from the channel escrow (ERC20
\* origin: the denomination is native here) - and then converts c >= 0 of a's coins into a's
\* tokens
IbcCredit(s, a, inflow) ==
    IF s.kind = "coin"
    THEN [s EXCEPT !.coinBal = Plus(@, a, inflow), !.coinSupply = BigAdd(@, inflow)]
    ELSE [s EXCEPT !.coinBal = Plus(@, a, inflow), !.ibcEscrow = BigSub(@, inflow)]
IbcInOK(s, t, a, inflow) ==
    LET s1 == IbcCredit(s, a, inflow)
        c  == BigSub(s1.coinBal[a], t.coinBal[a]) IN
    /\ BigSign(c) >= 0
    /\ C2TOK(s1, t, a, a, c)

\* what a step of each kind may have done (P).  e: [ev, args, ok]; s before; t after.
StepOK(e, s, t) ==
    IF ~e.ok THEN SameBal(s, t)
    ELSE CASE e.ev = "convert_coin" ->
                 C2TOK(s, t, e.args.from, e.args.to, e.args.amt) \/ SameBal(t, s)
           [] e.ev = "convert_erc20" ->
                 T2COK(s, t, e.args.from, e.args.to, e.args.amt) \/ SameBal(t, s)
           \* ... and against a token that moves exactly what it is asked to move, a successful transfer to the module
           \* address of a usable pair IS a conversion of exactly that amount ("debits one representation and credits
           \* the other by exactly the same amount or fails without effect")
           [] e.ev = "evm_transfer" -> EvmTransferOK(s, t, e.args.from) /\ ConvertsExactly(s, t, e.args.to, e.args.amt)
           \* several transfers to the module in ONE Ethereum transaction (a forwarding contract that pulls
           \* the holder's tokens): the same relation between what left the holder and what was converted
           [] e.ev = "evm_batch" -> EvmTransferOK(s, t, e.args.from) /\ ConvertsExactly(s, t, Module, BigMul(e.args.amt, BigOfInt(e.args.k)))
           [] e.ev = "bank_send" -> BankSendOK(s, t, e.args.from, e.args.to, e.args.amt)
           [] e.ev = "ibc_recv" -> IbcInOK(s, t, e.args.to, e.args.amt)
           [] e.ev \in {"ibc_ack", "ibc_timeout"} -> IbcInOK(s, t, e.args.from, e.args.refund)
           [] e.ev = "ibc_out" ->      \* coins leave over IBC: escrowed in the channel account
                 SameBal(t, [s EXCEPT !.coinBal = Minus(@, e.args.from, e.args.amt),
                                      !.ibcEscrow = BigAdd(@, e.args.amt)]) \/ SameBal(t, s)
           [] e.ev = "evm_approve" -> SameBal(t, s)    \* an approval is not a conversion
           [] e.ev = "toggle" -> SameBal(t, s)
           [] e.ev = "arm" -> SameBal(t, s)            \* the token's owner flips its switch: no conversion
           [] e.ev = "holder_burn" ->
                 /\ Coins(t) = Coins(s)
                 /\ s.kind = "coin" =>
                      Tokens(t) = Tokens([s EXCEPT !.tokenBal = Minus(@, e.args.from, e.args.amt),
                                                   !.tokenSupply = BigSub(@, e.args.amt)])
           [] e.ev = "thief_drain" -> Coins(t) = Coins(s) /\ (s.kind = "coin" => Tokens(t) = Tokens(s))
           [] e.ev = "destroy" -> Coins(t) = Coins(s)          \* environment step
           [] OTHER -> FALSE

\* how a step reaches the conversion code
PathOf(ev) ==
    CASE ev \in {"convert_coin", "convert_erc20"} -> "msg"
      [] ev \in {"evm_transfer", "evm_approve", "evm_batch", "arm"} -> "hook"
      [] ev = "bank_send" -> "bank"
      [] ev \in {"ibc_recv", "ibc_ack", "ibc_timeout", "ibc_out"} -> "ibc"
      [] ev = "holder_burn" -> "burn"
      [] ev = "thief_drain" -> "drain"
      [] OTHER -> ev

OriginOf(s) == IF s.kind = "coin" THEN "coin-origin" ELSE "erc20-origin"

\* the name of a token behaviour in a violation signature
BehName(s) == IF s.behaviour = "adv" THEN "adv(" \o s.bal \o "/" \o s.xfer \o "/" \o s.shot \o ")" ELSE s.behaviour

---------------------------------------------------------------------------
(* M: token contract behaviours.  transfer(to, n) called by `caller`:       *)
(* [ok (did not revert), tb (true balances after), al (allowance            *)
(*  module->thief after), appr (an Approval event was emitted), logs        *)
(*  (Transfer events), ret (the answer: "true" | "false" | "bad" = does not  *)
(*  decode as one bool word), armed (the adversarial switch after the call)] *)

TLog(f, t, n) == [from |-> f, to |-> t, n |-> n]
TokFail(s) == [ok |-> FALSE, tb |-> s.tokenBal, al |-> s.allowMT, appr |-> FALSE, logs |-> <<>>,
               ret |-> "true", armed |-> s.armed]

IsAdv(s)  == s.behaviour = "adv"
Active(s) == IsAdv(s) /\ s.armed

\* what balanceOf(a) ANSWERS: [ok (an answer that decodes as one uint256 word), v]
FailReads == {"empty", "revert", "short"}
BalRead(s, a) ==
    IF ~Active(s) \/ s.bal = "true" THEN [ok |-> TRUE, v |-> s.tokenBal[a]]
    ELSE IF s.bal \in FailReads THEN [ok |-> FALSE, v |-> "0"]
    ELSE IF s.bal = "zero" THEN [ok |-> TRUE, v |-> "0"]
    ELSE [ok |-> TRUE, v |-> BigAdd(s.tokenBal[a], LIE)]          \* "high"

\* the switchable adversarial token (harness/erc20peg.go epAdvTokenCode); legs are ordinary
\* sequential balance moves, each needing cover
AdvTransfer(s, caller, to, n) ==
    LET tb == s.tokenBal
        x  == IF s.armed THEN s.xfer ELSE "honest"
        after == IF s.armed /\ s.shot = "once" THEN FALSE ELSE s.armed
        Out(tb2, logs, ret) == [ok |-> TRUE, tb |-> tb2, al |-> s.allowMT, appr |-> FALSE, logs |-> logs,
                                ret |-> ret, armed |-> after]
        Leg(bal, t2, m) == Move(bal, caller, t2, m)
    IN
    CASE x \in {"honest", "retFalse", "retEmpty", "retShort"} ->
           IF BigLE(n, tb[caller])
           THEN Out(Leg(tb, to, n), <<TLog(caller, to, n)>>,
                    IF x = "honest" THEN "true" ELSE IF x = "retFalse" THEN "false" ELSE "bad")
           ELSE TokFail(s)
      [] x = "noop" -> Out(tb, <<>>, "true")
      [] x = "refuse" -> Out(tb, <<>>, "false")
      [] x = "less" ->
           LET h == BigQuo(n, "2") IN
           IF BigLE(h, tb[caller]) THEN Out(Leg(tb, to, h), <<TLog(caller, to, h)>>, "true") ELSE TokFail(s)
      [] x = "more" ->
           LET d == BigMul(n, "2") IN
           IF BigLE(d, tb[caller]) THEN Out(Leg(tb, to, d), <<TLog(caller, to, d)>>, "true") ELSE TokFail(s)
      [] x = "elsewhere" ->
           IF BigLE(n, tb[caller]) THEN Out(Leg(tb, Thief, n), <<TLog(caller, Thief, n)>>, "true") ELSE TokFail(s)
      [] x = "extra" ->
           LET tb1 == Leg(tb, to, n) IN
           IF BigLE(n, tb[caller]) /\ BigLE(n, tb1[caller])
           THEN Out(Leg(tb1, Thief, n), <<TLog(caller, to, n), TLog(caller, Thief, n)>>, "true")
           ELSE TokFail(s)

TokTransfer(s, caller, to, n) ==
    LET b == s.behaviour  tb == s.tokenBal
        Fixed(tb2, al, appr, logs) == [ok |-> TRUE, tb |-> tb2, al |-> al, appr |-> appr, logs |-> logs,
                                       ret |-> "true", armed |-> s.armed] IN
    CASE b = "adv" -> AdvTransfer(s, caller, to, n)
      [] b \in {"honest", "selfDestructed"} ->
           IF BigLE(n, tb[caller])
           THEN Fixed(Move(tb, caller, to, n), s.allowMT, FALSE, <<TLog(caller, to, n)>>)
           ELSE TokFail(s)
      [] b = "delayedMalicious" ->
           \* _approve(recipient, thief, 10^18) and then an ordinary transfer
           IF BigLE(n, tb[caller])
           THEN Fixed(Move(tb, caller, to, n), IF to = Module THEN BIG ELSE s.allowMT, TRUE,
                      <<TLog(caller, to, n)>>)
           ELSE TokFail(s)
      [] b = "directManipulation" ->
           \* amount - amount/2 goes to the thief, amount/2 to the recipient
           \* (two ordinary transfers in a row: when the caller is the thief himself the first
           \* leg is a self-transfer and only the second needs covering)
           LET half == BigQuo(n, "2")  rest == BigSub(n, half)
               tb1  == Move(tb, caller, Thief, rest) IN
           IF BigLE(rest, tb[caller]) /\ BigLE(half, tb1[caller])
           THEN Fixed(Move(tb1, caller, to, half), s.allowMT, FALSE,
                      <<TLog(caller, Thief, rest), TLog(caller, to, half)>>)
           ELSE TokFail(s)
      [] b = "fakeTransferLog" ->
           \* emits Transfer(caller, to, n), returns true, moves nothing
           Fixed(tb, s.allowMT, FALSE, <<TLog(caller, to, n)>>)

\* the token state after a transfer that was not rolled back
AfterTok(s, r) == [s EXCEPT !.tokenBal = r.tb, !.allowMT = r.al, !.armed = r.armed]

\* the keeper's evidence for "account a's balance moved by exactly d" (d may be negative) across
\* a transfer r: both ANSWERS decode and differ by d
SeenDelta(s, r, a, d) ==
    LET b0 == BalRead(s, a)  b1 == BalRead(AfterTok(s, r), a) IN
    b0.ok /\ b1.ok /\ BigEq(b1.v, BigAdd(b0.v, d))
TransferAccepted(r) == r.ok /\ r.ret = "true"

Rej(s) == [ok |-> FALSE, post |-> s]
Acc(t) == [ok |-> TRUE, post |-> t]

\* MintingEnabled (mint.go) as far as the scenarios vary it
PairUsable(s) == s.registered /\ s.enabled

\* a pair removed from the registry reads as not registered and not enabled
Deleted(s) == [s EXCEPT !.registered = FALSE, !.enabled = FALSE]

\* msg_server.go ConvertCoin
MConvertCoin(s, from, to, amt) ==
    IF ~PairUsable(s) THEN Rej(s)
    ELSE IF ~s.alive THEN Acc(Deleted(s))     \* pair deleted, nil error
    ELSE IF ~BigLE(amt, s.coinBal[from]) THEN Rej(s)
    ELSE IF s.kind = "coin" THEN Acc(C2T(s, from, to, amt))        \* escrow, mint, balance check
    ELSE \* escrow coins, module transfer(receiver), return value, receiver balance check,
         \* burn, Approval monitor
         \* As built the module never looks at its OWN balance ("unescrow_receiver_only"); the
         \* intended design also requires the escrow to have shrunk by exactly amt.
         LET r == TokTransfer(s, Module, to, amt) IN
         IF TransferAccepted(r) /\ SeenDelta(s, r, to, amt) /\ ~r.appr
            /\ ("unescrow_receiver_only" \in Defects \/ to = Module \/ SeenDelta(s, r, Module, BigSub("0", amt)))
         THEN Acc([AfterTok(s, r) EXCEPT !.coinBal = Minus(@, from, amt), !.coinSupply = BigSub(@, amt)])
         ELSE Rej(s)

\* msg_server.go ConvertERC20
MConvertERC20(s, from, to, amt) ==
    IF ~PairUsable(s) THEN Rej(s)
    ELSE IF ~s.alive THEN Acc(Deleted(s))
    ELSE IF s.kind = "coin"
    THEN \* burnCoins(sender), unescrow, both balance checks
         IF BigLE(amt, s.tokenBal[from]) /\ BigLE(amt, s.escrowCoins) THEN Acc(T2C(s, from, to, amt)) ELSE Rej(s)
    ELSE \* sender transfer(module), return value, escrow balance check, mint, coin balance
         \* check, Approval monitor
         LET r == TokTransfer(s, from, Module, amt) IN
         IF TransferAccepted(r) /\ SeenDelta(s, r, Module, amt) /\ ~r.appr
         THEN Acc([AfterTok(s, r) EXCEPT !.coinSupply = BigAdd(@, amt), !.coinBal = Plus(@, to, amt)])
         ELSE Rej(s)

\* an Ethereum transaction transfer(to, amt) from `from`, followed by evm_hooks.go
\* PostTxProcessing over the receipt's logs.  As built ("hook_no_checks") the hook trusts the
\* log: pair registered and enabled, recipient = module, amount > 0 - nothing else.  The
\* intended design applies the checks of the message path and rejects the transaction.
ConvLogs(r) == SelectSeq(r.logs, LAMBDA lg : lg.to = Module /\ Pos(lg.n))
MEvmTransfer(s, from, to, amt) ==
    IF ~s.alive THEN Acc(s)                           \* a call to an account without code succeeds
    ELSE LET r == TokTransfer(s, from, to, amt) IN
    IF ~r.ok THEN Rej(s)
    ELSE LET s1 == AfterTok(s, r)
             cl == ConvLogs(r) IN
         IF ~PairUsable(s) \/ cl = <<>> THEN Acc(s1)
         ELSE LET n == cl[1].n  f == cl[1].from IN
              IF "hook_no_checks" \notin Defects
                 /\ (r.appr \/ ~BigEq(r.tb[Module], BigAdd(s.tokenBal[Module], n)))
              THEN Rej(s)
              ELSE IF s.kind = "coin"
                   THEN \* module burns what it received, releases the escrowed coins
                        Acc([s1 EXCEPT !.tokenBal = Minus(@, Module, n), !.tokenSupply = BigSub(@, n),
                                       !.escrowCoins = BigSub(@, n), !.coinBal = Plus(@, f, n)])
                   ELSE Acc([s1 EXCEPT !.coinSupply = BigAdd(@, n), !.coinBal = Plus(@, f, n)])

\* x/bank/keeper/msg_server.go Send -> sendCoinsWithERC20 -> subUnlockedERC20Tokens
MBankSend(s, from, to, amt) ==
    IF ~PairUsable(s)
    THEN IF BigLE(amt, s.coinBal[from]) THEN Acc([s EXCEPT !.coinBal = Move(@, from, to, amt)]) ELSE Rej(s)
    ELSE IF ~s.alive THEN Rej(s)                       \* balanceOf cannot be read
    ELSE LET sp == s.coinBal[from]
             bf == BalRead(s, from) IN                 \* the sender's token balance AS ANSWERED
         IF ~bf.ok THEN Rej(s)
         ELSE IF BigLT(BigAdd(sp, bf.v), amt) THEN Rej(s)
         ELSE LET c1 == IF BigIsZero(sp) THEN Acc(s) ELSE MConvertCoin(s, from, from, sp) IN
              IF ~c1.ok THEN Rej(s)
              ELSE LET s1 == c1.post
                       r  == TokTransfer(s1, from, to, amt) IN
                   \* As built ("wrapper_false_is_success") an answer `false` ends the wrapper with
                   \* SUCCESS on the spot: it returns errorsmod.Wrap(err, ..) with err = nil, which
                   \* is nil - no balance comparison, no Approval monitor.
                   IF r.ok /\ r.ret = "false" /\ "wrapper_false_is_success" \in Defects THEN Acc(AfterTok(s1, r))
                   ELSE IF TransferAccepted(r) /\ SeenDelta(s1, r, to, amt) /\ ~r.appr
                   THEN Acc(AfterTok(s1, r))
                   ELSE Rej(s)

\* ICS-20 receive (voucher minted to the receiver) followed by ibc_callbacks.go OnRecvPacket,
\* which converts the receiver's WHOLE balance; an error acknowledgement reverts everything
\* (ERC20 origin: the coins come back out of the channel escrow, which must hold them)
MIbcRecv(s, to, amt) ==
    LET s1 == IbcCredit(s, to, amt) IN
    IF s.kind = "erc20" /\ ~BigLE(amt, s.ibcEscrow) THEN Rej(s)
    ELSE IF ~PairUsable(s) THEN Acc(s1)
    ELSE LET c == MConvertCoin(s1, to, to, s1.coinBal[to]) IN IF c.ok THEN c ELSE Rej(s)

\* ICS-20 refund (error acknowledgement / timeout) followed by ConvertCoinToERC20FromPacket;
\* a failing conversion (e.g. disabled pair) fails the whole callback
MIbcRefund(s, from, amt) ==
    LET s1 == IbcCredit(s, from, amt) IN
    IF BigIsZero(amt) THEN Acc(s)
    ELSE IF s.kind = "erc20" /\ ~BigLE(amt, s.ibcEscrow) THEN Rej(s)
    ELSE IF ~s.registered THEN Acc(s1)
    ELSE LET c == MConvertCoin(s1, from, from, amt) IN IF c.ok THEN c ELSE Rej(s)

\* the escrow half of an outgoing ICS-20 transfer of the pair's own denomination (harness
\* emulation of MsgTransfer: no channel exists in the scenarios)
MIbcOut(s, from, amt) ==
    IF BigLE(amt, s.coinBal[from])
    THEN Acc([s EXCEPT !.coinBal = Minus(@, from, amt), !.ibcEscrow = BigAdd(@, amt)]) ELSE Rej(s)

\* (the hand-assembled tokens answer every other selector with a zero word and do nothing)
MHolderBurn(s, from, amt) ==
    IF ~s.alive \/ s.behaviour \in {"fakeTransferLog", "adv"} THEN Acc(s)
    ELSE IF BigLE(amt, s.tokenBal[from])
         THEN Acc([s EXCEPT !.tokenBal = Minus(@, from, amt), !.tokenSupply = BigSub(@, amt)])
         ELSE Rej(s)

\* the thief's transferFrom(module, thief, amt)
MThiefDrain(s, amt) ==
    IF ~s.alive \/ s.behaviour \in {"fakeTransferLog", "adv"} THEN Acc(s)
    ELSE IF BigLE(amt, s.allowMT) /\ BigLE(amt, s.tokenBal[Module])
         THEN Acc([s EXCEPT !.tokenBal = Move(@, Module, Thief, amt), !.allowMT = BigSub(@, amt)])
         ELSE Rej(s)

MDestroy(s) ==
    IF ~s.alive THEN Rej(s)
    ELSE Acc([s EXCEPT !.alive = FALSE, !.tokenSupply = "0", !.tokenOther = "0", !.allowMT = "0",
                       !.tokenBal = [a \in DOMAIN @ |-> "0"]])

\* M as a function: the outcome [ok, post] the code produces for (ev, args) in state s
\* k transfers of amt to the module in one transaction, all or nothing
RECURSIVE MEvmBatch(_, _, _, _)
MEvmBatch(s, from, amt, k) ==
    LET r1 == MEvmTransfer(s, from, Module, amt) IN
    IF ~r1.ok THEN Rej(s) ELSE IF k <= 1 THEN r1
    ELSE LET r2 == MEvmBatch(r1.post, from, amt, k - 1) IN IF r2.ok THEN r2 ELSE Rej(s)

MResult(s, ev, args) ==
    CASE ev = "convert_coin"  -> MConvertCoin(s, args.from, args.to, args.amt)
      [] ev = "convert_erc20" -> MConvertERC20(s, args.from, args.to, args.amt)
      [] ev = "evm_transfer"  -> MEvmTransfer(s, args.from, args.to, args.amt)
      [] ev = "evm_batch"     -> MEvmBatch(s, args.from, args.amt, args.k)
      [] ev = "bank_send"     -> MBankSend(s, args.from, args.to, args.amt)
      [] ev = "ibc_recv"      -> MIbcRecv(s, args.to, args.amt)
      [] ev \in {"ibc_ack", "ibc_timeout"} -> MIbcRefund(s, args.from, args.refund)
      [] ev = "ibc_out"       -> MIbcOut(s, args.from, args.amt)
      \* approve(spender, amt) by a holder: an Approval log, which the hook skips; the only
      \* allowance the state tracks is module -> thief, which a holder cannot set
      [] ev = "evm_approve"   -> Acc(s)
      [] ev = "toggle"        -> IF s.registered THEN Acc([s EXCEPT !.enabled = ~@]) ELSE Rej(s)
      \* the owner's arm(on) transaction; the fixed contracts have no such function and revert
      [] ev = "arm"           -> IF IsAdv(s) THEN Acc([s EXCEPT !.armed = args.on]) ELSE Rej(s)
      [] ev = "holder_burn"   -> MHolderBurn(s, args.from, args.amt)
      [] ev = "thief_drain"   -> MThiefDrain(s, args.amt)
      [] ev = "destroy"       -> MDestroy(s)

---------------------------------------------------------------------------
(* M: the state machine *)

VARIABLES st, hist, burnt, leak
vars == <<st, hist, burnt, leak>>

InitState(k, b, bm, xm, sh) ==
    [ kind |-> k, behaviour |-> b, bal |-> bm, xfer |-> xm, shot |-> sh, armed |-> FALSE,
      registered |-> TRUE, enabled |-> TRUE, alive |-> TRUE,
      escrowCoins |-> "0",
      coinBal     |-> [a \in Accts |-> IF k = "coin" /\ a \in Holders THEN InitBal ELSE "0"],
      coinSupply  |-> IF k = "coin" THEN BigMul(InitBal, BigOfInt(Cardinality(Holders))) ELSE "0",
      ibcEscrow   |-> "0",
      coinOther   |-> "0",
      tokenBal    |-> [a \in Accts \cup {Module} |-> IF k = "erc20" /\ a \in Holders THEN InitBal ELSE "0"],
      tokenSupply |-> IF k = "erc20" THEN BigMul(InitBal, BigOfInt(Cardinality(Holders))) ELSE "0",
      tokenOther  |-> "0",
      allowMT     |-> "0" ]

Init ==
    /\ \E sc \in Scenarios : st = InitState(sc[1], sc[2], sc[3], sc[4], sc[5])
    /\ hist = <<>> /\ burnt = "0" /\ leak = "0"

\* by how much an ERC20-origin pair is under-backed
Shortfall(s) == BigMax("0", BigSub(s.coinSupply, s.tokenBal[Module]))

\* ghost bookkeeping: what holders burnt themselves (coin origin) and what the named defects
\* let escape: the growth of the shortfall on the steps a defect reaches (hook_no_checks: coins
\* minted by the hook against a log without tokens, escrow drained by the thief;
\* unescrow_receiver_only: a release of escrowed tokens by an armed token whose transfer takes
\* more from the caller than it delivers)
C2TEvents == {"convert_coin", "bank_send", "ibc_recv", "ibc_ack", "ibc_timeout"}
DefectReaches(s, ev) ==
    \/ "hook_no_checks" \in Defects /\ ev \in {"evm_transfer", "thief_drain"}
    \/ "unescrow_receiver_only" \in Defects /\ ev \in C2TEvents /\ Active(s) /\ s.xfer = "extra"
Do(ev, args) ==
    LET r == MResult(st, ev, args) IN
    /\ st' = r.post
    /\ hist' = Append(hist, [ev |-> ev, args |-> args, ok |-> r.ok])
    /\ burnt' = IF ev = "holder_burn" /\ r.ok /\ st.kind = "coin"
                THEN BigAdd(burnt, BigSub(st.tokenSupply, r.post.tokenSupply)) ELSE burnt
    /\ leak' = IF st.kind = "erc20" /\ r.ok /\ DefectReaches(st, ev)
               THEN LET d == BigSub(Shortfall(r.post), Shortfall(st)) IN
                    IF Pos(d) THEN BigAdd(leak, d) ELSE leak
               ELSE leak

Next ==
    /\ Len(hist) < MaxLen
    /\ \/ \E f \in Accts, t \in Accts, x \in Amts : Do("convert_coin", [from |-> f, to |-> t, amt |-> x])
       \/ \E f \in Accts, t \in Accts, x \in Amts : Do("convert_erc20", [from |-> f, to |-> t, amt |-> x])
       \/ \E f \in Accts, t \in Accts \cup {Module}, x \in Amts : Do("evm_transfer", [from |-> f, to |-> t, amt |-> x])
       \/ \E f \in Accts, t \in Accts, x \in Amts : Do("bank_send", [from |-> f, to |-> t, amt |-> x])
       \/ \E t \in Accts, x \in Amts : Do("ibc_recv", [to |-> t, amt |-> x])
       \/ \E f \in Accts, x \in Amts \cup {"0"} : Do("ibc_ack", [from |-> f, refund |-> x])
       \/ \E f \in Accts, x \in Amts : Do("ibc_timeout", [from |-> f, refund |-> x])
       \/ st.kind = "erc20" /\ \E f \in Accts, x \in Amts : Do("ibc_out", [from |-> f, amt |-> x])
       \/ \E f \in Accts : \E sp \in (Accts \ {f}) \cup {Module}, x \in Amts :
              Do("evm_approve", [from |-> f, spender |-> sp, amt |-> x])
       \/ Do("toggle", [pair |-> "p"])
       \/ IsAdv(st) /\ Do("arm", [on |-> ~st.armed])
       \/ \E f \in Accts, x \in Amts : Do("holder_burn", [from |-> f, amt |-> x])
       \/ st.kind = "erc20" /\ \E x \in Amts : Do("thief_drain", [amt |-> x])
       \/ st.behaviour = "selfDestructed" /\ st.alive /\ Do("destroy", [pair |-> "p"])

Spec == Init /\ [][Next]_vars

---------------------------------------------------------------------------
(* What the exhaustive configurations check *)

MInv_P == BrokenInvariants(st, burnt) = {}
MStep_P == [][hist' # hist => StepOK(hist'[Len(hist')], st, st')]_vars

\* as built: the pair is under-backed by exactly what the named defect let escape
MInv_Compensated ==
    /\ Inv_CoinBacked(st) /\ Inv_CoinPeg(st, burnt)
    /\ (st.kind = "erc20" /\ st.alive) => BigLE(st.coinSupply, BigAdd(st.tokenBal[Module], leak))
    /\ (Defects = {}) => leak = "0"
MInv_Strict == MInv_P
MStep_Compensated ==
    [][hist' # hist =>
         LET e == hist'[Len(hist')] IN
         \/ StepOK(e, st, st')
         \/ ("hook_no_checks" \in Defects /\ e.ev = "evm_transfer" /\ st.kind = "erc20" /\ st.behaviour = "fakeTransferLog")
         \/ ("unescrow_receiver_only" \in Defects /\ st.kind = "erc20" /\ DefectReaches(st, e.ev) /\ e.ev \in C2TEvents)
         \/ ("wrapper_false_is_success" \in Defects /\ e.ev = "bank_send" /\ Active(st) /\ st.xfer = "refuse")]_vars

\* Breadth-first search reaches every state first at its minimal depth, so dropping the history
\* (and its length) from the view loses no state reachable within MaxLen steps; a rejected step
\* leaves st unchanged and therefore adds no state.
View == <<st, burnt, leak>>

---------------------------------------------------------------------------
(* behaviours as scripts for the harness *)

Script == [cfg |-> [kind |-> st.kind, behaviour |-> st.behaviour, bal |-> st.bal, xfer |-> st.xfer, shot |-> st.shot],
           steps |-> hist]
Emit == Len(hist) = MaxLen /\ PrintT(<<"SCRIPT", ToJson(Script)>>) /\ UNCHANGED vars

RAcct(h)  == RandomElement(Accts)
RHold(h)  == IF RandomElement(1..5) = 1 THEN Thief ELSE RandomElement(Holders)
RAmt(h)   == RandomElement(Amts)
\* an account that holds coins / tokens, if there is one (mostly acceptable parameters)
RRich(h, f) == LET rich == {a \in Accts : Pos(f[a])} IN
               IF rich # {} /\ RandomElement(1..6) # 1 THEN RandomElement(rich) ELSE RandomElement(Accts)
RTo(h, a) == IF RandomElement(1..3) = 1 THEN a ELSE RandomElement(Accts)

\* IBC callbacks of an ERC20-origin pair need coins in flight (mostly)
RIbc(h)    == st.kind = "coin" \/ Pos(st.ibcEscrow) \/ RandomElement(1..5) = 1
RIbcAmt(h) == IF st.kind = "erc20" /\ Pos(st.ibcEscrow) /\ RandomElement(1..5) # 1
              THEN BigMin(RAmt(h), st.ibcEscrow) ELSE RAmt(h)
SimNext ==
    /\ Len(hist) < MaxLen
    /\ \/ LET f == RRich(hist, st.coinBal) IN Do("convert_coin", [from |-> f, to |-> RTo(hist, f), amt |-> RAmt(hist)])
       \/ LET f == RRich(hist, st.tokenBal) IN Do("convert_erc20", [from |-> f, to |-> RTo(hist, f), amt |-> RAmt(hist)])
       \/ LET f == RRich(hist, st.tokenBal) IN Do("evm_transfer", [from |-> f, to |-> Module, amt |-> RAmt(hist)])
       \/ LET f == RRich(hist, st.tokenBal) IN Do("evm_transfer", [from |-> f, to |-> RandomElement(Accts \cup {Module}), amt |-> RAmt(hist)])
       \/ st.behaviour = "honest" /\ LET f == RRich(hist, st.tokenBal) IN Do("evm_batch", [from |-> f, amt |-> RAmt(hist), k |-> RandomElement(2..3)])
       \/ LET f == RAcct(hist) IN Do("bank_send", [from |-> f, to |-> RandomElement(Accts), amt |-> RAmt(hist)])
       \/ RIbc(hist) /\ Do("ibc_recv", [to |-> RAcct(hist), amt |-> RIbcAmt(hist)])
       \/ RIbc(hist) /\ Do("ibc_ack", [from |-> RAcct(hist), refund |-> IF RandomElement(1..4) = 1 THEN "0" ELSE RIbcAmt(hist)])
       \/ RIbc(hist) /\ Do("ibc_timeout", [from |-> RAcct(hist), refund |-> RIbcAmt(hist)])
       \/ st.kind = "erc20" /\ LET f == RRich(hist, st.coinBal) IN Do("ibc_out", [from |-> f, amt |-> RAmt(hist)])
       \/ (RandomElement(1..2) = 1 /\ LET f == RAcct(hist) IN
              Do("evm_approve", [from |-> f, spender |-> IF RandomElement(1..2) = 1 THEN Module ELSE RandomElement(Accts \ {f}),
                                 amt |-> RAmt(hist)]))
       \/ ((IF st.enabled THEN RandomElement(1..4) = 1 ELSE TRUE) /\ Do("toggle", [pair |-> "p"]))
       \/ (RandomElement(1..2) = 1 /\ LET f == RRich(hist, st.tokenBal) IN Do("holder_burn", [from |-> f, amt |-> RAmt(hist)]))
       \/ st.kind = "erc20" /\ (Pos(st.allowMT) \/ RandomElement(1..4) = 1) /\ Do("thief_drain", [amt |-> RAmt(hist)])
       \/ st.behaviour = "selfDestructed" /\ st.alive /\ RandomElement(1..3) = 1 /\ Do("destroy", [pair |-> "p"])
SimSpec == Init /\ [][SimNext \/ Emit]_vars

\* a second walk for ERC20-origin pairs that concentrates on coins in flight over IBC: get coins
\* (hook / message), send them out, let the packet time out / fail / come back
HasCoins == \E a \in Accts : Pos(st.coinBal[a])
SimNextIbc ==
    /\ Len(hist) < MaxLen
    /\ \/ LET f == RRich(hist, st.tokenBal) IN Do("evm_transfer", [from |-> f, to |-> Module, amt |-> RAmt(hist)])
       \/ (~HasCoins /\ LET f == RRich(hist, st.tokenBal) IN Do("evm_transfer", [from |-> f, to |-> Module, amt |-> RAmt(hist)]))
       \/ LET f == RRich(hist, st.tokenBal) IN Do("convert_erc20", [from |-> f, to |-> RTo(hist, f), amt |-> RAmt(hist)])
       \/ (HasCoins /\ LET f == RRich(hist, st.coinBal) IN Do("ibc_out", [from |-> f, amt |-> BigMin(RAmt(hist), BigMax("1", st.coinBal[f]))]))
       \/ (Pos(st.ibcEscrow) /\ Do("ibc_timeout", [from |-> RAcct(hist), refund |-> RIbcAmt(hist)]))
       \/ (Pos(st.ibcEscrow) /\ Do("ibc_ack", [from |-> RAcct(hist), refund |-> RIbcAmt(hist)]))
       \/ (Pos(st.ibcEscrow) /\ Do("ibc_recv", [to |-> RAcct(hist), amt |-> RIbcAmt(hist)]))
       \/ (RandomElement(1..8) = 1 /\ Do("toggle", [pair |-> "p"]))
       \/ (RandomElement(1..3) = 1 /\ Do("evm_approve", [from |-> RAcct(hist), spender |-> Module, amt |-> RAmt(hist)]))
       \/ (st.behaviour = "selfDestructed" /\ st.alive /\ RandomElement(1..6) = 1 /\ Do("destroy", [pair |-> "p"]))
SimSpecIbc == Init /\ [][SimNextIbc \/ Emit]_vars

\* a third walk for the adversarial family: while the token is still honest holders convert
\* (tokens get escrowed, coins circulate); its owner arms it; then every conversion path is tried.
\* An attacker picks his amounts adaptively: a model amount, or exactly what the escrow / some
\* account currently holds (the values at which a check that compares balances can be fooled).
RAmtX(h) == LET pos == {x \in {st.tokenBal[a] : a \in DOMAIN st.tokenBal} \cup {st.coinBal[a] : a \in Accts} : Pos(x)}
                r   == RandomElement(1..6) IN
            IF r <= 2 /\ Pos(st.tokenBal[Module]) THEN st.tokenBal[Module]
            ELSE IF r = 3 /\ pos # {} THEN RandomElement(pos) ELSE RAmt(h)
SimNextAdv ==
    /\ Len(hist) < MaxLen
    /\ \/ (~st.armed /\ Len(hist) < 3 /\ LET f == RRich(hist, st.tokenBal) IN
               Do("convert_erc20", [from |-> f, to |-> RTo(hist, f), amt |-> RAmt(hist)]))
       \/ (~st.armed /\ Len(hist) < 3 /\ LET f == RRich(hist, st.tokenBal) IN
               Do("evm_transfer", [from |-> f, to |-> Module, amt |-> RAmt(hist)]))
       \/ (~st.armed /\ Len(hist) >= 1 /\ Do("arm", [on |-> TRUE]))
       \/ (st.armed /\ RandomElement(1..8) = 1 /\ Do("arm", [on |-> FALSE]))
       \* (the message paths twice: two draws, twice the weight)
       \/ (st.armed /\ LET f == RAcct(hist) IN Do("convert_erc20", [from |-> f, to |-> RTo(hist, f), amt |-> RAmtX(hist)]))
       \/ (st.armed /\ LET f == RAcct(hist) IN Do("convert_erc20", [from |-> f, to |-> f, amt |-> RAmtX(hist)]))
       \/ (st.armed /\ LET f == RRich(hist, st.coinBal) IN Do("convert_coin", [from |-> f, to |-> RTo(hist, f), amt |-> RAmtX(hist)]))
       \/ (st.armed /\ LET f == RRich(hist, st.coinBal) IN Do("convert_coin", [from |-> f, to |-> f, amt |-> RAmt(hist)]))
       \/ (st.armed /\ LET f == RRich(hist, st.tokenBal) IN
               Do("evm_transfer", [from |-> f, to |-> IF RandomElement(1..3) = 1 THEN RAcct(hist) ELSE Module, amt |-> RAmtX(hist)]))
       \/ (Len(hist) >= 2 /\ LET f == RAcct(hist) IN Do("bank_send", [from |-> f, to |-> RandomElement(Accts), amt |-> RAmtX(hist)]))
       \/ (HasCoins /\ RandomElement(1..2) = 1 /\ LET f == RRich(hist, st.coinBal) IN
               Do("ibc_out", [from |-> f, amt |-> BigMin(RAmt(hist), BigMax("1", st.coinBal[f]))]))
       \/ (Pos(st.ibcEscrow) /\ Do("ibc_timeout", [from |-> RAcct(hist), refund |-> RIbcAmt(hist)]))
       \/ (Pos(st.ibcEscrow) /\ Do("ibc_ack", [from |-> RAcct(hist), refund |-> RIbcAmt(hist)]))
       \/ (Pos(st.ibcEscrow) /\ Do("ibc_recv", [to |-> RAcct(hist), amt |-> RIbcAmt(hist)]))
       \/ (RandomElement(1..10) = 1 /\ Do("toggle", [pair |-> "p"]))
SimSpecAdv == Init /\ [][SimNextAdv \/ Emit]_vars

---------------------------------------------------------------------------
(* model values for the configurations (cfg files cannot write tuples) *)
Erc20Behaviours == {"honest", "delayedMalicious", "directManipulation", "selfDestructed", "fakeTransferLog"}
FixedTok(k, b) == <<k, b, "-", "-", "-">>
MC_Coin   == {FixedTok("coin", "honest")}
MC_Erc20  == {FixedTok("erc20", b) : b \in Erc20Behaviours}
MC_All    == MC_Coin \cup MC_Erc20
MC_DelayedOnly == {FixedTok("erc20", "delayedMalicious")}
MC_FakeOnly    == {FixedTok("erc20", "fakeTransferLog")}

\* the adversarial family
XferModes == {"honest", "noop", "less", "more", "elsewhere", "extra", "retFalse", "retEmpty", "retShort", "refuse"}
WorstXfer == {"honest", "noop", "more"}    \* with a misreporting balanceOf: an honest transfer, the worst for
                                           \* token -> coin (nothing arrives), the worst for coin -> token (too much leaves)
Adv(b, x, sh) == <<"erc20", "adv", b, x, sh>>
\* every transfer behaviour under a truthful balanceOf
MC_AdvXfer == {Adv("true", x, "always") : x \in XferModes}
\* every balanceOf behaviour: unreadable answers (always, or only until the first transfer), constant lies
MC_AdvBalOf(fails) == {Adv(b, x, sh) : b \in fails, x \in WorstXfer, sh \in {"always", "once"}}
                      \cup {Adv(b, x, "always") : b \in {"zero", "high"}, x \in WorstXfer}
\* M does not tell the three unreadable answers apart: the exhaustive runs take one, the real runs all
MC_AdvModel == MC_AdvXfer \cup MC_AdvBalOf({"empty"})
MC_AdvReal  == MC_AdvXfer \cup MC_AdvBalOf(FailReads)
MC_ExtraOnly == {Adv("true", "extra", "always")}
MC_RefuseOnly == {Adv("true", "refuse", "always")}
\* ForgedDelta (see the header): the two answers of one conversion differ although nothing moved
MC_Forged == {Adv("zero", "noop", "once")}
=============================================================================
