SPECIFICATION Spec
CONSTANTS
  Holders = {"a1","a2"}
  Amts = {"1","2"}
  InitBal = "3"
  MaxLen = 4
  Scenarios <- MC_AdvModel
  Defects = {}
INVARIANT MInv_P
INVARIANT MInv_Compensated
PROPERTY MStep_P
VIEW View
CHECK_DEADLOCK FALSE
