SPECIFICATION SimSpec
CONSTANTS
  MaxLen = 10
  Restarts = TRUE
  Exports = FALSE
  Locals = TRUE
CHECK_DEADLOCK FALSE
