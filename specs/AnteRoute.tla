------------------------------ MODULE AnteRoute ------------------------------
(***************************************************************************)
(* Routing of transactions through the ante handler of haqq (property C06) *)
(*                                                                         *)
(* A transaction is a record                                               *)
(*   msgs : sequence of message trees (the top-level messages)             *)
(*   ext  : sequence of extension-option names                             *)
(* A message tree is a record  [t, auth, kids]  (all three fields always): *)
(*   t = "send"   bank MsgSend                      (harmless)             *)
(*   t = "eth"    evm MsgEthereumTx                 (blocked)              *)
(*   t = "vest"   sdk vesting MsgCreateVestingAccount (blocked)            *)
(*   t = "grant"  authz MsgGrant, auth says what is granted:               *)
(*          "gen_send" | "gen_eth" | "gen_vest"   GenericAuthorization of  *)
(*                     MsgSend / MsgEthereumTx / MsgCreateVestingAccount   *)
(*          "sendauth"  bank SendAuthorization,  "stakeauth" staking       *)
(*                     StakeAuthorization (delegate)                       *)
(*   t = "exec"   authz MsgExec, kids = the wrapped messages               *)
(* Extension options: "eth" ExtensionOptionsEthereumTx, "web3"             *)
(*   ExtensionOptionsWeb3Tx, "dyn" ExtensionOptionDynamicFeeTx, "other" a  *)
(*   well-formed Any that decodes as an extension option but is none of    *)
(*   the three, "unreg" a well-formed Any of a type that is not registered *)
(*   as an extension option at all.                                        *)
(*                                                                         *)
(* Property layer P: MustReject(tx), from the property statement only.     *)
(*   Verdict rule:  MustReject(tx) => the real application rejected tx     *)
(*   and no message handler ran and nothing changed.  P never asserts      *)
(*   that a transaction is accepted.                                       *)
(* As-built machine M: MResult(tx, reg, how): transcription of             *)
(*   app/ante/ante.go (route selection), app/ante/handler_options.go (the  *)
(*   three decorator chains, only the decorators that look at message      *)
(*   types / extension options), app/ante/cosmos/authz.go                  *)
(*   (checkDisabledMsgs with its level counter and cap),                   *)
(*   app/ante/cosmos/reject_msgs.go, and of the tx decoder's interface     *)
(*   registry.  TLC proves  MustReject(tx) => M rejects tx  on the three   *)
(*   families below x all extension-option lists x both registries.        *)
(***************************************************************************)
EXTENDS Integers, Sequences, FiniteSets, TLC, Json, Randomization, SequencesExt

CONSTANTS
    MaxNodes,    \* family (a): every message forest with <= MaxNodes nodes over the full alphabet
    MaxSpine,    \* family (b): chains of 1..MaxSpine nested MsgExec with extra siblings at one level
    MaxSkel,     \* family (c): every shape with <= MaxSkel nodes, all leaves MsgSend but at most one
    MaxExt,      \* extension-option lists of length 0..MaxExt
    \* what the emitter writes to cases.ndjson for the harness
    EmitFullExt,   \* forests with <= EmitFullExt nodes x every extension-option list without "unreg"
                   \* (single messages also with the lists that contain "unreg")
    EmitShortExt,  \* forests with <= EmitShortExt nodes x the short lists (length <= 1, no unknown)
    SampleFull,    \* size of the seeded sample of the remaining forests of family (a); 0 = all
    SampleSkel,    \* size of the seeded sample of family (c); 0 = all
    SpineExts,     \* which extension-option lists the spines are replayed with: "none" | "some"
    Defects        \* named deviations of M (none is known on the pinned tree; used as non-vacuity
                   \* witnesses: with any of them TLC must find a transaction M lets through):
                   \* "inner_flag_not_propagated", "grant_case_removed", "stop_at_first_non_exec",
                   \* "default_route_cosmos_no_ext_check", "no_reject_msgs"

MaxWidth == 3   \* children per MsgExec and top-level messages per transaction: 1..3

---------------------------------------------------------------------------
(* Message trees *)

Leaf(t)  == [t |-> t, auth |-> "-", kids |-> <<>>]
Grant(a) == [t |-> "grant", auth |-> a, kids |-> <<>>]
Exec(ks) == [t |-> "exec", auth |-> "-", kids |-> ks]

Auths    == {"gen_send", "gen_eth", "gen_vest", "sendauth", "stakeauth"}
Alphabet == {Leaf("send"), Leaf("eth"), Leaf("vest")} \cup {Grant(a) : a \in Auths}

\* the message types the application bars from authz (app/ante/handler_options.go passes
\* MsgEthereumTx and sdk vesting MsgCreateVestingAccount to NewAuthzLimiterDecorator)
Blocked == {"eth", "vest"}

\* the message type an authorization lets the grantee execute (Authorization.MsgTypeURL)
AuthTarget(a) ==
    CASE a = "gen_send"  -> "send"
      [] a = "gen_eth"   -> "eth"
      [] a = "gen_vest"  -> "vest"
      [] a = "sendauth"  -> "send"
      [] a = "stakeauth" -> "delegate"

ExtNames == {"eth", "web3", "dyn", "other", "unreg"}
KnownExt == {"eth", "web3", "dyn"}      \* the extension options the chain understands
ExtListsUpTo(n) == UNION {[1..k -> ExtNames] : k \in 0..n}
ExtLists == ExtListsUpTo(MaxExt)

Sel(tx) == IF Len(tx.ext) = 0 THEN "none" ELSE tx.ext[1]

---------------------------------------------------------------------------
(* P: which transactions must be rejected (written from the statement)     *)

RECURSIVE ContainsType(_, _)
ContainsType(n, S) == n.t \in S \/ \E i \in DOMAIN n.kids : ContainsType(n.kids[i], S)

\* some MsgExec, at any depth, wraps (at any depth) a blocked message
RECURSIVE ExecWrapsBlocked(_)
ExecWrapsBlocked(n) ==
    /\ n.t = "exec"
    /\ \E i \in DOMAIN n.kids : ContainsType(n.kids[i], Blocked) \/ ExecWrapsBlocked(n.kids[i])

\* some MsgGrant, anywhere, authorises a blocked message type
RECURSIVE GrantsBlocked(_)
GrantsBlocked(n) ==
    \/ n.t = "grant" /\ AuthTarget(n.auth) \in Blocked
    \/ \E i \in DOMAIN n.kids : GrantsBlocked(n.kids[i])

\* the transaction takes the Ethereum route: it is marked as an Ethereum transaction
OnEthRoute(tx) == Sel(tx) = "eth"

C_EthOutsideEthRoute(tx) == ~OnEthRoute(tx) /\ \E i \in DOMAIN tx.msgs : tx.msgs[i].t = "eth"
C_ExecWrapsBlocked(tx)   == \E i \in DOMAIN tx.msgs : ExecWrapsBlocked(tx.msgs[i])
C_GrantsBlocked(tx)      == \E i \in DOMAIN tx.msgs : GrantsBlocked(tx.msgs[i])
C_UnknownExtension(tx)   == \E j \in DOMAIN tx.ext : tx.ext[j] \notin KnownExt
\* on the Ethereum route only Ethereum messages are covered by the route's fee / nonce /
\* signature rules: anything else there would run without any authentication
C_NonEthOnEthRoute(tx)   == OnEthRoute(tx) /\ \E i \in DOMAIN tx.msgs : tx.msgs[i].t # "eth"

ClauseNames == <<"eth-outside-eth-route", "exec-wraps-blocked", "grant-of-blocked",
                 "unknown-extension", "non-eth-on-eth-route">>
ClauseHolds(c, tx) ==
    CASE c = "eth-outside-eth-route" -> C_EthOutsideEthRoute(tx)
      [] c = "exec-wraps-blocked"    -> C_ExecWrapsBlocked(tx)
      [] c = "grant-of-blocked"      -> C_GrantsBlocked(tx)
      [] c = "unknown-extension"     -> C_UnknownExtension(tx)
      [] c = "non-eth-on-eth-route"  -> C_NonEthOnEthRoute(tx)

MustReject(tx) == \E k \in DOMAIN ClauseNames : ClauseHolds(ClauseNames[k], tx)
FirstClause(tx) == ClauseNames[CHOOSE k \in DOMAIN ClauseNames :
                       /\ ClauseHolds(ClauseNames[k], tx)
                       /\ \A j \in 1..(k-1) : ~ClauseHolds(ClauseNames[j], tx)]

\* an observation o = [rejected, handler_ran, untouched] of the real application
ObservedOK(tx, o) == MustReject(tx) => (o.rejected /\ ~o.handler_ran /\ o.untouched)

---------------------------------------------------------------------------
(* Classes of a violating transaction (what identifies it) *)

\* node predicates by name (recursive operators cannot take operator arguments)
Matches(n, q) ==
    CASE q = "eth"      -> n.t = "eth"
      [] q = "vest"     -> n.t = "vest"
      [] q = "badgrant" -> n.t = "grant" /\ AuthTarget(n.auth) \in Blocked
      [] q = "gen_eth"  -> n.t = "grant" /\ n.auth = "gen_eth"

ArMin(S) == CHOOSE x \in S : \A y \in S : x <= y
\* number of MsgExec around the shallowest node matching q (0 = top level); 99 if none
RECURSIVE MinDepth(_, _, _)
MinDepth(n, q, d) ==
    IF Matches(n, q) THEN d
    ELSE ArMin({99} \cup {MinDepth(n.kids[i], q, d + 1) : i \in DOMAIN n.kids})
MinDepthIn(msgs, q) == ArMin({99} \cup {MinDepth(msgs[i], q, 0) : i \in DOMAIN msgs})
DepthClass(d) == IF d <= 2 THEN ToString(d) ELSE IF d <= 5 THEN "3..5" ELSE "6+"

ClauseDetail(c, tx) ==
    CASE c = "eth-outside-eth-route" ->
           "pos=" \o (IF tx.msgs[1].t = "eth" THEN "first" ELSE "later")
      [] c = "exec-wraps-blocked" ->
           LET ex == SelectSeq(tx.msgs, LAMBDA m : m.t = "exec")
               de == MinDepthIn(ex, "eth")
               dv == MinDepthIn(ex, "vest")
           IN IF de <= dv THEN "type=eth,depth=" \o DepthClass(de) ELSE "type=vest,depth=" \o DepthClass(dv)
      [] c = "grant-of-blocked" ->
           LET d == MinDepthIn(tx.msgs, "badgrant")
               a == IF MinDepthIn(tx.msgs, "gen_eth") = d THEN "gen_eth" ELSE "gen_vest"
           IN "auth=" \o a \o ",depth=" \o DepthClass(d)
      [] c = "unknown-extension" ->
           LET j == CHOOSE j \in DOMAIN tx.ext : tx.ext[j] \notin KnownExt /\ \A k \in 1..(j-1) : tx.ext[k] \in KnownExt
           IN "ext=" \o tx.ext[j] \o ",at=" \o (IF j = 1 THEN "first" ELSE "later")
      [] c = "non-eth-on-eth-route" ->
           LET i == CHOOSE i \in DOMAIN tx.msgs : tx.msgs[i].t # "eth" /\ \A k \in 1..(i-1) : tx.msgs[k].t = "eth"
           IN "type=" \o tx.msgs[i].t

\* the route the first extension option selects
RouteOf(tx) ==
    CASE Sel(tx) \in {"none", "dyn"} -> "cosmos"
      [] Sel(tx) = "web3"            -> "eip712"
      [] Sel(tx) = "eth"             -> "eth"
      [] OTHER                       -> "unknown-option"
TxClass(tx) == "route=" \o RouteOf(tx) \o "," \o ClauseDetail(FirstClause(tx), tx)

---------------------------------------------------------------------------
(* M: the as-built machine *)

\* app/ante/cosmos/authz.go
MaxNestedMsgs == 7
IsDisabled(t) == t \in Blocked

\* checkDisabledMsgs(msgs, isAuthzInnerMsg, nestedLvl): "ok", or which error it returns first
\* ("cap": more nested msgs than permitted, "disabled": found disabled msg type).
\* The Go loop increments its local nestedLvl once per MsgExec *sibling* it meets
\* (`nestedLvl++` inside the range loop), so the k-th MsgExec of one list is scanned one level
\* deeper than the (k-1)-th; the cap is tested on entry (`nestedLvl >= maxNestedMsgs`).
RECURSIVE CheckDisabled(_, _, _), CheckLoop(_, _, _, _)
CheckDisabled(msgs, inner, lvl) ==
    IF lvl >= MaxNestedMsgs THEN "cap" ELSE CheckLoop(msgs, 1, inner, lvl)
CheckLoop(msgs, i, inner, lvl) ==
    IF i > Len(msgs) THEN "ok"
    ELSE LET m == msgs[i] IN
         CASE m.t = "exec"  ->
                  LET r == CheckDisabled(m.kids, IF "inner_flag_not_propagated" \in Defects THEN inner ELSE TRUE, lvl + 1)
                  IN IF r # "ok" THEN r ELSE CheckLoop(msgs, i + 1, inner, lvl + 1)
           [] m.t = "grant" /\ "grant_case_removed" \notin Defects ->
                  IF IsDisabled(AuthTarget(m.auth)) THEN "disabled" ELSE CheckLoop(msgs, i + 1, inner, lvl)
           [] OTHER ->
                  IF inner /\ IsDisabled(m.t) THEN "disabled"
                  ELSE IF "stop_at_first_non_exec" \in Defects THEN "ok"
                  ELSE CheckLoop(msgs, i + 1, inner, lvl)

\* the interface registry of the tx decoder.  reg = "asbuilt": sdk vesting messages are not
\* registered as sdk.Msg and only the three known options implement TxExtensionOptionI;
\* reg = "widened" (harness): MsgCreateVestingAccount and the "other" option are registered too.
Decodes(tx, reg) ==
    /\ \A j \in DOMAIN tx.ext : tx.ext[j] # "unreg" /\ (reg = "asbuilt" => tx.ext[j] # "other")
    /\ reg = "asbuilt" => \A i \in DOMAIN tx.msgs : ~ContainsType(tx.msgs[i], {"vest"})

Verdict(pass, why) == [pass |-> pass, why |-> why]

\* newCosmosAnteHandler / newLegacyCosmosAnteHandlerEip712: the decorators whose outcome depends
\* on the shape of the transaction, in chain order (fees, gas, memo, signatures of the
\* harness-built transactions are in order, except a web3 transaction the legacy EIP-712
\* encoder cannot express: how = "eip712-unsignable")
CosmosChain(tx, eip712, how) ==
    LET lim == CheckDisabled(tx.msgs, FALSE, 1) IN
    IF "no_reject_msgs" \notin Defects /\ \E i \in DOMAIN tx.msgs : tx.msgs[i].t = "eth"
                                              THEN Verdict(FALSE, "RejectMessagesDecorator")
    ELSE IF lim # "ok"                        THEN Verdict(FALSE, "AuthzLimiterDecorator:" \o lim)
    ELSE IF ~eip712 /\ "default_route_cosmos_no_ext_check" \notin Defects /\ \E j \in DOMAIN tx.ext : tx.ext[j] # "dyn"
                                              THEN Verdict(FALSE, "ExtensionOptionsDecorator")
    ELSE IF eip712 /\ Len(tx.ext) # 1         THEN Verdict(FALSE, "SigVerification:options")
    ELSE IF eip712 /\ how = "eip712-unsignable" THEN Verdict(FALSE, "SigVerification:signature")
    ELSE Verdict(TRUE, "-")

\* newEVMAnteHandler: every decorator that looks at messages asserts msg.(*MsgEthereumTx).
\* In DeliverTx with the fee market's MinGasPrice = 0 (what app.Setup configures) the two fee
\* decorators in front short-circuit, so EthValidateBasicDecorator is the first to look: it wants
\* exactly one extension option, then MsgEthereumTx only.  (With MinGasPrice > 0,
\* EthMinGasPriceDecorator would report the foreign message first; the outcome is the same.)
EthChain(tx) ==
    IF Len(tx.ext) # 1                                     THEN Verdict(FALSE, "EthValidateBasicDecorator:options")
    ELSE IF \E i \in DOMAIN tx.msgs : tx.msgs[i].t # "eth" THEN Verdict(FALSE, "evm:not-MsgEthereumTx")
    ELSE Verdict(TRUE, "-")

\* app/ante/ante.go NewAnteHandler: the type URL of the FIRST extension option selects the chain
MResult(tx, reg, how) ==
    IF ~Decodes(tx, reg) THEN Verdict(FALSE, "TxDecoder")
    ELSE CASE Sel(tx) = "none" -> CosmosChain(tx, FALSE, how)
           [] Sel(tx) = "eth"  -> EthChain(tx)
           [] Sel(tx) = "web3" -> CosmosChain(tx, TRUE, how)
           [] Sel(tx) = "dyn"  -> CosmosChain(tx, FALSE, how)
           [] OTHER            -> IF "default_route_cosmos_no_ext_check" \in Defects THEN CosmosChain(tx, FALSE, how)
                                  ELSE Verdict(FALSE, "NewAnteHandler:default")

Regs == {"asbuilt", "widened"}

\* what TLC proves on the enumerated space: whatever P wants rejected, M rejects, in both registries
MCoversP(tx) == MustReject(tx) => \A reg \in Regs : ~MResult(tx, reg, "signed").pass

---------------------------------------------------------------------------
(* The enumerated space.  Everything large is a SEQUENCE (a tuple indexed 1..n): TLC's set    *)
(* union searches linearly, sequences are built in linear time and the constructions below     *)
(* never produce the same forest twice within a family.                                        *)

RECURSIVE SeqSum(_)
SeqSum(c) == IF c = <<>> THEN 0 ELSE Head(c) + SeqSum(Tail(c))
\* ordered ways of splitting m nodes over 1..MaxWidth siblings
Comps(m) == {c \in UNION {[1..k -> 1..m] : k \in 1..MaxWidth} : SeqSum(c) = m}
CompSeq(m) == SetToSeq(Comps(m))

\* TT[n] = the sequence of all trees with exactly n nodes.
\* ProdSeq(TT, c): all forests <<t1, .., tk>> with ti drawn from TT[c[i]]
ProdSeq(TT, c) ==
    CASE Len(c) = 1 -> LET A == TT[c[1]] IN [i \in 1..Len(A) |-> <<A[i]>>]
      [] Len(c) = 2 -> LET A == TT[c[1]]  B == TT[c[2]]  nb == Len(B)
                       IN [i \in 1..(Len(A) * nb) |-> <<A[((i - 1) \div nb) + 1], B[((i - 1) % nb) + 1]>>]
      [] Len(c) = 3 -> LET A == TT[c[1]]  B == TT[c[2]]  D == TT[c[3]]  nb == Len(B)  nd == Len(D)
                       IN [i \in 1..(Len(A) * nb * nd) |->
                             <<A[((i - 1) \div (nb * nd)) + 1], B[(((i - 1) \div nd) % nb) + 1], D[((i - 1) % nd) + 1]>>]
\* all forests (1..MaxWidth trees) with exactly m nodes
ForestSeq(TT, m) == LET cs == CompSeq(m) IN FlattenSeq([k \in 1..Len(cs) |-> ProdSeq(TT, cs[k])])
ForestSeqBetween(TT, lo, hi) == FlattenSeq([k \in 1..(hi - lo + 1) |-> ForestSeq(TT, lo + k - 1)])

\* bottom-up by size: a tree with n > 1 nodes is a MsgExec over a forest with n-1 nodes
RECURSIVE TreesBySize(_, _)
TreesBySize(leaves, n) ==
    IF n = 0 THEN <<>>
    ELSE LET prev == TreesBySize(leaves, n - 1)
         IN Append(prev, IF n = 1 THEN SetToSeq(leaves)
                         ELSE LET fs == ForestSeq(prev, n - 1) IN [i \in 1..Len(fs) |-> Exec(fs[i])])

FullTT == TreesBySize(Alphabet, MaxNodes)
SkelTT == TreesBySize({Leaf("send")}, MaxSkel)

\* (b) spines.  Level 0 is the top-level message list, level i the kids of the i-th MsgExec;
\* the list at level j gets the extra siblings pre / post around the spine
SpineSibs   == {Leaf("send"), Leaf("eth"), Exec(<<Leaf("send")>>)}
SpineBottom == {Leaf("send"), Leaf("eth"), Leaf("vest"), Grant("gen_eth")}
SibConfigs ==
    LET S0 == {<<>>}
        S1 == {<<a>> : a \in SpineSibs}
        S2 == {<<a, b>> : a \in SpineSibs, b \in SpineSibs}
    IN (S0 \X S0) \cup (S1 \X S0) \cup (S0 \X S1) \cup (S2 \X S0) \cup (S1 \X S1) \cup (S0 \X S2)
RECURSIVE SpineLevel(_, _, _, _, _)
SpineLevel(i, d, j, sib, bottom) ==
    LET core == IF i = d THEN <<bottom>> ELSE <<Exec(SpineLevel(i + 1, d, j, sib, bottom))>>
    IN IF i = j THEN sib[1] \o core \o sib[2] ELSE core
SpineShapes == {s \in (1..MaxSpine) \X (0..MaxSpine) : s[2] <= s[1]}
SpineParams == SetToSeq(SibConfigs \X SpineBottom)
SpineSeq(s) == [k \in 1..Len(SpineParams) |-> SpineLevel(0, s[1], s[2], SpineParams[k][1], SpineParams[k][2])]

\* (c) every shape whose leaves are all MsgSend, with at most one leaf replaced by another letter
\* of the alphabet (a blocked message, a grant of a blocked type, or a harmless grant)
Poisons == Alphabet \ {Leaf("send")}
RECURSIVE PoisonOne(_)
PoisonOne(n) ==
    IF n.t # "exec" THEN Poisons
    ELSE {Exec([n.kids EXCEPT ![i] = q]) : <<i, q>> \in UNION {{<<i, q>> : q \in PoisonOne(n.kids[i])} : i \in DOMAIN n.kids}}
PoisonForest(f) ==
    {f} \cup {[f EXCEPT ![i] = q] : <<i, q>> \in UNION {{<<i, q>> : q \in PoisonOne(f[i])} : i \in DOMAIN f}}
PoisonSeq(fs) == FlattenSeq([k \in 1..Len(fs) |-> SetToSeq(PoisonForest(fs[k]))])

---------------------------------------------------------------------------
(* The exhaustive run: a machine of depth 2.  The first step picks a family, an              *)
(* extension-option list and the sizes of the top-level trees (so that TLC's workers share   *)
(* the enumeration), the second step picks the message forest.                                *)

VARIABLE st
vars == <<st>>

\* a family and the sizes of its top-level trees (spines: depth and level of the siblings)
FamComps ==
    {[fam |-> "full", c |-> c] : c \in UNION {Comps(m) : m \in 1..MaxNodes}}
    \cup {[fam |-> "spine", c |-> s] : s \in SpineShapes}
    \cup {[fam |-> "skel", c |-> c] : c \in UNION {Comps(m) : m \in 1..MaxSkel}}
Shapes == {[fc |-> fc, ext |-> e] : fc \in FamComps, e \in ExtLists}

\* the forests of each family member, computed once (a constant)
ForestsOf ==
    [fc \in FamComps |->
        CASE fc.fam = "full"  -> ProdSeq(FullTT, fc.c)
          [] fc.fam = "spine" -> SpineSeq(fc.c)
          [] fc.fam = "skel"  -> PoisonSeq(ProdSeq(SkelTT, fc.c))]

Init == st = [phase |-> "start"]
Next ==
    \/ st.phase = "start" /\ \E s \in Shapes : st' = [phase |-> "shape", shape |-> s]
    \/ st.phase = "shape" /\ \E k \in 1..Len(ForestsOf[st.shape.fc]) :
           st' = [phase |-> "tx", fam |-> st.shape.fc.fam,
                  tx |-> [msgs |-> ForestsOf[st.shape.fc][k], ext |-> st.shape.ext]]
Spec == Init /\ [][Next]_vars

Inv_MCoversP == st.phase = "tx" => MCoversP(st.tx)
Inv_Shape    == st.phase = "tx" => Len(st.tx.msgs) \in 1..MaxWidth

---------------------------------------------------------------------------
(* The emitter: writes the cases the harness executes (cases.ndjson, one per line).          *)
(* All random choices are made in the initial predicate, where TLC's RandomSubset is          *)
(* driven by -seed.                                                                            *)

Case(f, e, src) == [msgs |-> f, ext |-> e, src |-> src]

ShortExts == <<<<>>, <<"eth">>, <<"web3">>, <<"dyn">>>>
\* lists the benign transactions are mostly accepted with, cycled over the samples
GoodExts  == <<<<>>, <<"dyn">>, <<"web3">>, <<"dyn", "dyn">>, <<>>, <<"eth">>>>
AllExtSeq == SetToSeq(ExtLists)

\* every forest of fs with every extension list of es
Cross(fs, es, src) == LET ne == Len(es) IN
    [i \in 1..(Len(fs) * ne) |-> Case(fs[((i - 1) \div ne) + 1], es[((i - 1) % ne) + 1], src)]
\* a seeded sample of k forests of fs (all of them if k = 0), the extension lists of es round robin
SampleZip(k, fs, es, src) ==
    LET idx == IF k = 0 \/ k >= Len(fs) THEN 1..Len(fs) ELSE RandomSubset(k, 1..Len(fs))
        q   == SetToSeq(idx)
    IN [i \in 1..Len(q) |-> Case(fs[q[i]], es[((i - 1) % Len(es)) + 1], src)]

\* (the parameter only keeps TLC from evaluating this eagerly as a constant in every run)
EmitCases(dummy) ==
    LET spines == FlattenSeq([k \in 1..Cardinality(SpineShapes) |-> SpineSeq(SetToSeq(SpineShapes)[k])])
        sext   == IF SpineExts = "none" THEN <<<<>>>> ELSE <<<<>>, <<"dyn">>, <<"web3">>>>
        noUnreg  == SelectSeq(AllExtSeq, LAMBDA e : \A j \in DOMAIN e : e[j] # "unreg")
        hasUnreg == SelectSeq(AllExtSeq, LAMBDA e : \E j \in DOMAIN e : e[j] = "unreg")
    IN  Cross(ForestSeqBetween(FullTT, 1, EmitFullExt), noUnreg, "small")
        \o Cross(ForestSeq(FullTT, 1), hasUnreg, "small")
        \o Cross(ForestSeqBetween(FullTT, EmitFullExt + 1, EmitShortExt), ShortExts, "medium")
        \o SampleZip(SampleFull, ForestSeqBetween(FullTT, EmitShortExt + 1, MaxNodes), noUnreg, "sample")
        \o SampleZip(SampleSkel, PoisonSeq(ForestSeqBetween(SkelTT, 1, MaxSkel)), GoodExts, "skel")
        \o Cross(spines, sext, "spine")

EmitInit ==
    /\ LET q == EmitCases(0) IN
       /\ ndJsonSerialize("cases.ndjson", q)
       /\ PrintT(<<"EMITTED", Len(q)>>)
    /\ st = [phase |-> "emitted"]
EmitSpec == EmitInit /\ [][FALSE]_vars
=============================================================================
