--------------------------- MODULE EvmCosmosTrace ---------------------------
(* Validates recorded Ethereum transactions (harness/evmc.go: real DeliverTx, real keepers) *)
(* against the property layer of EvmCosmos.  One line = one scenario.                       *)
EXTENDS EvmCosmos

VARIABLES l, viol, div, nok
tvars == <<l, viol, div, nok>>

Trace == ndJsonDeserialize("trace.ndjson")

Sig(prop, kind, class, e) == [prop |-> prop, kind |-> kind, class |-> class, scn |-> e.scn, line |-> l]

\* compare everything the specification models (grantVals is observed only)
Cmp(s) == [f \in DOMAIN s \ {"grantVals", "grantExp", "exists"} |-> s[f]]

\* spending from a grant never changes when it expires: for every grant that existed before and still
\* exists after a transaction that contains no approve-family call, the expiration is the same
RECURSIVE HasApprove(_)
HasApproveOp(o) == (o.op = "pc" /\ o.m \in ApproveFamily \cup IbcFamily) \/ (o.op \in {"call", "create"} /\ (HasApprove(o.body) \/ HasApprove(o.alt)))
HasApprove(body) == \E i \in 1..Len(body) : HasApproveOp(body[i])
ExpiryChanged(e) ==
    {<<g, x, t>> \in UNION {UNION {{<<g2, x2, t2>> : t2 \in DOMAIN e.pre.grants[g2][x2]} : x2 \in DOMAIN e.pre.grants[g2]} : g2 \in DOMAIN e.pre.grants} :
        /\ e.pre.grants[g][x][t] \notin {"none", "expired"} /\ e.post.grants[g][x][t] \notin {"none", "expired"}
        /\ e.pre.grantExp[g][x][t] # e.post.grantExp[g][x][t]}

FieldOrder == <<"wd", "deleg", "ubd", "grants", "rewards", "commission", "supply", "bank", "mods", "storage", "nonce", "code", "logs">>
\* all differing fields, in a fixed order, joined with "+"
RECURSIVE JoinFrom(_, _)
JoinFrom(i, diff) == IF i > Len(FieldOrder) THEN ""
                     ELSE LET rest == JoinFrom(i + 1, diff) IN
                          IF FieldOrder[i] \in diff THEN (IF rest = "" THEN FieldOrder[i] ELSE FieldOrder[i] \o "+" \o rest) ELSE rest
FirstField(diff) == LET j == JoinFrom(1, diff) IN IF j = "" THEN "other" ELSE j

Judge(e) ==
    LET r     == Ideal(e)
        ideal == Cmp(r.st)
        post  == Cmp(e.post)
        diff  == DiffFields(post, ideal)
        rev   == HasRevertedFrame(e) \/ HasFailedPc(e)
        \* a reverted frame that made a precompile call is C05's subject; supply and balances of
        \* transactions whose reverted frames are pure EVM are still C02's
        revpc == HasRevertedPc(e) \/ HasFailedPc(e)
        \* is the observed post-state exactly what the as-built machine (with the known defect
        \* mechanisms) predicts?  A deviation the machine does not explain is a different finding.
        \* random call trees (specs/EvmCosmosRand.tla) are classed by the mechanism only: whether the
        \* as-built machine with the known defect mechanisms explains the recorded post-state exactly
        rnd   == e.src = "rand"
        cls   == (IF rnd THEN "random-tree" ELSE Shape(e)) \o (IF Cmp(MTx(e)) = post THEN ",as-built=yes" ELSE ",as-built=NO")
    IN  \* C02: supply and balances
        \* (an outcome the as-built machine does not reproduce is nobody's known finding: it is judged here too)
        (IF revpc /\ Cmp(MTx(e)) = post THEN {} ELSE
           (IF "supply" \in diff THEN {Sig("C02", IF BigLT(ideal.supply, post.supply) THEN "supply-minted" ELSE "supply-burned", cls, e)} ELSE {})
           \cup (IF diff \cap {"bank", "mods"} # {} THEN {Sig("C02", "balance-mismatch", cls, e)} ELSE {}))
        \* C05: a reverted frame (or failed transaction) left a trace
        \cup (IF rev /\ diff # {} THEN {Sig("C05", (IF HasFailedPc(e) THEN "failed-precompile-call-left-trace:" ELSE "reverted-frame-left-trace:") \o (IF rnd THEN "*" ELSE FirstField(diff)), cls, e)} ELSE {})
        \* C04: authorization of successful calls; exact grant accounting
        \cup {Sig("C04", b.k, b.m \o "|" \o cls, e) : b \in r.bad}
        \* ... and a call that was not entitled to act and reported failure has nevertheless left its effect
        \cup {Sig("C04", "unauthorized-call-reported-failure-but-left-effect:" \o b.k, b.m \o "|" \o cls, e) :
                 b \in {x \in r.fbad : /\ FieldsOf(x.m) \cap diff # {}
                                          \* (which of several calls left the trace cannot be read off the end state: the clause speaks
                                          \* where the as-built machine leaves an effect for exactly this reason - the allow-list
                                          \* is checked after the message ran - or where it does not reproduce the outcome at all)
                                          /\ (x.k = "grant-does-not-cover-validator" \/ Cmp(MTx(e)) # post)}}
        \cup (IF ~rev /\ "grants" \in diff THEN {Sig("C04", "grant-accounting", cls, e)} ELSE {})
        \cup (IF ~HasApproveOp(e.top) /\ ExpiryChanged(e) # {} THEN {Sig("C04", "grant-expiration-changed-by-spend", cls, e)} ELSE {})
        \* anything else the precompile did differently from the native meaning
        \cup (IF ~rev /\ diff \cap (CosmosFields \cup {"storage", "nonce", "code", "logs"}) # {} THEN {Sig("C16", "effect-differs-from-native", cls, e)} ELSE {})

TraceInit == l = 1 /\ viol = {} /\ div = {} /\ nok = 0

TraceNext ==
    /\ l <= Len(Trace)
    /\ LET e == Trace[l] IN
       /\ l' = l + 1
       /\ IF e.ev # "tx" THEN UNCHANGED <<viol, div, nok>>
          ELSE /\ viol' = viol \cup Judge(e)
               /\ nok' = nok + (IF TxOk(e) THEN 1 ELSE 0)
               /\ div' = div \cup (IF Cmp(MTx(e)) = Cmp(e.post) THEN {}
                                   ELSE {[scn |-> e.scn, line |-> l, class |-> Shape(e),
                                          what |-> DiffFields(Cmp(e.post), Cmp(MTx(e)))]})

TraceSpec == TraceInit /\ [][TraceNext]_tvars

Report == l <= Len(Trace) \/
          PrintT(<<"RESULT", ToJson([consumed |-> l - 1, scenarios |-> l - 1, txok |-> nok, viol |-> viol, div |-> div])>>)
=============================================================================
