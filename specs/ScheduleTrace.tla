---------------------------- MODULE ScheduleTrace ----------------------------
(* Validates the PURE-FUNCTION lines recorded by `hv vsched` from the real x/vesting code  *)
(* (ReadSchedule, ReadPastPeriodCount, DisjunctPeriods, ConjunctPeriods, AlignSchedules,    *)
(* the account getters, ComputeClawback, Validate) against the denotational property layer  *)
(* of Schedule / Vesting, POINTWISE at every instant of the horizon (verdict), and against  *)
(* the transcriptions M (diagnostic).  Every line is self-contained: inputs and outputs.    *)
(* Deterministic and total: every line is consumed, violations are accumulated.             *)
EXTENDS Vesting

VARIABLES l, viol, div, nscn, nbad
tvars == <<st, hist, inp, l, viol, div, nscn, nbad>>

Trace == ndJsonDeserialize("trace.ndjson")

SetOf(q) == {q[i] : i \in DOMAIN q}
Sig(kind, class, e) == [prop |-> "C09", kind |-> kind, class |-> class, scn |-> e.scn, line |-> l]
Div(what, e) == [ev |-> e.ev, what |-> what, scn |-> e.scn, line |-> l]

\* inputs the statement talks about
InputsOK(D, e) ==
    CASE e.ev = "sched" -> WellFormed(e.s) /\ e.end >= End(e.s) /\ CEq(e.total, Total(D, e.s))
      [] e.ev = "pair"  -> WellFormed(e.a) /\ WellFormed(e.b)
      [] e.ev = "acct"  -> AcctSound(D, e.acct)
      [] OTHER -> TRUE

ClawViol(D, e) ==
    UNION { LET c == e.claw[i] IN
            {Sig(k, ClawbackKindClass(k, D, e.acct, c.t, c.acct), e) : k \in ClawbackKinds(D, e.acct, c.t, c.acct, c.amt)}
            : i \in DOMAIN e.claw }

LineViol(e) ==
    LET D == SetOf(e.D) IN
    IF ~InputsOK(D, e) THEN {Sig("harness-input-not-well-formed", e.ev, e)}
    ELSE CASE e.ev = "sched" ->
                {Sig(k, ReadKindsClass(D, e.s, e.end, e.total, e.ts, e.outs, e.cnts), e) :
                    k \in ReadKinds(D, e.s, e.end, e.total, e.ts, e.outs, e.cnts)}
           [] e.ev = "pair" ->
                {Sig(k, PairClass(e.a, e.b), e) :
                    k \in DisjunctKinds(D, e.a, e.b, e.dis) \cup ConjunctKinds(D, e.a, e.b, e.con) \cup AlignKinds(D, e.a, e.b, e.al)}
           [] e.ev = "acct" ->
                {Sig(k, GetterKindClass(k, D, e.acct, e.g), e) : k \in AllGetterKinds(D, e.acct, e.g)} \cup ClawViol(D, e)
           [] e.ev = "panic" -> {Sig("panic", e.where, e)}
           [] OTHER -> {Sig("unknown-line", e.ev, e)}

\* diagnostic: is the code still the machine TLC explored?
LineDiv(e) ==
    LET D == SetOf(e.D) IN
    CASE e.ev = "sched" ->
            IF /\ \A k \in DOMAIN e.ts : e.outs[k] = MRead(D, e.s.start, e.end, e.s.periods, e.total, e.ts[k])
               /\ \A k \in DOMAIN e.ts : e.cnts[k] = MPastCount(D, e.s.start, e.end, e.s.periods, e.ts[k])
            THEN {} ELSE {Div("read", e)}
      [] e.ev = "pair" ->
            (IF e.dis = MDisjunct(e.a, e.b) THEN {} ELSE {Div("disjunct", e)})
            \cup (IF e.con = MConjunct(D, e.a, e.b) THEN {} ELSE {Div("conjunct", e)})
            \cup (IF e.al = MAlign(e.a, e.b) THEN {} ELSE {Div("align", e)})
      [] e.ev = "acct" ->
            (IF e.acct.valid = MValidate(D, e.acct) THEN {} ELSE {Div("validate", e)})
            \cup (IF \A i \in DOMAIN e.claw :
                       LET c == e.claw[i]
                           m == MComputeClawback(D, e.acct, c.t) IN
                       c.acct = m.acct /\ c.amt = m.amt
                  THEN {} ELSE {Div("compute-clawback", e)})
            \cup (IF \A k \in DOMAIN e.g.ts :
                       \* LockedCoins without delegations: original - min(vested, unlocked)
                       e.g.lockedcoins[k] = CSub(e.acct.orig, CMin(e.g.vested[k], e.g.unlocked[k]))
                  THEN {} ELSE {Div("locked-coins", e)})
            \cup (IF ~HasCap(e.g) \/ \A k \in DOMAIN e.g.ts :
                       /\ e.g.unlockedvested[k] = MUnlockedVested(D, e.acct, e.g.ts[k])
                       /\ e.g.lockedupvested[k] = MLockedUpVested(D, e.acct, e.g.ts[k])
                  THEN {} ELSE {Div("unlocked-vested", e)})
      [] OTHER -> {}

\* only the first occurrence of every signature is kept (nbad counts the violating lines)
NewSigs(vs)  == {v \in vs : ~\E w \in viol : w.kind = v.kind /\ w.class = v.class}
NewDivs(ds)  == {d \in ds : ~\E w \in div : w.ev = d.ev /\ w.what = d.what}

TraceInit ==
    /\ l = 1 /\ viol = {} /\ div = {} /\ nscn = 0 /\ nbad = 0
    /\ st = <<>> /\ hist = <<>> /\ inp = <<>>

TraceNext ==
    /\ l <= Len(Trace)
    /\ LET e == Trace[l] IN
       /\ l' = l + 1
       /\ nscn' = nscn + 1
       /\ LET vs == LineViol(e) IN
          /\ viol' = viol \cup NewSigs(vs)
          /\ nbad' = nbad + (IF vs = {} THEN 0 ELSE 1)
       /\ div' = div \cup NewDivs(LineDiv(e))
       /\ UNCHANGED <<st, hist, inp>>

TraceSpec == TraceInit /\ [][TraceNext]_tvars

Report == l <= Len(Trace) \/
          PrintT(<<"RESULT", ToJson([consumed |-> l - 1, scenarios |-> nscn, viol |-> viol, div |-> div, violating_lines |-> nbad])>>)
=============================================================================
