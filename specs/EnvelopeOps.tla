---------------------------- MODULE EnvelopeOps ----------------------------
(***************************************************************************)
(* Property C18, second part: the envelope API used in SEQUENCES on        *)
(* SHARED objects.                                                         *)
(*                                                                         *)
(* Envelope.tla treats one transaction through one fresh builder: a pure   *)
(* input space.  The functions the envelope passes through are however     *)
(* methods on objects that live longer than one call:                      *)
(*   - a client.TxBuilder is handed to MsgEthereumTx.BuildTx by the        *)
(*     caller and may have built other envelopes before;                   *)
(*   - a decoded Cosmos transaction holds its messages as objects; it can  *)
(*     carry several Ethereum messages; UnwrapEthereumMsg walks over them  *)
(*     and the per-message getters (GetSender, GetSigners, GetFee, ...)    *)
(*     are called on them any number of times, in any order;               *)
(*   - the wrapped message itself is shared between the caller, the        *)
(*     builder and whatever was built from it.                             *)
(* This module is a state machine over those objects.  The operations are  *)
(*   build(tx)        pool message tx .BuildTx(THE shared builder)         *)
(*   pack(txs)        the caller puts several pool messages into the       *)
(*                    shared builder (SetMsgs, summed fee and gas, the     *)
(*                    Ethereum extension option) - scenario construction   *)
(*   encode(src)      TxEncoder on the builder's transaction or on a       *)
(*                    decoded one -> a new wire entry                      *)
(*   decode(w)        TxDecoder on a wire entry -> a new decoded envelope  *)
(*   lookup(env,hash) UnwrapEthereumMsg(&env, hash), hash of any pool      *)
(*                    transaction or a foreign one                         *)
(*   get(env,idx,fn)  one getter of message idx of env (or of the pool)    *)
(*                                                                         *)
(* STATE (a record, the projection the harness logs after every call):     *)
(*   pool : Seq(MsgView)   the wrapped messages, one per signed original   *)
(*   bld  : EnvView        the shared builder's current transaction        *)
(*   wire : Seq([env : Brief, sha])   what was encoded (Brief = hashes of  *)
(*                         the messages, fee, gas, ext at encoding time)   *)
(*   dec  : Seq(EnvView)   the decoded envelopes (live objects)            *)
(* EnvView = [msgs : Seq(MsgView), fee, gas, ext];                         *)
(* MsgView = [h, rec, typ, snd, dig, fee, gas, cost, effFee, vb]: the      *)
(* observables of the property statement for ONE message object - h the    *)
(* Ethereum hash of the transaction it carries, rec the hash recorded in   *)
(* it, typ its type, snd the recoverable sender, dig a digest of all       *)
(* fields, the derived figures, vb what ValidateBasic says.  The unsigned  *)
(* From field is not an observable of the statement (GetSender fills it,   *)
(* BuildTx clears it) and is not part of the view.                         *)
(*                                                                         *)
(* P (property layer, from the statement): orig[i] is the reference view   *)
(* of original transaction i (computed from the go-ethereum transaction).  *)
(*   Invariants  every message object anywhere carries an original and     *)
(*               shows exactly its view (Faithful), in particular records  *)
(*               its own hash (RecordedHash); pool slot i carries          *)
(*               original i; the fee / gas limit of every envelope are the *)
(*               sums over the originals it carries (EnvelopeTotals).      *)
(*   StepOK      every operation has exactly its stated effect (a build    *)
(*               leaves an envelope of exactly that message with exactly   *)
(*               its fee and gas limit WHATEVER the builder held before; a *)
(*               decoded envelope is what was encoded; a lookup returns    *)
(*               the message with that hash iff the envelope carries it; a *)
(*               getter returns the figure of the original) and NO OTHER   *)
(*               effect on any object (frame condition).                   *)
(* M (as built): the same operations structured like the code (BuildTx     *)
(* sets extension option, messages, fee, gas limit on the builder it got;  *)
(* UnwrapEthereumMsg re-stamps the hash of every message it walks over;    *)
(* messages are shared by reference between pool and builder).  Named      *)
(* members of Defects are NOT known deviations of the code: they are       *)
(* mutation witnesses (the configurations EnvelopeOps_witness_*.cfg must   *)
(* FAIL), showing that P is able to tell such machines apart.              *)
(***************************************************************************)
EXTENDS Envelope

CONSTANTS Pools,      \* the pools (tuples of Envelope cases) the exhaustive configurations start from
          MaxLen,     \* operations per behaviour
          MaxWire, MaxDec, MaxPack,
          MaxPool,    \* largest pool the simulation draws
          Getters,    \* the getters used (subset of DOMAIN GetterField)
          Defects

VARIABLES pc,         \* the pool: a tuple of Envelope cases (constant along a behaviour; <<>> = not drawn yet)
          st, hist
ovars == <<cs, x, pc, st, hist>>

---------------------------------------------------------------------------
(* views *)

NoMsg == [h |-> "-", rec |-> "-", typ |-> "-", snd |-> "-", dig |-> "-", fee |-> "-", gas |-> "-", cost |-> "-",
          effFee |-> "-", vb |-> "-"]

\* getter -> the field of the view it must return
GetterField == [hash |-> "h", msgs |-> "h", marshal |-> "h", type |-> "typ", sender |-> "snd", signers |-> "snd",
                asmsg |-> "snd", fee |-> "fee", gas |-> "gas", cost |-> "cost", effFee |-> "effFee", vb |-> "vb"]

DecNames == <<"d1", "d2", "d3", "d4", "d5", "d6", "d7", "d8">>
DecIdx(env) == CHOOSE k \in 1..Len(DecNames) : DecNames[k] = env
MsgsOf(s, env) == CASE env = "pool" -> s.pool [] env = "bld" -> s.bld.msgs [] OTHER -> s.dec[DecIdx(env)].msgs
EnvOf(s, env)  == IF env = "bld" THEN s.bld ELSE s.dec[DecIdx(env)]

Hs(ms) == [j \in 1..Len(ms) |-> ms[j].h]
Brief(env) == [hs |-> Hs(env.msgs), fee |-> env.fee, gas |-> env.gas, ext |-> env.ext]
EmptyEnv == [msgs |-> <<>>, fee |-> "0", gas |-> "0", ext |-> 0]

RECURSIVE BigSum(_)
BigSum(q) == IF Len(q) = 0 THEN "0" ELSE BigAdd(q[1], BigSum(Tail(q)))

---------------------------------------------------------------------------
(* P *)

Known(orig, h)  == \E i \in 1..Len(orig) : orig[i].h = h
OrigOf(orig, h) == orig[CHOOSE i \in 1..Len(orig) : orig[i].h = h]
AllKnown(orig, hs) == \A j \in 1..Len(hs) : Known(orig, hs[j])
SumOf(orig, hs, f) == BigSum([j \in 1..Len(hs) |-> OrigOf(orig, hs[j])[f]])

MsgSeqs(s) == {s.pool, s.bld.msgs} \cup {s.dec[k].msgs : k \in 1..Len(s.dec)}
AllMsgs(s) == UNION {{q[j] : j \in 1..Len(q)} : q \in MsgSeqs(s)}
Envs(s)    == {s.bld} \cup {s.dec[k] : k \in 1..Len(s.dec)}

\* "the hash recorded in the message always equals the Ethereum hash"
Inv_RecordedHash(orig, s) == \A m \in AllMsgs(s) : m.rec = m.h
\* ValidateBasic is an observable of the statement through its hash check only ("the hash recorded in the message
\* always equals the Ethereum hash"): whether the chain accepts a transaction for other reasons is not the subject
\* of C18, any other outcome is not judged (the frame conditions still require it not to CHANGE under an operation)
VbJudged(v) == IF v = "hash-mismatch" THEN v ELSE "ok"
Shows(m, o) == [m EXCEPT !.vb = VbJudged(m.vb)] = o
\* every message object carries one of the originals and shows its hash, sender, fields and figures
Inv_Faithful(orig, s) == \A m \in AllMsgs(s) : Known(orig, m.h) /\ Shows([m EXCEPT !.rec = m.h], OrigOf(orig, m.h))
\* the wrapped message of original i carries original i
Inv_PoolInPlace(orig, s) == Len(s.pool) = Len(orig) /\ \A i \in 1..Len(orig) : s.pool[i].h = orig[i].h
\* fee and gas limit of an envelope are those of the transactions it carries
Inv_EnvelopeTotals(orig, s) ==
    \A e \in Envs(s) : AllKnown(orig, Hs(e.msgs)) =>
        /\ e.fee = SumOf(orig, Hs(e.msgs), "fee")
        /\ e.gas = SumOf(orig, Hs(e.msgs), "gas")

InvNames == {"Inv_RecordedHash", "Inv_Faithful", "Inv_PoolInPlace", "Inv_EnvelopeTotals"}
Holds(n, orig, s) == CASE n = "Inv_RecordedHash"   -> Inv_RecordedHash(orig, s)
                       [] n = "Inv_Faithful"       -> Inv_Faithful(orig, s)
                       [] n = "Inv_PoolInPlace"    -> Inv_PoolInPlace(orig, s)
                       [] n = "Inv_EnvelopeTotals" -> Inv_EnvelopeTotals(orig, s)
BrokenInvariants(orig, s) == {n \in InvNames : ~Holds(n, orig, s)}

\* Event e = [ev, args, ok, ret] took the state s to t.  The pool holds accepted transactions only, so
\* build / encode / decode / get have no reason to fail ("wrapping, encoding, decoding, unwrapping YIELDS ...").
\* The extension option is not a subject of the statement (M predicts it, diagnostic).
StepOK(orig, e, s, t) ==
    LET a == e.args IN
    CASE e.ev = "build" ->
           /\ t.pool = s.pool /\ t.wire = s.wire /\ t.dec = s.dec
           /\ e.ok
           /\ t.bld.msgs = <<s.pool[a.tx]>>
           /\ t.bld.fee = orig[a.tx].fee
           /\ t.bld.gas = orig[a.tx].gas
      [] e.ev = "pack" ->                       \* done by the caller with the builder's own setters
           /\ t.pool = s.pool /\ t.wire = s.wire /\ t.dec = s.dec
           /\ IF e.ok THEN /\ t.bld.msgs = [j \in 1..Len(a.txs) |-> s.pool[a.txs[j]]]
                           /\ t.bld.fee = BigSum([j \in 1..Len(a.txs) |-> orig[a.txs[j]].fee])
                           /\ t.bld.gas = BigSum([j \in 1..Len(a.txs) |-> orig[a.txs[j]].gas])
                      ELSE t.bld = s.bld
      [] e.ev = "encode" ->
           /\ t.pool = s.pool /\ t.bld = s.bld /\ t.dec = s.dec
           /\ e.ok
           /\ Len(t.wire) = Len(s.wire) + 1
           /\ SubSeq(t.wire, 1, Len(s.wire)) = s.wire
           /\ t.wire[Len(t.wire)].env = Brief(EnvOf(s, a.src))
      [] e.ev = "decode" ->
           /\ t.pool = s.pool /\ t.bld = s.bld /\ t.wire = s.wire
           /\ e.ok
           /\ Len(t.dec) = Len(s.dec) + 1
           /\ SubSeq(t.dec, 1, Len(s.dec)) = s.dec
           /\ LET sent == s.wire[a.w].env
                  got  == t.dec[Len(t.dec)] IN
              /\ got.fee = sent.fee /\ got.gas = sent.gas
              /\ Len(got.msgs) = Len(sent.hs)
              /\ \A j \in 1..Len(sent.hs) :
                    /\ got.msgs[j].h = sent.hs[j]
                    /\ Known(orig, sent.hs[j]) => Shows(got.msgs[j], OrigOf(orig, sent.hs[j]))
      [] e.ev = "lookup" ->
           /\ t = s
           /\ LET ms == MsgsOf(s, a.env)
                  present == \E j \in 1..Len(ms) : ms[j].h = a.hash IN
              /\ present => e.ok
              /\ e.ok => /\ present
                         /\ e.ret.h = a.hash /\ e.ret.rec = a.hash
                         /\ Known(orig, a.hash) => Shows(e.ret, OrigOf(orig, a.hash))
      [] e.ev = "get" ->
           /\ t = s
           /\ e.ok
           /\ LET m == MsgsOf(s, a.env)[a.idx] IN
              Known(orig, m.h) => (IF a.fn = "vb" THEN VbJudged(e.ret) ELSE e.ret) = OrigOf(orig, m.h)[GetterField[a.fn]]
      [] OTHER -> FALSE

\* what identifies a failing step (the class of a violation signature)
FeeCls(v) == IF v = "0" THEN "zero" ELSE "pos"
NCls(n) == IF n = 1 THEN "1" ELSE "several"
BldCls(b) == IF Len(b.msgs) = 0 THEN "fresh" ELSE "used:msgs=" \o NCls(Len(b.msgs)) \o ":fee=" \o FeeCls(b.fee)
EnvCls(env) == CASE env = "pool" -> "pool" [] env = "bld" -> "builder" [] OTHER -> "decoded"
PosOf(ms, h) == IF \E j \in 1..Len(ms) : ms[j].h = h
                THEN (IF ms[1].h = h THEN "first" ELSE "later") ELSE "absent"
StepClass(orig, e, s) ==
    LET a == e.args IN
    CASE e.ev = "build"  -> "type=" \o orig[a.tx].typ \o ",fee=" \o FeeCls(orig[a.tx].fee) \o ",builder=" \o BldCls(s.bld)
      [] e.ev = "pack"   -> "msgs=" \o NCls(Len(a.txs)) \o ",builder=" \o BldCls(s.bld)
      [] e.ev = "encode" -> "src=" \o EnvCls(a.src) \o ",msgs=" \o NCls(Len(EnvOf(s, a.src).msgs))
      [] e.ev = "decode" -> "msgs=" \o NCls(Len(s.wire[a.w].env.hs))
      [] e.ev = "lookup" -> "env=" \o EnvCls(a.env) \o ",msgs=" \o NCls(Len(MsgsOf(s, a.env)))
                              \o ",target=" \o PosOf(MsgsOf(s, a.env), a.hash)
      [] e.ev = "get"    -> "fn=" \o a.fn \o ",env=" \o EnvCls(a.env)
      [] OTHER -> "-"

---------------------------------------------------------------------------
(* M: the operations as the code performs them.  MResult(orig, s, ev, args) = [ok, post, ret] *)

Stamp(ms, walked, val(_)) == [j \in 1..Len(ms) |-> IF j \in walked THEN [ms[j] EXCEPT !.rec = val(ms[j])] ELSE ms[j]]

MResult(orig, s, ev, a) ==
    CASE ev = "build" ->
           \* BuildTx: extension option; From := ""; SetMsgs(msg) (the builder holds the very object);
           \* SetFeeAmount(Fee() if positive, else no coins); SetGasLimit(GetGas())
           LET m   == s.pool[a.tx]
               fee == IF "BuildKeepsFeeWhenZero" \in Defects /\ m.fee = "0" THEN s.bld.fee ELSE m.fee
               gas == IF "BuildKeepsLargerGas" \in Defects /\ BigLT(m.gas, s.bld.gas) THEN s.bld.gas ELSE m.gas
               ms  == IF "BuildAppendsMsg" \in Defects THEN Append(s.bld.msgs, m) ELSE <<m>> IN
           [ok |-> TRUE, ret |-> "-", post |-> [s EXCEPT !.bld = [msgs |-> ms, fee |-> fee, gas |-> gas, ext |-> 1]]]
      [] ev = "pack" ->
           \* (the caller sums GetFee / GetGas of the messages; M takes the figures of the originals they carry)
           LET ms  == [j \in 1..Len(a.txs) |-> s.pool[a.txs[j]]]
               fig(m, f) == IF Known(orig, m.h) THEN OrigOf(orig, m.h)[f] ELSE "0"
               fee == BigSum([j \in 1..Len(ms) |-> fig(ms[j], "fee")])
               gas == BigSum([j \in 1..Len(ms) |-> fig(ms[j], "gas")]) IN
           IF Fits256(fee) /\ BigLE(gas, Max64)
           THEN [ok |-> TRUE, ret |-> "-", post |-> [s EXCEPT !.bld = [msgs |-> ms, fee |-> fee, gas |-> gas, ext |-> 1]]]
           ELSE [ok |-> FALSE, ret |-> "-", post |-> s]
      [] ev = "encode" ->
           [ok |-> TRUE, ret |-> "-", post |-> [s EXCEPT !.wire = Append(@, [env |-> Brief(EnvOf(s, a.src)), sha |-> "-"])]]
      [] ev = "decode" ->
           \* fresh message objects, one per encoded message
           LET sent == s.wire[a.w].env
               ms   == [j \in 1..Len(sent.hs) |-> IF Known(orig, sent.hs[j]) THEN OrigOf(orig, sent.hs[j]) ELSE NoMsg] IN
           [ok |-> TRUE, ret |-> "-",
            post |-> [s EXCEPT !.dec = Append(@, [msgs |-> ms, fee |-> sent.fee, gas |-> sent.gas, ext |-> sent.ext])]]
      [] ev = "lookup" ->
           \* UnwrapEthereumMsg: for every message in order: its hash field := (its own Ethereum hash);
           \* return it if that is the searched hash.  Builder and pool share the message objects.
           LET ms  == MsgsOf(s, a.env)
               hit == {j \in 1..Len(ms) : ms[j].h = a.hash}
               idx == IF hit = {} THEN 0 ELSE CHOOSE j \in hit : \A k \in hit : j <= k
               walked == IF idx = 0 THEN 1..Len(ms) ELSE 1..idx
               val(m) == IF "LookupStampsSearched" \in Defects THEN a.hash ELSE m.h
               new == Stamp(ms, walked, val)
               touched == {ms[j].h : j \in walked}
               post == IF a.env = "bld"
                       THEN [s EXCEPT !.bld.msgs = new,
                                      !.pool = Stamp(s.pool, {i \in 1..Len(s.pool) : s.pool[i].h \in touched}, val)]
                       ELSE [s EXCEPT !.dec[DecIdx(a.env)].msgs = new] IN
           [ok |-> idx # 0, ret |-> IF idx = 0 THEN NoMsg ELSE new[idx], post |-> post]
      [] ev = "get" ->
           \* value receivers / read-only; GetSender and GetSigners fill the From field (not in the view)
           [ok |-> TRUE, ret |-> MsgsOf(s, a.env)[a.idx][GetterField[a.fn]], post |-> s]

---------------------------------------------------------------------------
(* the model's own originals: abstract hashes, senders, digests; exact fee / gas / cost of the case *)

MOrig(c, i) ==
    LET id  == ToString(i)
        fee == BigMul(PointVal(c.price), GasVal(c.gas)) IN
    [h |-> "h" \o id, rec |-> "h" \o id, typ |-> c.type, snd |-> "k" \o id, dig |-> "f" \o id,
     fee |-> fee, gas |-> GasVal(c.gas), cost |-> BigAdd(fee, PointVal(c.amount)), effFee |-> "e" \o id, vb |-> "ok"]
MOrigs(p) == [i \in 1..Len(p) |-> MOrig(p[i], i)]
MHash(i)  == "h" \o ToString(i)          \* MHash(0): a hash no pool transaction has

\* the cases a pool may hold: inside the product of Envelope and accepted by ValidateBasic
PoolCase(c) == InSpace(c, FullSpace) /\ \A v \in Valuations(c) : MWrap(v) = "ok" /\ MValidateBasic(v) = "ok"

OpsInit(p) ==
    /\ cs = NoCase /\ x = NoCase
    /\ pc = p /\ hist = <<>>
    /\ st = [pool |-> MOrigs(p), bld |-> EmptyEnv, wire |-> <<>>, dec |-> <<>>]

Do(ev, args) ==
    LET r == MResult(MOrigs(pc), st, ev, args) IN
    /\ st' = r.post
    /\ hist' = Append(hist, [ev |-> ev, args |-> args, ok |-> r.ok, ret |-> r.ret])
    /\ UNCHANGED <<cs, x, pc>>

\* injective sequences of 2..MaxPack pool indices
PackSeqs(n) == UNION {{q \in [1..k -> 1..n] : \A i, j \in 1..k : i # j => q[i] # q[j]} : k \in 2..MaxPack}
EncSrcs(s)  == (IF Len(s.bld.msgs) > 0 THEN {"bld"} ELSE {}) \cup {DecNames[k] : k \in 1..Len(s.dec)}
LookupEnvs(s) == EncSrcs(s)
GetEnvs(s)  == {"pool"} \cup EncSrcs(s)
MultiEnvs(s) == {env \in LookupEnvs(s) : Len(MsgsOf(s, env)) > 1}
PresentTx(ms, n) == {i \in 1..n : \E j \in 1..Len(ms) : ms[j].h = MHash(i)}

OpsInitAll == \E p \in Pools : OpsInit(p)

OpsNext ==
    /\ Len(hist) < MaxLen
    /\ LET n == Len(pc) IN
       \/ \E i \in 1..n : Do("build", [tx |-> i])
       \/ \E q \in PackSeqs(n) : Do("pack", [txs |-> q])
       \/ Len(st.wire) < MaxWire /\ \E src \in EncSrcs(st) : Do("encode", [src |-> src])
       \/ Len(st.dec) < MaxDec /\ \E w \in 1..Len(st.wire) : Do("decode", [w |-> w])
       \/ \E env \in LookupEnvs(st) : \E i \in 0..n : Do("lookup", [env |-> env, tx |-> i, hash |-> MHash(i)])
       \/ \E env \in GetEnvs(st) : \E j \in 1..Len(MsgsOf(st, env)) : \E fn \in Getters :
             Do("get", [env |-> env, idx |-> j, fn |-> fn])

OpsSpec == OpsInitAll /\ [][OpsNext]_ovars

Last(h) == h[Len(h)]
OpsStepP == [][hist' # hist => StepOK(MOrigs(pc), Last(hist'), st, st')]_ovars
OpsInv_RecordedHash   == Inv_RecordedHash(MOrigs(pc), st)
OpsInv_Faithful       == Inv_Faithful(MOrigs(pc), st)
OpsInv_PoolInPlace    == Inv_PoolInPlace(MOrigs(pc), st)
OpsInv_EnvelopeTotals == Inv_EnvelopeTotals(MOrigs(pc), st)
OpsInv_PoolCases      == \A i \in 1..Len(pc) : PoolCase(pc[i])
OpsView == <<pc, st, Len(hist)>>

\* pools of the exhaustive configurations: a free transaction next to paying ones of the other types and
\* gas limits; two free ones with different gas limits
MC_Case(t, price, gas) ==
    Mk(t, "1", gas, "1", <<price, IF IsDyn(t) THEN "eq" ELSE "na">>, "1", IF t = "legacy" THEN "na" ELSE "nil", "call",
       <<IF t = "legacy" THEN "eip155" ELSE "typed", "11235">>, IF IsDyn(t) THEN "0" ELSE "nil")
MC_Pools == { <<MC_Case("legacy", "0", "21000"), MC_Case("dynamic", "1", "21000"), MC_Case("accesslist", "2p64", "maxi64")>>,
              <<MC_Case("dynamic", "0", "maxi64"), MC_Case("accesslist", "0", "21000")>> }
MC_Getters == {"hash", "sender", "fee"}
MC_AllGetters == DOMAIN GetterField

---------------------------------------------------------------------------
(* scripts: behaviours of M drawn by simulation.  The first step draws the pool (2..MaxPool accepted cases *)
(* of Envelope's product, a zero price with probability about 1/2), the others one operation each.      *)

R(S) == RandomElement(S)
SeqPrices(zero) == IF zero THEN {"0"} ELSE {"1", "2p64"}
SeqPriceRel(t, zero) == {pr \in PriceRelOf(t) : pr[1] \in SeqPrices(zero) /\ pr[2] \in {"na", "eq", "lt"}}
SeqBase(t, pr) == BaseOf(t, pr) \ (IF IsDyn(t) THEN {"nil"} ELSE {})
\* a singleton set: the set constructors bind every drawn value exactly once
DrawCase(d) ==
    UNION { UNION { UNION { UNION {
        { Mk(t, R(NonceC), R({"21000", "maxi64"}), R(AmtC), pr, R(DataC), R(AccessOf(t)), R(ToC),
             R(SigChainOf(t)), b) }
        : b \in {R(SeqBase(t, pr))} }
        : pr \in {R(SeqPriceRel(t, z))} }
        : z \in {R(1..2) = 1} }
        : t \in {R(Types)} }

SimInit == /\ cs = NoCase /\ x = NoCase /\ pc = <<>> /\ hist = <<>>
           /\ st = [pool |-> <<>>, bld |-> EmptyEnv, wire |-> <<>>, dec |-> <<>>]

SimDraw ==
    /\ pc = <<>>
    /\ \E n \in {R(2..MaxPool)} :
       \E c1 \in DrawCase(1) : \E c2 \in DrawCase(2) : \E c3 \in DrawCase(3) : \E c4 \in DrawCase(4) :
          LET p == SubSeq(<<c1, c2, c3, c4>>, 1, n) IN
          /\ pc' = p
          /\ st' = [pool |-> MOrigs(p), bld |-> EmptyEnv, wire |-> <<>>, dec |-> <<>>]
    /\ UNCHANGED <<cs, x, hist>>

\* one successor per operation kind (TLC picks uniformly among successors); kinds that matter more are listed twice
SimOps ==
    /\ pc # <<>> /\ Len(hist) < MaxLen
    /\ LET n == Len(pc) IN
       \/ Do("build", [tx |-> R(1..n)])
       \/ Do("build", [tx |-> R(1..n)])
       \/ \E q \in {R(PackSeqs(n))} : Do("pack", [txs |-> q])
       \/ Len(st.wire) < MaxWire /\ EncSrcs(st) # {} /\ Do("encode", [src |-> R(EncSrcs(st))])
       \/ Len(st.wire) < MaxWire /\ Len(st.bld.msgs) > 0 /\ Do("encode", [src |-> "bld"])
       \/ Len(st.dec) < MaxDec /\ Len(st.wire) > 0 /\ Do("decode", [w |-> R(1..Len(st.wire))])
       \/ Len(st.dec) < MaxDec /\ Len(st.wire) > 0 /\ Do("decode", [w |-> Len(st.wire)])
       \/ LookupEnvs(st) # {} /\ \E env \in {R(LookupEnvs(st))} : \E i \in {R(0..n)} :
             Do("lookup", [env |-> env, tx |-> i, hash |-> MHash(i)])
       \/ LookupEnvs(st) # {} /\ \E env \in {R(LookupEnvs(st))} : \E i \in {R(PresentTx(MsgsOf(st, env), n))} :
             Do("lookup", [env |-> env, tx |-> i, hash |-> MHash(i)])
       \/ MultiEnvs(st) # {} /\ \E env \in {R(MultiEnvs(st))} :
             \E i \in {R(PresentTx(Tail(MsgsOf(st, env)), n) \cup {0})} :
             Do("lookup", [env |-> env, tx |-> i, hash |-> MHash(i)])
       \/ \E env \in {R(GetEnvs(st))} : \E j \in {R(1..Len(MsgsOf(st, env)))} :
             Do("get", [env |-> env, idx |-> j, fn |-> R(Getters)])
       \/ Len(st.dec) > 0 /\ \E env \in {DecNames[R(1..Len(st.dec))]} : \E j \in {R(1..Len(MsgsOf(st, env)))} :
             Do("get", [env |-> env, idx |-> j, fn |-> R(Getters)])

Emit == /\ Len(hist) = MaxLen
        /\ PrintT(<<"SCRIPT", ToJson([pool |-> pc, steps |-> hist])>>)
        /\ UNCHANGED ovars
SimSpec == SimInit /\ [][SimDraw \/ SimOps \/ Emit]_ovars

=============================================================================
