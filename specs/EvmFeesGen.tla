----------------------------- MODULE EvmFeesGen -----------------------------
(***************************************************************************)
(* Scenario grid of EvmFees (C07) and its exhaustive check on the model.    *)
(* The machine has depth one: Next picks a scenario (network parameters +   *)
(* one transaction), runs the as-built machine M on abstract balances,       *)
(* evaluates the property layer P on M's outcome, and prints the scenario    *)
(* as a script for harness/evmfees.go, which runs it on the real chain.      *)
(*   Defects = {}            : M satisfies P in every scenario   (must pass) *)
(*   Defects = the named one : Strict must FAIL (the reproduction recipe),   *)
(*                             Explained must pass: P fails only in the      *)
(*                             DynamicFee-extension corner                   *)
(* Grid: tx type x gas limit {exact need, 2x, large(, intrinsic)} x price    *)
(* relations to base fee and floor x multiplier x minGasPrice x program      *)
(* (success, calldata + access list, revert, out of gas, refund-heavy         *)
(* SSTORE clearing with the refund counter below and above the EIP-3529 cap   *)
(* x spare gas), multi-message transactions of one sender and of 2-3          *)
(* different senders, NoBaseFee, block gas limit, and Cosmos txs              *)
(* through every entry point: default chain signed direct / amino-json /      *)
(* EIP-712, DynamicFee extension option, legacy EIP-712 (Web3Tx) chain.       *)
(***************************************************************************)
EXTENDS EvmFees

CONSTANTS Tier      \* "quick" | "thorough"

VARIABLES sc
vars == <<sc>>

B    == "1000000000"          \* base fee of the grid
Bm1  == BigSub(B, "1")
B2   == BigMul(B, "2")
B2m1 == BigSub(B2, "1")
B2p1 == BigAdd(B2, "1")
B3   == BigMul(B, "3")
Half == "500000000000000000"

\* minGasPrice: 0, below / equal to / above the base fee (thorough: fractional values too)
MgpSet  == {"0", DecOfInt(BigQuo(B, "2")), DecOfInt(B), DecOfInt(B2)}
           \cup (IF Tier = "thorough" THEN {BigSub(DecOfInt(B2), Half), BigAdd(DecOfInt(B), "1")} ELSE {})
MultSet == {"0", Half, One18} \cup (IF Tier = "thorough" THEN {"333333333333333333", "999999999999999999"} ELSE {})
Values  == IF Tier = "thorough" THEN {"0", "7"} ELSE {"7"}

Par(base, nb, mgp, mult) == [baseFee |-> base, noBaseFee |-> nb, mgp18 |-> mgp, mult18 |-> mult, maxGas |-> "40000000"]

NoResp == [present |-> FALSE, gasUsed |-> "0", failed |-> FALSE, outcome |-> "-"]
NoCos  == [gas |-> "0", fee |-> "0", hasFee |-> FALSE, ext |-> "none", sign |-> "direct", maxPrio |-> "0", amount |-> "0"]

\* price points [gp, cap, tip]
Dyn(cap, tip) == [gp |-> cap, cap |-> cap, tip |-> tip]
Leg(gp)       == [gp |-> gp, cap |-> gp, tip |-> gp]
DynPrices == {Dyn(Bm1, "0"),    \* cap < base fee
              Dyn(B, "0"),      \* cap = base fee
              Dyn(B2, "0"),     \* tip 0: effective = base fee
              Dyn(B2, B),       \* cap = base + tip
              Dyn(B3, B),       \* tip-bound: effective = base + tip < cap
              Dyn(B2p1, B),     \* tip-bound, cap one above the effective price
              Dyn(B2, B2),      \* cap-bound: effective = cap < base + tip
              Dyn(B2m1, B),     \* cap-bound, one below 2 x base
              Dyn(B, B),        \* tip = cap = base
              Dyn(B, B2)}       \* tip > cap (invalid)
LegPrices == {Leg(Bm1), Leg(B), Leg(B2m1), Leg(B2), Leg(B3)}
PricesOf(type) == IF type = "dynamic" THEN DynPrices ELSE LegPrices

Types == {"legacy", "access", "dynamic"}

\* program shapes: calldata and access list sizes, slots
Shape(type, prog) ==
    LET typed == type # "legacy" IN
    [nz |-> IF prog = "calldata" THEN "10" ELSE "0", z |-> IF prog = "calldata" THEN "5" ELSE IF prog = "create" THEN "1" ELSE "0",
     alAddrs |-> IF prog = "calldata" /\ typed THEN "2" ELSE "0", alKeys |-> IF prog = "calldata" /\ typed THEN "3" ELSE "0",
     slots |-> IF prog = "sstore" THEN "4" ELSE "0"]   \* 4 slots: the refund counter (19200) exceeds the cap (8204)

NeedGas(m) == CASE m.prog = "revert" -> BigAdd(Intrinsic(m), "6")
                [] m.prog = "sstore" -> SstoreExec(m)
                [] OTHER             -> Intrinsic(m)

LimitKinds(prog) == {"exact", "double", "large"} \cup (IF prog = "revert" THEN {"intrinsic"} ELSE {})
                    \cup (IF Tier = "thorough" THEN {"exact+1"} ELSE {})
                    \cup (IF prog = "transfer" THEN {"below"} ELSE {})

Msg(type, prog, price, lk, value) ==
    LET sh == Shape(type, prog)
        m0 == [from |-> "a1", type |-> type, gas |-> "0", gasPrice |-> price.gp, cap |-> price.cap, tip |-> price.tip, value |-> value,
               prog |-> prog, nz |-> sh.nz, z |-> sh.z, alAddrs |-> sh.alAddrs, alKeys |-> sh.alKeys, slots |-> sh.slots,
               twinGas |-> IF prog = "sstore" THEN "model" ELSE "-1", resp |-> NoResp]
        gas == CASE lk = "exact"     -> NeedGas(m0)
                 [] lk = "exact+1"   -> BigAdd(NeedGas(m0), "1")
                 [] lk = "below"     -> BigSub(Intrinsic(m0), "1")
                 [] lk = "double"    -> BigMul(NeedGas(m0), "2")
                 [] lk = "intrinsic" -> Intrinsic(m0)
                 [] lk = "large"     -> "1000001"
    IN [m0 EXCEPT !.gas = gas]

\* the same message signed by another account
MsgF(from, type, prog, price, lk, value) == [Msg(type, prog, price, lk, value) EXCEPT !.from = from]

Eth(tag, par, ms) == [tag |-> tag, par |-> par, route |-> "eth", cos |-> NoCos, msgs |-> ms]

MainProgs == {"transfer", "calldata", "revert", "invalid", "sstore"}
SideProgs == {"stop", "loop", "create"}

\* the main product (enumerated by Next directly, see below)
EthGridOf(t, p) == { Eth("grid", Par(B, FALSE, mgp, mult), <<Msg(t, p, pr, lk, v)>>) :
                       pr \in PricesOf(t), lk \in LimitKinds(p), mgp \in MgpSet, mult \in MultSet, v \in Values }

EthSide == UNION { UNION { { Eth("side", Par(B, FALSE, mgp, mult), <<Msg(t, p, pr, lk, IF p = "create" THEN "0" ELSE "7")>>) :
                               pr \in (IF t = "dynamic" THEN {Dyn(B3, B), Dyn(B2, B2)} ELSE {Leg(B2)}),
                               lk \in {"exact", "double"}, mgp \in {"0", DecOfInt(B2)}, mult \in {"0", Half, One18} }
                           : t \in Types } : p \in SideProgs }

\* refunds on both sides of the EIP-3529 cap (1 slot: counter 4800 < consumed / 5 = 5201; 2, 10 slots:
\* above it) x spare gas in the limit (none, a little, 1.5 x, 2 x, large) x multipliers under which the
\* minimum-gas rule does and does not bind
Tenth == "100000000000000000"
WithSlots(m, n, lk) ==
    LET m1 == [m EXCEPT !.slots = n] IN
    [m1 EXCEPT !.gas = CASE lk = "exact"  -> SstoreExec(m1)
                         [] lk = "spare"  -> BigAdd(SstoreExec(m1), "1000")
                         [] lk = "half"   -> BigQuo(BigMul(SstoreExec(m1), "3"), "2")
                         [] lk = "double" -> BigMul(SstoreExec(m1), "2")
                         [] lk = "short"  -> BigSub(SstoreExec(m1), "1")
                         [] lk = "large"  -> "1000001"]
EthRefund == UNION { { Eth("refund", Par(B, FALSE, "0", mult), <<WithSlots(Msg(t, "sstore", IF t = "dynamic" THEN Dyn(B3, B) ELSE Leg(B2), "exact", "0"), n, lk)>>) :
                          n \in {"1", "2", "10"}, lk \in {"exact", "spare", "half", "double", "short", "large"}, mult \in {"0", Tenth, Half} } : t \in Types }

\* no base fee: the effective price is min(tip, cap)
EthNoBase == UNION { { Eth("nobase", Par(B, TRUE, mgp, Half), <<Msg(t, p, pr, "double", "7")>>) :
                          pr \in (IF t = "dynamic" THEN {Dyn(B2, "0"), Dyn(B2, B), Dyn(B, B), Dyn(B3, B2)} ELSE {Leg("0"), Leg(B), Leg(B2)}),
                          p \in {"transfer", "revert", "sstore"}, mgp \in {"0", DecOfInt(B), DecOfInt(B2)} } : t \in Types }
\* base fee 0 with the fee market on
EthZeroBase == { Eth("zerobase", Par("0", FALSE, mgp, Half), <<Msg("dynamic", p, pr, "double", "7")>>) :
                    pr \in {Dyn(B, "0"), Dyn(B, B), Dyn("0", "0")}, p \in {"transfer", "invalid"}, mgp \in {"0", DecOfInt(B)} }

\* small block gas limit: a transaction whose gas limit exceeds it is not accepted
SmallBlock == [Par(B, FALSE, "0", Half) EXCEPT !.maxGas = "100000"]
EthBlockGas == { Eth("blockgas", SmallBlock, <<Msg(t, "transfer", IF t = "dynamic" THEN Dyn(B3, B) ELSE Leg(B2), lk, "7")>>) :
                    t \in Types, lk \in {"double", "large"} }
               \cup { Eth("blockgas", SmallBlock, <<Msg("dynamic", "transfer", Dyn(B3, B), lk, "7"), Msg("legacy", "revert", Leg(B2), "exact", "3")>>) :
                    lk \in {"double", "large"} }
               \cup { Eth("blockgas", SmallBlock, <<Msg("dynamic", "invalid", Dyn(B3, B), "exact", "7"), Msg("legacy", "invalid", Leg(B2), "exact", "3"),
                                                   Msg("access", "invalid", Leg(B2), "exact", "3"), Msg("dynamic", "transfer", Dyn(B2, B), lk, "1")>> ) :
                    lk \in {"exact", "double"} }

\* two messages in one transaction
Kinds == {<<"dynamic", "transfer", Dyn(B3, B)>>, <<"legacy", "revert", Leg(B2)>>, <<"access", "invalid", Leg(B3)>>,
          <<"dynamic", "sstore", Dyn(B2, B2)>>, <<"access", "calldata", Leg(B2)>>}
EthMulti == { Eth("multi", Par(B, FALSE, mgp, mult), <<Msg(a[1], a[2], a[3], lk, "7"), Msg(b[1], b[2], b[3], lk, "3")>>) :
                 a \in Kinds, b \in Kinds, lk \in {"exact", "double"}, mgp \in {"0", DecOfInt(B2)}, mult \in MultSet }
            \cup \* one message below the floor / below the base fee / without intrinsic gas
            { Eth("multi-bad", Par(B, FALSE, DecOfInt(B2), Half), <<Msg("dynamic", "transfer", Dyn(B3, B), "double", "7"), Msg(b[1], "transfer", b[2], b[3], "3")>>) :
                 b \in {<<"legacy", Leg(B2m1), "double">>, <<"dynamic", Dyn(Bm1, "0"), "double">>, <<"legacy", Leg(B2), "below">>} }

\* messages of DIFFERENT senders in one transaction (every message carries its own signature):
\* different programs, prices and gas limits per message
LkPairs == {<<"exact", "double">>, <<"double", "large">>, <<"double", "double">>}
EthMultiSender2 == { Eth("multisender", Par(B, FALSE, mgp, mult), <<MsgF("a1", a[1], a[2], a[3], lk[1], "7"), MsgF("a2", b[1], b[2], b[3], lk[2], "3")>>) :
                        a \in Kinds, b \in Kinds, lk \in LkPairs, mgp \in {"0", DecOfInt(B2)}, mult \in MultSet }
Kinds3 == {<<"dynamic", "transfer", Dyn(B3, B)>>, <<"legacy", "revert", Leg(B2)>>, <<"access", "invalid", Leg(B3)>>, <<"dynamic", "sstore", Dyn(B2, B2)>>}
SenderPatterns == {<<"a1", "a2", "a3">>, <<"a1", "a2", "a1">>, <<"a2", "a2", "a1">>, <<"a3", "a1", "a3">>}
EthMultiSender3 == { Eth("multisender", Par(B, FALSE, DecOfInt(B), mult),
                         <<MsgF(sp[1], a[1], a[2], a[3], "exact", "7"), MsgF(sp[2], b[1], b[2], b[3], "double", "3"), MsgF(sp[3], c[1], c[2], c[3], "large", "2")>>) :
                        a \in Kinds3, b \in Kinds3, c \in Kinds3, sp \in SenderPatterns, mult \in (IF Tier = "thorough" THEN MultSet ELSE {Half}) }
\* a message of the second sender is below the floor / below the base fee / lacks intrinsic gas
EthMultiSenderBad == { Eth("multisender-bad", Par(B, FALSE, DecOfInt(B2), Half),
                           <<MsgF("a1", "dynamic", "transfer", Dyn(B3, B), "double", "7"), MsgF("a2", b[1], "transfer", b[2], b[3], "3")>>) :
                          b \in {<<"legacy", Leg(B2m1), "double">>, <<"dynamic", Dyn(Bm1, "0"), "double">>, <<"legacy", Leg(B2), "below">>} }
EthMultiSender == EthMultiSender2 \cup EthMultiSender3 \cup EthMultiSenderBad

\* Cosmos transactions: fee = price x gas
CosGas == "200000"
\* entry points of a Cosmos transaction: <<extension option (selects the ante chain), MaxPriorityPrice, sign mode>>
Cos(price, has, x) == [gas |-> CosGas, fee |-> BigMul(price, CosGas), hasFee |-> has, ext |-> x[1], sign |-> x[3], maxPrio |-> x[2], amount |-> "5"]
Direct   == <<"none", "0", "direct">>
CosPlain == {Direct, <<"none", "0", "amino">>, <<"none", "0", "eip712">>, <<"web3", "0", "eip712">>}
CosEntry == CosPlain \cup {<<"dynfee", "0", "direct">>, <<"dynfee", Bm1, "direct">>, <<"dynfee", B, "direct">>, <<"dynfee", B3, "direct">>}
CosGrid == { [tag |-> "cosmos", par |-> Par(B, nb, mgp, Half), route |-> "cosmos", cos |-> Cos(pr, TRUE, x), msgs |-> <<>>] :
                pr \in {Bm1, B, B2m1, B2, B3}, x \in CosEntry, mgp \in MgpSet, nb \in BOOLEAN }
           \cup { [tag |-> "cosmos-nofee", par |-> Par(B, nb, mgp, Half), route |-> "cosmos", cos |-> Cos("0", FALSE, x), msgs |-> <<>>] :
                    mgp \in {"0", DecOfInt(B)}, nb \in BOOLEAN, x \in CosPlain }

\* a fractional floor and a provided fee of exactly ceil(minGasPrice x gas): not a multiple of the gas limit
FracMgp == BigSub(DecOfInt(B2), Half)
CosFrac == { [tag |-> "cosmos-frac", par |-> Par(B, FALSE, FracMgp, Half), route |-> "cosmos",
              cos |-> [Cos("0", TRUE, x) EXCEPT !.fee = BigAdd(DecMulCeil(FracMgp, CosGas), d)], msgs |-> <<>>] :
                x \in CosPlain \cup {<<"dynfee", B, "direct">>, <<"dynfee", "0", "direct">>}, d \in {"-1", "0", "1"} }

CosBlockGas == { [tag |-> "blockgas", par |-> SmallBlock, route |-> "cosmos", cos |-> Cos(B2, TRUE, x), msgs |-> <<>>] : x \in {Direct, <<"web3", "0", "eip712">>} }

SmallFamilies == EthSide \cup EthRefund \cup EthNoBase \cup EthZeroBase \cup EthBlockGas \cup EthMulti \cup EthMultiSender \cup CosGrid \cup CosFrac \cup CosBlockGas

---------------------------------------------------------------------------
Rich == "1000000000000000000000000"
RichPre == [a1 |-> Rich, a2 |-> Rich, a3 |-> Rich, rcpt |-> Rich, collector |-> "0"]
ModelEvent(x) ==
    MEvent(x @@ [pre |-> RichPre, post |-> RichPre,
                 res |-> [code |-> 1, gasUsed |-> "0", gasWanted |-> "0"], scn |-> 0])

\* the script of a scenario: the inputs only
Script(x) == [tag |-> x.tag, par |-> x.par, route |-> x.route,
              cos |-> [gas |-> x.cos.gas, fee |-> IF x.cos.hasFee THEN x.cos.fee ELSE "", ext |-> x.cos.ext, sign |-> x.cos.sign, maxPrio |-> x.cos.maxPrio, amount |-> x.cos.amount],
              msgs |-> [i \in Idx(x.msgs) |-> [f \in DOMAIN x.msgs[i] \ {"resp", "twinGas"} |-> x.msgs[i][f]]]]

None == [tag |-> "none"]
Init == sc = None
Emit(x) == /\ sc' = [tag |-> "scenario", x |-> x]
           /\ PrintT(<<"SCRIPT", ToJson(Script(x))>>)
Next == /\ sc = None
        /\ \/ \E t \in Types, p \in MainProgs : \E x \in EthGridOf(t, p) : Emit(x)
           \/ \E x \in SmallFamilies : Emit(x)
Spec == Init /\ [][Next]_vars

\* M satisfies P in every scenario (intended design, Defects = {})
Strict == sc = None \/ PViol(ModelEvent(sc.x)) = {}
\* with the named defect P fails only by a charged fee below the floor in the DynamicFee corner
Explained == sc = None \/
    LET e == ModelEvent(sc.x) IN
    \/ PViol(e) = {}
    \/ /\ IsDynfeeCorner(e)
       /\ \A v \in PViol(e) : v.kind = "floor-undercut"
\* (non-vacuity - accepted transactions of every type and outcome - is counted by lib/props/c07.py
\* on the real executions of these scenarios)
=============================================================================
