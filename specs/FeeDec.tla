------------------------------- MODULE FeeDec -------------------------------
(* 18-digit fixed point decimals for the fee specification (C07).  A non-negative decimal d *)
(* is represented by the integer d x 10^18 as a BigNum decimal string ("1500000000000000000" *)
(* = 1.5), the representation the chain's LegacyDec uses.  Only what EvmFees needs: exact     *)
(* comparison of an integer with (decimal x integer) and the two integer roundings of it.     *)
EXTENDS BigNum

One18 == BigPow10(18)

DecOfInt(n)          == BigMul(n, One18)
\* floor(d x n) and ceil(d x n) for d, n >= 0
DecMulFloor(d18, n)  == BigQuo(BigMul(d18, n), One18)
DecMulCeil(d18, n)   == BigQuo(BigAdd(BigMul(d18, n), BigSub(One18, "1")), One18)
\* x >= d x n, exactly (no rounding)
IntGEDecMul(x, d18, n) == BigLE(BigMul(d18, n), BigMul(x, One18))

ASSUME DecMulFloor("500000000000000000", "21001") = "10500" /\ DecMulCeil("500000000000000000", "21001") = "10501"
ASSUME DecMulFloor("333333333333333333", "3") = "0" /\ DecMulCeil("333333333333333333", "3") = "1"
ASSUME IntGEDecMul("42000", "2000000000000000000", "21000") /\ ~IntGEDecMul("41999", "2000000000000000000", "21000")
ASSUME ~IntGEDecMul("3", "1500000000000000001", "2") /\ IntGEDecMul("3", "1500000000000000000", "2")
ASSUME DecMulCeil("0", "77") = "0" /\ DecOfInt("2") = "2000000000000000000"
=============================================================================
