SPECIFICATION Spec
CONSTANTS
  Defects = {"cosmos_dynfee_below_floor"}
  Tier = "quick"
INVARIANT Explained
CHECK_DEADLOCK FALSE
