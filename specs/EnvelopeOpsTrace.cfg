SPECIFICATION TraceSpec
CONSTANTS
  Tier = "full"
  EnvDefects = {}
  Pools = {}
  MaxLen = 0
  MaxWire = 0
  MaxDec = 0
  MaxPack = 0
  MaxPool = 0
  Getters = {}
  Defects = {}
INVARIANT Report
CHECK_DEADLOCK FALSE
