SPECIFICATION Spec
CONSTANTS
  Defects = {}
  Family = "C02"
INVARIANT Strict
CHECK_DEADLOCK FALSE
