SPECIFICATION SimSpec
CONSTANTS
  MaxLen = 10
  Restarts = FALSE
  Exports = TRUE
  Locals = FALSE
CHECK_DEADLOCK FALSE
