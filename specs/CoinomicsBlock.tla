--------------------------- MODULE CoinomicsBlock ---------------------------
(***************************************************************************)
(* Whole blocks of the haqq chain around the coinomics end blocker (C13).  *)
(*                                                                         *)
(* Coinomics.tla judges one call of the coinomics EndBlocker and says, in  *)
(* "P: a block of the chain", which values the mint of a block is computed *)
(* from when the rest of the block changes them.  This module supplies the *)
(* rest of the block - the scenario space and the as-built machine of a    *)
(* block - so that TLC can (1) check that clause against every interleaving*)
(* of validator-set changes, parameter proposals, activation, the cap and  *)
(* the time line that the bounds allow, (2) show that it tells the orders  *)
(* of the end blockers apart (witness configurations with a hypothetical   *)
(* wiring must fail), and (3) produce block scripts that                   *)
(* harness/coinchain.go executes on the real application through ABCI.     *)
(*                                                                         *)
(* A block (event "block", args [ts, txs, evidence, absent, setup]):       *)
(*   BeginBlock   slashing: every validator that was bonded when the       *)
(*                previous block ended and is listed in `absent` misses a  *)
(*                signature; more than Window - MinSigned misses inside the*)
(*                window (after the first Window blocks) jail it until     *)
(*                ts + JailMs.  evidence: a double signature jails for ever*)
(*                (tombstone).  A jailed validator stays in the bonded pool*)
(*                until the staking end blocker of the same block.         *)
(*   transactions delegate / undelegate (a delegator account or the        *)
(*                operator): the validator's tokens change, and with them  *)
(*                the bonded pool at once if it is bonded; create: a spare *)
(*                key becomes a validator outside the set; unjail; propose:*)
(*                a parameter proposal (EnableCoinomics, RewardCoefficient,*)
(*                staking MaxValidators) enters its voting period with the *)
(*                yes votes of all genesis validators                      *)
(*   EndBlock     in the order of app.go: gov (proposals whose voting      *)
(*                period ended are tallied - quorum 33.4 % of the bonded   *)
(*                pool among the bonded, not jailed voters - and executed),*)
(*                staking (the MaxValidators validators with the highest   *)
(*                power that are not jailed form the bonded set: stakes    *)
(*                move between the pools), ..., coinomics (MEndBlock).     *)
(* The staking / slashing / gov part is the environment of coinomics: it is*)
(* modelled as far as needed to know when the bonded pool and the          *)
(* parameters move (exchange rate 1: the scripts run with slash fractions  *)
(* 0; ranks without ties).  It is never a verdict: the trace specification *)
(* takes bonded and the executed proposals from the real stores.           *)
(***************************************************************************)
EXTENDS Coinomics

CONSTANTS
    BStakeChoices,  \* set of [gen |-> n, stakes |-> <<tokens of validator 1, 2, ..>>]: validators 1..gen are
                    \* bonded at genesis, the others are spare keys
    BMaxVals,       \* choices of staking MaxValidators
    BCoeffs,        \* reward coefficients (also what proposals set)
    BDistMults,     \* cap at genesis supply + k x (first regular mint) + BDistOffs, k = 0: never reached
    BDistOffs,
    BStarts,        \* genesis times (ms)
    BDts,           \* block time differences (ms)
    BVotingMs,      \* voting periods
    BWindows,       \* signed blocks windows
    BJailMs,        \* downtime jail durations
    BDelAmts,       \* amounts of delegations / undelegations
    BMaxLen         \* blocks per behaviour

VARIABLES ch, ob
bvars == <<st, gh, hist, cfg, ch, ob>>

Id(i)   == ToString(i)
One18   == BigPow10(18)
Power(tokens) == BigQuo(tokens, One18)

---------------------------------------------------------------------------
(* the environment: validators *)

ValIds(c)     == DOMAIN c.vals
Existing(c)   == {v \in ValIds(c) : c.vals[v].status # "none"}
InSet(c)      == {v \in ValIds(c) : c.vals[v].status = "in"}
Eligible(c)   == {v \in Existing(c) : ~c.vals[v].jailed /\ BigGT(Power(c.vals[v].tokens), "0")}
Self(c, v)    == BigSub(c.vals[v].tokens, c.vals[v].del)

SumTokens(c, S) ==
    LET F[T \in SUBSET S] == IF T = {} THEN "0"
                             ELSE LET v == CHOOSE x \in T : TRUE IN BigAdd(c.vals[v].tokens, F[T \ {v}])
    IN F[S]
BondedPool(c) == SumTokens(c, InSet(c))

\* ranks by consensus power; the scenario space keeps the powers of the candidates distinct
NoTies(c) == \A v, w \in Eligible(c) : v # w => Power(c.vals[v].tokens) # Power(c.vals[w].tokens)
Rank(c, v) == Cardinality({w \in Eligible(c) : BigGT(Power(c.vals[w].tokens), Power(c.vals[v].tokens))})

\* slashing: MinSignedPerWindow 0.5, RoundInt64 rounds half to even
MinSigned(W)  == IF W % 2 = 0 THEN W \div 2 ELSE IF ((W + 1) \div 2) % 2 = 0 THEN (W + 1) \div 2 ELSE (W - 1) \div 2
NoBits(W)     == TLCEval([i \in 0..(W - 1) |-> FALSE])

\* BeginBlock at height h, time ts
Liveness(c, v, h, ts, absent) ==
    LET x  == c.vals[v]
        W  == c.window
        i  == x.off % W
        miss == v \in absent
        m1 == IF ~x.bits[i] /\ miss THEN x.missed + 1 ELSE IF x.bits[i] /\ ~miss THEN x.missed - 1 ELSE x.missed
        x1 == [x EXCEPT !.off = @ + 1, !.bits = [@ EXCEPT ![i] = miss], !.missed = m1]
    IN IF h > x.start + W /\ m1 > W - MinSigned(W)
       THEN [x1 EXCEPT !.jailed = TRUE, !.until = BigAdd(ts, c.jailMs), !.missed = 0, !.off = 0, !.bits = NoBits(W)]
       ELSE x1

BeginBlock(c, h, ts, absent, evidence) ==
    LET voters == IF h >= 2 THEN {v \in InSet(c) : ~c.vals[v].jailed} ELSE {}
        \* (TLCEval: TLC keeps [x \in S |-> e] unevaluated and would re-evaluate the stages of a block
        \*  inside each other)
        c1 == [c EXCEPT !.vals = TLCEval([v \in ValIds(c) |-> IF v \in voters THEN Liveness(c, v, h, ts, absent) ELSE c.vals[v]])]
    IN [c1 EXCEPT !.vals = TLCEval([v \in ValIds(c) |->
            IF v \in evidence /\ c1.vals[v].status = "in" /\ ~c1.vals[v].tomb
            THEN [c1.vals[v] EXCEPT !.jailed = TRUE, !.tomb = TRUE] ELSE c1.vals[v]])]

\* one transaction; a transaction that the chain refuses changes nothing
TxOK(c, tx, ts) ==
    CASE tx.k = "delegate"   -> tx.val \in Existing(c)
      [] tx.k = "undelegate" -> /\ tx.val \in Existing(c)
                                /\ IF tx.from = "a1" THEN BigLE(tx.amt, c.vals[tx.val].del)
                                   ELSE BigLE(BigAdd(tx.amt, One18), Self(c, tx.val))
      [] tx.k = "create"     -> tx.val \in ValIds(c) /\ c.vals[tx.val].status = "none"
      [] tx.k = "unjail"     -> /\ tx.val \in Existing(c) /\ c.vals[tx.val].jailed /\ ~c.vals[tx.val].tomb
                                /\ BigLE(c.vals[tx.val].until, ts)
      [] tx.k = "propose"    -> TRUE
      [] OTHER               -> FALSE
ApplyTx(c, tx, ts) ==
    IF ~TxOK(c, tx, ts) THEN c
    ELSE CASE tx.k = "delegate"   -> [c EXCEPT !.vals[tx.val].tokens = BigAdd(@, tx.amt),
                                               !.vals[tx.val].del = IF tx.from = "a1" THEN BigAdd(@, tx.amt) ELSE @]
           [] tx.k = "undelegate" -> [c EXCEPT !.vals[tx.val].tokens = BigSub(@, tx.amt),
                                               !.vals[tx.val].del = IF tx.from = "a1" THEN BigSub(@, tx.amt) ELSE @]
           [] tx.k = "create"     -> [c EXCEPT !.vals[tx.val].status = "out", !.vals[tx.val].tokens = tx.amt]
           [] tx.k = "unjail"     -> [c EXCEPT !.vals[tx.val].jailed = FALSE]
           [] tx.k = "propose"    -> [c EXCEPT !.props = Append(@, [end |-> BigAdd(ts, c.votingMs), key |-> tx.key, val |-> tx.val])]
ApplyTxs(c, txs, ts) ==
    LET F[i \in 0..Len(txs)] == IF i = 0 THEN c ELSE ApplyTx(F[i - 1], txs[i], ts) IN F[Len(txs)]

\* gov end blocker: the proposals whose voting period ended, in the order of submission.  Every genesis
\* validator voted yes; a bonded, not jailed validator votes with all the stake delegated to it (the
\* delegator account does not vote itself).
Passes(c, gen) ==
    LET voters == {v \in InSet(c) : ~c.vals[v].jailed /\ v \in gen}
        pool == BondedPool(c)
    IN ~BigIsZero(pool) /\ BigLE(BigMul("334", pool), BigMul("1000", SumTokens(c, voters)))
Due(c, ts)    == SelectSeq(c.props, LAMBDA p : BigLE(p.end, ts))
GovChanges(c, ts, gen) ==       \* what is executed: <<[key, val], ..>>
    IF Passes(c, gen) THEN [i \in 1..Len(Due(c, ts)) |-> [key |-> Due(c, ts)[i].key, val |-> Due(c, ts)[i].val]] ELSE <<>>
IntOf(str) == CHOOSE m \in 0..64 : ToString(m) = str
GovMaxVals(m, gov) ==
    LET F[i \in 0..Len(gov)] == IF i = 0 THEN m ELSE IF gov[i].key = "maxvals" THEN IntOf(gov[i].val) ELSE F[i - 1] IN F[Len(gov)]
AfterGov(c, ts, gov) ==
    [c EXCEPT !.props = SelectSeq(@, LAMBDA p : ~BigLE(p.end, ts)), !.maxVals = GovMaxVals(@, gov)]

\* staking end blocker at height h
AfterStaking(c, h) ==
    [c EXCEPT !.vals = TLCEval([v \in ValIds(c) |->
        LET x == c.vals[v] IN
        IF x.status = "none" THEN x
        ELSE IF v \in Eligible(c) /\ Rank(c, v) < c.maxVals
             THEN (IF x.status = "in" THEN x ELSE [x EXCEPT !.status = "in", !.start = h])
             ELSE [x EXCEPT !.status = "out"]])]

---------------------------------------------------------------------------
(* M: one block *)

\* [pre, gov, post, ch]: the coinomics state before the application's EndBlock, the executed
\* parameter changes, the state the block commits, the environment afterwards
MBlock(s, c, gen, args) ==
    LET ts  == args.ts
        h   == c.height + 1
        c1  == TLCEval(BeginBlock(c, h, ts, {args.absent[i] : i \in 1..Len(args.absent)}, {args.evidence[i] : i \in 1..Len(args.evidence)}))
        c2  == TLCEval(ApplyTxs(c1, args.txs, ts))
        pre == [s EXCEPT !.bonded = BondedPool(c2)]
        gov == GovChanges(c2, ts, gen)
        c3  == TLCEval(AfterGov(c2, ts, gov))
        c4  == TLCEval(AfterStaking(c3, h))
    IN [pre |-> pre, gov |-> gov, post |-> MBlockEnd(pre, gov, BondedPool(c4), ts),
        ch |-> [c4 EXCEPT !.height = h]]

---------------------------------------------------------------------------
(* scenarios *)

GenIds(c0)    == {Id(i) : i \in 1..c0.gen}
FirstMint(c0) ==
    LET F[i \in 0..c0.gen] == IF i = 0 THEN "0" ELSE BigAdd(c0.stakes[i], F[i - 1]) IN
    DecRoundInt(MintAsBuilt(F[c0.gen], c0.coeff, "6000", YearMs(c0.start)))

ChainInit(c0) ==
    [vals |-> TLCEval([v \in {Id(i) : i \in 1..Len(c0.stakes)} |->
                 LET i == CHOOSE j \in 1..Len(c0.stakes) : Id(j) = v IN
                 [tokens |-> IF i <= c0.gen THEN c0.stakes[i] ELSE "0", del |-> "0",
                  status |-> IF i <= c0.gen THEN "in" ELSE "none", jailed |-> FALSE, tomb |-> FALSE, until |-> "0",
                  start |-> 0, off |-> 0, bits |-> NoBits(c0.window), missed |-> 0]]),
     maxVals |-> c0.maxVals, props |-> <<>>, height |-> 0, window |-> c0.window,
     jailMs |-> c0.jailMs, votingMs |-> c0.votingMs]

BInit ==
    /\ \E sc \in BStakeChoices, mv \in BMaxVals, co \in BCoeffs, k \in BDistMults, off \in BDistOffs, s0 \in BStarts,
          vm \in BVotingMs, w \in BWindows, jm \in BJailMs, en \in BOOLEAN, dn \in MaxDenoms :
         /\ mv >= sc.gen       \* a genesis that declares more bonded validators than seats is not a state the chain reaches
         /\ LET c0 == [mode |-> "chain", gen |-> sc.gen, spare |-> Len(sc.stakes) - sc.gen, stakes |-> sc.stakes,
                    maxVals |-> mv, coeff |-> co, dist |-> "0", maxDenom |-> dn, enabled |-> en, start |-> s0, votingMs |-> vm,
                    window |-> w, jailMs |-> jm, slashDs |-> "0", slashDt |-> "0"] IN
            cfg = [c0 EXCEPT !.dist = IF k = 0 THEN FarCap ELSE BigAdd(BigMul(BigOfInt(k), FirstMint(c0)), off)]
    /\ ch = ChainInit(cfg)
    /\ st = [enabled |-> cfg.enabled, coeff |-> cfg.coeff, max |-> BigAdd(InitSupply, cfg.dist), maxDenom |-> cfg.maxDenom, prevTs |-> "0",
             supply |-> InitSupply, bonded |-> BondedPool(ch), fee |-> "0"]
    /\ gh = GhostInit(st)
    /\ hist = <<>>
    /\ ob = [pre |-> st, gov |-> <<>>]

Block(args) ==
    LET r == MBlock(st, ch, GenIds(cfg), args)
        \* exp: what this machine expects the block to leave behind (scripts only: lib/props/c13.py compares
        \* it with the recorded execution to report how faithful this scenario model is; never a verdict)
        e == [ev |-> "block", args |-> args, ok |-> TRUE,
              exp |-> [bonded |-> r.post.bonded, enabled |-> r.post.enabled, coeff |-> r.post.coeff,
                       prevTs |-> r.post.prevTs, minted |-> BigSub(r.post.supply, r.pre.supply)]] IN
    /\ NoTies(r.ch)
    /\ st' = r.post
    /\ ch' = r.ch
    /\ ob' = [pre |-> r.pre, gov |-> r.gov]
    /\ gh' = GhostNext(e, BlockInputs(r.pre, r.post, r.gov), r.post, gh)
    /\ hist' = Append(hist, e)
    /\ UNCHANGED cfg

Args(ts, txs, ev, ab, setup) == [ts |-> ts, txs |-> txs, evidence |-> ev, absent |-> ab, setup |-> setup]
Now        == IF hist = <<>> THEN cfg.start ELSE hist[Len(hist)].args.ts
BNextTimes == {BigAdd(Now, d) : d \in BDts}

Del(v, a)    == [k |-> "delegate", from |-> "a1", val |-> v, amt |-> a]
Undel(v, a)  == [k |-> "undelegate", from |-> "a1", val |-> v, amt |-> a]
SelfUn(v, a) == [k |-> "undelegate", from |-> "v" \o v, val |-> v, amt |-> a]
Create(v)    == [k |-> "create", val |-> v, amt |-> cfg.stakes[CHOOSE j \in 1..Len(cfg.stakes) : Id(j) = v]]
Unjail(v)    == [k |-> "unjail", val |-> v]
Propose(key, val) == [k |-> "propose", key |-> key, val |-> val]

\* validator "1" is never taken out by the scenarios (somebody has to stay bonded)
Targets == InSet(ch) \ {"1"}
Txs(ts) ==
    {<<>>}
    \cup {<<Del(v, a)>> : v \in Existing(ch), a \in BDelAmts}
    \cup {<<Undel(v, a)>> : v \in {w \in Existing(ch) : ~BigIsZero(ch.vals[w].del)}, a \in BDelAmts}
    \cup {<<SelfUn(v, a)>> : v \in Existing(ch) \ {"1"}, a \in BDelAmts}
    \cup {<<Create(v)>> : v \in ValIds(ch) \ Existing(ch)}
    \cup {<<Unjail(v)>> : v \in {w \in Existing(ch) : ch.vals[w].jailed /\ ~ch.vals[w].tomb}}
    \cup {<<Propose("enabled", IF st.enabled THEN "false" ELSE "true")>>}
    \cup {<<Propose("coeff", c)>> : c \in BCoeffs \ {st.coeff}}
    \cup {<<Propose("maxvals", ToString(m))>> : m \in BMaxVals \ {ch.maxVals}}

BNext ==
    /\ Len(hist) < BMaxLen
    /\ \E ts \in BNextTimes :
         IF hist = <<>> THEN Block(Args(ts, <<>>, <<>>, <<>>, TRUE))     \* the set-up block
         ELSE \/ \E txs \in Txs(ts) : Block(Args(ts, txs, <<>>, <<>>, FALSE))
              \/ \E v \in Targets : Block(Args(ts, <<>>, <<v>>, <<>>, FALSE))
              \/ \E v \in Targets : Block(Args(ts, <<>>, <<>>, <<v>>, FALSE))

BSpec == BInit /\ [][BNext]_bvars

---------------------------------------------------------------------------
(* what the exhaustive configurations check *)

\* P on every block of the as-built machine
BStep_P == [][hist' # hist => BlockOK(ob'.pre, st', gh, ob'.gov, hist'[Len(hist')].args.ts)]_bvars
\* ... and, as built, only the named defect may break it
BStep_Compensated ==
    [][hist' # hist =>
         LET e   == hist'[Len(hist')]
             inp == BlockInputs(ob'.pre, st', ob'.gov)
             b   == BlockBroken(ob'.pre, st', gh, ob'.gov, e.args.ts) IN
         \/ b = {}
         \/ /\ "stale_prevts" \in Defects
            /\ b = {"first-block-after-activation-minted"}
            /\ ReactClass(inp, st', e.args.ts, gh) \in
                 {"as-if-elapsed-since-stale-prevTs"} \cup
                 (IF inp.prevTs = gh.lastTs THEN {"as-if-elapsed-since-previous-block"} ELSE {})]_bvars

\* reachability probes (each must be VIOLATED: the situation exists in the scenario space)
LastBlockMinted == hist # <<>> /\ BigGT(st.supply, ob.pre.supply)
Probe_NoLeaveWhileMinting == ~(LastBlockMinted /\ BigLT(st.bonded, ob.pre.bonded))
Probe_NoJoinWhileMinting  == ~(LastBlockMinted /\ BigGT(st.bonded, ob.pre.bonded))
Probe_NoCoeffWhileMinting == ~(LastBlockMinted /\ st.coeff # ob.pre.coeff)

BView == <<st, gh, ch, Len(hist)>>

---------------------------------------------------------------------------
(* model values (cfg files cannot contain tuples) *)
ISLM(n) == BigMul(BigOfInt(n), One18)
MC_StakesSmall == {[gen |-> 2, stakes |-> <<ISLM(1000), ISLM(700), ISLM(400)>>]}
MC_StakesSim ==
    {[gen |-> 2, stakes |-> <<ISLM(1000), ISLM(700), ISLM(400)>>],
     [gen |-> 3, stakes |-> <<ISLM(1200), ISLM(900), ISLM(500), ISLM(1000)>>],
     [gen |-> 3, stakes |-> <<ISLM(5000000), ISLM(900), ISLM(2500000), ISLM(1000), ISLM(300)>>],
     [gen |-> 2, stakes |-> <<ISLM(800), ISLM(10000001), ISLM(6000000), ISLM(350)>>]}

---------------------------------------------------------------------------
(* behaviours as scripts for the harness (-simulate) *)

BEmit == Len(hist) = BMaxLen /\ PrintT(<<"SCRIPT", ToJson([cfg |-> cfg, steps |-> hist])>>) /\ UNCHANGED bvars

RandTs(h)  == BigAdd(Now, RandomElement(BDts))
RandOf(S, h) == RandomElement(S)
\* a second transaction in the same block
Also(txs, h) ==
    LET more == Txs("0") \ {<<>>} IN
    IF RandomElement({0, 1, 2}) = 0 /\ more # {} THEN txs \o RandomElement(more) ELSE txs
BSimNext ==
    /\ Len(hist) < BMaxLen
    /\ IF hist = <<>> THEN Block(Args(RandTs(hist), <<>>, <<>>, <<>>, TRUE))
       ELSE \/ Block(Args(RandTs(hist), <<>>, <<>>, <<>>, FALSE))
            \/ \E k \in {"delegate", "undelegate", "create", "unjail", "propose"} :
                 LET S == {t \in Txs("0") : t # <<>> /\ t[1].k = k} IN
                 S # {} /\ Block(Args(RandTs(hist), Also(RandOf(S, hist), hist), <<>>, <<>>, FALSE))
            \/ LET S == {t \in Txs("0") : t # <<>> /\ t[1].k = "propose" /\ t[1].key # "maxvals"} IN
                 S # {} /\ Block(Args(RandTs(hist), RandOf(S, hist), <<>>, <<>>, FALSE))
            \/ Targets # {} /\ Block(Args(RandTs(hist), <<>>, <<RandOf(Targets, hist)>>, <<>>, FALSE))
            \/ Targets # {} /\ Block(Args(RandTs(hist), Also(<<>>, hist), <<>>, <<RandOf(Targets, hist)>>, FALSE))
            \* keep a validator that already missed a block absent (downtime needs consecutive misses)
            \/ LET S == {v \in Targets : ch.vals[v].missed > 0} IN
                 S # {} /\ Block(Args(RandTs(hist), Also(<<>>, hist), <<>>, <<RandOf(S, hist)>>, FALSE))
BSimSpec == BInit /\ [][BSimNext \/ BEmit]_bvars
=============================================================================
