SPECIFICATION EmitSpec
CONSTANTS
  MaxNodes = 5
  MaxSpine = 9
  MaxSkel = 8
  MaxExt = 2
  EmitFullExt = 3
  EmitShortExt = 4
  SampleFull = 2000
  SampleSkel = 3000
  SpineExts = "none"
  Defects = {}
CHECK_DEADLOCK FALSE
