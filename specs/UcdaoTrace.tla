----------------------------- MODULE UcdaoTrace -----------------------------
(* Validates traces recorded from the real x/ucdao message server (harness/ucdao.go)  *)
(* against the property layer P of Ucdao (verdict) and against the as-built machine M  *)
(* (diagnostic).  Deterministic and total: every line is consumed, the model            *)
(* re-synchronises on the logged state, violations are accumulated as signatures.       *)
EXTENDS Ucdao

VARIABLES l, viol, div, nscn
tvars == <<st, hist, leaked, l, viol, div, nscn>>

Trace == ndJsonDeserialize("trace.ndjson")

Sig(kind, class, e) == [prop |-> "C12", kind |-> kind, class |-> class, scn |-> e.scn, line |-> l]

TraceInit ==
    /\ l = 1 /\ viol = {} /\ div = {} /\ nscn = 0
    /\ st = [enabled |-> TRUE] /\ hist = <<>> /\ leaked = <<>>

TraceNext ==
    /\ l <= Len(Trace)
    /\ LET e == Trace[l] IN
       /\ l' = l + 1
       /\ st' = e.post
       /\ UNCHANGED <<hist, leaked>>
       /\ IF e.ev = "reset"
          THEN /\ nscn' = nscn + 1
               /\ viol' = viol \cup {Sig("init:" \o n, "-", e) : n \in BrokenInvariants(e.post)}
               /\ div' = div
          ELSE /\ nscn' = nscn
               /\ viol' = viol
                    \cup (IF StepOK(e, st, e.post) THEN {}
                          ELSE {Sig((IF e.ok THEN "step:" ELSE "failed-step-changed-state:") \o e.ev \o StepFault(e, st, e.post), StepClass(e), e)})
                    \cup {Sig(n, StepClass(e), e) : n \in BrokenInvariants(e.post) \ BrokenInvariants(st)}
               /\ div' = div \cup
                    (LET r == MResult(st, e.ev, e.args) IN
                     IF r.ok = e.ok /\ r.post = e.post THEN {}
                     ELSE {[ev |-> e.ev, class |-> StepClass(e), scn |-> e.scn, line |-> l,
                            what |-> IF r.ok # e.ok THEN "accept/reject" ELSE "post-state"]})

TraceSpec == TraceInit /\ [][TraceNext]_tvars

Report == l <= Len(Trace) \/
          PrintT(<<"RESULT", ToJson([consumed |-> l - 1, scenarios |-> nscn, viol |-> viol, div |-> div])>>)
=============================================================================
