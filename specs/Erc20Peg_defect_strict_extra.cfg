SPECIFICATION Spec
CONSTANTS
  Holders = {"a1","a2"}
  Amts = {"1","2"}
  InitBal = "3"
  MaxLen = 4
  Scenarios <- MC_ExtraOnly
  Defects = {"unescrow_receiver_only"}
INVARIANT MInv_Strict
VIEW View
CHECK_DEADLOCK FALSE
