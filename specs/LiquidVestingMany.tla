-------------------------- MODULE LiquidVestingMany --------------------------
(***************************************************************************)
(* Scenario space of C11 in the dimension "how many liquid tokens are in   *)
(* circulation at once".                                                   *)
(*                                                                         *)
(* The statement quantifies over "all sequences of liquidate, transfer,    *)
(* partial redeem and full redeem across several holders" and speaks of    *)
(* EVERY liquid token in circulation: each token's record, supply and      *)
(* backing are its own, whatever happens to another token.  The property   *)
(* layer of LiquidVesting says so already (Inv_SchedSum and Inv_Backing    *)
(* range over all tokens; the frame clauses of liquidate / transfer /      *)
(* redeem demand that every OTHER token's record, supply and holdings are  *)
(* unchanged).  What the histories of LiquidVesting_*.cfg do not reach is  *)
(* a ledger with more than a handful of tokens: they are at most 8 steps   *)
(* long.  Tokens are identified by a running number that becomes part of   *)
(* the denomination ("aLIQUID" \o id), of the store key of the record, of  *)
(* the ERC20 pair and of the bank metadata: with more than ten tokens the  *)
(* identifiers have different lengths and one is a prefix of another, with *)
(* tokens that are fully redeemed in any order the live identifiers are an *)
(* arbitrary subset of 0..n-1.  This module adds those histories:          *)
(*                                                                         *)
(*   issue   NTok tokens are issued one after the other (several holders)  *)
(*   drain   the tokens are redeemed - completely, in ANY order, into      *)
(*           fresh / existing recipients, interleaved with transfers,      *)
(*           partial redeems and further liquidations - until none is left *)
(*                                                                         *)
(* ManySpec      exhaustive: every ORDER of full redemption of NTok tokens *)
(*               on the as-built machine (2^NTok ledgers), all of P        *)
(* SimManySpec   behaviours for the harness (issue, then a random drain)   *)
(* The same P (StepBroken, BrokenInvariants) judges the recorded steps.    *)
(***************************************************************************)
EXTENDS LiquidVesting

CONSTANT NTok     \* number of tokens issued before the drain starts

Live(s) == {i \in DenomIdx(s) : s.denoms[i].exists}

---------------------------------------------------------------------------
(* exhaustive: issue NTok tokens (alternating recipients), then every      *)
(* order in which their holders redeem them completely                      *)

IssueTo(k) == IF k % 2 = 0 THEN "a1" ELSE "a2"
ManyNext ==
    /\ Len(hist) < MaxLen
    /\ \E t \in clk..IMin(MaxT, clk + TStep) :
       IF Len(st.denoms) < NTok
       THEN \E x \in Amts : DoOk("liquidate", [from |-> "a1", to |-> IssueTo(Len(st.denoms)), amt |-> x, t |-> t])
       ELSE \E i \in Live(st), from \in Names :
               /\ BigSign(HeldBy(st, i, from)) > 0
               /\ DoOk("redeem", [from |-> from, to |-> "a3", denom |-> st.denoms[i].id, amt |-> HeldBy(st, i, from), t |-> t])
ManySpec == Init /\ [][ManyNext]_vars

\* non-vacuity: the drain really ends with an empty ledger (violated on purpose by ManyDrained_cfg)
NotDrained == ~(Len(st.denoms) = NTok /\ Live(st) = {} /\ BigIsZero(st.mod))

---------------------------------------------------------------------------
(* simulation: issue until NTok tokens exist, then drain; redeeming          *)
(* everything a holder has is drawn three times as often as the rest        *)

SimManyNext ==
    /\ Len(hist) < MaxLen
    /\ IF Len(st.denoms) < NTok
       THEN SimLiquidate
       ELSE SimRedeemAll \/ SimRedeemAll \/ SimRedeemAll \/ SimTransfer \/ SimRedeemSome \/ SimLiquidate
\* a restart from the exported genesis (the record of every live token is exported and imported): one step in eight
SimManyRestart == /\ Len(hist) < MaxLen /\ RandomElement(1..8) = 1
                  /\ \E args \in {[t |-> RandT(hist)]} : Do("export_import", args)
SimManySpec == Init /\ [][SimManyNext \/ SimManyRestart \/ Emit]_vars

---------------------------------------------------------------------------
\* a1 locked until 40 / 70 / 100 (enough for NTok issues of up to 3), a2 starts later, a3 is a fresh address
MC_AcctsM == [a1 |-> VA(0, <<P(40, "20"), P(30, "20"), P(30, "20")>>, "0"), a2 |-> VA(5, <<P(80, "10")>>, "2"), a3 |-> NA]
=============================================================================
