SPECIFICATION RSpec
CONSTANTS
  Defects = {}
  Family = "C02"
  MaxOps = 9
INVARIANT Intended
CHECK_DEADLOCK FALSE
