------------------------------- MODULE EvmFees -------------------------------
(***************************************************************************)
(* Fees of haqq transactions (C07): every transaction pays the fee floor,  *)
(* EVM gas is charged exactly.                                             *)
(*                                                                         *)
(* An *event* e is one transaction delivered in a block, as recorded by     *)
(* harness/evmfees.go (or produced by the as-built machine below):          *)
(*   par   [baseFee, noBaseFee, mgp18, mult18, maxGas]  parameters in effect *)
(*         (mgp18 / mult18: MinGasPrice / MinGasMultiplier x 10^18, FeeDec)  *)
(*   route "cosmos" | "eth"                                                  *)
(*   cos   [gas, fee, hasFee, ext, sign, maxPrio, amount]  the Cosmos MsgSend  *)
(*         tx; ext is the extension option that selects the ante chain       *)
(*         ("none" | "dynfee": default Cosmos chain, "web3": the legacy      *)
(*         EIP-712 chain), sign how it is signed ("direct" | "amino" |       *)
(*         "eip712"; a web3 transaction is always signed the EIP-712 way)    *)
(*   msgs  sequence of Ethereum messages [from, type, gas, gasPrice, cap,     *)
(*         tip, value, prog, nz, z, alAddrs, alKeys, slots, twinGas,          *)
(*         resp : [present, gasUsed, failed, outcome]]; every message is      *)
(*         signed by its own sender `from` (one of the accounts a1, a2, a3)   *)
(*   pre, post  [a1, a2, a3, rcpt, collector]  bank balances around DeliverTx *)
(*         (the Cosmos transaction is sent by a1; rcpt receives transfers)    *)
(*   res   [code, gasUsed, gasWanted]                                         *)
(* All amounts are decimal strings (BigNum).                                  *)
(*                                                                         *)
(* Property layer P (from the statement of C07 only): PViol(e) is the set of *)
(* clauses [kind, class] the event breaks.  P never asserts acceptance.      *)
(* As-built machine M: MResult(e) = what app/ante + x/evm do with the inputs *)
(* of e, structured like the code; deviations of the code from P are named   *)
(* members of the CONSTANT Defects.                                          *)
(***************************************************************************)
EXTENDS Integers, Sequences, FiniteSets, FiniteSetsExt, TLC, Json, BigNum, FeeDec

CONSTANTS Defects     \* subset of {"cosmos_dynfee_below_floor"}

Idx(s) == 1..Len(s)
SumIdx(s, f(_)) == FoldSet(LAMBDA i, acc : BigAdd(acc, f(i)), "0", Idx(s))

---------------------------------------------------------------------------
(* Vocabulary shared by P and M: what the statement's words mean *)

\* the current base fee (none when the fee market runs without one)
Base(e) == IF e.par.noBaseFee THEN "0" ELSE e.par.baseFee

\* effective gas price: min(tip + baseFee, cap) for dynamic-fee txs, the gas price otherwise
EffPrice(e, m) == IF m.type = "dynamic" THEN BigMin(BigAdd(m.tip, Base(e)), m.cap) ELSE m.gasPrice
\* the fee an Ethereum message is held to the floor with: effective fee (typed), gasPrice x gas (legacy)
FloorFee(e, m) == BigMul(EffPrice(e, m), m.gas)
\* fee >= gasLimit x minGasPrice, exactly
MeetsFloor(fee, e, gas) == IntGEDecMul(fee, e.par.mgp18, gas)

\* EVM gas of the scripted programs, known independently of any response (Istanbul/Berlin/London
\* schedule: 21000 per tx, +32000 for a creation, 16 / 4 per non-zero / zero calldata byte,
\* 2400 / 1900 per access-list address / storage key)
Intrinsic(m) ==
    BigAdd(IF m.prog = "create" THEN "53000" ELSE "21000",
    BigAdd(BigMul("16", m.nz), BigAdd(BigMul("4", m.z),
    BigAdd(BigMul("2400", m.alAddrs), BigMul("1900", m.alKeys)))))
\* revert program: PUSH1 PUSH1 REVERT = 6 gas, the rest is returned; without 6 gas it runs out
RevertGas(m) == LET need == BigAdd(Intrinsic(m), "6") IN IF BigLE(need, m.gas) THEN need ELSE m.gas
\* SSTORE-clearing program: per slot PUSH1 PUSH1 SSTORE of a cold, non-zero slot to zero = 3 + 3 +
\* 2100 (EIP-2929 cold access) + 2900 (reset) = 5006 gas and 4800 on the refund counter (EIP-3529);
\* the refund is capped at one fifth of the gas CONSUMED (EIP-3529) - whatever the gas limit is.
\* Without enough gas for all slots the execution runs out of gas and consumes everything.
SstoreExec(m)    == BigAdd(Intrinsic(m), BigMul("5006", m.slots))
SstoreCounter(m) == BigMul("4800", m.slots)
SstoreRefund(m)  == BigMin(SstoreCounter(m), BigQuo(SstoreExec(m), "5"))
SstoreGas(m)     == IF BigLE(SstoreExec(m), m.gas) THEN BigSub(SstoreExec(m), SstoreRefund(m)) ELSE m.gas
\* programs whose EVM gas (after refunds) the specification computes itself, from the gas schedule
\* only - never from a response of the code under test, never as a function of spare gas
Scripted == {"transfer", "calldata", "stop", "create", "revert", "invalid", "loop", "sstore"}
EvmGasKnown(m) == m.prog \in Scripted
EvmGas(m) ==
    CASE m.prog \in {"transfer", "calldata", "stop", "create"} -> Intrinsic(m)
      [] m.prog = "revert"                                       -> RevertGas(m)
      [] m.prog \in {"invalid", "loop"}                          -> m.gas      \* consumes everything
      [] m.prog = "sstore"                                       -> SstoreGas(m)
      [] OTHER                                                   -> "-1"

\* minGasMultiplier x gasLimit; gas is integral, either integer neighbour is accepted by P
ClampLo(e, m) == DecMulFloor(e.par.mult18, m.gas)
ClampHi(e, m) == DecMulCeil(e.par.mult18, m.gas)

Accepted(e) == e.res.code = 0
\* the accounts that may sign messages; all of them are observed in every event
Senders == {"a1", "a2", "a3"}
CosmosSender == "a1"
MsgsOf(e, a) == {i \in Idx(e.msgs) : e.msgs[i].from = a}
SumOver(S, f(_)) == FoldSet(LAMBDA i, acc : BigAdd(acc, f(i)), "0", S)
Delta(e, who) == BigSub(e.post[who], e.pre[who])

---------------------------------------------------------------------------
(* P *)

V(kind, class) == [kind |-> kind, class |-> class]

BaseRel(e) == IF e.par.noBaseFee THEN "noBaseFee"
              ELSE IF IntGEDecMul(e.par.baseFee, e.par.mgp18, "1") THEN "baseFee>=minGasPrice" ELSE "baseFee<minGasPrice"

RECURSIVE JoinOutcomes(_)
JoinOutcomes(ms) == IF Len(ms) = 0 THEN "-" ELSE IF Len(ms) = 1 THEN ms[1].resp.outcome
                    ELSE ms[1].resp.outcome \o "+" \o JoinOutcomes(Tail(ms))
TxType(e)  == IF Len(e.msgs) = 1 THEN e.msgs[1].type ELSE "multi"
NumSenders(e) == Cardinality({e.msgs[i].from : i \in Idx(e.msgs)})
TxClass(e) == "type=" \o TxType(e) \o ",outcome=" \o JoinOutcomes(e.msgs)
              \o (IF NumSenders(e) > 1 THEN ",senders=" \o ToString(NumSenders(e)) ELSE "")
MsgClass(e, i) == "type=" \o e.msgs[i].type \o ",outcome=" \o e.msgs[i].resp.outcome
                  \o (IF Len(e.msgs) > 1 THEN ",msgs=" \o ToString(Len(e.msgs)) ELSE "")

\* (a) Cosmos route: accepted => the fee is not below gasLimit x minGasPrice - neither the fee the
\*     transaction provides nor the fee it is actually charged (what the fee collector receives).
\*     Gas prices are integral: a charged fee of (integer price) x gas may fall short of a fractional
\*     floor by less than one price unit per gas, which P tolerates (charged + gas >= floor).
CosClass(c) == "ext=" \o c.ext \o (IF c.ext # "web3" /\ c.sign # "direct" THEN ",sign=" \o c.sign ELSE "")
PViolCosmos(e) ==
    LET c    == e.cos
        prov == MeetsFloor(c.fee, e, c.gas)
        chg  == MeetsFloor(BigAdd(Delta(e, "collector"), c.gas), e, c.gas)
    IN  (IF ~prov THEN {V("floor-undercut", "route=cosmos,fee=provided," \o CosClass(c))} ELSE {})
        \cup (IF prov /\ ~chg THEN {V("floor-undercut", "route=cosmos,fee=charged," \o CosClass(c) \o "," \o BaseRel(e))} ELSE {})

\* (a) Ethereum route, and (b) per message: gasUsed = max(evmGas, multiplier x gasLimit) <= gasLimit
GasUsedAllowed(e, m) == {BigMax(EvmGas(m), ClampLo(e, m)), BigMax(EvmGas(m), ClampHi(e, m))}
PViolEthMsg(e, i) ==
    LET m == e.msgs[i] IN
        (IF BigLT(m.cap, Base(e)) THEN {V("feecap-below-basefee", "type=" \o m.type)} ELSE {})
   \cup (IF ~MeetsFloor(FloorFee(e, m), e, m.gas) THEN {V("floor-undercut", "route=eth,type=" \o m.type)} ELSE {})
   \cup (IF m.resp.present /\ EvmGasKnown(m) /\ ~(\E g \in GasUsedAllowed(e, m) : BigEq(g, m.resp.gasUsed))
         THEN {V("gasUsed-clamp", MsgClass(e, i))} ELSE {})
   \cup (IF m.resp.present /\ BigLT(m.gas, m.resp.gasUsed) THEN {V("gasUsed-exceeds-limit", MsgClass(e, i))} ELSE {})

\* (b) money, per sender: every sender's net payment is exactly the sum over ITS OWN messages of
\*     gasUsed x effectivePrice (plus the value of those that succeeded); the collector receives
\*     exactly the sum over all messages; nobody else's balance moves (an observed account that sent
\*     nothing keeps its balance, the recipient of the scripted transfers gets exactly their value).
\*     Balances are observed around the transaction, so messages of one sender are judged in sum.
Executed(e) == \A i \in Idx(e.msgs) : e.msgs[i].resp.present
PayOf(e, i)   == BigMul(e.msgs[i].resp.gasUsed, EffPrice(e, e.msgs[i]))
ValueOf(e, i) == IF e.msgs[i].resp.failed THEN "0" ELSE e.msgs[i].value
Pay(e)      == SumIdx(e.msgs, LAMBDA i : PayOf(e, i))
GasSum(e)   == SumIdx(e.msgs, LAMBDA i : e.msgs[i].resp.gasUsed)
OwnCost(e, a) == SumOver(MsgsOf(e, a), LAMBDA i : BigAdd(PayOf(e, i), ValueOf(e, i)))
ToRcpt(e)   == SumIdx(e.msgs, LAMBDA i : IF e.msgs[i].prog \in {"transfer", "calldata"} THEN ValueOf(e, i) ELSE "0")
PViolEthTotals(e) ==
    IF ~Executed(e) THEN {}
    ELSE UNION {IF BigEq(Delta(e, a), BigNeg(OwnCost(e, a))) THEN {}
                ELSE IF MsgsOf(e, a) = {} THEN {V("bystander-balance", TxClass(e))} ELSE {V("sender-payment", TxClass(e))} : a \in Senders}
    \cup (IF ~BigEq(Delta(e, "rcpt"), ToRcpt(e)) THEN {V("bystander-balance", TxClass(e))} ELSE {})
    \cup (IF ~BigEq(Delta(e, "collector"), Pay(e)) THEN {V("collector-amount", TxClass(e))} ELSE {})
    \cup (IF ~BigEq(e.res.gasUsed, GasSum(e)) THEN {V("tx-gasUsed", TxClass(e))} ELSE {})

PViol(e) ==
    IF ~Accepted(e) THEN {}
    ELSE IF e.route = "cosmos" THEN PViolCosmos(e)
    ELSE UNION {PViolEthMsg(e, i) : i \in Idx(e.msgs)} \cup PViolEthTotals(e)

---------------------------------------------------------------------------
(* M: the as-built machine.  MResult(e) uses only the inputs of e (par, route, cos, msgs  *)
(* without resp, pre) and returns [ok, post, used, failed, txGas]:                         *)
(*   ok      DeliverTx code 0                                                              *)
(*   post    balances after the transaction                                                *)
(*   used    gasUsed per Ethereum message, failed: vm error per message                    *)

MaxInt64 == "9223372036854775807"

\* x/evm execution of the scripted programs (go-ethereum interpreter + EIP-3529 refunds)
MEvm(m) ==
    CASE m.prog \in {"transfer", "calldata", "stop", "create"} -> [gas |-> Intrinsic(m), failed |-> FALSE]
      [] m.prog = "revert"             -> [gas |-> RevertGas(m), failed |-> TRUE]
      [] m.prog \in {"invalid", "loop"} -> [gas |-> m.gas, failed |-> TRUE]
      [] m.prog = "sstore" ->
            IF BigLE(SstoreExec(m), m.gas)
            THEN \* state_transition.go: refund = min(refund counter, gasUsed / 5), 4800 per cleared slot
                 \* (the counter is SstoreCounter, "gasUsed" the gas consumed so far: msg.Gas() - leftoverGas)
                 [gas |-> BigSub(SstoreExec(m), BigMin(SstoreCounter(m), BigQuo(SstoreExec(m), "5"))), failed |-> FALSE]
            ELSE [gas |-> m.gas, failed |-> TRUE]

\* app/ante (NewAnteHandler routes on the first extension option: none / DynamicFee -> the default
\* Cosmos chain, Web3Tx -> the legacy EIP-712 chain; the two lists differ in signature verification
\* only, whatever the sign mode): MinGasPriceDecorator (provided fee >= ceil(minGasPrice x gas)), then
\* DeductFeeDecorator with the DynamicFeeChecker of app/ante/evm/fee_checker.go: the fee that is
\* *deducted* is min(baseFee + maxPriorityPrice, fee / gas) x gas, which nothing holds to the floor
MCosmos(e) ==
    LET c        == e.cos
        base     == Base(e)
        floorRej == ~BigIsZero(e.par.mgp18) /\ (~c.hasFee \/ BigLT(c.fee, DecMulCeil(e.par.mgp18, c.gas)))
        gasRej   == BigIsZero(c.gas) \/ BigLT(e.par.maxGas, c.gas)
        prio     == IF c.ext = "dynfee" THEN c.maxPrio ELSE MaxInt64
        feeCap   == IF BigIsZero(c.gas) THEN "0" ELSE BigQuo(c.fee, c.gas)
        capRej   == BigLT(feeCap, base)
        effFee   == BigMul(BigMin(BigAdd(base, prio), feeCap), c.gas)
        \* the intended design holds the charged fee to the floor as the Ethereum route does
        heldRej  == "cosmos_dynfee_below_floor" \notin Defects /\ ~MeetsFloor(BigAdd(effFee, c.gas), e, c.gas)
        balRej   == BigLT(e.pre[CosmosSender], BigAdd(effFee, c.amount))
        ok       == ~(floorRej \/ gasRej \/ capRej \/ heldRej \/ balRej)
    IN [ok |-> ok, used |-> <<>>, failed |-> <<>>, txGas |-> "-1",
        post |-> IF ok THEN [e.pre EXCEPT ![CosmosSender] = BigSub(@, BigAdd(effFee, c.amount)),
                                          !.rcpt          = BigAdd(@, c.amount),
                                          !.collector     = BigAdd(@, effFee)]
                 ELSE e.pre]

\* app/ante/evm: EthMinGasPriceDecorator (effective fee >= minGasPrice x gas), CanTransfer and
\* VerifyFee (cap >= baseFee), EthGasConsumeDecorator (deducts effectivePrice x gasLimit per
\* message, from that message's own sender, into the fee collector; total gas <= block gas limit); then per message
\* state_transition.go: intrinsic gas, execution, gasUsed = max(evmGas, floor(mult x gasLimit)),
\* RefundGas: (gasLimit - gasUsed) x effectivePrice from the fee collector back to the sender.
\* A message failing with a consensus error (gas limit below intrinsic gas) fails the transaction
\* after the ante handler: the whole up-front fee stays with the collector.
MEth(e) ==
    LET ms       == e.msgs
        base     == Base(e)
        floorRej == ~BigIsZero(e.par.mgp18) /\ \E i \in Idx(ms) : ~MeetsFloor(FloorFee(e, ms[i]), e, ms[i].gas)
        tipRej   == \E i \in Idx(ms) : ms[i].type = "dynamic" /\ BigLT(ms[i].cap, ms[i].tip)
        capRej   == \E i \in Idx(ms) : BigLT(ms[i].cap, base)
        gasSum   == SumIdx(ms, LAMBDA i : ms[i].gas)
        blockRej == BigLT(e.par.maxGas, gasSum)
        upfront  == SumIdx(ms, LAMBDA i : FloorFee(e, ms[i]))
        upOf(a)  == SumOver(MsgsOf(e, a), LAMBDA i : FloorFee(e, ms[i]))
        balRej   == \E a \in Senders : BigLT(e.pre[a], BigAdd(upOf(a), SumOver(MsgsOf(e, a), LAMBDA i : ms[i].value)))
        anteOK   == ~(floorRej \/ tipRej \/ capRej \/ blockRej \/ balRej)
        execErr  == \E i \in Idx(ms) : BigLT(ms[i].gas, Intrinsic(ms[i]))
        used     == [i \in Idx(ms) |-> BigMax(ClampLo(e, ms[i]), MEvm(ms[i]).gas)]
        failed   == [i \in Idx(ms) |-> MEvm(ms[i]).failed]
        pay      == SumIdx(ms, LAMBDA i : BigMul(used[i], EffPrice(e, ms[i])))
        costOf(a) == SumOver(MsgsOf(e, a), LAMBDA i : BigAdd(BigMul(used[i], EffPrice(e, ms[i])), IF failed[i] THEN "0" ELSE ms[i].value))
        toRcpt   == SumIdx(ms, LAMBDA i : IF ~failed[i] /\ ms[i].prog \in {"transfer", "calldata"} THEN ms[i].value ELSE "0")
        zeros    == [i \in Idx(ms) |-> "0"]
        nofail   == [i \in Idx(ms) |-> FALSE]
    IN  IF ~anteOK THEN [ok |-> FALSE, post |-> e.pre, used |-> zeros, failed |-> nofail, txGas |-> "-1"]
        ELSE IF execErr THEN
             [ok |-> FALSE, used |-> zeros, failed |-> nofail, txGas |-> gasSum,
              post |-> [a \in DOMAIN e.pre |-> IF a \in Senders THEN BigSub(e.pre[a], upOf(a))
                                               ELSE IF a = "collector" THEN BigAdd(e.pre[a], upfront) ELSE e.pre[a]]]
        ELSE [ok |-> TRUE, used |-> used, failed |-> failed, txGas |-> SumIdx(ms, LAMBDA i : used[i]),
              post |-> [a \in DOMAIN e.pre |-> IF a \in Senders THEN BigSub(e.pre[a], costOf(a))
                                               ELSE IF a = "collector" THEN BigAdd(e.pre[a], pay)
                                               ELSE IF a = "rcpt" THEN BigAdd(e.pre[a], toRcpt) ELSE e.pre[a]]]

MResult(e) == IF e.route = "cosmos" THEN MCosmos(e) ELSE MEth(e)

\* the event M produces for the inputs of e (model runs: the exhaustive grid of EvmFeesGen)
OutcomeName(m, failed) == IF ~failed THEN "success" ELSE IF m.prog = "revert" /\ BigLE(BigAdd(Intrinsic(m), "6"), m.gas) THEN "revert" ELSE "oog"
MEvent(e) ==
    LET r == MResult(e) IN
    [e EXCEPT !.post = r.post,
              !.res  = [code |-> IF r.ok THEN 0 ELSE 1, gasUsed |-> r.txGas, gasWanted |-> "0"],
              !.msgs = [i \in Idx(e.msgs) |->
                          [e.msgs[i] EXCEPT !.twinGas = IF @ = "model" THEN MEvm(e.msgs[i]).gas ELSE @,
                                            !.resp = [present |-> r.ok, gasUsed |-> r.used[i], failed |-> r.failed[i],
                                                      outcome |-> OutcomeName(e.msgs[i], r.failed[i])]]]]

\* the scenario classes in which the named defect lets the charged fee fall below the floor
IsDynfeeCorner(e) ==
    /\ e.route = "cosmos" /\ e.cos.ext = "dynfee"
    /\ ~MeetsFloor(BigMul(BigAdd(BigAdd(Base(e), e.cos.maxPrio), "1"), e.cos.gas), e, e.cos.gas)
=============================================================================
