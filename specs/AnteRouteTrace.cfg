SPECIFICATION TraceSpec
CONSTANTS
  MaxNodes = 1
  MaxSpine = 1
  MaxSkel = 1
  MaxExt = 0
  EmitFullExt = 0
  EmitShortExt = 0
  SampleFull = 0
  SampleSkel = 0
  SpineExts = "none"
  Defects = {}
INVARIANT Report
CHECK_DEADLOCK FALSE
