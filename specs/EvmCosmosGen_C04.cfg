SPECIFICATION Spec
CONSTANTS
  Defects = {}
  Family = "C04"
INVARIANT Strict
CHECK_DEADLOCK FALSE
