SPECIFICATION TraceSpec
CONSTANTS
  InitAccts <- MC_AcctsA
  MinLiq = "1"
  Amts = {}
  MaxT = 0
  TStep = 0
  MaxLen = 0
  SplitMaxP = 0
  SplitMaxAmt = 0
  Defects = {"merge_min_start"}
INVARIANT Report
CHECK_DEADLOCK FALSE
