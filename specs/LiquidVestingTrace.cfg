SPECIFICATION TraceSpec
CONSTANTS
  InitAccts <- MC_AcctsA
  MinLiq = "1"
  Amts = {}
  MaxT = 0
  TStep = 0
  MaxLen = 0
  SplitMaxP = 0
  SplitMaxAmt = 0
  Defects = {}
INVARIANT Report
CHECK_DEADLOCK FALSE
