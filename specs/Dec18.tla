------------------------------- MODULE Dec18 -------------------------------
(* 18-decimal fixed point as the Cosmos SDK computes it (cosmossdk.io/math v1.3.0,     *)
(* type LegacyDec = sdk.Dec, file dec.go).  A decimal is represented by its *mantissa*: *)
(* the exact integer  value x 10^18, as a decimal string of module BigNum                *)
(* ("1500000000000000000" is 1.5, "-1" is -10^-18).                                      *)
(*                                                                                      *)
(* Every operator is defined from its mathematical meaning:                             *)
(*   RoundHalfEven(x, d)  the integer nearest to the rational x/d (d > 0); when x/d is  *)
(*                        exactly half-way between two integers, the even one           *)
(*                        ("banker's rounding", chopPrecisionAndRound for d = 10^18)    *)
(*   DecMul(a, b)         a x b rounded half-even to 18 decimals   (LegacyDec.Mul)      *)
(*   DecQuo(a, b)         a / b: first truncated toward zero to 36 decimals, then       *)
(*                        rounded half-even to 18 decimals (LegacyDec.Quo multiplies    *)
(*                        the mantissa by 10^36, big.Int.Quo's it by the divisor's      *)
(*                        mantissa and chops 18 digits; the 36-digit truncation is      *)
(*                        visible: 10^-18 / 1.999999999999999999 is 0, although the     *)
(*                        true quotient 0.50000000000000000025 x 10^-18 is nearer to    *)
(*                        10^-18)                                                       *)
(*   DecRoundInt(a)       nearest integer, ties to even            (LegacyDec.RoundInt) *)
(*   DecTruncateInt(a)    integer part, toward zero             (LegacyDec.TruncateInt) *)
(*   DecCeil(a)           least integer >= a, as a decimal              (LegacyDec.Ceil)*)
(* The ASSUMEs are hand-computed values; harness/coinomics.go additionally records      *)
(* the results of the real LegacyDec on random 128-bit operands and CoinomicsTrace      *)
(* compares them with these operators (diagnostic `div`, event "dec").                  *)
EXTENDS Integers, BigNum

DecPrecision == 18
DecOne  == BigPow10(DecPrecision)          \* mantissa of 1.0
DecUnit == "1"                             \* mantissa of 10^-18, the smallest step

DecOfInt(n)  == BigMul(n, DecOne)          \* integer n (decimal string) as a decimal
DecAdd(a, b) == BigAdd(a, b)
DecSub(a, b) == BigSub(a, b)
DecGT(a, b)  == BigGT(a, b)
DecIsNegative(a) == BigSign(a) < 0

IsEven(q) == BigIsZero(BigRem(q, "2"))

\* nearest integer to x/d, ties to the even neighbour; d > 0, x of either sign.
\* With q = floor(x/d) and r = x - q*d (0 <= r < d) the two neighbours are q and q+1.
RoundHalfEven(x, d) ==
    LET q     == BigFloorDiv(x, d)
        twice == BigMul(BigSub(x, BigMul(q, d)), "2")
    IN IF BigLT(twice, d) THEN q
       ELSE IF BigGT(twice, d) THEN BigAdd(q, "1")
       ELSE IF IsEven(q) THEN q ELSE BigAdd(q, "1")

\* the same function the way dec.go computes it (sign removed, truncated QuoRem, compare the
\* remainder with 5 x 10^17): used only to cross-check RoundHalfEven in the ASSUMEs below
ChopSdk(x) ==
    LET ax  == BigAbs(x)
        q   == BigQuo(ax, DecOne)
        r   == BigRem(ax, DecOne)
        h   == BigQuo(DecOne, "2")
        res == IF BigIsZero(r) \/ BigLT(r, h) THEN q
               ELSE IF BigGT(r, h) THEN BigAdd(q, "1")
               ELSE IF IsEven(q) THEN q ELSE BigAdd(q, "1")
    IN IF BigSign(x) < 0 THEN BigNeg(res) ELSE res

DecMul(a, b) == RoundHalfEven(BigMul(a, b), DecOne)
DecQuo(a, b) == RoundHalfEven(BigQuo(BigMul(a, BigPow10(2 * DecPrecision)), b), DecOne)
DecRoundInt(a)    == RoundHalfEven(a, DecOne)
DecTruncateInt(a) == BigQuo(a, DecOne)
DecCeil(a) == LET q == BigFloorDiv(a, DecOne) IN
              IF BigEq(BigMul(q, DecOne), a) THEN a ELSE BigMul(BigAdd(q, "1"), DecOne)

---------------------------------------------------------------------------
(* hand-computed values *)

\* 1.5 x 1.5 = 2.25 ; 10^-18 x 0.5 = 0.5 x 10^-18 -> 0 (tie, even) ; 3 x 10^-18 x 0.5 = 1.5 x 10^-18 -> 2 x 10^-18
ASSUME DecMul("1500000000000000000", "1500000000000000000") = "2250000000000000000"
ASSUME DecMul("1", "500000000000000000") = "0" /\ DecMul("3", "500000000000000000") = "2"
ASSUME DecMul("-1", "500000000000000000") = "0" /\ DecMul("-3", "500000000000000000") = "-2"
ASSUME DecMul("5", "500000000000000000") = "2" /\ DecMul("7", "500000000000000000") = "4"
\* 1/3 and 2/3
ASSUME DecQuo(DecOfInt("1"), DecOfInt("3")) = "333333333333333333"
ASSUME DecQuo(DecOfInt("2"), DecOfInt("3")) = "666666666666666667"
ASSUME DecQuo(DecOfInt("-2"), DecOfInt("3")) = "-666666666666666667"
\* 7.8 / 100 = 0.078 ; 6000 / 31536000000 = 0.000000190258751902587519... -> ...903
ASSUME DecQuo("7800000000000000000", DecOfInt("100")) = "78000000000000000"
ASSUME DecQuo(DecOfInt("6000"), DecOfInt("31536000000")) = "190258751903"
ASSUME DecQuo(DecOfInt("6000"), DecOfInt("31622400000")) = "189738919247"
\* the 36-digit truncation inside Quo: the true quotient is just above one half of 10^-18
ASSUME DecQuo("1", "1999999999999999999") = "0"
ASSUME DecQuo("1", "2000000000000000000") = "0" /\ DecQuo("3", "2000000000000000000") = "2"
\* rounding to integers: 2.5 -> 2, 3.5 -> 4, -2.5 -> -2, 2.500000000000000001 -> 3, 2.4999.. -> 2
ASSUME DecRoundInt("2500000000000000000") = "2" /\ DecRoundInt("3500000000000000000") = "4"
ASSUME DecRoundInt("-2500000000000000000") = "-2" /\ DecRoundInt("-3500000000000000000") = "-4"
ASSUME DecRoundInt("2500000000000000001") = "3" /\ DecRoundInt("2499999999999999999") = "2"
ASSUME DecRoundInt("750000000000000000") = "1" /\ DecRoundInt("499999999999999999") = "0"
ASSUME DecTruncateInt("2999999999999999999") = "2" /\ DecTruncateInt("-2500000000000000000") = "-2"
ASSUME DecTruncateInt("750000000000000000") = "0"
ASSUME DecCeil("2000000000000000001") = "3000000000000000000" /\ DecCeil("2000000000000000000") = "2000000000000000000"
ASSUME DecCeil("-2500000000000000000") = "-2000000000000000000"
\* the two formulations of banker's rounding agree (both signs, around the tie)
ASSUME \A k \in -6..6, o \in -2..2 :
          LET x == BigAdd(BigMul(BigOfInt(k), "500000000000000000"), BigOfInt(o)) IN
          RoundHalfEven(x, DecOne) = ChopSdk(x)
\* a 40-digit product: 12345678901234567890.123456789012345678 x 2 = 24691357802469135780.246913578024691356
ASSUME DecMul("12345678901234567890123456789012345678", "2000000000000000000")
         = "24691357802469135780246913578024691356"
=============================================================================
