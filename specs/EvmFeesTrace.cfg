SPECIFICATION TraceSpec
CONSTANTS
  Defects = {"cosmos_dynfee_below_floor"}
INVARIANT Report
CHECK_DEADLOCK FALSE
