SPECIFICATION Spec
CONSTANTS
  Denoms = {"aISLM"}
  Defects = {"merge_min_start","clawback_collapsed_span"}
  POffsets = {0}
  PMaxPeriods = 0
  PMaxLen = 0
  PAmts = {"0"}
  Shapes <- MC_Shapes
  Starts = {0,1,2}
  Dts = {1,2}
  MaxNow = 5
  MaxLen = 4
  InitBank = "9"
INVARIANT MInv_P
PROPERTY MStep_Strict
VIEW View
CHECK_DEADLOCK FALSE
