SPECIFICATION Spec
CONSTANTS
  Denoms = {"aISLM"}
  BondDenom = "aISLM"
  Lens = {0, 1, 2}
  Amts = {"1", "2"}
  MaxLockN = 1
  MaxVestN = 2
  Extras = {"1"}
  Fees = {"0"}
  MaxNow = 6
  Dts = {1, 2}
  UnbondTime = 2
  MinLiq = "1"
  MaxLen = 3
  Grants = {FALSE}
  Codes = {TRUE}
  KindsX <- MC_AllKinds
  Defects = {}
INVARIANT MInv_P
INVARIANT MInv_Unvested
INVARIANT MInv_NonNeg
PROPERTY MStep_P
VIEW View
CHECK_DEADLOCK FALSE
