SPECIFICATION SimSpec
CONSTANTS
  Accts = {"a1","a2","a3"}
  Denoms = {"aISLM","aLIQUID0"}
  BadDenoms = {"bad"}
  Amts = {"0","1","2","3"}
  Ratios <- MC_Ratios
  InitBank = "3"
  MaxLen = 8
  Defects = {}
  Foreign = {}
  BankAmts = {}
CHECK_DEADLOCK FALSE
