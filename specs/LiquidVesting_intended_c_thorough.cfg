SPECIFICATION Spec
CONSTANTS
  InitAccts <- MC_AcctsC
  MinLiq = "1"
  Amts = {"1","2"}
  MaxT = 8
  TStep = 3
  MaxLen = 4
  SplitMaxP = 0
  SplitMaxAmt = 0
  Defects = {}
INVARIANT MInv_P
PROPERTY MStep_P
VIEW View
CHECK_DEADLOCK FALSE
