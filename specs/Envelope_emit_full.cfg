SPECIFICATION EmitSpec
CONSTANTS
  Tier = "full"
  EnvDefects = {}
CHECK_DEADLOCK FALSE
