SPECIFICATION EmitSpec
CONSTANTS
  Tier = "full"
CHECK_DEADLOCK FALSE
