---------------------------- MODULE BurnRedirect ----------------------------
(***************************************************************************)
(* Where the coins go that the staking and governance modules "burn"       *)
(* (haqq: x/bank/keeper BurnCoins wrapper wired into staking and gov).     *)
(*                                                                         *)
(* Property layer P (C14), written from the property statement only:       *)
(*   a slash or a deposit burn of amount x leaves the total supply         *)
(*   unchanged, the community pool grows by exactly x and the distribution *)
(*   module account holds the matching coins (and the staking pools / the  *)
(*   gov account give up exactly x); a burn by any other module reduces    *)
(*   the supply by x and gives nothing to the community pool.              *)
(*   StepBroken(e, s, t) is the set of clauses of P that event e broke     *)
(*   when it took state s to t; StepOK(e, s, t) == StepBroken(..) = {}.    *)
(*   The amount x is never taken from the bank: for a slash it is what the *)
(*   staking records lost (validator tokens + unbonding-delegation         *)
(*   balances), for a deposit burn it is the deposit records of the        *)
(*   proposals that gov itself says end with their deposits burned, for a  *)
(*   control burn it is the amount of the message.  The only other flows   *)
(*   of the same ABCI call (fee allocation, reward pay-outs triggered by   *)
(*   the slash, the coinomics mint) are part of the event record and are   *)
(*   subtracted.                                                           *)
(*   The statement is unconditional: P never reads the configuration of    *)
(*   the chain (field env of the state: bank send-enabled switches,        *)
(*   distribution community tax, gov burn switches and deposit             *)
(*   denominations, erc20 switches, slash fractions).  Whatever legal      *)
(*   parameter change precedes a slash or a deposit burn, the same         *)
(*   equations must hold; parameter changes are events of the histories    *)
(*   (SetParam) and the trace spec counts the checked events per           *)
(*   configuration class (EnvClasses) so that a run that never left the    *)
(*   default configuration is recognised as vacuous.                       *)
(*   Nor does the statement name a network or a range of heights: which    *)
(*   chain the application runs as (env.net: the main network, the two     *)
(*   public test networks, the local network - the networks the code base  *)
(*   knows by name - or any other chain id) and at which height its        *)
(*   history starts (env.h0, genesis initial_height) are dimensions of the  *)
(*   scenario space that P does not read either; the model chooses them in *)
(*   Init from Networks x Heights0, the driver runs every history under a  *)
(*   chain id and initial height of its configuration, and the checked     *)
(*   events are counted per network ("net:..") and for late starts.        *)
(*                                                                         *)
(* As-built machine M: staking Slash (validator, unbonding delegations,    *)
(*   redelegations, with the slash fractions of the parameters), the gov   *)
(*   end-of-period handling with its three burn switches, the bank         *)
(*   wrapper MBurn that redirects the burns of gov / bonded pool /         *)
(*   not-bonded pool, and burns of other modules.  The gov switches that   *)
(*   decide whether a deposit is burned are read from env at the time the  *)
(*   proposal ends; the wrapper itself reads nothing of env.  Realistic    *)
(*   mis-wirings of the wrapper are named members of the CONSTANT Defects  *)
(*   (none is known in the code; the defect configurations are the         *)
(*   non-vacuity witnesses of P); the gate_* defects make the redirect     *)
(*   depend on a parameter (the coins are really burned while sending is   *)
(*   disabled / while the community tax is zero / for denominations that   *)
(*   are not deposit denominations); gate_network makes it depend on the   *)
(*   network and the height (the coins are really burned on the networks   *)
(*   GateNets below height GateHeight - a "since height h on network n"    *)
(*   switch of the kind the code base has for other features).             *)
(*                                                                         *)
(* A state is a record (amounts are decimal strings, module BigNum)        *)
(*   supply, distrBal, feeCollector, govBal : [denom -> amount]            *)
(*   community, outstanding : [denom -> amount x 10^18]  (sdk.Dec scaled)  *)
(*   bonded, notBonded : amount (bond denom held by the two staking pools) *)
(*   vals : [validator -> [tokens, shares (x 10^18), status, jailed]]      *)
(*   ubd  : [delegator|validator -> sum of unbonding entry balances]       *)
(*   ubdE : sequence of unbonding entries [k, val, h, init, bal, mature]   *)
(*   redE : sequence of redelegation entries                               *)
(*            [k, src, dst, del, h, init, sharesDst, mature]               *)
(*   dels : [delegator|validator -> shares x 10^18]                        *)
(*   env  : the configuration                                              *)
(*            [sendDefault : BOOLEAN, send : [denom -> "on"|"off"|"unset"],*)
(*             tax : community tax x 10^18, burnVeto, burnPrevote,         *)
(*             burnQuorum : BOOLEAN, minDep : [denom -> amount],           *)
(*             erc20 : BOOLEAN,                                            *)
(*             net : "main"|"testedge1"|"testedge2"|"local"|"other",       *)
(*             h0 : height of the first block, ...]                        *)
(*   height : the height of the block the state belongs to                 *)
(* P reads supply, distrBal, feeCollector, govBal, community, outstanding, *)
(* bonded, notBonded, vals[..].tokens and ubd only.                        *)
(***************************************************************************)
EXTENDS Integers, Sequences, FiniteSets, FiniteSetsExt, TLC, Json, BigNum

CONSTANTS
    Denoms,        \* denominations of the model, e.g. {"bond", "alt"}
    BondDenom,     \* the staking denomination
    MaxLen,        \* bound on the length of a behaviour
    Amt,           \* amount used by delegate / undelegate / redelegate / deposit / control burns
    ValStake,      \* initial self-delegation of a validator
    PowerReduction,
    FracDouble,    \* slash fraction for a double sign, <<num, den>>
    FracDowntime,  \* slash fraction for downtime, <<num, den>>
    BurnVeto, BurnPrevote, BurnQuorum,   \* initial values of the gov parameters BurnVoteVeto, BurnProposalDepositPrevote, BurnVoteQuorum
    ParamKeys,     \* the parameters that a behaviour may change, subset of AllParamKeys
    MaxParamChanges, \* bound on the number of parameter changes of a behaviour
    Seeded,        \* BOOLEAN: the model starts with unbonding and redelegating stake at both validators
    Networks,      \* the networks a behaviour may run as, subset of NetNames
    Heights0,      \* the heights a behaviour may start at
    Defects        \* subset of DefectNames

DefectNames == {"staking_plain_bank", "gov_plain_bank", "no_feepool_update", "bonded_only",
                "redirect_all", "bond_denom_only",
                "gate_send_enabled", "gate_community_tax", "gate_deposit_denoms", "gate_network"}
NetNames == {"main", "testedge1", "testedge2", "local", "other"}
\* the gate_network defect: no redirect on these networks below this height
GateNets == {"testedge1", "testedge2"}
GateHeight == 4
AllParamKeys == {"sendDefault", "send", "tax", "burnVeto", "burnPrevote", "burnQuorum", "minDep", "erc20"}

E18 == BigPow10(18)

---------------------------------------------------------------------------
(* helpers over a state s; domains are taken from s itself *)

D(s) == DOMAIN s.supply
SumOver(S, f(_)) == FoldSet(LAMBDA x, acc : BigAdd(acc, f(x)), "0", S)

\* what the staking module's own records say is at stake
StakeRec(s) == BigAdd(SumOver(DOMAIN s.vals, LAMBDA v : s.vals[v].tokens),
                      SumOver(DOMAIN s.ubd, LAMBDA k : s.ubd[k]))
Pools(s)  == BigAdd(s.bonded, s.notBonded)
CO(s, d)  == BigAdd(s.community[d], s.outstanding[d])          \* x 10^18
Scale(a)  == BigMul(a, E18)

\* the configuration: is sending of denomination d enabled (bank: explicit entry, else the default)
SendOn(env, d) == IF env.send[d] = "unset" THEN env.sendDefault ELSE env.send[d] = "on"
\* classes of configurations a redirected burn of coins x(_) is checked under (coverage only, never a verdict)
EnvClasses(env, x(_), ds) ==
    (IF \E d \in ds : ~BigIsZero(x(d)) /\ ~SendOn(env, d) THEN {"sendOff"} ELSE {})
    \cup (IF BigIsZero(env.tax) THEN {"tax0"} ELSE {})
    \cup (IF BigEq(env.tax, E18) THEN {"tax1"} ELSE {})
    \cup (IF ~env.erc20 THEN {"erc20Off"} ELSE {})
    \cup (IF \E d \in ds : ~BigIsZero(x(d)) /\ BigIsZero(env.minDep[d]) THEN {"nonDepositDenom"} ELSE {})
    \cup {"net:" \o env.net}
    \cup (IF env.h0 > 1 THEN {"lateStart"} ELSE {})

---------------------------------------------------------------------------
(* P: state invariants *)

\* the distribution module account holds the coins the community pool records
Inv_CommunityBacked(s) == \A d \in D(s) : BigLE(s.community[d], Scale(s.distrBal[d]))
Inv_NonNeg(s) == \A d \in D(s) : /\ BigSign(s.supply[d]) >= 0 /\ BigSign(s.distrBal[d]) >= 0
                                 /\ BigSign(s.community[d]) >= 0 /\ BigSign(s.govBal[d]) >= 0

InvNames == {"Inv_CommunityBacked", "Inv_NonNeg"}
InvHolds(n, s) == CASE n = "Inv_CommunityBacked" -> Inv_CommunityBacked(s)
                    [] n = "Inv_NonNeg"          -> Inv_NonNeg(s)
BrokenInvariants(s) == {n \in InvNames : ~InvHolds(n, s)}

---------------------------------------------------------------------------
(* P: the step relation.                                                   *)
(* e = [ev, args, ok, rep]                                                 *)
(*   ev = "begin": one BeginBlock (downtime and double-sign slashes);      *)
(*        rep.slashes (what the slashing module reported), rep.withdrawn   *)
(*   ev = "end": one EndBlock (gov); rep.ended = the proposals that end    *)
(*        here [id, outcome, burn, dep], rep.withdrawn                     *)
(*   ev = "tx": one transaction; args.k, args.module, args.burn, args.mint *)

OfBond(s, d, x) == IF d = BondDenom THEN x ELSE "0"

\* fees the distribution module collected from the fee collector in this call
FeesTaken(s, t, d) == BigSub(s.feeCollector[d], t.feeCollector[d])

\* the deposits gov decided to burn / to refund
SumEnded(e, d, burn) ==
    SumOver({i \in DOMAIN e.rep.ended : e.rep.ended[i].burn = burn}, LAMBDA i : e.rep.ended[i].dep[d])

\* x = the amount event e "destroyed" according to the destroying module's own records
Destroyed(e, s, t, d) ==
    CASE e.ev = "begin" -> OfBond(s, d, BigSub(StakeRec(s), StakeRec(t)))
      [] e.ev = "end"   -> SumEnded(e, d, TRUE)
      [] OTHER          -> "0"

\* coins that legitimately enter the distribution account in the same call besides x
OtherIn(e, s, t, d) ==
    CASE e.ev = "begin" -> BigSub(FeesTaken(s, t, d), e.rep.withdrawn[d])
      [] OTHER          -> BigSub("0", e.rep.withdrawn[d])

IsControl(e) == e.ev = "tx" /\ e.args.module # "-"

RedirectBroken(e, s, t) ==
    LET x(d) == Destroyed(e, s, t, d)
        minted(d) == IF e.ev = "end" THEN BigSub(t.feeCollector[d], s.feeCollector[d]) ELSE "0" IN
    (IF \A d \in D(s) : BigEq(t.supply[d], BigAdd(s.supply[d], minted(d))) THEN {} ELSE {"supply"})
    \cup (IF \A d \in D(s) : BigEq(t.distrBal[d], BigAdd(s.distrBal[d], BigAdd(x(d), OtherIn(e, s, t, d))))
          THEN {} ELSE {"distrBal"})
    \cup (IF \A d \in D(s) : /\ BigEq(CO(t, d), BigAdd(CO(s, d), Scale(BigAdd(x(d), OtherIn(e, s, t, d)))))
                              /\ BigLE(BigAdd(s.community[d], Scale(x(d))), t.community[d])
          THEN {} ELSE {"communityPool"})
    \cup (IF e.ev = "begin" /\ ~BigEq(Pools(t), BigSub(Pools(s), x(BondDenom))) THEN {"pools"} ELSE {})
    \cup (IF e.ev = "end" /\ \E d \in D(s) :
                ~BigEq(t.govBal[d], BigSub(s.govBal[d], BigAdd(SumEnded(e, d, TRUE), SumEnded(e, d, FALSE))))
          THEN {"govAccount"} ELSE {})

ControlBroken(e, s, t) ==
    IF ~e.ok THEN (IF \A d \in D(s) : BigEq(t.supply[d], s.supply[d]) THEN {} ELSE {"failed-supply"})
    ELSE (IF \A d \in D(s) : BigEq(t.supply[d], BigAdd(BigSub(s.supply[d], e.args.burn[d]), e.args.mint[d]))
          THEN {} ELSE {"supply"})
         \cup (IF \A d \in D(s) : BigEq(t.distrBal[d], BigAdd(s.distrBal[d], OtherIn(e, s, t, d)))
               THEN {} ELSE {"distrBal"})
         \cup (IF \A d \in D(s) : BigEq(CO(t, d), BigAdd(CO(s, d), Scale(OtherIn(e, s, t, d))))
               THEN {} ELSE {"communityPool"})

StepBroken(e, s, t) ==
    CASE e.ev \in {"begin", "end"} -> RedirectBroken(e, s, t)
      [] IsControl(e)              -> ControlBroken(e, s, t)
      [] OTHER                     -> {}        \* P is silent about every other transaction

StepOK(e, s, t) == StepBroken(e, s, t) = {}

\* naming of a violated clause and the class of the step
SlashKinds(e) == {e.rep.slashes[i].kind : i \in DOMAIN e.rep.slashes}
BurnOutcomes(e) == {e.rep.ended[i].outcome : i \in {j \in DOMAIN e.rep.ended : e.rep.ended[j].burn}}
StepKind(e) ==
    CASE e.ev = "begin" -> IF SlashKinds(e) = {} THEN "begin-block" ELSE "slash"
      [] e.ev = "end"   -> IF BurnOutcomes(e) = {} THEN "end-block" ELSE "deposit-burn"
      [] IsControl(e)   -> "control-burn"
      [] OTHER          -> "tx"
Tag(S, n) == IF n \in S THEN n \o ";" ELSE ""
StepClass(e) ==
    CASE e.ev = "begin" -> IF SlashKinds(e) = {} THEN "-" ELSE Tag(SlashKinds(e), "doubleSign") \o Tag(SlashKinds(e), "downtime")
      [] e.ev = "end"   -> IF BurnOutcomes(e) = {} THEN "-"
                           ELSE Tag(BurnOutcomes(e), "expired") \o Tag(BurnOutcomes(e), "noquorum") \o Tag(BurnOutcomes(e), "veto")
      [] IsControl(e)   -> e.args.module
      [] OTHER          -> "-"

---------------------------------------------------------------------------
(* M: the bank wrapper.  pm = parameters record                            *)
(*   [fd, ft : <<num, den>>, pr, bond]                                     *)

\* the gate_* defects: a wrapper that makes the redirect depend on the configuration
Gated(s, c) ==
    \/ "gate_send_enabled" \in Defects /\ \E d \in D(s) : ~BigIsZero(c[d]) /\ ~SendOn(s.env, d)
    \/ "gate_community_tax" \in Defects /\ BigIsZero(s.env.tax)
    \/ "gate_network" \in Defects /\ s.env.net \in GateNets /\ s.height < GateHeight

Redirects(m) ==
    IF "redirect_all" \in Defects THEN TRUE
    ELSE CASE m = "gov"       -> "gov_plain_bank" \notin Defects
           [] m = "bonded"    -> "staking_plain_bank" \notin Defects
           [] m = "notBonded" -> "staking_plain_bank" \notin Defects /\ "bonded_only" \notin Defects
           [] OTHER           -> FALSE

Debit(s, m, c) ==
    CASE m = "gov"       -> [s EXCEPT !.govBal = [d \in DOMAIN @ |-> BigSub(@[d], c[d])]]
      [] m = "bonded"    -> [s EXCEPT !.bonded = BigSub(@, c[BondDenom])]
      [] m = "notBonded" -> [s EXCEPT !.notBonded = BigSub(@, c[BondDenom])]
      [] OTHER           -> [s EXCEPT !.modBal[m] = [d \in DOMAIN @ |-> BigSub(@[d], c[d])]]

\* x/bank/keeper/keeper.go BurnCoins: gov and the two staking pools send to the distribution
\* module and add to FeePool.CommunityPool; everybody else burns.  Nothing of s.env is read
\* (keeper-level module-to-module transfers ignore the send-enabled switches).
MBurn(s, m, c) ==
    LET s1 == Debit(s, m, c)
        red(d) == IF ~Redirects(m) \/ Gated(s, c) THEN "0"
                  ELSE IF "bond_denom_only" \in Defects /\ d # BondDenom THEN "0"
                  ELSE IF "gate_deposit_denoms" \in Defects /\ BigIsZero(s.env.minDep[d]) THEN "0" ELSE c[d] IN
    [s1 EXCEPT !.distrBal  = [d \in DOMAIN @ |-> BigAdd(@[d], red(d))],
               !.community = [d \in DOMAIN @ |-> IF "no_feepool_update" \in Defects THEN @[d]
                                                 ELSE BigAdd(@[d], Scale(red(d)))],
               !.supply    = [d \in DOMAIN @ |-> BigSub(@[d], BigSub(c[d], red(d)))]]

BondCoins(s, x) == [d \in D(s) |-> OfBond(s, d, x)]
PoolOf(status)  == IF status = "bonded" THEN "bonded" ELSE "notBonded"

---------------------------------------------------------------------------
(* M: staking Slash (x/staking/keeper/slash.go) *)

MulFrac(a, f) == BigQuo(BigMul(a, f[1]), f[2])               \* truncated
Frac(pm, kind) == IF kind = "doubleSign" THEN pm.fd ELSE pm.ft

UbdOf(ubdE) == [k \in {ubdE[i].k : i \in DOMAIN ubdE} \cup {"_"} |->
                  SumOver({i \in DOMAIN ubdE : ubdE[i].k = k}, LAMBDA i : ubdE[i].bal)]

Eligible(en, infr) == en.h >= infr /\ ~en.mature

\* accumulator a = [s, rem] : state so far and the remaining slash amount of the validator
SlashUbdEntries(a0, f, v, infr) ==
    LET n == Len(a0.s.ubdE)
        F[i \in 0..n] ==
          IF i = 0 THEN a0
          ELSE LET a == F[i-1]  en == a.s.ubdE[i] IN
               IF en.val # v \/ ~Eligible(en, infr) THEN a
               ELSE LET amt == MulFrac(en.init, f)
                        b   == BigMin(amt, en.bal) IN
                    [s   |-> MBurn([a.s EXCEPT !.ubdE[i].bal = BigSub(@, b)], "notBonded", BondCoins(a.s, b)),
                     rem |-> BigSub(a.rem, amt)]
    IN F[n]

\* the part of a redelegation's slash that is taken from an unbonding delegation at the destination
TakeFromDstUbd(s0, key, amt0, infr) ==
    LET n == Len(s0.ubdE)
        F[i \in 0..n] ==
          IF i = 0 THEN [s |-> s0, left |-> amt0, burnt |-> "0"]
          ELSE LET a == F[i-1]  en == a.s.ubdE[i]
                   b == BigMin(a.left, en.bal) IN
               IF en.k # key \/ BigIsZero(b) \/ ~Eligible(en, infr) THEN a
               ELSE [s |-> [a.s EXCEPT !.ubdE[i].bal = BigSub(@, b)], left |-> BigSub(a.left, b), burnt |-> BigAdd(a.burnt, b)]
    IN F[n]

SlashRedEntries(a0, f, v, infr) ==
    LET n == Len(a0.s.redE)
        F[i \in 0..n] ==
          IF i = 0 THEN a0
          ELSE LET a == F[i-1]  en == a.s.redE[i] IN
               IF en.src # v \/ ~Eligible(en, infr) THEN a
               ELSE LET amt  == MulFrac(en.init, f)
                        u    == TakeFromDstUbd(a.s, en.del, amt, infr)
                        s1   == IF BigIsZero(u.burnt) THEN u.s ELSE MBurn(u.s, "notBonded", BondCoins(u.s, u.burnt))
                        want == MulFrac(en.sharesDst, f)
                        have == IF en.del \in DOMAIN s1.dels THEN s1.dels[en.del] ELSE "0"
                        sh   == BigMin(want, have)
                        dv   == s1.vals[en.dst]
                        issued == IF BigIsZero(sh) \/ BigIsZero(u.left) THEN "0"
                                  ELSE IF BigEq(sh, dv.shares) THEN dv.tokens
                                  ELSE BigQuo(BigMul(sh, dv.tokens), dv.shares)
                        s2   == IF BigIsZero(sh) \/ BigIsZero(u.left) THEN s1
                                ELSE MBurn([s1 EXCEPT !.dels[en.del] = BigSub(@, sh),
                                                      !.vals[en.dst].tokens = BigSub(@, issued),
                                                      !.vals[en.dst].shares = BigSub(@, sh)],
                                           PoolOf(dv.status), BondCoins(s1, issued)) IN
                    [s |-> s2, rem |-> BigSub(a.rem, amt)]
    IN F[n]

\* one slash of validator v with the power the evidence / the vote carried
MSlashOne(pm, s, kind, v, power, infr) ==
    LET f    == Frac(pm, kind)
        amt  == MulFrac(BigMul(power, pm.pr), f)
        a1   == SlashUbdEntries([s |-> s, rem |-> amt], f, v, infr)
        a2   == SlashRedEntries(a1, f, v, infr)
        val  == a2.s.vals[v]
        burn == BigMax(BigMin(a2.rem, val.tokens), "0")
        s3   == MBurn([a2.s EXCEPT !.vals[v].tokens = BigSub(@, burn)], PoolOf(val.status), BondCoins(s, burn)) IN
    [s3 EXCEPT !.ubd = UbdOf(s3.ubdE)]

---------------------------------------------------------------------------
(* M: the exhaustive machine.  Two validators, one delegator with bonded, unbonding and     *)
(* redelegating stake at both, two proposals with deposits in one and two denominations,   *)
(* three other modules that burn, and up to MaxParamChanges changes of the parameters in    *)
(* ParamKeys (SetParam) anywhere in the behaviour.                                          *)

VARIABLES st, hist, ops
vars == <<st, hist, ops>>

Vals == {"v1", "v2"}
Other(v) == IF v = "v1" THEN "v2" ELSE "v1"
Mods == {"erc20", "liquidvesting", "evm"}
PropIds == {"p1", "p2"}
Del == "a1"

MP == [fd |-> FracDouble, ft |-> FracDowntime, pr |-> PowerReduction, bond |-> BondDenom]

Zero == [d \in Denoms |-> "0"]
Coins(d, a) == [x \in Denoms |-> IF x = d THEN a ELSE "0"]

\* the default configuration: sending enabled, community tax 2 %, deposits in the bond denomination
TaxDefault == BigMul("2", BigPow10(16))
Env0 == [sendDefault |-> TRUE, send |-> [d \in Denoms |-> "unset"], tax |-> TaxDefault,
         burnVeto |-> BurnVeto, burnPrevote |-> BurnPrevote, burnQuorum |-> BurnQuorum,
         minDep |-> Coins(BondDenom, Amt), erc20 |-> TRUE, net |-> "main", h0 |-> 1]

\* delegator a1 starts with 4 Amt bonded at each validator.  In the seeded variant it has in
\* addition already unbonded Amt from each validator and redelegated Amt to the other one (at
\* exchange rate 1), so that every validator has bonded, unbonding and redelegating stake that a
\* first slash can hit.
Bonded0 == IF Seeded THEN BigAdd(ValStake, BigMul(Amt, "3")) ELSE BigAdd(ValStake, BigMul(Amt, "4"))
InitVal == [tokens |-> Bonded0, shares |-> Scale(Bonded0),
            status |-> "bonded", jailed |-> FALSE, tomb |-> FALSE, lastPower |-> "0"]
UbdEntry0(v) == [k |-> Del \o "|" \o v, val |-> v, h |-> 1, init |-> Amt, bal |-> Amt, mature |-> FALSE]
RedEntry0(v, w) == [k |-> Del \o "|" \o v \o "|" \o w, src |-> v, dst |-> w, del |-> Del \o "|" \o w, h |-> 1,
                    init |-> Amt, sharesDst |-> Scale(Amt), mature |-> FALSE]
UbdE0 == IF Seeded THEN <<UbdEntry0("v1"), UbdEntry0("v2")>> ELSE <<>>
RedE0 == IF Seeded THEN <<RedEntry0("v1", "v2"), RedEntry0("v2", "v1")>> ELSE <<>>

Init ==
    /\ \E net \in Networks, h0 \in Heights0 :
       st = [ supply       |-> [d \in Denoms |-> BigMul(ValStake, "100")],
              bonded       |-> BigMul(Bonded0, "2"),
              notBonded    |-> IF Seeded THEN BigMul(Amt, "2") ELSE "0",
              distrBal     |-> Zero,
              community    |-> Zero,
              outstanding  |-> Zero,
              feeCollector |-> Zero,
              govBal       |-> Zero,
              vals         |-> [v \in Vals |-> InitVal],
              ubd          |-> UbdOf(UbdE0),
              ubdE         |-> UbdE0,
              redE         |-> RedE0,
              dels         |-> [k \in {Del \o "|v1", Del \o "|v2"} |-> Scale(BigMul(Amt, IF Seeded THEN "3" ELSE "4"))],
              env          |-> [Env0 EXCEPT !.net = net, !.h0 = h0],
              height       |-> h0,
              nparam       |-> 0,
              \* model-only fields
              modBal       |-> [m \in Mods |-> [d \in Denoms |-> BigMul(Amt, "3")]],
              gprops       |-> [p \in PropIds |-> [status |-> "none", dep |-> Zero]],
              epoch        |-> 1 ]
    /\ hist = <<>>
    /\ ops = <<[op |-> "chain", net |-> st.env.net, h0 |-> st.env.h0]>>    \* the driver's genesis configuration

ZeroRep == [withdrawn |-> Zero]

\* hist and ops are outside the VIEW, so TLC never fingerprints them: comparing a value with itself
\* forces its lazily represented functions, which TLC's disk queue cannot write otherwise
Strict(v) == IF v = v THEN v ELSE v
\* every event of the model takes (at least) one block
Log(e, op, s) == /\ st' = [s EXCEPT !.height = @ + 1] /\ hist' = Append(hist, Strict(e)) /\ ops' = Append(ops, Strict(op))

\* staking transactions (P is silent about them; they produce the three kinds of stake)
Undelegate(v) ==
    LET key == Del \o "|" \o v
        val == st.vals[v]
        sh  == Scale(Amt)            \* exchange rate is ignored: the model unbonds Amt shares
        tok == IF BigEq(sh, val.shares) THEN val.tokens ELSE BigQuo(BigMul(sh, val.tokens), val.shares)
        en  == [k |-> key, val |-> v, h |-> st.epoch, init |-> tok, bal |-> tok, mature |-> FALSE]
        e1  == Append(st.ubdE, en)
        moved == IF val.status = "bonded" THEN tok ELSE "0" IN
    /\ BigLE(sh, st.dels[key]) /\ Len(st.ubdE) < 3
    /\ Log([ev |-> "tx", args |-> [k |-> "undelegate", module |-> "-", burn |-> Zero, mint |-> Zero], ok |-> TRUE, rep |-> ZeroRep],
           [op |-> "undelegate", del |-> Del, val |-> v, amt |-> Amt],
           [st EXCEPT !.dels[key] = BigSub(@, sh), !.vals[v].tokens = BigSub(@, tok), !.vals[v].shares = BigSub(@, sh),
                      !.ubdE = e1, !.ubd = UbdOf(e1),
                      !.bonded = BigSub(@, moved), !.notBonded = BigAdd(@, moved)])

Redelegate(v) ==
    LET w   == Other(v)
        key == Del \o "|" \o v
        val == st.vals[v]
        dst == st.vals[w]
        sh  == Scale(Amt)
        tok == IF BigEq(sh, val.shares) THEN val.tokens ELSE BigQuo(BigMul(sh, val.tokens), val.shares)
        nsh == IF BigIsZero(dst.tokens) THEN Scale(tok) ELSE BigQuo(BigMul(dst.shares, tok), dst.tokens)
        en  == [k |-> key \o "|" \o w, src |-> v, dst |-> w, del |-> Del \o "|" \o w, h |-> st.epoch,
                init |-> tok, sharesDst |-> nsh, mature |-> FALSE]
        out == IF val.status = "bonded" THEN tok ELSE "0"
        inn == IF dst.status = "bonded" THEN tok ELSE "0" IN
    /\ BigLE(sh, st.dels[key]) /\ Len(st.redE) < 3
    /\ val.status = "bonded" /\ dst.status = "bonded" /\ ~dst.jailed
    /\ Log([ev |-> "tx", args |-> [k |-> "redelegate", module |-> "-", burn |-> Zero, mint |-> Zero], ok |-> TRUE, rep |-> ZeroRep],
           [op |-> "redelegate", del |-> Del, val |-> v, dst |-> w, amt |-> Amt],
           [st EXCEPT !.dels[key] = BigSub(@, sh), !.dels[Del \o "|" \o w] = BigAdd(@, nsh),
                      !.vals[v].tokens = BigSub(@, tok), !.vals[v].shares = BigSub(@, sh),
                      !.vals[w].tokens = BigAdd(@, tok), !.vals[w].shares = BigAdd(@, nsh),
                      !.redE = Append(@, en),
                      !.bonded = BigAdd(BigSub(@, out), inn)])

\* time passes: the existing unbonding / redelegation entries are older than any later infraction
Age == /\ (st.ubdE # <<>> \/ st.redE # <<>>)
       /\ \E i \in DOMAIN st.ubdE \cup DOMAIN st.redE :
             (i \in DOMAIN st.ubdE /\ st.ubdE[i].h = st.epoch) \/ (i \in DOMAIN st.redE /\ st.redE[i].h = st.epoch)
       /\ Log([ev |-> "tx", args |-> [k |-> "age", module |-> "-", burn |-> Zero, mint |-> Zero], ok |-> TRUE, rep |-> ZeroRep],
              [op |-> "age"], [st EXCEPT !.epoch = @ + 1])

PowerOf(val) == BigQuo(val.tokens, PowerReduction)

Slash(kind, v) ==
    LET val   == st.vals[v]
        power == IF val.status = "bonded" THEN PowerOf(val) ELSE val.lastPower
        s1    == MSlashOne(MP, st, kind, v, power, st.epoch)
        s2    == [s1 EXCEPT !.vals[v].jailed = TRUE, !.vals[v].tomb = (@ \/ kind = "doubleSign"),
                            !.vals[v].lastPower = power] IN
    /\ ~(val.jailed /\ val.status = "bonded")          \* the validator-set update of the block comes first
    /\ IF kind = "downtime" THEN val.status = "bonded" /\ ~val.jailed ELSE ~val.tomb
    /\ Log([ev |-> "begin", args |-> [h |-> 0], ok |-> TRUE,
            rep |-> [slashes |-> <<[val |-> v, kind |-> kind, power |-> power]>>, withdrawn |-> Zero]],
           [op |-> "slash", kind |-> kind, val |-> v], s2)

\* the validator-set update at the end of a block: jailed validators start unbonding
ValsetUpdate(s) ==
    LET leaving == {v \in Vals : s.vals[v].jailed /\ s.vals[v].status = "bonded"}
        moved   == SumOver(leaving, LAMBDA v : s.vals[v].tokens) IN
    [s EXCEPT !.vals = [v \in Vals |-> IF v \in leaving THEN [@[v] EXCEPT !.status = "unbonding"] ELSE @[v]],
              !.bonded = BigSub(@, moved), !.notBonded = BigAdd(@, moved)]

Unjail(v) ==
    LET val == st.vals[v] IN
    /\ val.jailed /\ ~val.tomb /\ val.status = "unbonding"
    /\ Log([ev |-> "tx", args |-> [k |-> "unjail", module |-> "-", burn |-> Zero, mint |-> Zero], ok |-> TRUE, rep |-> ZeroRep],
           [op |-> "unjail", val |-> v],
           [st EXCEPT !.vals[v].jailed = FALSE, !.vals[v].status = "bonded",
                      !.notBonded = BigSub(@, val.tokens), !.bonded = BigAdd(@, val.tokens)])

\* governance
Reaches(dep) == \A d \in Denoms : BigLE(st.env.minDep[d], dep[d])

Deposit(p, c) ==
    LET pr  == st.gprops[p]
        dep == [d \in Denoms |-> BigAdd(pr.dep[d], c[d])]
        ns  == IF pr.status = "voting" \/ Reaches(dep) THEN "voting" ELSE "deposit" IN
    /\ pr.status \in {"none", "deposit", "voting"}
    /\ Log([ev |-> "tx", args |-> [k |-> "deposit", module |-> "-", burn |-> Zero, mint |-> Zero], ok |-> TRUE, rep |-> ZeroRep],
           [op |-> IF pr.status = "none" THEN "submit" ELSE "deposit", prop |-> p, del |-> "a3", coins |-> c],
           [st EXCEPT !.gprops[p] = [status |-> ns, dep |-> dep],
                      !.govBal = [d \in Denoms |-> BigAdd(@[d], c[d])]])

\* gov EndBlocker for one proposal: deposits are burned or refunded
EndProposal(p, outcome, opname) ==
    LET pr   == st.gprops[p]
        burn == CASE outcome = "veto"     -> st.env.burnVeto
                  [] outcome = "expired"  -> st.env.burnPrevote
                  [] outcome = "noquorum" -> st.env.burnQuorum
                  [] OTHER                -> FALSE
        s0   == ValsetUpdate(st)
        s1   == IF burn THEN MBurn(s0, "gov", pr.dep) ELSE Debit(s0, "gov", pr.dep) IN
    /\ pr.status = (IF outcome = "expired" THEN "deposit" ELSE "voting")
    /\ Log([ev |-> "end", args |-> [h |-> 0], ok |-> TRUE,
            rep |-> [ended |-> <<[id |-> p, outcome |-> outcome, burn |-> burn, dep |-> pr.dep]>>, withdrawn |-> Zero]],
           [op |-> opname, prop |-> p],
           [s1 EXCEPT !.gprops[p].status = "done"])

VetoProposal(p)      == EndProposal(p, "veto", "veto")
FailDepositPeriod(p) == EndProposal(p, "expired", "expire")
NoQuorum(p)          == EndProposal(p, "noquorum", "noquorum")
RejectProposal(p)    == EndProposal(p, "rejected", "reject")

EndBlockOnly ==
    /\ \E v \in Vals : st.vals[v].jailed /\ st.vals[v].status = "bonded"
    /\ Log([ev |-> "end", args |-> [h |-> 0], ok |-> TRUE, rep |-> [ended |-> <<>>, withdrawn |-> Zero]],
           [op |-> "blocks", n |-> 1], ValsetUpdate(st))

\* a legal change of the configuration (on the chain: a passed proposal carrying the authority
\* message of the module).  c = [key, denom, val] with val a string.
Bool(v) == v = "true"
BoolStr(b) == IF b THEN "true" ELSE "false"
ParamChoices ==
    {[key |-> "sendDefault", denom |-> "-", val |-> BoolStr(b)] : b \in BOOLEAN}
    \cup {[key |-> "send", denom |-> d, val |-> v] : d \in Denoms, v \in {"on", "off", "unset"}}
    \cup {[key |-> "tax", denom |-> "-", val |-> v] : v \in {"0", TaxDefault, E18}}
    \cup {[key |-> k, denom |-> "-", val |-> BoolStr(b)] : k \in {"burnVeto", "burnPrevote", "burnQuorum", "erc20"}, b \in BOOLEAN}
    \cup {[key |-> "minDep", denom |-> d, val |-> Amt] : d \in Denoms \cup {"*"}}
ApplyParam(env, c) ==
    CASE c.key = "sendDefault" -> [env EXCEPT !.sendDefault = Bool(c.val)]
      [] c.key = "send"        -> [env EXCEPT !.send[c.denom] = c.val]
      [] c.key = "tax"         -> [env EXCEPT !.tax = c.val]
      [] c.key = "burnVeto"    -> [env EXCEPT !.burnVeto = Bool(c.val)]
      [] c.key = "burnPrevote" -> [env EXCEPT !.burnPrevote = Bool(c.val)]
      [] c.key = "burnQuorum"  -> [env EXCEPT !.burnQuorum = Bool(c.val)]
      [] c.key = "erc20"       -> [env EXCEPT !.erc20 = Bool(c.val)]
      [] c.key = "minDep"      -> [env EXCEPT !.minDep = [d \in DOMAIN @ |-> IF c.denom \in {"*", d} THEN c.val ELSE "0"]]
SetParam(c) ==
    /\ c.key \in ParamKeys /\ st.nparam < MaxParamChanges
    /\ ApplyParam(st.env, c) # st.env
    /\ Log([ev |-> "tx", args |-> [k |-> "setparam", module |-> "-", burn |-> Zero, mint |-> Zero], ok |-> TRUE, rep |-> ZeroRep],
           [op |-> "setparam", key |-> c.key, denom |-> c.denom, val |-> c.val],
           [st EXCEPT !.env = ApplyParam(@, c), !.nparam = @ + 1])

\* a burn by a module that is not staking or gov
OtherModuleBurn(m, d) ==
    /\ BigLE(Amt, st.modBal[m][d])
    /\ Log([ev |-> "tx", args |-> [k |-> "burn", module |-> m, burn |-> Coins(d, Amt), mint |-> Zero], ok |-> TRUE, rep |-> ZeroRep],
           [op |-> "burn", module |-> m, amt |-> Amt, from |-> "a1", to |-> "a2"],
           MBurn(st, m, Coins(d, Amt)))

Next ==
    /\ Len(hist) < MaxLen
    /\ \/ \E v \in Vals : Undelegate(v) \/ Redelegate(v) \/ Unjail(v)
       \/ \E k \in {"doubleSign", "downtime"}, v \in Vals : Slash(k, v)
       \/ Age
       \/ EndBlockOnly
       \/ \E p \in PropIds, d \in Denoms : Deposit(p, Coins(d, Amt))
       \/ \E p \in PropIds : VetoProposal(p) \/ FailDepositPeriod(p) \/ NoQuorum(p) \/ RejectProposal(p)
       \/ \E m \in Mods, d \in Denoms : OtherModuleBurn(m, d)
       \/ \E c \in ParamChoices : SetParam(c)

Spec == Init /\ [][Next]_vars

---------------------------------------------------------------------------
(* what the exhaustive configurations check *)

MInv_P  == BrokenInvariants(st) = {}
MStep_P == [][hist' # hist => StepOK(hist'[Len(hist')], st, st')]_vars
\* staking's own bookkeeping in the model (keeps the model honest; not part of C14)
MInv_Model == BigEq(Pools(st), StakeRec(st))

View == <<st, Len(hist)>>

---------------------------------------------------------------------------
(* scripts for the harness: ops is the behaviour in the driver's vocabulary *)

Emit == Len(hist) = MaxLen /\ PrintT(<<"SCRIPT", ToJson(ops)>>) /\ UNCHANGED vars

Pick(S, h) == RandomElement(S)       \* the dummy argument defeats TLC's caching of constant operators
SimNext ==
    /\ Len(hist) < MaxLen
    /\ \/ Undelegate(Pick(Vals, hist))
       \/ Redelegate(Pick(Vals, hist))
       \/ Slash(Pick({"doubleSign", "downtime"}, hist), Pick(Vals, hist))
       \/ Slash(Pick({"doubleSign", "downtime"}, hist), Pick(Vals, hist))
       \/ (Pick(1..3, hist) = 1 /\ Age)
       \/ (Pick(1..2, hist) = 1 /\ Unjail(Pick(Vals, hist)))
       \/ EndBlockOnly
       \/ Deposit(Pick(PropIds, hist), Coins(Pick(Denoms, hist), Amt))
       \/ Deposit(Pick(PropIds, hist), [d \in Denoms |-> Amt])
       \/ VetoProposal(Pick(PropIds, hist))
       \/ LET p == Pick(PropIds, hist) IN
          \/ VetoProposal(p) \/ FailDepositPeriod(p)
          \/ (Pick(1..2, hist) = 1 /\ (NoQuorum(p) \/ RejectProposal(p)))
       \/ OtherModuleBurn(Pick({"liquidvesting", "evm"}, hist), BondDenom)
       \/ SetParam(Pick({c \in ParamChoices : c.key \in ParamKeys}, hist))
       \/ SetParam(Pick({c \in ParamChoices : c.key \in ParamKeys \cap {"sendDefault", "send", "tax"}}, hist))
SimSpec == Init /\ [][SimNext \/ Emit]_vars

\* model values for the configurations (cfg files cannot write tuples)
MC_FracDouble   == <<"1", "20">>
MC_FracDowntime == <<"1", "100">>
=============================================================================
