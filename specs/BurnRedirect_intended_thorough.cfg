SPECIFICATION Spec
CONSTANTS
  Denoms = {"aISLM", "utest"}
  BondDenom = "aISLM"
  MaxLen = 7
  Amt = "215"
  ValStake = "1000"
  PowerReduction = "1"
  FracDouble <- MC_FracDouble
  FracDowntime <- MC_FracDowntime
  BurnVeto = TRUE
  BurnPrevote = TRUE
  BurnQuorum = TRUE
  ParamKeys = {}
  MaxParamChanges = 0
  Seeded = TRUE
  Networks = {"main"}
  Heights0 = {1}
  Defects = {}
INVARIANT MInv_P
INVARIANT MInv_Model
PROPERTY MStep_P
VIEW View
CHECK_DEADLOCK FALSE
