------------------------------ MODULE VestingLock ------------------------------
(***************************************************************************)
(* C08  "Locked and unvested coins cannot leave a vesting account".         *)
(*                                                                         *)
(* A state is a record                                                      *)
(*   now : Int                      block time (seconds; small naturals in   *)
(*                                  the exhaustive model, offsets from the    *)
(*                                  genesis time in traces of the real code)  *)
(*   va  : [acct -> V]              the clawback-vesting accounts observed    *)
(* and V is a record                                                        *)
(*   exists    BOOLEAN   the address currently holds a ClawbackVestingAccount *)
(*   code      BOOLEAN   the account has contract code                        *)
(*   start,end Int       stored start / end time                              *)
(*   lockup, vesting     stored period lists  << [len, amt : Coins], ... >>    *)
(*   orig      Coins     stored OriginalVesting                               *)
(*   df, dv    Coins     stored DelegatedFree / DelegatedVesting ("tracked")  *)
(*   bank      Coins     bank balance                                         *)
(*   bonded, unbonding   amount strings: staked / unbonding in the bond denom *)
(*   ubd       << [amt, at] >>  unbonding entries (balance, completion time)   *)
(*   authz, pcgrant, feegrant  BOOLEAN  grants given by the account           *)
(*   isval     BOOLEAN   the account operates a validator                     *)
(*   ghost     BOOLEAN   the account WAS a clawback vesting account and has been  *)
(*             converted to a plain account: start..orig then still hold the last  *)
(*             stored schedule (carried by this specification, see Carry), df the   *)
(*             amount currently staked - the original lockup keeps binding the      *)
(*             coins until it ends                                                  *)
(* Coins are total functions denom -> decimal string over DOMAIN bank.        *)
(*                                                                         *)
(* PROPERTY LAYER P (the verdict).  Written from the statement; every term is  *)
(* computed by this specification from the logged schedule, never by calling  *)
(* the code's LockedCoins.  What each term of the statement is taken to mean,  *)
(* per denomination d and block time t (Schedule.tla gives Read / Cum):        *)
(*   original(d)        = orig[d], the stored OriginalVesting                  *)
(*   vested(t)(d)       = step function of the VESTING periods at t            *)
(*   unlocked(t)(d)     = step function of the LOCKUP periods at t             *)
(*   unvested(t)        = original - vested(t)                                 *)
(*   unlockedVested(t)  = min(unlocked(t), vested(t))   (vested AND unlocked;  *)
(*                        the code comment's diagram: total = unvested +        *)
(*                        lockedVested + unlockedVested)                        *)
(*   trackedDelegated   = df + dv  (the "hot-fix" sum of both tracked fields)   *)
(*   Locked(t) = max(original - unlockedVested(t) - trackedDelegated,           *)
(*                   unvested(t))                                              *)
(* A step function has two readings at the single instant t = start when a     *)
(* zero-length leading period puts a release exactly on the start (Schedule:   *)
(* Read is zero up to the start, Cum counts every period ended by t).  Locked  *)
(* is antitone in both step functions, so the Cum reading gives the smaller    *)
(* lock; P uses it (LockedP), i.e. P accepts whichever reading the code took.   *)
(* Clauses (kinds of violation signatures):                                    *)
(*   debit-below-locked   a successful transaction other than a staking        *)
(*        delegation lowered the balance of some denomination and left it       *)
(*        below LockedP(now).  (The statement's sentence is about what the      *)
(*        account "can transfer out, pay as fee, convert, deposit or bridge";   *)
(*        a transaction that takes nothing out is not judged - e.g. a merged    *)
(*        grant after a slash re-bases the tracked delegation and may leave      *)
(*        balance < Locked without any coin having left.)                       *)
(*   delegated-unvested   a successful delegation through any path leaves the    *)
(*        balance below unvested(now) - by more than it already was, so that a    *)
(*        later, innocent delegation is not blamed for an earlier one: some        *)
(*        unvested coin was delegated by THIS transaction.  This                  *)
(*        is "amount <= balance - unvested" evaluated on the balance the coins    *)
(*        were actually taken from: a delegation also pays in the rewards it      *)
(*        auto-withdraws, and those may be delegated                              *)
(*   tracked-overcount    trackedDelegated grew by more than the amount the     *)
(*        transaction delegated (it is the term subtracted inside Locked: if    *)
(*        it can grow without a delegation the formula protects nothing);        *)
(*        a merge may re-base it to the amount really bonded + unbonding         *)
(*   converted-while-locked  a transaction was accepted that turned the account    *)
(*        into a plain account while its schedule still had locked or unvested     *)
(*        coins (whatever is spent afterwards is judged by debit-below-locked        *)
(*        against the lock of the last stored schedule)                             *)
(*   merge-schedule-differs  after an accepted merge of a grant the stored lockup   *)
(*        (vesting) schedule is not the union of the release events of the stored    *)
(*        lockup (vesting) schedule before it and of the grant's lockup (vesting)    *)
(*        periods: Locked is computed from the stored schedule, so a grant stored    *)
(*        under a wrong schedule would silently move the lock                        *)
(*   tracked-exceeds-staked  the same for a merged grant / a conversion of a plain  *)
(*        account into a vesting account: the tracking may be (re-)based to what is *)
(*        really staked - bonded tokens + balances of the unbonding entries, both    *)
(*        read from the staking store - plus what the transaction delegates, not more *)
(*   schedule-changed-by-incoming  a transfer TO the account by a third party        *)
(*        (bank send of a native or ERC20-registered coin, multi-send, EVM value,      *)
(*        coin <-> ERC20 conversion with the account as receiver) changed its type,    *)
(*        schedule, original vesting or tracked delegation.  If it stripped the         *)
(*        schedule, the last stored one keeps binding (ghost, as after a conversion)    *)
(*   failed-tx-*          a failed transaction changed the account, moved more   *)
(*        than its declared fee, or paid the fee out of locked coins             *)
(* P never asserts that a transaction is accepted.                             *)
(*                                                                         *)
(* AS-BUILT MACHINE M: MResult(s, ev, args), one case per debit / delegation   *)
(* path, structured like the code (ante fee deduction through the bank, the    *)
(* eth vesting ante check, haqq's staking wrapper, bank SendCoins consulting    *)
(* LockedCoins with the Read reading, TrackDelegation/TrackUndelegation,        *)
(* ComputeClawback, addGrant, Liquidate).  Diagnostic only.                     *)
(***************************************************************************)
EXTENDS Schedule, Json

CONSTANTS
    Denoms,      \* denominations of the exhaustive model, e.g. {"aISLM"}
    BondDenom,   \* "aISLM"
    Lens,        \* period lengths, e.g. 0..2
    Amts,        \* period amounts, e.g. {"1","2"}
    MaxLockN,    \* max number of lockup periods
    MaxVestN,    \* max number of vesting periods
    Extras,      \* free extra funds given at creation, e.g. {"0","1"}
    Fees,        \* fee amounts of self-paid transactions, e.g. {"0"}
    MaxNow,      \* time bound
    Dts,         \* time steps of Tick
    UnbondTime,  \* unbonding time
    MinLiq,      \* minimum liquidation amount
    MaxLen,      \* number of actions per behaviour
    Grants,      \* subset of BOOLEAN: are authz / precompile / fee grants in place
    Codes,       \* subset of BOOLEAN: does the account carry contract code
    KindsX,      \* the bank-debit paths the exhaustive model walks (they share one effect function in M)
    Defects      \* subset of {"deleg_unvested_unchecked", "locked_ignores_unvested", "merge_rebases_later_grant",
                 \*            "convert_ignores_delegated_locked"}

---------------------------------------------------------------------------
(* Coins helpers beyond Schedule *)
VLMax(a, b)     == [d \in DOMAIN a |-> BigMax(a[d], b[d])]
VLPos(a)        == [d \in DOMAIN a |-> BigMax(a[d], "0")]
VLOne(D, d, x)  == [e \in D |-> IF e = d THEN x ELSE "0"]

---------------------------------------------------------------------------
(* P: the terms of the statement *)

LockS(v) == Sched(v.start, v.lockup)
VestS(v) == Sched(v.start, v.vesting)
DOf(v)   == DOMAIN v.bank

\* the two readings of a step function (they differ only at t = start, see header)
Rel(D, s, t, r) == IF r = "cum" THEN Cum(D, s, t) ELSE Read(D, s, t)

VestedR(v, t, r)   == Rel(DOf(v), VestS(v), t, r)
UnlockedR(v, t, r) == Rel(DOf(v), LockS(v), t, r)
UnvestedR(v, t, r) == CSub(v.orig, VestedR(v, t, r))
UnlockedVestedR(v, t, r) == CMin(UnlockedR(v, t, r), VestedR(v, t, r))
Tracked(v)         == CAdd(v.df, v.dv)
LockedR(v, t, r)   == VLMax(CSub(CSub(v.orig, UnlockedVestedR(v, t, r)), Tracked(v)), UnvestedR(v, t, r))

\* the reading P judges with: the smaller lock / the smaller unvested amount
LockedP(v, t)   == LockedR(v, t, "cum")
UnvestedP(v, t) == UnvestedR(v, t, "cum")

\* the invariant the statement is about (used on the model, and as a diagnostic on traces)
Bound(v) == v.exists \/ v.ghost
BalanceCoversLock(v, t) == ~Bound(v) \/ CLE(LockedP(v, t), v.bank)

\* the schedule still restricts coins at t (weaker reading)
StillRestricted(v, t) ==
    \/ ~CIsZero(VLPos(CSub(v.orig, UnlockedR(v, t, "cum"))))
    \/ ~CIsZero(VLPos(UnvestedR(v, t, "cum")))

\* A converted account is projected by the chain without a schedule.  Carry keeps the last stored
\* schedule on it (ghost) and counts what is staked now as its tracked delegation.
CarryV(old, new) ==
    IF new.exists \/ ~Bound(old) THEN new
    ELSE [new EXCEPT !.ghost = TRUE, !.start = old.start, !.end = old.end, !.lockup = old.lockup,
                     !.vesting = old.vesting, !.orig = old.orig, !.dv = CZero(DOMAIN new.bank),
                     !.df = [d \in DOMAIN new.bank |-> IF d = BondDenom THEN BigAdd(new.bonded, new.unbonding) ELSE "0"]]
Carry(s, t) == [t EXCEPT !.va = [a \in DOMAIN t.va |-> IF a \in DOMAIN s.va THEN CarryV(s.va[a], t.va[a]) ELSE t.va[a]]]

\* the stored schedules after a merge are the unions of the release events (grant g = [start, lockup, vesting])
MergedAsExpected(pre, post, g) ==
    LET D == DOf(post) IN
    /\ BagEq(Events(D, LockS(post)), Union(D, LockS(pre), Sched(g.start, g.lockup)))
    /\ BagEq(Events(D, VestS(post)), Union(D, VestS(pre), Sched(g.start, g.vesting)))

DelegKinds == {"delegate", "exec_delegate", "pc_delegate", "pc_delegate_contract",
               "create_validator", "exec_create_validator", "pc_create_validator", "pc_create_validator_contract",
               "convert_into_stake"}
\* re-bonding of coins that sit in an unbonding entry (MsgCancelUnbondingDelegation as a message, through
\* authz, through the staking precompile).  The coins come from the not-bonded pool, not from the account
\* (staking Delegate with subtractAccount = false), so these are ordinary transactions for P: they can
\* only debit the account by their fee - if one of them ever took coins from the balance it would be
\* judged by debit-below-locked.
RebondKinds == {"cancel_unbond", "exec_cancel_unbond", "pc_cancel_unbond"}
MergeKinds == {"merge", "convert_into", "convert_into_stake"}
NonTx      == {"reset", "begin", "end", "tick", "slash"}
IncomingKinds == {"fund_extra", "in_send_pair", "in_multisend", "in_eth", "in_convert_coin", "in_convert_erc20"}
SchedFrame(v) == <<v.exists, v.start, v.end, v.lockup, v.vesting, v.orig, IF v.exists THEN <<v.df, v.dv>> ELSE <<>> >>

Frame(v) == <<v.exists, v.start, v.end, v.lockup, v.vesting, v.orig, v.df, v.dv, v.bonded, v.unbonding>>

TrackedOver(e, pre, post, dl) ==
    LET D    == DOf(post)
        tq   == IF Bound(pre) THEN Tracked(pre) ELSE CZero(D)
        base == IF e.ev \in MergeKinds
                THEN VLMax(tq, VLOne(D, BondDenom, BigAdd(pre.bonded, pre.unbonding))) ELSE tq
    IN \E d \in D : BigLT(BigAdd(base[d], IF d = BondDenom THEN dl ELSE "0"), Tracked(post)[d])

\* how many unvested coins are missing from the balance (zero on every state a correct chain reaches)
Deficit(v, t) == IF Bound(v) THEN BigMax("0", BigSub(UnvestedP(v, t)[BondDenom], v.bank[BondDenom])) ELSE "0"

\* the set of clauses a recorded step e : s -> t breaks
Broken(e, s, t) ==
    IF e.ev \in NonTx THEN {}
    ELSE LET a    == e.args.acct
             pre  == s.va[a]
             post == t.va[a]
             now  == t.now
             D    == DOf(post)
             isD  == e.ev \in DelegKinds
             dl   == IF isD THEN e.args.deleg ELSE "0"
         IN
         IF e.ok
         THEN IF ~Bound(post) THEN {}
              ELSE (IF e.ev \notin IncomingKinds /\ pre.exists /\ ~post.exists /\ StillRestricted(pre, now)
                    THEN {"converted-while-locked"} ELSE {})
                   \cup
                   (IF e.ev \in IncomingKinds /\ Bound(pre) /\ SchedFrame(pre) # SchedFrame(post) /\ ~(pre.ghost /\ post.ghost)
                    THEN {"schedule-changed-by-incoming"} ELSE {})
                   \cup
                   (IF e.ev \in MergeKinds /\ pre.exists /\ post.exists /\ ~MergedAsExpected(pre, post, e.args.grant)
                    THEN {"merge-schedule-differs"} ELSE {})
                   \cup
                   (IF ~isD /\ \E d \in D : /\ BigLT(post.bank[d], pre.bank[d])
                                            /\ BigLT(post.bank[d], LockedP(post, now)[d])
                    THEN {"debit-below-locked"} ELSE {})
                   \cup
                   (IF isD /\ BigLT(Deficit(pre, now), Deficit(post, now))
                    THEN {"delegated-unvested"} ELSE {})
                   \cup
                   (IF ~(pre.exists /\ ~post.exists) /\ TrackedOver(e, pre, post, dl)
                    THEN {IF e.ev \in MergeKinds THEN "tracked-exceeds-staked" ELSE "tracked-overcount"} ELSE {})
         ELSE IF ~Bound(pre) THEN {}
              ELSE (IF Frame(pre) # Frame(post) THEN {"failed-tx-changed-account"} ELSE {})
                   \cup
                   (IF \E d \in D : BigLT(e.args.fee[d], BigSub(pre.bank[d], post.bank[d]))
                    THEN {"failed-tx-moved-balance"} ELSE {})
                   \cup
                   (IF \E d \in D : /\ BigLT(post.bank[d], pre.bank[d])
                                    /\ BigLT(post.bank[d], LockedP(post, now)[d])
                    THEN {"failed-tx-fee-from-locked"} ELSE {})

StepOK(e, s, t) == Broken(e, s, t) = {}

\* what identifies a failing step: the path and what the account still holds under restriction
Phase(v, t) ==
    IF ~Bound(v) THEN "none"
    ELSE IF v.ghost THEN (IF StillRestricted(v, t) THEN "converted-still-locked" ELSE "converted")
    ELSE IF ~CIsZero(VLPos(UnvestedR(v, t, "read"))) THEN "unvested"
    ELSE IF ~CIsZero(VLPos(CSub(v.orig, UnlockedR(v, t, "read")))) THEN "locked"
    ELSE "free"
StepClass(e, s, t) ==
    IF e.ev \in NonTx THEN "-"
    ELSE "path=" \o e.ev \o ",account=" \o Phase(t.va[e.args.acct], t.now)

---------------------------------------------------------------------------
(* M: the as-built machine *)

LockedM(v, t) ==
    IF "locked_ignores_unvested" \in Defects
    THEN VLPos(CSub(CSub(v.orig, UnlockedVestedR(v, t, "read")), Tracked(v)))
    ELSE LockedR(v, t, "read")
SpendableM(v, t) == IF v.exists THEN VLPos(CSub(v.bank, LockedM(v, t))) ELSE v.bank
CanDebit(v, t, c) == CLE(c, SpendableM(v, t)) /\ CLE(c, v.bank)
DebitV(v, c)  == [v EXCEPT !.bank = CSub(@, c)]
CreditV(v, c) == [v EXCEPT !.bank = CAdd(@, c)]
R(ok, v)      == [ok |-> ok, v |-> v]

\* ante fee deduction (bank SendCoinsFromAccountToModule: consults LockedCoins)
PayFee(v, t, f) == IF CanDebit(v, t, f) THEN R(TRUE, DebitV(v, f)) ELSE R(FALSE, v)

\* a Cosmos transaction signed by the account: fee, then the message debits c
MSelfCosmos(v, t, c, f, pre) ==
    LET p == PayFee(v, t, f) IN
    IF ~p.ok THEN R(FALSE, v)
    ELSE IF pre /\ CanDebit(p.v, t, c) THEN R(TRUE, DebitV(p.v, c))
    ELSE R(FALSE, p.v)

\* an Ethereum transaction of the account with value w (evm denom = bond denom) and gas fee f:
\* eth vesting ante (value <= spendable), balance >= value + fee, fee deduction through the bank,
\* value transfer committed through the bank (the "sender is not a contract" check runs in CheckTx
\* only, so code on the account does not stop a delivered transaction)
MSelfEth(v, t, w, f, pre) ==
    LET D == DOf(v)
        wc == VLOne(D, BondDenom, w)
        fc == VLOne(D, BondDenom, f)
    IN IF BigIsZero(v.bank[BondDenom]) \/ ~CLE(wc, SpendableM(v, t)) \/ ~CLE(CAdd(wc, fc), v.bank) THEN R(FALSE, v)
       ELSE LET p == PayFee(v, t, fc) IN
            IF ~p.ok THEN R(FALSE, v)
            ELSE IF pre /\ CanDebit(p.v, t, wc) THEN R(TRUE, DebitV(p.v, wc))
            ELSE R(FALSE, p.v)

\* haqq's staking wrapper: amount <= max(0, balance - unvested); then bank DelegateCoins + TrackDelegation
DelegOK(v, t, x) ==
    /\ BigSign(x) > 0
    /\ BigLE(x, v.bank[BondDenom])
    /\ \/ "deleg_unvested_unchecked" \in Defects
       \/ ~v.exists
       \/ BigLE(x, BigMax("0", BigSub(v.bank[BondDenom], UnvestedR(v, t, "read")[BondDenom])))
Delegated(v, x) ==
    [v EXCEPT !.bank[BondDenom] = BigSub(@, x),
              !.df[BondDenom]   = IF v.exists THEN BigAdd(@, x) ELSE @,
              !.bonded          = BigAdd(@, x)]

\* TrackUndelegation of the SDK's BaseVestingAccount: DelegatedFree first, then DelegatedVesting
Untracked(v, x) ==
    LET a == BigMin(v.df[BondDenom], x)
        b == BigMin(v.dv[BondDenom], BigSub(x, a))
    IN [v EXCEPT !.df[BondDenom] = BigSub(@, a), !.dv[BondDenom] = BigSub(@, b)]

RECURSIVE Mature(_, _, _)
Mature(v, t, i) ==
    IF i > Len(v.ubd) THEN [v EXCEPT !.ubd = SelectSeq(v.ubd, LAMBDA u : u.at > t)]
    ELSE LET u == v.ubd[i] IN
         IF u.at <= t
         THEN Mature([Untracked(v, u.amt) EXCEPT !.bank[BondDenom] = BigAdd(@, u.amt),
                                                 !.unbonding = BigSub(@, u.amt)], t, i + 1)
         ELSE Mature(v, t, i + 1)
EndBlockV(v, t) == Mature(v, t, 1)

\* ConjunctPeriods(lockup, one period of `cap` at the start): cumulative amounts clipped at cap
RECURSIVE CapPeriods(_, _, _, _)
CapPeriods(D, ps, cap, i) ==
    IF i > Len(ps) THEN <<>>
    ELSE LET before == CMin(SumAmt(D, [start |-> 0, periods |-> ps], 1..(i-1)), cap)
             upto   == CMin(SumAmt(D, [start |-> 0, periods |-> ps], 1..i), cap)
         IN <<Period(ps[i].len, CSub(upto, before))>> \o CapPeriods(D, ps, cap, i + 1)

MClawback(v, t) ==
    LET D      == DOf(v)
        vested == VestedR(v, t, "read")
        unv    == CSub(v.orig, vested)
    IN IF ~v.exists \/ (Len(v.lockup) = 0 /\ Len(v.vesting) = 0) THEN R(FALSE, v)
       ELSE IF CIsZero(unv) THEN R(TRUE, v)
       ELSE LET k  == PastCount(VestS(v), t)
                nv == SubSeq(v.vesting, 1, k)
                nl == CapPeriods(D, v.lockup, vested, 1)
                w  == [v EXCEPT !.orig = vested, !.vesting = nv, !.lockup = nl,
                                !.end = IMax(v.start + TotalLength(nv), v.start + TotalLength(nl))]
            IN IF CanDebit(w, t, unv) THEN R(TRUE, DebitV(w, unv)) ELSE R(FALSE, v)

\* DisjunctPeriods: the union of the release events, re-expressed from the earlier start
RECURSIVE FromEvents(_, _, _, _)
FromEvents(D, ev, times, prev) ==
    IF Len(times) = 0 THEN <<>>
    ELSE <<Period(times[1] - prev, ev[times[1]])>> \o FromEvents(D, ev, Tail(times), times[1])
Disjunct(D, a, b) ==
    LET ev == BagUnion(Events(D, a), Events(D, b))
        s0 == IMin(a.start, b.start)
    IN FromEvents(D, ev, SortedSeq(DOMAIN ev), s0)

\* addGrant (merge): g = [start, lockup, vesting]
MMerge(v, g, rebase) ==
    LET D  == DOf(v)
        \* before fix c3dec7b (finding F2) ApplyVestingSchedule passed min(start, acc.start): the named
        \* defect "merge_rebases_later_grant" keeps that behaviour available
        gs == IF rebase THEN IMin(g.start, v.start) ELSE g.start
        nl == Disjunct(D, LockS(v), Sched(gs, g.lockup))
        nv == Disjunct(D, VestS(v), Sched(gs, g.vesting))
        s0 == IMin(v.start, gs)
        c  == Total(D, Sched(gs, g.vesting))
    IN [v EXCEPT !.start = s0, !.lockup = nl, !.vesting = nv,
                 !.end = IMax(s0 + TotalLength(nl), s0 + TotalLength(nv)),
                 !.orig = CAdd(@, c), !.bank = CAdd(@, c),
                 !.dv = CZero(D), !.df = VLOne(D, BondDenom, BigAdd(v.bonded, v.unbonding))]

\* liquidvesting SubtractAmountFromPeriods on denomination d: proportional (floor), residue from the tail
SubFloor(ps, d, x, tot) == [i \in 1..Len(ps) |-> BigQuo(BigMul(ps[i].amt[d], x), tot)]
RECURSIVE TailTake(_, _, _)
\* rem[i]: what is left in period i after the proportional part; returns what the residue takes from each
TailTake(rem, i, residue) ==
    IF i = 0 THEN [j \in 1..Len(rem) |-> "0"]
    ELSE LET take == BigMin(rem[i], residue)
             rest == TailTake(rem, i - 1, BigSub(residue, take))
         IN [rest EXCEPT ![i] = take]
SubtractProp(ps, d, x) ==
    IF Len(ps) = 0 THEN ps
    ELSE LET tot  == FoldSet(LAMBDA i, acc : BigAdd(acc, ps[i].amt[d]), "0", 1..Len(ps))
             fl   == SubFloor(ps, d, x, tot)
             sumf == FoldSet(LAMBDA i, acc : BigAdd(acc, fl[i]), "0", 1..Len(ps))
             rem  == [i \in 1..Len(ps) |-> BigSub(ps[i].amt[d], fl[i])]
             tk   == TailTake(rem, Len(ps), BigSub(x, sumf))
         IN [i \in 1..Len(ps) |-> [ps[i] EXCEPT !.amt[d] = BigSub(rem[i], tk[i])]]

MLiquidate(v, t, x) ==
    LET D   == DOf(v)
        d   == BondDenom
        lockedUp == CSub(v.orig, UnlockedR(v, t, "read"))
    IN IF ~v.exists \/ BigLT(x, MinLiq) \/ ~CIsZero(UnvestedR(v, t, "read")) \/ BigIsZero(lockedUp[d]) \/ BigLT(lockedUp[d], x)
       THEN R(FALSE, v)
       ELSE LET k  == PastCount(LockS(v), t)
                nl == SubSeq(v.lockup, 1, k) \o SubtractProp(SubSeq(v.lockup, k + 1, Len(v.lockup)), d, x)
                nv == SubtractProp(v.vesting, d, x)
                w  == [v EXCEPT !.lockup = nl, !.vesting = nv, !.orig[d] = BigSub(@, x)]
                c  == VLOne(D, d, x)
            IN IF CanDebit(w, t, c) THEN R(TRUE, DebitV(w, c)) ELSE R(FALSE, v)

CosmosDebitKinds == {"send", "multisend", "dao_fund", "gov_deposit", "fee_cosmos", "convert_coin", "send_erc20"}
ExecDebitKinds   == {"exec_send", "exec_dao_fund", "exec_gov_deposit", "exec_convert_coin"}
EthDebitKinds    == {"eth_value", "fee_eth"}
DebitKinds       == CosmosDebitKinds \cup ExecDebitKinds \cup EthDebitKinds \cup {"eth_internal", "fee_grant", "liquidate"}
HasPair(d)       == d # BondDenom          \* liquid denominations have an ERC20 pair, the bond denom has none

\* the outcome M predicts for transaction (ev, args) on account v at time t
MAcct(v, t, ev, args) ==
    LET D == DOf(v)
        c == args.amt
        f == args.fee
        x == args.deleg
    IN
    CASE ev \in {"send", "multisend", "dao_fund", "gov_deposit"} ->
           MSelfCosmos(v, t, c, f, ~CIsZero(c))
      [] ev = "fee_cosmos" ->
           MSelfCosmos(v, t, c, f, TRUE)
      [] ev = "convert_coin" ->
           MSelfCosmos(v, t, c, f, ~CIsZero(c) /\ \A d \in D : BigIsZero(c[d]) \/ HasPair(d))
      [] ev = "send_erc20" ->
           \* the bank wrapper converts the whole spendable balance of a paired denomination
           LET p == PayFee(v, t, f) IN
           IF ~p.ok THEN R(FALSE, v)
           ELSE IF ~CIsZero(c) /\ CanDebit(p.v, t, c)
                THEN R(TRUE, DebitV(p.v, [d \in D |-> IF BigIsZero(c[d]) THEN "0"
                                                     ELSE IF HasPair(d) THEN SpendableM(p.v, t)[d] ELSE c[d]]))
                ELSE R(FALSE, p.v)
      [] ev \in ExecDebitKinds ->
           IF v.authz /\ ~CIsZero(c) /\ CanDebit(v, t, c)
              /\ (ev = "exec_convert_coin" => \A d \in D : BigIsZero(c[d]) \/ HasPair(d))
           THEN R(TRUE, DebitV(v, c)) ELSE R(FALSE, v)
      [] ev = "fee_grant" ->
           IF v.feegrant /\ CanDebit(v, t, c) THEN R(TRUE, DebitV(v, c)) ELSE R(FALSE, v)
      [] ev = "eth_value" -> MSelfEth(v, t, c[BondDenom], f[BondDenom], TRUE)
      [] ev = "fee_eth"   -> MSelfEth(v, t, "0", f[BondDenom], TRUE)
      [] ev = "eth_internal" ->
           IF v.code /\ CanDebit(v, t, c) THEN R(TRUE, DebitV(v, c)) ELSE R(FALSE, v)
      [] ev = "liquidate" ->
           LET p == PayFee(v, t, f) IN
           IF ~p.ok THEN R(FALSE, v)
           ELSE LET r == MLiquidate(p.v, t, c[BondDenom]) IN IF r.ok THEN r ELSE R(FALSE, p.v)
      [] ev \in {"delegate", "create_validator"} ->
           LET p == PayFee(v, t, f) IN
           IF ~p.ok THEN R(FALSE, v)
           ELSE IF (ev = "create_validator" => ~v.isval) /\ DelegOK(p.v, t, x)
                THEN R(TRUE, [Delegated(p.v, x) EXCEPT !.isval = (@ \/ ev = "create_validator")])
                ELSE R(FALSE, p.v)
      [] ev = "exec_delegate" ->
           IF v.authz /\ DelegOK(v, t, x) THEN R(TRUE, Delegated(v, x)) ELSE R(FALSE, v)
      [] ev = "exec_create_validator" ->
           IF v.authz /\ ~v.isval /\ DelegOK(v, t, x) THEN R(TRUE, [Delegated(v, x) EXCEPT !.isval = TRUE]) ELSE R(FALSE, v)
      [] ev \in {"pc_create_validator", "pc_create_validator_contract"} ->
           \* the precompile's createValidator asks for no grant: it only insists that the delegator is the tx origin
           LET r == MSelfEth(v, t, "0", f[BondDenom], TRUE) IN
           IF ~r.ok THEN r
           ELSE IF ~v.isval /\ DelegOK(r.v, t, x) THEN R(TRUE, [Delegated(r.v, x) EXCEPT !.isval = TRUE])
           ELSE R(FALSE, r.v)
      [] ev \in RebondKinds ->
           LET p == IF ev = "cancel_unbond" THEN PayFee(v, t, f)
                    ELSE IF ev = "pc_cancel_unbond" THEN MSelfEth(v, t, "0", f[BondDenom], TRUE)
                    ELSE R(v.authz, v)
               I == {i \in 1..Len(v.ubd) : v.ubd[i].at = args.at /\ BigLE(x, v.ubd[i].amt)}
           IN IF ~p.ok THEN R(FALSE, v)
              ELSE IF BigSign(x) > 0 /\ I # {}
                   THEN LET i == CHOOSE j \in I : TRUE
                            nu == [p.v.ubd EXCEPT ![i].amt = BigSub(@, x)]
                        IN R(TRUE, [p.v EXCEPT !.bonded = BigAdd(@, x), !.unbonding = BigSub(@, x),
                                              !.ubd = SelectSeq(nu, LAMBDA u : ~BigIsZero(u.amt))])
                   ELSE R(FALSE, p.v)
      [] ev \in {"pc_delegate", "pc_delegate_contract"} ->
           LET r == MSelfEth(v, t, "0", f[BondDenom], (ev = "pc_delegate_contract" => v.pcgrant)) IN
           IF ~r.ok THEN r
           ELSE IF (ev = "pc_delegate_contract" => v.pcgrant) /\ DelegOK(r.v, t, x) THEN R(TRUE, Delegated(r.v, x))
           ELSE R(FALSE, r.v)
      [] ev = "undelegate" ->
           LET p == PayFee(v, t, f) IN
           IF ~p.ok THEN R(FALSE, v)
           ELSE IF BigSign(x) > 0 /\ BigLE(x, p.v.bonded)
                THEN R(TRUE, [p.v EXCEPT !.bonded = BigSub(@, x), !.unbonding = BigAdd(@, x),
                                          !.ubd = Append(@, [amt |-> x, at |-> t + UnbondTime])])
                ELSE R(FALSE, p.v)
      [] ev = "clawback" -> MClawback(v, t)
      [] ev = "merge" ->
           IF v.exists THEN R(TRUE, MMerge(v, args.grant, FALSE)) ELSE R(FALSE, v)
      [] ev \in {"convert_back", "exec_convert_back"} ->
           \* MsgConvertVestingAccount: nothing vesting any more and HasLockedCoins false (the lockup schedule has
           \* released everything; the named defect asks LockedCoins instead, which discounts delegated coins)
           LET p    == IF ev = "convert_back" THEN PayFee(v, t, f) ELSE R(v.authz, v)
               gate == IF "convert_ignores_delegated_locked" \in Defects THEN CIsZero(LockedM(p.v, t))
                       ELSE CIsZero(VLPos(CSub(v.orig, UnlockedR(v, t, "read"))))
           IN IF ~p.ok THEN R(FALSE, v)
              ELSE IF v.exists /\ CIsZero(VLPos(UnvestedR(v, t, "read"))) /\ gate
                   THEN R(TRUE, [p.v EXCEPT !.exists = FALSE, !.ghost = FALSE, !.start = 0, !.end = 0, !.lockup = <<>>, !.vesting = <<>>,
                                            !.orig = CZero(D), !.df = CZero(D), !.dv = CZero(D)])
                   ELSE R(FALSE, p.v)
      [] ev \in {"convert_into", "convert_into_stake"} ->
           IF ~v.exists
           THEN \* ApplyVestingSchedule on a plain account: it becomes a vesting account with the grant's schedule
                IF v.code THEN R(FALSE, v)
                ELSE LET g  == args.grant
                         gc == Total(D, Sched(g.start, g.vesting))
                         w  == [v EXCEPT !.exists = TRUE, !.ghost = FALSE, !.start = g.start, !.lockup = g.lockup, !.vesting = g.vesting,
                                         !.end = g.start + IMax(TotalLength(g.lockup), TotalLength(g.vesting)),
                                         !.orig = gc, !.bank = CAdd(@, gc), !.dv = CZero(D),
                                         !.df = VLOne(D, BondDenom, BigAdd(v.bonded, v.unbonding))]
                         vs == Read(D, Sched(g.start, g.vesting), t)[BondDenom]
                     IN IF ev = "convert_into" THEN R(TRUE, w)
                        ELSE IF BigSign(vs) > 0 /\ BigLE(vs, w.bank[BondDenom]) THEN R(TRUE, Delegated(w, vs))
                        ELSE R(FALSE, v)
           ELSE LET w  == MMerge(v, args.grant, "merge_rebases_later_grant" \in Defects)
                    vs == Read(D, Sched(args.grant.start, args.grant.vesting), t)[BondDenom]
                IN IF ev = "convert_into" THEN R(TRUE, w)
                   ELSE IF BigSign(vs) > 0 /\ BigLE(vs, w.bank[BondDenom]) THEN R(TRUE, Delegated(w, vs))
                   ELSE R(FALSE, v)
      [] ev \in {"fund_extra", "in_multisend", "in_eth", "in_convert_erc20"} -> R(TRUE, CreditV(v, c))
      \* a bank send of an ERC20-registered coin and a coin -> ERC20 conversion deliver tokens on the EVM layer
      [] ev \in {"in_send_pair", "in_convert_coin"} -> R(TRUE, v)
      [] ev = "withdraw"   -> LET p == PayFee(v, t, f) IN
                              IF ~p.ok THEN R(FALSE, v) ELSE IF BigSign(v.bonded) > 0 THEN R(TRUE, p.v) ELSE R(FALSE, p.v)
      [] ev = "grant_authz" -> LET p == PayFee(v, t, f) IN IF p.ok THEN R(TRUE, [p.v EXCEPT !.authz = TRUE]) ELSE R(FALSE, v)
      [] ev = "grant_fee"   -> LET p == PayFee(v, t, f) IN IF p.ok THEN R(TRUE, [p.v EXCEPT !.feegrant = TRUE]) ELSE R(FALSE, v)
      [] ev = "grant_pc"    -> LET r == MSelfEth(v, t, "0", f[BondDenom], TRUE) IN
                               IF r.ok THEN R(TRUE, [r.v EXCEPT !.pcgrant = TRUE]) ELSE r
      [] OTHER -> R(FALSE, v)

MResult(s, ev, args) ==
    LET r == MAcct(s.va[args.acct], s.now, ev, args) IN
    [ok |-> r.ok, post |-> [s EXCEPT !.va[args.acct] = r.v]]

---------------------------------------------------------------------------
(* The exhaustive model: one vesting account "vx1" *)

VARIABLES st, hist, ini, slashed
vars == <<st, hist, ini, slashed>>
A == "vx1"

ZC == CZero(Denoms)
\* all period lists with 1..n periods whose amounts sit in the bond denomination (and, when the
\* model has a second denomination, mirror half of it there: amounts stay small)
PeriodChoices == {Period(l, [d \in Denoms |-> IF d = BondDenom THEN a ELSE (IF a = "2" THEN "1" ELSE "0")]) : l \in Lens, a \in Amts}
SeqsUpTo(n)   == UNION {[1..k -> PeriodChoices] : k \in 1..n}

InitAcct(lk, vs, extra, g, cd) ==
    LET orig == Total(Denoms, Sched(0, vs)) IN
    [exists |-> TRUE, code |-> cd, start |-> 0,
     end |-> IMax(TotalLength(lk), TotalLength(vs)),
     lockup |-> lk, vesting |-> vs, orig |-> orig, df |-> ZC, dv |-> ZC,
     bank |-> CAdd(orig, VLOne(Denoms, BondDenom, extra)), bonded |-> "0", unbonding |-> "0", ubd |-> <<>>,
     authz |-> g, pcgrant |-> g, feegrant |-> g, isval |-> FALSE, ghost |-> FALSE]

EmptyAcct ==
    [exists |-> FALSE, code |-> FALSE, start |-> 0, end |-> 0, lockup |-> <<>>, vesting |-> <<>>, orig |-> ZC, df |-> ZC, dv |-> ZC,
     bank |-> ZC, bonded |-> "0", unbonding |-> "0", ubd |-> <<>>, authz |-> FALSE, pcgrant |-> FALSE, feegrant |-> FALSE, isval |-> FALSE, ghost |-> FALSE]

Init ==
    /\ hist = <<>> /\ ini = EmptyAcct /\ slashed = FALSE
    /\ \E lk \in SeqsUpTo(MaxLockN), vs \in SeqsUpTo(MaxVestN), extra \in Extras, g \in Grants, cd \in Codes :
          /\ CEq(Total(Denoms, Sched(0, lk)), Total(Denoms, Sched(0, vs)))
          /\ st = [now |-> 0, va |-> [a \in {A} |-> InitAcct(lk, vs, extra, g, cd)]]

V  == st.va[A]
Args(c, f, x, how) == [acct |-> A, amt |-> c, fee |-> f, deleg |-> x, how |-> how]
Do(ev, args) ==
    LET r == MResult(st, ev, args) IN
    /\ st' = Carry(st, r.post)
    /\ hist' = Append(hist, [ev |-> ev, args |-> args, ok |-> r.ok])
    /\ UNCHANGED <<ini, slashed>>

\* amount choices relative to what the account may spend / delegate
SpendAmts(d) == LET sp == SpendableM(V, st.now)[d] IN
                {sp, BigAdd(sp, "1"), V.bank[d], "1"} \ {"0"}
DelegAmts    == LET m == BigMax("0", BigSub(V.bank[BondDenom], UnvestedR(V, st.now, "read")[BondDenom])) IN
                {m, BigAdd(m, "1"), V.bank[BondDenom], "1"} \ {"0"}
FeeC(f)      == VLOne(Denoms, BondDenom, f)

DebitAct ==
    \E ev \in (KindsX \cap (CosmosDebitKinds \cup ExecDebitKinds)) \ {"fee_cosmos"}, d \in Denoms, f \in Fees :
      \E x \in SpendAmts(d) :
        Do(ev, Args(VLOne(Denoms, d, x), FeeC(f), "0", "-"))
EthAct ==
    \E ev \in {"eth_value", "eth_internal"}, x \in SpendAmts(BondDenom), f \in Fees :
        Do(ev, Args(VLOne(Denoms, BondDenom, x), IF ev = "eth_value" THEN FeeC(f) ELSE ZC, "0", "-"))
FeeAct ==
    \/ \E ev \in {"fee_cosmos", "fee_eth"}, x \in SpendAmts(BondDenom) : Do(ev, Args(ZC, FeeC(x), "0", "-"))
    \/ \E x \in SpendAmts(BondDenom) : Do("fee_grant", Args(FeeC(x), FeeC(x), "0", "-"))
LiquidateAct ==
    \E x \in {V.orig[BondDenom], "1"} \ {"0"} : Do("liquidate", Args(VLOne(Denoms, BondDenom, x), ZC, "0", "-"))
DelegAct ==
    \E ev \in DelegKinds \ {"convert_into_stake"}, x \in DelegAmts, f \in Fees :
        Do(ev, Args(ZC, IF ev \in {"exec_delegate", "exec_create_validator"} THEN ZC ELSE FeeC(f), x, "-"))
UndelegAct ==
    \E x \in {V.bonded, "1"} \ {"0"} : Do("undelegate", Args(ZC, ZC, x, "-"))
RebondAct ==
    \E ev \in RebondKinds, i \in 1..Len(V.ubd) :
      \E x \in {V.ubd[i].amt, BigAdd(V.ubd[i].amt, "1"), "1"} :
        Do(ev, [acct |-> A, amt |-> ZC, fee |-> ZC, deleg |-> x, how |-> "-", at |-> V.ubd[i].at])
ClawbackAct == Do("clawback", Args(ZC, ZC, "0", "-"))
ConvertBackAct == \E ev \in {"convert_back", "exec_convert_back"} : Do(ev, Args(ZC, ZC, "0", "-"))
GrantChoices ==
    {[start |-> s0, lockup |-> <<Period(l1, VLOne(Denoms, BondDenom, "1"))>>, vesting |-> <<Period(l2, VLOne(Denoms, BondDenom, "1"))>>] :
        s0 \in {0, st.now}, l1 \in Lens, l2 \in Lens}
MergeAct ==
    \E ev \in MergeKinds, g \in GrantChoices :
        Do(ev, [acct |-> A, amt |-> ZC, fee |-> ZC,
                deleg |-> (IF ev = "convert_into_stake" THEN Read(Denoms, Sched(g.start, g.vesting), st.now)[BondDenom] ELSE "0"),
                how |-> "-", grant |-> g])
FundAct == Do("fund_extra", Args(VLOne(Denoms, BondDenom, "1"), ZC, "0", "-"))

\* time: the block ends (matured unbondings are paid out and un-tracked), the next one begins dt later
Tick(dt) ==
    /\ st.now + dt <= MaxNow
    /\ st' = Carry(st, [st EXCEPT !.now = @ + dt, !.va[A] = EndBlockV(V, st.now + dt)])
    /\ hist' = Append(hist, [ev |-> "tick", args |-> [dt |-> dt], ok |-> TRUE])
    /\ UNCHANGED <<ini, slashed>>
\* slashing: the bonded stake and every unbonding entry lose one unit (abstract; P does not depend on the size)
Slash ==
    /\ BigSign(V.bonded) > 0 \/ Len(V.ubd) > 0
    /\ LET nb  == IF BigSign(V.bonded) > 0 THEN BigSub(V.bonded, "1") ELSE V.bonded
           nu  == [i \in 1..Len(V.ubd) |-> [V.ubd[i] EXCEPT !.amt = BigMax("0", BigSub(@, "1"))]]
           tot == FoldSet(LAMBDA i, acc : BigAdd(acc, nu[i].amt), "0", 1..Len(nu))
       IN st' = Carry(st, [st EXCEPT !.va[A].bonded = nb, !.va[A].ubd = nu, !.va[A].unbonding = tot])
    /\ hist' = Append(hist, [ev |-> "slash", args |-> [dt |-> 0], ok |-> TRUE])
    /\ slashed' = TRUE /\ UNCHANGED ini

Next ==
    /\ Len(hist) < MaxLen
    /\ \/ DebitAct \/ EthAct \/ FeeAct \/ LiquidateAct \/ DelegAct \/ UndelegAct \/ RebondAct
       \/ ClawbackAct \/ ConvertBackAct \/ MergeAct \/ FundAct \/ Slash
       \/ \E dt \in Dts : Tick(dt)

Spec == Init /\ [][Next]_vars

\* what the exhaustive configurations check: the design keeps every balance above the lock
\* (with the Read reading the machine uses, which is the stronger one) ...
\* (a slash destroys staked coins that stay tracked as delegated until a merge re-bases the
\* tracking to what is really staked: from then on the lock can exceed the balance although no
\* coin left the account, hence the ghost `slashed`)
MInv_P == slashed \/ (BalanceCoversLock(V, st.now) /\ (Bound(V) => CLE(LockedR(V, st.now, "read"), V.bank)))
\* ... unvested coins stay in the account ...
MInv_Unvested == Bound(V) => CLE(UnvestedR(V, st.now, "read"), V.bank)
\* ... and every step satisfies every clause of P
MStep_P == [][hist' # hist => StepOK(hist'[Len(hist')], st, st')]_vars
\* sanity of the machine itself: nothing goes negative
MInv_NonNeg == CNonNeg(V.bank) /\ CNonNeg(V.df) /\ CNonNeg(V.orig) /\ BigSign(V.bonded) >= 0 /\ BigSign(V.unbonding) >= 0

View == <<st, slashed, Len(hist)>>

MC_AllKinds == DebitKinds
MC_FewKinds == {"send", "dao_fund", "exec_send", "convert_coin"}

---------------------------------------------------------------------------
(* Scenario scripts for the harness (-simulate).  The script carries the path, *)
(* an amount label `how` that the harness re-resolves against the REAL state    *)
(* (sp = spendable, sp+1, all, one, huge, max-delegatable ...) and the model's   *)
(* own amount in units; the model state only steers the walk towards meaningful  *)
(* histories (delegate before undelegate, ticks that land on period boundaries). *)

Pick(S, h) == RandomElement(S)
SimDenoms == Denoms
PickSeq(q, h) == q[RandomElement(1..Len(q))]
HowSpend == <<"sp", "sp", "sp+1", "all", "one", "huge", "half">>
HowDeleg == <<"max", "max", "max+1", "all", "one", "huge", "half">>

Resolve(how, sp, all) ==
    CASE how = "sp"   -> sp
      [] how = "max"  -> sp
      [] how = "sp+1" -> BigAdd(sp, "1")
      [] how = "max+1" -> BigAdd(sp, "1")
      [] how = "all"  -> all
      [] how = "one"  -> "1"
      [] how = "half" -> BigQuo(BigAdd(sp, "1"), "2")
      [] how = "huge" -> "1000000"
      [] OTHER -> "1"

SimDebit(h) ==
    \E ev \in {Pick(DebitKinds \ {"liquidate"}, h)}, d \in {IF Pick(1..3, h) = 1 THEN Pick(SimDenoms, h) ELSE BondDenom}, how \in {PickSeq(HowSpend, h)} :
        LET dd == IF ev \in {"convert_coin", "exec_convert_coin", "send_erc20"} THEN Pick((SimDenoms \ {BondDenom}) \cup {d}, h)
                  ELSE IF ev \in {"eth_value", "eth_internal", "fee_cosmos", "fee_eth", "fee_grant"} THEN BondDenom ELSE d
            x  == Resolve(how, SpendableM(V, st.now)[dd], V.bank[dd])
            c  == VLOne(Denoms, dd, x)
        IN IF ev \in {"fee_cosmos", "fee_eth"} THEN Do(ev, Args(ZC, c, "0", how))
           ELSE IF ev = "fee_grant" THEN Do(ev, Args(c, c, "0", how))
           ELSE Do(ev, Args(c, ZC, "0", how))
SimDeleg(h) ==
    \E ev \in {Pick(DelegKinds \ {"convert_into_stake"}, h)}, how \in {PickSeq(HowDeleg, h)} :
        LET m == BigMax("0", BigSub(V.bank[BondDenom], UnvestedR(V, st.now, "read")[BondDenom])) IN
        Do(ev, Args(ZC, ZC, Resolve(how, m, V.bank[BondDenom]), how))
SimUndeleg(h) ==
    /\ BigSign(V.bonded) > 0
    /\ \E how \in {PickSeq(<<"all", "all", "half", "one">>, h)} : Do("undelegate", Args(ZC, ZC, Resolve(how, V.bonded, V.bonded), how))
SimRebond(h) ==
    /\ Len(V.ubd) > 0
    /\ \E ev \in {Pick(RebondKinds, h)}, i \in {Pick(1..Len(V.ubd), h)}, how \in {PickSeq(<<"all", "half", "sp+1", "one">>, h)} :
         Do(ev, [acct |-> A, amt |-> ZC, fee |-> ZC, deleg |-> Resolve(how, V.ubd[i].amt, V.ubd[i].amt), how |-> how, at |-> V.ubd[i].at])
SimLiquidate(h) ==
    \E how \in {Pick({"all", "half", "sp+1"}, h)} :
        LET lk == VLPos(CSub(V.orig, UnlockedR(V, st.now, "read")))[BondDenom] IN
        Do("liquidate", Args(VLOne(Denoms, BondDenom, Resolve(how, lk, lk)), ZC, "0", how))
SimMerge(h) ==
    \E ev \in {Pick(MergeKinds, h)}, s0 \in {Pick({0, st.now, st.now + Pick(Lens, h)}, h)}, l1 \in {Pick(Lens, h)}, l2 \in {Pick(Lens, h)}, a \in {Pick(Amts, h)} :
        LET g == [start |-> s0, lockup |-> <<Period(l1, VLOne(Denoms, BondDenom, a))>>, vesting |-> <<Period(l2, VLOne(Denoms, BondDenom, a))>>] IN
        Do(ev, [acct |-> A, amt |-> ZC, fee |-> ZC,
                deleg |-> (IF ev = "convert_into_stake" THEN Read(Denoms, Sched(g.start, g.vesting), st.now)[BondDenom] ELSE "0"),
                how |-> "-", grant |-> g])
\* a time step that lands on, just before or just after the next release of either schedule,
\* or on the maturity of an unbonding
NextEvents ==
    {EndAt(LockS(V), i) : i \in Idx(LockS(V))} \cup {EndAt(VestS(V), i) : i \in Idx(VestS(V))}
    \cup {V.ubd[i].at : i \in 1..Len(V.ubd)}
SimTick(h) ==
    LET fut == {t \in NextEvents : t > st.now}
        tgt == IF fut = {} \/ Pick(1..5, h) = 1 THEN st.now + Pick(Dts, h)
               ELSE LET t == (IF Pick(1..3, h) = 1 THEN Pick(fut, h) ELSE SetMin(fut)) IN
                    t + PickSeq(<<-1, 0, 0, 1>>, h)
        dt  == IMax(1, tgt - st.now)
    IN /\ st' = Carry(st, [st EXCEPT !.now = @ + dt, !.va[A] = EndBlockV(V, st.now + dt)])
       /\ hist' = Append(hist, [ev |-> "tick", args |-> [dt |-> dt], ok |-> TRUE])
       /\ UNCHANGED <<ini, slashed>>
SimSlash ==
    /\ BigSign(V.bonded) > 0 \/ Len(V.ubd) > 0
    /\ Slash

\* the first step of a script draws the account: schedules, extra funds, grants (drawn in a
\* step, not in the initial predicate, because TLC computes the initial states only once)
SimCreate ==
    \E n1 \in {RandomElement(1..MaxLockN)}, n2 \in {RandomElement(1..MaxVestN)} :
    \E lk \in {[i \in 1..n1 |-> RandomElement(PeriodChoices)]}, vl \in {[i \in 1..2 |-> RandomElement(Lens)]} :
        \* the vesting periods re-split the lockup total: same total by construction
        LET tot == Total(Denoms, Sched(0, lk))
            h1  == [d \in Denoms |-> BigQuo(tot[d], "2")]
            vs  == IF n2 = 1 \/ CIsZero(h1) THEN <<Period(vl[1], tot)>>
                   ELSE <<Period(vl[1], h1), Period(vl[2], CSub(tot, h1))>>
            acc == InitAcct(lk, vs, RandomElement(Extras), RandomElement(Grants), RandomElement(Codes))
        IN /\ st' = [st EXCEPT !.va[A] = acc]
           /\ ini' = acc
           /\ UNCHANGED <<hist, slashed>>

SimNext ==
    IF ~Bound(V) /\ hist = <<>> THEN SimCreate
    ELSE
    /\ Len(hist) < MaxLen
    /\ \/ SimDebit(hist) \/ SimDebit(hist) \/ SimDebit(hist)
       \/ SimDeleg(hist) \/ SimDeleg(hist)
       \/ SimUndeleg(hist) \/ SimUndeleg(hist)
       \/ SimRebond(hist)
       \/ SimTick(hist) \/ SimTick(hist)
       \/ (Pick(1..3, hist) = 1 /\ ClawbackAct)
       \/ (Pick(1..2, hist) = 1 /\ Do(Pick({"convert_back", "exec_convert_back"}, hist), Args(ZC, ZC, "0", "-")))
       \/ (Pick(1..2, hist) = 1 /\ SimMerge(hist))
       \/ (Pick(1..2, hist) = 1 /\ SimLiquidate(hist))
       \/ (Pick(1..2, hist) = 1 /\ FundAct)
       \/ (Pick(1..2, hist) = 1 /\ \E ev \in {Pick(IncomingKinds \ {"fund_extra"}, hist)} :
               LET pair == IF Denoms = {BondDenom} THEN BondDenom ELSE CHOOSE x \in Denoms : x # BondDenom
                   d    == IF ev = "in_eth" THEN BondDenom ELSE IF ev = "in_multisend" THEN Pick(Denoms, hist) ELSE pair
               IN Do(ev, Args(VLOne(Denoms, d, "1"), ZC, "0", "-")))
       \/ SimSlash

SimInit == /\ hist = <<>> /\ ini = EmptyAcct /\ slashed = FALSE
           /\ st = [now |-> 0, va |-> [a \in {A} |-> EmptyAcct]]

Emit == Len(hist) = MaxLen /\ PrintT(<<"SCRIPT", ToJson([init |-> ini, steps |-> hist])>>) /\ UNCHANGED vars
SimSpec == SimInit /\ [][SimNext \/ Emit]_vars
=============================================================================
