--------------------------- MODULE EvmCosmosRand ---------------------------
(***************************************************************************)
(* Random call trees for the EvmCosmos family (thorough tiers of C02, C04,  *)
(* C05).  A behaviour of this machine BUILDS one transaction: every step     *)
(* appends a leaf (precompile call, allowance call, value transfer, SSTORE,  *)
(* read-only precompile call), opens a nested call frame (new contract, with *)
(* or without value, failure caught or bubbled) or closes the current frame  *)
(* (normally, by REVERT, by running out of gas, or by SELFDESTRUCT).  When   *)
(* the top frame is closed the chain set-up is drawn (withdraw address,      *)
(* grants from the signer to the contracts that spend for it, a delegation   *)
(* owned by the top contract) and the scenario is printed for the harness.   *)
(*                                                                         *)
(* TLC runs it in simulation mode (one behaviour = one tree).  The invariant *)
(* Intended checks on the model that the intended design (Defects = {})      *)
(* satisfies the property layer on every generated tree.                      *)
(***************************************************************************)
EXTENDS EvmCosmosGen

CONSTANTS MaxOps      \* bound on the number of ops of a tree

VARIABLES tree, path, nid, fin, out
rvars == <<sc, tree, path, nid, fin, out>>

R(S) == RandomElement(S)

RECURSIVE AppendAt(_, _, _)
AppendAt(n, p, o) == IF p = <<>> THEN [n EXCEPT !.body = Append(@, o)]
                     ELSE [n EXCEPT !.body = [@ EXCEPT ![Head(p)] = AppendAt(@, Tail(p), o)]]
RECURSIVE NodeAt(_, _)
NodeAt(n, p) == IF p = <<>> THEN n ELSE NodeAt(n.body[Head(p)], Tail(p))
Front(p) == SubSeq(p, 1, Len(p) - 1)

Amts == {Amt, "2500000", "999", "400000"}
SpendM == {"delegate", "undelegate", "redelegate", "cancelUnbonding", "ibcTransfer"}
OwnerM == {"withdrawRewards", "claimRewards", "setWithdrawAddress"}
ApprM  == {"approve", "increaseAllowance", "decreaseAllowance", "revoke"}
IbcM   == {"ibcApprove", "ibcIncrease", "ibcDecrease", "ibcRevoke"}
LeafKinds == {"spend", "spend2", "owner", "appr", "ibcappr", "send", "store", "query", "log"}
Leaf(k, id, d, md) ==
    CASE k \in {"spend", "spend2"} -> {Pc(id, md, m, who, a) : m \in SpendM, who \in {"S", "self", "T"}, a \in Amts}
      [] k = "owner" -> {Pc(id, md, m, who, Amt) : m \in OwnerM, who \in {"S", "self", "T"}}
      \* the grantee is the top contract or the calling contract itself (always a tracked account)
      [] k = "appr"  -> {PcG(id, md, m, ge, a) : m \in ApprM, a \in {"3000000", "1000000", Z},
                                                  ge \in IF d = "call" THEN {"C0", "self"} ELSE {"self"}}
      [] k = "ibcappr" -> {[PcG(id, md, m, ge, a) EXCEPT !.val = ch] : m \in IbcM, a \in {"3000000", "1000000", "400000"}, ch \in {0, 1},
                                                  ge \in IF d = "call" THEN {"C0", "self"} ELSE {"self"}}
      [] k = "send"  -> {Send(id, to, v) : to \in {"S", "T", "W"}, v \in {"300", "50"}}
      [] k = "store" -> {Store(id)}
      [] k = "log"   -> {Log(id)}
      [] k = "query" -> {Query(id)}
      \* re-enter the top contract (which then runs its alt body)
      [] k = "recall" -> {Recall(id, md, "C0", Z)}

RInit == /\ sc = None /\ path = <<>> /\ nid = 0 /\ fin = FALSE /\ out = None /\ tree = CallC(0, "catch", Z, <<>>)
\* (TLC computes the initial states once per run: the top frame is drawn by the first step)
Top == /\ nid = 0 /\ nid' = 1
       /\ \E k \in {R(1..8)} : \E na \in {R(0..5)} :
         \E a1 \in {R(Leaf(R(LeafKinds), 100, "call", "catch"))} : \E a2 \in {R(Leaf(R(LeafKinds), 101, "call", "catch"))} :
            \* one top contract in three has a second entry point (alt body) that nested frames may re-enter
            LET alt == IF na = 4 THEN <<a1>> ELSE IF na = 5 THEN <<a1, a2>> ELSE <<>> IN
            tree' = IF k = 1 THEN Create(0, Z, <<>>) ELSE IF k = 2 THEN Create(0, "600", <<>>)
                    ELSE IF k <= 5 THEN CallCA(0, "catch", Z, <<>>, alt) ELSE CallCA(0, "catch", "900", <<>>, alt)
       /\ UNCHANGED <<sc, path, fin, out>>

\* the alt body is entered at most once per tree: the success flag of an op records its LAST execution only
RECURSIVE HasRecall(_)
HasRecallOp(o) == o.op = "recall" \/ HasRecall(o.body)
HasRecall(body) == \E i \in 1..Len(body) : HasRecallOp(body[i])
\* a frame can be closed only when it has executed something
CanClose == NodeAt(tree, path).body # <<>>
Build ==
    /\ ~fin /\ nid > 0
    /\ \E a \in {R(IF nid >= MaxOps THEN {"close"}
                   ELSE IF ~CanClose THEN {"leaf"}
                   ELSE IF Len(path) < 2 /\ tree.op = "call" /\ NodeAt(tree, path).op = "call"
                        THEN {"leaf", "leaf2", "leaf3", "open", "open2", "close"}
                             \* CREATE inside the tree: by a contract (not a constructor), once per contract
                             \cup (IF \A i \in 1..Len(NodeAt(tree, path).body) : NodeAt(tree, path).body[i].op # "create" THEN {"ncreate"} ELSE {})
                   ELSE {"leaf", "leaf2", "leaf3", "close"})} :
       \* a failing precompile call is mostly caught by the calling contract
       \E pm \in {R({"catch", "catch2", "catch3", "bubble"})} :
       \E o \in {R(Leaf(R(IF path # <<>> /\ tree.alt # <<>> /\ ~HasRecall(tree.body) THEN LeafKinds \cup {"recall"} ELSE LeafKinds), nid, tree.op, IF pm = "bubble" THEN "bubble" ELSE "catch"))} :
       \E o2 \in {R(Leaf(R(IF tree.alt # <<>> /\ ~HasRecall(tree.body) THEN LeafKinds \cup {"recall"} ELSE LeafKinds), nid + 1, tree.op, IF pm = "bubble" THEN "bubble" ELSE "catch"))} :
       \E cv \in {R({Z, "0", "400"})} : \E md \in {R({"catch", "catch2", "bubble"})} :
       \E term \in {R({"none", "none2", "none3", "rev", "rev2", "inval", "selfd"})} :
       \E keep \in {R(1..3)} : \E ben \in {R({"T", "self", "S"})} :
         IF a \in {"leaf", "leaf2", "leaf3"}
         THEN /\ tree' = AppendAt(tree, path, o) /\ nid' = nid + 1 /\ UNCHANGED <<path, fin>>
         ELSE IF a \in {"open", "open2", "ncreate"}
         THEN /\ tree' = AppendAt(tree, path, IF a = "ncreate"
                                              THEN [Create(nid, IF cv = "400" THEN "400" ELSE Z, <<o2>>) EXCEPT !.mode = IF md = "bubble" THEN "bubble" ELSE "catch"]
                                              ELSE CallC(nid, IF md = "bubble" THEN "bubble" ELSE "catch", IF cv = "400" THEN "400" ELSE Z, <<o2>>))
              /\ path' = Append(path, Len(NodeAt(tree, path).body) + 1)
              /\ nid' = nid + 2 /\ UNCHANGED fin
         ELSE \* close: normally, by REVERT, out of gas, or SELFDESTRUCT; a creation ends normally or reverts;
              \* the top frame mostly ends normally, so that most transactions succeed
              \E tt \in {IF path = <<>> /\ keep # 1 THEN <<>>
                         ELSE IF term \in {"rev", "rev2"} THEN <<Rev(nid)>>
                         \* (CREATE forwards all remaining gas: a constructor does not end in INVALID here)
                         ELSE IF term = "inval" /\ path # <<>> /\ NodeAt(tree, path).op = "call" THEN <<Inval(nid)>>
                         ELSE IF term = "selfd" /\ tree.op = "call" /\ NodeAt(tree, path).op = "call" THEN <<SelfD(nid, ben)>>
                         ELSE <<>>} :
                /\ tree' = (IF tt = <<>> THEN tree ELSE AppendAt(tree, path, tt[1]))
                /\ nid' = nid + 1
                /\ IF path = <<>> THEN (fin' = TRUE /\ UNCHANGED path) ELSE (path' = Front(path) /\ UNCHANGED fin)
    /\ UNCHANGED <<sc, out>>

\* (contract, grant type) pairs for which the signer's grant matters: the contract spends for the signer
RECURSIVE Pairs(_, _)
PairsOp(self, o) == (IF o.op = "pc" /\ TypeOf(o.m) # "-" /\ o.who = "S" THEN {<<self, TypeOf(o.m)>>} ELSE {})
                    \* allowance arithmetic needs existing grants of both types the harness passes
                    \cup (IF o.op = "pc" /\ o.m \in ApprM /\ Named(o.grantee, self) # "S"
                          THEN {<<Named(o.grantee, self), "delegate">>, <<Named(o.grantee, self), "undelegate">>} ELSE {})
                    \cup (IF o.op = "pc" /\ o.m \in IbcM /\ Named(o.grantee, self) # "S" THEN {<<Named(o.grantee, self), "ibc">>} ELSE {})
                    \cup (IF HasBody(o) THEN Pairs(ContractOf(o), o.body) \cup Pairs(ContractOf(o), o.alt) ELSE {})
Pairs(self, body) == IF body = <<>> THEN {} ELSE PairsOp(self, body[1]) \cup Pairs(self, Tail(body))

\* the allow-list of a grant names one validator: the one the ops of this family address (the destination
\* for a redelegation), or - kind 4 - another one
GrantOf(p, k) == [grantee |-> p[1], type |-> p[2], limit |-> IF k = 3 THEN "1500000" ELSE "", expired |-> FALSE,
                  val |-> IF k = 4 THEN 2 ELSE IF p[2] = "redelegate" THEN 1 ELSE 0,
                  \* an ICS-20 authorization of kind 2 or 3 has a second allocation (channel-1)
                  alloc2 |-> IF p[2] = "ibc" /\ k \in {2, 3} THEN "1000000" ELSE ""]
RECURSIVE SeqOf(_)
SeqOf(S) == IF S = {} THEN <<>> ELSE LET x == CHOOSE y \in S : TRUE IN <<x>> \o SeqOf(S \ {x})

Emit ==
    /\ fin /\ out = None
    /\ LET ps == PairsOp("S", tree)
           few == IF Cardinality(ps) <= 5 THEN ps ELSE {}
       IN \E f \in {R([few -> 0..4])} : \E w \in {R({"self", "W"})} : \E own \in {R({0, 1, 2})} : \E warm \in {R({0, 1, 2})} :
          \* kinds: 0 = no grant, 1, 2 = unlimited, 3 = limited, 4 = other validator only
          LET gs == {GrantOf(p, f[p]) : p \in {q \in few : f[q] # 0}} \cup {GrantOf(p, 1) : p \in ps \ few}
              su == IF own = 2 /\ tree.op = "call" THEN SetupC(w, SeqOf(gs), TRUE) ELSE Setup("a1", w, SeqOf(gs), Z)
              x  == [setup |-> [su EXCEPT !.acl = (warm = 2), !.priorLog = (own = 1)], top |-> tree, fam |-> "rand"]
          IN /\ out' = [tag |-> "scenario", x |-> x]
             /\ PrintT(<<"SCRIPT", ToJson(x)>>)
    /\ UNCHANGED <<sc, tree, path, nid, fin>>

RNext == Top \/ Build \/ Emit
RSpec == RInit /\ [][RNext]_rvars

\* the intended design satisfies the property layer on every generated tree (run with Defects = {})
Intended == out = None \/ ModelDiff(out.x) = {} \/ (PrintT(<<"INTENDED-DIFF", ModelDiff(out.x), ToJson(out.x)>>) /\ FALSE)
\* with the known defect mechanisms P fails only in trees that contain a precompile call
ExplainedR == out = None \/ ModelDiff(out.x) = {} \/ HasPcOp(out.x.top)
=============================================================================
