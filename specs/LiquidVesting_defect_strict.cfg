SPECIFICATION Spec
CONSTANTS
  InitAccts <- MC_AcctsA
  MinLiq = "1"
  Amts = {"1","2"}
  MaxT = 8
  TStep = 2
  MaxLen = 4
  SplitMaxP = 0
  SplitMaxAmt = 0
  Defects = {"merge_min_start"}
INVARIANT MInv_P
PROPERTY MStep_Strict
VIEW View
CHECK_DEADLOCK FALSE
