SPECIFICATION TraceSpec
CONSTANTS
  Denoms = {}
  Defects = {"merge_min_start","clawback_collapsed_span"}
  POffsets = {0}
  PMaxPeriods = 0
  PMaxLen = 0
  PAmts = {}
  Shapes = {}
  Starts = {}
  Dts = {}
  MaxNow = 0
  MaxLen = 0
  InitBank = "0"
INVARIANT Report
CHECK_DEADLOCK FALSE
