------------------------------ MODULE SigNonce ------------------------------
(***************************************************************************)
(* Authorisation of transactions on haqq (property C03): only the key      *)
(* holder can authorise a transaction, and only once.                      *)
(*                                                                         *)
(* PART 1 - sequences.  State record                                       *)
(*   seq  : [acct -> Nat]   sequence in the deliver (committed) state      *)
(*   cseq : [acct -> Nat]   sequence in the CheckTx state                  *)
(*   bal  : [acct -> amount], coll : amount     (traces only; optional)    *)
(* and the ghost set `executed` of transaction ids that were executed.     *)
(* A submission event e carries                                            *)
(*   mode : "check" | "deliver"                                            *)
(*   tx   : [id, signer, rcpt, amount, nonce, nm, route]   what was SIGNED *)
(*   sig  : "good"  the bytes carry a valid signature by signer's key over *)
(*                  exactly their content and this chain's id              *)
(*          "bad"   they do not (a signed field changed after signing, the *)
(*                  signature material is not a signature of the key over  *)
(*                  the content, it was made for another chain id, or the  *)
(*                  signed message appears twice)                          *)
(*          "may"   a field outside the signed content was changed, or the *)
(*                  same signature was re-encoded: the statement allows    *)
(*                  acceptance, but then the effect must be exactly the    *)
(*                  one the key holder signed                              *)
(*   ok   : response code 0                                                *)
(*                                                                         *)
(* Property layer P (from the statement, not from the code):               *)
(*   a DeliverTx is executed (ok) only if sig # "bad", nonce = seq[signer] *)
(*   and the id was never executed; then seq advances by exactly the       *)
(*   number of sequence numbers the transaction carries and the signed     *)
(*   transfer is visible; an unauthorised submission (sig = "bad" or       *)
(*   nonce # seq[signer]) is rejected and leaves sequences, balances and   *)
(*   the fee collector unchanged; sequences never decrease; nobody else's  *)
(*   sequence or balance moves.  CheckTx never touches the deliver state,  *)
(*   and accepts neither a "bad" signature nor a stale (replayed) nonce.   *)
(*   An Ethereum envelope may carry a BATCH of messages of several senders *)
(*   (tx.parts): it is authorised only if EVERY message is; otherwise the   *)
(*   whole transaction is rejected with the state unchanged.               *)
(*   P never asserts that a valid transaction is accepted.                 *)
(*                                                                         *)
(* As-built machine M: CheckTx state and deliver state kept separately,    *)
(*   Submit in both modes for every route, Commit resets the CheckTx state *)
(*   to the committed one.  Routes: three Ethereum types (nonce checked    *)
(*   and incremented per message: app/ante/evm/eth.go), Cosmos DIRECT and  *)
(*   amino-JSON, legacy EIP-712 (sequence checked in the signature         *)
(*   decorator, incremented once per transaction).                         *)
(*                                                                         *)
(* PART 0 - the scenario space (Worlds).  The statement is unconditional:   *)
(*   it holds whatever the fee market charges (fees: "priced" | "free" =   *)
(*   no base fee, minimum gas price 0, transactions that carry no fee at   *)
(*   all), however the account objects of the parties are stored (accts:   *)
(*   "eth" = EthAccount | "base" = plain cosmos BaseAccount, as accounts   *)
(*   imported with a genesis file are) and however the chain state came to *)
(*   be (origin: "genesis" | "migrated" = the parameters of x/evm went      *)
(*   through the in-place store migrations of a software upgrade).  P does *)
(*   not mention the world: every order script and the whole mutation      *)
(*   matrix are run in the worlds enumerated from Worlds, and judged by    *)
(*   the same P.  Besides x/vesting messages, the account object of a      *)
(*   party is re-written by the EVM state commit of ANY Ethereum            *)
(*   transaction that touches it (event kind "touch": a third party pays   *)
(*   1 aISLM to the account).                                              *)
(*                                                                         *)
(* PART 2 - the mutation matrix: an enumerated input space                 *)
(*   Cases = route x field x mutation kind, and ClassOf(case), the demand  *)
(*   of the statement for that case ("signed", "sig", "foreign", "replay"  *)
(*   => must be rejected; "equiv", "envelope" => "may").                   *)
(***************************************************************************)
EXTENDS Integers, Sequences, FiniteSets, TLC, Json, BigNum

CONSTANTS
    Signers,     \* e.g. {"s1","s2"}
    Nonces,      \* e.g. 0..2
    Routes,      \* routes of the exhaustive pool
    Quals,       \* qualities of the exhaustive pool, subset of {"good","badsig","foreign","unprotected","overdraft"}
    MaxSub,      \* bound on the number of submissions of a behaviour
    MaxBlocks,   \* bound on the number of commits
    MaxEvents,   \* bound on the number of account-rewriting events
    MaxLen,      \* length of simulated scripts
    Defects      \* subset of DefectNames (hypothetical defects: non-vacuity witnesses)

DefectNames == {"no_increment", "nonce_not_checked", "chain_not_checked", "sig_not_checked", "check_leaks",
                "rewrite_resets_sequence"}
EventKinds  == {"convert", "merge", "funder", "clawback", "back", "touch"}

\* the scenario space: every scenario (order script, matrix run) lives in one world
FeeModes  == {"priced", "free"}
AcctKinds == {"eth", "base"}
Origins   == {"genesis", "migrated"}
Worlds    == [fees : FeeModes, accts : AcctKinds, origin : Origins]

EthRoutes    == {"eth-legacy", "eth-accesslist", "eth-dynamicfee"}
CosmosRoutes == {"cosmos-direct", "cosmos-amino-json"}
Eip712Routes == {"eip712", "eip712-direct"}
AllRoutes    == EthRoutes \cup CosmosRoutes \cup Eip712Routes
IsEth(r)     == r \in EthRoutes

\* number of sequence numbers a transaction carries: an Ethereum envelope with nm messages
\* carries nm consecutive nonces, a Cosmos transaction one sequence whatever its messages
Adv(tx) == IF IsEth(tx.route) THEN tx.nm ELSE 1

---------------------------------------------------------------------------
(* P *)

HasBal(s) == "bal" \in DOMAIN s

SameDeliver(s, t) ==
    /\ t.seq = s.seq
    /\ HasBal(s) => (t.bal = s.bal /\ t.coll = s.coll)

\* The signed parts of a transaction: an Ethereum envelope is a BATCH of messages, each with its
\* own signer, nonce and amount (recorded in tx.parts when they differ; otherwise nm messages of
\* tx.signer with consecutive nonces); a Cosmos transaction is one part whatever its messages.
Parts(tx) ==
    IF "parts" \in DOMAIN tx THEN tx.parts
    ELSE IF IsEth(tx.route)
         THEN [i \in 1..tx.nm |-> [signer |-> tx.signer, nonce |-> tx.nonce + i - 1, amount |-> tx.amount]]
         ELSE <<[signer |-> tx.signer, nonce |-> tx.nonce, amount |-> BigMul(tx.amount, BigOfInt(tx.nm))]>>
PartSigners(tx) == {Parts(tx)[i].signer : i \in DOMAIN Parts(tx)}
\* how many sequence numbers of account a the transaction carries
Use(tx, a) == Cardinality({i \in DOMAIN Parts(tx) : Parts(tx)[i].signer = a})
\* every part carries the current sequence of its signer, counting the earlier parts of the batch
NonceMatch(tx, seq) ==
    LET ps == Parts(tx) IN
    \A i \in DOMAIN ps :
        ps[i].nonce = seq[ps[i].signer] + Cardinality({j \in 1..(i - 1) : ps[j].signer = ps[i].signer})
\* what is counted as "executed once": every signed Ethereum message of a batch has its own
\* identity (it can be wrapped again alone, the envelope is unsigned)
ExecIds(tx) ==
    IF "parts" \in DOMAIN tx /\ tx.parts # <<>> /\ "id" \in DOMAIN tx.parts[1]
    THEN {tx.parts[i].id : i \in DOMAIN tx.parts} ELSE {tx.id}
SumParts(tx, S) ==
    LET ps == Parts(tx)
        F[i \in 0..Len(ps)] == IF i = 0 THEN "0"
                               ELSE IF ps[i].signer \in S THEN BigAdd(F[i - 1], ps[i].amount) ELSE F[i - 1]
    IN F[Len(ps)]

\* what the signed transfer(s) must have done when executed
EffectOK(tx, s, t) ==
    HasBal(s) =>
      /\ BigEq(t.bal[tx.rcpt], BigAdd(s.bal[tx.rcpt], SumParts(tx, PartSigners(tx))))
      /\ \A a \in PartSigners(tx) : BigLE(t.bal[a], BigSub(s.bal[a], SumParts(tx, {a})))
      /\ \A b \in DOMAIN s.bal \ (PartSigners(tx) \cup {tx.rcpt}) : t.bal[b] = s.bal[b]

\* an authorised transaction that failed may have paid its fee and consumed its sequence
\* numbers, nothing else
FailedAuthOK(tx, s, t) ==
    /\ \A a \in PartSigners(tx) : t.seq[a] \in s.seq[a] .. (s.seq[a] + Use(tx, a))
    /\ HasBal(s) =>
         /\ \A a \in PartSigners(tx) : BigLE(t.bal[a], s.bal[a])
         /\ \A b \in DOMAIN s.bal \ PartSigners(tx) : t.bal[b] = s.bal[b]

\* the clauses of P a deliver-mode submission breaks ({} = none).  e.sig = "bad" when ANY message
\* of the transaction is not authorised: then the WHOLE transaction must be rejected, nothing
\* executed, no sequence moved, no fee charged.
DeliverBroken(e, s, t, executed) ==
    LET tx == e.tx
        unauth == e.sig = "bad" \/ ~NonceMatch(tx, s.seq)
    IN  (IF \E b \in DOMAIN s.seq : t.seq[b] < s.seq[b] THEN {"sequence-decreased"} ELSE {})
   \cup (IF \E b \in DOMAIN s.seq \ PartSigners(tx) : t.seq[b] # s.seq[b] THEN {"other-sequence-moved"} ELSE {})
   \cup (IF e.ok
         THEN (IF e.sig = "bad" THEN {"executed-without-valid-signature"} ELSE {})
         \cup (IF ~NonceMatch(tx, s.seq) THEN {"executed-with-wrong-nonce"} ELSE {})
         \cup (IF ExecIds(tx) \cap executed # {} THEN {"executed-twice"} ELSE {})
         \cup (IF \E a \in PartSigners(tx) \cap DOMAIN s.seq : t.seq[a] # s.seq[a] + Use(tx, a)
               THEN {"sequence-not-advanced-exactly"} ELSE {})
         \cup (IF e.sig = "bad" \/ EffectOK(tx, s, t) THEN {} ELSE {"effect-differs-from-signed-content"})
         ELSE IF unauth
              THEN (IF SameDeliver(s, t) THEN {} ELSE {"rejected-unauthorised-changed-state"})
              ELSE (IF FailedAuthOK(tx, s, t) THEN {} ELSE {"failed-authorised-overreached"}))

CheckBroken(e, s, t) ==
    LET tx == e.tx  ps == Parts(e.tx) IN
        (IF SameDeliver(s, t) THEN {} ELSE {"checktx-changed-deliver-state"})
   \cup (IF e.ok /\ e.sig = "bad" THEN {"checktx-accepted-without-valid-signature"} ELSE {})
   \cup (IF e.ok /\ \E i \in DOMAIN ps : ps[i].nonce < s.cseq[ps[i].signer]
         THEN {"checktx-accepted-replayed-nonce"} ELSE {})
   \cup (IF \E b \in DOMAIN s.cseq : t.cseq[b] < s.cseq[b] THEN {"check-sequence-decreased"} ELSE {})

CommitBroken(s, t) == IF t.seq = s.seq THEN {} ELSE {"commit-changed-sequence"}

\* Something else than a transaction of account a re-writes a's account object (a third party
\* converts it into a vesting account, merges a grant, changes the funder, claws back, ...):
\* a signed transaction executes at most once over ALL histories, so no such event may move
\* anybody's sequence except by the one transaction of the event's own signer.
EventBroken(e, s, t) ==
        (IF \E b \in DOMAIN s.seq : t.seq[b] < s.seq[b] THEN {"sequence-decreased"} ELSE {})
   \cup (IF \E b \in DOMAIN s.seq \ {e.by} : t.seq[b] # s.seq[b] THEN {"event-moved-sequence"} ELSE {})
   \cup (IF e.by \in DOMAIN s.seq /\ t.seq[e.by] \notin {s.seq[e.by], s.seq[e.by] + 1}
         THEN {"event-moved-sequence"} ELSE {})

Broken(e, s, t, executed) ==
    CASE e.ev = "commit" -> CommitBroken(s, t)
      [] e.ev = "event" -> EventBroken(e, s, t)
      [] e.ev = "submit" /\ e.mode = "deliver" -> DeliverBroken(e, s, t, executed)
      [] e.ev = "submit" /\ e.mode = "check" -> CheckBroken(e, s, t)
      [] OTHER -> {}

StepOK(e, s, t, executed) == Broken(e, s, t, executed) = {}

\* how the nonce of a submission relates to the state (names the class of a step)
NonceClass(tx, s, executed) ==
    IF tx.nonce = s.seq[tx.signer] THEN "valid"
    ELSE IF tx.nonce > s.seq[tx.signer] THEN "gap"
    ELSE IF ExecIds(tx) \cap executed # {} THEN "duplicate" ELSE "stale"

\* state invariants over (state, ghost)
Inv_ExecutedBelowSeq(s, executed, txOf) ==
    \A id \in executed : txOf[id].nonce + Adv(txOf[id]) <= s.seq[txOf[id].signer]

---------------------------------------------------------------------------
(* M: the as-built machine *)

VARIABLES st, hist, executed, twice, nblocks
vars == <<st, hist, executed, twice, nblocks>>

QualSig(q) == IF q \in {"good", "overdraft"} THEN "good" ELSE "bad"

\* qpos: which message of an Ethereum batch carries the flaw q (the others are valid)
MkTxP(a, n, r, q, m, p) ==
    [id |-> a \o ":" \o ToString(n) \o ":" \o r \o ":" \o q \o ":" \o ToString(m) \o ":" \o ToString(p),
     signer |-> a, rcpt |-> "r", amount |-> "1", nonce |-> n, nm |-> m, route |-> r, q |-> q, qpos |-> p]
MkTx(a, n, r, q, m) == MkTxP(a, n, r, q, m, 1)

Pool == {MkTx(a, n, r, q, 1) : a \in Signers, n \in Nonces, r \in Routes, q \in Quals}

Init ==
    /\ st = [seq |-> [a \in Signers |-> 0], cseq |-> [a \in Signers |-> 0]]
    /\ hist = <<>> /\ executed = {} /\ twice = {} /\ nblocks = 0

\* the ante chain on a state whose sequence of the signer is `cur`
\*   signature / chain id: EthSigVerificationDecorator, SigVerificationDecorator, LegacyEip712...
\*   nonce: EthIncrementSenderSequenceDecorator (per message), SigVerification (per tx)
AnteOK(tx, cur) ==
    /\ (tx.q \notin {"badsig"} \/ "sig_not_checked" \in Defects)
    /\ (tx.q \notin {"foreign", "unprotected"} \/ "chain_not_checked" \in Defects)
    /\ (tx.nonce = cur \/ "nonce_not_checked" \in Defects)
AnteSeq(tx, cur) == IF "no_increment" \in Defects THEN cur ELSE cur + Adv(tx)

\* outcome [ok, post] of one event in state s
MResult(s, ev, args) ==
    CASE ev = "commit" -> [ok |-> TRUE, post |-> [s EXCEPT !.cseq = s.seq]]
      \* x/vesting messages that re-write the account object of args.target; only "back"
      \* (MsgConvertVestingAccount) is signed by the account itself; the ante chain consumes one
      \* sequence number of the signer args.by, the message touches nobody's sequence
      [] ev = "event" ->
           [ok |-> TRUE, post |->
              IF "rewrite_resets_sequence" \in Defects /\ args.kind \in {"convert", "touch"}
              THEN [s EXCEPT !.seq[args.target] = 0]
              ELSE IF args.by \in DOMAIN s.seq THEN [s EXCEPT !.seq[args.by] = @ + 1] ELSE s]
      [] ev = "submit" /\ args.mode = "deliver" ->
           LET tx == args.tx  a == tx.signer IN
           IF ~AnteOK(tx, s.seq[a]) THEN [ok |-> FALSE, post |-> s]
           ELSE IF tx.q = "overdraft"
                \* Ethereum: CanTransferDecorator rejects in the ante chain (nothing written);
                \* Cosmos: the ante chain passes (fee, sequence) and the message fails
                THEN [ok |-> FALSE, post |-> IF IsEth(tx.route) THEN s
                                             ELSE [s EXCEPT !.seq[a] = AnteSeq(tx, @)]]
                ELSE [ok |-> TRUE, post |-> [s EXCEPT !.seq[a] = AnteSeq(tx, @)]]
      [] ev = "submit" /\ args.mode = "check" ->
           LET tx == args.tx  a == tx.signer IN
           IF ~AnteOK(tx, s.cseq[a]) \/ (tx.q = "overdraft" /\ IsEth(tx.route))
           THEN [ok |-> FALSE, post |-> s]
           ELSE [ok |-> TRUE, post |->
                   IF "check_leaks" \in Defects
                   THEN [s EXCEPT !.cseq[a] = AnteSeq(tx, @), !.seq[a] = AnteSeq(tx, @)]
                   ELSE [s EXCEPT !.cseq[a] = AnteSeq(tx, @)]]

Do(ev, args) ==
    LET r == MResult(st, ev, args)
        e == IF ev = "commit" THEN [ev |-> ev, ok |-> TRUE]
             ELSE IF ev = "event" THEN [ev |-> ev, kind |-> args.kind, target |-> args.target,
                                        by |-> args.by, ok |-> TRUE]
             ELSE [ev |-> ev, mode |-> args.mode, tx |-> args.tx, sig |-> QualSig(args.tx.q), ok |-> r.ok]
        exec == ev = "submit" /\ args.mode = "deliver" /\ r.ok
    IN /\ st' = r.post
       /\ hist' = Append(hist, e)
       /\ executed' = IF exec THEN executed \cup {args.tx.id} ELSE executed
       /\ twice' = IF exec /\ args.tx.id \in executed THEN twice \cup {args.tx.id} ELSE twice
       /\ nblocks' = IF ev = "commit" THEN nblocks + 1 ELSE nblocks

Submit(tx, mode) == Do("submit", [mode |-> mode, tx |-> tx])
Commit == nblocks < MaxBlocks /\ Do("commit", [x |-> 0])
Event(k, a) == Do("event", [kind |-> k, target |-> a, by |-> IF k = "back" THEN a ELSE "g"])
NEvents == Cardinality({i \in DOMAIN hist : hist[i].ev = "event"})

NSub == Cardinality({i \in DOMAIN hist : hist[i].ev = "submit"})

Next ==
    \/ (NSub < MaxSub /\ \E tx \in Pool, mode \in {"check", "deliver"} : Submit(tx, mode))
    \/ (NSub > 0 /\ hist[Len(hist)].ev # "commit" /\ Commit)
    \/ (NSub > 0 /\ NEvents < MaxEvents /\ \E k \in {"convert", "back", "touch"}, a \in Signers : Event(k, a))

Spec == Init /\ [][Next]_vars

---------------------------------------------------------------------------
(* what the exhaustive configurations check *)

Last == hist'[Len(hist')]

\* every step of the machine is a step P allows
MStep_P == [][hist' # hist => StepOK(Last, st, st', executed)]_vars
\* no transaction id is executed twice
MInv_Once == twice = {}
\* an executed transaction's sequence numbers lie below the signer's sequence; at most one
\* executed transaction per (signer, nonce)
MInv_Executed ==
    /\ \A tx \in Pool : tx.id \in executed => tx.nonce + Adv(tx) <= st.seq[tx.signer]
    /\ \A t1 \in Pool, t2 \in Pool :
          (t1.id \in executed /\ t2.id \in executed /\ t1.signer = t2.signer /\ t1.nonce = t2.nonce) => t1 = t2
\* sequences never decrease
MStep_Monotone == [][\A a \in Signers : st'.seq[a] >= st.seq[a]]_vars

View == <<st, executed, twice, nblocks, NSub, NEvents, IF hist = <<>> THEN "-" ELSE hist[Len(hist)].ev>>

---------------------------------------------------------------------------
(* behaviours as scripts for harness/signonce.go (-simulate) *)

SimSigners == {"s1", "s2"}
Pick(S, h) == RandomElement(S)

\* mostly the signer's next nonce, sometimes a replayed, stale or future one
SimNonce(a, h) ==
    LET cur == st.seq[a]  r == Pick(1..10, h) IN
    IF r <= 5 THEN cur
    ELSE IF r <= 7 THEN (IF cur > 0 THEN Pick(0..(cur - 1), h) ELSE cur)
    ELSE IF r = 8 THEN st.cseq[a]
    ELSE cur + Pick(1..2, h)

SimQual(h) == LET r == Pick(1..12, h) IN
              IF r <= 8 THEN "good" ELSE IF r = 9 THEN "badsig" ELSE IF r = 10 THEN "foreign"
              ELSE IF r = 11 THEN "overdraft" ELSE "good"

\* a transaction submitted before (replay of the very same bytes), when there is one
Earlier(h) == {hist[i].tx : i \in {j \in DOMAIN hist : hist[j].ev = "submit"}}

SimTx(h) ==
    IF Earlier(h) # {} /\ Pick(1..4, h) = 1 THEN Pick(Earlier(h), h)
    ELSE LET a == Pick(SimSigners, h)
             r == Pick(AllRoutes, h)
             m == IF IsEth(r) /\ Pick(1..4, h) = 1 THEN Pick(2..3, h) ELSE 1
             q0 == SimQual(h)
             \* a pre-EIP-155 signature exists for legacy transactions only
             q == IF q0 = "foreign" /\ r = "eth-legacy" /\ Pick(1..2, h) = 1 THEN "unprotected" ELSE q0
         IN MkTxP(a, SimNonce(a, h), r, q, m, Pick(1..m, h))

SimInit ==
    /\ st = [seq |-> [a \in SimSigners |-> 0], cseq |-> [a \in SimSigners |-> 0]]
    /\ hist = <<>> /\ executed = {} /\ twice = {} /\ nblocks = 0

\* an event that fits what the scripts did to the account so far (the harness tries it anyway)
IsVesting(a, h) ==
    LET evs == {i \in DOMAIN hist : hist[i].ev = "event" /\ hist[i].target = a /\ hist[i].kind # "touch"} IN
    evs # {} /\ hist[CHOOSE i \in evs : \A j \in evs : j <= i].kind # "back"
SimEvent(h) ==
    LET a == Pick(SimSigners, h) IN
    IF Pick(1..3, h) = 1 THEN [kind |-> "touch", target |-> a]
    ELSE IF IsVesting(a, h) THEN [kind |-> Pick({"merge", "funder", "clawback", "back", "back"}, h), target |-> a]
    ELSE [kind |-> "convert", target |-> a]

SimNext ==
    /\ Len(hist) < MaxLen
    /\ \/ \E tx \in {SimTx(hist)} : Submit(tx, "deliver")
       \/ (Len(hist) > 1 /\ Pick(1..2, hist) = 1 /\ \E ev \in {SimEvent(hist)} : Event(ev.kind, ev.target))
       \/ \E tx \in {SimTx(hist)} : Submit(tx, "deliver")
       \/ \E tx \in {SimTx(hist)} : Submit(tx, "check")
       \/ (hist # <<>> /\ hist[Len(hist)].ev # "commit" /\ Do("commit", [x |-> 0]))

Emit == Len(hist) = MaxLen /\ PrintT(<<"SCRIPT", ToJson(hist)>>) /\ UNCHANGED vars
SimSpec == SimInit /\ [][SimNext \/ Emit]_vars

---------------------------------------------------------------------------
(* PART 2: the mutation matrix                                              *)
(* A case takes a VALID signed transaction of the route and applies ONE     *)
(* change without signing again.  For the Ethereum routes a change of a     *)
(* field of the signed payload is applied the way an attacker would: the    *)
(* derived, unsigned fields (MsgEthereumTx.Hash, fee and gas of the Cosmos  *)
(* envelope) are recomputed, so only the signature stands in the way.       *)

Cs(routes, field, muts) == {[route |-> r, field |-> field, mut |-> m] : r \in routes, m \in muts}

EthTyped   == {"eth-accesslist", "eth-dynamicfee"}
EthPriced  == {"eth-legacy", "eth-accesslist"}
SdkRoutes  == CosmosRoutes \cup Eip712Routes       \* Cosmos transactions, however signed
LegacyE712 == {"eip712"}

EthCases ==
    \* the signed payload
         Cs(EthRoutes, "nonce", {"+1", "-1", "big"})
    \cup Cs(EthPriced, "gasPrice", {"+1", "-1", "x2"})
    \cup Cs({"eth-dynamicfee"}, "tipCap", {"+1", "zero"})
    \cup Cs({"eth-dynamicfee"}, "feeCap", {"+1", "x2"})
    \cup Cs(EthRoutes, "gas", {"+1", "-1", "x2"})
    \cup Cs(EthRoutes, "to", {"attacker", "victim", "create"})
    \cup Cs(EthRoutes, "value", {"+1", "-1", "x2", "zero"})
    \cup Cs(EthRoutes, "data", {"append", "flip", "drop"})
    \cup Cs(EthTyped, "accessList", {"add", "drop", "change"})
    \cup Cs(EthRoutes, "chainId", {"1", "11234", "11236", "54211"})
    \* the signature material
    \cup Cs(EthRoutes, "v", {"flip", "+27", "big"})
    \cup Cs(EthRoutes, "r", {"flip", "zero"})
    \cup Cs(EthRoutes, "s", {"flip", "zero", "malleate"})
    \cup Cs(EthRoutes, "vrs", {"other-signer"})
    \* a complete, valid signature of the key holder made for another chain id
    \cup Cs(EthRoutes, "signedFor", {"chain-1", "chain-11234", "chain-11236", "chain-54211"})
    \cup Cs({"eth-legacy"}, "signedFor", {"unprotected"})
    \* fields outside the signed payload
    \cup Cs(EthRoutes, "From", {"victim", "self"})
    \cup Cs(EthRoutes, "Hash", {"zero", "other", "empty"})
    \cup Cs(EthRoutes, "Size", {"nonzero"})
    \cup Cs(EthRoutes, "envFeeAmount", {"+1", "zero", "x2"})
    \cup Cs(EthRoutes, "envGasLimit", {"+1", "zero"})
    \cup Cs(EthRoutes, "envFeePayer", {"victim"})
    \cup Cs(EthRoutes, "envFeeGranter", {"granter"})
    \cup Cs(EthRoutes, "envMemo", {"set"})
    \cup Cs(EthRoutes, "envTimeoutHeight", {"set"})
    \cup Cs(EthRoutes, "envSignatures", {"add"})
    \cup Cs(EthRoutes, "envSignerInfos", {"add"})
    \cup Cs(EthRoutes, "envExtensionOptions", {"drop", "dup", "to-web3", "to-dynfee"})
    \cup Cs(EthRoutes, "envNonCriticalExtensionOptions", {"add"})
    \* the signed message a second time in the same envelope
    \cup Cs(EthRoutes, "msgs", {"duplicate"})

SdkCases ==
    \* body
         Cs(SdkRoutes, "msgAmount", {"+1", "x2"})
    \cup Cs(SdkRoutes, "msgTo", {"attacker"})
    \cup Cs(SdkRoutes, "msgFrom", {"victim"})
    \cup Cs(SdkRoutes, "msgs", {"append", "drop", "duplicate"})
    \cup Cs(SdkRoutes, "memo", {"change", "clear"})
    \cup Cs(SdkRoutes, "timeoutHeight", {"set"})
    \cup Cs(SdkRoutes, "extensionOptions", {"add-dynfee", "add-web3"})
    \cup Cs(SdkRoutes, "nonCriticalExtensionOptions", {"add"})
    \* auth info
    \cup Cs(SdkRoutes, "feeAmount", {"+1", "-1", "x2"})
    \cup Cs(SdkRoutes, "gasLimit", {"+1", "-1"})
    \cup Cs(SdkRoutes, "feePayer", {"victim", "self"})
    \cup Cs(SdkRoutes, "feeGranter", {"granter", "victim"})
    \cup Cs(SdkRoutes, "tip", {"set"})
    \cup Cs(SdkRoutes, "sequence", {"+1", "-1"})
    \cup Cs(SdkRoutes, "signMode", {"switch"})
    \cup Cs(SdkRoutes, "pubKey", {"attacker", "victim", "drop"})
    \cup Cs(SdkRoutes, "signerInfos", {"add"})
    \* signatures
    \cup Cs(SdkRoutes \ LegacyE712, "signature", {"flip", "empty", "other-signer", "truncate", "toggle-v", "malleate"})
    \cup Cs(LegacyE712, "signature", {"nonempty"})
    \cup Cs(SdkRoutes, "signatures", {"add", "drop"})
    \* complete valid signatures over a different sign doc
    \cup Cs(SdkRoutes, "signedFor", {"haqq_11235-2", "haqq_11236-1", "haqq_54211-1", "cosmoshub-4"})
    \cup Cs(SdkRoutes, "accountNumber", {"+1"})
    \* the Web3Tx extension of the legacy EIP-712 route
    \cup Cs(LegacyE712, "typedDataChainID", {"1", "11234", "11236"})
    \cup Cs(LegacyE712, "signedFor", {"typed-1", "typed-11236"})
    \cup Cs(LegacyE712, "web3FeePayer", {"victim", "attacker", "empty"})
    \cup Cs(LegacyE712, "web3FeePayerSig", {"flip", "empty", "other-signer", "truncate", "v-27"})

\* Ethereum BATCHES: one envelope with 2-3 messages of which exactly one is not authorised, in
\* every position, all messages of one sender ("same") or the offending one of another sender
\* than the rest ("diff").  mut = <offence>@<position>/<size>:<mix>; route = type of the offending
\* message.  Offences: a pre-EIP-155 signature, a signature for another chain id, the very bytes
\* of an already executed message, a stale nonce, a nonce gap, a corrupted signature, From naming
\* somebody else.  The repaired batch (offending message replaced by a valid one) is delivered
\* afterwards and must be acceptable.
BatchOffences(r) == {"foreign", "replay", "stale", "gap", "badsig", "from-other"}
                    \cup (IF r = "eth-legacy" THEN {"unprotected"} ELSE {})
BatchShapes == {<<1, 2>>, <<2, 2>>, <<1, 3>>, <<2, 3>>, <<3, 3>>}
BatchMut(o, sh, mix) == o \o "@" \o ToString(sh[1]) \o "/" \o ToString(sh[2]) \o ":" \o mix
BatchCases == UNION {{[route |-> r, field |-> "batch", mut |-> BatchMut(o, sh, mix)] :
                         o \in BatchOffences(r), sh \in BatchShapes, mix \in {"same", "diff"}} : r \in EthRoutes}

\* Batches of ONE sender in which every message is authorised but one of them fails INSIDE the
\* virtual machine (a call that reverts, a call that runs out of gas) or is a contract creation
\* (the state transition manages the sender nonce itself there).  The transaction is accepted;
\* the account nonce must end at initial + number of messages, and afterwards every message,
\* wrapped again alone, must be rejected (mut = <kind>@<position>/<size>).
VmKinds == {"revert", "oog", "create"}
VmMut(k, sh) == k \o "@" \o ToString(sh[1]) \o "/" \o ToString(sh[2])
VmCases == {[route |-> r, field |-> "batch", mut |-> VmMut(k, sh)] : r \in EthRoutes, k \in VmKinds, sh \in BatchShapes}
CreateMuts == {VmMut("create", sh) : sh \in BatchShapes}

Cases == EthCases \cup SdkCases \cup BatchCases \cup VmCases

EnvelopeFields == {"From", "Hash", "Size", "envFeeAmount", "envGasLimit", "envFeePayer", "envFeeGranter", "envMemo",
                   "envTimeoutHeight", "envSignatures", "envSignerInfos", "envExtensionOptions",
                   "envNonCriticalExtensionOptions"}
SigFields == {"v", "r", "s", "vrs", "signature", "signatures", "web3FeePayerSig", "signMode"}

\* what the statement demands of a case
ClassOf(c) ==
    IF c.field = "signedFor" THEN "foreign"
    ELSE IF c \in VmCases THEN "vm"
    ELSE IF c.field = "batch" THEN "batch"
    ELSE IF c.field = "msgs" /\ c.mut = "duplicate" THEN "replay"
    ELSE IF c.field \in EnvelopeFields THEN "envelope"
    \* the same valid signature in another encoding (high-s twin, appended recovery byte,
    \* recovery byte without the +27 offset)
    ELSE IF c.field \in {"s", "signature"} /\ c.mut \in {"malleate", "toggle-v"} THEN "equiv"
    ELSE IF c.field = "web3FeePayerSig" /\ c.mut = "v-27" THEN "equiv"
    \* legacy EIP-712: the Cosmos signature field is outside what is signed
    ELSE IF c.field = "signature" /\ c.mut = "nonempty" THEN "envelope"
    \* an EIP-712 signature is defined over the amino-JSON sign doc whatever the declared sign
    \* mode: the mode is not part of what is signed, the effect is the same
    ELSE IF c.field = "signMode" /\ c.route = "eip712-direct" THEN "equiv"
    ELSE IF c.field \in SigFields THEN "sig"
    \* non-critical extension options are not part of the amino-JSON sign doc (which the
    \* EIP-712 routes sign too) and nothing on this chain reads them
    ELSE IF c.field = "nonCriticalExtensionOptions" /\ c.route # "cosmos-direct" THEN "envelope"
    \* naming the signer itself as fee payer does not change who pays
    ELSE IF c.field = "feePayer" /\ c.mut = "self" THEN "equiv"
    \* the public key is not part of the amino-JSON / EIP-712 sign doc; omitting it makes the
    \* chain use the key stored on the account
    ELSE IF c.field = "pubKey" /\ c.mut = "drop" /\ c.route # "cosmos-direct" THEN "envelope"
    \* the statement lists content, chain id and sequence; the account number is extra
    ELSE IF c.field = "accountNumber" THEN "equiv"
    ELSE "signed"

MustReject == {"signed", "sig", "foreign", "replay", "batch"}
SigOfClass(cl) == IF cl \in MustReject THEN "bad" ELSE IF cl = "vm" THEN "good" ELSE "may"

\* depth-1 machine: TLC enumerates the matrix and prints every case for the harness
MatrixNext ==
    /\ hist = <<>>
    /\ \/ \E c \in Cases :
            /\ hist' = <<c>>
            /\ PrintT(<<"CASE", ToJson([route |-> c.route, field |-> c.field, mut |-> c.mut, class |-> ClassOf(c)])>>)
       \/ \E w \in Worlds :
            /\ hist' = <<w>>
            /\ PrintT(<<"WORLD", ToJson(w)>>)
    /\ UNCHANGED <<st, executed, twice, nblocks>>
MatrixSpec == Init /\ [][MatrixNext]_vars

\* model values for the configurations
MC_Nonces == 0..2
=============================================================================
