SPECIFICATION TraceSpec
CONSTANTS
  Defects = {"stale_overwrite", "no_cosmos_revert"}
INVARIANT Report
CHECK_DEADLOCK FALSE
