SPECIFICATION Spec
CONSTANTS
  Holders = {"a1","a2"}
  Amts = {"1","2"}
  InitBal = "3"
  MaxLen = 4
  Scenarios <- MC_RefuseOnly
  Defects = {"wrapper_false_is_success"}
INVARIANT MInv_Strict
PROPERTY MStep_P
VIEW View
CHECK_DEADLOCK FALSE
