SPECIFICATION TraceSpec
CONSTANTS
  Accts = {}
  Denoms = {}
  BadDenoms = {"bad"}
  Amts = {}
  Ratios = {}
  InitBank = "0"
  MaxLen = 0
  Defects = {}
  Foreign = {}
  BankAmts = {}
INVARIANT Report
CHECK_DEADLOCK FALSE
