---------------------------- MODULE PrecompileEq ----------------------------
(***************************************************************************)
(* C16: a precompile call by the account owner has exactly the effect of    *)
(* the native message, and succeeds or fails in the same cases; read-only   *)
(* methods report what the native queries report.                           *)
(*                                                                         *)
(* The specification does not re-model the SDK's staking validity rules:    *)
(* the native message executed on a fork of the same real state IS the       *)
(* reference.  What the specification contributes is (i) the case space -    *)
(* state kind x method x validator class x amount class - enumerated         *)
(* exhaustively by TLC and (ii) the comparator and classification below,     *)
(* evaluated by TLC on every recorded pair of executions.                    *)
(***************************************************************************)
EXTENDS Integers, Sequences, FiniteSets, TLC, Json

VARIABLES picked
vars == <<picked>>

\* "slashed": like base, but the validator was slashed while S is unbonding from it, S holds liquid tokens
\* (a registered coin/token pair) and an unregistered denomination
\* "operatorWd": a validator operator whose withdraw address is another account; "vesting": S is a clawback vesting
\* account (unvested coins on top of its free balance)
States  == {"base", "wdOther", "noDeleg", "operator", "slashed", "operatorWd", "vesting"}
ValsC   == {"V1", "V2", "unknown", "badbech32"}
SpendAmts == {"0", "1", "small", "eqDeleg", "gtDeleg", "eqBal", "gtBal", "2^255", "max"}

Case(st, m, v, a, h) == [state |-> st, m |-> m, val |-> v, amt |-> a, height |-> h, to |-> "T"]

Cases ==
    {Case(st, m, v, a, "ok") : st \in States \ {"operator", "operatorWd", "vesting"}, m \in {"delegate", "undelegate", "redelegate"}, v \in ValsC, a \in SpendAmts}
    \* a vesting account may bond its free and vested coins only: amounts around that bound, by delegation and by creating a validator
    \cup {Case("vesting", m, "V1", a, "ok") : m \in {"delegate", "createValidator"}, a \in {"1", "small", "eqFree", "gtFree", "eqBal", "gtBal"}}
    \cup {Case(st, "createValidator", "V1", a, "ok") : st \in {"base", "noDeleg", "operator"}, a \in {"0", "1", "small", "eqBal", "gtBal", "2^255"}}
    \cup {Case(st, "cancelUnbonding", v, a, h) : st \in {"base", "wdOther", "slashed"}, v \in {"V1", "V2", "unknown"},
                                                  a \in {"0", "1", "ubd", "small", "2^255"}, h \in {"ok", "wrong"}}
    \cup {Case(st, "withdrawRewards", v, "0", "ok") : st \in States, v \in ValsC}
    \cup {Case(st, "ibcTransfer", "V1", a, "ok") : st \in {"base", "wdOther", "slashed"}, a \in {"0", "1", "small", "eqBal", "gtBal", "2^255"}}
    \cup {Case(st, m, "V1", "0", "ok") : st \in States, m \in {"claimRewards", "setWithdrawAddress", "withdrawCommission"}}
    \* resetting the withdraw address to the delegator itself
    \cup {[Case(st, "setWithdrawAddress", "V1", "0", "ok") EXCEPT !.to = "self"] : st \in States}

None == [tag |-> "none"]
Init == picked = None
Next == picked = None /\ \E c \in Cases : picked' = [tag |-> "case", c |-> c] /\ PrintT(<<"SCRIPT", ToJson(c)>>)
Spec == Init /\ [][Next]_vars

\* sanity of the case space itself (checked exhaustively): every method of the statement occurs
\* with a valid and an invalid validator, with amounts below, at and above the relevant bound
Methods == {"delegate", "undelegate", "redelegate", "cancelUnbonding", "withdrawRewards", "claimRewards", "setWithdrawAddress", "withdrawCommission", "ibcTransfer", "createValidator"}
ASSUME \A m \in Methods : \E c \in Cases : c.m = m
ASSUME \A m \in {"delegate", "undelegate", "redelegate"} : \A a \in SpendAmts, v \in ValsC : \E c \in Cases : c.m = m /\ c.amt = a /\ c.val = v

---------------------------------------------------------------------------
(* comparator *)
\* the fields of the projected state the statement lists (balances apart from gas: the
\* precompile is executed with a zero gas price, so balances are compared exactly)
Compared == {"bank", "mods", "supply", "deleg", "ubd", "rewards", "wd", "commission", "grants"}
DiffFields(a, b) == {f \in Compared : a[f] # b[f]}
FieldOrder == <<"deleg", "ubd", "wd", "rewards", "commission", "grants", "supply", "bank", "mods">>
FirstField(diff) == LET idx == {i \in 1..Len(FieldOrder) : FieldOrder[i] \in diff} IN
                    IF idx = {} THEN "other" ELSE FieldOrder[CHOOSE i \in idx : \A j \in idx : i <= j]
CaseClass(c) == c.m \o "|state=" \o c.state \o ",val=" \o c.val \o ",amt=" \o c.amt \o (IF c.m = "cancelUnbonding" THEN ",height=" \o c.height ELSE "")
                    \o (IF c.m = "setWithdrawAddress" /\ c.to # "T" THEN ",to=" \o c.to ELSE "")
=============================================================================
