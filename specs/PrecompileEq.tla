---------------------------- MODULE PrecompileEq ----------------------------
(***************************************************************************)
(* C16: a precompile call by the account owner has exactly the effect of    *)
(* the native message, and succeeds or fails in the same cases; read-only   *)
(* methods report what the native queries report.                           *)
(*                                                                         *)
(* The specification does not re-model the SDK's staking validity rules:    *)
(* the native message executed on a fork of the same real state IS the       *)
(* reference.  What the specification contributes is                        *)
(*  (i)   the case space - state kind x method x ARGUMENT VECTOR (every      *)
(*        argument of the method is a dimension: validator class, amount     *)
(*        class, creation height, destination validator, and for ICS-20 the  *)
(*        two timeouts, memo, receiver, port/channel and denomination) -     *)
(*        enumerated exhaustively by TLC;                                    *)
(*  (ii)  the space of page requests of the paginated read-only methods      *)
(*        (selector x limit x countTotal x reverse x continuation by key or   *)
(*        by offset): P for a read-only method is stated on the PROTOCOL,     *)
(*        not on one answer - every page of the walk that follows the        *)
(*        precompile's own continuation equals the page of the native walk;  *)
(*  (iii) the comparator and classification below, evaluated by TLC on       *)
(*        every recorded pair of executions.                                 *)
(***************************************************************************)
EXTENDS Integers, Sequences, FiniteSets, TLC, Json

VARIABLES picked
vars == <<picked>>

\* "slashed": like base, but the validator was slashed while S is unbonding from it, S holds liquid tokens
\* (a registered coin/token pair) and an unregistered denomination
\* "operatorWd": a validator operator whose withdraw address is another account; "vesting": S is a clawback vesting
\* account (unvested coins on top of its free balance)
\* Validator life cycle (the target validator V2 is not an ordinary bonded validator with tokens):
\*   "v2Empty"        every delegation to V2 was withdrawn: 0 tokens, 0 shares, UNBONDING (still in the store)
\*   "v2EmptyBonded"  the same within the block in which the last delegation left (V2 still BONDED)
\*   "v2Jailed"       V2 was jailed for downtime (slashed, UNBONDING, jailed), S still delegates to it
\*   "v2Unbonding"    V2 fell out of the active set (three stronger validators were created): UNBONDING, not jailed
\*   "v2Unbonded"     the same after the unbonding period: UNBONDED
\* "rich": S has redelegations between several pairs (one pair with two entries), T has one from the same source,
\*   V2 was slashed twice (downtime, then double sign), S holds IBC vouchers (one received over channel-0, one over
\*   another channel) - the state in which every paginated query has several pages
BaseStates == {"base", "wdOther", "noDeleg", "operator", "slashed", "operatorWd", "vesting"}
ValStates  == {"v2Empty", "v2EmptyBonded", "v2Jailed", "v2Unbonding", "v2Unbonded"}
States  == BaseStates \cup ValStates \cup {"rich"}
ValsC   == {"V1", "V2", "unknown", "badbech32"}
SpendAmts == {"0", "1", "small", "eqDeleg", "gtDeleg", "eqBal", "gtBal", "2^255", "max"}

\* ICS-20 transfer arguments.  Timeouts: a packet carries a timeout height AND a timeout timestamp, each may be
\* absent (0), in the future or already elapsed on the receiving side; ibc-go checks them independently.
Timeouts == {"none", "height", "heightPast", "ts", "tsPast", "both", "bothTsPast", "bothHeightPast"}
Memos    == {"none", "text"}
Rcvs     == {"ok", "empty", "long"}
\* "ok" transfer/channel-0, "chan1" the other open channel, "noChannel" a channel that does not exist, "noPort" a port
\* that does not exist, "badId" a malformed channel identifier
Chans    == {"ok", "chan1", "noChannel", "noPort", "badId"}
\* "native" the staking denomination, "other" another denomination S holds, "unheld" a denomination S does not hold,
\* "voucher" an IBC voucher that came in over the same channel (burned on the way back), "voucherFwd" a voucher that came
\* in over another channel (escrowed), "invalid" a malformed denomination
Denoms   == {"native", "other", "unheld", "voucher", "voucherFwd", "invalid"}
\* redelegate: destination validator
Dsts     == {"V3", "same", "V1", "unknown", "badbech32"}

Case(st, m, v, a, h) == [state |-> st, m |-> m, val |-> v, amt |-> a, height |-> h, to |-> "T", dst |-> "V3",
                         tmo |-> "height", memo |-> "none", rcv |-> "ok", chan |-> "ok", denom |-> "native"]
Ics(st, a, t, me, r, ch, d) == [Case(st, "ibcTransfer", "V1", a, "ok") EXCEPT !.tmo = t, !.memo = me, !.rcv = r, !.chan = ch, !.denom = d]

Cases ==
    {Case(st, m, v, a, "ok") : st \in States \ {"operator", "operatorWd", "vesting"}, m \in {"delegate", "undelegate", "redelegate"}, v \in ValsC, a \in SpendAmts}
    \* a vesting account may bond its free and vested coins only: amounts around that bound, by delegation and by creating a validator
    \cup {Case("vesting", m, "V1", a, "ok") : m \in {"delegate", "createValidator"}, a \in {"1", "small", "eqFree", "gtFree", "eqBal", "gtBal"}}
    \cup {Case(st, "createValidator", "V1", a, "ok") : st \in {"base", "noDeleg", "operator"}, a \in {"0", "1", "small", "eqBal", "gtBal", "2^255"}}
    \cup {Case(st, "cancelUnbonding", v, a, h) : st \in {"base", "wdOther", "slashed", "v2Jailed", "v2Unbonding", "rich"}, v \in {"V1", "V2", "unknown"},
                                                  a \in {"0", "1", "ubd", "small", "2^255"}, h \in {"ok", "wrong"}}
    \cup {Case(st, "withdrawRewards", v, "0", "ok") : st \in States, v \in ValsC}
    \* ICS-20: every amount class with every combination of the two timeouts ...
    \cup {Ics(st, a, t, "none", "ok", "ok", "native") : st \in {"base", "wdOther", "slashed"}, a \in {"0", "1", "small", "eqBal", "gtBal", "2^255"}, t \in Timeouts}
    \* ... and the full product of the remaining arguments with the timeouts that matter, in the state that holds every denomination
    \cup {Ics("rich", a, t, me, r, ch, d) : a \in {"small", "eqBal", "gtBal"}, t \in {"height", "ts", "both", "bothTsPast", "bothHeightPast"},
                                            me \in Memos, r \in Rcvs, ch \in Chans, d \in Denoms}
    \cup {Case(st, m, "V1", "0", "ok") : st \in States, m \in {"claimRewards", "setWithdrawAddress", "withdrawCommission"}}
    \* resetting the withdraw address to the delegator itself
    \cup {[Case(st, "setWithdrawAddress", "V1", "0", "ok") EXCEPT !.to = "self"] : st \in States}
    \* redelegate: the destination is an argument too
    \cup {[Case(st, "redelegate", v, a, "ok") EXCEPT !.dst = d] : st \in {"base", "v2Empty", "v2Jailed", "v2Unbonding", "v2Unbonded", "rich"}, v \in {"V1", "V2"},
                                                                   a \in {"small", "eqDeleg"}, d \in Dsts}

---------------------------------------------------------------------------
(* paginated read-only methods: the space of walks *)
\* A walk asks for the first page with (limit, countTotal, reverse) and then either follows the continuation key
\* the callee returned until none is returned ("key"), or advances the offset by the limit until a page comes back
\* empty ("offset").  limit "0" is the default page size.  Selectors:
\*   validators:        the status filter
\*   redelegations:     by delegator / by source validator / delegator and source / one exact pair / nothing (invalid)
\*   validatorSlashes:  the validator (all heights) - the one paginated method of the distribution precompile
Walk(q, sel, lim, ct, rev, mode) == [q |-> q, sel |-> sel, limit |-> lim, countTotal |-> ct, reverse |-> rev, mode |-> mode]
Selectors == [validators       |-> {"all", "BOND_STATUS_BONDED", "BOND_STATUS_UNBONDING", "BOND_STATUS_UNBONDED", "bogus"},
              redelegations    |-> {"del", "src:V1", "src:V2", "delSrc:V1", "exact:V1>V3", "none"},
              validatorSlashes |-> {"V1", "V2", "unknown"}]
Paginated == DOMAIN Selectors
AllSelectors == UNION {Selectors[x] : x \in Paginated}
Walks == {w \in [q : Paginated, sel : AllSelectors, limit : {"0", "1", "2"}, countTotal : BOOLEAN, reverse : BOOLEAN, mode : {"key", "offset"}] :
            w.sel \in Selectors[w.q] /\ (w.limit = "0" => w.mode = "key")}

None == [tag |-> "none"]
Init == picked = None
Next == picked = None /\ (\/ \E c \in Cases : picked' = [tag |-> "case", c |-> c] /\ PrintT(<<"SCRIPT", ToJson(c)>>)
                          \/ \E w \in Walks : picked' = [tag |-> "walk", w |-> w] /\ PrintT(<<"WALK", ToJson(w)>>))
Spec == Init /\ [][Next]_vars

\* sanity of the case space itself (checked exhaustively): every method of the statement occurs
\* with a valid and an invalid validator, with amounts below, at and above the relevant bound
Methods == {"delegate", "undelegate", "redelegate", "cancelUnbonding", "withdrawRewards", "claimRewards", "setWithdrawAddress", "withdrawCommission", "ibcTransfer", "createValidator"}
ASSUME \A m \in Methods : \E c \in Cases : c.m = m
ASSUME \A m \in {"delegate", "undelegate", "redelegate"} : \A a \in SpendAmts, v \in ValsC : \E c \in Cases : c.m = m /\ c.amt = a /\ c.val = v
\* every state-changing staking method meets every kind of validator
ASSUME \A m \in {"delegate", "undelegate", "redelegate"}, st \in ValStates : \E c \in Cases : c.m = m /\ c.state = st /\ c.val = "V2"
\* every value of every ICS-20 argument occurs, and every pair of values of two different arguments occurs together
IcsArgs == [tmo |-> Timeouts \ {"none", "heightPast", "tsPast"}, memo |-> Memos, rcv |-> Rcvs, chan |-> Chans, denom |-> Denoms]
ASSUME \A t \in Timeouts : \E c \in Cases : c.m = "ibcTransfer" /\ c.tmo = t
ASSUME \A f \in DOMAIN IcsArgs, g \in DOMAIN IcsArgs : \A x \in IcsArgs[f], y \in IcsArgs[g] :
          f = g \/ \E c \in Cases : c.m = "ibcTransfer" /\ c[f] = x /\ c[g] = y
\* every paginated method is walked with every limit, with and without countTotal, forwards and backwards, by key
ASSUME \A q \in Paginated, lim \in {"0", "1", "2"}, ct \in BOOLEAN, rev \in BOOLEAN :
          \E w \in Walks : w.q = q /\ w.limit = lim /\ w.countTotal = ct /\ w.reverse = rev /\ w.mode = "key"

---------------------------------------------------------------------------
(* comparator *)
\* the fields of the projected state the statement lists (balances apart from gas: the
\* precompile is executed with a zero gas price, so balances are compared exactly)
\*   denoms: balances of the accounts and of the escrow accounts in every other denomination, and their supplies
\*   red:    the redelegations of the accounts;  vals: tokens, shares, status, jailed of every validator
\*   ibc:    next send sequence and the commitment of the last packet sent, per channel
Compared == {"bank", "mods", "supply", "deleg", "ubd", "rewards", "wd", "commission", "grants", "denoms", "red", "vals", "ibc"}
DiffFields(a, b) == {f \in Compared : a[f] # b[f]}
FieldOrder == <<"deleg", "ubd", "wd", "rewards", "commission", "grants", "supply", "bank", "mods", "red", "vals", "denoms", "ibc">>
FirstField(diff) == LET idx == {i \in 1..Len(FieldOrder) : FieldOrder[i] \in diff} IN
                    IF idx = {} THEN "other" ELSE FieldOrder[CHOOSE i \in idx : \A j \in idx : i <= j]
Opt(name, v, dflt) == IF v = dflt THEN "" ELSE "," \o name \o "=" \o v
CaseClass(c) == c.m \o "|state=" \o c.state \o ",val=" \o c.val \o ",amt=" \o c.amt \o (IF c.m = "cancelUnbonding" THEN ",height=" \o c.height ELSE "")
                    \o (IF c.m = "setWithdrawAddress" /\ c.to # "T" THEN ",to=" \o c.to ELSE "")
                    \o (IF c.m = "redelegate" THEN Opt("dst", c.dst, "V3") ELSE "")
                    \o (IF c.m = "ibcTransfer" THEN Opt("tmo", c.tmo, "height") \o Opt("memo", c.memo, "none") \o Opt("rcv", c.rcv, "ok")
                                                     \o Opt("chan", c.chan, "ok") \o Opt("denom", c.denom, "native") ELSE "")

\* walks: a and b are the sequences of pages [items, next, total, err] of the native and of the precompile walk.
\* WalkDiff names the first divergence: which page (the first one, or a later one - i.e. one that was asked for with a
\* continuation) and what about it (the call fails on one side only / items / continuation key / total); "pages" when
\* one walk is a proper prefix of the other.
Min(S) == CHOOSE i \in S : \A j \in S : i <= j
PageNo(i) == IF i = 1 THEN "first" ELSE "later"
WalkDiff(a, b) ==
    LET n == IF Len(a) < Len(b) THEN Len(a) ELSE Len(b)
        idx == {i \in 1..n : a[i] # b[i]} IN
    IF idx = {} THEN [kind |-> "pages", page |-> "later", fails |-> "-"]
    ELSE LET i == Min(idx) IN
         IF a[i].err # b[i].err THEN [kind |-> "error", page |-> PageNo(i), fails |-> IF b[i].err # "" THEN "precompile" ELSE "native"]
         ELSE [kind |-> IF a[i].items # b[i].items THEN "items" ELSE IF a[i].next # b[i].next THEN "nextKey" ELSE "total", page |-> PageNo(i), fails |-> "-"]
BoolStr(b) == IF b THEN "T" ELSE "F"
\* what identifies a divergence: for a call that fails on one side only, the protocol step (continuation mode, first or
\* later page) and the side; for a divergence in content, the whole page request
WalkClass(w, d) == IF d.kind = "error" THEN "mode=" \o w.mode \o ",page=" \o d.page \o ",fails=" \o d.fails
                   ELSE "sel=" \o w.sel \o ",limit=" \o w.limit \o ",countTotal=" \o BoolStr(w.countTotal)
                        \o ",reverse=" \o BoolStr(w.reverse) \o ",mode=" \o w.mode \o ",page=" \o d.page
=============================================================================
