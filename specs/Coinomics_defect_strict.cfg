SPECIFICATION Spec
CONSTANTS
  Starts = {"1703980800000", "1735603200000"}
  Dts = {"0", "6000", "15768000000", "15811200000"}
  Bondeds = {"0", "3", "10000001000000000000000000"}
  Coeffs = {"50000000000000000000", "100000000000000000000"}
  MaxDists = {"-1", "0", "1", "2", "1000000000000000000000000000000000000000000"}
  MaxAbs = {"0"}
  MaxDenoms = {"aISLM"}
  ExtDeltas = {"1"}
  InitSupply = "20000000000000000000000000000"
  MaxLen = 5
  Defects = {"stale_prevts"}
INVARIANT MInv_P
PROPERTY MStep_Strict
VIEW View
CHECK_DEADLOCK FALSE
