SPECIFICATION Spec
CONSTANTS
  Signers = {"s1","s2"}
  Nonces <- MC_Nonces
  Routes = {"eth-legacy","cosmos-amino-json","eip712"}
  Quals = {"good","badsig","foreign","overdraft"}
  MaxSub = 6
  MaxBlocks = 2
  MaxEvents = 1
  MaxLen = 0
  Defects = {}
INVARIANT MInv_Once
INVARIANT MInv_Executed
PROPERTY MStep_P
PROPERTY MStep_Monotone
VIEW View
CHECK_DEADLOCK FALSE
