SPECIFICATION Spec
CONSTANTS
  Holders = {"a1","a2"}
  Amts = {"1","2","3"}
  InitBal = "3"
  MaxLen = 4
  Scenarios <- MC_DelayedOnly
  Defects = {"hook_no_checks"}
INVARIANT MInv_Strict
PROPERTY MStep_P
VIEW View
CHECK_DEADLOCK FALSE
