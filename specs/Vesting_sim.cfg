SPECIFICATION SimSpec
CONSTANTS
  Denoms = {"aISLM"}
  Defects = {}
  POffsets = {0}
  PMaxPeriods = 0
  PMaxLen = 0
  PAmts = {"0"}
  Shapes <- MC_Shapes
  Starts = {0,1,2,3,4}
  Dts = {1,2}
  MaxNow = 12
  MaxLen = 8
  InitBank = "9"

CHECK_DEADLOCK FALSE
