-------------------------- MODULE EnvelopeOpsTrace --------------------------
(* Validates the scenarios recorded by harness/envelopeops.go - sequences of build / pack / encode /    *)
(* decode / lookup / get on one shared TxBuilder, the wrapped messages and the decoded (multi-message)   *)
(* Cosmos transactions - against the property layer P of EnvelopeOps (verdict: StepOK and the            *)
(* invariants, judged on the logged projection before and after every call) and against the as-built     *)
(* machine M (diagnostic).  Deterministic and total: every line is consumed, the model re-synchronises   *)
(* on the logged state, violations are accumulated as signatures.                                        *)
(*                                                                                                        *)
(* A "reset" line starts a scenario: orig (the reference views of the originals, computed by the harness *)
(* from the go-ethereum transactions and the signing keys), o / base (every field of the originals and   *)
(* the base fees: TLC recomputes the figures of the reference views from them with exact integers - a    *)
(* mismatch is a problem of the harness, not a verdict), post (the initial projection).                  *)
EXTENDS EnvelopeOps

VARIABLES l, viol, div, bad, cnt, nscn, orig
tvars == <<cs, x, pc, st, hist, l, viol, div, bad, cnt, nscn, orig>>

Trace == ndJsonDeserialize("trace.ndjson")

Sig(kind, class, e) == [prop |-> "C18", kind |-> kind, class |-> class, scn |-> e.scn, line |-> l]

\* A scenario whose pool could not be set up because THE CODE refused to wrap an original (or accepted none of the
\* random draws) is skipped and counted: the statement does not say which transactions are accepted, and a refusal
\* is not a problem of the harness either.
CodeStages == {"wrap", "random-pool"}

\* problems of the harness or of this specification, never verdicts (the run is stopped as INFRA)
ResetProblems(e) ==
    IF ~e.ok THEN (IF e.stage \in CodeStages THEN {} ELSE {[what |-> "setup-failed: " \o e.err, scn |-> e.scn]})
    ELSE UNION {
      LET o == e.o[i]  r == e.orig[i]  F == Figures(o, e.base[i]) IN
      (IF o.hash = r.h /\ r.rec = r.h /\ o.type = r.typ /\ o.gas = r.gas /\ r.vb = "ok" THEN {}
       ELSE {[what |-> "reference-view", scn |-> e.scn]})
      \cup (IF o.sender = r.snd THEN {} ELSE {[what |-> "original-sender", scn |-> e.scn]})
      \cup (IF F.fee = r.fee /\ F.cost = r.cost /\ F.effFee = r.effFee THEN {}
            ELSE {[what |-> "go-ethereum-figure", scn |-> e.scn]})
      \cup (IF \A j \in 1..Len(e.orig) : j # i => e.orig[j].h # r.h THEN {} ELSE {[what |-> "duplicate-original", scn |-> e.scn]})
      : i \in 1..Len(e.orig) }
      \cup (IF Len(e.orig) >= 2 /\ Len(e.o) = Len(e.orig) /\ Len(e.base) = Len(e.orig) THEN {}
            ELSE {[what |-> "pool-size", scn |-> e.scn]})

\* M's prediction compared with what the code did (the digest of the encoded bytes is not predicted)
NoSha(s) == [s EXCEPT !.wire = [k \in 1..Len(s.wire) |-> [env |-> s.wire[k].env]]]
Divergences(e) ==
    LET r == MResult(orig, st, e.ev, e.args)
        D(what) == [ev |-> e.ev, what |-> what, class |-> StepClass(orig, e, st), scn |-> e.scn, line |-> l] IN
    (IF r.ok = e.ok THEN {} ELSE {D("accept/reject")})
    \cup (IF r.ret = e.ret \/ ~e.ok THEN {} ELSE {D("returned-value")})
    \cup (IF NoSha(r.post) = NoSha(e.post) THEN {} ELSE {D("post-state")})

Counters(e) ==
    LET a == e.args IN
    [steps       |-> 1, skipped |-> 0,
     builds      |-> IF e.ev = "build" /\ e.ok THEN 1 ELSE 0,
     rebuilds    |-> IF e.ev = "build" /\ e.ok /\ Len(st.bld.msgs) > 0 THEN 1 ELSE 0,
     freeAfterPaying |-> IF e.ev = "build" /\ e.ok /\ orig[a.tx].fee = "0" /\ st.bld.fee # "0" THEN 1 ELSE 0,
     lessGasAfterMore |-> IF e.ev = "build" /\ e.ok /\ st.bld.gas # "-" /\ BigLT(orig[a.tx].gas, st.bld.gas) THEN 1 ELSE 0,
     oneAfterSeveral |-> IF e.ev = "build" /\ e.ok /\ Len(st.bld.msgs) > 1 THEN 1 ELSE 0,
     packs       |-> IF e.ev = "pack" /\ e.ok THEN 1 ELSE 0,
     encodes     |-> IF e.ev = "encode" /\ e.ok THEN 1 ELSE 0,
     decodes     |-> IF e.ev = "decode" /\ e.ok THEN 1 ELSE 0,
     decodesMulti |-> IF e.ev = "decode" /\ e.ok /\ Len(st.wire[a.w].env.hs) > 1 THEN 1 ELSE 0,
     lookups     |-> IF e.ev = "lookup" THEN 1 ELSE 0,
     lookupsLater |-> IF e.ev = "lookup" /\ PosOf(MsgsOf(st, a.env), a.hash) = "later" THEN 1 ELSE 0,
     lookupsAbsentMulti |-> IF e.ev = "lookup" /\ PosOf(MsgsOf(st, a.env), a.hash) = "absent" /\ Len(MsgsOf(st, a.env)) > 1
                            THEN 1 ELSE 0,
     lookupsFound |-> IF e.ev = "lookup" /\ e.ok THEN 1 ELSE 0,
     gets        |-> IF e.ev = "get" /\ e.ok THEN 1 ELSE 0,
     getsDecoded |-> IF e.ev = "get" /\ e.ok /\ a.env \notin {"pool", "bld"} THEN 1 ELSE 0]
ZeroCnt == [steps |-> 0, skipped |-> 0, builds |-> 0, rebuilds |-> 0, freeAfterPaying |-> 0, lessGasAfterMore |-> 0, oneAfterSeveral |-> 0,
            packs |-> 0, encodes |-> 0, decodes |-> 0, decodesMulti |-> 0, lookups |-> 0, lookupsLater |-> 0,
            lookupsAbsentMulti |-> 0, lookupsFound |-> 0, gets |-> 0, getsDecoded |-> 0]

TraceInit ==
    /\ l = 1 /\ viol = {} /\ div = {} /\ bad = {} /\ nscn = 0 /\ orig = <<>>
    /\ cnt = ZeroCnt
    /\ cs = NoCase /\ x = NoCase /\ pc = <<>> /\ hist = <<>>
    /\ st = [pool |-> <<>>, bld |-> EmptyEnv, wire |-> <<>>, dec |-> <<>>]

Ops == {"build", "pack", "encode", "decode", "lookup", "get"}

TraceNext ==
    /\ l <= Len(Trace)
    /\ LET e == Trace[l] IN
       /\ l' = l + 1
       /\ st' = e.post
       /\ UNCHANGED <<cs, x, pc, hist>>
       /\ IF e.ev = "reset"
          THEN /\ nscn' = nscn + 1
               /\ orig' = e.orig
               /\ bad' = bad \cup ResetProblems(e)
               /\ viol' = viol \cup (IF e.ok THEN {Sig("init:" \o n, "wrap", e) : n \in BrokenInvariants(e.orig, e.post)} ELSE {})
               /\ cnt' = [cnt EXCEPT !.skipped = @ + (IF e.ok THEN 0 ELSE 1)]
               /\ UNCHANGED div
          ELSE IF e.ev \notin Ops
          THEN /\ bad' = bad \cup {[what |-> "bad-step: " \o e.err, scn |-> e.scn]}
               /\ UNCHANGED <<nscn, orig, viol, div, cnt>>
          ELSE /\ UNCHANGED <<nscn, orig, bad>>
               /\ viol' = viol
                    \cup (IF StepOK(orig, e, st, e.post) THEN {}
                          ELSE {Sig("step:" \o e.ev, StepClass(orig, e, st), e)})
                    \cup {Sig(n, "after=" \o e.ev, e) : n \in BrokenInvariants(orig, e.post) \ BrokenInvariants(orig, st)}
               /\ div' = div \cup Divergences(e)
               /\ cnt' = LET c == Counters(e) IN [k \in DOMAIN cnt |-> cnt[k] + c[k]]

TraceSpec == TraceInit /\ [][TraceNext]_tvars

Report == l <= Len(Trace) \/
          PrintT(<<"RESULT", ToJson([consumed |-> l - 1, scenarios |-> nscn, viol |-> viol, div |-> div,
                                     bad |-> bad, cnt |-> cnt])>>)
=============================================================================
