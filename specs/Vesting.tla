------------------------------- MODULE Vesting -------------------------------
(***************************************************************************)
(* Clawback vesting accounts of haqq (x/vesting) -- the C09 part            *)
(* ("Vesting schedule arithmetic is exact; clawback takes only unvested").  *)
(* C08 will extend this module with the debit paths.                        *)
(*                                                                         *)
(* Property layer P (written from the statement, on top of the denotation   *)
(* of module Schedule):                                                     *)
(*   ReadKinds, GetterKinds   a schedule read is the step function of its   *)
(*        events: monotone, zero up to the start, total from the end on,    *)
(*        vested+unvested = locked+unlocked = original, nothing negative    *)
(*   CapKinds                 the account's own cap of its two schedules      *)
(*        (unlocked AND vested) is the minimum PER DENOMINATION of the two    *)
(*        reads -- coin sets are only partially ordered, "the schedule that   *)
(*        is behind" need not exist --, it splits the vested part exactly,    *)
(*        and with nothing delegated the coins reported as not spendable      *)
(*        cover everything that is unvested or still under lockup             *)
(*   DisjunctKinds            merge = union of the release events            *)
(*   ConjunctKinds            cap = pointwise minimum                        *)
(*   AlignKinds               re-basing two schedules keeps their events     *)
(*   ClawbackKinds            exactly the unvested amount leaves, every      *)
(*        vested coin stays under a lockup that is NoEarlier than before,    *)
(*        the account left behind is valid                                  *)
(*   StepKinds / InvKinds     the same clauses for message-server histories  *)
(*        (create / merge / apply-schedule / clawback / funder update)       *)
(* Every *Kinds operator returns the SET OF BROKEN CLAUSES (empty = fine), so *)
(* the same text is the oracle of the exhaustive configurations and of the   *)
(* trace specifications (ScheduleTrace, VestingTrace).                       *)
(*                                                                         *)
(* As-built machine M: transcriptions of ReadSchedule, ReadPastPeriodCount, *)
(* DisjunctPeriods, ConjunctPeriods, AlignSchedules (x/vesting/types/       *)
(* schedule.go), ComputeClawback, Validate (clawback_vesting_account.go),   *)
(* addGrant, CreateClawbackVestingAccount, Clawback, UpdateVestingFunder,   *)
(* ConvertIntoVestingAccount (keeper/msg_server.go), ApplyVestingSchedule   *)
(* (keeper/schedule.go), structured like the code.  Known deviation:        *)
(*   "merge_min_start"  ApplyVestingSchedule(merge) hands addGrant           *)
(*        Min64(startTime, acc.StartTime) instead of the grant's own start   *)
(*   "clawback_collapsed_span"  after a clawback that leaves no period with   *)
(*        positive length (nothing vested yet) EndTime = StartTime, which     *)
(*        Validate() rejects ("start-time must be before end-time")           *)
(*                                                                         *)
(* Two machines share the module:                                           *)
(*   PureSpec  a depth-2 input machine: pick schedule a, then schedule b;    *)
(*             PureInv says M's pure functions satisfy P on that pair         *)
(*   Spec      histories of messages on one vesting account                  *)
(***************************************************************************)
EXTENDS Schedule, Json

CONSTANTS
    Denoms,       \* denominations of the models, e.g. {"aISLM"}
    Defects,      \* subset of KnownDefects
    \* pure input machine
    POffsets,     \* start offsets, e.g. 0..2
    PMaxPeriods,  \* periods per schedule
    PMaxLen,      \* period lengths 0..PMaxLen
    PAmts,        \* amounts per denom, e.g. {"0","1","2"}
    \* history machine
    Shapes,       \* grant shapes [lockup |-> periods, vesting |-> periods]
    Starts,       \* grant start times
    Dts,          \* block-time increments
    MaxNow,       \* bound on the block time
    MaxLen,       \* bound on the length of a history
    InitBank      \* initial balance of every funder per denom

VARIABLES st, hist, inp
vars == <<st, hist, inp>>

KnownDefects == {"merge_min_start", "clawback_collapsed_span"}
ASSUME Defects \subseteq KnownDefects

---------------------------------------------------------------------------
(* Accounts.  A vesting account is a record                                  *)
(*   [exists, funder, start, end, lockup, vesting, orig, valid]              *)
(* `valid` is the outcome of the real Validate() in traces and of MValidate   *)
(* in the model.  A history state is [now, acct, bank]; bank : name -> Coins  *)
(* for the vesting account "v", the funders "f1","f2" and an outsider "x".    *)

LSched(a) == Sched(a.start, a.lockup)
VSched(a) == Sched(a.start, a.vesting)
NoAcct(D) == [exists |-> FALSE, funder |-> "", start |-> 0, end |-> 0,
              lockup |-> <<>>, vesting |-> <<>>, orig |-> CZero(D), valid |-> TRUE]
DenomsOf(s) == DOMAIN s.bank["v"]

\* structural validity, from the statement: both schedules describe the original grant and
\* lie inside the account's span ("locked+unlocked = vested+unvested = original")
AcctSound(D, a) ==
    /\ CEq(Total(D, LSched(a)), a.orig) /\ CEq(Total(D, VSched(a)), a.orig)
    /\ End(LSched(a)) <= a.end /\ End(VSched(a)) <= a.end
    /\ WellFormed(LSched(a)) /\ WellFormed(VSched(a)) /\ CNonNeg(a.orig)

StartRel(x, y) == IF x < y THEN "<" ELSE IF x = y THEN "=" ELSE ">"

\* where an instant lies relative to a schedule (identifies a failing read)
ReadClass(s, end, t) ==
    IF t <= s.start THEN "t<=start"
    ELSE IF t >= end THEN "t>=end"
    ELSE IF \E i \in Idx(s) : EndAt(s, i) = t THEN "t=periodEnd"
    ELSE "t inside period"
SeqIdx(q) == 1..Len(q)
FirstBad(ts, bad(_)) == LET B == {k \in SeqIdx(ts) : bad(k)} IN
                        IF B = {} THEN 0 ELSE CHOOSE k \in B : \A j \in B : ts[k] <= ts[j]

---------------------------------------------------------------------------
(* P, pure functions.  Inputs are well-formed schedules; outputs are what    *)
(* the implementation returned.                                             *)

\* ReadSchedule / ReadPastPeriodCount at the instants ts (end >= End(s), total = Total(s))
ReadBad(D, s, end, total, ts, outs, cnts, k) ==
    \/ ~CEq(outs[k], Read(D, s, ts[k]))
    \/ cnts[k] # PastCount(s, ts[k])
ReadKinds(D, s, end, total, ts, outs, cnts) ==
    (IF \E k \in SeqIdx(ts) : ~CEq(outs[k], Read(D, s, ts[k])) THEN {"read-not-sum-of-ended-periods"} ELSE {})
    \cup (IF \E k \in SeqIdx(ts) : ts[k] <= s.start /\ ~CIsZero(outs[k]) THEN {"read-nonzero-before-start"} ELSE {})
    \cup (IF \E k \in SeqIdx(ts) : ts[k] >= end /\ ts[k] > s.start /\ ~CEq(outs[k], total) THEN {"read-not-total-after-end"} ELSE {})
    \cup (IF \E j, k \in SeqIdx(ts) : ts[j] <= ts[k] /\ ~CLE(outs[j], outs[k]) THEN {"read-not-monotone"} ELSE {})
    \cup (IF \E k \in SeqIdx(ts) : ~CNonNeg(outs[k]) \/ ~CNonNeg(CSub(total, outs[k])) THEN {"read-negative-part"} ELSE {})
    \cup (IF \E k \in SeqIdx(ts) : cnts[k] # PastCount(s, ts[k]) THEN {"past-period-count"} ELSE {})
ReadKindsClass(D, s, end, total, ts, outs, cnts) ==
    LET k == FirstBad(ts, LAMBDA j : ReadBad(D, s, end, total, ts, outs, cnts, j)) IN
    IF k = 0 THEN "-" ELSE ReadClass(s, end, ts[k])

\* DisjunctPeriods: r = [start, end, periods]
DisjunctKinds(D, a, b, r) ==
    LET rs == Sched(r.start, r.periods)
        T  == Instants({a, b, rs}) IN
    IF ~IsUnion(D, rs, a, b) THEN {"merge-not-union"}
    ELSE (IF \E t \in T : ~IsSumAt(D, rs, a, b, t) THEN {"merge-not-sum-after-both-started"} ELSE {})
         \cup (IF \E t \in T : ~NothingBefore(D, rs, a, b, t) THEN {"merge-releases-before-start"} ELSE {})

\* ConjunctPeriods
ConjunctKinds(D, a, b, r) ==
    LET rs == Sched(r.start, r.periods)
        T  == Instants({a, b, rs}) IN
    IF \E t \in T : ~IsMinAt(D, rs, a, b, t) THEN {"cap-not-min"} ELSE {}

\* AlignSchedules: r = [start, end, pa, pb] (the two period lists after the call)
AlignKinds(D, a, b, r) ==
    IF BagEq(Events(D, Sched(r.start, r.pa)), Events(D, a)) /\ BagEq(Events(D, Sched(r.start, r.pb)), Events(D, b))
    THEN {} ELSE {"align-changes-events"}

PairClass(a, b) == "startA" \o StartRel(a.start, b.start) \o "startB"

\* account getters at the instants ts (a sound account)
GetterBad(D, a, g, k) ==
    LET t == g.ts[k] IN
    \/ ~CEq(g.vested[k], Read(D, VSched(a), t)) \/ ~CEq(g.unlocked[k], Read(D, LSched(a), t))
    \/ ~CEq(CAdd(g.vested[k], g.unvested[k]), a.orig) \/ ~CEq(CAdd(g.unlocked[k], g.lockedup[k]), a.orig)
    \/ ~CNonNeg(g.vested[k]) \/ ~CNonNeg(g.unvested[k]) \/ ~CNonNeg(g.unlocked[k]) \/ ~CNonNeg(g.lockedup[k])
GetterKinds(D, a, g) ==
    LET K == SeqIdx(g.ts) IN
    (IF \E k \in K : ~CEq(g.vested[k], Read(D, VSched(a), g.ts[k])) THEN {"vested-not-sum-of-ended-periods"} ELSE {})
    \cup (IF \E k \in K : ~CEq(g.unlocked[k], Read(D, LSched(a), g.ts[k])) THEN {"unlocked-not-sum-of-ended-periods"} ELSE {})
    \cup (IF \E k \in K : ~CEq(CAdd(g.vested[k], g.unvested[k]), a.orig) THEN {"vested+unvested#original"} ELSE {})
    \cup (IF \E k \in K : ~CEq(CAdd(g.unlocked[k], g.lockedup[k]), a.orig) THEN {"locked+unlocked#original"} ELSE {})
    \cup (IF \E k \in K : ~(CNonNeg(g.vested[k]) /\ CNonNeg(g.unvested[k]) /\ CNonNeg(g.unlocked[k]) /\ CNonNeg(g.lockedup[k]))
          THEN {"negative-part"} ELSE {})
    \cup (IF \E j, k \in K : g.ts[j] <= g.ts[k] /\ ~(CLE(g.vested[j], g.vested[k]) /\ CLE(g.unlocked[j], g.unlocked[k]))
          THEN {"read-not-monotone"} ELSE {})
GetterClass(D, a, g) ==
    LET k == FirstBad(g.ts, LAMBDA j : GetterBad(D, a, g, j)) IN
    IF k = 0 THEN "-"
    ELSE IF ~CEq(g.unlocked[k], Read(D, LSched(a), g.ts[k])) /\ CEq(g.vested[k], Read(D, VSched(a), g.ts[k]))
         THEN ReadClass(LSched(a), a.end, g.ts[k])
         ELSE ReadClass(VSched(a), a.end, g.ts[k])

\* The cap of the account's two schedules ("capping yields exactly their minimum"; "every vested
\* coin (still subject to its lockup)").  Coins of several denominations are only PARTIALLY ordered:
\* at an instant where one denomination is ahead in the lockup schedule and another one in the
\* vesting schedule neither read dominates the other, and the minimum is neither of the two.
\* The expected values are those of the denotation (Read), not of the other getters.
CapMin(D, a, t)      == CMin(Read(D, LSched(a), t), Read(D, VSched(a), t))
\* how the two reads compare at t (identifies a failing instant)
CapOrder(D, a, t) ==
    LET u == Read(D, LSched(a), t)
        v == Read(D, VSched(a), t) IN
    IF CEq(u, v) THEN "unlocked=vested"
    ELSE IF CLE(u, v) THEN "unlocked<vested"
    ELSE IF CLE(v, u) THEN "vested<unlocked"
    ELSE "unlocked,vested incomparable"
Incomparable(D, a, t) == CapOrder(D, a, t) = "unlocked,vested incomparable"
HasCap(g) == {"unlockedvested", "lockedupvested", "lockedcoins", "delegated"} \subseteq DOMAIN g
CapNotMin(D, a, g, k)   == ~CEq(g.unlockedvested[k], CapMin(D, a, g.ts[k]))
CapNotSplit(D, a, g, k) == \/ ~CEq(CAdd(g.unlockedvested[k], g.lockedupvested[k]), Read(D, VSched(a), g.ts[k]))
                           \/ ~CNonNeg(g.unlockedvested[k]) \/ ~CNonNeg(g.lockedupvested[k])
\* nothing delegated: what is reported as not spendable covers every coin that is unvested or
\* locked up (= original - cap); the statement does not bound it from above
CapSpendable(D, a, g, k) == CIsZero(g.delegated) /\ ~CLE(CSub(a.orig, CapMin(D, a, g.ts[k])), g.lockedcoins[k])
CapBad(D, a, g, k) == CapNotMin(D, a, g, k) \/ CapNotSplit(D, a, g, k) \/ CapSpendable(D, a, g, k)
CapKinds(D, a, g) ==
    IF ~HasCap(g) THEN {} ELSE
    LET K == SeqIdx(g.ts) IN
    (IF \E k \in K : CapNotMin(D, a, g, k) THEN {"unlocked-vested-not-min"} ELSE {})
    \cup (IF \E k \in K : CapNotSplit(D, a, g, k) THEN {"lockedvested+unlockedvested#vested"} ELSE {})
    \cup (IF \E k \in K : CapSpendable(D, a, g, k) THEN {"locked-up-or-unvested-coins-spendable"} ELSE {})
CapClass(D, a, g) ==
    LET k == FirstBad(g.ts, LAMBDA j : CapBad(D, a, g, j)) IN
    IF k = 0 THEN "-" ELSE CapOrder(D, a, g.ts[k])
CapKindNames == {"unlocked-vested-not-min", "lockedvested+unlockedvested#vested", "locked-up-or-unvested-coins-spendable"}
\* all clauses about the getters, and the class of one broken clause
AllGetterKinds(D, a, g) == GetterKinds(D, a, g) \cup CapKinds(D, a, g)
GetterKindClass(k, D, a, g) == IF k \in CapKindNames THEN CapClass(D, a, g) ELSE GetterClass(D, a, g)

\* clawback at time t took the sound account a to r and moved amt away
ClawbackKinds(D, a, t, r, amt) ==
    LET vested == Read(D, VSched(a), t)
        T == Instants({LSched(a), VSched(a), LSched(r), VSched(r), Sched(t, <<>>)}) IN
    (IF ~CEq(amt, CSub(a.orig, vested)) THEN {"clawback-amount-not-unvested"} ELSE {})
    \cup (IF /\ CEq(r.orig, vested)
             /\ \A u \in T : u >= t => CEq(Cum(D, VSched(r), u), vested)
          THEN {} ELSE {"clawback-loses-vested"})
    \cup (IF NoEarlier(D, LSched(r), LSched(a), T) THEN {} ELSE {"clawback-unlocks-early"})
    \cup (IF AcctSound(D, r) THEN {} ELSE {"clawback-account-unsound"})
    \cup (IF a.valid => r.valid THEN {} ELSE {"clawback-invalid-account"})
ClawbackClass(D, a, t) ==
    LET vested == Read(D, VSched(a), t) IN
    IF CIsZero(vested) THEN "vested=0" ELSE IF CEq(vested, a.orig) THEN "vested=all" ELSE "vested=part"
\* the class of one broken clause: an invalid account whose span collapsed is named as such
ClawbackKindClass(k, D, a, t, r) ==
    IF k = "clawback-invalid-account" /\ r.end <= r.start THEN "end=start" ELSE ClawbackClass(D, a, t)
\* what the named defect "clawback_collapsed_span" accounts for
ClawbackKnown(r) == IF "clawback_collapsed_span" \in Defects /\ r.end <= r.start THEN {"clawback-invalid-account"} ELSE {}

---------------------------------------------------------------------------
(* P, histories.  e = [ev, args, ok]; s, t = states before / after.          *)

GrantEvs == {"create", "convert_into", "apply"}

\* an absent schedule means: released at the grant's start (no lockup / no vesting)
GrantTotal(D, g) == IF g.vesting # <<>> THEN Total(D, Sched(0, g.vesting)) ELSE Total(D, Sched(0, g.lockup))
GrantLockup(D, g)  == IF g.lockup = <<>> THEN <<Period(0, GrantTotal(D, g))>> ELSE g.lockup
GrantVesting(D, g) == IF g.vesting = <<>> THEN <<Period(0, GrantTotal(D, g))>> ELSE g.vesting

Move(bank, from, to, c) ==
    LET b1 == [bank EXCEPT ![from] = CSub(@, c)] IN [b1 EXCEPT ![to] = CAdd(@, c)]
BankEq(b1, b2) == DOMAIN b1 = DOMAIN b2 /\ \A n \in DOMAIN b1 : CEq(b1[n], b2[n])

GrantKinds(D, e, s, t) ==
    LET g   == e.args
        tot == GrantTotal(D, g)
        gl  == Sched(g.start, GrantLockup(D, g))
        gv  == Sched(g.start, GrantVesting(D, g))
        bankOK == BankEq(t.bank, Move(s.bank, g.from, "v", tot)) /\ t.now = s.now
    IN
    IF ~s.acct.exists THEN
        (IF t.acct.exists /\ BagEq(Events(D, LSched(t.acct)), Events(D, gl))
                          /\ BagEq(Events(D, VSched(t.acct)), Events(D, gv))
                          /\ CEq(t.acct.orig, tot) /\ t.acct.funder = g.from
         THEN {} ELSE {"create-not-the-granted-schedule"})
        \cup (IF bankOK THEN {} ELSE {"grant-bank"})
    ELSE IF g.merge THEN
        (IF t.acct.exists /\ IsUnion(D, LSched(t.acct), LSched(s.acct), gl)
                          /\ IsUnion(D, VSched(t.acct), VSched(s.acct), gv)
         THEN {} ELSE {"merge-not-union"})
        \cup (IF CEq(t.acct.orig, CAdd(s.acct.orig, tot)) /\ t.acct.funder = s.acct.funder THEN {} ELSE {"merge-original-or-funder"})
        \cup (IF bankOK THEN {} ELSE {"grant-bank"})
    ELSE {}   \* the statement does not say what a non-merging grant to an existing account does

DestOf(e, s) == IF e.args.dest = "" THEN e.args.by ELSE e.args.dest

StepKinds(e, s, t) ==
    LET D == DenomsOf(s) IN
    IF ~e.ok THEN (IF t = s THEN {} ELSE {"failed-step-changed-state"})
    ELSE CASE e.ev \in GrantEvs -> GrantKinds(D, e, s, t)
           [] e.ev = "clawback" ->
                (IF s.acct.exists /\ e.args.by = s.acct.funder THEN {} ELSE {"clawback-by-non-funder"})
                \cup (IF s.acct.exists /\ t.acct.exists THEN
                        LET moved == CSub(s.bank["v"], t.bank["v"]) IN
                        ClawbackKinds(D, s.acct, s.now, t.acct, moved)
                        \cup (IF BankEq(t.bank, Move(s.bank, "v", DestOf(e, s), moved)) /\ t.now = s.now
                              THEN {} ELSE {"clawback-not-to-destination"})
                        \cup (IF t.acct.funder = s.acct.funder /\ t.acct.start = s.acct.start THEN {} ELSE {"clawback-changed-funder-or-start"})
                      ELSE {"clawback-without-account"})
           [] e.ev = "update_funder" ->
                IF s.acct.exists /\ t = [s EXCEPT !.acct.funder = e.args.new] THEN {} ELSE {"funder-update-not-recorded"}
           [] e.ev = "tick" -> IF t = [s EXCEPT !.now = s.now + e.args.dt] THEN {} ELSE {"tick"}
           [] OTHER -> {"unknown-event"}
StepOK(e, s, t) == StepKinds(e, s, t) = {}

StepClass(e, s) ==
    CASE e.ev \in GrantEvs ->
            (IF e.ev = "create" THEN "path=create_msg" ELSE "path=apply_schedule") \o
            (IF ~s.acct.exists THEN ",fresh"
             ELSE IF ~e.args.merge THEN ",nomerge"
             ELSE ",grantStart" \o StartRel(e.args.start, s.acct.start) \o "accStart")
      [] e.ev = "clawback" ->
            IF ~s.acct.exists THEN "no-account"
            ELSE (IF e.args.by = s.acct.funder THEN "" ELSE "by#funder,") \o ClawbackClass(DenomsOf(s), s.acct, s.now)
      [] e.ev = "update_funder" ->
            IF s.acct.exists /\ e.args.by = s.acct.funder THEN "by=funder" ELSE "by#funder"
      [] OTHER -> "-"

\* state invariant: an existing account is sound (so that its reads add up to the original)
InvKinds(s) == IF s.acct.exists /\ ~AcctSound(DenomsOf(s), s.acct) THEN {"account-parts-do-not-add-up"} ELSE {}

---------------------------------------------------------------------------
(* M: the pure functions as the code computes them *)

RECURSIVE MReadLoop(_, _, _, _, _)
MReadLoop(ps, i, elapsed, t, acc) ==
    IF i > Len(ps) THEN [coins |-> acc, n |-> i - 1]
    ELSE IF t < elapsed + ps[i].len THEN [coins |-> acc, n |-> i - 1]
    ELSE MReadLoop(ps, i + 1, elapsed + ps[i].len, t, CAdd(acc, ps[i].amt))
\* ReadSchedule(startTime, endTime, periods, totalCoins, readTime)
MRead(D, start, end, ps, total, t) ==
    IF t <= start THEN CZero(D) ELSE IF t >= end THEN total ELSE MReadLoop(ps, 1, start, t, CZero(D)).coins
\* ReadPastPeriodCount
MPastCount(D, start, end, ps, t) ==
    IF t <= start THEN 0 ELSE IF t >= end THEN Len(ps) ELSE MReadLoop(ps, 1, start, t, CZero(D)).n

\* DisjunctPeriods: two cursors, emit(nextTime, amount) appends a period of length nextTime - endTime
RECURSIVE MDisjLoop(_, _, _, _, _, _, _, _)
MDisjLoop(pa, pb, i, j, ta, tb, e, out) ==
    LET emitA(na) == MDisjLoop(pa, pb, i + 1, j, na, tb, na, Append(out, Period(na - e, pa[i].amt)))
        emitB(nb) == MDisjLoop(pa, pb, i, j + 1, ta, nb, nb, Append(out, Period(nb - e, pb[j].amt)))
    IN
    IF i <= Len(pa) /\ j <= Len(pb) THEN
        LET na == ta + pa[i].len
            nb == tb + pb[j].len IN
        IF na < nb THEN emitA(na)
        ELSE IF na > nb THEN emitB(nb)
        ELSE MDisjLoop(pa, pb, i + 1, j + 1, na, na, na, Append(out, Period(na - e, CAdd(pa[i].amt, pb[j].amt))))
    ELSE IF i <= Len(pa) THEN emitA(ta + pa[i].len)
    ELSE IF j <= Len(pb) THEN emitB(tb + pb[j].len)
    ELSE [end |-> e, periods |-> out]
MDisjunct(a, b) ==
    LET s0 == IMin(a.start, b.start)
        r  == MDisjLoop(a.periods, b.periods, 1, 1, a.start, b.start, s0, <<>>) IN
    [start |-> s0, end |-> r.end, periods |-> r.periods]

\* ConjunctPeriods: running totals of both inputs, emit the growth of their minimum
RECURSIVE MConjLoop(_, _, _, _, _, _, _, _, _, _, _)
MConjLoop(pa, pb, i, j, ta, tb, e, out, res, totA, totB) ==
    LET step(i2, j2, ta2, tb2, at, totA2, totB2) ==
            LET mn == CMin(totA2, totB2) IN
            IF CLE(res, mn) /\ ~CIsZero(CSub(mn, res))
            THEN MConjLoop(pa, pb, i2, j2, ta2, tb2, at, Append(out, Period(at - e, CSub(mn, res))), mn, totA2, totB2)
            ELSE MConjLoop(pa, pb, i2, j2, ta2, tb2, e, out, res, totA2, totB2)
    IN
    IF i <= Len(pa) /\ j <= Len(pb) THEN
        LET na == ta + pa[i].len
            nb == tb + pb[j].len IN
        IF na < nb THEN step(i + 1, j, na, tb, na, CAdd(totA, pa[i].amt), totB)
        ELSE IF na > nb THEN step(i, j + 1, ta, nb, nb, totA, CAdd(totB, pb[j].amt))
        ELSE step(i + 1, j + 1, na, na, na, CAdd(totA, pa[i].amt), CAdd(totB, pb[j].amt))
    ELSE IF i <= Len(pa) THEN LET na == ta + pa[i].len IN step(i + 1, j, na, tb, na, CAdd(totA, pa[i].amt), totB)
    ELSE IF j <= Len(pb) THEN LET nb == tb + pb[j].len IN step(i, j + 1, ta, nb, nb, totA, CAdd(totB, pb[j].amt))
    ELSE [end |-> e, periods |-> out]
MConjunct(D, a, b) ==
    LET s0 == IMin(a.start, b.start)
        r  == MConjLoop(a.periods, b.periods, 1, 1, a.start, b.start, s0, <<>>, CZero(D), CZero(D), CZero(D)) IN
    [start |-> s0, end |-> r.end, periods |-> r.periods]

\* AlignSchedules: the first period of each list absorbs the distance to the earlier start
MAlign(a, b) ==
    LET s0 == IMin(a.start, b.start)
        shift(s) == IF NP(s) > 0 THEN [s.periods EXCEPT ![1].len = @ + (s.start - s0)] ELSE s.periods
        pa == shift(a)
        pb == shift(b) IN
    [start |-> s0, end |-> IMax(s0 + TotalLength(pa), s0 + TotalLength(pb)), pa |-> pa, pb |-> pb]

\* GetUnlockedVestedCoins = GetUnlockedCoins.Min(GetVestedCoins) (sdk.Coins.Min is per denomination),
\* GetLockedUpVestedCoins = vested - that, LockedCoins without delegations = original - that
MVested(D, a, t)         == MRead(D, a.start, a.end, a.vesting, a.orig, t)
MUnlocked(D, a, t)       == MRead(D, a.start, a.end, a.lockup, a.orig, t)
MUnlockedVested(D, a, t) == CMin(MUnlocked(D, a, t), MVested(D, a, t))
MLockedUpVested(D, a, t) == CSub(MVested(D, a, t), MUnlockedVested(D, a, t))
MLockedCoins(D, a, t)    == CSub(a.orig, MUnlockedVested(D, a, t))

\* ClawbackVestingAccount.Validate (the BaseVestingAccount part always passes here)
MValidate(D, a) ==
    /\ (a.start < a.end \/ ("clawback_collapsed_span" \notin Defects /\ a.start = a.end))
    /\ End(LSched(a)) <= a.end /\ CEq(Total(D, LSched(a)), a.orig)
    /\ End(VSched(a)) <= a.end /\ CEq(Total(D, VSched(a)), a.orig)

\* NewClawbackVestingAccount
MNewAcct(D, funder, orig, start, lp, vp) ==
    LET al == MAlign(Sched(start, lp), Sched(start, vp))
        a  == [exists |-> TRUE, funder |-> funder, start |-> start, end |-> al.end,
               lockup |-> al.pa, vesting |-> al.pb, orig |-> orig, valid |-> TRUE] IN
    [a EXCEPT !.valid = MValidate(D, a)]

\* ComputeClawback(clawbackTime)
MComputeClawback(D, a, t) ==
    LET vested   == MRead(D, a.start, a.end, a.vesting, a.orig, t)
        unvested == CSub(a.orig, vested)
        passed   == MPastCount(D, a.start, a.end, a.vesting, t)
        newV     == SubSeq(a.vesting, 1, passed)
        newVEnd  == a.start + TotalLength(newV)
        cj       == MConjunct(D, LSched(a), Sched(a.start, <<Period(0, vested)>>))
        r        == [a EXCEPT !.orig = vested, !.end = IMax(newVEnd, cj.end), !.lockup = cj.periods, !.vesting = newV]
    IN [acct |-> [r EXCEPT !.valid = MValidate(D, r)], amt |-> unvested]

\* addGrant
MAddGrant(D, a, gstart, gl, gv, coins) ==
    LET dl == MDisjunct(LSched(a), Sched(gstart, gl))
        dv == MDisjunct(VSched(a), Sched(gstart, gv))
        r  == [a EXCEPT !.start = dl.start, !.end = IMax(dl.end, dv.end), !.lockup = dl.periods,
                        !.vesting = dv.periods, !.orig = CAdd(a.orig, coins)] IN
    [r EXCEPT !.valid = MValidate(D, r)]

---------------------------------------------------------------------------
(* M: message server.  MResult(s, ev, args) = [ok, post] *)

\* ValidateBasic of MsgCreateClawbackVestingAccount / MsgConvertIntoVestingAccount
MValidateBasic(D, g) ==
    LET lc == Total(D, Sched(0, g.lockup))
        vc == Total(D, Sched(0, g.vesting)) IN
    /\ \A i \in SeqIdx(g.lockup) : g.lockup[i].len >= 1
    /\ \A i \in SeqIdx(g.vesting) : g.vesting[i].len >= 1
    /\ ~(CIsZero(lc) /\ CIsZero(vc))
    /\ (g.lockup # <<>> /\ g.vesting # <<>>) => CEq(lc, vc)

MGrant(s, ev, g) ==
    LET D   == DenomsOf(s)
        tot == GrantTotal(D, g)
        gl  == GrantLockup(D, g)
        gv  == GrantVesting(D, g)
        vb  == (ev # "apply") => MValidateBasic(D, g)
        eq  == CEq(Total(D, Sched(0, gl)), Total(D, Sched(0, gv)))
        funds == CLE(tot, s.bank[g.from])
        \* ApplyVestingSchedule(merge) re-bases a later grant onto the account's start
        gstart == IF ev # "create" /\ "merge_min_start" \in Defects THEN IMin(g.start, s.acct.start) ELSE g.start
        ok  == IF ~s.acct.exists THEN vb /\ eq /\ funds
               ELSE vb /\ eq /\ funds /\ g.merge /\ g.from = s.acct.funder
        acct == IF ~s.acct.exists THEN MNewAcct(D, g.from, tot, g.start, gl, gv)
                ELSE MAddGrant(D, s.acct, gstart, gl, gv, tot)
    IN [ok |-> ok, post |-> IF ok THEN [s EXCEPT !.acct = acct, !.bank = Move(s.bank, g.from, "v", tot)] ELSE s]

MClawback(s, by, dest) ==
    LET D  == DenomsOf(s)
        a  == s.acct
        to == IF dest = "" THEN by ELSE dest
        pre == a.exists /\ ~(a.lockup = <<>> /\ a.vesting = <<>>) /\ a.funder = by
        cl == MComputeClawback(D, a, s.now)
    IN IF ~pre THEN [ok |-> FALSE, post |-> s]
       ELSE IF CIsZero(cl.amt) THEN [ok |-> TRUE, post |-> s]
       ELSE IF ~CLE(cl.amt, s.bank["v"]) THEN [ok |-> FALSE, post |-> s]
       ELSE [ok |-> TRUE, post |-> [s EXCEPT !.acct = cl.acct, !.bank = Move(s.bank, "v", to, cl.amt)]]

MUpdateFunder(s, by, new) ==
    IF by # new /\ s.acct.exists /\ s.acct.funder = by
    THEN [ok |-> TRUE, post |-> [s EXCEPT !.acct.funder = new]]
    ELSE [ok |-> FALSE, post |-> s]

MResult(s, ev, args) ==
    CASE ev \in GrantEvs      -> MGrant(s, ev, args)
      [] ev = "clawback"      -> MClawback(s, args.by, args.dest)
      [] ev = "update_funder" -> MUpdateFunder(s, args.by, args.new)
      [] ev = "tick"          -> [ok |-> TRUE, post |-> [s EXCEPT !.now = s.now + args.dt]]

---------------------------------------------------------------------------
(* The history machine *)

Names   == {"v", "f1", "f2", "x"}
Funders == {"f1", "f2"}

Init ==
    /\ st = [now |-> 0, acct |-> NoAcct(Denoms),
             bank |-> [n \in Names |-> IF n \in Funders THEN [d \in Denoms |-> InitBank] ELSE CZero(Denoms)]]
    /\ hist = <<>>
    /\ inp = <<>>

Do(ev, args) ==
    LET r == MResult(st, ev, args) IN
    /\ st' = r.post
    /\ hist' = Append(hist, [ev |-> ev, args |-> args, ok |-> r.ok])
    /\ UNCHANGED inp

GrantArgs(f, t0, sh, m) == [from |-> f, start |-> t0, lockup |-> sh.lockup, vesting |-> sh.vesting, merge |-> m]

Create(f, t0, sh, m)      == Do("create", GrantArgs(f, t0, sh, m))
ConvertInto(f, t0, sh, m) == Do("convert_into", GrantArgs(f, t0, sh, m))
\* the keeper-level path of liquid-vesting Redeem: lockup periods, instant vesting, merge
Apply(f, t0, sh)          == sh.lockup # <<>> /\ Do("apply", [from |-> f, start |-> t0, lockup |-> sh.lockup, vesting |-> <<>>, merge |-> TRUE])
Clawback(by, dest)        == Do("clawback", [by |-> by, dest |-> dest])
UpdateFunder(by, new)     == Do("update_funder", [by |-> by, new |-> new])
Tick(dt)                  == st.now + dt <= MaxNow /\ Do("tick", [dt |-> dt])

Next ==
    /\ Len(hist) < MaxLen
    /\ \/ \E f \in Funders, t0 \in Starts, sh \in Shapes, m \in BOOLEAN : Create(f, t0, sh, m)
       \/ \E f \in Funders, t0 \in Starts, sh \in Shapes, m \in BOOLEAN : ConvertInto(f, t0, sh, m)
       \/ \E f \in Funders, t0 \in Starts, sh \in Shapes : Apply(f, t0, sh)
       \/ \E by \in {"f1", "f2", "x"}, dest \in {"", "x"} : Clawback(by, dest)
       \/ \E by \in {"f1", "f2", "x"}, new \in Funders : UpdateFunder(by, new)
       \/ \E dt \in Dts : Tick(dt)

Spec == Init /\ [][Next]_vars

Last(h) == h[Len(h)]

\* intended design: every P clause on every step and state
MInv_P  == InvKinds(st) = {}
MStep_P == [][hist' # hist => StepOK(Last(hist'), st, st')]_vars
\* as built: P can fail only as "merge-not-union" on the apply-schedule path with a later grant,
\* and as an invalid (collapsed) account after a clawback
DefectClass == "path=apply_schedule,grantStart>accStart"
MStep_Compensated ==
    [][hist' # hist =>
        LET e == Last(hist') IN
        StepKinds(e, st, st') \subseteq
            ((IF "merge_min_start" \in Defects /\ StepClass(e, st) = DefectClass THEN {"merge-not-union"} ELSE {})
             \cup (IF e.ev = "clawback" /\ e.ok THEN ClawbackKnown(st'.acct) ELSE {}))]_vars
MStep_Strict == MStep_P

View == <<st, Len(hist)>>

\* scripts for the harness
Emit == Len(hist) = MaxLen /\ PrintT(<<"SCRIPT", ToJson(hist)>>) /\ UNCHANGED vars
RandFunder(h) == IF st.acct.exists /\ RandomElement(1..4) # 1 THEN st.acct.funder ELSE RandomElement(Funders)
RandBy(h)     == IF st.acct.exists /\ RandomElement(1..3) # 1 THEN st.acct.funder ELSE RandomElement({"f1", "f2", "x"})
SimNext ==
    /\ Len(hist) < MaxLen
    /\ \/ Create(RandFunder(hist), RandomElement(Starts), RandomElement(Shapes), st.acct.exists /\ RandomElement(1..5) # 1)
       \/ ConvertInto(RandFunder(hist), RandomElement(Starts), RandomElement(Shapes), st.acct.exists /\ RandomElement(1..5) # 1)
       \/ Apply(RandFunder(hist), RandomElement(Starts), RandomElement({sh \in Shapes : sh.lockup # <<>>}))
       \/ (st.acct.exists /\ Clawback(RandBy(hist), RandomElement({"", "x", "f2"})))
       \/ (st.acct.exists /\ LET by == RandBy(hist) IN UpdateFunder(by, RandomElement(Funders)))
       \/ Tick(RandomElement(Dts))
       \/ Tick(RandomElement(Dts))
SimSpec == Init /\ [][SimNext \/ Emit]_vars

---------------------------------------------------------------------------
(* The pure input machine: pick a, then b (one of them starting at the        *)
(* earliest offset: only the distance between the starts matters).            *)

PPeriodChoices == {Period(l, c) : l \in 0..PMaxLen, c \in [Denoms -> PAmts]}
PPeriodLists   == UNION {[1..n -> PPeriodChoices] : n \in 0..PMaxPeriods}
PScheds        == {Sched(o, ps) : o \in POffsets, ps \in PPeriodLists}
POff0          == SetMin(POffsets)

PureInit == inp = [stage |-> 0] /\ st = <<>> /\ hist = <<>>
PureNext ==
    /\ UNCHANGED <<st, hist>>
    /\ \/ inp.stage = 0 /\ \E a \in PScheds : inp' = [stage |-> 1, a |-> a]
       \/ inp.stage = 1 /\ \E b \in PScheds : (inp.a.start = POff0 \/ b.start = POff0) /\ inp' = [stage |-> 2, a |-> inp.a, b |-> b]
PureSpec == PureInit /\ [][PureNext]_vars

\* one schedule: M's reads against P at every instant, and P's own laws
SingleKinds(D, s) ==
    LET T    == Horizon({s})
        ts   == SortedSeq(T)
        ends == {End(s), End(s) + 1}   \* the exact end and a later account end
    IN UNION { LET tot == Total(D, s)
                   outs == [k \in SeqIdx(ts) |-> MRead(D, s.start, e, s.periods, tot, ts[k])]
                   cnts == [k \in SeqIdx(ts) |-> MPastCount(D, s.start, e, s.periods, ts[k])]
               IN ReadKinds(D, s, e, tot, ts, outs, cnts) : e \in ends }
       \cup (IF ReadLaws(D, s, T) THEN {} ELSE {"P-read-laws"})

\* a pair: merge, cap, align; and, when the two describe one grant from one start, the account
\* built from them (a = lockup, b = vesting): getters and clawback at every instant
AcctOf(D, a, b) == MNewAcct(D, "f1", Total(D, b), a.start, a.periods, b.periods)
PairKinds(D, a, b, comp) ==
    DisjunctKinds(D, a, b, MDisjunct(a, b))
    \cup ConjunctKinds(D, a, b, MConjunct(D, a, b))
    \cup AlignKinds(D, a, b, MAlign(a, b))
    \cup (IF a.start = b.start /\ CEq(Total(D, a), Total(D, b)) THEN
            LET acc == AcctOf(D, a, b)
                ts  == SortedSeq(Horizon({a, b}))
                g   == [ts |-> ts,
                        vested   |-> [k \in SeqIdx(ts) |-> MRead(D, acc.start, acc.end, acc.vesting, acc.orig, ts[k])],
                        unvested |-> [k \in SeqIdx(ts) |-> CSub(acc.orig, MRead(D, acc.start, acc.end, acc.vesting, acc.orig, ts[k]))],
                        unlocked |-> [k \in SeqIdx(ts) |-> MRead(D, acc.start, acc.end, acc.lockup, acc.orig, ts[k])],
                        lockedup |-> [k \in SeqIdx(ts) |-> CSub(acc.orig, MRead(D, acc.start, acc.end, acc.lockup, acc.orig, ts[k]))],
                        unlockedvested |-> [k \in SeqIdx(ts) |-> MUnlockedVested(D, acc, ts[k])],
                        lockedupvested |-> [k \in SeqIdx(ts) |-> MLockedUpVested(D, acc, ts[k])],
                        lockedcoins    |-> [k \in SeqIdx(ts) |-> MLockedCoins(D, acc, ts[k])],
                        delegated      |-> CZero(D)]
            IN AllGetterKinds(D, acc, g)
               \cup UNION { LET cl == MComputeClawback(D, acc, ts[k]) IN
                            ClawbackKinds(D, acc, ts[k], cl.acct, cl.amt) \ (IF comp THEN ClawbackKnown(cl.acct) ELSE {})
                            : k \in SeqIdx(ts) }
          ELSE {})

\* M's pure functions satisfy P on the chosen input (strict), or fail only as the named defects say
PureInv      == /\ inp.stage = 1 => SingleKinds(Denoms, inp.a) = {}
                /\ inp.stage = 2 => PairKinds(Denoms, inp.a, inp.b, FALSE) = {}
PureInv_Comp == /\ inp.stage = 1 => SingleKinds(Denoms, inp.a) = {}
                /\ inp.stage = 2 => PairKinds(Denoms, inp.a, inp.b, TRUE) = {}

PureView == inp

---------------------------------------------------------------------------
(* model values for the configurations (cfg files cannot write tuples) *)

MC_P(l, a)  == Period(l, [d \in Denoms |-> a])
MC_Shapes == {
    [lockup |-> <<MC_P(2, "2")>>,               vesting |-> <<MC_P(1, "1"), MC_P(1, "1")>>],
    [lockup |-> <<MC_P(1, "1"), MC_P(2, "1")>>, vesting |-> <<MC_P(3, "2")>>],
    [lockup |-> <<MC_P(1, "1")>>,               vesting |-> <<>>],
    [lockup |-> <<>>,                           vesting |-> <<MC_P(1, "1"), MC_P(1, "1")>>] }
MC_ShapesSmall == {
    [lockup |-> <<MC_P(2, "2")>>,               vesting |-> <<MC_P(1, "1"), MC_P(1, "1")>>],
    [lockup |-> <<MC_P(1, "1")>>,               vesting |-> <<>>] }
=============================================================================
