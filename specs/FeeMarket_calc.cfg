SPECIFICATION CalcSpec
CONSTANTS
  BaseMax = 30
  GMax = 24
  MaxGases = {"-1", "8", "12", "24"}
  ElasticityMax = 3
  DenominatorMax = 8
  MinGasPrices = {"0", "3000000000000000000", "10000000000000000000"}
  InitBases = {}
  InitMaxGases = {}
  ParamSets = {}
  Gases = {}
  Useds = {}
  SetMaxGases = {}
  SetBases = {}
  MaxAnte = 0
  MaxBlocks = 0
  MaxSets = 0
  MaxBounds = 0
  MaxLen = 0
  Defects = {}
INVARIANT Thm_CodeIsP
INVARIANT Thm_Bounds
INVARIANT Thm_Monotone
CHECK_DEADLOCK FALSE
