SPECIFICATION Spec
CONSTANTS
  BaseMax = 0
  GMax = 0
  MaxGases = {}
  ElasticityMax = 0
  DenominatorMax = 0
  MinGasPrices = {}
  InitBases = {"0", "7", "20"}
  InitMaxGases = {"-1", "24"}
  ParamSets <- MC_ParamSets
  Gases = {"0", "6", "24"}
  Useds = {"0", "5", "24"}
  SetMaxGases = {"8", "0"}
  SetBases = {"1"}
  MaxAnte = 2
  MaxBlocks = 6
  MaxSets = 1
  MaxLen = 0
INVARIANT MInv_Shape
PROPERTY MStep_P
VIEW View
CHECK_DEADLOCK FALSE
