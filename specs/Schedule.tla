------------------------------ MODULE Schedule ------------------------------
(***************************************************************************)
(* Release schedules (vesting / lockup / liquid-vesting) and their          *)
(* DENOTATION.  Reusable: no variables, no constants.  Used by Vesting      *)
(* (C09, later C08) and by LiquidVesting (C11).                             *)
(*                                                                         *)
(* A schedule is a record                                                   *)
(*     [start |-> Int, periods |-> << [len |-> Int, amt |-> Coins], ... >>] *)
(* where Coins is a function denom -> amount and every amount is an exact   *)
(* integer in decimal-string form (module BigNum).  Period i ends at        *)
(*     EndAt(s, i) = s.start + len_1 + ... + len_i                          *)
(* and releases amt_i at that instant.  Times are integers (seconds): small *)
(* naturals in the exhaustive models, offsets from a logged base time in    *)
(* traces of the real code.                                                 *)
(*                                                                         *)
(* The denotation of a schedule is the bag of its release events,           *)
(*     Events(D, s) : time -> Coins  (summed per instant, zero amounts       *)
(*                                    dropped)                              *)
(* and everything the property statement says is said about that bag:       *)
(*     Cum(D, s, t)   sum of all events with time <= t  (the step function) *)
(*     Read(D, s, t)  what a reader sees at t: "the sum of all periods ended *)
(*                    by t ... zero up to the start": Cum, but zero for      *)
(*                    t <= s.start                                          *)
(* The two differ only at t = s.start and only when a zero-length leading   *)
(* period puts an event exactly on the start: the statement's two clauses   *)
(* ("all periods ended by t" / "zero up to the start") contradict each other *)
(* there and nowhere else.  Read follows the more explicit clause; the      *)
(* pointwise clauses for merge and cap below accept either reading at such  *)
(* an instant, so that P is never stricter than the statement.              *)
(*                                                                         *)
(* D is the set of denominations, passed explicitly so that the empty       *)
(* schedule has a well-defined zero.                                        *)
(***************************************************************************)
EXTENDS Integers, Sequences, FiniteSets, FiniteSetsExt, TLC, BigNum

---------------------------------------------------------------------------
(* Coins: total functions D -> amount string *)

CZero(D)   == [d \in D |-> "0"]
CAdd(a, b) == [d \in DOMAIN a |-> BigAdd(a[d], b[d])]
CSub(a, b) == [d \in DOMAIN a |-> BigSub(a[d], b[d])]
CMin(a, b) == [d \in DOMAIN a |-> BigMin(a[d], b[d])]
CLE(a, b)  == \A d \in DOMAIN a : BigLE(a[d], b[d])
CEq(a, b)  == DOMAIN a = DOMAIN b /\ \A d \in DOMAIN a : BigEq(a[d], b[d])
CIsZero(a) == \A d \in DOMAIN a : BigIsZero(a[d])
CNonNeg(a) == \A d \in DOMAIN a : BigSign(a[d]) >= 0
CSum(D, S, f(_)) == FoldSet(LAMBDA x, acc : CAdd(acc, f(x)), CZero(D), S)

IMin(a, b) == IF a <= b THEN a ELSE b
IMax(a, b) == IF a >= b THEN a ELSE b
SetMin(S)  == CHOOSE x \in S : \A y \in S : x <= y
SetMax(S)  == CHOOSE x \in S : \A y \in S : x >= y
RECURSIVE SortedSeq(_)
SortedSeq(S) == IF S = {} THEN <<>> ELSE LET m == SetMin(S) IN <<m>> \o SortedSeq(S \ {m})

---------------------------------------------------------------------------
(* Schedules *)

Sched(start, periods) == [start |-> start, periods |-> periods]
Period(len, amt)      == [len |-> len, amt |-> amt]
NP(s)  == Len(s.periods)
Idx(s) == 1..NP(s)

RECURSIVE SumLen(_, _)
SumLen(ps, n) == IF n = 0 THEN 0 ELSE SumLen(ps, n - 1) + ps[n].len

TotalLength(ps) == SumLen(ps, Len(ps))
EndAt(s, i)     == s.start + SumLen(s.periods, i)
End(s)          == EndAt(s, NP(s))

\* lengths and amounts are non-negative (the only schedules the statement talks about)
WellFormed(s) == \A i \in Idx(s) : s.periods[i].len >= 0 /\ CNonNeg(s.periods[i].amt)

SumAmt(D, s, I) == CSum(D, I, LAMBDA i : s.periods[i].amt)
Total(D, s)     == SumAmt(D, s, Idx(s))

---------------------------------------------------------------------------
(* Denotation *)

AmtAt(D, s, t)   == SumAmt(D, s, {i \in Idx(s) : EndAt(s, i) = t})
EventTimes(D, s) == {t \in {EndAt(s, i) : i \in Idx(s)} : ~CIsZero(AmtAt(D, s, t))}
Events(D, s)     == [t \in EventTimes(D, s) |-> AmtAt(D, s, t)]

\* bags of events as functions time -> Coins
BagUnion(e1, e2) ==
    [t \in DOMAIN e1 \cup DOMAIN e2 |->
        IF t \in DOMAIN e1 /\ t \in DOMAIN e2 THEN CAdd(e1[t], e2[t])
        ELSE IF t \in DOMAIN e1 THEN e1[t] ELSE e2[t]]
BagEq(e1, e2) == DOMAIN e1 = DOMAIN e2 /\ \A t \in DOMAIN e1 : CEq(e1[t], e2[t])
BagCum(D, e, t) == CSum(D, {u \in DOMAIN e : u <= t}, LAMBDA u : e[u])

\* the step function of the bag, and what a reader sees
Cum(D, s, t)  == SumAmt(D, s, {i \in Idx(s) : EndAt(s, i) <= t})
Read(D, s, t) == IF t <= s.start THEN CZero(D) ELSE Cum(D, s, t)
\* number of periods ended by t (zero up to the start)
PastCount(s, t) == IF t <= s.start THEN 0 ELSE Cardinality({i \in Idx(s) : EndAt(s, i) <= t})

\* the two parts of a grant `orig` at t under schedule s
Released(D, s, t)       == Read(D, s, t)
Remaining(D, s, orig, t) == CSub(orig, Read(D, s, t))

---------------------------------------------------------------------------
(* Merge (disjunction) and cap (conjunction), denotationally *)

\* merge = union of the release events
Union(D, a, b) == BagUnion(Events(D, a), Events(D, b))
IsUnion(D, r, a, b) == BagEq(Events(D, r), Union(D, a, b))

\* cap = pointwise minimum of the step functions
PointwiseMin(D, a, b, t) == CMin(Cum(D, a, t), Cum(D, b, t))
\* r is the cap of a and b at instant t; at an instant where the statement's two readings of
\* "read" differ (an event exactly on a start) either reading is accepted
IsMinAt(D, r, a, b, t) ==
    \/ CEq(Cum(D, r, t), PointwiseMin(D, a, b, t))
    \/ CEq(Read(D, r, t), CMin(Read(D, a, t), Read(D, b, t)))

\* "after both have started the merged schedule releases the sum of the two"
IsSumAt(D, r, a, b, t) ==
    t > IMax(a.start, b.start) => CEq(Read(D, r, t), CAdd(Read(D, a, t), Read(D, b, t)))
\* "before its own start a schedule releases nothing": nothing of r before the earlier start
NothingBefore(D, r, a, b, t) ==
    t < IMin(a.start, b.start) => CIsZero(Cum(D, r, t))

\* s1 releases nothing earlier than s2 (on the instants T)
NoEarlier(D, s1, s2, T) == \A t \in T : CLE(Cum(D, s1, t), Cum(D, s2, t))

---------------------------------------------------------------------------
(* Instants.  Every function above is a step function that can change only at *)
(* an event time or (Read) one second after a start, so a statement "for all  *)
(* t" about schedules S holds iff it holds on Crit(S).  The exhaustive models  *)
(* use the whole Horizon(S) anyway; traces with real time spans use Crit(S).   *)

Crit(S) == UNION { {s.start - 1, s.start, s.start + 1} \cup
                   UNION {{EndAt(s, i) - 1, EndAt(s, i), EndAt(s, i) + 1} : i \in Idx(s)} : s \in S }
Horizon(S) == (SetMin({s.start : s \in S}) - 1) .. (SetMax({End(s) : s \in S}) + 1)
\* everything when the span is small, the critical instants otherwise
Instants(S) == LET h == Horizon(S) IN IF Cardinality(h) <= 40 THEN h \cup Crit(S) ELSE Crit(S)

---------------------------------------------------------------------------
(* Consequences of the denotation that the statement spells out ("non-         *)
(* decreasing in t, zero up to the start and equal to the total from the end   *)
(* on, ... never go negative").  They are theorems about Read; the exhaustive  *)
(* configurations check them on every schedule of the model (ReadLaws), the    *)
(* trace specification evaluates the same clauses on the values the real code  *)
(* returned.                                                                  *)

ReadLaws(D, s, T) ==
    /\ \A t \in T : t <= s.start => CIsZero(Read(D, s, t))
    /\ \A t \in T : (t >= End(s) /\ t > s.start) => CEq(Read(D, s, t), Total(D, s))
    /\ \A t, u \in T : t <= u => CLE(Read(D, s, t), Read(D, s, u))
    /\ \A t \in T : CNonNeg(Read(D, s, t)) /\ CNonNeg(Remaining(D, s, Total(D, s), t))
    /\ \A t \in T : CEq(CAdd(Released(D, s, t), Remaining(D, s, Total(D, s), t)), Total(D, s))
    /\ \A t \in T : t > s.start => CEq(Read(D, s, t), BagCum(D, Events(D, s), t))

=============================================================================
