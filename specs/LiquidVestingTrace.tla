------------------------- MODULE LiquidVestingTrace -------------------------
(* Validates traces recorded from the real code by harness/liquidvesting.go against the     *)
(* property layer P of LiquidVesting (verdict) and against the as-built machine M            *)
(* (diagnostic).  Deterministic and total: every line is consumed, the model                 *)
(* re-synchronises on the logged state, violations are accumulated as signatures.            *)
(*   pure lines     {"ev":"pure","fn":..,"args":..,"ok":..,"out":..}: outputs of the real     *)
(*                  schedule helpers.  P: SplitOK on every accepted "subtract".  M: the       *)
(*                  transcriptions must return the same lists / numbers.                      *)
(*   history lines  {"ev":"liquidate"|"transfer"|"redeem","args":..,"ok":..,"post":..,"obs"}  *)
(*                  P: StepBroken, BrokenInvariants.  M: MResult, and the bank's own idea of  *)
(*                  what is locked now (obs.locked) must be LockedAt of the recorded account. *)
EXTENDS LiquidVesting

VARIABLES l, viol, div, nscn, stats
tvars == <<st, hist, clk, l, viol, div, nscn, stats>>

Trace == ndJsonDeserialize("trace.ndjson")

Sig(kind, class, e) == [prop |-> "C11", kind |-> kind, class |-> class, scn |-> e.scn, line |-> l]
Div(what, class, e) == [what |-> what, class |-> class, scn |-> e.scn, line |-> l]

\* successful redeems per recipient class (vacuity floors)
Bump(f, c) == IF c \in DOMAIN f THEN [f EXCEPT ![c] = @ + 1] ELSE [x \in DOMAIN f \cup {c} |-> IF x = c THEN 1 ELSE f[x]]

TraceInit ==
    /\ l = 1 /\ viol = {} /\ div = {} /\ nscn = 0
    /\ st = [enabled |-> TRUE] /\ hist = <<>> /\ clk = 0
    /\ stats = [splits |-> 0, steps |-> 0, redeems |-> [none |-> 0]]

\* ---- pure lines
PureViol(e) ==
    IF e.fn = "subtract" /\ e.ok
    THEN (IF SplitOK(e.args.periods, e.args.x, e.out.dec, e.out.diff) THEN {}
          ELSE {Sig("split", "periods=" \o (IF Len(e.args.periods) <= 4 THEN ToString(Len(e.args.periods)) ELSE ">4"), e)})
    ELSE {}

PureDiv(e) ==
    LET a == e.args IN
    CASE e.fn = "subtract" ->
           LET r == MSubtract(a.periods, a.x) IN
           IF r.ok # e.ok THEN {Div("subtract:accept/reject", "-", e)}
           ELSE IF e.ok /\ ~(r.dec = e.out.dec /\ r.diff = e.out.diff) THEN {Div("subtract:lists", "-", e)} ELSE {}
      [] e.fn = "upcoming" ->
           IF e.ok /\ e.out.periods = MUpcoming(a.start, a.end, a.periods, a.t) THEN {} ELSE {Div("upcoming", "-", e)}
      [] e.fn = "past" ->
           IF e.ok /\ e.out.periods = MPast(a.start, a.end, a.periods, a.t) THEN {} ELSE {Div("past", "-", e)}
      [] e.fn = "replace_tail" ->
           IF e.ok /\ e.out.periods = MReplaceTail(a.periods, a.repl) THEN {} ELSE {Div("replace_tail", "-", e)}
      [] e.fn = "shift" ->
           IF e.ok /\ e.out.shift = MShift(a.start, a.t, a.periods) THEN {} ELSE {Div("shift", "-", e)}
      [] OTHER -> {Div("unknown-fn", "-", e)}

\* ---- history lines
\* is the recorded outcome exactly the one the as-built machine (with the Defects of the cfg) predicts?
AsBuilt(e) == LET r == MResult(st, e.ev, e.args) IN r.ok = e.ok /\ r.post = e.post
\* the class of a redeem into an unfinished vesting recipient says so: a known finding is listed with
\* as-built=yes; a change of behaviour inside that class gives as-built=NO, a different signature
TraceClass(e) ==
    StepClass(e, st) \o (IF e.ev = "redeem" /\ e.args.to \in AcctsOf(st) /\ VestingUnfinished(st.acct[e.args.to], e.args.t)
                         THEN ",as-built=" \o (IF AsBuilt(e) THEN "yes" ELSE "NO") ELSE "")
StepViol(e) ==
    LET c == TraceClass(e) IN
    {Sig(k, c, e) : k \in StepBroken(e, st, e.post)
                      \cup (IF e.ev = "redeem" /\ e.ok
                            THEN RedeemObservedBroken(st, e.post, e.args.denom, e.args.amt, e.obs.paid) ELSE {})}
    \cup {Sig(n, c, e) : n \in BrokenInvariants(e.post) \ BrokenInvariants(st)}

StepDiv(e) ==
    LET c == StepClass(e, st)
        r == MResult(st, e.ev, e.args) IN
    (IF r.ok # e.ok THEN {Div(e.ev \o ":accept/reject", c, e)}
     ELSE IF r.post # e.post THEN {Div(e.ev \o ":post-state", c, e)} ELSE {})
    \cup {Div("bank-locked-coins", c, e) : a \in {a \in AcctsOf(e.post) : e.obs.locked[a] # LockedAt(e.post.acct[a], e.args.t)}}

TraceNext ==
    /\ l <= Len(Trace)
    /\ LET e == Trace[l] IN
       /\ l' = l + 1
       /\ UNCHANGED <<hist, clk>>
       /\ IF e.ev = "reset"
          THEN /\ nscn' = nscn + 1
               /\ st' = e.post
               /\ viol' = viol \cup {Sig("init:" \o n, "-", e) : n \in BrokenInvariants(e.post)}
               /\ UNCHANGED <<div, stats>>
          ELSE IF e.ev = "pure"
          THEN /\ UNCHANGED <<nscn, st>>
               /\ viol' = viol \cup PureViol(e)
               /\ div' = div \cup PureDiv(e)
               /\ stats' = [stats EXCEPT !.splits = @ + (IF e.fn = "subtract" /\ e.ok THEN 1 ELSE 0)]
          ELSE /\ nscn' = nscn
               /\ st' = e.post
               /\ viol' = viol \cup StepViol(e)
               /\ div' = div \cup StepDiv(e)
               /\ stats' = [stats EXCEPT !.steps = @ + 1,
                                         !.redeems = IF e.ev = "redeem" /\ e.ok THEN Bump(@, StepClass(e, st)) ELSE @]

TraceSpec == TraceInit /\ [][TraceNext]_tvars

Report == l <= Len(Trace) \/
          PrintT(<<"RESULT", ToJson([consumed |-> l - 1, scenarios |-> nscn, viol |-> viol, div |-> div, stats |-> stats])>>)
=============================================================================
