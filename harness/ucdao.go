package main

import (
	"flag"
	"fmt"
	"sort"

	sdkmath "cosmossdk.io/math"
	sdk "github.com/cosmos/cosmos-sdk/types"
	authtypes "github.com/cosmos/cosmos-sdk/x/auth/types"
	banktypes "github.com/cosmos/cosmos-sdk/x/bank/types"
	"github.com/cosmos/cosmos-sdk/types/query"

	ucdaokeeper "github.com/haqq-network/haqq/x/ucdao/keeper"
	ucdaotypes "github.com/haqq-network/haqq/x/ucdao/types"
)

// Driver for specs/Ucdao.tla (property C12).
//
// Script step (from TLC):  {"ev": "fund"|"transfer_all"|"transfer_amount"|"transfer_ratio"|"set_enabled"|
//                                 "reimport"|"transfer_dup"|"bank_send"|"bank_multisend",
//                           "args": {...}, "ok": <model's prediction, ignored here>}
// Trace line:              {"ev","args","ok","err","post": <ledger state>, "scn": n}
// A "reset" line starts a scenario and carries the initial state.

func init() { register("ucdao", ucdaoMain) }

type daoStep struct {
	Ev   string `json:"ev"`
	Args M      `json:"args"`
}

type daoCfg struct {
	Names    []string          `json:"names"`
	Denoms   []string          `json:"denoms"`
	InitBank map[string]string `json:"initBank"`
	Seed     int64             `json:"seed"`
}

type daoScript struct {
	Cfg   *daoCfg   `json:"cfg"`
	Steps []daoStep `json:"steps"`
}

type daoEnv struct {
	cfg *daoCfg
	*Env
	names  []string // symbolic account names, sorted
	keys   map[string]Key
	denoms []string // symbolic denom -> real denom is the identity except "bad"
	scale  *sdkmath.Int
}

var daoRealDenom = map[string]string{"aISLM": "aISLM", "aLIQUID0": "aLIQUID0", "aLIQUID7": "aLIQUID7", "bad": "ibc/BAD"}

func (d *daoEnv) real(denom string) string {
	if r, ok := daoRealDenom[denom]; ok {
		return r
	}
	return denom
}

func (d *daoEnv) coins(c M) sdk.Coins {
	out := sdk.Coins{}
	keys := make([]string, 0, len(c))
	for k := range c {
		keys = append(keys, k)
	}
	sort.Strings(keys)
	for _, k := range keys {
		amt := sdkmath.NewIntFromBigInt(mustBig(c[k].(string)))
		if amt.IsZero() {
			continue
		}
		out = append(out, sdk.NewCoin(d.real(k), amt))
	}
	return out.Sort()
}

// project reads the whole abstract ledger from the real stores.
func (d *daoEnv) project() M {
	ctx := d.Ctx
	k := d.App.DaoKeeper
	nameOf := map[string]string{}
	for n, key := range d.keys {
		nameOf[key.Addr.String()] = n
	}
	symOf := map[string]string{}
	for _, s := range d.denoms {
		symOf[d.real(s)] = s
	}
	zero := func() M {
		m := M{}
		for _, s := range d.denoms {
			m[s] = "0"
		}
		return m
	}
	share := M{}
	bank := M{}
	holders := M{}
	for _, n := range d.names {
		share[n] = zero()
		b := zero()
		for _, s := range d.denoms {
			b[s] = bigStr(d.App.BankKeeper.GetBalance(ctx, d.keys[n].Addr, d.real(s)).Amount)
		}
		bank[n] = b
		holders[n] = false
	}
	// every balance in the store, whoever owns it: a share appearing on an account or in a
	// denomination outside the scenario's domain changes the shape of the state and is seen.
	k.IterateAllBalances(ctx, func(addr sdk.AccAddress, c sdk.Coin) bool {
		n, ok := nameOf[addr.String()]
		if !ok {
			n = "other_" + addr.String()
			if _, ok := share[n]; !ok {
				share[n] = zero()
			}
		}
		s, ok := symOf[c.Denom]
		if !ok {
			s = c.Denom
		}
		share[n].(M)[s] = bigStr(c.Amount)
		return false
	})
	total := zero()
	k.IterateTotalBalance(ctx, func(c sdk.Coin) bool {
		s, ok := symOf[c.Denom]
		if !ok {
			s = c.Denom
		}
		total[s] = bigStr(c.Amount)
		return false
	})
	res, err := k.Holders(sdk.WrapSDKContext(ctx), &ucdaotypes.QueryHoldersRequest{Pagination: &query.PageRequest{Limit: 100000}})
	if err != nil {
		panic(err)
	}
	for _, b := range res.Balances {
		n, ok := nameOf[b.Address]
		if !ok {
			n = "other_" + b.Address
		}
		holders[n] = true
	}
	bankMod := zero()
	modAddr := authtypes.NewModuleAddress(ucdaotypes.ModuleName)
	for _, c := range d.App.BankKeeper.GetAllBalances(ctx, modAddr) {
		s, ok := symOf[c.Denom]
		if !ok {
			s = c.Denom
		}
		bankMod[s] = bigStr(c.Amount)
	}
	return M{"share": share, "total": total, "holders": holders, "bankMod": bankMod, "bank": bank,
		"enabled": k.(ucdaokeeper.BaseKeeper).GetParams(ctx).EnableDao}
}

func newDaoEnv(seed int64, names, denoms []string, initBank map[string]string) *daoEnv {
	d := &daoEnv{Env: NewEnv(seed), names: names, denoms: denoms, keys: map[string]Key{}}
	for _, n := range names {
		d.keys[n] = DetKey(seed, n)
		coins := sdk.Coins{}
		for _, s := range denoms {
			amt := sdkmath.NewIntFromBigInt(mustBig(initBank[s]))
			if amt.IsPositive() {
				coins = append(coins, sdk.NewCoin(d.real(s), amt))
			}
		}
		d.Fund(d.keys[n].Addr, coins.Sort())
	}
	return d
}

// step executes one abstract action on the real message server.
func (d *daoEnv) step(st daoStep) (bool, string) {
	acct := func(k string) sdk.AccAddress { return d.keys[st.Args[k].(string)].Addr }
	// recipient of a foreign message: an account of the scenario or the DAO module account ("dao")
	rcpt := func(n string) sdk.AccAddress {
		if n == "dao" {
			return authtypes.NewModuleAddress(ucdaotypes.ModuleName)
		}
		return d.keys[n].Addr
	}
	var msg sdk.Msg
	switch st.Ev {
	case "fund":
		msg = ucdaotypes.NewMsgFund(d.coins(st.Args["coins"].(M)), acct("acct"))
	case "transfer_all":
		msg = ucdaotypes.NewMsgTransferOwnership(acct("owner"), acct("newOwner"))
	case "transfer_amount":
		msg = ucdaotypes.NewMsgTransferOwnershipWithAmount(acct("owner"), acct("newOwner"), d.coins(st.Args["coins"].(M)))
	case "transfer_ratio":
		r := st.Args["ratio"].([]any)
		ratio := sdkmath.LegacyNewDecFromBigInt(mustBig(r[0].(string))).Quo(sdkmath.LegacyNewDecFromBigInt(mustBig(r[1].(string))))
		// log the ratio the message really carries (18-decimal fixed point)
		st.Args["ratio"] = []any{ratio.BigInt().String(), "1000000000000000000"}
		msg = ucdaotypes.NewMsgTransferOwnershipWithRatio(acct("owner"), acct("newOwner"), ratio)
	case "bank_send":
		// x/bank through the message router (haqq's wrapper of the bank message server)
		msg = banktypes.NewMsgSend(acct("from"), rcpt(st.Args["to"].(string)), d.coins(st.Args["coins"].(M)))
	case "bank_multisend":
		// one input = the sum of the outputs
		sum := sdk.Coins{}
		var outs []banktypes.Output
		for _, o := range st.Args["outs"].([]any) {
			c := d.coins(o.(M)["coins"].(M))
			sum = sum.Add(c...)
			outs = append(outs, banktypes.NewOutput(rcpt(o.(M)["to"].(string)), c))
		}
		msg = banktypes.NewMsgMultiSend([]banktypes.Input{banktypes.NewInput(acct("from"), sum)}, outs)
	case "reimport":
		// ExportGenesis -> empty the module's store -> InitGenesis (the optional declared total kept or left out)
		bk := d.App.DaoKeeper.(ucdaokeeper.BaseKeeper)
		var ierr string
		func() {
			defer func() {
				if r := recover(); r != nil {
					ierr = fmt.Sprint("panic: ", r)
				}
			}()
			cctx, write := d.Ctx.CacheContext()
			gs := bk.ExportGenesis(cctx)
			if st.Args["declared"] != true {
				gs.TotalBalance = sdk.Coins{}
			}
			store := cctx.KVStore(d.App.GetKey(ucdaotypes.StoreKey))
			var keys [][]byte
			it := store.Iterator(nil, nil)
			for ; it.Valid(); it.Next() {
				keys = append(keys, append([]byte{}, it.Key()...))
			}
			it.Close()
			for _, k := range keys {
				store.Delete(k)
			}
			bk.InitGenesis(cctx, gs)
			write()
		}()
		return ierr == "", ierr
	case "transfer_dup":
		// a hand-crafted amount that names one denomination several times
		var cs sdk.Coins
		for i := 0; i < int(st.Args["times"].(float64)); i++ {
			cs = append(cs, sdk.NewCoin(d.real(st.Args["denom"].(string)), sdkmath.NewIntFromBigInt(mustBig(st.Args["amt"].(string)))))
		}
		msg = &ucdaotypes.MsgTransferOwnershipWithAmount{Owner: acct("owner").String(), NewOwner: acct("newOwner").String(), Amount: cs}
	case "set_enabled":
		bk := d.App.DaoKeeper.(ucdaokeeper.BaseKeeper)
		p := bk.GetParams(d.Ctx)
		p.EnableDao = st.Args["enabled"].(bool)
		if err := bk.SetParams(d.Ctx, p); err != nil {
			return false, err.Error()
		}
		return true, ""
	default:
		panic("unknown ucdao step " + st.Ev)
	}
	_, err := d.Exec(msg)
	return err == nil, errStr(err)
}

func ucdaoMain(args []string) error {
	fs := flag.NewFlagSet("ucdao", flag.ExitOnError)
	scripts := fs.String("scripts", "", "JSON file: array of scripts (arrays of steps)")
	random := fs.Int("random", 0, "number of random scenarios")
	steps := fs.Int("steps", 12, "steps per random scenario")
	seed := fs.Int64("seed", 1, "seed")
	out := fs.String("out", "trace.ndjson", "trace output")
	fs.Parse(args)

	tw, err := NewTraceWriter(*out)
	if err != nil {
		return err
	}
	defer tw.Close()
	scn := 0

	run := func(d *daoEnv, src string, script []daoStep) {
		scn++
		tw.Emit(M{"ev": "reset", "scn": scn, "src": src, "cfg": d.cfg, "post": d.project()})
		for _, st := range script {
			ok, e := d.step(st)
			tw.Emit(M{"ev": st.Ev, "args": st.Args, "ok": ok, "err": e, "post": d.project(), "scn": scn})
		}
	}

	if *scripts != "" {
		var all []daoScript
		if err := readJSONFile(*scripts, &all); err != nil {
			return err
		}
		for i, sc := range all {
			cfg := sc.Cfg
			if cfg == nil {
				cfg = &daoCfg{Names: []string{"a1", "a2", "a3"}, Denoms: []string{"aISLM", "aLIQUID0", "bad"},
					InitBank: map[string]string{"aISLM": "3", "aLIQUID0": "3", "bad": "3"}, Seed: *seed + int64(i)}
			}
			d := newDaoEnv(cfg.Seed, cfg.Names, cfg.Denoms, cfg.InitBank)
			d.cfg = cfg
			run(d, "script", sc.Steps)
		}
	}

	for i := 0; i < *random; i++ {
		s := *seed*1000003 + int64(i)
		names := []string{"a1", "a2", "a3", "a4", "a5"}
		denoms := []string{"aISLM", "aLIQUID0", "aLIQUID7", "bad"}
		ib := map[string]string{
			"aISLM": "5000000000000000000000", "aLIQUID0": "777000000000000000001", "aLIQUID7": "1000", "bad": "50"}
		d := newDaoEnv(s, names, denoms, ib)
		d.cfg = &daoCfg{Names: names, Denoms: denoms, InitBank: ib, Seed: s}
		r := d.Rand
		pickAmt := func(max string) string {
			if max == "" {
				max = "40000000000000000000"
			}
			m := mustBig(max)
			switch r.Intn(6) {
			case 0:
				return "0"
			case 1:
				return "1"
			case 2:
				return max
			default:
				if m.Sign() == 0 {
					return "0"
				}
				x := sdkmath.NewIntFromBigInt(m).MulRaw(int64(r.Intn(1000))).QuoRaw(1000)
				return x.String()
			}
		}
		var script []daoStep
		for j := 0; j < *steps; j++ {
			a := names[r.Intn(len(names))]
			b := names[r.Intn(len(names))]
			if r.Intn(5) == 0 {
				b = a
			}
			coins := M{}
			for _, dn := range denoms {
				if r.Intn(2) == 0 {
					coins[dn] = "0"
				} else if dn == "bad" && r.Intn(4) != 0 {
					coins[dn] = "0"
				} else {
					// within what an account can pay a few times over (aLIQUID7 and bad are scarce)
					coins[dn] = pickAmt(map[string]string{"aISLM": "900000000000000000000", "aLIQUID0": "300000000000000000000", "aLIQUID7": "400", "bad": "20"}[dn])
				}
			}
			// liquid coins for a foreign (bank) message
			bankCoins := func() M {
				c := M{}
				for _, dn := range denoms {
					c[dn] = "0"
					if r.Intn(3) == 0 {
						c[dn] = pickAmt(map[string]string{"aLIQUID7": "300", "bad": "20"}[dn])
					}
				}
				return c
			}
			rcpt := func() string {
				if r.Intn(3) == 0 {
					return "dao"
				}
				return names[r.Intn(len(names))]
			}
			switch r.Intn(12) {
			case 10:
				script = append(script, daoStep{"bank_send", M{"from": a, "to": rcpt(), "coins": bankCoins()}})
			case 11:
				var outs []any
				for n := 1 + r.Intn(4); n > 0; n-- {
					outs = append(outs, M{"to": rcpt(), "coins": bankCoins()})
				}
				script = append(script, daoStep{"bank_multisend", M{"from": a, "outs": outs}})
			case 0, 1, 2, 3:
				script = append(script, daoStep{"fund", M{"acct": a, "coins": coins}})
			case 4:
				script = append(script, daoStep{"transfer_all", M{"owner": a, "newOwner": b}})
			case 5, 6:
				script = append(script, daoStep{"transfer_amount", M{"owner": a, "newOwner": b, "coins": coins}})
			case 7, 8:
				// three decimals, or all eighteen the message can carry
				num, den := fmt.Sprint(1+r.Intn(1000)), "1000"
				if r.Intn(2) == 0 {
					num, den = fmt.Sprint(1+r.Int63n(1000000000000000000)), "1000000000000000000"
				}
				script = append(script, daoStep{"transfer_ratio", M{"owner": a, "newOwner": b, "ratio": []any{num, den}}})
			case 9:
				switch r.Intn(3) {
				case 0:
					script = append(script, daoStep{"set_enabled", M{"enabled": r.Intn(3) != 0}})
				case 1:
					script = append(script, daoStep{"reimport", M{"declared": r.Intn(2) == 0}})
				default:
					script = append(script, daoStep{"transfer_dup", M{"owner": a, "newOwner": b, "denom": denoms[r.Intn(len(denoms))], "amt": pickAmt("900000000000000000000"), "times": float64(2 + r.Intn(2))}})
				}
			}
		}
		// transfer_amount amounts are drawn relative to what the owner really holds at that
		// point, so they are computed while running
		scn++
		tw.Emit(M{"ev": "reset", "scn": scn, "src": "random", "cfg": d.cfg, "post": d.project()})
		for _, st := range script {
			// most transfers are signed by somebody who holds a share at that point (also decided while running)
			if _, isTransfer := st.Args["owner"]; isTransfer && r.Intn(4) != 0 {
				has := map[string]bool{}
				d.App.DaoKeeper.IterateAllBalances(d.Ctx, func(addr sdk.AccAddress, c sdk.Coin) bool {
					if c.Amount.IsPositive() {
						has[addr.String()] = true
					}
					return false
				})
				var hs []string
				for _, n := range names {
					if has[d.keys[n].Addr.String()] {
						hs = append(hs, n)
					}
				}
				if len(hs) > 0 {
					self := st.Args["owner"] == st.Args["newOwner"]
					st.Args["owner"] = hs[r.Intn(len(hs))]
					if self {
						st.Args["newOwner"] = st.Args["owner"]
					}
				}
			}
			if st.Ev == "transfer_amount" {
				own := d.keys[st.Args["owner"].(string)].Addr
				coins := st.Args["coins"].(M)
				for _, dn := range denoms {
					if coins[dn] != "0" {
						have := d.App.DaoKeeper.GetBalance(d.Ctx, own, d.real(dn)).Amount
						switch r.Intn(4) {
						case 0:
							coins[dn] = have.String()
						case 1:
							coins[dn] = have.AddRaw(1).String()
						default:
							coins[dn] = have.MulRaw(int64(r.Intn(1000))).QuoRaw(1000).String()
						}
					}
				}
			}
			ok, e := d.step(st)
			tw.Emit(M{"ev": st.Ev, "args": st.Args, "ok": ok, "err": e, "post": d.project(), "scn": scn})
		}
	}
	fmt.Printf("ucdao: scenarios=%d lines=%d\n", scn, tw.N)
	return nil
}
