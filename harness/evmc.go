package main

// Driver for specs/EvmCosmos.tla (C02, C04, C05): one Ethereum transaction whose call tree
// (value transfers, precompile calls, reverting frames) comes from the specification, executed
// through DeliverTx on a chain with delegations, rewards, withdraw addresses and grants set up
// as the scenario demands; Cosmos-side and EVM-side state projected before and after.

import (
	ethtypes "github.com/ethereum/go-ethereum/core/types"
	"bytes"
	"encoding/json"
	"flag"
	"fmt"
	"math/big"
	"sort"
	"time"

	sdkmath "cosmossdk.io/math"
	sdk "github.com/cosmos/cosmos-sdk/types"
	authtypes "github.com/cosmos/cosmos-sdk/x/auth/types"
	"github.com/cosmos/cosmos-sdk/x/authz"
	distrtypes "github.com/cosmos/cosmos-sdk/x/distribution/types"
	stakingtypes "github.com/cosmos/cosmos-sdk/x/staking/types"
	"github.com/ethereum/go-ethereum/common"
	ethcrypto "github.com/ethereum/go-ethereum/crypto"
	dbm "github.com/cometbft/cometbft-db"

	transfertypes "github.com/cosmos/ibc-go/v7/modules/apps/transfer/types"
	stakingprecompile "github.com/haqq-network/haqq/precompiles/staking"
	"github.com/haqq-network/haqq/utils"
	evmtypes "github.com/haqq-network/haqq/x/evm/types"
)

func init() { register("evmc", evmcMain) }

type evmcGrant struct {
	Grantee string `json:"grantee"`
	Limit   string `json:"limit"` // "" = unlimited
	Expired bool   `json:"expired"`
	Type    string `json:"type"` // delegate | undelegate | redelegate | cancel
	Val     int    `json:"val"`  // allowed validator
	Alloc2  string `json:"alloc2"` // type ibc: limit of a second allocation (transfer/channel-1) in the same authorization; "" = none, "unl"
}

type evmcSetup struct {
	Signer  string            `json:"signer"` // a1 | v1
	Wd      map[string]string `json:"wd"`     // role -> withdraw role ("self" | "W" | ...)
	Grants  []evmcGrant       `json:"grants"`
	DelegS  string            `json:"delegS"`
	DelegT  string            `json:"delegT"`
	UbdS    string            `json:"ubdS"`
	FundC   string            `json:"fundC"`
	Warm    int               `json:"warm"`
	DelegC  string            `json:"delegC"`  // delegation owned by contract C0 (funded+delegated at set-up through a grantless path: bank send + keeper Delegate)
	TxValue string            `json:"txValue"` // value attached to the top-level tx (only when top is a call)
	Denom2  bool              `json:"denom2"`  // rewards also in a second denomination
	Gas     uint64            `json:"gas"`     // gas limit of the transaction under test (default 3,000,000)
	NoNFund bool              `json:"noNFund"` // the addresses of nested CREATEs are not funded beforehand: they have no account
	Fresh   bool              `json:"fresh"`   // a further role F: an address without an account (no coins, nothing)
	PriorLog bool             `json:"priorLog"` // an earlier transaction of the same block emits a log (the log index of the block is not 0)
	Acl     bool              `json:"acl"`     // EIP-2930 transaction whose access list names every contract of the tree and the roles (all callees warm)
}

type evmcScenario struct {
	Cfg   *GenesisCfg `json:"cfg"`
	Setup evmcSetup   `json:"setup"`
	Top   Op          `json:"top"`
	Fam   string      `json:"fam"` // "" (enumerated family) | "rand" (specs/EvmCosmosRand.tla)
}

var stakeTypeOf = map[string]stakingtypes.AuthorizationType{
	"delegate": stakingtypes.AuthorizationType_AUTHORIZATION_TYPE_DELEGATE, "undelegate": stakingtypes.AuthorizationType_AUTHORIZATION_TYPE_UNDELEGATE,
	"redelegate": stakingtypes.AuthorizationType_AUTHORIZATION_TYPE_REDELEGATE, "cancel": stakingtypes.AuthorizationType_AUTHORIZATION_TYPE_CANCEL_UNBONDING_DELEGATION,
}
var stakeURLOf = map[string]string{
	"delegate": stakingprecompile.DelegateMsg, "undelegate": stakingprecompile.UndelegateMsg,
	"redelegate": stakingprecompile.RedelegateMsg, "cancel": stakingprecompile.CancelUnbondingDelegationMsg,
}

type evmcRun struct {
	kinds  map[int]string // op id -> op kind
	n      *Node
	w      *EvmWorld
	names  []string // tracked account names
	addrs  map[string]sdk.AccAddress
	frames map[int]string
}

func (r *evmcRun) block(txs ...[]byte) []uint32 {
	r.n.BeginBlock(BlockIn{DtMs: 5000, Proposer: 0})
	var codes []uint32
	for _, tx := range txs {
		res := r.n.Deliver(tx)
		codes = append(codes, res.Code)
		if res.Code != 0 {
			panic(fmt.Sprintf("set-up transaction failed: %s", res.Log))
		}
	}
	r.n.EndBlock()
	r.n.Commit()
	return codes
}

func (r *evmcRun) project(ctx sdk.Context) M {
	app := r.n.App
	nvals := len(r.n.W.Vals)
	valName := func(i int) string { return fmt.Sprintf("V%d", i+1) }
	bank, deleg, ubd, rewards, wd, storage, nonce, code := M{}, M{}, M{}, M{}, M{}, M{}, M{}, M{}
	exists := M{}
	for _, nm := range r.names {
		exists[nm] = app.AccountKeeper.HasAccount(ctx, r.addrs[nm])
	}
	nameOf := map[string]string{}
	for _, nm := range r.names {
		nameOf[r.addrs[nm].String()] = nm
	}
	for _, nm := range r.names {
		a := r.addrs[nm]
		bank[nm] = bigStr(app.BankKeeper.GetBalance(ctx, a, utils.BaseDenom).Amount)
		d, u, rw := M{}, M{}, M{}
		for i := 0; i < nvals; i++ {
			v := r.n.W.Vals[i].ValAddr()
			d[valName(i)], u[valName(i)], rw[valName(i)] = "0", "0", "0"
			if del, found := app.StakingKeeper.GetDelegation(ctx, a, v); found {
				val, _ := app.StakingKeeper.GetValidator(ctx, v)
				d[valName(i)] = bigStr(val.TokensFromShares(del.Shares).TruncateInt())
				// pending rewards, computed on a branch (IncrementValidatorPeriod writes)
				cctx, _ := ctx.CacheContext()
				end := app.DistrKeeper.IncrementValidatorPeriod(cctx, val)
				rw[valName(i)] = bigStr(app.DistrKeeper.CalculateDelegationRewards(cctx, val, del, end).AmountOf(utils.BaseDenom).TruncateInt())
			}
			if ub, found := app.StakingKeeper.GetUnbondingDelegation(ctx, a, v); found {
				t := sdkmath.ZeroInt()
				for _, e := range ub.Entries {
					t = t.Add(e.Balance)
				}
				u[valName(i)] = bigStr(t)
			}
		}
		deleg[nm], ubd[nm], rewards[nm] = d, u, rw
		wa := app.DistrKeeper.GetDelegatorWithdrawAddr(ctx, a)
		if n2, ok := nameOf[wa.String()]; ok {
			wd[nm] = n2
		} else {
			wd[nm] = "other:" + wa.String()
		}
		nonce[nm] = fmt.Sprint(app.EvmKeeper.GetNonce(ctx, common.BytesToAddress(a)))
		if len(app.EvmKeeper.GetCode(ctx, common.BytesToHash(app.EvmKeeper.GetAccountOrEmpty(ctx, common.BytesToAddress(a)).CodeHash))) > 0 {
			code[nm] = "yes"
		} else {
			code[nm] = "no"
		}
	}
	// storage of the scenario's contracts: slot <op id> for every op they execute
	for id, fr := range r.frames {
		if fr == "S" {
			continue
		}
		st, _ := storage[fr].(M)
		if st == nil {
			st = M{}
			storage[fr] = st
		}
		holder := common.BytesToAddress(r.addrs[fr])
		if k := r.kinds[id]; k == "call" || k == "pc" || k == "recall" || k == "create" || k == "ncall" {
			holder = r.w.recorderAddr() // success flags live in the recorder contract
		}
		v := app.EvmKeeper.GetState(ctx, holder, common.BigToHash(big.NewInt(int64(id))))
		st[fmt.Sprintf("s%d", id)] = int(v.Big().Int64())
	}
	// grants from every tracked account to every tracked account
	grants, grantVals, grantExp := M{}, M{}, M{}
	consName := map[string]string{}
	for i := 0; i < nvals; i++ {
		consName[r.n.W.Vals[i].ValAddr().String()] = valName(i)
	}
	for _, g := range r.names {
		gm, gvm, gxm := M{}, M{}, M{}
		for _, e := range r.names {
			if e == g {
				continue
			}
			em, ev, ex := M{}, M{}, M{}
			for _, ty := range []string{"delegate", "undelegate", "redelegate", "cancel"} {
				em[ty] = "none"
				ev[ty] = []string{}
				ex[ty] = "-"
				a, exp := app.AuthzKeeper.GetAuthorization(ctx, r.addrs[e], r.addrs[g], stakeURLOf[ty])
				if a != nil {
					if exp == nil {
						ex[ty] = "never"
					} else {
						ex[ty] = fmt.Sprint(exp.Unix() - GenesisTime.Unix())
					}
					if exp != nil && !exp.After(ctx.BlockTime()) {
						em[ty] = "expired"
					} else if sa, ok := a.(*stakingtypes.StakeAuthorization); ok {
						vl := []string{}
						if al := sa.GetAllowList(); al != nil {
							for _, va := range al.Address {
								vl = append(vl, consName[va])
							}
						}
						sort.Strings(vl)
						ev[ty] = vl
						if sa.MaxTokens == nil {
							em[ty] = "unl"
						} else {
							em[ty] = bigStr(sa.MaxTokens.Amount)
						}
					} else {
						em[ty] = "other"
					}
				}
			}
			// ICS-20 transfer authorization: "ibc" / "ibc1" = spend limit of the allocation for transfer/channel-0 /
			// channel-1 ("none": no such allocation or no limit for the denomination), "ibcx" = the authorization itself
			for _, t := range []string{"ibc", "ibc1", "ibcx"} {
				em[t], ev[t], ex[t] = "none", []string{}, "-"
			}
			if a, exp := app.AuthzKeeper.GetAuthorization(ctx, r.addrs[e], r.addrs[g], sdk.MsgTypeURL(&transfertypes.MsgTransfer{})); a != nil {
				if exp == nil {
					ex["ibc"] = "never"
				} else {
					ex["ibc"] = fmt.Sprint(exp.Unix() - GenesisTime.Unix())
				}
				if exp != nil && !exp.After(ctx.BlockTime()) {
					em["ibc"], em["ibc1"], em["ibcx"] = "expired", "expired", "expired"
				} else if ta, ok := a.(*transfertypes.TransferAuthorization); ok {
					em["ibcx"] = "yes"
					chs := []string{}
					for _, al := range ta.Allocations {
						chs = append(chs, al.SourceChannel)
						key := map[string]string{"channel-0": "ibc", "channel-1": "ibc1"}[al.SourceChannel]
						if al.SourcePort != "transfer" || key == "" {
							continue
						}
						if found, c := al.SpendLimit.Find(utils.BaseDenom); !found {
							em[key] = "empty"
						} else if c.Amount.Equal(transfertypes.UnboundedSpendLimit()) {
							em[key] = "unl"
						} else {
							em[key] = bigStr(c.Amount)
						}
					}
					sort.Strings(chs)
					ev["ibc"] = chs
				} else {
					em["ibcx"] = "other"
				}
			}
			gm[e] = em
			gvm[e] = ev
			gxm[e] = ex
		}
		grants[g] = gm
		grantVals[g] = gvm
		grantExp[g] = gxm
	}
	mods := M{"escrow": bigStr(app.BankKeeper.GetBalance(ctx, IcsEscrow(), utils.BaseDenom).Amount)}
	for nm, mod := range map[string]string{"bonded": stakingtypes.BondedPoolName, "notbonded": stakingtypes.NotBondedPoolName,
		"distr": distrtypes.ModuleName, "feecollector": authtypes.FeeCollectorName, "evm": evmtypes.ModuleName} {
		mods[nm] = bigStr(app.BankKeeper.GetBalance(ctx, authtypes.NewModuleAddress(mod), utils.BaseDenom).Amount)
	}
	comm := M{}
	for i := 0; i < nvals; i++ {
		c := app.DistrKeeper.GetValidatorAccumulatedCommission(ctx, r.n.W.Vals[i].ValAddr())
		comm[valName(i)] = bigStr(c.Commission.AmountOf(utils.BaseDenom).TruncateInt())
	}
	if len(storage) == 0 {
		storage["_"] = M{"_": 0}
	}
	return M{"bank": bank, "mods": mods, "supply": bigStr(app.BankKeeper.GetSupply(ctx, utils.BaseDenom).Amount),
		"exists": exists, "deleg": deleg, "ubd": ubd, "rewards": rewards, "wd": wd, "grants": grants, "grantVals": grantVals, "grantExp": grantExp, "storage": storage, "nonce": nonce, "code": code, "commission": comm}
}

func evmcOne(tw *TraceWriter, scn int, src string, sc evmcScenario) {
	cfg := sc.Cfg
	w := NewWorld(*cfg)
	n := NewNode(w, dbm.NewMemDB())
	ew := &EvmWorld{N: n, Roles: map[string]Key{}}
	signer := sc.Setup.Signer
	if signer == "" {
		signer = "a1"
	}
	ew.Roles["S"] = w.Acct(signer)
	ew.Roles["T"] = w.Acct("a2")
	ew.Roles["W"] = w.Acct("a3")
	if sc.Setup.Fresh {
		ew.Roles["F"] = DetKey(cfg.Seed, "fresh-F")
	}
	r := &evmcRun{n: n, w: ew, addrs: map[string]sdk.AccAddress{}, frames: map[int]string{}}
	S, T := ew.Roles["S"], ew.Roles["T"]

	// frames: which contract executes which op
	r.kinds = map[int]string{}
	opKinds([]Op{sc.Top}, r.kinds)
	switch {
	case sc.Top.Op == "call" && len(sc.Top.Body) > 0:
		r.frames[sc.Top.ID] = "S"
		opFrames(fmt.Sprintf("C%d", sc.Top.ID), sc.Top.Body, r.frames)
		opFrames(fmt.Sprintf("C%d", sc.Top.ID), sc.Top.Alt, r.frames)
		ew.PrepareNAddrs(ew.contractAddr(sc.Top.ID), sc.Top.Body)
		ew.PrepareNAddrs(ew.contractAddr(sc.Top.ID), sc.Top.Alt)
	case sc.Top.Op == "create":
		r.frames[sc.Top.ID] = "S"
		opFrames("N0", sc.Top.Body, r.frames)
	default:
		r.frames[sc.Top.ID] = "S"
	}
	cset := map[string]bool{}
	for _, fr := range r.frames {
		if fr != "S" {
			cset[fr] = true
		}
	}
	r.names = []string{"S", "T", "W"}
	if sc.Setup.Fresh {
		r.names = append(r.names, "F")
	}
	for c := range cset {
		r.names = append(r.names, c)
	}
	sort.Strings(r.names)
	for _, nm := range r.names {
		r.addrs[nm] = sdk.AccAddress(ew.addrOf(nm, common.Address{}).Bytes())
	}

	gp := big.NewInt(2_000_000_000)
	// block 1: delegations, withdraw addresses, grants
	var txs [][]byte
	n.BeginBlock(BlockIn{DtMs: 5000, Proposer: 0})
	add := func(k Key, msgs ...sdk.Msg) {
		bz, err := n.CosmosTxFor(k, 900000, gp, msgs...)
		if err != nil {
			panic(err)
		}
		res := n.Deliver(bz)
		if res.Code != 0 {
			panic("set-up tx failed: " + res.Log)
		}
		txs = append(txs, bz)
	}
	if sc.Setup.DelegS != "" && sc.Setup.DelegS != "0" {
		add(S, stakingtypes.NewMsgDelegate(S.Addr, w.Vals[0].ValAddr(), coin(sc.Setup.DelegS)))
	}
	if sc.Setup.DelegT != "" && sc.Setup.DelegT != "0" {
		add(T, stakingtypes.NewMsgDelegate(T.Addr, w.Vals[0].ValAddr(), coin(sc.Setup.DelegT)))
	}
	if sc.Setup.UbdS != "" && sc.Setup.UbdS != "0" {
		add(S, stakingtypes.NewMsgUndelegate(S.Addr, w.Vals[0].ValAddr(), coin(sc.Setup.UbdS)))
	}
	for role, to := range sc.Setup.Wd {
		if to != "self" && to != "" {
			add(ew.Roles[role], distrtypes.NewMsgSetWithdrawAddress(ew.Roles[role].Addr, r.addrOfName(ew, to)))
		}
	}
	for _, g := range sc.Setup.Grants {
		var lim *sdk.Coin
		if g.Limit != "" {
			c := coin(g.Limit)
			lim = &c
		}
		var sa authz.Authorization
		if g.Type == "ibc" {
			// an ICS-20 transfer authorization for one channel (g.Val = 0: the channel of the scenario)
			limit := sdk.NewCoins(sdk.NewCoin(utils.BaseDenom, transfertypes.UnboundedSpendLimit()))
			if lim != nil {
				limit = sdk.NewCoins(*lim)
			}
			ch := "channel-0"
			if g.Val != 0 {
				ch = fmt.Sprintf("channel-%d", 5+g.Val)
			}
			allocs := []transfertypes.Allocation{{SourcePort: "transfer", SourceChannel: ch, SpendLimit: limit}}
			if g.Alloc2 != "" {
				l2 := sdk.NewCoins(sdk.NewCoin(utils.BaseDenom, transfertypes.UnboundedSpendLimit()))
				if g.Alloc2 != "unl" {
					l2 = sdk.NewCoins(coin(g.Alloc2))
				}
				allocs = append(allocs, transfertypes.Allocation{SourcePort: "transfer", SourceChannel: "channel-1", SpendLimit: l2})
			}
			sa = &transfertypes.TransferAuthorization{Allocations: allocs}
		} else {
			var err error
			sa, err = stakingtypes.NewStakeAuthorization([]sdk.ValAddress{w.Vals[g.Val%len(w.Vals)].ValAddr()}, nil, stakeTypeOf[g.Type], lim)
			if err != nil {
				panic(err)
			}
		}
		exp := n.Time.Add(1000 * time.Hour)
		if g.Expired {
			exp = n.Time.Add(7 * time.Second) // expires before the transaction under test
		}
		grantee := r.addrOfName(ew, g.Grantee)
		msg, err := authz.NewMsgGrant(S.Addr, grantee, sa, &exp)
		if err != nil {
			panic(err)
		}
		add(S, msg)
	}
	if sc.Setup.DelegC != "" && sc.Setup.DelegC != "0" {
		// the contract C0 owns a delegation of its own (set up through the keepers: a contract has no key)
		c0 := sdk.AccAddress(ew.contractAddr(0).Bytes())
		dctx := n.Ctx()
		amt := coin(sc.Setup.DelegC)
		if err := n.App.BankKeeper.SendCoins(dctx, w.Acct("a6").Addr, c0, sdk.NewCoins(amt)); err != nil {
			panic(err)
		}
		val, _ := n.App.StakingKeeper.GetValidator(dctx, w.Vals[0].ValAddr())
		if _, err := n.App.StakingKeeper.Delegate(dctx, c0, amt.Amount, stakingtypes.Unbonded, val, true); err != nil {
			panic(err)
		}
	}
	OpenLoopbackChannel(n)
	if sc.Setup.Denom2 {
		// a second denomination in the fee collector: delegation rewards in more than one denomination
		dctx := n.Ctx()
		c2 := sdk.NewCoins(sdk.NewCoin("aLIQUID9", sdkmath.NewInt(700_000_000_000_000_000)))
		if err := n.App.BankKeeper.MintCoins(dctx, "coinomics", c2); err != nil {
			panic(err)
		}
		if err := n.App.BankKeeper.SendCoinsFromModuleToModule(dctx, "coinomics", authtypes.FeeCollectorName, c2); err != nil {
			panic(err)
		}
	}
	n.EndBlock()
	n.Commit()
	warm := sc.Setup.Warm
	if warm < 2 {
		warm = 2
	}
	for i := 0; i < warm; i++ {
		r.block()
	}

	// the block of the transaction under test
	n.BeginBlock(BlockIn{DtMs: 5000, Proposer: 0})
	ctx := n.Ctx()
	ew.CapCalls = src == "rand"
	codes := map[common.Address][]byte{}
	var to common.Address
	var data []byte
	value := new(big.Int)
	create := false
	if sc.Top.Op == "call" && len(sc.Top.Body) > 0 {
		to = ew.contractAddr(sc.Top.ID)
		if err := ew.compileBody(to, sc.Top.Body, sc.Top.Alt, codes); err != nil {
			panic(err)
		}
		if sc.Top.Value != "" {
			value = mustBig(sc.Top.Value)
		}
	} else if sc.Top.Op == "create" {
		// contract creation: the body is the constructor, the created contract has no runtime code
		create = true
		ew.Created = ethcrypto.CreateAddress(ethAddr(S), n.App.EvmKeeper.GetNonce(ctx, ethAddr(S)))
		r.addrs["N0"] = sdk.AccAddress(ew.Created.Bytes())
		if err := ew.compileBody(ew.Created, sc.Top.Body, nil, codes); err != nil {
			panic(err)
		}
		data = codes[ew.Created]
		delete(codes, ew.Created)
		if sc.Top.Value != "" {
			value = mustBig(sc.Top.Value)
		}
	} else if sc.Top.Op == "pc" {
		var err error
		to, data, err = ew.pcCalldata(sc.Top, ethAddr(S))
		if err != nil {
			panic(err)
		}
	} else {
		panic("top must be a call with body, a create or a precompile call")
	}
	fund := new(big.Int)
	if sc.Setup.FundC != "" {
		fund = mustBig(sc.Setup.FundC)
	}
	caddrs := make([]string, 0, len(codes))
	for a := range codes {
		caddrs = append(caddrs, a.Hex())
	}
	sort.Strings(caddrs)
	for _, h := range caddrs {
		a := common.HexToAddress(h)
		if fund.Sign() > 0 {
			// real coins, through the bank (keeps supply consistent)
			if err := n.App.BankKeeper.SendCoins(ctx, w.Acct("a6").Addr, sdk.AccAddress(a.Bytes()), sdk.NewCoins(coin(fund.String()))); err != nil {
				panic(err)
			}
		}
		if err := ew.InstallCode(ctx, a, codes[a], nil); err != nil {
			panic(err)
		}
	}
	if err := ew.InstallCode(ctx, ew.recorderAddr(), recorderCode, nil); err != nil {
		panic(err)
	}
	// the addresses at which nested CREATEs will create contracts are funded beforehand (creation onto an existing account)
	nnames := make([]string, 0, len(ew.NAddrs))
	for nm := range ew.NAddrs {
		nnames = append(nnames, nm)
	}
	sort.Strings(nnames)
	for _, nm := range nnames {
		if fund.Sign() > 0 && !sc.Setup.NoNFund {
			if err := n.App.BankKeeper.SendCoins(ctx, w.Acct("a6").Addr, sdk.AccAddress(ew.NAddrs[nm].Bytes()), sdk.NewCoins(coin(fund.String()))); err != nil {
				panic(err)
			}
		}
	}
	if sc.Setup.PriorLog {
		// a transaction of T, delivered first in this block, calls a contract that emits two logs
		logger := common.HexToAddress("0x00000000000000000000000000000000000a11ce")
		if err := ew.InstallCode(ctx, logger, []byte{0x60, 0x00, 0x60, 0x00, 0xa0, 0x60, 0x00, 0x60, 0x00, 0xa0, 0x00}, nil); err != nil {
			panic(err)
		}
		tk := ew.Roles["T"]
		ptx, _, err := n.EthTxFor(tk, &logger, big.NewInt(0), 100000, nil)
		if err != nil {
			panic(err)
		}
		if pr := n.Deliver(ptx); pr.Code != 0 {
			panic("prior log transaction failed: " + pr.Log)
		}
		ctx = n.Ctx()
	}
	pre := r.project(ctx)
	pre["logs"] = []int{}
	nonce := n.App.EvmKeeper.GetNonce(ctx, ethAddr(S))
	toPtr := &to
	if create {
		toPtr = nil
	}
	gasLimit := sc.Setup.Gas
	if gasLimit == 0 {
		gasLimit = 30_000_000
		if src == "rand" {
			gasLimit = 39_000_000
		}
	}
	opts := EthTxOpts{Type: 0, Nonce: nonce, To: toPtr, Value: value, Gas: gasLimit, GasPrice: gp, Data: data, ChainID: n.App.EvmKeeper.ChainID()}
	if sc.Setup.Acl {
		opts.Type = 1
		var addrs []common.Address
		for a := range codes {
			addrs = append(addrs, a)
		}
		for _, role := range []string{"S", "T", "W"} {
			addrs = append(addrs, common.BytesToAddress(r.addrs[role].Bytes()))
		}
		addrs = append(addrs, to, stakingPC, distrPC, ics20PC)
		sort.Slice(addrs, func(i, j int) bool { return bytes.Compare(addrs[i][:], addrs[j][:]) < 0 })
		for _, a := range addrs {
			opts.Access = append(opts.Access, ethtypes.AccessTuple{Address: a})
		}
	}
	msg, err := BuildEthMsg(S, opts)
	if err != nil {
		panic(err)
	}
	bz, err := WrapEthMsgs(msg)
	if err != nil {
		panic(err)
	}
	res := n.Deliver(bz)
	post := r.project(n.Ctx())
	vmErr := ""
	failed := false
	logIDs := []int{}
	if res.Code == 0 {
		var txr evmtypes.MsgEthereumTxResponse
		if tmd, err := evmtypes.DecodeTxResponse(res.Data); err == nil {
			txr = *tmd
			vmErr = txr.VmError
			failed = txr.Failed()
			// the logs of the transaction that the contracts of the tree emitted (LOG1, topic = op id), in order
			for _, lg := range txr.Logs {
				if len(lg.Topics) == 1 && !isPrecompileAddr(common.HexToAddress(lg.Address)) {
					logIDs = append(logIDs, int(new(big.Int).SetBytes(common.HexToHash(lg.Topics[0]).Bytes()).Int64()))
				}
			}
		}
	}
	post["logs"] = logIDs
	n.EndBlock()
	n.Commit()
	if src == "rand" && uint64(res.GasUsed)*10 >= gasLimit*9 {
		// the specification does not model gas: a random tree that (nearly) exhausted the gas of the
		// transaction is not judged
		panic("gas budget of the transaction (nearly) exhausted")
	}
	fee := new(big.Int).Mul(gp, big.NewInt(res.GasUsed))
	feeMax := new(big.Int).Mul(gp, new(big.Int).SetUint64(gasLimit))
	operOf := M{"_": "-"}
	for i, v := range w.Vals {
		for _, nm := range r.names {
			if r.addrs[nm].Equals(v.Oper.Addr) {
				operOf[nm] = fmt.Sprintf("V%d", i+1)
			}
		}
	}
	frames := M{}
	for id, fr := range r.frames {
		frames[fmt.Sprintf("o%d", id)] = fr
	}
	l := res.Log
	if len(l) > 160 {
		l = l[:160]
	}
	tw.Emit(M{"ev": "tx", "scn": scn, "src": src, "cfg": cfg, "setupJson": jsonStr(sc.Setup), "top": normOp(sc.Top), "frames": frames, "operOf": operOf, "pre": pre, "post": post,
		"res": M{"code": int(res.Code), "failed": failed, "vmError": vmErr, "gasUsed": fmt.Sprint(res.GasUsed), "fee": fee.String(), "feeMax": feeMax.String(), "value": value.String(), "log": l}})
}

func (r *evmcRun) addrOfName(ew *EvmWorld, name string) sdk.AccAddress {
	return sdk.AccAddress(ew.addrOf(name, common.Address{}).Bytes())
}

func evmcMain(args []string) error {
	fs := flag.NewFlagSet("evmc", flag.ExitOnError)
	scripts := fs.String("scripts", "", "JSON file: array of scenarios")
	seed := fs.Int64("seed", 1, "seed")
	out := fs.String("out", "trace.ndjson", "trace output")
	from := fs.Int("from", 0, "first scenario index")
	to := fs.Int("to", -1, "last scenario index (exclusive)")
	fs.Parse(args)
	var all []evmcScenario
	if err := readJSONFile(*scripts, &all); err != nil {
		return err
	}
	tw, err := NewTraceWriter(*out)
	if err != nil {
		return err
	}
	defer tw.Close()
	if *to < 0 || *to > len(all) {
		*to = len(all)
	}
	for i := *from; i < *to; i++ {
		sc := all[i]
		if sc.Cfg == nil {
			c := DefaultGenesisCfg(*seed*100000 + int64(i))
			sc.Cfg = &c
		}
		func() {
			defer func() {
				if rec := recover(); rec != nil {
					tw.Emit(M{"ev": "skip", "scn": i + 1, "why": fmt.Sprint(rec)})
				}
			}()
			src := "script"
			if sc.Fam != "" {
				src = sc.Fam
			}
			evmcOne(tw, i+1, src, sc)
		}()
	}
	fmt.Printf("evmc: scenarios=%d lines=%d\n", *to-*from, tw.N)
	return nil
}

func jsonStr(v any) string {
	bz, err := json.Marshal(v)
	if err != nil {
		panic(err)
	}
	return string(bz)
}

func isPrecompileAddr(a common.Address) bool { return a == stakingPC || a == distrPC || a == ics20PC }
