package main

// evmkit: call trees on the real EVM.  A scenario's call tree (a TLC-generated value) is
// compiled into straight-line bytecode, one contract per call node ("C<id>"), injected into
// state before the transaction.  After every CALL the executing contract records
// (success + 1) in storage slot <op id>, so the post-state tells which calls succeeded in
// every frame that was not reverted.

import (
	cmn "github.com/haqq-network/haqq/precompiles/common"
	"bytes"
	"encoding/binary"
	"encoding/json"
	"os"
	"path/filepath"
	"fmt"
	"math/big"
	"strings"

	sdk "github.com/cosmos/cosmos-sdk/types"
	transfertypes "github.com/cosmos/ibc-go/v7/modules/apps/transfer/types"
	channeltypes "github.com/cosmos/ibc-go/v7/modules/core/04-channel/types"
	host "github.com/cosmos/ibc-go/v7/modules/core/24-host"
	ibcexported "github.com/cosmos/ibc-go/v7/modules/core/exported"
	"github.com/ethereum/go-ethereum/accounts/abi"
	"github.com/ethereum/go-ethereum/common"
	ethcrypto "github.com/ethereum/go-ethereum/crypto"

	stakingprecompile "github.com/haqq-network/haqq/precompiles/staking"
	"github.com/haqq-network/haqq/x/evm/statedb"
)

var (
	ics20ABI   abi.ABI
	ics20PC    = common.HexToAddress("0x0000000000000000000000000000000000000802")
	stakingABI abi.ABI
	distrABI   abi.ABI
	stakingPC  = common.HexToAddress(stakingprecompile.PrecompileAddress)
	distrPC    = common.HexToAddress("0x0000000000000000000000000000000000000801")
)

func init() {
	var err error
	if stakingABI, err = stakingprecompile.LoadABI(); err != nil {
		panic(err)
	}
	// the distribution precompile exports no ABI loader: read the ABI of the tree under test
	distrABI = loadRepoABI("precompiles/distribution/abi.json")
	ics20ABI = loadRepoABI("precompiles/ics20/abi.json")
}

func repoRoot() string {
	if r := os.Getenv("VERIF_REPO"); r != "" {
		return r
	}
	return "/repo"
}

func loadRepoABI(rel string) abi.ABI {
	bz, err := os.ReadFile(filepath.Join(repoRoot(), rel))
	if err != nil {
		panic(err)
	}
	var wrapped struct {
		ABI json.RawMessage `json:"abi"`
	}
	if json.Unmarshal(bz, &wrapped) == nil && len(wrapped.ABI) > 0 {
		bz = wrapped.ABI
	}
	a, err := abi.JSON(bytes.NewReader(bz))
	if err != nil {
		panic(err)
	}
	return a
}

// Op is one node of a call tree.
type Op struct {
	Op      string `json:"op"` // pc | call | sstore | revert | invalid | stop
	ID      int    `json:"id"`
	Mode    string `json:"mode"` // catch | bubble
	M       string `json:"m"`    // precompile method
	Who     string `json:"who"`  // named account of a precompile call
	Val     int    `json:"val"`
	Val2    int    `json:"val2"`
	Amt     string `json:"amt"`
	Grantee string `json:"grantee"`
	To      string `json:"to"`    // call target / withdraw address
	Value   string `json:"value"` // attached value
	Height  int64  `json:"height"`
	Body    []Op   `json:"body"`
	Alt     []Op   `json:"alt"` // second entry point of the contract of a call node (entered by a "recall")
	OK      *bool  `json:"ok,omitempty"` // filled in after execution where observable
	Rt      bool   `json:"rt"`  // create: the constructor returns the runtime code that an "ncall" enters
	Rev     bool   `json:"rev"` // ncall: the called code reverts after its CREATE
}

// runtime code of a contract created with rt: CREATE (empty init code), then STOP - or REVERT when the first
// byte of the calldata is not zero
var ncallRuntime = []byte{0x60, 0x00, 0x60, 0x00, 0x60, 0x00, 0xf0, 0x50, // CREATE(0, 0, 0), POP
	0x60, 0x00, 0x35, 0x60, 0x00, 0x1a, // first byte of the calldata
	0x60, 0x12, 0x57, 0x00, // JUMPI -> 0x12, STOP
	0x5b, 0x60, 0x00, 0x60, 0x00, 0xfd} // JUMPDEST, REVERT(0, 0)

// asm is a tiny assembler with 2-byte labels and a trailing data section.
type asm struct {
	code   []byte
	fix    map[int]string // position of 2-byte placeholder -> label
	labels map[string]int
	data   [][]byte
	dfix   map[int]int // position of 2-byte placeholder -> data index
}

func newAsm() *asm { return &asm{fix: map[int]string{}, labels: map[string]int{}, dfix: map[int]int{}} }

func (a *asm) op(b ...byte) { a.code = append(a.code, b...) }
func (a *asm) push1(v byte) { a.op(0x60, v) }
func (a *asm) push2(v int)  { a.op(0x61, byte(v>>8), byte(v)) }
func (a *asm) push32(v *big.Int) {
	var b [32]byte
	v.FillBytes(b[:])
	a.op(0x7f)
	a.op(b[:]...)
}
func (a *asm) push20(addr common.Address) { a.op(0x73); a.op(addr.Bytes()...) }
func (a *asm) pushLabel(l string)         { a.op(0x61, 0, 0); a.fix[len(a.code)-2] = l }
func (a *asm) label(l string)             { a.labels[l] = len(a.code); a.op(0x5b) }
func (a *asm) pushData(d []byte) int {
	a.data = append(a.data, d)
	a.op(0x61, 0, 0)
	a.dfix[len(a.code)-2] = len(a.data) - 1
	return len(d)
}

func (a *asm) assemble() []byte {
	out := append([]byte{}, a.code...)
	offs := make([]int, len(a.data))
	for i, d := range a.data {
		offs[i] = len(out)
		out = append(out, d...)
	}
	for pos, l := range a.fix {
		binary.BigEndian.PutUint16(out[pos:], uint16(a.labels[l]))
	}
	for pos, i := range a.dfix {
		binary.BigEndian.PutUint16(out[pos:], uint16(offs[i]))
	}
	return out
}

// EvmWorld resolves symbolic names of a call-tree scenario.
type EvmWorld struct {
	CapCalls bool // bound the gas of nested call frames (random call trees)
	N       *Node
	Roles   map[string]Key // S, T, W, ...
	Created common.Address // address of the contract created by a top-level "create" (N0)
	NAddrs  map[string]common.Address // addresses of the contracts created by nested "create" ops (N<id>)
	RtAddrs map[common.Address]bool   // created contracts whose constructor returns the ncall runtime code
}

func (w *EvmWorld) contractAddr(id int) common.Address {
	return ethAddr(DetKey(w.N.W.Cfg.Seed, fmt.Sprintf("C%d", id)))
}

// recorderAddr is the contract in which every frame records the success flags of its calls
// (so that recording does not touch the state of the recording contract itself).
func (w *EvmWorld) recorderAddr() common.Address { return ethAddr(DetKey(w.N.W.Cfg.Seed, "R")) }

// recorderCode: SSTORE(calldata[0:32], calldata[32:64])
var recorderCode = []byte{0x60, 0x20, 0x35, 0x60, 0x00, 0x35, 0x55, 0x00}

// addrOf resolves a name in the frame executed by `self`.
func (w *EvmWorld) addrOf(name string, self common.Address) common.Address {
	switch {
	case name == "self":
		return self
	case name == "R":
		return w.recorderAddr()
	case name == "N0":
		return w.Created
	case strings.HasPrefix(name, "N"):
		if a, ok := w.NAddrs[name]; ok {
			return a
		}
		panic("address of " + name + " is not known yet")
	case strings.HasPrefix(name, "C"):
		var id int
		fmt.Sscanf(name, "C%d", &id)
		return w.contractAddr(id)
	}
	if k, ok := w.Roles[name]; ok {
		return ethAddr(k)
	}
	return ethAddr(w.N.W.Acct(name))
}

func (w *EvmWorld) valStr(i int) string {
	return w.N.W.Vals[i%len(w.N.W.Vals)].ValAddr().String()
}

// pcCalldata ABI-packs a precompile call.
func (w *EvmWorld) pcCalldata(o Op, self common.Address) (common.Address, []byte, error) {
	who := w.addrOf(o.Who, self)
	amt := new(big.Int)
	if o.Amt != "" {
		amt = mustBig(o.Amt)
	}
	switch o.M {
	case "delegate":
		bz, err := stakingABI.Pack("delegate", who, w.valStr(o.Val), amt)
		return stakingPC, bz, err
	case "undelegate":
		bz, err := stakingABI.Pack("undelegate", who, w.valStr(o.Val), amt)
		return stakingPC, bz, err
	case "redelegate":
		bz, err := stakingABI.Pack("redelegate", who, w.valStr(o.Val), w.valStr(o.Val2), amt)
		return stakingPC, bz, err
	case "cancelUnbonding":
		bz, err := stakingABI.Pack("cancelUnbondingDelegation", who, w.valStr(o.Val), amt, big.NewInt(o.Height))
		return stakingPC, bz, err
	case "approve", "increaseAllowance", "decreaseAllowance":
		bz, err := stakingABI.Pack(o.M, w.addrOf(o.Grantee, self), amt, []string{stakingprecompile.DelegateMsg, stakingprecompile.UndelegateMsg})
		return stakingPC, bz, err
	case "revoke":
		bz, err := stakingABI.Pack("revoke", w.addrOf(o.Grantee, self), []string{stakingprecompile.DelegateMsg, stakingprecompile.UndelegateMsg})
		return stakingPC, bz, err
	case "ibcApprove":
		// an ICS-20 authorization with one allocation (transfer/channel-0) for the named grantee
		al := []cmn.ICS20Allocation{{SourcePort: "transfer", SourceChannel: "channel-0", SpendLimit: []cmn.Coin{{Denom: "aISLM", Amount: amt}}, AllowList: []string{}}}
		bz, err := ics20ABI.Pack("approve", w.addrOf(o.Grantee, self), al)
		return ics20PC, bz, err
	case "ibcRevoke":
		bz, err := ics20ABI.Pack("revoke", w.addrOf(o.Grantee, self))
		return ics20PC, bz, err
	case "ibcIncrease", "ibcDecrease":
		name := map[string]string{"ibcIncrease": "increaseAllowance", "ibcDecrease": "decreaseAllowance"}[o.M]
		bz, err := ics20ABI.Pack(name, w.addrOf(o.Grantee, self), "transfer", fmt.Sprintf("channel-%d", o.Val), "aISLM", amt)
		return ics20PC, bz, err
	case "ibcTransfer":
		bz, err := ics20ABI.Pack("transfer", "transfer", "channel-0", "aISLM", amt, who, "haqq1receiveronotherside",
			icsHeight{RevisionNumber: 1, RevisionHeight: 1_000_000}, uint64(0), "")
		return ics20PC, bz, err
	case "query":
		// a read-only method: the precompile still flushes the StateDB before answering
		bz, err := stakingABI.Pack("delegation", who, w.valStr(o.Val))
		return stakingPC, bz, err
	case "withdrawRewards":
		bz, err := distrABI.Pack("withdrawDelegatorRewards", who, w.valStr(o.Val))
		return distrPC, bz, err
	case "claimRewards":
		bz, err := distrABI.Pack("claimRewards", who, uint32(10))
		return distrPC, bz, err
	case "setWithdrawAddress":
		bz, err := distrABI.Pack("setWithdrawAddress", who, sdk.AccAddress(w.addrOf(o.To, self).Bytes()).String())
		return distrPC, bz, err
	case "withdrawCommission":
		bz, err := distrABI.Pack("withdrawValidatorCommission", sdk.ValAddress(who.Bytes()).String())
		return distrPC, bz, err
	}
	return common.Address{}, nil, fmt.Errorf("unknown precompile method %q", o.M)
}

// compileBody compiles the ops executed by contract `self` (main entry: empty calldata; alt entry:
// any calldata); nested call nodes are compiled recursively into `out`.
func (w *EvmWorld) compileBody(self common.Address, body, alt []Op, out map[common.Address][]byte) error {
	return w.compileBodyD(self, body, alt, out, 0)
}

// compileBodyD: depth > 0 or w.CapCalls: nested call frames get a bounded amount of gas (10M below the top
// contract, 4M below that), so that a frame that ends in INVALID does not starve the rest of the tree.
func (w *EvmWorld) compileBodyD(self common.Address, body, alt []Op, out map[common.Address][]byte, depth int) error {
	a := newAsm()
	rec := w.recorderAddr()
	var emitRecord func(o Op)
	emitCall := func(o Op, target common.Address, data []byte, argLen int, value *big.Int, gasCap int) {
		n := argLen
		if len(data) > 0 {
			a.push2(len(data))
			a.pushData(data)
			a.push1(0)
			a.op(0x39) // CODECOPY(dest=0, off, len)
			n = len(data)
		}
		a.push1(0)      // retSize
		a.push1(0)      // retOff
		a.push2(n)      // argsSize
		a.push1(0)      // argsOff
		a.push32(value) // value
		a.push20(target)
		if gasCap > 0 {
			// a failing precompile burns all the gas it was given: cap it so that the
			// caller can go on (and record the failure)
			a.op(0x62, byte(gasCap>>16), byte(gasCap>>8), byte(gasCap))
		} else {
			a.op(0x5a) // GAS
		}
		a.op(0xf1) // CALL
		emitRecord(o)
	}
	emitRecord = func(o Op) {
		// (success flag on the stack) record success + 1 under the op id in the recorder contract
		a.op(0x80) // DUP1
		a.push1(1)
		a.op(0x01) // ADD
		a.push1(0x20)
		a.op(0x52) // MSTORE(0x20, flag+1)
		a.push2(o.ID)
		a.push1(0)
		a.op(0x52) // MSTORE(0, id)
		a.push1(0)
		a.push1(0)
		a.push1(0x40)
		a.push1(0)
		a.push1(0)
		a.push20(rec)
		a.op(0x62, 0x01, 0x86, 0xa0) // PUSH3 100000
		a.op(0xf1)
		a.op(0x50) // POP
		if o.Mode == "bubble" {
			a.op(0x15) // ISZERO
			a.pushLabel("rev")
			a.op(0x57) // JUMPI
		} else {
			a.op(0x50) // POP
		}
	}
	emitOps := func(ops []Op, final bool) error {
		for _, o := range ops {
			value := new(big.Int)
			if o.Value != "" {
				value = mustBig(o.Value)
			}
			switch o.Op {
			case "pc":
				target, data, err := w.pcCalldata(o, self)
				if err != nil {
					return err
				}
				pcap := 3_000_000
				if w.CapCalls {
					pcap = 600_000 // consistent with the caps of nested frames (a failing precompile burns all of it)
				}
				emitCall(o, target, data, 0, value, pcap)
			case "call":
				var target common.Address
				if len(o.Body) > 0 {
					target = w.contractAddr(o.ID)
					if err := w.compileBodyD(target, o.Body, o.Alt, out, depth+1); err != nil {
						return err
					}
				} else {
					target = w.addrOf(o.To, self)
				}
				gcap := 0
				if w.CapCalls && len(o.Body) > 0 {
					gcap = 10_000_000
					if depth > 0 {
						gcap = 4_000_000
					}
				}
				emitCall(o, target, nil, 0, value, gcap)
			case "create":
				// CREATE inside the tree: the constructor is the compiled body, the created contract gets no runtime
				// code; its address follows from the creator's nonce (0 for an installed contract, one CREATE per body)
				child := ethcrypto.CreateAddress(self, 0)
				if w.NAddrs == nil {
					w.NAddrs = map[string]common.Address{}
				}
				w.NAddrs[fmt.Sprintf("N%d", o.ID)] = child
				if o.Rt {
					if w.RtAddrs == nil {
						w.RtAddrs = map[common.Address]bool{}
					}
					w.RtAddrs[child] = true
				}
				tmp := map[common.Address][]byte{}
				if err := w.compileBodyD(child, o.Body, nil, tmp, depth+1); err != nil {
					return err
				}
				for k, v := range tmp {
					if k != child {
						out[k] = v
					}
				}
				init := tmp[child]
				a.push2(len(init))
				a.pushData(init)
				a.push1(0)
				a.op(0x39) // CODECOPY(dest=0, off, len)
				a.push2(len(init))
				a.push1(0)
				a.push32(value)
				a.op(0xf0)       // CREATE(value, 0, len) -> address or 0
				a.op(0x15, 0x15) // ISZERO ISZERO: 1 if created
				emitRecord(o)
			case "ncall":
				// a call into a contract that an earlier CREATE of this transaction deployed (calldata: one byte)
				ncap := 0
				if w.CapCalls {
					ncap = 1_000_000
				}
				arg := []byte{0}
				if o.Rev {
					arg[0] = 1
				}
				emitCall(o, w.NAddrs[o.To], arg, 0, value, ncap)
			case "recall":
				// re-enter an existing contract of the tree through its alt entry point
				rcap := 0
				if w.CapCalls {
					rcap = 2_000_000
				}
				emitCall(o, w.addrOf(o.To, self), nil, 1, value, rcap)
			case "log":
				// LOG1 with the op id as the only topic, no data
				a.push2(o.ID)
				a.push1(0)
				a.push1(0)
				a.op(0xa1)
			case "sstore":
				a.push1(7)
				a.push2(o.ID)
				a.op(0x55)
			case "selfdestruct":
				a.push20(w.addrOf(o.To, self))
				a.op(0xff)
			case "revert":
				a.push1(0)
				a.push1(0)
				a.op(0xfd)
			case "invalid":
				a.op(0xfe)
			case "stop":
				a.op(0x00)
			default:
				return fmt.Errorf("unknown op %q", o.Op)
			}
		}
		if w.RtAddrs[self] && final {
			// the constructor returns the runtime code
			a.push2(len(ncallRuntime))
			a.pushData(ncallRuntime)
			a.push1(0)
			a.op(0x39) // CODECOPY(dest=0, off, len)
			a.push1(byte(len(ncallRuntime)))
			a.push1(0)
			a.op(0xf3) // RETURN(0, len)
			return nil
		}
		a.op(0x00) // STOP
		return nil
	}
	if len(alt) > 0 {
		a.op(0x36) // CALLDATASIZE
		a.op(0x15) // ISZERO
		a.pushLabel("main")
		a.op(0x57) // JUMPI
		if err := emitOps(alt, false); err != nil {
			return err
		}
		a.label("main")
	}
	if err := emitOps(body, true); err != nil {
		return err
	}
	a.label("rev")
	a.push1(0)
	a.push1(0)
	a.op(0xfd)
	out[self] = a.assemble()
	return nil
}

// InstallCode writes contract code and a balance directly into the deliver state (scenario
// set-up, not part of the transaction under test).
func (w *EvmWorld) InstallCode(ctx sdk.Context, addr common.Address, code []byte, balance *big.Int) error {
	k := w.N.App.EvmKeeper
	hash := ethcrypto.Keccak256Hash(code)
	k.SetCode(ctx, hash.Bytes(), code)
	acct := k.GetAccountOrEmpty(ctx, addr)
	acct.CodeHash = hash.Bytes()
	if balance != nil {
		acct.Balance = balance
	}
	return k.SetAccount(ctx, addr, statedb.Account{Nonce: acct.Nonce, Balance: acct.Balance, CodeHash: acct.CodeHash})
}

// PrepareNAddrs computes the addresses of the contracts that nested "create" ops will create (the creator is an
// installed contract with nonce 0 and performs at most one CREATE).
func (w *EvmWorld) PrepareNAddrs(self common.Address, body []Op) {
	if w.NAddrs == nil {
		w.NAddrs = map[string]common.Address{}
	}
	for _, o := range body {
		switch {
		case o.Op == "call" && len(o.Body) > 0:
			w.PrepareNAddrs(w.contractAddr(o.ID), o.Body)
			w.PrepareNAddrs(w.contractAddr(o.ID), o.Alt)
		case o.Op == "create":
			child := ethcrypto.CreateAddress(self, 0)
			w.NAddrs[fmt.Sprintf("N%d", o.ID)] = child
			w.PrepareNAddrs(child, o.Body)
		}
	}
}

// opIDs lists the ids of all ops of a tree with the contract that executes them.
func opFrames(self string, body []Op, out map[int]string) {
	for _, o := range body {
		out[o.ID] = self
		if o.Op == "call" && len(o.Body) > 0 {
			opFrames(fmt.Sprintf("C%d", o.ID), o.Body, out)
			opFrames(fmt.Sprintf("C%d", o.ID), o.Alt, out)
		}
		if o.Op == "create" && len(o.Body) > 0 {
			opFrames(fmt.Sprintf("N%d", o.ID), o.Body, out)
		}
	}
}

// opKinds maps op id -> op kind for a whole tree.
func opKinds(ops []Op, out map[int]string) {
	for _, o := range ops {
		out[o.ID] = o.Op
		opKinds(o.Body, out)
		opKinds(o.Alt, out)
	}
}

// normOps makes every op carry every field (uniform records for the trace specification).
func normOps(ops []Op) []Op {
	out := make([]Op, len(ops))
	for i, o := range ops {
		out[i] = normOp(o)
	}
	return out
}

func normOp(o Op) Op {
	if o.Mode == "" {
		o.Mode = "catch"
	}
	if o.Amt == "" {
		o.Amt = "0"
	}
	if o.Value == "" {
		o.Value = "0"
	}
	if o.Who == "" {
		o.Who = "-"
	}
	if o.To == "" {
		o.To = "-"
	}
	if o.Grantee == "" {
		o.Grantee = "-"
	}
	if o.M == "" {
		o.M = "-"
	}
	o.Body = normOps(o.Body)
	o.Alt = normOps(o.Alt)
	o.OK = nil
	return o
}

type icsHeight struct {
	RevisionNumber uint64 `abi:"revisionNumber"`
	RevisionHeight uint64 `abi:"revisionHeight"`
}

// OpenLoopbackChannel writes an OPEN ICS-20 channel transfer/channel-0 <-> transfer/channel-1 over the
// localhost connection into the deliver state (scenario set-up; a real handshake needs a second chain).
func OpenLoopbackChannel(n *Node) {
	ctx := n.Ctx()
	app := n.App
	ck := app.IBCKeeper.ChannelKeeper
	for _, pair := range [][2]string{{"channel-0", "channel-1"}, {"channel-1", "channel-0"}} {
		ch := channeltypes.NewChannel(channeltypes.OPEN, channeltypes.UNORDERED, channeltypes.NewCounterparty("transfer", pair[1]),
			[]string{ibcexported.LocalhostConnectionID}, "ics20-1")
		ck.SetChannel(ctx, "transfer", pair[0], ch)
		ck.SetNextSequenceSend(ctx, "transfer", pair[0], 1)
		ck.SetNextSequenceRecv(ctx, "transfer", pair[0], 1)
		ck.SetNextSequenceAck(ctx, "transfer", pair[0], 1)
		path := host.ChannelCapabilityPath("transfer", pair[0])
		cp, err := app.ScopedIBCKeeper.NewCapability(ctx, path)
		if err != nil {
			panic(err)
		}
		if err := app.ScopedTransferKeeper.ClaimCapability(ctx, cp, path); err != nil {
			panic(err)
		}
	}
}

// IcsEscrow is the escrow account of transfer/channel-0.
func IcsEscrow() sdk.AccAddress { return transfertypes.GetEscrowAddress("transfer", "channel-0") }
