package main

// Driver for specs/BurnRedirect.tla (C14: slashing and deposit burns go to the community
// pool, not to zero).
//
//   hv burnredirect --scripts scripts.json --random N --seed S --out trace.ndjson
//
// A scenario is a genesis variant (brCfg) plus a list of symbolic operations (the events of
// the BurnRedirect machine: delegate / undelegate / redelegate / slash(kind, validator) /
// age / mature / unjail / submit / deposit / veto / reject / pass / noquorum / expire /
// burn(module) / setparam(key, denom, val)).  The executor turns them into full ABCI blocks on a chainkit node with three
// validators that have real consensus keys: downtime is produced by feeding absent votes to
// the real slashing module until it slashes, double signs by duplicate-vote evidence to the
// real evidence module, deposit burns by real gov transactions and block time, changes of the
// configuration (bank send-enabled switches, distribution community tax, gov burn switches and
// deposit denominations, erc20 switches, slash fractions) by real proposals that carry the
// authority message of the module, are voted by the validators and executed by gov's EndBlock.
// The genesis variant can start from a non-default configuration (brParams).
//
// Measurement: one trace line after every BeginBlock ("begin"), every DeliverTx ("tx") and
// every EndBlock ("end"), each with the projection of the real stores after the call.  The
// previous line's projection is the state before the call (Commit changes nothing), so the
// trace spec isolates the single event.  What the modules themselves report is logged next to
// it (`rep`): slashing events (burned_coins = staking.Slash return value), the proposals that
// the gov queues say end in this EndBlock with their deposit records and gov's own burn
// decision (Tally / BurnProposalDepositPrevote), bank burn/mint events of transactions.

import (
	"encoding/json"
	"flag"
	"fmt"
	"math/big"
	"math/rand"
	"os"
	"sort"
	"strings"
	"time"

	sdkmath "cosmossdk.io/math"
	dbm "github.com/cometbft/cometbft-db"
	abci "github.com/cometbft/cometbft/abci/types"
	"github.com/cometbft/cometbft/libs/log"
	tmproto "github.com/cometbft/cometbft/proto/tendermint/types"
	"github.com/cosmos/cosmos-sdk/baseapp"
	simtestutil "github.com/cosmos/cosmos-sdk/testutil/sims"
	sdk "github.com/cosmos/cosmos-sdk/types"
	authtypes "github.com/cosmos/cosmos-sdk/x/auth/types"
	sdkvesting "github.com/cosmos/cosmos-sdk/x/auth/vesting/types"
	banktypes "github.com/cosmos/cosmos-sdk/x/bank/types"
	distrtypes "github.com/cosmos/cosmos-sdk/x/distribution/types"
	govtypes "github.com/cosmos/cosmos-sdk/x/gov/types"
	govv1 "github.com/cosmos/cosmos-sdk/x/gov/types/v1"
	govv1beta1 "github.com/cosmos/cosmos-sdk/x/gov/types/v1beta1"
	slashingtypes "github.com/cosmos/cosmos-sdk/x/slashing/types"
	stakingtypes "github.com/cosmos/cosmos-sdk/x/staking/types"

	"github.com/haqq-network/haqq/app"
	"github.com/haqq-network/haqq/encoding"
	"github.com/haqq-network/haqq/utils"
	erc20types "github.com/haqq-network/haqq/x/erc20/types"
	liquidvestingtypes "github.com/haqq-network/haqq/x/liquidvesting/types"
	vestingtypes "github.com/haqq-network/haqq/x/vesting/types"
)

func init() { register("burnredirect", brMain) }

// ---------------------------------------------------------------------------------------
// configuration

type brCoin struct {
	Denom string `json:"denom"`
	Amt   string `json:"amt"`
}

// brCfg is the genesis variant of a scenario.
type brCfg struct {
	Genesis       GenesisCfg `json:"genesis"`
	Denom2        string     `json:"denom2"`        // second denomination held by every account
	Denom2Balance string     `json:"denom2Balance"` // per account
	MinDeposit    []brCoin   `json:"minDeposit"`
	BurnVeto      bool       `json:"burnVeto"`
	BurnPrevote   bool       `json:"burnPrevote"`
	BurnQuorum    bool       `json:"burnQuorum"`
	UnbondingSecs int64      `json:"unbondingSecs"`
	SlashDouble   string     `json:"slashDouble"`   // decimal fraction
	SlashDowntime string     `json:"slashDowntime"` // decimal fraction
	Params        *brParams  `json:"params,omitempty"` // non-default configuration at genesis
	// the network the application runs as and the height its first block has: the identity of the chain
	// ("" = the main network id of the other drivers) and genesis initial_height (0 = 1)
	ChainID       string `json:"chainId,omitempty"`
	InitialHeight int64  `json:"initialHeight,omitempty"`
}

func (c brCfg) chainID() string {
	if c.ChainID == "" {
		return ChainID
	}
	return c.ChainID
}

func (c brCfg) h0() int64 {
	if c.InitialHeight < 1 {
		return 1
	}
	return c.InitialHeight
}

// brNetworks are the chain ids a scenario may run as: the four networks the code base knows by name
// (utils.MainNetChainID ...; the epoch number is free) and one it does not know.
var brNetworks = []string{utils.MainNetChainID + "-1", utils.TestEdge1ChainID + "-1", utils.TestEdge2ChainID + "-3",
	utils.LocalNetChainID + "-1", "haqq_7777-2"}

// brNetClass names the network of a chain id with the code's own predicates.
func brNetClass(id string) string {
	switch {
	case utils.IsMainNetwork(id):
		return "main"
	case utils.IsTestEdge1Network(id):
		return "testedge1"
	case utils.IsTestEdge2Network(id):
		return "testedge2"
	case utils.IsLocalNetwork(id):
		return "local"
	}
	return "other"
}

// brParams is the part of the genesis configuration that the redirect must not depend on.
type brParams struct {
	SendDefaultOff  bool            `json:"sendDefaultOff,omitempty"`  // bank default_send_enabled = false
	Send            map[string]bool `json:"send,omitempty"`            // explicit bank send_enabled entries
	CommunityTax    string          `json:"communityTax,omitempty"`    // decimal; "" = the default
	Erc20Off        bool            `json:"erc20Off,omitempty"`        // erc20 enable_erc20 = false
	EvmHookOff      bool            `json:"evmHookOff,omitempty"`      // erc20 enable_evm_hook = false
	WithdrawAddrOff bool            `json:"withdrawAddrOff,omitempty"` // distribution withdraw_addr_enabled = false
}

func brDefaultCfg(seed int64) brCfg {
	g := DefaultGenesisCfg(seed)
	g.VotingSecs = 300
	g.Coinomics = false
	return brCfg{Genesis: g, Denom2: "utest", Denom2Balance: "1000000000000", MinDeposit: []brCoin{{utils.BaseDenom, "1000"}},
		BurnVeto: true, BurnPrevote: true, BurnQuorum: false, UnbondingSecs: 100000, SlashDouble: "0.05", SlashDowntime: "0.01"}
}

type brScript struct {
	Cfg brCfg `json:"cfg"`
	Ops []M   `json:"ops"`
}

func brStr(m M, k string) string {
	if v, ok := m[k]; ok {
		return fmt.Sprint(v)
	}
	return ""
}

func brNum(m M, k string, def int64) int64 {
	if v, ok := m[k]; ok {
		switch x := v.(type) {
		case float64:
			return int64(x)
		case int:
			return int64(x)
		case int64:
			return x
		case string:
			var i int64
			fmt.Sscan(x, &i)
			return i
		}
	}
	return def
}

func brBondCoin(amt string) sdk.Coin {
	i, ok := sdkmath.NewIntFromString(amt)
	if !ok {
		panic("bad amount " + amt)
	}
	return sdk.NewCoin(utils.BaseDenom, i)
}

func brCoins(cs []brCoin) sdk.Coins {
	out := sdk.NewCoins()
	for _, c := range cs {
		i, ok := sdkmath.NewIntFromString(c.Amt)
		if !ok {
			panic("bad amount " + c.Amt)
		}
		if i.IsPositive() {
			out = out.Add(sdk.NewCoin(c.Denom, i))
		}
	}
	return out
}

// brCoinsOf reads {"denom": "amt", ...} from an op.
func brCoinsOf(m M, k string) sdk.Coins {
	out := sdk.NewCoins()
	obj, ok := m[k].(map[string]any)
	if !ok {
		return out
	}
	for _, d := range sortedKeys(obj) {
		i, ok := sdkmath.NewIntFromString(fmt.Sprint(obj[d]))
		if ok && i.IsPositive() {
			out = out.Add(sdk.NewCoin(d, i))
		}
	}
	return out
}

// brGenesis patches the chainkit genesis: second denomination, gov burn parameters and
// minimum deposit, slash fractions, unbonding time.
func brGenesis(w *World, cfg brCfg) map[string]json.RawMessage {
	cdc := encCfg.Codec
	gs, _ := w.GenesisState()

	var bank banktypes.GenesisState
	cdc.MustUnmarshalJSON(gs[banktypes.ModuleName], &bank)
	if cfg.Denom2 != "" {
		amt, ok := sdkmath.NewIntFromString(cfg.Denom2Balance)
		if !ok {
			panic("bad denom2Balance")
		}
		n := 0
		for i := range bank.Balances {
			addr := sdk.MustAccAddressFromBech32(bank.Balances[i].Address)
			if _, named := w.Names[addr.String()]; !named {
				continue // module accounts
			}
			bank.Balances[i].Coins = bank.Balances[i].Coins.Add(sdk.NewCoin(cfg.Denom2, amt))
			n++
		}
		bank.Supply = bank.Supply.Add(sdk.NewCoin(cfg.Denom2, amt.MulRaw(int64(n))))
	}
	if pr := cfg.Params; pr != nil {
		bank.Params.DefaultSendEnabled = !pr.SendDefaultOff
		for _, d := range sortedKeys(pr.Send) {
			bank.SendEnabled = append(bank.SendEnabled, banktypes.SendEnabled{Denom: d, Enabled: pr.Send[d]})
		}
	}
	gs[banktypes.ModuleName] = cdc.MustMarshalJSON(&bank)

	if pr := cfg.Params; pr != nil {
		var ds distrtypes.GenesisState
		cdc.MustUnmarshalJSON(gs[distrtypes.ModuleName], &ds)
		if pr.CommunityTax != "" {
			ds.Params.CommunityTax = sdkmath.LegacyMustNewDecFromStr(pr.CommunityTax)
		}
		ds.Params.WithdrawAddrEnabled = !pr.WithdrawAddrOff
		gs[distrtypes.ModuleName] = cdc.MustMarshalJSON(&ds)

		var eg erc20types.GenesisState
		cdc.MustUnmarshalJSON(gs[erc20types.ModuleName], &eg)
		eg.Params.EnableErc20 = !pr.Erc20Off
		eg.Params.EnableEVMHook = !pr.EvmHookOff
		gs[erc20types.ModuleName] = cdc.MustMarshalJSON(&eg)
	}

	var gov govv1.GenesisState
	cdc.MustUnmarshalJSON(gs[govtypes.ModuleName], &gov)
	gov.Params.MinDeposit = brCoins(cfg.MinDeposit)
	gov.Params.BurnVoteVeto = cfg.BurnVeto
	gov.Params.BurnProposalDepositPrevote = cfg.BurnPrevote
	gov.Params.BurnVoteQuorum = cfg.BurnQuorum
	gs[govtypes.ModuleName] = cdc.MustMarshalJSON(&gov)

	var st stakingtypes.GenesisState
	cdc.MustUnmarshalJSON(gs[stakingtypes.ModuleName], &st)
	st.Params.UnbondingTime = time.Duration(cfg.UnbondingSecs) * time.Second
	gs[stakingtypes.ModuleName] = cdc.MustMarshalJSON(&st)

	var sl slashingtypes.GenesisState
	cdc.MustUnmarshalJSON(gs[slashingtypes.ModuleName], &sl)
	sl.Params.SlashFractionDoubleSign = sdkmath.LegacyMustNewDecFromStr(cfg.SlashDouble)
	sl.Params.SlashFractionDowntime = sdkmath.LegacyMustNewDecFromStr(cfg.SlashDowntime)
	gs[slashingtypes.ModuleName] = cdc.MustMarshalJSON(&sl)
	return gs
}

func brNewNode(w *World, cfg brCfg) *Node {
	n := &Node{W: w, DB: dbm.NewMemDB(), Time: GenesisTime}
	// chainkit's openApp with the chain id of the scenario
	n.App = app.NewHaqq(log.NewNopLogger(), n.DB, nil, true, map[int64]bool{}, app.DefaultNodeHome, 0,
		encoding.MakeConfig(app.ModuleBasics), simtestutil.AppOptionsMap{"home": app.DefaultNodeHome}, baseapp.SetChainID(cfg.chainID()))
	stateBytes, err := json.Marshal(brGenesis(w, cfg))
	if err != nil {
		panic(err)
	}
	n.App.InitChain(abci.RequestInitChain{ChainId: cfg.chainID(), Time: GenesisTime, Validators: []abci.ValidatorUpdate{},
		ConsensusParams: w.ConsensusParams(), AppStateBytes: stateBytes, InitialHeight: cfg.h0()})
	n.Header = tmproto.Header{ChainID: cfg.chainID(), Height: cfg.h0(), Time: GenesisTime}
	n.Height = cfg.h0() - 1
	return n
}

// ---------------------------------------------------------------------------------------
// executor

type brEvidence struct {
	Val    int   `json:"val"`
	Height int64 `json:"h"`
	Power  int64 `json:"power"`
}

type brExec struct {
	n       *Node
	w       *World
	cfg     brCfg
	tw      *TraceWriter
	scn     int
	src     string
	step    int // index of the operation being executed
	denoms  []string
	pending []M               // buffered symbolic transactions
	props   map[string]uint64 // symbolic proposal -> id
	powerAt map[int64][]int64 // height -> power of every validator in that block's votes
	timeAt  map[int64]time.Time
	lastAge int64
	nvest   int
	nliq    int
	nparam  int // parameter-change proposals submitted so far
	liqHold map[int]string // liquid denom id -> holder
	stats   map[string]int
}

func (x *brExec) emit(m M) {
	m["scn"] = x.scn
	m["step"] = x.step
	x.tw.Emit(m)
}

func brDecTF(d sdk.Dec) M {
	scaled := new(big.Int).Set(d.BigInt())
	neg := scaled.Sign() < 0
	if neg {
		scaled.Neg(scaled)
	}
	q, r := new(big.Int).QuoRem(scaled, new(big.Int).Exp(big.NewInt(10), big.NewInt(18), nil), new(big.Int))
	t := q.String()
	if neg {
		t = "-" + t // never expected; the trace spec would flag it
	}
	return M{"t": t, "f": fmt.Sprintf("%018s", r.String())}
}

func (x *brExec) valName(op string) string {
	for i, v := range x.w.Vals {
		if v.ValAddr().String() == op {
			return fmt.Sprintf("v%d", i+1)
		}
	}
	return "v?"
}

func (x *brExec) accName(bech string) string {
	if nm, ok := x.w.Names[bech]; ok {
		return nm
	}
	return "x" + digest([]byte(bech))[:6]
}

// envOf reads the configuration from the parameter stores of the modules.
func (x *brExec) envOf(ctx sdk.Context) M {
	a := x.n.App
	gp := a.GovKeeper.GetParams(ctx)
	send, minDep := M{}, M{}
	for _, d := range x.denoms {
		s := "unset"
		if e, found := a.BankKeeper.GetSendEnabledEntry(ctx, d); found {
			s = map[bool]string{true: "on", false: "off"}[e.Enabled]
		}
		send[d] = s
		minDep[d] = bigStr(sdk.NewCoins(gp.MinDeposit...).AmountOf(d))
	}
	dp := a.DistrKeeper.GetParams(ctx)
	ep := a.Erc20Keeper.GetParams(ctx)
	sp := a.SlashingKeeper.GetParams(ctx)
	return M{
		"chainId": ctx.ChainID(), "net": brNetClass(ctx.ChainID()), "h0": x.cfg.h0(),
		"sendDefault": a.BankKeeper.GetParams(ctx).DefaultSendEnabled, "send": send,
		"tax": dp.CommunityTax.BigInt().String(), "withdrawAddr": dp.WithdrawAddrEnabled,
		"burnVeto": gp.BurnVoteVeto, "burnPrevote": gp.BurnProposalDepositPrevote, "burnQuorum": gp.BurnVoteQuorum,
		"minDep": minDep, "erc20": ep.EnableErc20, "evmHook": ep.EnableEVMHook,
		"fracDouble": sp.SlashFractionDoubleSign.BigInt().String(), "fracDowntime": sp.SlashFractionDowntime.BigInt().String(),
		"powerReduction": sdk.DefaultPowerReduction.String(), "bondDenom": a.StakingKeeper.BondDenom(ctx),
	}
}

// paramMsg is the authority message that sets one parameter, built from the parameters in force.
func (x *brExec) paramMsg(ctx sdk.Context, key, denom, val string) (sdk.Msg, error) {
	a := x.n.App
	auth := authtypes.NewModuleAddress(govtypes.ModuleName).String()
	on := val == "true"
	dec := func() (sdk.Dec, error) { // val is the decimal x 10^18
		b, ok := new(big.Int).SetString(val, 10)
		if !ok {
			return sdk.Dec{}, fmt.Errorf("bad decimal %q", val)
		}
		return sdk.NewDecFromBigIntWithPrec(b, 18), nil
	}
	switch key {
	case "sendDefault":
		p := a.BankKeeper.GetParams(ctx)
		p.DefaultSendEnabled = on
		return &banktypes.MsgUpdateParams{Authority: auth, Params: p}, nil
	case "send":
		if val == "unset" {
			return banktypes.NewMsgSetSendEnabled(auth, nil, []string{denom}), nil
		}
		return banktypes.NewMsgSetSendEnabled(auth, []*banktypes.SendEnabled{{Denom: denom, Enabled: val == "on"}}, nil), nil
	case "tax", "withdrawAddr":
		p := a.DistrKeeper.GetParams(ctx)
		if key == "tax" {
			d, err := dec()
			if err != nil {
				return nil, err
			}
			p.CommunityTax = d
		} else {
			p.WithdrawAddrEnabled = on
		}
		return &distrtypes.MsgUpdateParams{Authority: auth, Params: p}, nil
	case "burnVeto", "burnPrevote", "burnQuorum", "minDep":
		p := a.GovKeeper.GetParams(ctx)
		switch key {
		case "burnVeto":
			p.BurnVoteVeto = on
		case "burnPrevote":
			p.BurnProposalDepositPrevote = on
		case "burnQuorum":
			p.BurnVoteQuorum = on
		case "minDep":
			amt, ok := sdkmath.NewIntFromString(val)
			if !ok || !amt.IsPositive() {
				return nil, fmt.Errorf("bad amount %q", val)
			}
			cs := sdk.NewCoins()
			for _, d := range []string{utils.BaseDenom, x.cfg.Denom2} {
				if d != "" && (denom == "*" || denom == d) {
					cs = cs.Add(sdk.NewCoin(d, amt))
				}
			}
			if cs.Empty() {
				return nil, fmt.Errorf("no deposit denomination %q", denom)
			}
			p.MinDeposit = cs
		}
		return &govv1.MsgUpdateParams{Authority: auth, Params: p}, nil
	case "erc20", "evmHook":
		p := a.Erc20Keeper.GetParams(ctx)
		if key == "erc20" {
			p.EnableErc20 = on
		} else {
			p.EnableEVMHook = on
		}
		return &erc20types.MsgUpdateParams{Authority: auth, Params: p}, nil
	case "fracDouble", "fracDowntime":
		p := a.SlashingKeeper.GetParams(ctx)
		d, err := dec()
		if err != nil {
			return nil, err
		}
		if key == "fracDouble" {
			p.SlashFractionDoubleSign = d
		} else {
			p.SlashFractionDowntime = d
		}
		return &slashingtypes.MsgUpdateParams{Authority: auth, Params: p}, nil
	}
	return nil, fmt.Errorf("unknown parameter %q", key)
}

// project reads the abstract state from the real stores.
func (x *brExec) project(ctx sdk.Context) M {
	a := x.n.App
	modBal := func(name string) M {
		out := M{}
		addr := authtypes.NewModuleAddress(name)
		for _, d := range x.denoms {
			out[d] = bigStr(a.BankKeeper.GetBalance(ctx, addr, d).Amount)
		}
		return out
	}
	supply := M{}
	for _, d := range x.denoms {
		supply[d] = bigStr(a.BankKeeper.GetSupply(ctx, d).Amount)
	}
	decs := func(dc sdk.DecCoins) M {
		out := M{}
		for _, d := range x.denoms {
			out[d] = brDecTF(dc.AmountOf(d))
		}
		return out
	}
	outstanding := sdk.DecCoins{}
	a.DistrKeeper.IterateValidatorOutstandingRewards(ctx, func(_ sdk.ValAddress, r distrtypes.ValidatorOutstandingRewards) bool {
		outstanding = outstanding.Add(r.Rewards...)
		return false
	})
	bond := utils.BaseDenom
	vals := M{}
	for _, v := range a.StakingKeeper.GetAllValidators(ctx) {
		status := "unbonded"
		switch v.Status {
		case stakingtypes.Bonded:
			status = "bonded"
		case stakingtypes.Unbonding:
			status = "unbonding"
		}
		vals[x.valName(v.OperatorAddress)] = M{"tokens": bigStr(v.Tokens), "status": status, "jailed": v.Jailed,
			"shares": v.DelegatorShares.BigInt().String()}
	}
	ubd := M{"_": "0"}
	ubdE := []any{}
	a.StakingKeeper.IterateUnbondingDelegations(ctx, func(_ int64, u stakingtypes.UnbondingDelegation) bool {
		key := x.accName(u.DelegatorAddress) + "|" + x.valName(u.ValidatorAddress)
		sum := sdkmath.ZeroInt()
		for _, e := range u.Entries {
			sum = sum.Add(e.Balance)
			ubdE = append(ubdE, M{"k": key, "val": x.valName(u.ValidatorAddress), "h": e.CreationHeight, "init": bigStr(e.InitialBalance),
				"bal": bigStr(e.Balance), "mature": e.IsMature(ctx.BlockHeader().Time)})
		}
		ubd[key] = bigStr(sum)
		return false
	})
	red := M{"_": "0"}
	redE := []any{}
	a.StakingKeeper.IterateRedelegations(ctx, func(_ int64, r stakingtypes.Redelegation) bool {
		key := x.accName(r.DelegatorAddress) + "|" + x.valName(r.ValidatorSrcAddress) + "|" + x.valName(r.ValidatorDstAddress)
		sum := sdkmath.ZeroInt()
		for _, e := range r.Entries {
			sum = sum.Add(e.InitialBalance)
			redE = append(redE, M{"k": key, "src": x.valName(r.ValidatorSrcAddress), "dst": x.valName(r.ValidatorDstAddress),
				"del": x.accName(r.DelegatorAddress) + "|" + x.valName(r.ValidatorDstAddress),
				"h":   e.CreationHeight, "init": bigStr(e.InitialBalance), "sharesDst": e.SharesDst.BigInt().String(),
				"mature": e.IsMature(ctx.BlockHeader().Time)})
		}
		red[key] = bigStr(sum)
		return false
	})
	dels := M{"_": "0"}
	for _, d := range a.StakingKeeper.GetAllDelegations(ctx) {
		dels[x.accName(d.DelegatorAddress)+"|"+x.valName(d.ValidatorAddress)] = d.Shares.BigInt().String()
	}
	govDep := sdk.NewCoins()
	props := M{"_": "-"}
	for _, p := range a.GovKeeper.GetProposals(ctx) {
		st := "done"
		switch p.Status {
		case govv1.StatusDepositPeriod:
			st = "deposit"
			govDep = govDep.Add(p.TotalDeposit...)
		case govv1.StatusVotingPeriod:
			st = "voting"
			govDep = govDep.Add(p.TotalDeposit...)
		case govv1.StatusPassed:
			st = "passed"
		case govv1.StatusRejected:
			st = "rejected"
		case govv1.StatusFailed:
			st = "failed"
		}
		props[fmt.Sprintf("p%d", p.Id)] = st
	}
	govDepM := M{}
	for _, d := range x.denoms {
		govDepM[d] = bigStr(govDep.AmountOf(d))
	}
	return M{
		"supply":       supply,
		"bonded":       bigStr(a.BankKeeper.GetBalance(ctx, authtypes.NewModuleAddress(stakingtypes.BondedPoolName), bond).Amount),
		"notBonded":    bigStr(a.BankKeeper.GetBalance(ctx, authtypes.NewModuleAddress(stakingtypes.NotBondedPoolName), bond).Amount),
		"distrBal":     modBal(distrtypes.ModuleName),
		"community":    decs(a.DistrKeeper.GetFeePoolCommunityCoins(ctx)),
		"outstanding":  decs(outstanding),
		"feeCollector": modBal(authtypes.FeeCollectorName),
		"govBal":       modBal(govtypes.ModuleName),
		"govDep":       govDepM,
		"vals":         vals,
		"ubd":          ubd,
		"red":          red,
		"ubdE":         ubdE,
		"redE":         redE,
		"dels":         dels,
		"props":        props,
		"env":          x.envOf(ctx),
		"height":       ctx.BlockHeight(),
	}
}

func brAttr(e abci.Event, key string) string {
	for _, a := range e.Attributes {
		if a.Key == key {
			return a.Value
		}
	}
	return ""
}

// beginBlock is chainkit's Node.BeginBlock with evidence that can refer to an earlier height
// with the power the validator had then.
func (x *brExec) beginBlock(dtMs int64, proposer int, absent []int, evid []brEvidence) abci.ResponseBeginBlock {
	n := x.n
	n.Time = n.Time.Add(time.Duration(dtMs) * time.Millisecond)
	h := n.Height + 1
	prop := n.W.Vals[proposer%len(n.W.Vals)]
	n.Header = tmproto.Header{ChainID: x.cfg.chainID(), Height: h, Time: n.Time, ProposerAddress: prop.ConsAddr(), AppHash: n.LastHash}
	abs := map[int]bool{}
	for _, i := range absent {
		abs[i] = true
	}
	var votes []abci.VoteInfo
	powers := make([]int64, len(n.W.Vals))
	if n.Height >= x.cfg.h0() {
		ctx := n.App.BaseApp.NewContext(true, tmproto.Header{Height: n.Height})
		for i, v := range n.W.Vals {
			val, found := n.App.StakingKeeper.GetValidatorByConsAddr(ctx, v.ConsAddr())
			if !found || !val.IsBonded() {
				continue
			}
			powers[i] = val.ConsensusPower(sdk.DefaultPowerReduction)
			votes = append(votes, abci.VoteInfo{Validator: abci.Validator{Address: v.ConsAddr(), Power: powers[i]}, SignedLastBlock: !abs[i]})
		}
	} else {
		for i := range n.W.Vals {
			stake, _ := sdkmath.NewIntFromString(n.W.Cfg.ValStake)
			powers[i] = stake.Quo(sdk.DefaultPowerReduction).Int64()
		}
	}
	x.powerAt[h] = powers
	x.timeAt[h] = n.Time
	var byz []abci.Misbehavior
	for _, e := range evid {
		v := n.W.Vals[e.Val%len(n.W.Vals)]
		byz = append(byz, abci.Misbehavior{Type: abci.MisbehaviorType_DUPLICATE_VOTE,
			Validator: abci.Validator{Address: v.ConsAddr(), Power: e.Power}, Height: e.Height, Time: x.timeAt[e.Height], TotalVotingPower: 0})
	}
	return n.App.BeginBlock(abci.RequestBeginBlock{Header: n.Header, LastCommitInfo: abci.CommitInfo{Votes: votes}, ByzantineValidators: byz})
}

func (x *brExec) consName(cons string) string {
	for i, v := range x.w.Vals {
		if v.ConsAddr().String() == cons {
			return fmt.Sprintf("v%d", i+1)
		}
	}
	return "v?"
}

// endingProposals asks the real gov queues which proposals end at this block time, with
// their deposit records and gov's own burn decision.
func (x *brExec) endingProposals(ctx sdk.Context) []any {
	a := x.n.App
	out := []any{}
	depOf := func(id uint64) M {
		tot := sdk.NewCoins()
		for _, d := range a.GovKeeper.GetDeposits(ctx, id) {
			tot = tot.Add(d.Amount...)
		}
		m := M{}
		for _, d := range x.denoms {
			m[d] = bigStr(tot.AmountOf(d))
		}
		for _, c := range tot {
			if _, ok := m[c.Denom]; !ok {
				panic("deposit in a denomination outside the projection: " + c.Denom)
			}
		}
		return m
	}
	params := a.GovKeeper.GetParams(ctx)
	a.GovKeeper.IterateInactiveProposalsQueue(ctx, ctx.BlockHeader().Time, func(p govv1.Proposal) bool {
		out = append(out, M{"id": fmt.Sprintf("p%d", p.Id), "phase": "deposit", "outcome": "expired", "burn": params.BurnProposalDepositPrevote, "dep": depOf(p.Id)})
		return false
	})
	a.GovKeeper.IterateActiveProposalsQueue(ctx, ctx.BlockHeader().Time, func(p govv1.Proposal) bool {
		cctx, _ := ctx.CacheContext() // Tally deletes votes: run gov's own decision procedure on a discarded branch
		passes, burn, tr := a.GovKeeper.Tally(cctx, p)
		outcome := "rejected"
		if passes {
			outcome = "passed"
		} else if burn {
			veto, _ := sdkmath.NewIntFromString(tr.NoWithVetoCount)
			if veto.IsPositive() {
				outcome = "veto"
			} else {
				outcome = "noquorum"
			}
		}
		out = append(out, M{"id": fmt.Sprintf("p%d", p.Id), "phase": "voting", "outcome": outcome, "burn": burn, "dep": depOf(p.Id)})
		return false
	})
	return out
}

// brWithdrawn sums what the distribution module reports as paid out of its account
// (withdraw_rewards / withdraw_commission events) in one ABCI call.
func (x *brExec) withdrawn(evs []abci.Event) M {
	tot := sdk.NewCoins()
	for _, e := range evs {
		if e.Type == distrtypes.EventTypeWithdrawRewards || e.Type == distrtypes.EventTypeWithdrawCommission {
			if cs, err := sdk.ParseCoinsNormalized(brAttr(e, sdk.AttributeKeyAmount)); err == nil {
				tot = tot.Add(cs...)
			}
		}
	}
	out := M{}
	for _, d := range x.denoms {
		out[d] = bigStr(tot.AmountOf(d))
	}
	return out
}

func brBankEvents(evs []abci.Event, x *brExec) (burns, mints []any) {
	burns, mints = []any{}, []any{}
	modName := func(bech string) string {
		for _, m := range []string{"gov", "bonded_tokens_pool", "not_bonded_tokens_pool", "distribution", "evm", "erc20", "liquidvesting", "coinomics", "fee_collector", "vesting"} {
			if authtypes.NewModuleAddress(m).String() == bech {
				return m
			}
		}
		return x.accName(bech)
	}
	for _, e := range evs {
		switch e.Type {
		case banktypes.EventTypeCoinBurn:
			burns = append(burns, M{"by": modName(brAttr(e, "burner")), "amount": brAttr(e, "amount")})
		case banktypes.EventTypeCoinMint:
			mints = append(mints, M{"by": modName(brAttr(e, "minter")), "amount": brAttr(e, "amount")})
		}
	}
	return
}

// block runs one full block: BeginBlock, the transactions, EndBlock, Commit, with a trace line
// after each call.
func (x *brExec) block(dtMs int64, absent []int, evid []brEvidence, txs []M) (slashed map[int]bool) {
	n := x.n
	slashed = map[int]bool{}
	pre := x.project(x.preCtx())
	res := x.beginBlock(dtMs, int(n.Height)%len(x.w.Vals), absent, evid)
	post := x.project(n.Ctx())
	slashes := []any{}
	for _, e := range res.Events {
		if e.Type != slashingtypes.EventTypeSlash || brAttr(e, slashingtypes.AttributeKeyBurnedCoins) == "" {
			continue
		}
		kind := "downtime"
		if brAttr(e, slashingtypes.AttributeKeyReason) == slashingtypes.AttributeValueDoubleSign {
			kind = "doubleSign"
		}
		val := x.consName(brAttr(e, slashingtypes.AttributeKeyAddress))
		var vi int
		fmt.Sscanf(val, "v%d", &vi)
		slashed[vi-1] = true
		// which stake states lost tokens (store differences; used for coverage floors only)
		hit := brHits(pre, post, val)
		x.stats["slash:"+kind]++
		for _, hk := range []string{"bonded", "unbonding", "redelegating"} {
			if hit[hk] == true {
				x.stats["hit:"+kind+":"+hk]++
			}
		}
		slashes = append(slashes, M{"val": val, "kind": kind, "power": brAttr(e, slashingtypes.AttributeKeyPower),
			"burned": brAttr(e, slashingtypes.AttributeKeyBurnedCoins), "hit": hit,
			"valStatus": pre["vals"].(M)[val].(M)["status"]})
	}
	burns, mints := brBankEvents(res.Events, x)
	evs := []any{}
	for _, e := range evid {
		evs = append(evs, M{"val": fmt.Sprintf("v%d", e.Val+1), "h": e.Height, "power": fmt.Sprint(e.Power)})
	}
	x.emit(M{"ev": "begin", "args": M{"h": n.Header.Height, "dtMs": dtMs, "absent": brInts(absent), "evidence": evs}, "ok": true, "err": "",
		"rep": M{"slashes": slashes, "burns": burns, "mints": mints, "withdrawn": x.withdrawn(res.Events)}, "post": post})

	for _, t := range txs {
		x.deliver(t)
	}

	ending := x.endingProposals(n.Ctx())
	eb := n.EndBlock()
	post = x.project(n.Ctx())
	burns, mints = brBankEvents(eb.Events, x)
	for _, p := range ending {
		pm := p.(M)
		if pm["burn"] == true {
			nz := 0
			for _, v := range pm["dep"].(M) {
				if v != "0" {
					nz++
				}
			}
			x.stats["depburn:"+fmt.Sprint(pm["outcome"])]++
			if nz >= 2 {
				x.stats["depburn:2denoms"]++
			}
		} else {
			x.stats["deprefund:"+fmt.Sprint(pm["outcome"])]++
		}
	}
	x.emit(M{"ev": "end", "args": M{"h": n.Header.Height}, "ok": true, "err": "",
		"rep": M{"ended": ending, "burns": burns, "mints": mints, "withdrawn": x.withdrawn(eb.Events)}, "post": post})
	n.Commit()
	return slashed
}

func brInts(a []int) []any {
	out := []any{}
	for _, i := range a {
		out = append(out, i)
	}
	return out
}

// preCtx is a context on the state the next BeginBlock starts from.
func (x *brExec) preCtx() sdk.Context {
	if x.n.Height < x.cfg.h0() {
		return x.n.App.BaseApp.NewContext(false, x.n.Header) // deliver state left by InitChain
	}
	return x.n.App.BaseApp.NewContext(true, tmproto.Header{ChainID: x.cfg.chainID(), Height: x.n.Height, Time: x.n.Time})
}

func brBig(s any) *big.Int {
	b, ok := new(big.Int).SetString(fmt.Sprint(s), 10)
	if !ok {
		return big.NewInt(0)
	}
	return b
}

// brHits tells which kinds of stake of validator val lost tokens between two projections.
func brHits(pre, post M, val string) M {
	hit := M{"bonded": false, "unbonding": false, "redelegating": false}
	pv, qv := pre["vals"].(M), post["vals"].(M)
	if brBig(qv[val].(M)["tokens"]).Cmp(brBig(pv[val].(M)["tokens"])) < 0 {
		hit["bonded"] = true
	}
	for k, v := range pre["ubd"].(M) {
		if strings.HasSuffix(k, "|"+val) && brBig(post["ubd"].(M)[k]).Cmp(brBig(v)) < 0 {
			hit["unbonding"] = true
		}
	}
	// a redelegation out of val is slashed by unbonding from the destination validator (or from an
	// unbonding delegation at the destination)
	for k := range pre["red"].(M) {
		parts := strings.Split(k, "|")
		if len(parts) != 3 || parts[1] != val {
			continue
		}
		dk := parts[0] + "|" + parts[2]
		if pd, ok := pre["dels"].(M)[dk]; ok {
			qd, still := post["dels"].(M)[dk]
			if !still || brBig(qd).Cmp(brBig(pd)) < 0 {
				hit["redelegating"] = true
			}
		}
		if pu, ok := pre["ubd"].(M)[dk]; ok && brBig(post["ubd"].(M)[dk]).Cmp(brBig(pu)) < 0 {
			hit["redelegating"] = true
		}
	}
	return hit
}

// ---------------------------------------------------------------------------------------
// transactions

func (x *brExec) valIdx(t M, k string) int {
	s := brStr(t, k)
	var i int
	if _, err := fmt.Sscanf(s, "v%d", &i); err == nil {
		return (i - 1 + len(x.w.Vals)) % len(x.w.Vals)
	}
	return int(brNum(t, k, 0)) % len(x.w.Vals)
}

func (x *brExec) buildTx(t M) ([]byte, error) {
	n, w := x.n, x.w
	from := w.Acct(brStr(t, "from"))
	gasPrice := big.NewInt(2_000_000_000)
	// chainkit's Node.CosmosTxFor, signed for the chain id of the scenario
	cosmos := func(gas uint64, msgs ...sdk.Msg) ([]byte, error) {
		acc := n.App.AccountKeeper.GetAccount(n.Ctx(), from.Addr)
		if acc == nil {
			return nil, fmt.Errorf("no account %s", from.Addr)
		}
		fee := sdk.NewCoins(sdk.NewCoin(utils.BaseDenom, sdkmath.NewIntFromBigInt(new(big.Int).Mul(gasPrice, new(big.Int).SetUint64(gas)))))
		_, bz, err := BuildCosmosTx(from.Priv, CosmosTxOpts{Gas: gas, Fee: fee, ChainID: x.cfg.chainID(), AccNum: acc.GetAccountNumber(),
			Seq: acc.GetSequence()}, msgs...)
		return bz, err
	}
	val := func(k string) sdk.ValAddress { return w.Vals[x.valIdx(t, k)].ValAddr() }
	propID := func() (uint64, error) {
		id, ok := x.props[brStr(t, "prop")]
		if !ok {
			return 0, fmt.Errorf("proposal %s was never submitted", brStr(t, "prop"))
		}
		return id, nil
	}
	switch brStr(t, "k") {
	case "send":
		return cosmos(200000, banktypes.NewMsgSend(from.Addr, w.Acct(brStr(t, "to")).Addr, sdk.NewCoins(brBondCoin(brStr(t, "amt")))))
	case "delegate":
		return cosmos(400000, stakingtypes.NewMsgDelegate(from.Addr, val("val"), brBondCoin(brStr(t, "amt"))))
	case "undelegate":
		return cosmos(400000, stakingtypes.NewMsgUndelegate(from.Addr, val("val"), brBondCoin(brStr(t, "amt"))))
	case "redelegate":
		return cosmos(500000, stakingtypes.NewMsgBeginRedelegate(from.Addr, val("val"), val("dst"), brBondCoin(brStr(t, "amt"))))
	case "unjail":
		return cosmos(300000, slashingtypes.NewMsgUnjail(sdk.ValAddress(from.Addr)))
	case "submit":
		msg, err := govv1beta1.NewMsgSubmitProposal(govv1beta1.NewTextProposal("t "+brStr(t, "prop"), "d"), brCoinsOf(t, "coins"), from.Addr)
		if err != nil {
			return nil, err
		}
		return cosmos(500000, msg)
	case "deposit":
		id, err := propID()
		if err != nil {
			return nil, err
		}
		return cosmos(400000, govv1beta1.NewMsgDeposit(from.Addr, id, brCoinsOf(t, "coins")))
	case "paramprop":
		// a proposal that carries the authority message of the module, with exactly the minimum deposit in force
		msg, err := x.paramMsg(n.Ctx(), brStr(t, "key"), brStr(t, "denom"), brStr(t, "val"))
		if err != nil {
			return nil, err
		}
		dep := sdk.NewCoins(n.App.GovKeeper.GetParams(n.Ctx()).MinDeposit...)
		sub, err := govv1.NewMsgSubmitProposal([]sdk.Msg{msg}, dep, from.Addr.String(), "", "set "+brStr(t, "key"), "parameter change")
		if err != nil {
			return nil, err
		}
		return cosmos(1000000, sub)
	case "vote":
		id, err := propID()
		if err != nil {
			return nil, err
		}
		opt := govv1beta1.OptionYes
		switch brStr(t, "opt") {
		case "veto":
			opt = govv1beta1.OptionNoWithVeto
		case "no":
			opt = govv1beta1.OptionNo
		case "abstain":
			opt = govv1beta1.OptionAbstain
		}
		return cosmos(300000, govv1beta1.NewMsgVote(from.Addr, id, opt))
	case "vest_create":
		a := sdk.NewCoins(brBondCoin(brStr(t, "amt")))
		lock := sdkvesting.Periods{{Length: 10_000_000, Amount: a}}
		half := sdk.NewCoins(sdk.NewCoin(utils.BaseDenom, a[0].Amount.QuoRaw(2)))
		vest := sdkvesting.Periods{{Length: 1, Amount: half}, {Length: 1, Amount: a.Sub(half...)}}
		return cosmos(500000, vestingtypes.NewMsgCreateClawbackVestingAccount(from.Addr, w.Acct(brStr(t, "to")).Addr,
			n.Time.Add(-20*time.Second), lock, vest, false))
	case "liquidate":
		return cosmos(12000000, liquidvestingtypes.NewMsgLiquidate(from.Addr, w.Acct(brStr(t, "to")).Addr, brBondCoin(brStr(t, "amt"))))
	case "redeem":
		c := sdk.NewCoin(brStr(t, "denom"), brBondCoin(brStr(t, "amt")).Amount)
		return cosmos(3000000, liquidvestingtypes.NewMsgRedeem(from.Addr, w.Acct(brStr(t, "to")).Addr, c))
	case "eth_send":
		to := ethAddr(w.Acct(brStr(t, "to")))
		bz, _, err := n.EthTxFor(from, &to, brBondCoin(brStr(t, "amt")).Amount.BigInt(), 21000, nil)
		return bz, err
	}
	return nil, fmt.Errorf("unknown tx kind %q", brStr(t, "k"))
}

// deliver builds the transaction on the deliver state, delivers it and logs one line.
func (x *brExec) deliver(t M) bool {
	n := x.n
	args := M{}
	for k, v := range t {
		args[k] = v
	}
	// every tx line carries the amounts the sending module is to burn / mint (none unless a control burn)
	zero := func() M {
		m := M{}
		for _, d := range x.denoms {
			m[d] = "0"
		}
		return m
	}
	for _, k := range []string{"burn", "mint"} {
		full := zero()
		if given, ok := t[k].(M); ok {
			for d, v := range given {
				full[d] = v
			}
		}
		args[k] = full
	}
	if _, ok := args["module"]; !ok {
		args["module"] = "-"
	}
	var nextProp uint64
	submits := brStr(t, "k") == "submit" || brStr(t, "k") == "paramprop"
	if submits {
		nextProp, _ = n.App.GovKeeper.GetProposalID(n.Ctx())
	}
	bz, err := x.buildTx(t)
	if err != nil {
		x.emit(M{"ev": "tx", "args": args, "ok": false, "err": "build: " + brShort(err.Error()), "rep": M{"burns": []any{}, "mints": []any{}, "code": -1, "withdrawn": x.withdrawn(nil)}, "post": x.project(n.Ctx())})
		return false
	}
	r := n.Deliver(bz)
	ok := r.Code == 0
	if ok && submits {
		x.props[brStr(t, "prop")] = nextProp
	}
	burns, mints := brBankEvents(r.Events, x)
	x.stats["tx:"+brStr(t, "k")+map[bool]string{true: ":ok", false: ":fail"}[ok]]++
	if ok && brStr(t, "module") != "" {
		x.stats["control:"+brStr(t, "module")]++
	}
	e := ""
	if !ok {
		e = brShort(r.Log)
	}
	x.emit(M{"ev": "tx", "args": args, "ok": ok, "err": e, "rep": M{"burns": burns, "mints": mints, "code": int(r.Code), "withdrawn": x.withdrawn(r.Events)}, "post": x.project(n.Ctx())})
	return ok
}

func brShort(s string) string {
	if len(s) > 160 {
		return s[:160]
	}
	return s
}

// ---------------------------------------------------------------------------------------
// operations

func (x *brExec) flush() {
	if len(x.pending) == 0 {
		return
	}
	txs := x.pending
	x.pending = nil
	x.block(1000, nil, nil, txs)
}

func (x *brExec) valState(i int) (stakingtypes.Validator, bool) {
	ctx := x.preCtx()
	return x.n.App.StakingKeeper.GetValidatorByConsAddr(ctx, x.w.Vals[i].ConsAddr())
}

// nextAbsentTriggers predicts whether marking validator i absent in the next block makes the
// real slashing module slash it there (same arithmetic as HandleValidatorSignature).
func (x *brExec) nextAbsentTriggers(i int) bool {
	ctx := x.preCtx()
	k := x.n.App.SlashingKeeper
	cons := x.w.Vals[i].ConsAddr()
	info, found := k.GetValidatorSigningInfo(ctx, cons)
	if !found {
		return false
	}
	window := k.SignedBlocksWindow(ctx)
	idx := info.IndexOffset % window
	cnt := info.MissedBlocksCounter
	if !k.GetValidatorMissedBlockBitArray(ctx, cons, idx) {
		cnt++
	}
	h := x.n.Height + 1
	return h > info.StartHeight+window && cnt > window-k.MinSignedPerWindow(ctx)
}

func (x *brExec) opSlash(op M) {
	i := x.valIdx(op, "val")
	v, found := x.valState(i)
	switch brStr(op, "kind") {
	case "doubleSign":
		x.flush()
		evH := x.lastAge + 2
		if evH > x.n.Height {
			evH = x.n.Height
		}
		if evH < x.cfg.h0() {
			// no committed block yet: make one
			x.block(1000, nil, nil, nil)
			evH = x.cfg.h0()
		}
		power := int64(0)
		if p, ok := x.powerAt[evH]; ok {
			power = p[i]
		}
		x.block(1000, nil, []brEvidence{{Val: i, Height: evH, Power: power}}, nil)
	case "downtime":
		if !found || !v.IsBonded() || v.Jailed {
			// a validator that is not in the active set cannot be absent: the event is not executable here
			x.flush()
			x.emit(M{"ev": "skip", "args": M{"op": "slash", "kind": "downtime", "val": fmt.Sprintf("v%d", i+1)}, "ok": false, "err": "validator not bonded", "rep": M{"burns": []any{}, "mints": []any{}, "withdrawn": x.withdrawn(nil)}, "post": x.project(x.preCtx())})
			return
		}
		for iter := 0; iter < 24; iter++ {
			if x.nextAbsentTriggers(i) && len(x.pending) > 0 {
				// the unbonding / redelegation transactions of the script go into the block right
				// before the slash, so that they are younger than the infraction height
				txs := x.pending
				x.pending = nil
				x.block(1000, nil, nil, txs)
				continue
			}
			if x.block(1000, []int{i}, nil, nil)[i] {
				return
			}
		}
	}
}

// jumpTo runs one block whose time is just after t.
func (x *brExec) jumpTo(t time.Time) {
	dt := t.Sub(x.n.Time).Milliseconds() + 1000
	if dt < 1000 {
		dt = 1000
	}
	x.block(dt, nil, nil, nil)
}

func (x *brExec) opEndProposal(op M, votes string) {
	name := brStr(op, "prop")
	id, ok := x.props[name]
	if votes != "" && ok {
		for i := range x.w.Vals {
			x.pending = append(x.pending, M{"k": "vote", "from": fmt.Sprintf("v%d", i+1), "prop": name, "opt": votes})
		}
	}
	x.flush()
	if !ok {
		x.emit(M{"ev": "skip", "args": M{"op": brStr(op, "op"), "prop": name}, "ok": false, "err": "proposal never submitted", "rep": M{"burns": []any{}, "mints": []any{}, "withdrawn": x.withdrawn(nil)}, "post": x.project(x.preCtx())})
		return
	}
	p, found := x.n.App.GovKeeper.GetProposal(x.preCtx(), id)
	if !found {
		x.block(1000, nil, nil, nil)
		return
	}
	switch p.Status {
	case govv1.StatusDepositPeriod:
		x.jumpTo(*p.DepositEndTime)
	case govv1.StatusVotingPeriod:
		x.jumpTo(*p.VotingEndTime)
	default:
		x.block(1000, nil, nil, nil)
	}
}

// opSetParam changes one parameter the way a chain does it: a proposal with the authority message
// and the minimum deposit, yes votes of all validators, the end of the voting period.  Whether the
// change took effect is read from the stores (a chain without bonded validators passes nothing).
func (x *brExec) opSetParam(op M) {
	x.flush()
	x.nparam++
	name := fmt.Sprintf("pp%d", x.nparam)
	key := brStr(op, "key")
	before, _ := json.Marshal(x.envOf(x.preCtx()))
	x.pending = append(x.pending, M{"k": "paramprop", "from": "a6", "prop": name, "key": key, "denom": brStr(op, "denom"), "val": brStr(op, "val")})
	x.flush()
	x.opEndProposal(M{"op": "setparam", "prop": name}, "yes")
	after, _ := json.Marshal(x.envOf(x.preCtx()))
	if string(before) != string(after) {
		x.stats["setparam:applied"]++
		x.stats["setparam:"+key]++
	} else {
		x.stats["setparam:noeffect"]++
	}
}

// opBurn: a burn by a module other than staking / gov (control).
func (x *brExec) opBurn(op M) {
	amt := brStr(op, "amt")
	switch brStr(op, "module") {
	case "liquidvesting":
		id := -1
		for _, k := range []int{0, 1} {
			if _, ok := x.liqHold[k]; ok {
				id = k
			}
		}
		if id < 0 || (x.nliq < 2 && brNum(op, "fresh", 0) == 1) {
			// set up: clawback vesting account with locked, fully vested coins -> liquidate
			x.nvest++
			vx := fmt.Sprintf("vx%d", x.nvest)
			// gas money for the vesting account: a bank send, or an EVM transfer while the bank refuses sends
			fund := "send"
			if !x.n.App.BankKeeper.IsSendEnabledDenom(x.preCtx(), utils.BaseDenom) {
				fund = "eth_send"
			}
			x.pending = append(x.pending,
				M{"k": "vest_create", "from": "a6", "to": vx, "amt": "3000000000000000000000"},
				M{"k": fund, "from": "a6", "to": vx, "amt": "5000000000000000000"})
			x.flush()
			pre := x.stats["tx:liquidate:ok"]
			x.pending = append(x.pending, M{"k": "liquidate", "from": vx, "to": "a5", "amt": "1000000000000000000000"})
			x.flush()
			if x.stats["tx:liquidate:ok"] > pre {
				id = x.nliq
				x.liqHold[id] = "a5"
				x.nliq++
			}
		}
		if id < 0 {
			return
		}
		denom := fmt.Sprintf("aLIQUID%d", id)
		x.pending = append(x.pending, M{"k": "redeem", "from": x.liqHold[id], "to": "a4", "amt": amt, "denom": denom,
			"module": "liquidvesting", "burn": M{denom: amt}})
		x.flush()
	case "evm":
		// an EVM value transfer: the evm module burns the value from the sender and mints it to the recipient
		x.pending = append(x.pending, M{"k": "eth_send", "from": brStr(op, "from"), "to": brStr(op, "to"), "amt": amt,
			"module": "evm", "burn": M{utils.BaseDenom: amt}, "mint": M{utils.BaseDenom: amt}})
		x.flush()
	}
}

func (x *brExec) run(ops []M) {
	for i, op := range ops {
		x.step = i + 1
		switch brStr(op, "op") {
		case "delegate", "undelegate", "redelegate":
			t := M{"k": brStr(op, "op"), "from": brStr(op, "del"), "val": op["val"], "amt": brStr(op, "amt")}
			if d, ok := op["dst"]; ok {
				t["dst"] = d
			}
			x.pending = append(x.pending, t)
		case "submit", "deposit":
			x.pending = append(x.pending, M{"k": brStr(op, "op"), "from": brStr(op, "del"), "prop": brStr(op, "prop"), "coins": op["coins"]})
			x.flush() // proposal ids are assigned in submission order
		case "slash":
			x.opSlash(op)
		case "age":
			x.flush()
			for j := 0; j < 3; j++ {
				x.block(1000, nil, nil, nil)
			}
			x.lastAge = x.n.Height
		case "mature":
			x.flush()
			x.block((x.cfg.UnbondingSecs+1)*1000, nil, nil, nil)
			x.block(1000, nil, nil, nil)
			x.lastAge = x.n.Height
		case "unjail":
			x.flush()
			vi := x.valIdx(op, "val")
			x.block(11_000, nil, nil, nil) // downtime jail duration is 10 s
			x.pending = append(x.pending, M{"k": "unjail", "from": fmt.Sprintf("v%d", vi+1)})
			x.flush()
		case "veto":
			x.opEndProposal(op, "veto")
		case "reject":
			x.opEndProposal(op, "no")
		case "pass":
			x.opEndProposal(op, "yes")
		case "noquorum", "expire":
			x.opEndProposal(op, "")
		case "setparam":
			x.opSetParam(op)
		case "burn":
			x.flush()
			x.opBurn(op)
		case "blocks":
			x.flush()
			for j := int64(0); j < brNum(op, "n", 1); j++ {
				x.block(brNum(op, "dtMs", 1000), nil, nil, nil)
			}
		}
	}
	x.step = len(ops) + 1
	x.flush()
	x.block(1000, nil, nil, nil)
}

func brRunScenario(tw *TraceWriter, scn int, src string, sc brScript, stats map[string]int) {
	w := NewWorld(sc.Cfg.Genesis)
	x := &brExec{w: w, cfg: sc.Cfg, tw: tw, scn: scn, src: src, props: map[string]uint64{}, powerAt: map[int64][]int64{},
		timeAt: map[int64]time.Time{}, liqHold: map[int]string{}, stats: stats}
	x.denoms = []string{utils.BaseDenom, "aLIQUID0", "aLIQUID1"}
	if sc.Cfg.Denom2 != "" {
		x.denoms = append(x.denoms, sc.Cfg.Denom2)
	}
	sort.Strings(x.denoms)
	x.n = brNewNode(w, sc.Cfg)
	x.timeAt[sc.Cfg.h0()-1] = GenesisTime
	x.lastAge = sc.Cfg.h0() - 1
	ops := []any{}
	for _, o := range sc.Ops {
		ops = append(ops, o)
	}
	x.emit(M{"ev": "reset", "src": src, "cfg": sc.Cfg, "ops": ops, "denoms": x.denoms, "post": x.project(x.preCtx()),
		"par": M{"fracDouble": sdkmath.LegacyMustNewDecFromStr(sc.Cfg.SlashDouble).BigInt().String(),
			"fracDowntime":   sdkmath.LegacyMustNewDecFromStr(sc.Cfg.SlashDowntime).BigInt().String(),
			"powerReduction": sdk.DefaultPowerReduction.String(), "bondDenom": utils.BaseDenom,
			"burnVeto": sc.Cfg.BurnVeto, "burnPrevote": sc.Cfg.BurnPrevote, "burnQuorum": sc.Cfg.BurnQuorum}})
	x.run(sc.Ops)
	stats["scenarios"]++
	stats["blocks"] += int(x.n.Height - (sc.Cfg.h0() - 1))
	stats["net:"+brNetClass(sc.Cfg.chainID())]++
	if sc.Cfg.h0() > 1 {
		stats["lateStart"]++
	}
}

// ---------------------------------------------------------------------------------------
// seeded random histories (beyond the symbolic domain of the specification's script generator)

func brRandomScript(r *rand.Rand, seed int64) brScript {
	cfg := brDefaultCfg(seed)
	// the network and the height of the first block (drawn from a source of their own: the histories
	// themselves are the same for every choice)
	rn := rand.New(rand.NewSource(seed*31 + 5))
	cfg.ChainID = brNetworks[rn.Intn(len(brNetworks))]
	cfg.InitialHeight = []int64{1, 1, 2, 1_000_000, 5_000_000}[rn.Intn(5)]
	cfg.Genesis.Coinomics = r.Intn(2) == 0
	cfg.Genesis.NoBaseFee = r.Intn(4) == 0
	cfg.SlashDouble = []string{"0.05", "0.333333333333333333", "0.000000000000000007", "0.5", "0.07"}[r.Intn(5)]
	cfg.SlashDowntime = []string{"0.01", "0.0001", "0.123456789012345678", "0.25"}[r.Intn(4)]
	cfg.BurnVeto = r.Intn(5) != 0
	cfg.BurnPrevote = r.Intn(3) != 0
	cfg.BurnQuorum = r.Intn(2) == 0
	switch r.Intn(3) {
	case 1:
		cfg.MinDeposit = []brCoin{{utils.BaseDenom, "1000"}, {cfg.Denom2, "500"}}
	case 2:
		cfg.MinDeposit = []brCoin{{cfg.Denom2, "700"}}
	}
	if r.Intn(4) == 0 {
		cfg.UnbondingSecs = 30
	}
	// a third of the histories start from a non-default configuration
	if r.Intn(3) == 0 {
		pr := &brParams{}
		switch r.Intn(4) {
		case 0:
			pr.SendDefaultOff = true
		case 1:
			pr.Send = map[string]bool{utils.BaseDenom: false}
		case 2:
			pr.SendDefaultOff = true
			pr.Send = map[string]bool{cfg.Denom2: true}
		case 3:
			pr.Send = map[string]bool{cfg.Denom2: false}
		}
		pr.CommunityTax = []string{"", "0", "1", "0.5"}[r.Intn(4)]
		pr.Erc20Off = r.Intn(3) == 0
		pr.EvmHookOff = r.Intn(4) == 0
		pr.WithdrawAddrOff = r.Intn(4) == 0
		cfg.Params = pr
	}
	// a legal change of the configuration (executed as a proposal with the authority message)
	boolStr := func() string { return []string{"true", "false", "false"}[r.Intn(3)] }
	setparam := func() M {
		op := M{"op": "setparam", "denom": "-"}
		switch r.Intn(12) {
		case 0, 1:
			op["key"], op["val"] = "sendDefault", boolStr()
		case 2, 3, 4:
			op["key"], op["denom"] = "send", []string{utils.BaseDenom, utils.BaseDenom, cfg.Denom2}[r.Intn(3)]
			op["val"] = []string{"off", "off", "on", "unset"}[r.Intn(4)]
		case 5, 6:
			op["key"] = "tax"
			op["val"] = []string{"0", "0", "1000000000000000000", "1000000000000000000", "20000000000000000", "333333333333333333"}[r.Intn(6)]
		case 7:
			op["key"], op["val"] = []string{"burnVeto", "burnPrevote", "burnQuorum"}[r.Intn(3)], []string{"true", "false"}[r.Intn(2)]
		case 8:
			op["key"], op["denom"] = "minDep", []string{utils.BaseDenom, cfg.Denom2, "*"}[r.Intn(3)]
			op["val"] = []string{"1000", "500", "700"}[r.Intn(3)]
		case 9, 10:
			op["key"], op["val"] = []string{"erc20", "erc20", "evmHook", "withdrawAddr"}[r.Intn(4)], boolStr()
		default:
			op["key"] = []string{"fracDouble", "fracDowntime"}[r.Intn(2)]
			op["val"] = []string{"50000000000000000", "333333333333333333", "7", "10000000000000000", "250000000000000000"}[r.Intn(5)]
		}
		return op
	}
	amts := []string{"1", "999", "1000000000000000000", "333333333333333333333", "250000000000000000007", "77000000000000000000", "1234567890123456789012"}
	small := []string{"1", "17", "499", "500", "1000", "123456789", "5000000000000000000"}
	acct := func() string { return fmt.Sprintf("a%d", 1+r.Intn(4)) }
	val := func() string { return fmt.Sprintf("v%d", 1+r.Intn(3)) }
	coins := func() M {
		m := M{}
		switch r.Intn(4) {
		case 0:
			m[utils.BaseDenom] = small[r.Intn(len(small))]
		case 1:
			m[cfg.Denom2] = small[r.Intn(len(small))]
		default:
			m[utils.BaseDenom] = small[r.Intn(len(small))]
			m[cfg.Denom2] = small[r.Intn(len(small))]
		}
		return m
	}
	var ops []M
	nprop := 0
	type liveProp struct{ name, fate string }
	live := []liveProp{}
	type pair struct{ del, val string }
	pairs := []pair{}
	// every delegator starts with stake at two validators
	for a := 1; a <= 4; a++ {
		for j := 0; j < 2; j++ {
			pr := pair{fmt.Sprintf("a%d", a), val()}
			pairs = append(pairs, pr)
			ops = append(ops, M{"op": "delegate", "del": pr.del, "val": pr.val, "amt": amts[2+r.Intn(len(amts)-2)]})
		}
	}
	anyPair := func() pair {
		if r.Intn(6) == 0 {
			return pair{acct(), val()} // possibly not a delegation at all: the message fails
		}
		return pairs[r.Intn(len(pairs))]
	}
	part := []string{"1", "999", "1000000000000000000", "33333333333333333333", "77000000000000000000", "250000000000000000007"}
	minDep := func() M {
		m := M{}
		for _, c := range cfg.MinDeposit {
			m[c.Denom] = c.Amt
		}
		return m
	}
	stakeOps := func(v string) {
		// fresh unbonding and redelegating stake of validator v
		if r.Intn(4) != 0 {
			for _, pr := range pairs {
				if pr.val == v && r.Intn(2) == 0 {
					ops = append(ops, M{"op": "undelegate", "del": pr.del, "val": v, "amt": part[r.Intn(len(part))]})
					break
				}
			}
		}
		if r.Intn(4) != 0 {
			for _, pr := range pairs {
				if pr.val == v && r.Intn(2) == 0 {
					dst := val()
					ops = append(ops, M{"op": "redelegate", "del": pr.del, "val": v, "dst": dst, "amt": part[r.Intn(len(part))]})
					pairs = append(pairs, pair{pr.del, dst})
					break
				}
			}
		}
	}
	if r.Intn(3) == 0 {
		ops = append(ops, setparam())
	}
	nops := 22 + r.Intn(16)
	for len(ops) < nops {
		switch k := r.Intn(22); {
		case k >= 20:
			ops = append(ops, setparam())
		case k < 2:
			pr := pair{acct(), val()}
			pairs = append(pairs, pr)
			ops = append(ops, M{"op": "delegate", "del": pr.del, "val": pr.val, "amt": amts[r.Intn(len(amts))]})
		case k < 4:
			pr := anyPair()
			ops = append(ops, M{"op": "undelegate", "del": pr.del, "val": pr.val, "amt": part[r.Intn(len(part))]})
		case k < 6:
			pr := anyPair()
			dst := val()
			ops = append(ops, M{"op": "redelegate", "del": pr.del, "val": pr.val, "dst": dst, "amt": part[r.Intn(len(part))]})
			pairs = append(pairs, pair{pr.del, dst})
		case k < 10:
			v := val()
			stakeOps(v)
			ops = append(ops, M{"op": "slash", "kind": []string{"doubleSign", "downtime", "downtime"}[r.Intn(3)], "val": v})
		case k < 11:
			ops = append(ops, M{"op": "slash", "kind": []string{"doubleSign", "downtime"}[r.Intn(2)], "val": val()})
		case k < 13:
			ops = append(ops, M{"op": []string{"age", "age", "mature", "unjail", "unjail"}[r.Intn(5)], "val": val()})
		case k < 16:
			nprop++
			p := fmt.Sprintf("q%d", nprop)
			fate := []string{"veto", "veto", "veto", "expire", "expire", "noquorum", "reject", "pass"}[r.Intn(8)]
			live = append(live, liveProp{p, fate})
			ops = append(ops, M{"op": "submit", "prop": p, "del": acct(), "coins": coins()})
			if r.Intn(2) == 0 {
				ops = append(ops, M{"op": "deposit", "prop": p, "del": acct(), "coins": coins()})
			}
			if fate != "expire" {
				ops = append(ops, M{"op": "deposit", "prop": p, "del": acct(), "coins": minDep()})
			}
		case k < 18:
			if len(live) > 0 {
				j := r.Intn(len(live))
				p := live[j]
				live = append(live[:j], live[j+1:]...)
				ops = append(ops, M{"op": p.fate, "prop": p.name})
			}
		default:
			if r.Intn(2) == 0 {
				ops = append(ops, M{"op": "burn", "module": "evm", "from": acct(), "to": acct(), "amt": amts[r.Intn(len(amts))]})
			} else {
				ops = append(ops, M{"op": "burn", "module": "liquidvesting", "amt": []string{"1", "1000000000000000000", "33333333333333333333"}[r.Intn(3)], "fresh": r.Intn(2)})
			}
		}
	}
	for _, p := range live {
		ops = append(ops, M{"op": p.fate, "prop": p.name})
	}
	return brScript{Cfg: cfg, Ops: ops}
}

func brMain(args []string) error {
	fs := flag.NewFlagSet("burnredirect", flag.ExitOnError)
	scriptsPath := fs.String("scripts", "", "JSON array of {cfg, ops}")
	nrandom := fs.Int("random", 0, "number of seeded random scenarios")
	seed := fs.Int64("seed", 1, "seed")
	out := fs.String("out", "trace.ndjson", "trace output")
	statsPath := fs.String("stats", "", "write coverage counters (JSON)")
	fs.Parse(args)
	tw, err := NewTraceWriter(*out)
	if err != nil {
		return err
	}
	defer tw.Close()
	stats := map[string]int{}
	scn := 0
	if *scriptsPath != "" {
		var scripts []brScript
		if err := readJSONFile(*scriptsPath, &scripts); err != nil {
			return err
		}
		for _, sc := range scripts {
			scn++
			brRunScenario(tw, scn, "script", sc, stats)
		}
	}
	r := rand.New(rand.NewSource(*seed*7919 + 17))
	for i := 0; i < *nrandom; i++ {
		scn++
		brRunScenario(tw, scn, "random", brRandomScript(r, *seed*100000+int64(i)), stats)
	}
	if *statsPath != "" {
		bz, _ := json.MarshalIndent(stats, "", " ")
		if err := os.WriteFile(*statsPath, bz, 0o644); err != nil {
			return err
		}
	}
	fmt.Printf("burnredirect: scenarios=%d lines=%d\n", scn, tw.N)
	return nil
}
