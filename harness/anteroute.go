package main

import (
	"bufio"
	"encoding/json"
	"flag"
	"fmt"
	"math/big"
	"os"
	"strings"
	"time"

	sdkmath "cosmossdk.io/math"
	abci "github.com/cometbft/cometbft/abci/types"
	"github.com/cosmos/cosmos-sdk/client"
	"github.com/cosmos/cosmos-sdk/codec"
	codectypes "github.com/cosmos/cosmos-sdk/codec/types"
	sdk "github.com/cosmos/cosmos-sdk/types"
	sdktx "github.com/cosmos/cosmos-sdk/types/tx"
	"github.com/cosmos/cosmos-sdk/types/tx/signing"
	"github.com/cosmos/cosmos-sdk/x/auth/migrations/legacytx"
	authsigning "github.com/cosmos/cosmos-sdk/x/auth/signing"
	authtx "github.com/cosmos/cosmos-sdk/x/auth/tx"
	sdkvesting "github.com/cosmos/cosmos-sdk/x/auth/vesting/types"
	"github.com/cosmos/cosmos-sdk/x/authz"
	banktypes "github.com/cosmos/cosmos-sdk/x/bank/types"
	stakingtypes "github.com/cosmos/cosmos-sdk/x/staking/types"
	"github.com/ethereum/go-ethereum/common"
	ethtypes "github.com/ethereum/go-ethereum/core/types"
	ethcrypto "github.com/ethereum/go-ethereum/crypto"
	"github.com/ethereum/go-ethereum/signer/core/apitypes"

	clienttx "github.com/cosmos/cosmos-sdk/client/tx"

	"github.com/haqq-network/haqq/app"
	"github.com/haqq-network/haqq/encoding"
	"github.com/haqq-network/haqq/ethereum/eip712"
	"github.com/haqq-network/haqq/testutil"
	utiltx "github.com/haqq-network/haqq/testutil/tx"
	haqqtypes "github.com/haqq-network/haqq/types"
	"github.com/haqq-network/haqq/utils"
	evmtypes "github.com/haqq-network/haqq/x/evm/types"
)

// Driver for specs/AnteRoute.tla (property C06).
//
// Input (from TLC, one JSON object per line):
//
//	{"msgs":[<tree>...], "ext":["dyn",...], "src":"small|near|spine|..."}
//	<tree> = {"t":"send|eth|vest|grant|exec", "auth":"-|gen_send|gen_eth|gen_vest|sendauth|stakeauth", "kids":[<tree>...]}
//
// Every case is built as a REAL transaction (bank MsgSend, evm MsgEthereumTx, sdk vesting
// MsgCreateVestingAccount, authz MsgGrant / MsgExec, signed for the route its first extension
// option selects), encoded with the application's TxEncoder and handed to
// app.BaseApp.DeliverTx, i.e. it runs through the application's own decoder, ante handler
// (app.setAnteHandler wiring, including NewHaqqAnteHandlerDecorator) and message router.
//
// Observation per case (all read from the real stores / the ABCI response, never from logs):
//
//	rejected    = ResponseDeliverTx.Code != 0
//	handler_ran = the signer's account sequence moved.  baseapp.runTx writes the ante handler's
//	              branch (where every route increments the sequence / nonce) if and only if the ante
//	              handler returned no error, and then calls runMsgs: the sequence moved <=> the ante
//	              handler let the tx through <=> the message handlers were invoked.
//	untouched   = signer balance, recipient balance, signer sequence and the signer's authz grants
//	              are exactly what they were before the call
//	stage       = decode | ante | exec | ok  (decode: the application's TxDecoder refuses the bytes)
//	by          = which component refused it, classified from the error text (diagnostic only)
//
// Registry modes: "asbuilt" is app.Setup as is.  "widened" additionally registers, in the
// application's interface registry only, (1) sdk vesting MsgCreateVestingAccount as an sdk.Msg and
// (2) one more TxExtensionOptionI implementation ("other").  The pinned app registers neither, so
// in "asbuilt" such transactions already die in the TxDecoder; "widened" lets them reach the ante
// handler so that its own rules are what is observed.  Only cases that contain "vest" or "other"
// are run in widened mode (all others behave identically by construction).

func init() { register("anteroute", anteRouteMain) }

type arNode struct {
	T    string   `json:"t"`
	Auth string   `json:"auth"`
	Kids []arNode `json:"kids"`
}

type arTx struct {
	Msgs []arNode `json:"msgs"`
	Ext  []string `json:"ext"`
}

type arCase struct {
	Msgs []arNode `json:"msgs"`
	Ext  []string `json:"ext"`
	Src  string   `json:"src"`
	Reg  string   `json:"reg,omitempty"` // replay files pin the registry mode
}

type arEnv struct {
	app     *app.Haqq
	ctx     sdk.Context
	txCfg   client.TxConfig
	seed    int64
	reg     string
	a, b    Key // a signs everything, b is recipient / grantee
	val     sdk.ValAddress
	chainID uint64
	inBlock int
	nvest   int
}

const arGas = uint64(10_000_000)

func arNewEnv(seed int64, reg string) *arEnv {
	a, _ := app.Setup(false, nil, ChainID)
	e := &arEnv{app: a, seed: seed, reg: reg, txCfg: encoding.MakeConfig(app.ModuleBasics).TxConfig}
	if reg == "widened" {
		ir := a.InterfaceRegistry()
		ir.RegisterImplementations((*sdk.Msg)(nil), &sdkvesting.MsgCreateVestingAccount{})
		ir.RegisterImplementations((*sdktx.TxExtensionOptionI)(nil), &authz.GenericAuthorization{})
	}
	e.a = DetKey(seed, "c06-signer")
	e.b = DetKey(seed, "c06-other")
	e.val = sdk.ValAddress(DetKey(seed, "c06-val").Addr)
	pc, err := haqqtypes.ParseChainID(ChainID)
	if err != nil {
		panic(err)
	}
	e.chainID = pc.Uint64()

	// the real validator is the proposer, so that accepted Ethereum messages find their coinbase
	ctx0 := a.BaseApp.NewContext(false, testutil.NewHeader(1, GenesisTime, ChainID, nil, nil, nil))
	vals := a.StakingKeeper.GetAllValidators(ctx0)
	cons, err := vals[0].GetConsAddr()
	if err != nil {
		panic(err)
	}
	header := testutil.NewHeader(1, GenesisTime, ChainID, cons, nil, nil)
	ctx := a.BaseApp.NewContext(false, header)
	huge, _ := new(big.Int).SetString("1000000000000000000000000000000", 10)
	for _, k := range []Key{e.a, e.b} {
		if err := testutil.FundAccount(ctx, a.BankKeeper, k.Addr, sdk.NewCoins(sdk.NewCoin(utils.BaseDenom, sdkmath.NewIntFromBigInt(huge)))); err != nil {
			panic(err)
		}
	}
	e.ctx = ctx
	e.nextBlock()
	return e
}

// nextBlock: EndBlock, Commit, BeginBlock(height+1, time+1s) through the repository's own helper.
func (e *arEnv) nextBlock() {
	ctx, err := testutil.Commit(e.ctx, e.app, time.Second, nil)
	if err != nil {
		panic(err)
	}
	e.ctx = e.app.BaseApp.NewContext(false, ctx.BlockHeader())
	e.inBlock = 0
}

func (e *arEnv) any(m interface {
	Reset()
	String() string
	ProtoMessage()
}) *codectypes.Any {
	a, err := codectypes.NewAnyWithValue(m)
	if err != nil {
		panic(err)
	}
	return a
}

func (e *arEnv) extAny(name string, web3sig []byte) *codectypes.Any {
	switch name {
	case "eth":
		return e.any(&evmtypes.ExtensionOptionsEthereumTx{})
	case "web3":
		if web3sig == nil {
			web3sig = make([]byte, ethcrypto.SignatureLength)
		}
		return e.any(&haqqtypes.ExtensionOptionsWeb3Tx{FeePayer: e.a.Addr.String(), TypedDataChainID: e.chainID, FeePayerSig: web3sig})
	case "dyn":
		return e.any(&haqqtypes.ExtensionOptionDynamicFeeTx{MaxPriorityPrice: sdkmath.NewInt(1)})
	case "other":
		// a well-formed Any of a type the (widened) registry knows as TxExtensionOptionI but no route accepts
		return e.any(&authz.GenericAuthorization{Msg: "/verif.c06.NotAnExtension"})
	case "unreg":
		// a well-formed Any of a type that is not registered as TxExtensionOptionI at all
		return e.any(&banktypes.SendAuthorization{SpendLimit: sdk.NewCoins(sdk.NewInt64Coin(utils.BaseDenom, 1))})
	}
	panic("unknown extension option " + name)
}

// ethMsg: a value transfer a -> b signed by a.
func (e *arEnv) ethMsg(nonce uint64, baseFee *big.Int) *evmtypes.MsgEthereumTx {
	to := common.BytesToAddress(e.b.Addr.Bytes())
	m := evmtypes.NewTx(&evmtypes.EvmTxArgs{
		ChainID:   e.app.EvmKeeper.ChainID(),
		Nonce:     nonce,
		To:        &to,
		Amount:    big.NewInt(1),
		GasLimit:  100000,
		GasFeeCap: new(big.Int).Mul(baseFee, big.NewInt(2)),
		GasTipCap: big.NewInt(1),
		Accesses:  &ethtypes.AccessList{},
	})
	m.From = common.BytesToAddress(e.a.Addr.Bytes()).Hex()
	signer := ethtypes.LatestSignerForChainID(e.app.EvmKeeper.ChainID())
	if err := m.Sign(signer, utiltx.NewSigner(e.a.Priv)); err != nil {
		panic(err)
	}
	m.From = ""
	return m
}

type arBuild struct {
	e       *arEnv
	seq     uint64
	baseFee *big.Int
	neth    int // Ethereum messages built so far: top-level ones get consecutive nonces
}

func (b *arBuild) msg(n arNode) sdk.Msg {
	e := b.e
	switch n.T {
	case "send":
		return banktypes.NewMsgSend(e.a.Addr, e.b.Addr, sdk.NewCoins(sdk.NewInt64Coin(utils.BaseDenom, 1)))
	case "eth":
		m := e.ethMsg(b.seq+uint64(b.neth), b.baseFee)
		b.neth++
		return m
	case "vest":
		e.nvest++
		to := DetKey(e.seed, fmt.Sprintf("c06-vest-%d", e.nvest)).Addr
		return sdkvesting.NewMsgCreateVestingAccount(e.a.Addr, to, sdk.NewCoins(sdk.NewInt64Coin(utils.BaseDenom, 1)),
			GenesisTime.Add(365*24*time.Hour).Unix(), false)
	case "grant":
		var auth authz.Authorization
		switch n.Auth {
		case "gen_send":
			auth = authz.NewGenericAuthorization(sdk.MsgTypeURL(&banktypes.MsgSend{}))
		case "gen_eth":
			auth = authz.NewGenericAuthorization(sdk.MsgTypeURL(&evmtypes.MsgEthereumTx{}))
		case "gen_vest":
			auth = authz.NewGenericAuthorization(sdk.MsgTypeURL(&sdkvesting.MsgCreateVestingAccount{}))
		case "sendauth":
			auth = banktypes.NewSendAuthorization(sdk.NewCoins(sdk.NewInt64Coin(utils.BaseDenom, 100)), nil)
		case "stakeauth":
			sa, err := stakingtypes.NewStakeAuthorization([]sdk.ValAddress{e.val}, nil, stakingtypes.AuthorizationType_AUTHORIZATION_TYPE_DELEGATE, nil)
			if err != nil {
				panic(err)
			}
			auth = sa
		default:
			panic("unknown authorization " + n.Auth)
		}
		exp := GenesisTime.Add(365 * 24 * time.Hour)
		g, err := authz.NewMsgGrant(e.a.Addr, e.b.Addr, auth, &exp)
		if err != nil {
			panic(err)
		}
		return g
	case "exec":
		inner := make([]sdk.Msg, 0, len(n.Kids))
		for _, k := range n.Kids {
			inner = append(inner, b.msg(k))
		}
		x := authz.NewMsgExec(e.a.Addr, inner)
		return &x
	}
	panic("unknown node type " + n.T)
}

// build makes the signed transaction of a case; `how` says how it was signed.
func (e *arEnv) build(c arTx) (tx sdk.Tx, how string, err error) {
	defer func() {
		if r := recover(); r != nil {
			err = fmt.Errorf("build panic: %v", r)
		}
	}()
	seq, err := e.app.AccountKeeper.GetSequence(e.ctx, e.a.Addr)
	if err != nil {
		return nil, "", err
	}
	accNum := e.app.AccountKeeper.GetAccount(e.ctx, e.a.Addr).GetAccountNumber()
	baseFee := e.app.FeeMarketKeeper.GetBaseFee(e.ctx)
	if baseFee == nil || baseFee.Sign() == 0 {
		baseFee = big.NewInt(1_000_000_000)
	}
	b := &arBuild{e: e, seq: seq, baseFee: baseFee}
	msgs := make([]sdk.Msg, 0, len(c.Msgs))
	for _, n := range c.Msgs {
		msgs = append(msgs, b.msg(n))
	}
	builder := e.txCfg.NewTxBuilder().(authtx.ExtensionOptionsTxBuilder)
	if err := builder.SetMsgs(msgs...); err != nil {
		return nil, "", err
	}
	price := new(big.Int).Mul(baseFee, big.NewInt(2))
	fee := sdk.NewCoins(sdk.NewCoin(utils.BaseDenom, sdkmath.NewIntFromBigInt(new(big.Int).Mul(price, new(big.Int).SetUint64(arGas)))))
	builder.SetGasLimit(arGas)
	builder.SetFeeAmount(fee)

	sel := ""
	if len(c.Ext) > 0 {
		sel = c.Ext[0]
	}
	setExt := func(web3sig []byte) {
		opts := make([]*codectypes.Any, 0, len(c.Ext))
		for i, x := range c.Ext {
			if i == 0 {
				opts = append(opts, e.extAny(x, web3sig))
			} else {
				opts = append(opts, e.extAny(x, nil))
			}
		}
		if len(opts) > 0 {
			builder.SetExtensionOptions(opts...)
		}
	}

	switch sel {
	case "eth":
		// Ethereum envelope: no cosmos signatures, fee and gas are the sums over the Ethereum messages
		setExt(nil)
		ethFee := sdk.Coins{}
		ethGas := uint64(0)
		for _, m := range msgs {
			if em, ok := m.(*evmtypes.MsgEthereumTx); ok {
				ethGas += em.GetGas()
				ethFee = ethFee.Add(sdk.NewCoin(utils.BaseDenom, sdkmath.NewIntFromBigInt(em.GetFee())))
			}
		}
		if ethGas > 0 {
			builder.SetGasLimit(ethGas)
			builder.SetFeeAmount(ethFee)
		}
		return builder.GetTx(), "eth-envelope", nil

	case "web3":
		// legacy EIP-712: the signature lives in the extension option, the cosmos signature is empty
		how = "eip712"
		sig, serr := e.eip712Sig(accNum, seq, fee, msgs)
		if serr != nil {
			// the typed-data encoder cannot express this message tree: the transaction is still
			// submitted, with a well-formed but wrong signature (it can then only be rejected)
			how = "eip712-unsignable"
			sig = nil
			if os.Getenv("AR_DEBUG") != "" {
				fmt.Fprintf(os.Stderr, "unsignable: %v\n", serr)
			}
		}
		setExt(sig)
		if err := builder.SetSignatures(signing.SignatureV2{
			PubKey:   e.a.Priv.PubKey(),
			Data:     &signing.SingleSignatureData{SignMode: signing.SignMode_SIGN_MODE_LEGACY_AMINO_JSON},
			Sequence: seq,
		}); err != nil {
			return nil, "", err
		}
		return builder.GetTx(), how, nil
	}

	// every other selector: a plain cosmos transaction signed in SIGN_MODE_DIRECT over the
	// body that already carries the extension options
	setExt(nil)
	sigV2 := signing.SignatureV2{
		PubKey:   e.a.Priv.PubKey(),
		Data:     &signing.SingleSignatureData{SignMode: signing.SignMode_SIGN_MODE_DIRECT},
		Sequence: seq,
	}
	if err := builder.SetSignatures(sigV2); err != nil {
		return nil, "", err
	}
	signerData := authsigning.SignerData{ChainID: ChainID, AccountNumber: accNum, Sequence: seq}
	sigV2, err = clienttx.SignWithPrivKey(signing.SignMode_SIGN_MODE_DIRECT, signerData, builder, e.a.Priv, e.txCfg, seq)
	if err != nil {
		return nil, "", err
	}
	if err := builder.SetSignatures(sigV2); err != nil {
		return nil, "", err
	}
	return builder.GetTx(), "direct", nil
}

func (e *arEnv) eip712Sig(accNum, seq uint64, fee sdk.Coins, msgs []sdk.Msg) (sig []byte, err error) {
	defer func() {
		if r := recover(); r != nil {
			err = fmt.Errorf("eip712 panic: %v", r)
		}
	}()
	stdFee := legacytx.NewStdFee(arGas, fee) //nolint:staticcheck
	data := legacytx.StdSignBytes(ChainID, accNum, seq, 0, stdFee, msgs, "", nil)
	// same codec as app/ante/cosmos/eip712.go uses on the verifying side
	typed, err := eip712.LegacyWrapTxToTypedData(arEip712Codec, e.chainID, msgs[0], data, &eip712.FeeDelegationOptions{FeePayer: e.a.Addr})
	if err != nil {
		return nil, err
	}
	hash, _, err := apitypes.TypedDataAndHash(typed)
	if err != nil {
		return nil, err
	}
	sig, _, err = utiltx.NewSigner(e.a.Priv).SignByAddress(e.a.Addr, hash)
	if err != nil {
		return nil, err
	}
	sig[ethcrypto.RecoveryIDOffset] += 27
	return sig, nil
}

var arEip712Codec = func() codec.ProtoCodecMarshaler {
	registry := codectypes.NewInterfaceRegistry()
	haqqtypes.RegisterInterfaces(registry)
	return codec.NewProtoCodec(registry)
}()

type arProbe struct {
	seq    uint64
	balA   string
	balB   string
	grants int
}

func (e *arEnv) probe() arProbe {
	seq, _ := e.app.AccountKeeper.GetSequence(e.ctx, e.a.Addr)
	auths, _ := e.app.AuthzKeeper.GetAuthorizations(e.ctx, e.b.Addr, e.a.Addr)
	return arProbe{
		seq:    seq,
		balA:   e.app.BankKeeper.GetBalance(e.ctx, e.a.Addr, utils.BaseDenom).Amount.String(),
		balB:   e.app.BankKeeper.GetBalance(e.ctx, e.b.Addr, utils.BaseDenom).Amount.String(),
		grants: len(auths),
	}
}

func arAffectedByWidening(c arTx) bool {
	for _, x := range c.Ext {
		if x == "other" {
			return true
		}
	}
	var has func(ns []arNode) bool
	has = func(ns []arNode) bool {
		for _, n := range ns {
			if n.T == "vest" || has(n.Kids) {
				return true
			}
		}
		return false
	}
	return has(c.Msgs)
}

func arNormalise(ns []arNode) []arNode {
	out := make([]arNode, len(ns))
	for i, n := range ns {
		out[i] = arNode{T: n.T, Auth: n.Auth, Kids: arNormalise(n.Kids)}
		if out[i].Auth == "" {
			out[i].Auth = "-"
		}
	}
	return out
}

// run executes one case and returns its trace line.
func (e *arEnv) run(c arCase, scn int) M {
	if e.inBlock >= 200 {
		e.nextBlock()
	}
	e.inBlock++
	txd := arTx{Msgs: arNormalise(c.Msgs), Ext: append([]string{}, c.Ext...)}
	line := M{"ev": "case", "scn": scn, "src": c.Src, "reg": e.reg, "tx": txd}
	tx, how, err := e.build(txd)
	if err != nil {
		// nothing was submitted: not an observation of the ante handler
		line["built"] = false
		line["how"] = "unbuildable"
		line["rejected"], line["handler_ran"], line["untouched"] = true, false, true
		line["stage"], line["code"], line["codespace"], line["err"] = "build", 0, "", arClip(err.Error())
		line["by"] = "-"
		return line
	}
	bz, err := e.txCfg.TxEncoder()(tx)
	if err != nil {
		line["built"] = false
		line["how"] = "unencodable"
		line["rejected"], line["handler_ran"], line["untouched"] = true, false, true
		line["stage"], line["code"], line["codespace"], line["err"] = "build", 0, "", arClip(err.Error())
		line["by"] = "-"
		return line
	}
	before := e.probe()
	res := e.app.BaseApp.DeliverTx(abci.RequestDeliverTx{Tx: bz})
	after := e.probe()

	rejected := res.Code != 0
	ran := after.seq != before.seq
	stage := "ok"
	switch {
	case rejected && ran:
		stage = "exec"
	case rejected && res.Codespace == "sdk" && res.Code == 2:
		stage = "decode"
	case rejected:
		stage = "ante"
	}
	line["built"] = true
	line["how"] = how
	line["rejected"] = rejected
	line["handler_ran"] = ran
	line["untouched"] = before == after
	line["stage"] = stage
	line["code"] = int(res.Code)
	line["codespace"] = res.Codespace
	line["err"] = ""
	if rejected {
		line["err"] = arClip(res.Log)
	}
	line["by"] = arRejectedBy(stage, res.Log)
	return line
}

// arRejectedBy names the component that refused the transaction, from the text of the error
// (diagnostic only: compared with the as-built model's prediction, never part of the verdict).
func arRejectedBy(stage, log string) string {
	has := func(sub string) bool { return strings.Contains(log, sub) }
	switch {
	case stage == "ok" || stage == "exec":
		return "-"
	case stage == "decode":
		return "TxDecoder"
	case has("MsgEthereumTx needs to be contained within"):
		return "RejectMessagesDecorator"
	case has("found disabled msg type"):
		return "AuthzLimiterDecorator:disabled"
	case has("found more nested msgs than permitted"):
		return "AuthzLimiterDecorator:cap"
	case has("rejecting tx with unsupported extension option"):
		return "NewAnteHandler:default"
	case has("expected *types.MsgEthereumTx"):
		return "evm:not-MsgEthereumTx"
	case has("for eth tx length of ExtensionOptions should be 1"):
		return "EthValidateBasicDecorator:options"
	case has("signature verification failed") && has("expected amount of extension options"):
		return "SigVerification:options"
	case has("signature verification failed"):
		return "SigVerification:signature"
	case strings.HasPrefix(log, "unknown extension options"):
		return "ExtensionOptionsDecorator"
	}
	return "other"
}

func arClip(s string) string {
	if i := strings.Index(s, "\n"); i >= 0 {
		s = s[:i]
	}
	if len(s) > 160 {
		s = s[:160]
	}
	// keep the line trivially re-parsable after TLC's double escaping
	s = strings.NewReplacer("\"", "'", "\\", "/").Replace(s)
	return s
}

func arReadCases(path string) ([]arCase, error) {
	f, err := os.Open(path)
	if err != nil {
		return nil, err
	}
	defer f.Close()
	var out []arCase
	sc := bufio.NewScanner(f)
	sc.Buffer(make([]byte, 1<<20), 1<<26)
	for sc.Scan() {
		t := strings.TrimSpace(sc.Text())
		if t == "" {
			continue
		}
		var c arCase
		if err := json.Unmarshal([]byte(t), &c); err != nil {
			return nil, fmt.Errorf("bad case line %q: %w", t, err)
		}
		out = append(out, c)
	}
	return out, sc.Err()
}

func anteRouteMain(args []string) error {
	fs := flag.NewFlagSet("anteroute", flag.ExitOnError)
	casesPath := fs.String("cases", "", "ndjson file: one case per line")
	seed := fs.Int64("seed", 1, "seed (keys)")
	out := fs.String("out", "trace.ndjson", "trace output")
	modes := fs.String("reg", "asbuilt,widened", "registry modes to run")
	fresh := fs.Bool("fresh", false, "a fresh application for every case (replays: every case alone)")
	fs.Parse(args)

	cases, err := arReadCases(*casesPath)
	if err != nil {
		return err
	}
	tw, err := NewTraceWriter(*out)
	if err != nil {
		return err
	}
	defer tw.Close()

	scn := 0
	stat := map[string]int{}
	for _, reg := range strings.Split(*modes, ",") {
		var e *arEnv
		for _, c := range cases {
			if c.Reg != "" && c.Reg != reg {
				continue
			}
			if reg == "widened" && !arAffectedByWidening(arTx{Msgs: c.Msgs, Ext: c.Ext}) {
				continue
			}
			if e == nil || *fresh {
				e = arNewEnv(*seed, reg)
				tw.Emit(M{"ev": "reset", "scn": scn, "reg": reg, "cfg": M{"seed": *seed, "reg": reg, "chain": ChainID}})
			}
			scn++
			line := e.run(c, scn)
			tw.Emit(line)
			stat[reg+":"+line["stage"].(string)]++
		}
	}
	fmt.Printf("anteroute: cases=%d executed=%d lines=%d %v\n", len(cases), scn, tw.N, stat)
	return nil
}
