package main

import (
	"crypto/ecdsa"
	"crypto/sha256"
	"encoding/binary"
	"encoding/hex"
	"encoding/json"
	"flag"
	"fmt"
	"math"
	"math/big"
	"math/rand"
	"os"
	"runtime/debug"
	"runtime/pprof"
	"sort"
	"strings"
	"sync"

	"github.com/cosmos/cosmos-sdk/client"
	codectypes "github.com/cosmos/cosmos-sdk/codec/types"
	sdk "github.com/cosmos/cosmos-sdk/types"
	authsigning "github.com/cosmos/cosmos-sdk/x/auth/signing"
	"github.com/ethereum/go-ethereum/common"
	ethtypes "github.com/ethereum/go-ethereum/core/types"
	"github.com/ethereum/go-ethereum/crypto"

	"github.com/haqq-network/haqq/app"
	"github.com/haqq-network/haqq/encoding"
	evmtypes "github.com/haqq-network/haqq/x/evm/types"
)

// Driver for specs/Envelope.tla (property C18): the Cosmos envelope of Ethereum transactions.
//
// Input:  {"cases":[{"src":"grid","cls":{<field classes chosen by TLC>}[,"seed":n]}, ...]}
//         plus --random N seeded cases that leave the class grid.
// Output: one ndjson line per case, written after the whole real path
//         FromEthereumTx -> ValidateBasic -> BuildTx -> TxEncoder -> TxDecoder -> GetMsgs -> AsTransaction
//         returned (a panic at any stage is a logged outcome).  All numbers are decimal strings,
//         bytes are hex.  The line's "cfg" (src, cls, seed) is enough to re-execute the case alone.
//
// The concrete value inside a class is a seeded choice; the ranges below mirror the membership
// predicates of Envelope.tla (EnvelopeTrace re-checks every logged value against its class).

func init() { register("envelope", envelopeMain) }

const envEvmDenom = "aISLM"

var (
	envTwo64  = new(big.Int).Lsh(big.NewInt(1), 64)
	envTwo63  = new(big.Int).Lsh(big.NewInt(1), 63)
	envTwo70  = new(big.Int).Lsh(big.NewInt(1), 70)
	envTwo256 = new(big.Int).Lsh(big.NewInt(1), 256)
	envMax256 = new(big.Int).Sub(envTwo256, big.NewInt(1))
)

type envCase struct {
	Src  string            `json:"src"`
	Cls  map[string]string `json:"cls"`
	Seed *int64            `json:"seed,omitempty"`
}

type envCaseFile struct {
	Cases []envCase `json:"cases"`
}

// envCodec is the node's encoding configuration (encoding.MakeConfig(app.ModuleBasics), the one
// cmd/haqqd and app.NewHaqq use).
type envCodec struct {
	txConfig client.TxConfig
	registry codectypes.InterfaceRegistry
}

type envStage struct {
	Ok  bool   `json:"ok"`
	Err string `json:"err"`
}

var envNotRun = envStage{false, "not-run"}

func envTry(f func() error) (st envStage) {
	defer func() {
		if r := recover(); r != nil {
			st = envStage{false, envClip("panic: " + fmt.Sprint(r))}
		}
	}()
	if err := f(); err != nil {
		return envStage{false, envClip(err.Error())}
	}
	return envStage{true, ""}
}

func envClip(s string) string {
	if len(s) > 180 {
		return s[:180] + "..."
	}
	return s
}

func envBig(b *big.Int) string {
	if b == nil {
		return "nil"
	}
	return b.String()
}

func envU64(u uint64) string { return new(big.Int).SetUint64(u).String() }

func envAddr(a *common.Address) string {
	if a == nil {
		return "nil"
	}
	return strings.ToLower(a.Hex())
}

// envAccessStr: "<addresses>/<keys>/<16 hex of sha256 over the canonical text>" (canonical text:
// lower-case "addr:key,key;addr:...").
func envAccessStr(al ethtypes.AccessList) (string, int, int) {
	var sb strings.Builder
	keys := 0
	for i, t := range al {
		if i > 0 {
			sb.WriteByte(';')
		}
		sb.WriteString(strings.ToLower(t.Address.Hex()))
		sb.WriteByte(':')
		for j, k := range t.StorageKeys {
			if j > 0 {
				sb.WriteByte(',')
			}
			sb.WriteString(strings.ToLower(k.Hex()))
			keys++
		}
	}
	h := sha256.Sum256([]byte(sb.String()))
	return fmt.Sprintf("%d/%d/%s", len(al), keys, hex.EncodeToString(h[:8])), len(al), keys
}

func envRandBelow(r *rand.Rand, n *big.Int) *big.Int { // uniform in [0, n), n > 0
	return new(big.Int).Rand(r, n)
}

// envRandRange picks in [lo, hi] (hi >= lo): one third each low end, high end, uniform.
func envRandRange(r *rand.Rand, lo, hi *big.Int) *big.Int {
	switch r.Intn(3) {
	case 0:
		return new(big.Int).Set(lo)
	case 1:
		return new(big.Int).Set(hi)
	}
	span := new(big.Int).Sub(hi, lo)
	span.Add(span, big.NewInt(1))
	return new(big.Int).Add(lo, envRandBelow(r, span))
}

// envRandBits: random value of random bit length <= maxBits (0 included).
func envRandBits(r *rand.Rand, maxBits int) *big.Int {
	bits := r.Intn(maxBits + 1)
	if bits == 0 {
		return new(big.Int)
	}
	v := envRandBelow(r, new(big.Int).Lsh(big.NewInt(1), uint(bits)))
	return v.SetBit(v, bits-1, 1)
}

func envRandAddr(r *rand.Rand) common.Address {
	var a common.Address
	r.Read(a[:])
	switch r.Intn(8) {
	case 0: // leading zero bytes
		for i := 0; i < 1+r.Intn(19); i++ {
			a[i] = 0
		}
	case 1:
		for i := range a {
			a[i] = 0xff
		}
	}
	if a == (common.Address{}) {
		a[19] = 1
	}
	return a
}

func envRandHash(r *rand.Rand) common.Hash {
	var h common.Hash
	r.Read(h[:])
	switch r.Intn(8) {
	case 0:
		h = common.Hash{}
	case 1:
		for i := 0; i < 1+r.Intn(31); i++ {
			h[i] = 0
		}
	}
	return h
}

func envPoint(cls string) (*big.Int, bool) {
	switch cls {
	case "nil":
		return nil, true
	case "0":
		return new(big.Int), true
	case "1":
		return big.NewInt(1), true
	case "2p64":
		return new(big.Int).Set(envTwo64), true
	case "max256":
		return new(big.Int).Set(envMax256), true
	case "over256":
		return new(big.Int).Set(envTwo256), true
	}
	return nil, false
}

func envZ(b *big.Int) *big.Int { // geth's view of a nil amount
	if b == nil {
		return new(big.Int)
	}
	return b
}

type envFields struct {
	typ      string
	nonce    uint64
	gas      uint64
	value    *big.Int
	gasPrice *big.Int
	tip, cap *big.Int
	data     []byte
	access   ethtypes.AccessList
	to       *common.Address
	sig      string
	chain    *big.Int
	base     *big.Int
}

func envRelOf(tip, cap *big.Int) string {
	switch envZ(tip).Cmp(envZ(cap)) {
	case -1:
		return "lt"
	case 0:
		return "eq"
	}
	return "gt"
}

// envBaseClassOf mirrors BaseIn of Envelope.tla for dynamic-fee transactions.
func envBaseClassOf(base, tip, cap *big.Int) string {
	if base == nil {
		return "nil"
	}
	if base.Sign() == 0 {
		return "0"
	}
	t, c := envZ(tip), envZ(cap)
	if base.Cmp(c) > 0 {
		return "above"
	}
	sum := new(big.Int).Add(t, base)
	switch sum.Cmp(c) {
	case -1:
		return "below"
	case 0:
		return "edge"
	}
	return "between"
}

// envInstantiate chooses the concrete transaction of a case (seeded).  For src=random the
// classes rel/base/to/sig/type are filled in from the values drawn.
func envInstantiate(c *envCase, r *rand.Rand) (*envFields, error) {
	cls := c.Cls
	f := &envFields{}
	if c.Src == "random" {
		return envRandomFields(c, r), nil
	}
	f.typ = cls["type"]
	switch cls["nonce"] {
	case "0":
		f.nonce = 0
	case "1":
		f.nonce = 1
	case "max64":
		f.nonce = math.MaxUint64
	default:
		return nil, fmt.Errorf("nonce class %q", cls["nonce"])
	}
	switch cls["gas"] {
	case "0":
		f.gas = 0
	case "21000":
		f.gas = 21000
	case "maxi64":
		f.gas = math.MaxInt64
	case "max64":
		f.gas = math.MaxUint64
	default:
		return nil, fmt.Errorf("gas class %q", cls["gas"])
	}
	var ok bool
	if f.value, ok = envPoint(cls["amount"]); !ok {
		return nil, fmt.Errorf("amount class %q", cls["amount"])
	}
	price, ok := envPoint(cls["price"])
	if !ok {
		return nil, fmt.Errorf("price class %q", cls["price"])
	}
	if f.typ == "dynamic" {
		f.cap = price
		capv := envZ(price)
		switch cls["rel"] {
		case "eq":
			if price != nil {
				f.tip = new(big.Int).Set(price)
			}
		case "lt":
			if capv.Sign() == 0 {
				return nil, fmt.Errorf("rel lt with cap 0")
			}
			// TipRange of Envelope.tla: the range is narrowed to where the base-fee class exists
			lo, hi := new(big.Int), new(big.Int).Sub(capv, big.NewInt(1))
			switch cls["base"] {
			case "below":
				hi.Sub(hi, big.NewInt(1))
			case "between":
				lo.SetInt64(1)
			}
			if lo.Cmp(hi) > 0 {
				return nil, fmt.Errorf("rel lt with base %s infeasible", cls["base"])
			}
			f.tip = envRandRange(r, lo, hi)
		case "gt":
			lo := new(big.Int).Add(capv, big.NewInt(1))
			hi := envMax256
			if lo.Cmp(hi) > 0 {
				hi = lo // cap = 2^256-1: the only larger tip is out of range
			}
			f.tip = envRandRange(r, lo, hi)
		default:
			return nil, fmt.Errorf("rel class %q", cls["rel"])
		}
	} else {
		f.gasPrice = price
	}
	switch cls["data"] {
	case "empty":
		if r.Intn(2) == 0 {
			f.data = []byte{}
		}
	case "1":
		f.data = []byte{byte(r.Intn(256))}
		if r.Intn(4) == 0 {
			f.data[0] = 0
		}
	case "64k":
		f.data = make([]byte, 65536)
		r.Read(f.data)
	default:
		return nil, fmt.Errorf("data class %q", cls["data"])
	}
	switch cls["access"] {
	case "na", "nil":
	case "empty":
		f.access = ethtypes.AccessList{}
	case "3x3":
		for i := 0; i < 3; i++ {
			t := ethtypes.AccessTuple{Address: envRandAddr(r)}
			for j := 0; j < 3; j++ {
				t.StorageKeys = append(t.StorageKeys, envRandHash(r))
			}
			f.access = append(f.access, t)
		}
	default:
		return nil, fmt.Errorf("access class %q", cls["access"])
	}
	switch cls["to"] {
	case "create":
	case "call":
		a := envRandAddr(r)
		f.to = &a
	case "zero":
		f.to = &common.Address{}
	default:
		return nil, fmt.Errorf("to class %q", cls["to"])
	}
	f.sig = cls["sig"]
	switch cls["chain"] {
	case "none":
	case "1":
		f.chain = big.NewInt(1)
	case "11235":
		f.chain = big.NewInt(11235)
	case "2p63":
		f.chain = new(big.Int).Set(envTwo63)
	case "over256":
		f.chain = new(big.Int).Set(envTwo256)
	default:
		return nil, fmt.Errorf("chain class %q", cls["chain"])
	}
	// base fee
	tip, capv := envZ(f.tip), envZ(f.cap)
	one := big.NewInt(1)
	switch cls["base"] {
	case "nil":
	case "0":
		f.base = new(big.Int)
	case "some":
		f.base = envRandRange(r, one, envTwo70)
	case "below":
		hi := new(big.Int).Sub(new(big.Int).Sub(capv, tip), one)
		if hi.Sign() < 1 {
			return nil, fmt.Errorf("base below infeasible")
		}
		f.base = envRandRange(r, one, hi)
	case "edge":
		f.base = new(big.Int).Sub(capv, tip)
		if f.base.Sign() < 1 {
			return nil, fmt.Errorf("base edge infeasible")
		}
	case "between":
		lo := new(big.Int).Sub(capv, tip)
		if lo.Sign() < 0 {
			lo.SetInt64(0)
		}
		lo.Add(lo, one)
		if lo.Cmp(capv) > 0 {
			return nil, fmt.Errorf("base between infeasible")
		}
		f.base = envRandRange(r, lo, capv)
	case "above":
		lo := new(big.Int).Add(capv, one)
		f.base = envRandRange(r, lo, new(big.Int).Add(lo, envTwo70))
	default:
		return nil, fmt.Errorf("base class %q", cls["base"])
	}
	return f, nil
}

// envRandomFields leaves the class grid: random 256-bit values, data lengths, access lists, chain ids.
func envRandomFields(c *envCase, r *rand.Rand) *envFields {
	f := &envFields{}
	f.typ = []string{"legacy", "accesslist", "dynamic"}[r.Intn(3)]
	f.nonce = r.Uint64()
	if r.Intn(3) == 0 {
		f.nonce = uint64(r.Intn(1000))
	}
	switch r.Intn(10) {
	case 0:
		f.gas = r.Uint64() // about half of them exceed MaxInt64
	case 1:
		f.gas = uint64(r.Intn(3)) // 0 is rejected by ValidateBasic
	default:
		f.gas = 21000 + uint64(r.Int63n(30_000_000))
	}
	bits := func() int {
		if r.Intn(12) == 0 {
			return 257
		}
		return 256
	}
	f.value = envRandBits(r, bits())
	if f.typ == "dynamic" {
		f.cap = envRandBits(r, bits())
		switch r.Intn(6) {
		case 0:
			f.tip = new(big.Int).Set(f.cap)
		case 1:
			f.tip = new(big.Int).Add(f.cap, envRandBits(r, 64))
			f.tip.Add(f.tip, big.NewInt(1))
		default:
			if f.cap.Sign() > 0 {
				f.tip = envRandBelow(r, f.cap)
			} else {
				f.tip = new(big.Int)
			}
		}
	} else {
		f.gasPrice = envRandBits(r, bits())
	}
	n := 0
	switch r.Intn(10) {
	case 0:
	case 1:
		n = 1 + r.Intn(200_000)
	default:
		n = 1 + r.Intn(4096)
	}
	if n > 0 {
		f.data = make([]byte, n)
		r.Read(f.data)
	}
	if f.typ != "legacy" && r.Intn(4) != 0 {
		f.access = ethtypes.AccessList{}
		var prev common.Address
		for i, na := 0, r.Intn(5); i < na; i++ {
			t := ethtypes.AccessTuple{Address: envRandAddr(r)}
			if i > 0 && r.Intn(5) == 0 {
				t.Address = prev // duplicates are legal
			}
			prev = t.Address
			for j, nk := 0, r.Intn(5); j < nk; j++ {
				t.StorageKeys = append(t.StorageKeys, envRandHash(r))
			}
			f.access = append(f.access, t)
		}
	}
	switch r.Intn(6) {
	case 0:
	case 1:
		f.to = &common.Address{}
	default:
		a := envRandAddr(r)
		f.to = &a
	}
	f.sig = "typed"
	if f.typ == "legacy" {
		f.sig = "eip155"
		if r.Intn(3) == 0 {
			f.sig = "unprotected"
		}
	}
	if f.sig != "unprotected" {
		switch r.Intn(5) {
		case 0:
			f.chain = big.NewInt(11235)
		case 1:
			f.chain = big.NewInt(1 + int64(r.Intn(1000)))
		case 2:
			f.chain = envRandBits(r, 64)
		case 3:
			f.chain = envRandBits(r, 200)
		default:
			f.chain = new(big.Int).Add(envTwo63, envRandBits(r, 62))
		}
		if f.chain.Sign() == 0 {
			f.chain.SetInt64(11235) // chain id 0 means "unprotected" to the legacy signer
		}
	}
	price := f.gasPrice
	if f.typ == "dynamic" {
		price = f.cap
	}
	switch r.Intn(8) {
	case 0:
	case 1:
		f.base = new(big.Int)
	case 2:
		f.base = new(big.Int).Add(price, envRandBits(r, 64))
	default:
		f.base = envRandBelow(r, new(big.Int).Add(price, big.NewInt(2)))
	}
	// describe what was drawn (EnvelopeTrace re-checks rel/base/to/sig against the values)
	to := "call"
	if f.to == nil {
		to = "create"
	} else if *f.to == (common.Address{}) {
		to = "zero"
	}
	cls := map[string]string{"type": f.typ, "nonce": "rand", "gas": "rand", "amount": "rand", "price": "rand",
		"rel": "na", "data": "rand", "access": "rand", "to": to, "sig": f.sig, "chain": "rand", "base": "some"}
	if f.typ == "legacy" {
		cls["access"] = "na"
	}
	if f.sig == "unprotected" {
		cls["chain"] = "none"
	}
	if f.base == nil {
		cls["base"] = "nil"
	} else if f.base.Sign() == 0 {
		cls["base"] = "0"
	}
	if f.typ == "dynamic" {
		cls["rel"] = envRelOf(f.tip, f.cap)
		cls["base"] = envBaseClassOf(f.base, f.tip, f.cap)
	}
	// the envelope: one random case in three is hand-built (drawn last: the transaction of a seed does not depend on it)
	cls["rec"], cls["from"] = "canon", "empty"
	if r.Intn(3) == 0 {
		cls["rec"] = envRecClasses[r.Intn(len(envRecClasses))]
		cls["from"] = envFromClasses[r.Intn(len(envFromClasses))]
		if r.Intn(3) == 0 {
			cls["rec"] = "canon"
		}
	}
	c.Cls = cls
	return f
}

func envKey(seed int64) *ecdsa.PrivateKey {
	for ctr := uint64(0); ; ctr++ {
		var b [16]byte
		binary.BigEndian.PutUint64(b[:8], uint64(seed))
		binary.BigEndian.PutUint64(b[8:], ctr)
		h := sha256.Sum256(append(b[:], []byte("hv-c18-key")...))
		if k, err := crypto.ToECDSA(h[:]); err == nil {
			return k
		}
	}
}

func envTypeName(t uint8) string {
	switch t {
	case ethtypes.LegacyTxType:
		return "legacy"
	case ethtypes.AccessListTxType:
		return "accesslist"
	case ethtypes.DynamicFeeTxType:
		return "dynamic"
	}
	return fmt.Sprintf("type%d", t)
}

var envFieldKeys = []string{"type", "nonce", "gas", "gasPrice", "tipCap", "feeCap", "value", "to", "dataHash",
	"access", "chainId", "v", "r", "s", "hash", "sender", "senderErr"}

// envDescribe logs every field of a go-ethereum transaction as go-ethereum reports it.
func envDescribe(tx *ethtypes.Transaction) (m M) {
	m = M{}
	for _, k := range envFieldKeys {
		m[k] = "-"
	}
	m["dataLen"], m["alAddrs"], m["alKeys"], m["protected"] = -1, -1, -1, false
	if tx == nil {
		return m
	}
	defer func() {
		if r := recover(); r != nil {
			m["senderErr"] = envClip("panic: " + fmt.Sprint(r))
		}
	}()
	m["type"] = envTypeName(tx.Type())
	m["nonce"] = envU64(tx.Nonce())
	m["gas"] = envU64(tx.Gas())
	m["gasPrice"] = envBig(tx.GasPrice())
	m["tipCap"] = envBig(tx.GasTipCap())
	m["feeCap"] = envBig(tx.GasFeeCap())
	m["value"] = envBig(tx.Value())
	m["to"] = envAddr(tx.To())
	m["dataHash"] = hex.EncodeToString(crypto.Keccak256(tx.Data()))
	m["dataLen"] = len(tx.Data())
	m["access"], m["alAddrs"], m["alKeys"] = envAccessStr(tx.AccessList())
	m["chainId"] = envBig(tx.ChainId())
	v, r, s := tx.RawSignatureValues()
	m["v"], m["r"], m["s"] = envBig(v), envBig(r), envBig(s)
	m["protected"] = tx.Protected()
	m["hash"] = tx.Hash().Hex()
	m["senderErr"] = ""
	// the sender a node recovers: latest signer for the transaction's own chain id
	from, err := ethtypes.Sender(ethtypes.LatestSignerForChainID(tx.ChainId()), tx)
	if err != nil {
		m["sender"], m["senderErr"] = "error", envClip(err.Error())
	} else {
		m["sender"] = strings.ToLower(from.Hex())
	}
	return m
}

var envFigKeys = []string{"fee", "cost", "effPrice", "effFee", "effCost"}

func envFigBlank() M {
	m := M{}
	for _, k := range envFigKeys {
		m[k] = "-"
	}
	return m
}

func envFig(f func() *big.Int) (s string) {
	defer func() {
		if r := recover(); r != nil {
			s = "panic"
		}
	}()
	return envBig(f())
}

// envMsgFigures: the figures the haqq code derives from the message / its TxData.
func envMsgFigures(msg *evmtypes.MsgEthereumTx, base *big.Int) M {
	m := envFigBlank()
	m["fee"] = envFig(func() *big.Int { return msg.GetFee() })
	m["effFee"] = envFig(func() *big.Int { return msg.GetEffectiveFee(base) })
	var td evmtypes.TxData
	if st := envTry(func() (err error) { td, err = evmtypes.UnpackTxData(msg.Data); return }); !st.Ok {
		return m
	}
	m["cost"] = envFig(func() *big.Int { return td.Cost() })
	m["effPrice"] = envFig(func() *big.Int { return td.EffectiveGasPrice(base) })
	m["effCost"] = envFig(func() *big.Int { return td.EffectiveCost(base) })
	// the message and its TxData must tell the same story
	if a := envFig(func() *big.Int { return td.Fee() }); a != m["fee"] {
		m["fee"] = fmt.Sprintf("msg=%s txdata=%s", m["fee"], a)
	}
	if a := envFig(func() *big.Int { return td.EffectiveFee(base) }); a != m["effFee"] {
		m["effFee"] = fmt.Sprintf("msg=%s txdata=%s", m["effFee"], a)
	}
	return m
}

// envGethFigures: go-ethereum's own figures for the original transaction.
func envGethFigures(tx *ethtypes.Transaction, base *big.Int) M {
	m := envFigBlank()
	m["effTip"] = "-"
	gas := new(big.Int).SetUint64(tx.Gas())
	m["fee"] = envFig(func() *big.Int { return new(big.Int).Mul(tx.GasPrice(), gas) })
	m["cost"] = envFig(func() *big.Int { return tx.Cost() })
	var eff *big.Int
	st := envTry(func() error {
		// AsMessage computes the effective price before it looks at the signature
		cm, _ := tx.AsMessage(ethtypes.LatestSignerForChainID(tx.ChainId()), base)
		eff = cm.GasPrice()
		return nil
	})
	if st.Ok && eff != nil && (base != nil || tx.Type() != ethtypes.DynamicFeeTxType) {
		m["effPrice"] = envBig(eff)
		ef := new(big.Int).Mul(eff, gas)
		m["effFee"] = envBig(ef)
		m["effCost"] = envBig(new(big.Int).Add(ef, tx.Value()))
	} else {
		m["effPrice"], m["effFee"], m["effCost"] = "undef", "undef", "undef"
	}
	m["effTip"] = envFig(func() *big.Int { t, _ := tx.EffectiveGasTip(base); return t })
	return m
}

func envVbClass(st envStage) string {
	if st.Ok {
		return "ok"
	}
	e := st.Err
	switch {
	case strings.HasPrefix(e, "panic"):
		return "panic"
	case strings.Contains(e, "gas limit must not be zero"):
		return "gas-zero"
	case strings.Contains(e, "math.MaxInt64"):
		return "gas-overflow"
	case strings.Contains(e, "max priority fee per gas higher"):
		return "tip-gt-cap"
	case strings.Contains(e, "invalid gas fee"):
		return "fee-oob"
	case strings.Contains(e, "invalid tx hash"):
		return "hash-mismatch"
	case strings.Contains(e, "invalid from address"):
		return "from-invalid"
	case strings.Contains(e, "invalid chain"), strings.Contains(e, "chain ID"):
		return "chain-id"
	}
	return "other"
}

// envSeedOf: the per-case seed is a function of the run seed and the case's classes only.
func envSeedOf(seed int64, c envCase, idx int) int64 {
	keys := make([]string, 0, len(c.Cls))
	for k := range c.Cls {
		keys = append(keys, k)
	}
	sort.Strings(keys)
	var sb strings.Builder
	fmt.Fprintf(&sb, "%d|%s|", seed, c.Src)
	for _, k := range keys {
		fmt.Fprintf(&sb, "%s=%s,", k, c.Cls[k])
	}
	if c.Src == "random" {
		fmt.Fprintf(&sb, "#%d", idx)
	}
	h := sha256.Sum256([]byte(sb.String()))
	return int64(binary.BigEndian.Uint64(h[:8]) >> 1)
}

// envSignTx builds and signs the go-ethereum transaction of the drawn fields.
func envSignTx(f *envFields, key *ecdsa.PrivateKey) (*ethtypes.Transaction, envStage) {
	var inner ethtypes.TxData
	var signer ethtypes.Signer
	switch f.typ {
	case "legacy":
		inner = &ethtypes.LegacyTx{Nonce: f.nonce, GasPrice: f.gasPrice, Gas: f.gas, To: f.to, Value: f.value, Data: f.data}
		if f.sig == "unprotected" {
			signer = ethtypes.HomesteadSigner{}
		} else {
			signer = ethtypes.NewEIP155Signer(f.chain)
		}
	case "accesslist":
		inner = &ethtypes.AccessListTx{ChainID: f.chain, Nonce: f.nonce, GasPrice: f.gasPrice, Gas: f.gas, To: f.to,
			Value: f.value, Data: f.data, AccessList: f.access}
		signer = ethtypes.NewEIP2930Signer(f.chain)
	case "dynamic":
		inner = &ethtypes.DynamicFeeTx{ChainID: f.chain, Nonce: f.nonce, GasTipCap: f.tip, GasFeeCap: f.cap, Gas: f.gas,
			To: f.to, Value: f.value, Data: f.data, AccessList: f.access}
		signer = ethtypes.NewLondonSigner(f.chain)
	default:
		return nil, envStage{false, "unknown type " + f.typ}
	}
	var tx *ethtypes.Transaction
	st := envTry(func() (err error) { tx, err = ethtypes.SignNewTx(key, signer, inner); return })
	return tx, st
}

var envRecClasses = []string{"canon", "upper", "mixed", "capsprefix", "noprefix", "odd", "zeropad", "longer", "wrong", "empty"}
var envFromClasses = []string{"empty", "signer", "foreign", "garbage"}

// envSpellHash: the string a sender records for the hash, per class RecC of Envelope.tla.
func envSpellHash(h common.Hash, cls string, r *rand.Rand) (string, error) {
	canon := h.Hex()
	digits := canon[2:]
	switch cls {
	case "canon":
		return canon, nil
	case "upper":
		return "0x" + strings.ToUpper(digits), nil
	case "mixed":
		b := []byte(digits)
		first, changed := -1, false
		for i := range b {
			if b[i] >= 'a' && b[i] <= 'f' {
				if first < 0 {
					first = i
				}
				if r.Intn(2) == 0 {
					b[i] -= 'a' - 'A'
					changed = true
				}
			}
		}
		if !changed && first >= 0 {
			b[first] -= 'a' - 'A'
		}
		return "0x" + string(b), nil
	case "capsprefix":
		return "0X" + digits, nil
	case "noprefix":
		return digits, nil
	case "odd":
		return "0x0" + digits, nil
	case "zeropad":
		return "0x" + strings.Repeat("00", 1+r.Intn(4)) + digits, nil
	case "longer":
		pre := make([]byte, 1+r.Intn(8))
		r.Read(pre)
		if pre[0] == 0 {
			pre[0] = 0xde
		}
		return "0x" + hex.EncodeToString(pre) + digits, nil
	case "wrong":
		g := h
		g[r.Intn(32)] ^= 1 << uint(r.Intn(8))
		return g.Hex(), nil
	case "empty":
		return "", nil
	}
	return "", fmt.Errorf("rec class %q", cls)
}

// envSpellFrom: what a sender writes into the unsigned From field, per class FromC of Envelope.tla.
func envSpellFrom(signer common.Address, cls string, r *rand.Rand) (string, error) {
	switch cls {
	case "empty":
		return "", nil
	case "signer":
		return strings.ToLower(signer.Hex()), nil
	case "foreign":
		for {
			a := envRandAddr(r)
			if a != signer {
				return strings.ToLower(a.Hex()), nil
			}
		}
	case "garbage":
		switch r.Intn(3) {
		case 0:
			return strings.ToLower(signer.Hex())[:40], nil
		case 1:
			return sdk.AccAddress(signer.Bytes()).String(), nil
		}
		return "not-an-address", nil
	}
	return "", fmt.Errorf("from class %q", cls)
}

// envelopeHandBuilt sends the wrapped transaction in an envelope whose recorded hash and From field are spelled by
// the sender, and logs what the receiving side sees.
func envelopeHandBuilt(ec *envCodec, h M, msg *evmtypes.MsgEthereumTx, tx *ethtypes.Transaction, key *ecdsa.PrivateKey,
	recCls, fromCls string, seed int64) {
	h["run"] = true
	r := rand.New(rand.NewSource(seed ^ 0x5eedc18))
	h["stage"] = envTry(func() error {
		sent, err := envSpellHash(tx.Hash(), recCls, r)
		if err != nil {
			return err
		}
		sentFrom, err := envSpellFrom(crypto.PubkeyToAddress(key.PublicKey), fromCls, r)
		if err != nil {
			return err
		}
		h["sent"], h["denotes"], h["sentFrom"] = sent, common.HexToHash(sent).Hex(), sentFrom
		bz, err := msg.Marshal()
		if err != nil {
			return err
		}
		var cp evmtypes.MsgEthereumTx
		if err := cp.Unmarshal(bz); err != nil {
			return err
		}
		cp.Hash, cp.From = sent, sentFrom
		b := ec.txConfig.NewTxBuilder()
		xb, ok := b.(interface{ SetExtensionOptions(...*codectypes.Any) })
		if !ok {
			return fmt.Errorf("unsupported builder")
		}
		opt, err := codectypes.NewAnyWithValue(&evmtypes.ExtensionOptionsEthereumTx{})
		if err != nil {
			return err
		}
		xb.SetExtensionOptions(opt)
		if err := b.SetMsgs(&cp); err != nil {
			return err
		}
		if fee := msg.GetFee(); fee.Sign() > 0 {
			if fee.Cmp(envMax256) > 0 {
				return fmt.Errorf("fee above 2^256-1: no envelope can carry it")
			}
			b.SetFeeAmount(sdk.Coins{sdk.NewCoin(envEvmDenom, sdk.NewIntFromBigInt(fee))})
		}
		b.SetGasLimit(msg.GetGas())
		enc, err := ec.txConfig.TxEncoder()(b.GetTx())
		if err != nil {
			return err
		}
		dec, err := ec.txConfig.TxDecoder()(enc)
		if err != nil {
			return err
		}
		msgs := dec.GetMsgs()
		if len(msgs) != 1 {
			return fmt.Errorf("%d messages", len(msgs))
		}
		out, ok := msgs[0].(*evmtypes.MsgEthereumTx)
		if !ok {
			return fmt.Errorf("message is %T", msgs[0])
		}
		h["rec"], h["from"] = out.Hash, out.From
		tx3 := out.AsTransaction()
		if tx3 == nil {
			return fmt.Errorf("AsTransaction returned nil")
		}
		h["txHash"] = tx3.Hash().Hex()
		if from, err := ethtypes.Sender(ethtypes.LatestSignerForChainID(tx3.ChainId()), tx3); err != nil {
			h["sender"] = "error"
		} else {
			h["sender"] = strings.ToLower(from.Hex())
		}
		vb := envTry(func() error { return out.ValidateBasic() })
		h["vb"], h["vbCls"] = vb, envVbClass(vb)
		// last: GetSender writes the From field
		h["getSender"] = "error"
		_ = envTry(func() error {
			td3, err := evmtypes.UnpackTxData(out.Data)
			if err != nil {
				return err
			}
			from, err := out.GetSender(td3.GetChainID())
			if err != nil {
				return err
			}
			h["getSender"] = strings.ToLower(from.Hex())
			return nil
		})
		return nil
	})
}

func envelopeRunCase(ec *envCodec, c envCase, scn int) M {
	seed := *c.Seed
	r := rand.New(rand.NewSource(seed))
	line := M{"ev": "case", "scn": scn, "src": c.Src}
	blankStages := func() {
		for _, k := range []string{"sign", "wrap", "tv", "vb", "pb", "build", "enc", "dec", "unwrap", "vb2", "json", "rlp"} {
			line[k] = envNotRun
		}
		line["exp"], line["base"] = "-", "-"
		line["o"], line["a"] = envDescribe(nil), envDescribe(nil)
		line["geth"] = envFigBlank()
		line["geth"].(M)["effTip"] = "-"
		line["fig"], line["fig2"] = envFigBlank(), envFigBlank()
		line["m"] = M{"hash": "-", "from": "-", "type": "-", "chainId": "-"}
		line["m2"] = M{"hash": "-", "from": "-", "type": "-", "chainId": "-", "getSender": "-", "getSenderErr": "-",
			"fromSet": "-", "signers": "-"}
		line["env"] = M{"fee": "-", "denom": "-", "gas": "-", "nmsgs": -1, "ext": -1, "sigs": -1, "len": -1}
		line["vbCls"], line["vb2Cls"], line["wrapCls"] = "-", "-", "-"
		line["pbHash"], line["jsonHash"], line["rlpHash"], line["rlpMsgHash"] = "-", "-", "-", "-"
		line["h"] = M{"run": false, "stage": envNotRun, "sent": "-", "denotes": "-", "sentFrom": "-", "rec": "-", "from": "-",
			"vb": envNotRun, "vbCls": "-", "txHash": "-", "sender": "-", "getSender": "-"}
	}
	blankStages()

	f, err := envInstantiate(&c, r)
	line["cfg"] = M{"src": c.Src, "cls": c.Cls, "seed": seed}
	if err != nil {
		line["sign"] = envStage{false, "instantiate: " + err.Error()}
		return line
	}
	key := envKey(seed)
	line["exp"] = strings.ToLower(crypto.PubkeyToAddress(key.PublicKey).Hex())
	line["base"] = envBig(f.base)

	// 1. the signed go-ethereum transaction
	tx, st := envSignTx(f, key)
	line["sign"] = st
	if !st.Ok {
		return line
	}
	line["o"] = envDescribe(tx)
	line["geth"] = envGethFigures(tx, f.base)

	// 2. wrap into the chain's message (what rpc/backend SendRawTransaction does)
	msg := &evmtypes.MsgEthereumTx{}
	st = envTry(func() error { return msg.FromEthereumTx(tx) })
	line["wrap"], line["wrapCls"] = st, envVbClass(st)
	if !st.Ok {
		if line["wrapCls"] != "panic" {
			line["wrapCls"] = "error"
		}
		return line
	}
	var td evmtypes.TxData
	mrec := M{"hash": msg.Hash, "from": msg.From, "type": "-", "chainId": "-"}
	line["m"] = mrec
	if st = envTry(func() (err error) { td, err = evmtypes.UnpackTxData(msg.Data); return }); st.Ok {
		mrec["type"] = envTypeName(td.TxType())
		mrec["chainId"] = envFig(func() *big.Int { return td.GetChainID() })
		line["tv"] = envTry(func() error { return td.Validate() })
	}
	line["fig"] = envMsgFigures(msg, f.base)
	vb := envTry(func() error { return msg.ValidateBasic() })
	line["vb"], line["vbCls"] = vb, envVbClass(vb)

	// 2b. the protobuf Any packing of TxData: message bytes -> fresh message -> UnpackInterfaces
	line["pb"] = envTry(func() error {
		bz, err := msg.Marshal()
		if err != nil {
			return err
		}
		var m3 evmtypes.MsgEthereumTx
		if err := m3.Unmarshal(bz); err != nil {
			return err
		}
		if err := m3.UnpackInterfaces(ec.registry); err != nil {
			return err
		}
		td3, err := evmtypes.UnpackTxData(m3.Data)
		if err != nil {
			return err
		}
		if _, err := evmtypes.PackTxData(td3); err != nil {
			return err
		}
		line["pbHash"] = m3.AsTransaction().Hash().Hex()
		return nil
	})

	// 2c. raw RLP bytes -> message (MsgEthereumTx.UnmarshalBinary)
	line["rlp"] = envTry(func() error {
		bin, err := tx.MarshalBinary()
		if err != nil {
			return err
		}
		var m4 evmtypes.MsgEthereumTx
		if err := m4.UnmarshalBinary(bin); err != nil {
			return err
		}
		line["rlpMsgHash"] = m4.Hash
		line["rlpHash"] = m4.AsTransaction().Hash().Hex()
		return nil
	})

	// 2d. the HAND-BUILT envelope of the case: the same signed transaction, the fields no signature covers
	// (recorded hash, From) as a sender chose them, put on the wire with the builder's own setters and read on
	// the receiving side (TxDecoder, GetMsgs, ValidateBasic, AsTransaction, GetSender)
	if c.Cls["rec"] == "" {
		c.Cls["rec"] = "canon" // cases recorded before the envelope dimension existed
	}
	if c.Cls["from"] == "" {
		c.Cls["from"] = "empty"
	}
	if c.Cls["rec"] != "canon" || c.Cls["from"] != "empty" {
		envelopeHandBuilt(ec, line["h"].(M), msg, tx, key, c.Cls["rec"], c.Cls["from"], seed)
	}

	// 3. envelope: BuildTx with the node's TxConfig builder, encode, decode, unwrap
	var built sdk.Tx
	st = envTry(func() (err error) {
		built, err = msg.BuildTx(ec.txConfig.NewTxBuilder(), envEvmDenom)
		return
	})
	line["build"] = st
	if !st.Ok {
		return line
	}
	var bz []byte
	st = envTry(func() (err error) { bz, err = ec.txConfig.TxEncoder()(built); return })
	line["enc"] = st
	if !st.Ok {
		return line
	}
	var decoded sdk.Tx
	st = envTry(func() (err error) { decoded, err = ec.txConfig.TxDecoder()(bz); return })
	line["dec"] = st
	if !st.Ok {
		return line
	}
	envrec := line["env"].(M)
	envrec["len"] = len(bz)
	var msg2 *evmtypes.MsgEthereumTx
	var tx2 *ethtypes.Transaction
	st = envTry(func() error {
		msgs := decoded.GetMsgs()
		envrec["nmsgs"] = len(msgs)
		if len(msgs) != 1 {
			return fmt.Errorf("%d messages", len(msgs))
		}
		var ok bool
		if msg2, ok = msgs[0].(*evmtypes.MsgEthereumTx); !ok {
			return fmt.Errorf("message is %T", msgs[0])
		}
		if tx2 = msg2.AsTransaction(); tx2 == nil {
			return fmt.Errorf("AsTransaction returned nil")
		}
		if ft, ok := decoded.(sdk.FeeTx); ok {
			fee := ft.GetFee()
			envrec["gas"] = envU64(ft.GetGas())
			switch len(fee) {
			case 0:
				envrec["fee"], envrec["denom"] = "0", envEvmDenom
			case 1:
				envrec["fee"], envrec["denom"] = fee[0].Amount.String(), fee[0].Denom
			default:
				envrec["fee"], envrec["denom"] = fee.String(), "multiple"
			}
		}
		if xt, ok := decoded.(interface{ GetExtensionOptions() []*codectypes.Any }); ok {
			envrec["ext"] = len(xt.GetExtensionOptions())
		}
		if sg, ok := decoded.(authsigning.SigVerifiableTx); ok {
			if sigs, err := sg.GetSignaturesV2(); err == nil {
				envrec["sigs"] = len(sigs)
			}
		}
		return nil
	})
	line["unwrap"] = st
	if !st.Ok {
		return line
	}
	line["a"] = envDescribe(tx2)
	m2 := M{"hash": msg2.Hash, "from": msg2.From, "type": "-", "chainId": "-", "getSender": "-", "getSenderErr": "",
		"fromSet": "-", "signers": "-"}
	line["m2"] = m2
	if td2, err := evmtypes.UnpackTxData(msg2.Data); err == nil {
		m2["type"] = envTypeName(td2.TxType())
		m2["chainId"] = envFig(func() *big.Int { return td2.GetChainID() })
	}
	line["fig2"] = envMsgFigures(msg2, f.base)
	vb2 := envTry(func() error { return msg2.ValidateBasic() })
	line["vb2"], line["vb2Cls"] = vb2, envVbClass(vb2)
	// the message's own sender recovery (what GetSigners and the RPC layer use); it fills From
	st = envTry(func() error {
		td2, err := evmtypes.UnpackTxData(msg2.Data)
		if err != nil {
			return err
		}
		from, err := msg2.GetSender(td2.GetChainID())
		if err != nil {
			return err
		}
		m2["getSender"] = strings.ToLower(from.Hex())
		m2["fromSet"] = strings.ToLower(common.BytesToAddress(msg2.GetFrom()).Hex())
		sg := msg2.GetSigners()
		if len(sg) == 1 {
			m2["signers"] = strings.ToLower(common.BytesToAddress(sg[0]).Hex())
		} else {
			m2["signers"] = fmt.Sprintf("%d signers", len(sg))
		}
		return nil
	})
	if !st.Ok {
		m2["getSender"], m2["getSenderErr"] = "error", st.Err
	}
	// the same signed transaction in an envelope whose (unsigned) From field names somebody else:
	// the recovered sender must still be the key holder
	m2["getSenderForeignFrom"] = "skip"
	_ = envTry(func() error {
		var cp evmtypes.MsgEthereumTx
		bz, err := msg2.Marshal()
		if err != nil {
			return err
		}
		if err := cp.Unmarshal(bz); err != nil {
			return err
		}
		cp.From = "0x2222222222222222222222222222222222222222"
		b := ec.txConfig.NewTxBuilder()
		if err := b.SetMsgs(&cp); err != nil {
			return err
		}
		enc, err := ec.txConfig.TxEncoder()(b.GetTx())
		if err != nil {
			return err
		}
		dec, err := ec.txConfig.TxDecoder()(enc)
		if err != nil {
			return err
		}
		out, ok := dec.GetMsgs()[0].(*evmtypes.MsgEthereumTx)
		if !ok {
			return fmt.Errorf("not an ethereum message")
		}
		td3, err := evmtypes.UnpackTxData(out.Data)
		if err != nil {
			return err
		}
		from, err := out.GetSender(td3.GetChainID())
		if err != nil {
			return err
		}
		m2["getSenderForeignFrom"] = strings.ToLower(from.Hex())
		return nil
	})

	// 3b. the JSON encoding of the same Cosmos transaction
	line["json"] = envTry(func() error {
		js, err := ec.txConfig.TxJSONEncoder()(built)
		if err != nil {
			return err
		}
		d, err := ec.txConfig.TxJSONDecoder()(js)
		if err != nil {
			return err
		}
		msgs := d.GetMsgs()
		if len(msgs) != 1 {
			return fmt.Errorf("%d messages", len(msgs))
		}
		m5, ok := msgs[0].(*evmtypes.MsgEthereumTx)
		if !ok {
			return fmt.Errorf("message is %T", msgs[0])
		}
		line["jsonHash"] = m5.AsTransaction().Hash().Hex()
		return nil
	})
	return line
}

func envelopeMain(args []string) error {
	fs := flag.NewFlagSet("envelope", flag.ExitOnError)
	casesFile := fs.String("cases", "", "JSON file {\"cases\":[{src,cls[,seed]}]}")
	random := fs.Int("random", 0, "number of seeded random cases beyond the class grid")
	seed := fs.Int64("seed", 1, "seed")
	out := fs.String("out", "trace.ndjson", "trace output")
	workers := fs.Int("workers", 4, "parallel workers (output order does not depend on it)")
	prof := fs.String("cpuprofile", "", "write a CPU profile (development aid)")
	fs.Parse(args)
	if *prof != "" {
		pf, err := os.Create(*prof)
		if err != nil {
			return err
		}
		pprof.StartCPUProfile(pf)
		defer pprof.StopCPUProfile()
	}

	debug.SetGCPercent(400) // 64 KiB payloads are copied many times per case; memory is not the constraint
	cfg := encoding.MakeConfig(app.ModuleBasics)
	ec := &envCodec{txConfig: cfg.TxConfig, registry: cfg.InterfaceRegistry}

	var cases []envCase
	if *casesFile != "" {
		var cf envCaseFile
		if err := readJSONFile(*casesFile, &cf); err != nil {
			return err
		}
		cases = cf.Cases
	}
	for i := range cases {
		if cases[i].Src == "" {
			cases[i].Src = "grid"
		}
	}
	for i := 0; i < *random; i++ {
		cases = append(cases, envCase{Src: "random", Cls: map[string]string{}})
	}
	for i := range cases {
		if cases[i].Seed == nil {
			s := envSeedOf(*seed, cases[i], i)
			cases[i].Seed = &s
		}
	}

	tw, err := NewTraceWriter(*out)
	if err != nil {
		return err
	}
	defer tw.Close()

	// cases are independent: run them in parallel, write them in order
	const chunk = 2048
	for lo := 0; lo < len(cases); lo += chunk {
		hi := lo + chunk
		if hi > len(cases) {
			hi = len(cases)
		}
		res := make([][]byte, hi-lo)
		var wg sync.WaitGroup
		next := make(chan int, hi-lo)
		for i := lo; i < hi; i++ {
			next <- i
		}
		close(next)
		for w := 0; w < *workers; w++ {
			wg.Add(1)
			go func() {
				defer wg.Done()
				for i := range next {
					l := envelopeRunCase(ec, cases[i], i+1)
					bz, err := json.Marshal(l)
					if err != nil {
						panic(err)
					}
					res[i-lo] = bz
				}
			}()
		}
		wg.Wait()
		for _, bz := range res {
			tw.w.Write(bz)
			tw.w.WriteByte('\n')
			tw.N++
		}
	}
	fmt.Printf("envelope: cases=%d lines=%d\n", len(cases), tw.N)
	return nil
}
