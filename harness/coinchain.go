package main

import (
	"encoding/json"
	"fmt"
	"math/big"
	"math/rand"
	"sort"
	"strings"
	"time"

	sdkmath "cosmossdk.io/math"
	dbm "github.com/cometbft/cometbft-db"
	abci "github.com/cometbft/cometbft/abci/types"
	"github.com/cosmos/cosmos-sdk/crypto/keys/ed25519"
	sdk "github.com/cosmos/cosmos-sdk/types"
	authtypes "github.com/cosmos/cosmos-sdk/x/auth/types"
	banktypes "github.com/cosmos/cosmos-sdk/x/bank/types"
	govv1 "github.com/cosmos/cosmos-sdk/x/gov/types/v1"
	govv1beta1 "github.com/cosmos/cosmos-sdk/x/gov/types/v1beta1"
	paramproposal "github.com/cosmos/cosmos-sdk/x/params/types/proposal"
	slashingtypes "github.com/cosmos/cosmos-sdk/x/slashing/types"
	stakingtypes "github.com/cosmos/cosmos-sdk/x/staking/types"

	coinomicstypes "github.com/haqq-network/haqq/x/coinomics/types"
)

// Whole blocks for specs/Coinomics.tla / specs/CoinomicsBlock.tla (property C13): the real haqq
// application driven through ABCI - BeginBlock (with double-sign evidence and absent validators),
// signed transactions, EndBlock of every module in the order app.go wires them, Commit - so that
// the bonded pool and the coinomics parameters change *inside* the block the mint is computed for:
//
//	delegate / undelegate     coins enter / leave the bonded pool at once (bonded validator) or change
//	                          a validator's rank (the staking end blocker swaps validators)
//	create                    MsgCreateValidator of a spare key: bonded by the staking end blocker
//	evidence / absent         BeginBlock jails (double signature: for ever; downtime: after the signed
//	                          blocks window), the staking end blocker of the same block moves the stake out
//	unjail                    MsgUnjail: back into the bonded set in the end blocker
//	propose                   a governance proposal (deposit above the minimum, yes votes of the genesis
//	                          validators in the same block) changing EnableCoinomics, RewardCoefficient or
//	                          staking MaxValidators; executed by the gov end blocker of the first block at or
//	                          after the end of the voting period
//
// A scenario is {"cfg": coinChainCfg, "steps": [{"ev":"block","args":{ts, txs, evidence, absent, setup}}]}.
// The block whose args have setup=true is the set-up block: the harness itself adds the transactions that
// bring every genesis validator to its configured stake and fund the spare operators.
// Trace line of a block: {"ev":"block","args",..,"pre": state before the application's EndBlock,
// "gov": parameter changes of the proposals that this EndBlock moved from voting to PASSED (gov store),
// "post": state after EndBlock, "info": what the transactions returned and the validators' status}.

type coinChainCfg struct {
	Mode     string   `json:"mode"` // "chain"
	Seed     int64    `json:"seed"` // keys of the world (filled from --seed when 0)
	Gen      int      `json:"gen"`  // validators 1..gen are bonded at genesis
	Spare    int      `json:"spare"`
	Stakes   []string `json:"stakes"`  // stake of validator i (genesis validators: reached in the set-up block)
	MaxVals  int      `json:"maxVals"` // staking MaxValidators
	Coeff    string   `json:"coeff"`
	Dist     string   `json:"dist"`     // MaxSupply = genesis supply + dist
	MaxDenom string   `json:"maxDenom"` // label MaxSupply is stored with (default: the native one)
	Enabled  bool     `json:"enabled"`
	Start    string   `json:"start"`    // genesis time, Unix ms
	VotingMs string   `json:"votingMs"` // gov voting period
	Window   int      `json:"window"`   // slashing SignedBlocksWindow (MinSignedPerWindow 0.5)
	JailMs   string   `json:"jailMs"`   // DowntimeJailDuration
	SlashDs  string   `json:"slashDs"`  // SlashFractionDoubleSign
	SlashDt  string   `json:"slashDt"`  // SlashFractionDowntime
}

type coinChainScript struct {
	Cfg   coinChainCfg `json:"cfg"`
	Steps []coinStep   `json:"steps"`
}

const coinBaseStake = "100000000000000000000" // 100 ISLM: self-delegation of every genesis validator at InitChain

type coinChain struct {
	cfg  coinChainCfg
	n    *Node
	dead bool
}

func coinChainDefaults(cfg *coinChainCfg, seed int64) {
	if cfg.Seed == 0 {
		cfg.Seed = seed
	}
	if cfg.MaxDenom == "" {
		cfg.MaxDenom = coinDenom
	}
	if cfg.VotingMs == "" {
		cfg.VotingMs = "20000"
	}
	if cfg.Window == 0 {
		cfg.Window = 4
	}
	if cfg.JailMs == "" {
		cfg.JailMs = "10000"
	}
	if cfg.SlashDs == "" {
		cfg.SlashDs = "0"
	}
	if cfg.SlashDt == "" {
		cfg.SlashDt = "0"
	}
	if cfg.MaxVals == 0 {
		cfg.MaxVals = 5
	}
}

func coinMs(s string) time.Duration { return time.Duration(mustBig(s).Int64()) * time.Millisecond }

func newCoinChain(cfg coinChainCfg) (c *coinChain, err error) {
	defer func() {
		if r := recover(); r != nil {
			err = fmt.Errorf("chain set-up panicked: %v", r)
		}
	}()
	if cfg.Gen < 1 || len(cfg.Stakes) < cfg.Gen+cfg.Spare {
		return nil, fmt.Errorf("bad chain cfg: gen=%d spare=%d stakes=%d", cfg.Gen, cfg.Spare, len(cfg.Stakes))
	}
	GenesisTime = time.UnixMilli(mustBig(cfg.Start).Int64()).UTC()
	g := DefaultGenesisCfg(cfg.Seed)
	g.NAccts, g.NVals = 4, cfg.Gen
	g.AcctBalance = "1000000000000000000000000000" // 10^9 ISLM
	g.ValStake = coinBaseStake
	g.Coinomics = cfg.Enabled
	w := NewWorld(g)
	gs, _ := w.GenesisState()
	cdc := encCfg.Codec

	var sg stakingtypes.GenesisState
	cdc.MustUnmarshalJSON(gs[stakingtypes.ModuleName], &sg)
	sg.Params.MaxValidators = uint32(cfg.MaxVals)
	gs[stakingtypes.ModuleName] = cdc.MustMarshalJSON(&sg)

	var sl slashingtypes.GenesisState
	cdc.MustUnmarshalJSON(gs[slashingtypes.ModuleName], &sl)
	sl.Params.SignedBlocksWindow = int64(cfg.Window)
	sl.Params.MinSignedPerWindow = sdkmath.LegacyNewDecWithPrec(5, 1)
	sl.Params.DowntimeJailDuration = coinMs(cfg.JailMs)
	sl.Params.SlashFractionDoubleSign = sdkmath.LegacyMustNewDecFromStr(cfg.SlashDs)
	sl.Params.SlashFractionDowntime = sdkmath.LegacyMustNewDecFromStr(cfg.SlashDt)
	gs[slashingtypes.ModuleName] = cdc.MustMarshalJSON(&sl)

	var gov govv1.GenesisState
	cdc.MustUnmarshalJSON(gs["gov"], &gov)
	vp := coinMs(cfg.VotingMs)
	gov.Params.VotingPeriod = &vp
	gov.Params.MaxDepositPeriod = &vp
	gs["gov"] = cdc.MustMarshalJSON(&gov)

	var co coinomicstypes.GenesisState
	cdc.MustUnmarshalJSON(gs[coinomicstypes.ModuleName], &co)
	co.Params.EnableCoinomics = cfg.Enabled
	co.Params.RewardCoefficient = sdkmath.LegacyNewDecFromBigIntWithPrec(mustBig(cfg.Coeff), sdkmath.LegacyPrecision)
	gs[coinomicstypes.ModuleName] = cdc.MustMarshalJSON(&co)

	stateBytes, err := json.Marshal(gs)
	if err != nil {
		return nil, err
	}
	n := &Node{W: w, DB: dbm.NewMemDB(), Time: GenesisTime}
	n.App = openApp(n.DB)
	n.App.InitChain(abci.RequestInitChain{ChainId: ChainID, Time: GenesisTime, Validators: []abci.ValidatorUpdate{},
		ConsensusParams: w.ConsensusParams(), AppStateBytes: stateBytes, InitialHeight: 1})
	// the cap, relative to the genesis supply (scenario set-up, like set_max of the EndBlocker scenarios)
	ctx := n.Ctx()
	supply := n.App.BankKeeper.GetSupply(ctx, coinDenom).Amount
	n.App.CoinomicsKeeper.SetMaxSupply(ctx, sdk.Coin{Denom: cfg.MaxDenom, Amount: supply.Add(coinInt(cfg.Dist))})
	// keys of the validators that may be created later (not part of the genesis)
	for i := cfg.Gen; i < cfg.Gen+cfg.Spare; i++ {
		k := DetKey(cfg.Seed, fmt.Sprintf("val%d", i+1))
		cons := ed25519.GenPrivKeyFromSecret(detBytes(cfg.Seed, fmt.Sprintf("cons%d", i+1)))
		w.Vals = append(w.Vals, ValKey{Oper: k, Cons: cons})
		w.Names[k.Addr.String()] = fmt.Sprintf("v%d", i+1)
	}
	return &coinChain{cfg: cfg, n: n}, nil
}

func (c *coinChain) project() M {
	a, ctx := c.n.App, c.n.Ctx()
	p := a.CoinomicsKeeper.GetParams(ctx)
	feeAddr := authtypes.NewModuleAddress(authtypes.FeeCollectorName)
	return M{
		"enabled":  p.EnableCoinomics,
		"coeff":    p.RewardCoefficient.BigInt().String(),
		"max":      bigStr(a.CoinomicsKeeper.GetMaxSupply(ctx).Amount),
		"maxDenom": a.CoinomicsKeeper.GetMaxSupply(ctx).Denom,
		"prevTs":   bigStr(a.CoinomicsKeeper.GetPrevBlockTS(ctx)),
		"supply":   bigStr(a.BankKeeper.GetSupply(ctx, p.MintDenom).Amount),
		"bonded":   bigStr(a.StakingKeeper.TotalBondedTokens(ctx)),
		"fee":      bigStr(a.BankKeeper.GetBalance(ctx, feeAddr, p.MintDenom).Amount),
	}
}

// valIdx turns the validator ids of a step ("1".."n", also numbers) into indices of World.Vals
func (c *coinChain) valIdx(v any) (int, bool) {
	var i int
	switch x := v.(type) {
	case string:
		if _, err := fmt.Sscan(x, &i); err != nil {
			return 0, false
		}
	case float64:
		i = int(x)
	default:
		return 0, false
	}
	if i < 1 || i > len(c.n.W.Vals) {
		return 0, false
	}
	return i - 1, true
}

func (c *coinChain) valList(v any) []int {
	var out []int
	if l, ok := v.([]any); ok {
		for _, x := range l {
			if i, ok := c.valIdx(x); ok {
				out = append(out, i)
			}
		}
	}
	return out
}

// status of every validator: N none, U unbonded, u unbonding, B bonded; j jailed
func (c *coinChain) valStatus() string {
	ctx := c.n.Ctx()
	var sb strings.Builder
	for _, v := range c.n.W.Vals {
		val, found := c.n.App.StakingKeeper.GetValidator(ctx, v.ValAddr())
		switch {
		case !found:
			sb.WriteString("N")
		case val.IsBonded():
			sb.WriteString("B")
		case val.IsUnbonding():
			sb.WriteString("u")
		default:
			sb.WriteString("U")
		}
		if found && val.IsJailed() {
			sb.WriteString("j")
		}
	}
	return sb.String()
}

var coinGasPrice = big.NewInt(2_000_000_000)

func coinCoin(amt string) sdk.Coin { return sdk.NewCoin(coinDenom, coinInt(amt)) }

// txs turns one symbolic transaction into the signed transactions that realise it (built one
// by one on the deliver state, because sequences and the proposal id move)
func (c *coinChain) deliver(t M, res *[]any) {
	n, w := c.n, c.n.W
	k := str(t, "k")
	send := func(label string, from Key, gas uint64, msgs ...sdk.Msg) {
		bz, err := n.CosmosTxFor(from, gas, coinGasPrice, msgs...)
		if err != nil {
			*res = append(*res, label+":not-built")
			return
		}
		r := n.Deliver(bz)
		*res = append(*res, fmt.Sprintf("%s:%d", label, r.Code))
	}
	vi, hasVal := c.valIdx(t["val"])
	gov := authtypes.NewModuleAddress("gov")
	switch k {
	case "delegate":
		if hasVal {
			send(k, w.Acct(str(t, "from")), 500000, stakingtypes.NewMsgDelegate(w.Acct(str(t, "from")).Addr, w.Vals[vi].ValAddr(), coinCoin(str(t, "amt"))))
		}
	case "undelegate":
		if hasVal {
			send(k, w.Acct(str(t, "from")), 500000, stakingtypes.NewMsgUndelegate(w.Acct(str(t, "from")).Addr, w.Vals[vi].ValAddr(), coinCoin(str(t, "amt"))))
		}
	case "send":
		send(k, w.Acct(str(t, "from")), 300000, banktypes.NewMsgSend(w.Acct(str(t, "from")).Addr, w.Acct(str(t, "to")).Addr, sdk.NewCoins(coinCoin(str(t, "amt")))))
	case "create":
		if hasVal {
			v := w.Vals[vi]
			msg, err := stakingtypes.NewMsgCreateValidator(v.ValAddr(), v.Cons.PubKey(), coinCoin(str(t, "amt")),
				stakingtypes.Description{Moniker: fmt.Sprintf("v%d", vi+1)},
				stakingtypes.NewCommissionRates(sdkmath.LegacyNewDecWithPrec(5, 2), sdkmath.LegacyNewDecWithPrec(20, 2), sdkmath.LegacyNewDecWithPrec(1, 2)),
				sdkmath.OneInt())
			if err != nil {
				*res = append(*res, k+":not-built")
				return
			}
			send(k, v.Oper, 800000, msg)
		}
	case "unjail":
		if hasVal {
			send(k, w.Vals[vi].Oper, 500000, slashingtypes.NewMsgUnjail(w.Vals[vi].ValAddr()))
		}
	case "propose":
		// deposit above the minimum: the voting period starts in this block; every genesis validator votes yes
		from := w.Acct("a2")
		dep := sdk.NewCoins(coinCoin("5000"))
		id, err := n.App.GovKeeper.GetProposalID(n.Ctx())
		if err != nil {
			*res = append(*res, k+":no-proposal-id")
			return
		}
		var msg sdk.Msg
		switch str(t, "key") {
		case "enabled", "coeff":
			var ch paramproposal.ParamChange
			if str(t, "key") == "enabled" {
				ch = paramproposal.NewParamChange(coinomicstypes.ModuleName, string(coinomicstypes.ParamStoreKeyEnableCoinomics), str(t, "val"))
			} else {
				d := sdkmath.LegacyNewDecFromBigIntWithPrec(mustBig(str(t, "val")), sdkmath.LegacyPrecision)
				ch = paramproposal.NewParamChange(coinomicstypes.ModuleName, string(coinomicstypes.ParamStoreKeyRewardCoefficient), `"`+d.String()+`"`)
			}
			content := paramproposal.NewParameterChangeProposal("c13", "parameter change", []paramproposal.ParamChange{ch})
			msg, err = govv1beta1.NewMsgSubmitProposal(content, dep, from.Addr)
		case "maxvals":
			p := n.App.StakingKeeper.GetParams(n.Ctx())
			p.MaxValidators = uint32(num(t, "val", 5))
			msg, err = govv1.NewMsgSubmitProposal([]sdk.Msg{&stakingtypes.MsgUpdateParams{Authority: gov.String(), Params: p}}, dep, from.Addr.String(), "", "c13", "max validators")
		default:
			err = fmt.Errorf("unknown parameter")
		}
		if err != nil {
			*res = append(*res, k+":not-built")
			return
		}
		send(k, from, 900000, msg)
		for i := 0; i < c.cfg.Gen; i++ {
			send("vote", w.Vals[i].Oper, 300000, govv1beta1.NewMsgVote(w.Vals[i].Oper.Addr, id, govv1beta1.OptionYes))
		}
	default:
		*res = append(*res, k+":unknown")
	}
}

// setupTxs: every genesis validator tops its self-delegation up to the configured stake, the
// operators of the spare validators are funded
func (c *coinChain) setupTxs() []M {
	var out []M
	base := mustBig(coinBaseStake)
	for i := 0; i < c.cfg.Gen; i++ {
		if d := new(big.Int).Sub(mustBig(c.cfg.Stakes[i]), base); d.Sign() > 0 {
			out = append(out, M{"k": "delegate", "from": fmt.Sprintf("v%d", i+1), "val": fmt.Sprint(i + 1), "amt": d.String()})
		}
	}
	for i := c.cfg.Gen; i < c.cfg.Gen+c.cfg.Spare; i++ {
		out = append(out, M{"k": "send", "from": "a1", "to": fmt.Sprintf("v%d", i+1), "amt": "100000000000000000000000000"})
	}
	return out
}

// govChanges decodes the parameter changes a proposal carries
func coinGovChanges(p govv1.Proposal) []any {
	out := []any{}
	msgs, err := p.GetMsgs()
	if err != nil {
		return append(out, M{"key": "other", "val": "undecodable"})
	}
	for _, m := range msgs {
		switch x := m.(type) {
		case *govv1.MsgExecLegacyContent:
			content, err := govv1.LegacyContentFromMessage(x)
			pc, ok := content.(*paramproposal.ParameterChangeProposal)
			if err != nil || !ok {
				out = append(out, M{"key": "other", "val": "legacy"})
				continue
			}
			for _, ch := range pc.Changes {
				switch {
				case ch.Subspace == coinomicstypes.ModuleName && ch.Key == string(coinomicstypes.ParamStoreKeyEnableCoinomics):
					out = append(out, M{"key": "enabled", "val": strings.TrimSpace(ch.Value)})
				case ch.Subspace == coinomicstypes.ModuleName && ch.Key == string(coinomicstypes.ParamStoreKeyRewardCoefficient):
					var d sdkmath.LegacyDec
					if err := json.Unmarshal([]byte(ch.Value), &d); err != nil {
						out = append(out, M{"key": "other", "val": "coeff-undecodable"})
					} else {
						out = append(out, M{"key": "coeff", "val": d.BigInt().String()})
					}
				default:
					out = append(out, M{"key": "other", "val": ch.Subspace + "/" + ch.Key})
				}
			}
		case *stakingtypes.MsgUpdateParams:
			out = append(out, M{"key": "maxvals", "val": fmt.Sprint(x.Params.MaxValidators)})
		default:
			out = append(out, M{"key": "other", "val": sdk.MsgTypeURL(m)})
		}
	}
	return out
}

// block runs one whole block and returns its trace line (without scn)
func (c *coinChain) block(args M) (line M) {
	n := c.n
	line = M{"ev": "block", "args": args, "ok": true, "err": ""}
	txres := []any{}
	phase := "BeginBlock"
	havePre := false
	defer func() {
		if r := recover(); r != nil {
			line["ok"], line["err"] = false, fmt.Sprintf("panic in %s: %v", phase, r)
			c.dead = true
			func() {
				defer func() { recover() }()
				st := c.project()
				if !havePre {
					line["pre"] = st
					line["gov"] = []any{}
				}
				line["post"] = st
			}()
			line["info"] = M{"txs": txres, "vals": "?", "h": fmt.Sprint(n.Header.Height)}
		}
	}()
	ts := mustBig(str(args, "ts")).Int64()
	dt := ts - n.Time.UnixMilli()
	if dt < 0 {
		dt = 0
	}
	n.BeginBlock(BlockIn{DtMs: dt, Proposer: 0, Absent: c.valList(args["absent"]), Evidence: c.valList(args["evidence"])})
	phase = "DeliverTx"
	if args["setup"] == true {
		for _, t := range c.setupTxs() {
			c.deliver(t, &txres)
		}
	}
	if l, ok := args["txs"].([]any); ok {
		for _, t := range l {
			if tm, ok := t.(map[string]any); ok {
				c.deliver(tm, &txres)
			}
		}
	}
	line["pre"] = c.project()
	havePre = true
	// the proposals whose voting period ends with this block (the gov end blocker tallies exactly these)
	var due []uint64
	ctx := n.Ctx()
	n.App.GovKeeper.IterateActiveProposalsQueue(ctx, ctx.BlockHeader().Time, func(p govv1.Proposal) bool {
		due = append(due, p.Id)
		return false
	})
	sort.Slice(due, func(i, j int) bool { return due[i] < due[j] })
	line["gov"] = []any{}
	phase = "EndBlock"
	n.EndBlock()
	phase = "projection"
	gov := []any{}
	tally := []any{}
	for _, id := range due {
		p, found := n.App.GovKeeper.GetProposal(n.Ctx(), id)
		if !found {
			tally = append(tally, fmt.Sprintf("%d:deleted", id))
			continue
		}
		tally = append(tally, fmt.Sprintf("%d:%s", id, p.Status))
		if p.Status == govv1.StatusPassed {
			gov = append(gov, coinGovChanges(p)...)
		}
	}
	line["gov"] = gov
	line["post"] = c.project()
	line["info"] = M{"txs": txres, "vals": c.valStatus(), "h": fmt.Sprint(n.Header.Height), "tally": tally}
	phase = "Commit"
	n.Commit()
	return line
}

// ---------------------------------------------------------------------------------
// random scenarios: the generator looks at the real state (who is bonded, jailed, what is
// delegated) to keep the blocks eventful; what it produced is logged like a script

type coinChainGen struct {
	r       *rand.Rand
	c       *coinChain
	now     int64
	victim  int // validator kept absent until it is jailed (-1: none)
	created map[int]bool
	blocks  int
}

func coinRandomChainCfg(r *rand.Rand, seed int64) coinChainCfg {
	cfg := coinChainCfg{Mode: "chain", Seed: seed, Gen: 2 + r.Intn(3), Spare: 1 + r.Intn(2), Enabled: r.Intn(5) != 0}
	total := cfg.Gen + cfg.Spare
	// distinct stakes (whole ISLM, so that the ranking by consensus power has no ties at the start)
	used := map[int]bool{}
	for i := 0; i < total; i++ {
		s := 0
		for s == 0 || used[s] {
			s = 200 + r.Intn(3000)
			if r.Intn(6) == 0 {
				s = 1000000 + r.Intn(50000000) // a whale
			}
		}
		used[s] = true
		cfg.Stakes = append(cfg.Stakes, new(big.Int).Mul(big.NewInt(int64(s)), mustBig("1000000000000000000")).String())
	}
	// at least as many seats as genesis validators (a genesis that declares more bonded validators than seats
	// is not a state the chain reaches); often fewer seats than keys, so that ranks matter
	cfg.MaxVals = cfg.Gen + r.Intn(cfg.Spare+1)
	switch r.Intn(6) {
	case 0:
		cfg.Coeff = "100000000000000000000"
	case 1:
		cfg.Coeff = new(big.Int).Mod(coinRandBig(r, 70), mustBig("100000000000000000000")).String()
	default:
		cfg.Coeff = "7800000000000000000"
	}
	if r.Intn(3) == 0 {
		cfg.Start = fmt.Sprint(coinYearStart(coinNewYears[r.Intn(len(coinNewYears))]) - []int64{20000, 40000, 90000}[r.Intn(3)])
	} else {
		cfg.Start = fmt.Sprint(coinYearStart(2024) + r.Int63n(coinYearStart(2030)-coinYearStart(2024)))
	}
	cfg.VotingMs = []string{"1000", "6000", "13000", "20000"}[r.Intn(4)]
	cfg.Window = 2 + r.Intn(3)
	cfg.JailMs = []string{"1", "10000", "30000"}[r.Intn(3)]
	if r.Intn(2) == 0 {
		cfg.SlashDs, cfg.SlashDt = "0.05", "0.01"
	} else {
		cfg.SlashDs, cfg.SlashDt = "0", "0"
	}
	// the cap: far away, or a few blocks' worth of minting away; its label
	cfg.MaxDenom = coinRandLabel(r)
	cfg.Dist = coinFar
	if r.Intn(4) == 0 {
		sum := big.NewInt(0)
		for i := 0; i < cfg.Gen; i++ {
			sum.Add(sum, mustBig(cfg.Stakes[i]))
		}
		per := coinExpectMint(sum.String(), cfg.Coeff, 6000, mustBig(cfg.Start).Int64())
		cfg.Dist = new(big.Int).Add(new(big.Int).Mul(per, big.NewInt(int64(1+r.Intn(6)))), big.NewInt(int64(r.Intn(1000)))).String()
	}
	coinChainDefaults(&cfg, seed)
	return cfg
}

func (g *coinChainGen) nextDt() int64 {
	r := g.r
	switch r.Intn(14) {
	case 0:
		return 1
	case 1:
		return 1000
	case 2:
		return 20000 + r.Int63n(60000)
	case 3:
		return 1 + r.Int63n(40*86400000) // up to 40 days
	case 4:
		y := time.UnixMilli(g.now).UTC().Year() + 1
		return coinYearStart(y) - g.now + []int64{0, 1, 5999}[r.Intn(3)]
	default:
		return 5000 + r.Int63n(2000)
	}
}

func (g *coinChainGen) amount() string {
	r := g.r
	a := new(big.Int).Mul(big.NewInt(int64(1+r.Intn(2500))), mustBig("1000000000000000000"))
	if r.Intn(3) == 0 {
		a.Add(a, coinRandBig(r, 1+r.Intn(59)))
	}
	return a.String()
}

// next produces the next block from the real state at the end of the previous one
func (g *coinChainGen) next() coinStep {
	r, c, n := g.r, g.c, g.c.n
	g.now += g.nextDt()
	args := M{"ts": fmt.Sprint(g.now), "txs": []any{}, "evidence": []any{}, "absent": []any{}}
	g.blocks++
	if g.blocks == 1 {
		args["setup"] = true
		return coinStep{"block", args}
	}
	ctx := n.App.BaseApp.NewContext(true, n.Header) // last committed state
	type vinfo struct {
		found, bonded, jailed, tomb bool
	}
	vs := make([]vinfo, len(n.W.Vals))
	var bonded, jailed, exist, missing []int
	for i, v := range n.W.Vals {
		val, found := n.App.StakingKeeper.GetValidator(ctx, v.ValAddr())
		vs[i].found = found
		if !found {
			if !g.created[i] {
				missing = append(missing, i)
			}
			continue
		}
		exist = append(exist, i)
		vs[i].bonded, vs[i].jailed = val.IsBonded(), val.IsJailed()
		vs[i].tomb = n.App.SlashingKeeper.IsTombstoned(ctx, v.ConsAddr())
		if val.IsBonded() && !val.IsJailed() {
			bonded = append(bonded, i)
		}
		if val.IsJailed() && !vs[i].tomb {
			jailed = append(jailed, i)
		}
	}
	id := func(i int) string { return fmt.Sprint(i + 1) }
	var txs []any
	nops := []int{0, 1, 1, 1, 2, 2, 3}[r.Intn(7)]
	en := n.App.CoinomicsKeeper.GetParams(ctx).EnableCoinomics
	if !en && r.Intn(2) == 0 { // minting is off: most of the time somebody proposes to switch it on again
		txs = append(txs, M{"k": "propose", "key": "enabled", "val": "true"})
	}
	for o := 0; o < nops; o++ {
		switch k := r.Intn(30); {
		case k < 5 && len(exist) > 0: // delegation (bonded pool at once, or a new rank)
			txs = append(txs, M{"k": "delegate", "from": fmt.Sprintf("a%d", 1+r.Intn(4)), "val": id(exist[r.Intn(len(exist))]), "amt": g.amount()})
		case k < 9 && len(exist) > 0: // a delegator or the operator takes stake out
			i := exist[r.Intn(len(exist))]
			from := fmt.Sprintf("a%d", 1+r.Intn(4))
			if r.Intn(2) == 0 {
				from = fmt.Sprintf("v%d", i+1)
			}
			del, found := n.App.StakingKeeper.GetDelegation(ctx, n.W.Acct(from).Addr, n.W.Vals[i].ValAddr())
			if !found {
				continue
			}
			val, _ := n.App.StakingKeeper.GetValidator(ctx, n.W.Vals[i].ValAddr())
			have := val.TokensFromShares(del.Shares).TruncateInt().BigInt()
			amt := new(big.Int).Div(new(big.Int).Mul(have, big.NewInt(int64(1+r.Intn(99)))), big.NewInt(100))
			if r.Intn(3) == 0 {
				amt = mustBig(g.amount())
			}
			if amt.Sign() > 0 {
				txs = append(txs, M{"k": "undelegate", "from": from, "val": id(i), "amt": amt.String()})
			}
		case k < 13 && len(missing) > 0: // a new validator
			i := missing[r.Intn(len(missing))]
			g.created[i] = true
			txs = append(txs, M{"k": "create", "val": id(i), "amt": c.cfg.Stakes[i]})
		case k < 16 && len(bonded) > 1: // double signature
			if i := bonded[r.Intn(len(bonded))]; i != 0 {
				args["evidence"] = append(args["evidence"].([]any), id(i))
			}
		case k < 19 && len(bonded) > 1 && g.victim < 0: // downtime: absent from now on
			if i := bonded[r.Intn(len(bonded))]; i != 0 {
				g.victim = i
			}
		case k < 22 && len(jailed) > 0:
			txs = append(txs, M{"k": "unjail", "val": id(jailed[r.Intn(len(jailed))])})
		case k < 24:
			if !en || r.Intn(3) == 0 {
				txs = append(txs, M{"k": "propose", "key": "enabled", "val": fmt.Sprint(!en)})
			} else if r.Intn(4) == 0 {
				txs = append(txs, M{"k": "propose", "key": "enabled", "val": "true"}) // confirms what is already set
			}
		case k < 27:
			txs = append(txs, M{"k": "propose", "key": "coeff", "val": coinRandCoeff(r)})
		case k < 29:
			txs = append(txs, M{"k": "propose", "key": "maxvals", "val": fmt.Sprint(1 + r.Intn(len(n.W.Vals)))})
		}
	}
	if g.victim >= 0 {
		if vs[g.victim].jailed || !vs[g.victim].bonded {
			g.victim = -1
		} else {
			args["absent"] = append(args["absent"].([]any), id(g.victim))
		}
	}
	if txs != nil {
		args["txs"] = txs
	}
	return coinStep{"block", args}
}

// ---------------------------------------------------------------------------------

// coinChainRun executes the scripted and random chain scenarios
func coinChainRun(tw *TraceWriter, scn *int, scriptsPath string, random, steps int, seed int64) error {
	run := func(src string, cfg coinChainCfg, script []coinStep, gen func(c *coinChain) *coinChainGen) error {
		*scn++
		coinChainDefaults(&cfg, seed)
		c, err := newCoinChain(cfg)
		if err != nil {
			return err
		}
		tw.Emit(M{"ev": "reset", "scn": *scn, "src": src, "cfg": cfg, "post": c.project()})
		emit := func(st coinStep) {
			if st.Ev != "block" {
				panic("chain scenarios consist of blocks, got " + st.Ev)
			}
			line := c.block(st.Args)
			line["scn"] = *scn
			tw.Emit(line)
		}
		if gen == nil {
			for _, st := range script {
				if c.dead {
					break
				}
				emit(st)
			}
			return nil
		}
		g := gen(c)
		for i := 0; i < steps && !c.dead; i++ {
			emit(g.next())
		}
		return nil
	}
	if scriptsPath != "" {
		var all []coinChainScript
		if err := readJSONFile(scriptsPath, &all); err != nil {
			return err
		}
		for _, sc := range all {
			if err := run("script", sc.Cfg, sc.Steps, nil); err != nil {
				return err
			}
		}
	}
	for i := 0; i < random; i++ {
		r := rand.New(rand.NewSource(seed*2000003 + int64(i)))
		cfg := coinRandomChainCfg(r, seed)
		err := run("random", cfg, nil, func(c *coinChain) *coinChainGen {
			return &coinChainGen{r: r, c: c, now: mustBig(cfg.Start).Int64(), victim: -1, created: map[int]bool{}}
		})
		if err != nil {
			return err
		}
	}
	return nil
}
