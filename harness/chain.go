package main

// Driver for specs/Chain.tla (C01 replicas agree, C15 invariant routes, C19 export/import,
// C20 restart).  One process = one replica.
//
//   hv chain --role gen    --script s.json --blocks blocks.json --out traceA.ndjson
//   hv chain --role follow --script s.json --blocks blocks.json --out traceB.ndjson [--noise]
//
// The generating replica turns the symbolic transactions of the script into signed bytes
// against its own deliver state and records them; followers consume the recorded bytes
// (block inputs are identical by construction) and additionally perform the replica-local
// actions of the script (CheckTx, queries, simulation, export, restart).

import (
	"encoding/hex"
	"encoding/json"
	"flag"
	"fmt"
	"math/big"
	"os"
	"regexp"
	"runtime"
	"sort"
	"strings"
	"time"

	sdkmath "cosmossdk.io/math"
	dbm "github.com/cometbft/cometbft-db"
	abci "github.com/cometbft/cometbft/abci/types"
	tmtypes "github.com/cometbft/cometbft/types"
	sdk "github.com/cosmos/cosmos-sdk/types"
	banktypes "github.com/cosmos/cosmos-sdk/x/bank/types"
	distrtypes "github.com/cosmos/cosmos-sdk/x/distribution/types"
	govv1 "github.com/cosmos/cosmos-sdk/x/gov/types/v1"
	upgradetypes "github.com/cosmos/cosmos-sdk/x/upgrade/types"
	govv1beta1 "github.com/cosmos/cosmos-sdk/x/gov/types/v1beta1"
	sdkvesting "github.com/cosmos/cosmos-sdk/x/auth/vesting/types"
	"github.com/cosmos/cosmos-sdk/x/authz"
	paramproposal "github.com/cosmos/cosmos-sdk/x/params/types/proposal"
	"github.com/cosmos/cosmos-sdk/x/feegrant"
	transfertypes "github.com/cosmos/ibc-go/v7/modules/apps/transfer/types"
	clienttypes "github.com/cosmos/ibc-go/v7/modules/core/02-client/types"
	stakingtypes "github.com/cosmos/cosmos-sdk/x/staking/types"
	slashingtypes "github.com/cosmos/cosmos-sdk/x/slashing/types"
	"github.com/ethereum/go-ethereum/common"
	ethcrypto "github.com/ethereum/go-ethereum/crypto"

	stakingprecompile "github.com/haqq-network/haqq/precompiles/staking"
	"github.com/haqq-network/haqq/utils"
	liquidvestingtypes "github.com/haqq-network/haqq/x/liquidvesting/types"
	ucdaotypes "github.com/haqq-network/haqq/x/ucdao/types"
	coinomicstypes "github.com/haqq-network/haqq/x/coinomics/types"
	epochstypes "github.com/haqq-network/haqq/x/epochs/types"
	erc20types "github.com/haqq-network/haqq/x/erc20/types"
	evmtypes "github.com/haqq-network/haqq/x/evm/types"
	feemarkettypes "github.com/haqq-network/haqq/x/feemarket/types"
	authtypes "github.com/cosmos/cosmos-sdk/x/auth/types"
	tmproto "github.com/cometbft/cometbft/proto/tendermint/types"
	vestingtypes "github.com/haqq-network/haqq/x/vesting/types"
)

func init() { register("chain", chainMain) }

var indexRe = regexp.MustCompile(`\[\d+\]`)

type chainStep struct {
	Ev       string `json:"ev"` // block | local | restart | export_import
	DtMs     int64  `json:"dt"`
	Proposer int    `json:"proposer"`
	Absent   []int  `json:"absent"`
	Evidence []int  `json:"evidence"`
	Txs      []M    `json:"txs"`
	Kind     string `json:"kind"` // for local
}

type chainScript struct {
	Cfg   GenesisCfg  `json:"cfg"`
	Steps []chainStep `json:"steps"`
}

type chainBlockRec struct {
	Txs   []string `json:"txs"`
	Kinds []string `json:"kinds"`
	// transactions that reached the mempool (CheckTx) of every node before this block without being included
	Pool []string `json:"pool"`
}

// transactions that were checked into the mempool and wait there (bytes as gossiped)
var pendingTxs [][]byte

func coin(amt string) sdk.Coin {
	i, ok := sdkmath.NewIntFromString(amt)
	if !ok {
		panic("bad amount " + amt)
	}
	return sdk.NewCoin(utils.BaseDenom, i)
}

func str(m M, k string) string {
	if v, ok := m[k]; ok {
		return fmt.Sprint(v)
	}
	return ""
}

func num(m M, k string, def int64) int64 {
	if v, ok := m[k]; ok {
		switch x := v.(type) {
		case float64:
			return int64(x)
		case string:
			var i int64
			fmt.Sscan(x, &i)
			return i
		}
	}
	return def
}

// counter contract: init code stores `slots` storage slots, runtime increments slot 0
func counterInitCode(slots int) []byte {
	var code []byte
	for i := 1; i <= slots; i++ {
		code = append(code, 0x60, byte(i), 0x60, byte(i), 0x55)
	}
	runtimeCode := []byte{0x60, 0x01, 0x60, 0x00, 0x54, 0x01, 0x60, 0x00, 0x55, 0x00}
	code = append(code, 0x69)
	code = append(code, runtimeCode...)
	code = append(code, 0x60, 0x00, 0x52, 0x60, 0x0a, 0x60, 0x16, 0xf3)
	return code
}

// chainTx turns a symbolic transaction into signed bytes on the node's deliver state.
func chainTx(n *Node, contracts *[]common.Address, t M) ([]byte, error) {
	w := n.W
	from := w.Acct(str(t, "from"))
	gasPrice := big.NewInt(2_000_000_000)
	cosmos := func(gas uint64, msgs ...sdk.Msg) ([]byte, error) { return n.CosmosTxFor(from, gas, gasPrice, msgs...) }
	val := func() sdk.ValAddress { return w.Vals[int(num(t, "val", 0))%len(w.Vals)].ValAddr() }
	switch str(t, "k") {
	case "send":
		return cosmos(200000, banktypes.NewMsgSend(from.Addr, w.Acct(str(t, "to")).Addr, sdk.NewCoins(coin(str(t, "amt")))))
	case "drain":
		// everything but a remainder that is smaller than any fee
		bal := n.App.BankKeeper.SpendableCoins(n.Ctx(), from.Addr).AmountOf(utils.BaseDenom)
		fee := sdkmath.NewIntFromBigInt(new(big.Int).Mul(gasPrice, big.NewInt(200000)))
		amt := bal.Sub(fee).Sub(coin(str(t, "keep")).Amount)
		if !amt.IsPositive() {
			return nil, fmt.Errorf("nothing to drain")
		}
		return cosmos(200000, banktypes.NewMsgSend(from.Addr, w.Acct(str(t, "to")).Addr, sdk.NewCoins(sdk.NewCoin(utils.BaseDenom, amt))))
	case "multisend":
		a := coin(str(t, "amt"))
		half := sdk.NewCoin(a.Denom, a.Amount.QuoRaw(2))
		rest := a.Sub(half)
		return cosmos(300000, banktypes.NewMsgMultiSend(
			[]banktypes.Input{banktypes.NewInput(from.Addr, sdk.NewCoins(a))},
			[]banktypes.Output{banktypes.NewOutput(w.Acct(str(t, "to")).Addr, sdk.NewCoins(half)), banktypes.NewOutput(w.Acct(str(t, "to2")).Addr, sdk.NewCoins(rest))}))
	case "dao_fund":
		return cosmos(300000, ucdaotypes.NewMsgFund(sdk.NewCoins(coin(str(t, "amt"))), from.Addr))
	case "dao_xfer":
		return cosmos(300000, ucdaotypes.NewMsgTransferOwnership(from.Addr, w.Acct(str(t, "to")).Addr))
	case "dao_xfer_ratio":
		return cosmos(300000, ucdaotypes.NewMsgTransferOwnershipWithRatio(from.Addr, w.Acct(str(t, "to")).Addr, sdkmath.LegacyNewDecWithPrec(num(t, "pct", 50), 2)))
	case "two_msgs":
		return cosmos(400000,
			banktypes.NewMsgSend(from.Addr, w.Acct(str(t, "to")).Addr, sdk.NewCoins(coin(str(t, "amt")))),
			ucdaotypes.NewMsgFund(sdk.NewCoins(coin(str(t, "amt"))), from.Addr))
	case "eth_send":
		to := ethAddr(w.Acct(str(t, "to")))
		bz, _, err := n.EthTxFor(from, &to, coin(str(t, "amt")).Amount.BigInt(), 21000+uint64(num(t, "extraGas", 0)), nil)
		return bz, err
	case "deploy":
		nonce := n.App.EvmKeeper.GetNonce(n.Ctx(), ethAddr(from))
		bz, _, err := n.EthTxFor(from, nil, big.NewInt(0), 400000, counterInitCode(int(num(t, "slots", 3))))
		if err == nil {
			*contracts = append(*contracts, ethcrypto.CreateAddress(ethAddr(from), nonce))
		}
		return bz, err
	case "call":
		if len(*contracts) == 0 {
			return nil, fmt.Errorf("no contract yet")
		}
		to := (*contracts)[int(num(t, "idx", 0))%len(*contracts)]
		bz, _, err := n.EthTxFor(from, &to, big.NewInt(0), 100000, []byte{0x01})
		return bz, err
	case "delegate":
		return cosmos(400000, stakingtypes.NewMsgDelegate(from.Addr, val(), coin(str(t, "amt"))))
	case "undelegate":
		return cosmos(400000, stakingtypes.NewMsgUndelegate(from.Addr, val(), coin(str(t, "amt"))))
	case "redelegate":
		dst := w.Vals[int(num(t, "val2", 1))%len(w.Vals)].ValAddr()
		return cosmos(500000, stakingtypes.NewMsgBeginRedelegate(from.Addr, val(), dst, coin(str(t, "amt"))))
	case "withdraw":
		return cosmos(400000, distrtypes.NewMsgWithdrawDelegatorReward(from.Addr, val()))
	case "set_withdraw":
		return cosmos(300000, distrtypes.NewMsgSetWithdrawAddress(from.Addr, w.Acct(str(t, "to")).Addr))
	case "unjail":
		return nil, fmt.Errorf("unjail not scripted")
	case "vest_create":
		a := sdk.NewCoins(coin(str(t, "amt")))
		lock := sdkvesting.Periods{{Length: num(t, "lock", 30), Amount: a}}
		if d := str(t, "dust"); d != "" && d != "0" {
			// a lockup schedule whose first tranche is dust: a proportional split of it rounds to nothing
			dust := sdk.NewCoins(coin(d))
			lock = sdkvesting.Periods{{Length: num(t, "lock", 30) / 3, Amount: dust}, {Length: num(t, "lock", 30) - num(t, "lock", 30)/3, Amount: a.Sub(dust...)}}
		}
		half := sdk.NewCoins(sdk.NewCoin(utils.BaseDenom, a[0].Amount.QuoRaw(2)))
		vest := sdkvesting.Periods{{Length: num(t, "vest", 5), Amount: half}, {Length: num(t, "vest", 5), Amount: a.Sub(half...)}}
		return cosmos(500000, vestingtypes.NewMsgCreateClawbackVestingAccount(from.Addr, w.Acct(str(t, "to")).Addr,
			n.Time.Add(time.Duration(num(t, "startOff", 0))*time.Second), lock, vest, t["merge"] == true))
	case "clawback":
		return cosmos(500000, vestingtypes.NewMsgClawback(from.Addr, w.Acct(str(t, "acct")).Addr, from.Addr))
	case "liquidate":
		return cosmos(12000000, liquidvestingtypes.NewMsgLiquidate(from.Addr, w.Acct(str(t, "to")).Addr, coin(str(t, "amt"))))
	case "redeem":
		c := sdk.NewCoin(fmt.Sprintf("aLIQUID%d", num(t, "id", 0)), coin(str(t, "amt")).Amount)
		return cosmos(3000000, liquidvestingtypes.NewMsgRedeem(from.Addr, w.Acct(str(t, "to")).Addr, c))
	case "gov_submit":
		content := govv1beta1.NewTextProposal("t", "d")
		msg, err := govv1beta1.NewMsgSubmitProposal(content, sdk.NewCoins(coin(str(t, "amt"))), from.Addr)
		if err != nil {
			return nil, err
		}
		return cosmos(500000, msg)
	case "gov_vote":
		opt := govv1beta1.OptionYes
		if str(t, "opt") == "veto" {
			opt = govv1beta1.OptionNoWithVeto
		}
		return cosmos(300000, govv1beta1.NewMsgVote(from.Addr, uint64(num(t, "id", 1)), opt))
	case "pc_delegate", "pc_undelegate":
		m := "delegate"
		if str(t, "k") == "pc_undelegate" {
			m = "undelegate"
		}
		data, err := stakingABI.Pack(m, ethAddr(from), val().String(), coin(str(t, "amt")).Amount.BigInt())
		if err != nil {
			return nil, err
		}
		bz, _, err := n.EthTxFor(from, &stakingPC, big.NewInt(0), 3_000_000, data)
		return bz, err
	case "deploy_agent":
		// a contract through which accounts reach the staking precompile: calldata word 0 = an address that is first
		// called with zero value (0 = none), the rest is forwarded to the precompile; a failing precompile call reverts
		a := newAsm()
		a.push1(0)
		a.op(0x35, 0x80, 0x15) // CALLDATALOAD(0) DUP1 ISZERO
		a.pushLabel("noping")
		a.op(0x57)
		a.push1(0)
		a.push1(0)
		a.push1(0)
		a.push1(0)
		a.push1(0)
		a.op(0x85, 0x5a, 0xf1, 0x50) // DUP6 (target) GAS CALL POP
		a.label("noping")
		a.op(0x50)             // POP target
		a.push1(0x20)
		a.op(0x36, 0x03, 0x80, 0x15) // CALLDATASIZE - 32, DUP1, ISZERO
		a.pushLabel("done")
		a.op(0x57)
		a.op(0x80)      // DUP1 n
		a.push1(0x20)
		a.push1(0)
		a.op(0x37)      // CALLDATACOPY(0, 32, n)
		a.push1(0)
		a.push1(0)
		a.op(0x82)      // DUP3 n
		a.push1(0)
		a.push1(0)
		a.push20(stakingPC)
		a.op(0x5a, 0xf1, 0x15) // GAS CALL ISZERO
		a.pushLabel("fail")
		a.op(0x57)
		a.label("done")
		a.op(0x00)
		a.label("fail")
		a.push1(0)
		a.push1(0)
		a.op(0xfd)
		rt := a.assemble()
		init := append([]byte{0x61, byte(len(rt) >> 8), byte(len(rt)), 0x80, 0x60, 0x0d, 0x60, 0x00, 0x39, 0x60, 0x00, 0xf3, 0x00}, rt...)
		nonce := n.App.EvmKeeper.GetNonce(n.Ctx(), ethAddr(from))
		bz, _, err := n.EthTxFor(from, nil, big.NewInt(0), 400000, init)
		if err == nil {
			ad := ethcrypto.CreateAddress(ethAddr(from), nonce)
			n.Agent = &ad
		}
		return bz, err
	case "pc_approve_agent":
		if n.Agent == nil {
			return nil, fmt.Errorf("no agent contract")
		}
		data, err := stakingABI.Pack("approve", *n.Agent, coin(str(t, "amt")).Amount.BigInt(), []string{stakingprecompile.DelegateMsg, stakingprecompile.UndelegateMsg})
		if err != nil {
			return nil, err
		}
		bz, _, err := n.EthTxFor(from, &stakingPC, big.NewInt(0), 3_000_000, data)
		return bz, err
	case "agent_delegate", "agent_undelegate":
		if n.Agent == nil {
			return nil, fmt.Errorf("no agent contract")
		}
		m := map[string]string{"agent_delegate": "delegate", "agent_undelegate": "undelegate"}[str(t, "k")]
		inner, err := stakingABI.Pack(m, ethAddr(from), val().String(), coin(str(t, "amt")).Amount.BigInt())
		if err != nil {
			return nil, err
		}
		var ping common.Address
		switch str(t, "ping") {
		case "notbonded":
			ping = common.BytesToAddress(authtypes.NewModuleAddress(stakingtypes.NotBondedPoolName))
		case "bonded":
			ping = common.BytesToAddress(authtypes.NewModuleAddress(stakingtypes.BondedPoolName))
		case "distr":
			ping = common.BytesToAddress(authtypes.NewModuleAddress(distrtypes.ModuleName))
		case "fresh":
			ping = ethAddr(DetKey(w.Cfg.Seed, "pinged"))
		case "self":
			ping = ethAddr(from)
		}
		data := append(common.LeftPadBytes(ping.Bytes(), 32), inner...)
		bz, _, err := n.EthTxFor(from, n.Agent, big.NewInt(0), 3_000_000, data)
		return bz, err
	case "pc_withdraw":
		data, err := distrABI.Pack("withdrawDelegatorRewards", ethAddr(from), val().String())
		if err != nil {
			return nil, err
		}
		bz, _, err := n.EthTxFor(from, &distrPC, big.NewInt(0), 3_000_000, data)
		return bz, err
	case "pc_setwd":
		data, err := distrABI.Pack("setWithdrawAddress", ethAddr(from), w.Acct(str(t, "to")).Addr.String())
		if err != nil {
			return nil, err
		}
		bz, _, err := n.EthTxFor(from, &distrPC, big.NewInt(0), 3_000_000, data)
		return bz, err
	case "convert_erc20":
		// back from the ERC20 representation of a liquid denom to the coin
		pid := n.App.Erc20Keeper.GetTokenPairID(n.Ctx(), fmt.Sprintf("aLIQUID%d", num(t, "id", 0)))
		pair, ok := n.App.Erc20Keeper.GetTokenPair(n.Ctx(), pid)
		if !ok {
			return nil, fmt.Errorf("no pair")
		}
		return cosmos(3000000, erc20types.NewMsgConvertERC20(coin(str(t, "amt")).Amount, w.Acct(str(t, "to")).Addr, pair.GetERC20Contract(), ethAddr(from)))
	case "authz_grant":
		exp := n.Time.Add(time.Duration(num(t, "secs", 1000)) * time.Second)
		var a authz.Authorization
		switch str(t, "msg") {
		case "send":
			a = banktypes.NewSendAuthorization(sdk.NewCoins(coin(str(t, "amt"))), nil)
		case "delegate":
			a = authz.NewGenericAuthorization(sdk.MsgTypeURL(&stakingtypes.MsgDelegate{}))
		default:
			a = authz.NewGenericAuthorization(sdk.MsgTypeURL(&ucdaotypes.MsgFund{}))
		}
		msg, err := authz.NewMsgGrant(from.Addr, w.Acct(str(t, "to")).Addr, a, &exp)
		if err != nil {
			return nil, err
		}
		return cosmos(300000, msg)
	case "authz_revoke":
		url := map[string]string{"send": sdk.MsgTypeURL(&banktypes.MsgSend{}), "delegate": sdk.MsgTypeURL(&stakingtypes.MsgDelegate{})}[str(t, "msg")]
		if url == "" {
			url = sdk.MsgTypeURL(&ucdaotypes.MsgFund{})
		}
		m := authz.NewMsgRevoke(from.Addr, w.Acct(str(t, "to")).Addr, url)
		return cosmos(300000, &m)
	case "authz_exec":
		granter := w.Acct(str(t, "granter"))
		var inner sdk.Msg
		switch str(t, "msg") {
		case "send":
			inner = banktypes.NewMsgSend(granter.Addr, w.Acct(str(t, "to")).Addr, sdk.NewCoins(coin(str(t, "amt"))))
		case "delegate":
			inner = stakingtypes.NewMsgDelegate(granter.Addr, val(), coin(str(t, "amt")))
		default:
			inner = ucdaotypes.NewMsgFund(sdk.NewCoins(coin(str(t, "amt"))), granter.Addr)
		}
		m := authz.NewMsgExec(from.Addr, []sdk.Msg{inner})
		return cosmos(500000, &m)
	case "feegrant":
		lim := sdk.NewCoins(coin(str(t, "amt")))
		msg, err := feegrant.NewMsgGrantAllowance(&feegrant.BasicAllowance{SpendLimit: lim}, from.Addr, w.Acct(str(t, "to")).Addr)
		if err != nil {
			return nil, err
		}
		return cosmos(300000, msg)
	case "send_feegranted":
		// the fee of this transfer is paid from the allowance of `granter`
		ctx := n.Ctx()
		acc := n.App.AccountKeeper.GetAccount(ctx, from.Addr)
		if acc == nil {
			return nil, fmt.Errorf("no account")
		}
		fee := sdk.NewCoins(sdk.NewCoin(utils.BaseDenom, sdkmath.NewIntFromBigInt(new(big.Int).Mul(gasPrice, big.NewInt(200000)))))
		_, bz, err := BuildCosmosTx(from.Priv, CosmosTxOpts{Gas: 200000, Fee: fee, ChainID: ChainID, AccNum: acc.GetAccountNumber(),
			Seq: acc.GetSequence(), Granter: w.Acct(str(t, "granter")).Addr},
			banktypes.NewMsgSend(from.Addr, w.Acct(str(t, "to")).Addr, sdk.NewCoins(coin(str(t, "amt")))))
		return bz, err
	case "cancel_unbond":
		// re-bond (part of) the oldest unbonding entry of this delegation
		ubd, found := n.App.StakingKeeper.GetUnbondingDelegation(n.Ctx(), from.Addr, val())
		if !found || len(ubd.Entries) == 0 {
			return nil, fmt.Errorf("no unbonding entry")
		}
		amt := sdk.NewCoin(utils.BaseDenom, ubd.Entries[0].Balance)
		if str(t, "amt") != "all" && coin(str(t, "amt")).Amount.LTE(ubd.Entries[0].Balance) {
			amt = coin(str(t, "amt"))
		}
		return cosmos(500000, stakingtypes.NewMsgCancelUnbondingDelegation(from.Addr, val(), ubd.Entries[0].CreationHeight, amt))
	case "gov_deposit":
		return cosmos(300000, govv1beta1.NewMsgDeposit(from.Addr, uint64(num(t, "id", 1)), sdk.NewCoins(coin(str(t, "amt")))))
	case "ibc_transfer":
		// ICS-20 transfer over the loopback channel of the scenario (no relayer: the packet stays pending)
		msg := transfertypes.NewMsgTransfer("transfer", "channel-0", coin(str(t, "amt")), from.Addr.String(), "haqq1receiveronotherside",
			clienttypes.NewHeight(1, 1_000_000), 0, "")
		return cosmos(500000, msg)
	case "pc_ibc_transfer":
		bz, err := ics20ABI.Pack("transfer", "transfer", "channel-0", "aISLM", coin(str(t, "amt")).Amount.BigInt(), ethAddr(from), "haqq1receiveronotherside",
			icsHeight{RevisionNumber: 1, RevisionHeight: 1_000_000}, uint64(0), "")
		if err != nil {
			return nil, err
		}
		pc := ics20PC
		tx, _, err := n.EthTxFor(from, &pc, big.NewInt(0), 3000000, bz)
		return tx, err
	case "convert_coin":
		c := sdk.NewCoin(fmt.Sprintf("aLIQUID%d", num(t, "id", 0)), coin(str(t, "amt")).Amount)
		return cosmos(3000000, erc20types.NewMsgConvertCoin(c, ethAddr(w.Acct(str(t, "to"))), from.Addr))
	case "deploy_probe":
		// a contract whose code reads the environment: BLOCKHASH(number-5), CHAINID, BASEFEE; it stores the first two and
		// returns all three (executed by transactions, and by eth_call queries with empty calldata)
		rt := []byte{0x60, 0x05, 0x43, 0x03, 0x40, 0x80, 0x60, 0x00, 0x55, 0x60, 0x00, 0x52, // blockhash(number-5) -> slot 0, mem[0]
			0x46, 0x80, 0x60, 0x01, 0x55, 0x60, 0x20, 0x52, // chainid -> slot 1, mem[0x20]
			0x48, 0x60, 0x40, 0x52, // basefee -> mem[0x40]
			0x60, 0x60, 0x60, 0x00, 0xf3}
		init := append([]byte{0x60, byte(len(rt)), 0x80, 0x60, 0x0c, 0x60, 0x00, 0x39, 0x60, 0x00, 0xf3, 0x00}, rt...)
		nonce := n.App.EvmKeeper.GetNonce(n.Ctx(), ethAddr(from))
		bz, _, err := n.EthTxFor(from, nil, big.NewInt(0), 300000, init)
		if err == nil {
			a := ethcrypto.CreateAddress(ethAddr(from), nonce)
			n.Probe = &a
		}
		return bz, err
	case "call_probe":
		if n.Probe == nil {
			return nil, fmt.Errorf("no probe contract")
		}
		bz, _, err := n.EthTxFor(from, n.Probe, big.NewInt(0), 200000, nil)
		return bz, err
	case "deploy_empty":
		// constructor stores a value and returns no runtime code: an account with the empty
		// code hash but non-empty storage
		bz, _, err := n.EthTxFor(from, nil, big.NewInt(0), 200000, []byte{0x60, 0x2a, 0x60, 0x00, 0x55, 0x60, 0x07, 0x60, 0x01, 0x55, 0x60, 0x00, 0x60, 0x00, 0xf3})
		return bz, err
	case "gov_toggle":
		content := erc20types.NewToggleTokenConversionProposal("t", "d", fmt.Sprintf("aLIQUID%d", num(t, "id", 0)))
		msg, err := govv1beta1.NewMsgSubmitProposal(content, sdk.NewCoins(coin("5000")), from.Addr)
		if err != nil {
			return nil, err
		}
		return cosmos(500000, msg)
	case "spray":
		// first use deploys the sprayer; later uses call it: one transaction creates eight new
		// accounts whose addresses share their first 16 bytes
		if n.Sprayer == nil {
			var rt []byte
			for i := 1; i <= 8; i++ {
				rt = append(rt, 0x60, 0, 0x60, 0, 0x60, 0, 0x60, 0, 0x60, 1, 0x73)
				addr := make([]byte, 20)
				addr[18], addr[19] = byte(0x10+int(num(t, "salt", 0))), byte(i)
				rt = append(rt, addr...)
				rt = append(rt, 0x5a, 0xf1, 0x50)
			}
			rt = append(rt, 0x00)
			init := []byte{0x61, byte(len(rt) >> 8), byte(len(rt)), 0x80, 0x61, 0x00, 0x0d, 0x60, 0x00, 0x39, 0x60, 0x00, 0xf3}
			nonce := n.App.EvmKeeper.GetNonce(n.Ctx(), ethAddr(from))
			bz, _, err := n.EthTxFor(from, nil, big.NewInt(0), 600000, append(init, rt...))
			if err == nil {
				a := ethcrypto.CreateAddress(ethAddr(from), nonce)
				n.Sprayer = &a
			}
			return bz, err
		}
		bz, _, err := n.EthTxFor(from, n.Sprayer, big.NewInt(8), 600000, nil)
		return bz, err
	case "gov_evm_params":
		// a governance proposal that changes the EVM parameters; with fail=true a second message
		// that cannot succeed makes the whole proposal fail AFTER the parameter change was executed
		gov := authtypes.NewModuleAddress("gov")
		params := n.App.EvmKeeper.GetParams(n.Ctx())
		msgs := []sdk.Msg{}
		if t["fail"] == true {
			params.EnableCreate = false
			msgs = append(msgs, &evmtypes.MsgUpdateParams{Authority: gov.String(), Params: params},
				banktypes.NewMsgSend(gov, from.Addr, sdk.NewCoins(coin("900000000000000000000000000000"))))
		} else {
			params.AllowUnprotectedTxs = !params.AllowUnprotectedTxs
			if v, ok := t["allow"]; ok {
				params.AllowUnprotectedTxs = v == true
			}
			msgs = append(msgs, &evmtypes.MsgUpdateParams{Authority: gov.String(), Params: params})
		}
		msg, err := govv1.NewMsgSubmitProposal(msgs, sdk.NewCoins(coin("5000")), from.Addr.String(), "", "t", "s")
		if err != nil {
			return nil, err
		}
		return cosmos(800000, msg)
	case "eth_unprotected":
		// a legacy Ethereum transaction signed without chain id (accepted only while the EVM parameters allow it)
		ctx := n.Ctx()
		base := n.App.FeeMarketKeeper.GetBaseFee(ctx)
		if base == nil {
			base = big.NewInt(0)
		}
		to := ethAddr(w.Acct(str(t, "to")))
		msg, err := BuildEthMsg(from, EthTxOpts{Type: 0, Nonce: n.App.EvmKeeper.GetNonce(ctx, ethAddr(from)), To: &to,
			Value: coin(str(t, "amt")).Amount.BigInt(), Gas: 60000, Unprotected: true,
			GasPrice: new(big.Int).Add(new(big.Int).Mul(base, big.NewInt(3)), big.NewInt(1_000_000_000))})
		if err != nil {
			return nil, err
		}
		return WrapEthMsgs(msg)
	case "pending":
		// a transaction that has been waiting in the mempool is included now
		i := int(num(t, "idx", 0))
		if i >= len(pendingTxs) {
			return nil, fmt.Errorf("nothing pending")
		}
		return pendingTxs[i], nil
	case "gov_upgrade":
		// a software-upgrade proposal: the named upgrade handler of this binary runs at the plan height
		gov := authtypes.NewModuleAddress("gov")
		if str(t, "name") == "v1.7.6" {
			// the handler was written for the accounts of one chain at one date: it reads the first lockup period of
			// every clawback vesting account, so it is only proposed when every such account has one
			okPre, ctx := true, n.Ctx()
			n.App.AccountKeeper.IterateAccounts(ctx, func(acc authtypes.AccountI) bool {
				if va, is := acc.(*vestingtypes.ClawbackVestingAccount); is && len(va.LockupPeriods) == 0 {
					okPre = false
				}
				return !okPre
			})
			if !okPre {
				return nil, fmt.Errorf("v1.7.6 handler not applicable: a vesting account without lockup periods")
			}
		}
		up := &upgradetypes.MsgSoftwareUpgrade{Authority: gov.String(),
			Plan: upgradetypes.Plan{Name: str(t, "name"), Height: n.Header.Height + num(t, "delta", 3)}}
		msg, err := govv1.NewMsgSubmitProposal([]sdk.Msg{up}, sdk.NewCoins(coin("5000")), from.Addr.String(), "", "t", "s")
		if err != nil {
			return nil, err
		}
		return cosmos(800000, msg)
	case "gov_submit2":
		// a text proposal whose deposit has two denominations
		content := govv1beta1.NewTextProposal("t2", "d2")
		dep := sdk.NewCoins(coin("5000"), sdk.NewCoin("utest", sdkmath.NewInt(num(t, "amt2", 777))))
		msg, err := govv1beta1.NewMsgSubmitProposal(content, dep, from.Addr)
		if err != nil {
			return nil, err
		}
		return cosmos(500000, msg)
	case "send_mod":
		// a bank MsgSend whose recipient is a module account (blocked addresses must stay blocked under every configuration)
		mods := []string{"distribution", "bonded_tokens_pool", "not_bonded_tokens_pool", "gov", "fee_collector", "erc20", "ucdao"}
		to := authtypes.NewModuleAddress(mods[int(num(t, "mod", 0))%len(mods)])
		return cosmos(300000, banktypes.NewMsgSend(from.Addr, to, sdk.NewCoins(coin(str(t, "amt")))))
	case "gov_erc20_params":
		// governance switches the ERC20 module (and with it the bank wrapper's conversion path) off or on
		gov := authtypes.NewModuleAddress("gov")
		params := n.App.Erc20Keeper.GetParams(n.Ctx())
		params.EnableErc20 = t["enable"] == true
		msg, err := govv1.NewMsgSubmitProposal([]sdk.Msg{&erc20types.MsgUpdateParams{Authority: gov.String(), Params: params}},
			sdk.NewCoins(coin("5000")), from.Addr.String(), "", "t", "s")
		if err != nil {
			return nil, err
		}
		return cosmos(800000, msg)
	case "eth_send_mod":
		// an EVM value transfer whose recipient is a module account
		mods := []string{"distribution", "bonded_tokens_pool", "not_bonded_tokens_pool", "gov", "fee_collector", "erc20", "ucdao"}
		to := common.BytesToAddress(authtypes.NewModuleAddress(mods[int(num(t, "mod", 0))%len(mods)]))
		bz, _, err := n.EthTxFor(from, &to, coin(str(t, "amt")).Amount.BigInt(), 60000, nil)
		return bz, err
	case "convert_into_vesting":
		a := sdk.NewCoins(coin(str(t, "amt")))
		lock := sdkvesting.Periods{{Length: num(t, "lock", 300), Amount: a}}
		vest := sdkvesting.Periods{{Length: num(t, "vest", 5), Amount: a}}
		toAddr := w.Acct(str(t, "to")).Addr
		if strings.HasPrefix(str(t, "to"), "next:") {
			// the address of the contract that account X will create next: a vesting account that later owns code
			c := w.Acct(strings.TrimPrefix(str(t, "to"), "next:"))
			toAddr = sdk.AccAddress(ethcrypto.CreateAddress(ethAddr(c), n.App.EvmKeeper.GetNonce(n.Ctx(), ethAddr(c))).Bytes())
		}
		return cosmos(900000, vestingtypes.NewMsgConvertIntoVestingAccount(from.Addr, toAddr, n.Time.Add(time.Duration(num(t, "startOff", 0))*time.Second), lock, vest,
			t["merge"] == true, t["stake"] == true, val()))
	case "dao_scatter":
		// one transaction that gives n fresh accounts a DAO share (collections with more entries than a page)
		var msgs []sdk.Msg
		cnt := int(num(t, "n", 120))
		for i := 0; i < cnt; i++ {
			to := DetKey(w.Cfg.Seed, fmt.Sprintf("dao-holder-%d-%d", num(t, "salt", 0), i))
			msgs = append(msgs, ucdaotypes.NewMsgTransferOwnershipWithAmount(from.Addr, to.Addr, sdk.NewCoins(coin(str(t, "amt")))))
		}
		return cosmos(uint64(200000+90000*cnt), msgs...)
	case "gov_params":
		// governance moves the parameters of one module to legal edge values (zero, empty, false, the other flag);
		// what an export carries and what a restarted node reads back must be exactly these values
		gov := authtypes.NewModuleAddress("gov").String()
		var msgs []sdk.Msg
		var legacy []paramproposal.ParamChange
		switch str(t, "which") {
		case "fm_mult0", "fm_mult1", "fm_nobasefee", "fm_elasticity1", "fm_minprice":
			p := n.App.FeeMarketKeeper.GetParams(n.Ctx())
			switch str(t, "which") {
			case "fm_mult0":
				p.MinGasMultiplier = sdk.ZeroDec()
			case "fm_mult1":
				p.MinGasMultiplier = sdk.OneDec()
			case "fm_nobasefee":
				p.NoBaseFee = !p.NoBaseFee
			case "fm_elasticity1":
				p.ElasticityMultiplier = 1
			case "fm_minprice":
				if p.MinGasPrice.IsZero() {
					p.MinGasPrice = sdk.NewDecWithPrec(5, 1)
				} else {
					p.MinGasPrice = sdk.ZeroDec()
				}
			}
			msgs = append(msgs, &feemarkettypes.MsgUpdateParams{Authority: gov, Params: p})
		case "erc20_hook":
			p := n.App.Erc20Keeper.GetParams(n.Ctx())
			p.EnableEVMHook = t["enable"] == true
			msgs = append(msgs, &erc20types.MsgUpdateParams{Authority: gov, Params: p})
		case "distr_zero":
			p := n.App.DistrKeeper.GetParams(n.Ctx())
			p.CommunityTax = sdk.ZeroDec()
			p.WithdrawAddrEnabled = !p.WithdrawAddrEnabled
			msgs = append(msgs, &distrtypes.MsgUpdateParams{Authority: gov, Params: p})
		case "slash_zero":
			p := n.App.SlashingKeeper.GetParams(n.Ctx())
			p.SlashFractionDowntime = sdk.ZeroDec()
			p.SlashFractionDoubleSign = sdk.ZeroDec()
			p.MinSignedPerWindow = sdk.ZeroDec()
			msgs = append(msgs, &slashingtypes.MsgUpdateParams{Authority: gov, Params: p})
		case "staking_edge":
			p := n.App.StakingKeeper.GetParams(n.Ctx())
			p.MinCommissionRate = sdk.ZeroDec()
			p.MaxEntries = 2
			msgs = append(msgs, &stakingtypes.MsgUpdateParams{Authority: gov, Params: p})
		case "evm_channels":
			p := n.App.EvmKeeper.GetParams(n.Ctx())
			if len(p.EVMChannels) == 0 {
				p.EVMChannels = []string{"channel-7"}
			} else {
				p.EVMChannels = []string{}
			}
			msgs = append(msgs, &evmtypes.MsgUpdateParams{Authority: gov, Params: p})
		case "gov_flags":
			p := n.App.GovKeeper.GetParams(n.Ctx())
			p.BurnVoteVeto = !p.BurnVoteVeto
			p.BurnVoteQuorum = !p.BurnVoteQuorum
			p.BurnProposalDepositPrevote = !p.BurnProposalDepositPrevote
			msgs = append(msgs, &govv1.MsgUpdateParams{Authority: gov, Params: p})
		case "lv_edge":
			legacy = append(legacy, paramproposal.NewParamChange(liquidvestingtypes.ModuleName, "MinimumLiquidationAmount", "\"1\""))
		case "lv_off":
			v := "false"
			if t["enable"] == true {
				v = "true"
			}
			legacy = append(legacy, paramproposal.NewParamChange(liquidvestingtypes.ModuleName, "EnableLiquidVesting", v))
		case "coin_coeff0":
			legacy = append(legacy, paramproposal.NewParamChange(coinomicstypes.ModuleName, "ParamStoreKeyRewardCoefficient", "\"0.000000000000000000\""))
		default:
			return nil, fmt.Errorf("unknown parameter change %q", str(t, "which"))
		}
		if legacy != nil {
			content := paramproposal.NewParameterChangeProposal("p", "d", legacy)
			msg, err := govv1beta1.NewMsgSubmitProposal(content, sdk.NewCoins(coin("5000")), from.Addr)
			if err != nil {
				return nil, err
			}
			return cosmos(500000, msg)
		}
		msg, err := govv1.NewMsgSubmitProposal(msgs, sdk.NewCoins(coin("5000")), from.Addr.String(), "", "t", "s")
		if err != nil {
			return nil, err
		}
		return cosmos(800000, msg)
	case "erc20_xfer":
		// the ERC20 `transfer` of a registered pair's contract; towards the erc20 module address it is the
		// conversion back into coins done by the EVM hook
		pid := n.App.Erc20Keeper.GetTokenPairID(n.Ctx(), fmt.Sprintf("aLIQUID%d", num(t, "id", 0)))
		pair, ok := n.App.Erc20Keeper.GetTokenPair(n.Ctx(), pid)
		if !ok {
			return nil, fmt.Errorf("no pair")
		}
		var to common.Address
		if str(t, "to") == "mod:erc20" {
			to = common.BytesToAddress(authtypes.NewModuleAddress("erc20"))
		} else {
			to = ethAddr(w.Acct(str(t, "to")))
		}
		data := append([]byte{0xa9, 0x05, 0x9c, 0xbb}, common.LeftPadBytes(to.Bytes(), 32)...)
		data = append(data, common.LeftPadBytes(coin(str(t, "amt")).Amount.BigInt().Bytes(), 32)...)
		c := pair.GetERC20Contract()
		bz, _, err := n.EthTxFor(from, &c, big.NewInt(0), 400000, data)
		return bz, err
	case "gov_coinomics":
		// legacy parameter-change proposal switching coinomics off or on
		v := "false"
		if t["enable"] == true {
			v = "true"
		}
		content := paramproposal.NewParameterChangeProposal("c", "d", []paramproposal.ParamChange{
			paramproposal.NewParamChange(coinomicstypes.ModuleName, "ParamStoreKeyEnableCoinomics", v)})
		msg, err := govv1beta1.NewMsgSubmitProposal(content, sdk.NewCoins(coin("5000")), from.Addr)
		if err != nil {
			return nil, err
		}
		return cosmos(500000, msg)
	case "bad_nonce":
		// a transaction that the ante handler rejects (stale sequence): exercises the failure path
		acc := n.App.AccountKeeper.GetAccount(n.Ctx(), from.Addr)
		_, bz, err := BuildCosmosTx(from.Priv, CosmosTxOpts{Gas: 200000, Fee: sdk.NewCoins(coin("400000000000000")), ChainID: ChainID,
			AccNum: acc.GetAccountNumber(), Seq: acc.GetSequence() + 7},
			banktypes.NewMsgSend(from.Addr, w.Acct(str(t, "to")).Addr, sdk.NewCoins(coin("1"))))
		return bz, err
	}
	return nil, fmt.Errorf("unknown tx kind %q", str(t, "k"))
}

// splitEthGas returns the result data of a transaction with the gas figure of every Ethereum response in it
// set to zero, and the sum of these figures.
func splitEthGas(data []byte) ([]byte, int) {
	var td sdk.TxMsgData
	if len(data) == 0 || td.Unmarshal(data) != nil {
		return data, 0
	}
	total, changed := 0, false
	for _, r := range td.MsgResponses {
		if r == nil || r.TypeUrl != "/"+"ethermint.evm.v1.MsgEthereumTxResponse" && !strings.HasSuffix(r.TypeUrl, ".MsgEthereumTxResponse") {
			continue
		}
		var er evmtypes.MsgEthereumTxResponse
		if er.Unmarshal(r.Value) != nil {
			continue
		}
		total += int(er.GasUsed)
		er.GasUsed = 0
		if bz, err := er.Marshal(); err == nil {
			r.Value = bz
			changed = true
		}
	}
	if !changed {
		return data, 0
	}
	bz, err := td.Marshal()
	if err != nil {
		return data, 0
	}
	return bz, total
}

// errClass is the class of a failure message: its first words, without figures, addresses and times.
func errClass(msg string) string {
	msg = strings.TrimPrefix(msg, "panic: ")
	if i := strings.IndexAny(msg, "(:[{"); i > 0 {
		msg = msg[:i]
	}
	var b strings.Builder
	for _, r := range msg {
		switch {
		case r >= 'a' && r <= 'z' || r >= 'A' && r <= 'Z':
			b.WriteRune(r)
		case b.Len() > 0 && !strings.HasSuffix(b.String(), " "):
			b.WriteRune(' ')
		}
	}
	out := strings.TrimSpace(b.String())
	if len(out) > 70 {
		out = out[:70]
	}
	if out == "" {
		out = "-"
	}
	return out
}

// flatten turns a JSON document into path -> scalar-digest pairs.
func flatten(prefix string, v any, out map[string]string) {
	switch x := v.(type) {
	case map[string]any:
		if len(x) == 0 {
			out[prefix] = "{}"
		}
		for k, c := range x {
			flatten(prefix+"."+k, c, out)
		}
	case []any:
		if len(x) == 0 {
			out[prefix] = "[]"
		}
		for i, c := range x {
			flatten(fmt.Sprintf("%s[%d]", prefix, i), c, out)
		}
	default:
		s := fmt.Sprint(x)
		if len(s) > 40 {
			s = "#" + digest([]byte(s))
		}
		out[prefix] = s
	}
}

// exportImport: export -> InitChain of a fresh app -> Commit -> export again; returns the
// per-module flattened documents of both exports.
func (n *Node) exportImport() (res M, err error) {
	// an export or InitChain that panics is a failed export/import cycle (a verdict), not a harness failure
	defer func() {
		if r := recover(); r != nil {
			msg := fmt.Sprint(r)
			if len(msg) > 300 {
				msg = msg[:300]
			}
			res, err = nil, fmt.Errorf("panic: %s", msg)
			n.imported = nil
		}
	}()
	exp, err := n.App.ExportAppStateAndValidators(false, nil, nil)
	if err != nil {
		return nil, err
	}
	fresh := openApp(dbm.NewMemDB())
	var vals []abci.ValidatorUpdate
	for _, gv := range exp.Validators {
		vals = append(vals, tmtypes.TM2PB.NewValidatorUpdate(gv.PubKey, gv.Power))
	}
	fresh.InitChain(abci.RequestInitChain{ChainId: ChainID, Time: n.Time, Validators: vals,
		ConsensusParams: exp.ConsensusParams, AppStateBytes: exp.AppState, InitialHeight: exp.Height})
	fresh.Commit()
	// a second import that is NOT committed: it continues with the next block exactly as a chain
	// started from the exported genesis would (same height and header as the original)
	cont := openApp(dbm.NewMemDB())
	cont.InitChain(abci.RequestInitChain{ChainId: ChainID, Time: n.Time, Validators: vals,
		ConsensusParams: exp.ConsensusParams, AppStateBytes: exp.AppState, InitialHeight: exp.Height})
	n.imported = &Node{W: n.W, App: cont, Height: n.Height, Time: n.Time, LastHash: n.LastHash}
	exp2, err := fresh.ExportAppStateAndValidators(false, nil, nil)
	if err != nil {
		return nil, err
	}
	var d1, d2 map[string]any
	if err := json.Unmarshal(exp.AppState, &d1); err != nil {
		return nil, err
	}
	if err := json.Unmarshal(exp2.AppState, &d2); err != nil {
		return nil, err
	}
	before, after, norm := M{}, M{}, M{}
	leaves := 0
	for _, mod := range sortedKeys(d1) {
		f1, f2 := map[string]string{}, map[string]string{}
		flatten("", d1[mod], f1)
		flatten("", d2[mod], f2)
		// only the leaves that differ are logged with their values; the rest as one digest
		b, a := M{}, M{}
		same := []string{}
		for _, p := range sortedKeys(f1) {
			leaves++
			if v2, ok := f2[p]; ok && v2 == f1[p] {
				same = append(same, p+"="+f1[p])
			} else {
				b[p] = f1[p]
				if ok {
					a[p] = v2
				} else {
					a[p] = "<absent>"
				}
			}
		}
		for _, p := range sortedKeys(f2) {
			if _, ok := f1[p]; !ok {
				b[p] = "<absent>"
				a[p] = f2[p]
			}
		}
		nm := M{"_same": "_same", "_n": "_n"}
		for p := range b {
			nm[p] = indexRe.ReplaceAllString(p, "[]")
		}
		norm[mod] = nm
		b["_same"] = digest([]byte(strings.Join(same, "\n")))
		a["_same"] = b["_same"]
		b["_n"] = fmt.Sprint(len(f1))
		a["_n"] = fmt.Sprint(len(f2))
		before[mod], after[mod] = b, a
	}
	// second clause of C19: the Haqq modules answer every query identically on both apps
	qb, qa, qn := M{}, M{}, M{"_same": "_same", "_n": "_n"}
	reqs := n.haqqQueries()
	for _, k := range sortedKeys(reqs) {
		r1 := n.App.Query(abci.RequestQuery{Path: reqs[k].path, Data: reqs[k].data})
		r2 := fresh.Query(abci.RequestQuery{Path: reqs[k].path, Data: reqs[k].data})
		qb[k] = fmt.Sprintf("%d:%s", r1.Code, digest(r1.Value))
		qa[k] = fmt.Sprintf("%d:%s", r2.Code, digest(r2.Value))
		qn[k] = reqs[k].norm
	}
	qb["_same"], qa["_same"], qb["_n"], qa["_n"] = "-", "-", fmt.Sprint(len(reqs)), fmt.Sprint(len(reqs))
	before["queries"], after["queries"], norm["queries"] = qb, qa, qn
	// the other export mode (`export --for-zero-height`): heights are reset and rewards withdrawn by design, so the
	// document is not compared - but the export must succeed and a fresh chain must start from it
	zeroErr := ""
	func() {
		defer func() {
			if r := recover(); r != nil {
				zeroErr = fmt.Sprint("panic: ", r)
			}
		}()
		// (on the throw-away application that was just initialised from the ordinary export and committed: the
		// preparation for zero height writes to the exporting application's check state)
		expz, err := fresh.ExportAppStateAndValidators(true, nil, nil)
		if err != nil {
			zeroErr = "export: " + err.Error()
			return
		}
		var zvals []abci.ValidatorUpdate
		for _, gv := range expz.Validators {
			zvals = append(zvals, tmtypes.TM2PB.NewValidatorUpdate(gv.PubKey, gv.Power))
		}
		z := openApp(dbm.NewMemDB())
		z.InitChain(abci.RequestInitChain{ChainId: ChainID, Time: n.Time, Validators: zvals,
			ConsensusParams: expz.ConsensusParams, AppStateBytes: expz.AppState, InitialHeight: 1})
		z.Commit()
	}()
	if len(zeroErr) > 200 {
		zeroErr = zeroErr[:200]
	}
	return M{"before": before, "after": after, "norm": norm, "leaves": leaves, "queries": len(reqs), "initHeight": fmt.Sprint(exp.Height), "zeroErr": zeroErr}, nil
}

func chainMain(args []string) error {
	fs := flag.NewFlagSet("chain", flag.ExitOnError)
	role := fs.String("role", "gen", "gen | follow")
	name := fs.String("name", "", "replica name in the trace (default: role)")
	scriptPath := fs.String("script", "", "script JSON")
	blocksPath := fs.String("blocks", "blocks.json", "recorded block inputs (written by gen, read by follow)")
	out := fs.String("out", "trace.ndjson", "trace output")
	noise := fs.Bool("noise", false, "construct and discard extra app instances, vary GOMAXPROCS")
	scn := fs.Int("scn", 1, "scenario number")
	prerun := fs.Bool("prerun", false, "follow: first replay the whole history once on a throw-away database in this process (a replica whose process has a different past)")
	fs.Parse(args)
	if *name == "" {
		*name = *role
	}
	var sc chainScript
	if err := readJSONFile(*scriptPath, &sc); err != nil {
		return err
	}
	if sc.Cfg.GenesisTime != "" {
		t, err := time.Parse(time.RFC3339, sc.Cfg.GenesisTime)
		if err != nil {
			return err
		}
		GenesisTime = t.UTC()
	}
	if *prerun && *role == "follow" {
		tmp := *out + ".prerun"
		if err := chainMain([]string{"--role", "follow", "--name", *name + "-prerun", "--script", *scriptPath, "--blocks", *blocksPath, "--out", tmp, "--scn", fmt.Sprint(*scn)}); err != nil {
			return err
		}
		os.Remove(tmp)
	}
	tw, err := NewTraceWriter(*out)
	if err != nil {
		return err
	}
	defer tw.Close()

	if *noise {
		// node-local configuration differs from the generating replica's
		NodeLocal["evm.max-tx-gas-wanted"] = uint64(50000)
		NodeLocal["evm.tracer"] = ""
		NodeLocal["iavl-cache-size"] = 10
		NodeLocal["inter-block-cache"] = false
		runtime.GOMAXPROCS(3)
		for i := 0; i < 2; i++ {
			_ = openApp(dbm.NewMemDB())
		}
	}
	w := NewWorld(sc.Cfg)
	db := dbm.NewMemDB()
	n := NewNode(w, db)
	var recs []chainBlockRec
	if *role == "follow" {
		if err := readJSONFile(*blocksPath, &recs); err != nil {
			return err
		}
	}
	emit := func(m M) {
		m["r"] = *name
		m["scn"] = *scn
		tw.Emit(m)
	}
	emit(M{"ev": "reset", "cfg": sc.Cfg})
	var contracts []common.Address
	bi := 0
	pendingTxs = nil
	var poolBuf []string
	for _, st := range sc.Steps {
		switch st.Ev {
		case "mempool":
			// transactions reach the mempool of every node (CheckTx) and stay there: process state, not chain state
			if *role == "gen" {
				for _, t := range st.Txs {
					n.BetweenBlocks = true
					bz, err := chainTx(n, &contracts, t)
					n.BetweenBlocks = false
					if err != nil {
						continue
					}
					poolBuf = append(poolBuf, hex.EncodeToString(bz))
					pendingTxs = append(pendingTxs, bz)
					n.App.CheckTx(abci.RequestCheckTx{Tx: bz, Type: abci.CheckTxType_New})
				}
			} else if bi < len(recs) {
				for _, h := range recs[bi].Pool {
					bz, _ := hex.DecodeString(h)
					n.App.CheckTx(abci.RequestCheckTx{Tx: bz, Type: abci.CheckTxType_New})
				}
			}
		case "block":
			halted := false
			func() {
				// a panic while a block is processed halts the chain: that is recorded (a verdict), the scenario ends here
				defer func() {
					if r := recover(); r != nil {
						msg := fmt.Sprint(r)
						if len(msg) > 160 {
							msg = msg[:160]
						}
						emit(M{"ev": "halt", "h": n.Height + 1, "msg": msg})
						halted = true
					}
				}()
			in := BlockIn{DtMs: st.DtMs, Proposer: st.Proposer, Absent: st.Absent, Evidence: st.Evidence}
			imp := n.imported
			impres := []any{}
			n.BeginBlock(in)
			if imp != nil {
				imp.BeginBlockWith(n.LastReq)
			}
			var rec chainBlockRec
			if *role == "follow" {
				rec = recs[bi]
			}
			txres := []any{}
			logs := []any{}
			deliver := func(bz []byte, kind string) {
				r := n.Deliver(bz)
				tr := TxResult(r)
				tr["k"] = kind
				txres = append(txres, tr)
				if imp != nil {
					ri := imp.Deliver(bz)
					if os.Getenv("HV_DEBUG") != "" {
						fmt.Fprintln(os.Stderr, "DEBUGGAS", n.Header.Height, kind, r.GasUsed, ri.GasUsed, r.GasWanted, ri.GasWanted,
							n.App.FeeMarketKeeper.GetBaseFee(n.Ctx()), imp.App.FeeMarketKeeper.GetBaseFee(imp.Ctx()))
						for _, pair := range [][]abci.Event{r.Events, ri.Events} {
							for _, ev := range pair {
								if ev.Type == "withdraw_rewards" || ev.Type == "coin_received" {
									fmt.Fprintln(os.Stderr, "DEBUG", kind, ev.Type, ev.Attributes)
								}
							}
							fmt.Fprintln(os.Stderr, "DEBUG ---")
						}
					}
					// (the gas figure inside an Ethereum response is compared on its own, like the gas of the result)
					di, ei := splitEthGas(ri.Data)
					dg, eg := splitEthGas(r.Data)
					impres = append(impres, M{"k": kind, "code": int(ri.Code), "codespace": ri.Codespace, "data": digest(di),
						"gen_code": int(r.Code), "gen_codespace": r.Codespace, "gen_data": digest(dg), "egas": ei, "gen_egas": eg,
						"gas": int(ri.GasUsed), "gen_gas": int(r.GasUsed), "gasWanted": int(r.GasWanted)})
				}
				if r.Code != 0 {
					l := r.Log
					if len(l) > 200 {
						l = l[:200]
					}
					logs = append(logs, kind+": "+l)
				}
			}
			if *role == "gen" {
				for _, t := range st.Txs {
					bz, err := chainTx(n, &contracts, t)
					if err != nil {
						continue // not constructible in this state: not part of the block
					}
					rec.Txs = append(rec.Txs, hex.EncodeToString(bz))
					rec.Kinds = append(rec.Kinds, str(t, "k"))
					deliver(bz, str(t, "k"))
				}
				rec.Pool, poolBuf = poolBuf, nil
				recs = append(recs, rec)
			} else {
				for i, h := range rec.Txs {
					bz, _ := hex.DecodeString(h)
					deliver(bz, rec.Kinds[i])
				}
			}
			eb := n.EndBlock()
			// C15: every registered invariant route on the deliver state after EndBlock
			broken := []any{}
			nroutes := 0
			ictx := n.Ctx()
			for _, rt := range n.App.CrisisKeeper.Routes() {
				nroutes++
				func() {
					defer func() {
						if r := recover(); r != nil {
							broken = append(broken, M{"route": rt.ModuleName + "/" + rt.Route, "msg": fmt.Sprint("panic: ", r)})
						}
					}()
					if msg, bad := rt.Invar(ictx); bad {
						if len(msg) > 300 {
							msg = msg[:300]
						}
						broken = append(broken, M{"route": rt.ModuleName + "/" + rt.Route, "msg": msg})
					}
				}()
			}
			if os.Getenv("HV_DEBUG") != "" {
				dctx := n.Ctx()
				nb := n.App.BankKeeper.GetBalance(dctx, authtypes.NewModuleAddress(stakingtypes.NotBondedPoolName), utils.BaseDenom)
				bd := n.App.BankKeeper.GetBalance(dctx, authtypes.NewModuleAddress(stakingtypes.BondedPoolName), utils.BaseDenom)
				var es []string
				for _, u := range n.App.StakingKeeper.GetAllUnbondingDelegations(dctx, w.Acct("v2").Addr) {
					for _, e := range u.Entries {
						es = append(es, fmt.Sprintf("%s h=%d init=%s bal=%s", u.ValidatorAddress[len(u.ValidatorAddress)-6:], e.CreationHeight, e.InitialBalance, e.Balance))
					}
				}
				fmt.Fprintln(os.Stderr, "DEBUGPOOL", n.Header.Height, "notbonded", nb.Amount, "bonded", bd.Amount, es)
			}
			hash := n.Commit()
			if imp != nil {
				imp.EndBlock()
				imp.Commit()
				if os.Getenv("HV_DEBUG") != "" {
					e1, _ := n.App.ExportAppStateAndValidators(false, nil, nil)
					e2, _ := imp.App.ExportAppStateAndValidators(false, nil, nil)
					var d1, d2 map[string]any
					json.Unmarshal(e1.AppState, &d1)
					json.Unmarshal(e2.AppState, &d2)
					for _, mod := range sortedKeys(d1) {
						f1, f2 := map[string]string{}, map[string]string{}
						flatten("", d1[mod], f1)
						flatten("", d2[mod], f2)
						for _, p := range sortedKeys(f1) {
							if f2[p] != f1[p] {
								fmt.Fprintln(os.Stderr, "DEBUGDIFF", n.Height, mod, p, f1[p], f2[p])
							}
						}
					}
				}
				emit(M{"ev": "imported_block", "h": n.Height, "txs": impres})
			}
			cp := ""
			if eb.ConsensusParamUpdates != nil {
				bz, _ := eb.ConsensusParamUpdates.Marshal()
				cp = digest(bz)
			}
			emit(M{"ev": "commit", "h": n.Height, "rec": M{"appHash": hexs(hash)[:24], "txs": txres,
				"valUpdates": ValUpdates(eb.ValidatorUpdates), "cpUpdates": cp},
				"ntx": len(txres), "routes": nroutes, "broken": broken, "logs": logs})
			bi++
			}()
			if halted {
				goto done
			}
		case "local":
			if *role != "follow" {
				continue
			}
			before := hexs(n.App.LastCommitID().Hash)[:24]
			detail := ""
			switch st.Kind {
			case "checktx":
				// a valid pending transaction that never makes it into a block on this replica's view
				k := w.Accts[0]
				cctx := n.App.BaseApp.NewContext(true, n.Header)
				acc := n.App.AccountKeeper.GetAccount(cctx, k.Addr)
				_, bz, err := BuildCosmosTx(k.Priv, CosmosTxOpts{Gas: 200000, Fee: sdk.NewCoins(coin("400000000000000")), ChainID: ChainID,
					AccNum: acc.GetAccountNumber(), Seq: acc.GetSequence()},
					banktypes.NewMsgSend(k.Addr, w.Accts[1].Addr, sdk.NewCoins(coin("12345"))))
				if err == nil {
					r := n.App.CheckTx(abci.RequestCheckTx{Tx: bz, Type: abci.CheckTxType_New})
					detail = fmt.Sprint("code=", r.Code)
				}
				to := ethAddr(w.Accts[2])
				if ebz, _, err := (&Node{W: w, App: n.App, Header: n.Header}).ethTxOnCheckState(w.Accts[3], &to); err == nil {
					r := n.App.CheckTx(abci.RequestCheckTx{Tx: ebz, Type: abci.CheckTxType_New})
					detail += fmt.Sprint(" ethcode=", r.Code)
				}
			case "query":
				// every query of the Haqq modules, on the latest and on the previous height
				reqs := n.haqqQueries()
				okq := 0
				for _, k := range sortedKeys(reqs) {
					for _, h := range []int64{0, n.Height - 1} {
						if h < 0 {
							continue
						}
						if r := n.App.Query(abci.RequestQuery{Path: reqs[k].path, Data: reqs[k].data, Height: h}); r.Code == 0 {
							okq++
						}
					}
				}
				r := n.App.Query(abci.RequestQuery{Path: "/cosmos.bank.v1beta1.Query/TotalSupply", Height: n.Height})
				detail = fmt.Sprint("queries=", len(reqs), " ok=", okq, " supply=", r.Code)
			case "simulate":
				k := w.Accts[4%len(w.Accts)]
				cctx := n.App.BaseApp.NewContext(true, n.Header)
				acc := n.App.AccountKeeper.GetAccount(cctx, k.Addr)
				_, bz, err := BuildCosmosTx(k.Priv, CosmosTxOpts{Gas: 300000, Fee: sdk.NewCoins(coin("600000000000000")), ChainID: ChainID,
					AccNum: acc.GetAccountNumber(), Seq: acc.GetSequence()},
					ucdaotypes.NewMsgFund(sdk.NewCoins(coin("999")), k.Addr))
				if err == nil {
					_, _, serr := n.App.Simulate(bz)
					detail = fmt.Sprint("err=", serr != nil)
				}
			case "export":
				_, err := n.App.ExportAppStateAndValidators(false, nil, nil)
				detail = fmt.Sprint("err=", err != nil)
			}
			after := hexs(n.App.LastCommitID().Hash)[:24]
			emit(M{"ev": "local", "kind": st.Kind, "h": n.Height, "before": before, "after": after, "detail": detail})
		case "restart":
			// "answers queries identically": every query, on the node that never stopped (gen) and on the node
			// that was just restarted, before any further block
			snap := func() M {
				qs := M{"_": "-"}
				reqs := n.haqqQueries()
				for _, k := range sortedKeys(reqs) {
					r := n.App.Query(abci.RequestQuery{Path: reqs[k].path, Data: reqs[k].data})
					qs[k] = fmt.Sprintf("%d:%s", r.Code, digest(r.Value))
					if os.Getenv("HV_DEBUG") != "" && strings.HasPrefix(k, "evm.ethcall") {
						fmt.Fprintln(os.Stderr, "DEBUGQ", *role, n.Height, k, r.Code, hex.EncodeToString(r.Value))
					}
				}
				return qs
			}
			if *role != "follow" {
				emit(M{"ev": "qsnap", "h": n.Height, "queries": snap()})
				continue
			}
			info := n.Restart()
			emit(M{"ev": "restart", "h": n.Height, "info": M{"height": info.LastBlockHeight, "appHash": hexs(info.LastBlockAppHash)[:24]},
				"expect": M{"height": n.Height, "appHash": hexs(n.LastHash)[:24]}, "queries": snap()})
		case "export_import":
			if *role != "gen" {
				continue
			}
			d, err := n.exportImport()
			if err != nil {
				emit(M{"ev": "export_import", "h": n.Height, "ok": false, "err": err.Error(), "errClass": errClass(err.Error()), "before": M{"_": M{"_": "-"}}, "after": M{"_": M{"_": "-"}}, "norm": M{"_": M{"_": "-"}}, "zeroErr": ""})
				continue
			}
			emit(M{"ev": "export_import", "h": n.Height, "ok": true, "err": "", "errClass": "-", "before": d["before"], "after": d["after"], "norm": d["norm"],
				"leaves": d["leaves"], "queries": d["queries"], "initHeight": d["initHeight"], "zeroErr": d["zeroErr"]})
		}
	}
done:
	if *role == "gen" {
		bz, _ := json.Marshal(recs)
		if err := os.WriteFile(*blocksPath, bz, 0o644); err != nil {
			return err
		}
	}
	_ = sort.Strings
	fmt.Printf("chain[%s]: height=%d lines=%d\n", *name, n.Height, tw.N)
	return nil
}

// ethTxOnCheckState builds an Ethereum transfer against the check state.
func (n *Node) ethTxOnCheckState(k Key, to *common.Address) ([]byte, any, error) {
	ctx := n.App.BaseApp.NewContext(true, n.Header)
	nonce := n.App.EvmKeeper.GetNonce(ctx, ethAddr(k))
	base := n.App.FeeMarketKeeper.GetBaseFee(ctx)
	if base == nil {
		base = big.NewInt(0)
	}
	cap := new(big.Int).Add(new(big.Int).Mul(base, big.NewInt(2)), big.NewInt(1_000_000_000))
	msg, err := BuildEthMsg(k, EthTxOpts{Type: 2, Nonce: nonce, To: to, Value: big.NewInt(7), Gas: 21000, FeeCap: cap,
		TipCap: big.NewInt(1), ChainID: n.App.EvmKeeper.ChainID()})
	if err != nil {
		return nil, nil, err
	}
	bz, err := WrapEthMsgs(msg)
	return bz, msg, err
}

type haqqQuery struct {
	path string
	data []byte
	norm string
}

// haqqQueries lists gRPC queries of the Haqq modules over the accounts, contracts, vesting
// accounts and denominations that exist in the current state.
func (n *Node) haqqQueries() map[string]haqqQuery {
	out := map[string]haqqQuery{}
	ctx := n.App.BaseApp.NewContext(true, tmproto.Header{Height: n.Height})
	add := func(key, norm, path string, msg interface{ Marshal() ([]byte, error) }) {
		bz, err := msg.Marshal()
		if err != nil {
			panic(err)
		}
		out[key] = haqqQuery{path: path, data: bz, norm: norm}
	}
	add("evm.params", "evm.params", "/ethermint.evm.v1.Query/Params", &evmtypes.QueryParamsRequest{})
	add("feemarket.params", "feemarket.params", "/ethermint.feemarket.v1.Query/Params", &feemarkettypes.QueryParamsRequest{})
	add("feemarket.basefee", "feemarket.basefee", "/ethermint.feemarket.v1.Query/BaseFee", &feemarkettypes.QueryBaseFeeRequest{})
	add("erc20.pairs", "erc20.pairs", "/evmos.erc20.v1.Query/TokenPairs", &erc20types.QueryTokenPairsRequest{})
	add("erc20.params", "erc20.params", "/evmos.erc20.v1.Query/Params", &erc20types.QueryParamsRequest{})
	add("liquidvesting.denoms", "liquidvesting.denoms", "/haqq.liquidvesting.v1.Query/Denoms", &liquidvestingtypes.QueryDenomsRequest{})
	add("ucdao.total", "ucdao.total", "/haqq.ucdao.v1.Query/TotalBalance", &ucdaotypes.QueryTotalBalanceRequest{})
	add("ucdao.holders", "ucdao.holders", "/haqq.ucdao.v1.Query/Holders", &ucdaotypes.QueryHoldersRequest{})
	add("ucdao.params", "ucdao.params", "/haqq.ucdao.v1.Query/Params", &ucdaotypes.QueryParamsRequest{})
	add("coinomics.params", "coinomics.params", "/haqq.coinomics.v1.Query/Params", &coinomicstypes.QueryParamsRequest{})
	add("coinomics.maxsupply", "coinomics.maxsupply", "/haqq.coinomics.v1.Query/MaxSupply", &coinomicstypes.QueryMaxSupplyRequest{})
	add("coinomics.coeff", "coinomics.coeff", "/haqq.coinomics.v1.Query/RewardCoefficient", &coinomicstypes.QueryRewardCoefficientRequest{})
	eargs, _ := json.Marshal(map[string]any{"to": "0x0000000000000000000000000000000000005678", "from": "0x0000000000000000000000000000000000001234", "value": "0x1"})
	add("evm.estimategas", "evm.estimategas", "/ethermint.evm.v1.Query/EstimateGas", &evmtypes.EthCallRequest{Args: eargs, GasCap: 1_000_000, ProposerAddress: n.W.Vals[0].ConsAddr()})
	add("epochs.infos", "epochs.infos", "/evmos.epochs.v1.Query/EpochInfos", &epochstypes.QueryEpochsInfoRequest{})
	add("epochs.current.day", "epochs.current", "/evmos.epochs.v1.Query/CurrentEpoch", &epochstypes.QueryCurrentEpochRequest{Identifier: "day"})
	add("vesting.totallocked", "vesting.totallocked", "/haqq.vesting.v1.Query/TotalLocked", &vestingtypes.QueryTotalLockedRequest{})
	n.App.BankKeeper.IterateTotalSupply(ctx, func(c sdk.Coin) bool {
		if strings.HasPrefix(c.Denom, "aLIQUID") {
			add("erc20.pair."+c.Denom, "erc20.pair", "/evmos.erc20.v1.Query/TokenPair", &erc20types.QueryTokenPairRequest{Token: c.Denom})
			add("liquidvesting.denom."+c.Denom, "liquidvesting.denom", "/haqq.liquidvesting.v1.Query/Denom", &liquidvestingtypes.QueryDenomRequest{Denom: c.Denom})
		}
		return false
	})
	for id := 0; id < 4; id++ {
		d := fmt.Sprintf("aLIQUID%d", id)
		add("erc20.pair."+d, "erc20.pair", "/evmos.erc20.v1.Query/TokenPair", &erc20types.QueryTokenPairRequest{Token: d})
		add("liquidvesting.denom."+d, "liquidvesting.denom", "/haqq.liquidvesting.v1.Query/Denom", &liquidvestingtypes.QueryDenomRequest{Denom: d})
	}
	i := 0
	n.App.AccountKeeper.IterateAccounts(ctx, func(acc authtypes.AccountI) bool {
		i++
		addr := acc.GetAddress()
		hex := common.BytesToAddress(addr).Hex()
		add(fmt.Sprintf("evm.account.%03d", i), "evm.account", "/ethermint.evm.v1.Query/Account", &evmtypes.QueryAccountRequest{Address: hex})
		add(fmt.Sprintf("ucdao.balances.%03d", i), "ucdao.balances", "/haqq.ucdao.v1.Query/AllBalances", &ucdaotypes.QueryAllBalancesRequest{Address: addr.String()})
		if _, ok := acc.(*vestingtypes.ClawbackVestingAccount); ok {
			add(fmt.Sprintf("vesting.balances.%03d", i), "vesting.balances", "/haqq.vesting.v1.Query/Balances", &vestingtypes.QueryBalancesRequest{Address: addr.String()})
		}
		if ea, ok := acc.(interface{ GetCodeHash() common.Hash }); ok {
			if ea.GetCodeHash() != common.BytesToHash(evmtypes.EmptyCodeHash) {
				// eth_call with empty calldata and no chain id in the request (the node supplies its own)
				// (the proposer address is part of the request, as in the JSON-RPC backend; the chain id is not)
				targs, _ := json.Marshal(map[string]any{"to": hex, "from": "0x0000000000000000000000000000000000001234", "gas": "0x7a120"})
				qn := "evm.ethcall"
				if code := n.App.EvmKeeper.GetCode(ctx, ea.GetCodeHash()); len(code) > 3 && code[0] == 0x60 && code[1] == 0x05 && code[2] == 0x43 {
					qn = "evm.ethcall-probe" // answers BLOCKHASH: header history
				}
				add(fmt.Sprintf("%s.%03d", qn, i), qn, "/ethermint.evm.v1.Query/EthCall",
					&evmtypes.EthCallRequest{Args: targs, GasCap: 1_000_000, ProposerAddress: n.W.Vals[0].ConsAddr()})
			}
			add(fmt.Sprintf("evm.code.%03d", i), "evm.code", "/ethermint.evm.v1.Query/Code", &evmtypes.QueryCodeRequest{Address: hex})
			for slot := 0; slot < 4; slot++ {
				add(fmt.Sprintf("evm.storage.%03d.%d", i, slot), "evm.storage", "/ethermint.evm.v1.Query/Storage",
					&evmtypes.QueryStorageRequest{Address: hex, Key: common.BigToHash(big.NewInt(int64(slot))).Hex()})
			}
		}
		return false
	})
	return out
}
